(* JSON values as the pub model handles them.  Objects are association lists
   (key order is irrelevant: json_eqb compares objects as finite maps). *)
From Coq Require Import String List Bool ZArith.
From Verif Require Import Base.ListX.
Import ListNotations.
Open Scope string_scope.

Inductive json :=
| JNull
| JBool (b : bool)
| JNum (n : Z)
| JStr (s : string)
| JArr (l : list json)
| JObj (m : list (string * json)).

Definition jfields (j : json) : list (string * json) := match j with JObj m => m | _ => [] end.

Definition jget (k : string) (j : json) : option json := assoc k (jfields j).

Fixpoint remove_key (k : string) (m : list (string * json)) : list (string * json) :=
  match m with
  | [] => []
  | (k', v) :: r => if String.eqb k k' then remove_key k r else (k', v) :: remove_key k r
  end.

Definition jremove (k : string) (j : json) : json :=
  match j with JObj m => JObj (remove_key k m) | _ => j end.

(* set or replace a member (position of a new key: at the end) *)
Fixpoint set_key (k : string) (v : json) (m : list (string * json)) : list (string * json) :=
  match m with
  | [] => [(k, v)]
  | (k', v') :: r => if String.eqb k k' then (k, v) :: remove_key k r else (k', v') :: set_key k v r
  end.

Definition jset (k : string) (v : json) (j : json) : json :=
  match j with JObj m => JObj (set_key k v m) | _ => j end.

Definition jhas (k : string) (j : json) : bool := match jget k j with Some _ => true | None => false end.

(* structural equality up to object key order; fuel = nesting depth bound *)
Fixpoint json_eqb_fuel (fuel : nat) (a b : json) : bool :=
  match fuel with
  | O => false
  | S f =>
    match a, b with
    | JNull, JNull => true
    | JBool x, JBool y => Bool.eqb x y
    | JNum x, JNum y => Z.eqb x y
    | JStr x, JStr y => String.eqb x y
    | JArr x, JArr y =>
        (fix go (x y : list json) : bool :=
           match x, y with
           | [], [] => true
           | u :: x', v :: y' => json_eqb_fuel f u v && go x' y'
           | _, _ => false
           end) x y
    | JObj x, JObj y =>
        Nat.eqb (length x) (length y) &&
        forallb (fun kv => match assoc (fst kv) y with Some v => json_eqb_fuel f (snd kv) v | None => false end) x
    | _, _ => false
    end
  end.
Definition json_eqb (a b : json) : bool := json_eqb_fuel 64 a b.

Definition jstr_list (l : list string) : list json := map JStr l.

(* ---- exact (ordered) structural equality, and a canonical form with sorted keys ---- *)
Fixpoint jeqb (a b : json) : bool :=
  match a, b with
  | JNull, JNull => true
  | JBool x, JBool y => Bool.eqb x y
  | JNum x, JNum y => Z.eqb x y
  | JStr x, JStr y => String.eqb x y
  | JArr x, JArr y =>
      (fix go (x y : list json) : bool :=
         match x, y with
         | [], [] => true
         | u :: x', v :: y' => jeqb u v && go x' y'
         | _, _ => false
         end) x y
  | JObj x, JObj y =>
      (fix go (x y : list (string * json)) : bool :=
         match x, y with
         | [], [] => true
         | (k, u) :: x', (k', v) :: y' => String.eqb k k' && jeqb u v && go x' y'
         | _, _ => false
         end) x y
  | _, _ => false
  end.

Lemma jeqb_eq : forall a b, jeqb a b = true -> a = b.
Proof.
  fix IH 1. intros a b. destruct a as [| x | x | x | l | m], b as [| y | y | y | l' | m']; simpl; try discriminate; intros H.
  - reflexivity.
  - apply Bool.eqb_prop in H. congruence.
  - apply Z.eqb_eq in H. congruence.
  - apply String.eqb_eq in H. congruence.
  - f_equal. revert l' H. induction l as [|u x IHx]; intros [|v y] H; try discriminate; [reflexivity|].
    apply andb_true_iff in H. destruct H as [H1 H2]. f_equal; [apply IH; exact H1|apply IHx; exact H2].
  - f_equal. revert m' H. induction m as [|[k u] x IHx]; intros [|[k' v] y] H; try discriminate; [reflexivity|].
    apply andb_true_iff in H. destruct H as [H H3]. apply andb_true_iff in H. destruct H as [H1 H2].
    apply String.eqb_eq in H1. subst. f_equal; [f_equal; apply IH; exact H2|apply IHx; exact H3].
Qed.

Fixpoint insert_kv (k : string) (v : json) (m : list (string * json)) : list (string * json) :=
  match m with
  | [] => [(k, v)]
  | (k', v') :: r => match String.compare k k' with
                     | Lt | Eq => (k, v) :: (k', v') :: r
                     | Gt => (k', v') :: insert_kv k v r
                     end
  end.

Fixpoint canon (j : json) : json :=
  match j with
  | JArr l => JArr (map canon l)
  | JObj m => JObj (fold_right (fun kv acc => insert_kv (fst kv) (canon (snd kv)) acc) [] m)
  | _ => j
  end.

Lemma jeqb_refl : forall a, jeqb a a = true.
Proof.
  fix IH 1. intros a. destruct a as [| x | x | x | l | m]; simpl.
  - reflexivity.
  - destruct x; reflexivity.
  - apply Z.eqb_refl.
  - apply String.eqb_refl.
  - induction l as [|u x IHx]; [reflexivity|]. rewrite IH. exact IHx.
  - induction m as [|[k u] x IHx]; [reflexivity|]. rewrite String.eqb_refl, IH. exact IHx.
Qed.
