(* Shared list / string helpers. *)
From Coq Require Import String List Bool Arith Lia.
Import ListNotations.
Open Scope string_scope.

Definition mem (x : string) (l : list string) : bool := existsb (String.eqb x) l.

Lemma mem_In x l : mem x l = true <-> In x l.
Proof.
  unfold mem. rewrite existsb_exists. split.
  - intros [y [Hy He]]. apply String.eqb_eq in He. subst. exact Hy.
  - intros H. exists x. split; [exact H|apply String.eqb_refl].
Qed.

Lemma mem_false_In x l : mem x l = false <-> ~ In x l.
Proof.
  rewrite <- mem_In. destruct (mem x l); split; intros H; congruence.
Qed.

Definition subset (a b : list string) : bool := forallb (fun x => mem x b) a.

Lemma subset_spec a b : subset a b = true <-> (forall x, In x a -> In x b).
Proof.
  unfold subset. rewrite forallb_forall. split; intros H x Hx.
  - apply mem_In. apply H. exact Hx.
  - apply mem_In. apply H. exact Hx.
Qed.

Definition set_eq (a b : list string) : bool := subset a b && subset b a.

Lemma set_eq_spec a b : set_eq a b = true <-> (forall x, In x a <-> In x b).
Proof.
  unfold set_eq. rewrite andb_true_iff, !subset_spec. split.
  - intros [H1 H2] x. split; auto.
  - intros H. split; intros x; apply H.
Qed.

Fixpoint nodupb (l : list string) : bool :=
  match l with
  | [] => true
  | x :: r => negb (mem x r) && nodupb r
  end.

Lemma nodupb_spec l : nodupb l = true <-> NoDup l.
Proof.
  induction l as [|x r IH]; simpl.
  - split; [constructor|reflexivity].
  - rewrite andb_true_iff, negb_true_iff, mem_false_In, IH. split.
    + intros [H1 H2]. constructor; assumption.
    + intros H. inversion H; subst. split; assumption.
Qed.

Fixpoint list_eqb (a b : list string) : bool :=
  match a, b with
  | [], [] => true
  | x :: a', y :: b' => String.eqb x y && list_eqb a' b'
  | _, _ => false
  end.

Lemma list_eqb_eq a b : list_eqb a b = true <-> a = b.
Proof.
  revert b. induction a as [|x a IH]; intros [|y b]; simpl; split; try congruence; try reflexivity.
  - rewrite andb_true_iff, String.eqb_eq, IH. intros [-> ->]. reflexivity.
  - intros H. inversion H; subst. rewrite String.eqb_refl. simpl. apply IH. reflexivity.
Qed.

(* association-list lookup *)
Fixpoint assoc {A} (k : string) (l : list (string * A)) : option A :=
  match l with
  | [] => None
  | (k', v) :: r => if String.eqb k k' then Some v else assoc k r
  end.

Fixpoint find_row {A} (key : A -> string) (k : string) (l : list A) : option A :=
  match l with
  | [] => None
  | r :: rest => if String.eqb k (key r) then Some r else find_row key k rest
  end.

Lemma find_row_In {A} (key : A -> string) k l r : find_row key k l = Some r -> In r l /\ key r = k.
Proof.
  induction l as [|x l IH]; simpl; [discriminate|].
  destruct (String.eqb k (key x)) eqn:E.
  - intros H. inversion H; subst. apply String.eqb_eq in E. split; [left; reflexivity|symmetry; exact E].
  - intros H. destruct (IH H) as [H1 H2]. split; [right; exact H1|exact H2].
Qed.

Lemma forallb_forall2 {A} (f : A -> bool) l : forallb f l = true -> forall x, In x l -> f x = true.
Proof. apply forallb_forall. Qed.

Fixpoint dedup (l : list string) : list string :=
  match l with
  | [] => []
  | x :: r => if mem x r then dedup r else x :: dedup r
  end.
