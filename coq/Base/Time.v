(* Calendar arithmetic for the headers and timestamps package pub writes:
   civil date from days since the epoch (proleptic Gregorian, Hinnant's
   algorithm), IMF-fixdate (RFC 7231) and RFC 3339 UTC renderings. *)
From Coq Require Import String Ascii List ZArith Lia.
Import ListNotations.
Open Scope Z_scope.

Definition civil_from_days (z : Z) : Z * Z * Z :=
  let z := z + 719468 in
  let era := z / 146097 in   (* floor division: Z's own / (the correction z - 146096 belongs to truncating division) *)
  let doe := z - era * 146097 in
  let yoe := (doe - doe / 1460 + doe / 36524 - doe / 146096) / 365 in
  let y := yoe + era * 400 in
  let doy := doe - (365 * yoe + yoe / 4 - yoe / 100) in
  let mp := (5 * doy + 2) / 153 in
  let d := doy - (153 * mp + 2) / 5 + 1 in
  let m := if mp <? 10 then mp + 3 else mp - 9 in
  (if m <=? 2 then y + 1 else y, m, d).

(* 0 = Sunday *)
Definition weekday (days : Z) : Z := (days + 4) mod 7.

Definition digit_char (d : Z) : ascii := ascii_of_nat (48 + Z.to_nat d).
Definition pad2 (n : Z) : string := String (digit_char (n / 10 mod 10)) (String (digit_char (n mod 10)) EmptyString).
Definition pad4 (n : Z) : string :=
  String (digit_char (n / 1000 mod 10)) (String (digit_char (n / 100 mod 10)) (pad2 (n mod 100))).

Definition day_name (w : Z) : string :=
  nth (Z.to_nat w) ["Sun"; "Mon"; "Tue"; "Wed"; "Thu"; "Fri"; "Sat"]%string ""%string.
Definition month_name (m : Z) : string :=
  nth (Z.to_nat (m - 1)) ["Jan"; "Feb"; "Mar"; "Apr"; "May"; "Jun"; "Jul"; "Aug"; "Sep"; "Oct"; "Nov"; "Dec"]%string ""%string.

Definition split_unix (t : Z) : Z * Z * Z * Z :=   (* days, hour, minute, second *)
  let days := t / 86400 in let s := t mod 86400 in (days, s / 3600, s mod 3600 / 60, s mod 60).

(* "Mon, 02 Jan 2006 15:04:05 GMT" *)
Definition http_date (t : Z) : string :=
  let '(days, h, mi, s) := split_unix t in
  let '(y, m, d) := civil_from_days days in
  (day_name (weekday days) ++ ", " ++ pad2 d ++ " " ++ month_name m ++ " " ++ pad4 y ++ " " ++
   pad2 h ++ ":" ++ pad2 mi ++ ":" ++ pad2 s ++ " GMT")%string.

(* "2006-01-02T15:04:05Z" *)
Definition rfc3339_utc (t : Z) : string :=
  let '(days, h, mi, s) := split_unix t in
  let '(y, m, d) := civil_from_days days in
  (pad4 y ++ "-" ++ pad2 m ++ "-" ++ pad2 d ++ "T" ++ pad2 h ++ ":" ++ pad2 mi ++ ":" ++ pad2 s ++ "Z")%string.
