(* Programs of package pub as event trees: a program either returns or issues
   an event (a call on an application-supplied interface) and continues with
   whatever the environment answers.  The meaning of a program is the set of its
   (event, answer) traces under EVERY environment.  Properties of all traces are
   stated with monitors (deterministic state machines over traces) and proved
   through a weakest-precondition transformer defined by recursion on the
   program. *)
From Coq Require Import List Bool.
Import ListNotations.

Section Free.
  Variables ev ans : Type.

  Inductive M (A : Type) : Type :=
  | Ret (a : A)
  | Op (e : ev) (k : ans -> M A).
  Arguments Ret {A}. Arguments Op {A}.

  Fixpoint bind {A B} (m : M A) (f : A -> M B) : M B :=
    match m with
    | Ret a => f a
    | Op e k => Op e (fun x => bind (k x) f)
    end.

  Definition call (e : ev) : M ans := Op e (fun x => Ret x).

  Definition trace := list (ev * ans).

  (* tr is a complete run of m with result a *)
  Fixpoint runs {A} (m : M A) (tr : trace) (a : A) : Prop :=
    match m with
    | Ret x => tr = [] /\ x = a
    | Op e k => match tr with
                | (e', x) :: tr' => e' = e /\ runs (k x) tr' a
                | [] => False
                end
    end.

  (* ---- replay: does the program, given the recorded answers, issue the recorded events? ---- *)
  Variable ev_eqb : ev -> ev -> bool.
  Inductive replay_res (A : Type) :=
  | RDone (a : A)                      (* trace consumed exactly, program returned a *)
  | RMismatch (pos : nat) (expected : ev)  (* program issued [expected] at position pos, the trace has something else (or ended) *)
  | RExtra (pos : nat).                 (* program returned, the trace continues *)
  Arguments RDone {A}. Arguments RMismatch {A}. Arguments RExtra {A}.

  Fixpoint replay {A} (m : M A) (tr : trace) (pos : nat) : replay_res A :=
    match m with
    | Ret a => match tr with [] => RDone a | _ => RExtra pos end
    | Op e k => match tr with
                | (e', x) :: tr' => if ev_eqb e e' then replay (k x) tr' (S pos) else RMismatch pos e
                | [] => RMismatch pos e
                end
    end.

  Hypothesis ev_eqb_eq : forall a b, ev_eqb a b = true -> a = b.

  Lemma replay_runs {A} (m : M A) : forall tr pos a, replay m tr pos = RDone a -> runs m tr a.
  Proof.
    induction m as [x|e k IH]; intros tr pos a H; simpl in *.
    - destruct tr; [inversion H; auto|discriminate].
    - destruct tr as [|[e' x] tr']; [discriminate|].
      destruct (ev_eqb e e') eqn:E; [|discriminate].
      apply ev_eqb_eq in E. split; [symmetry; exact E|]. eapply IH. exact H.
  Qed.

  (* ---- monitors ---- *)
  Section Monitor.
    Variable S : Type.
    Variable step : S -> ev -> ans -> option S.   (* None = the property is violated at this event *)

    Fixpoint run_monitor (s : S) (tr : trace) : option S :=
      match tr with
      | [] => Some s
      | (e, x) :: r => match step s e x with Some s' => run_monitor s' r | None => None end
      end.

    (* every run of m from monitor state s is accepted and ends in a state / result satisfying Q *)
    Fixpoint wp {A} (m : M A) (s : S) (Q : S -> A -> Prop) : Prop :=
      match m with
      | Ret a => Q s a
      | Op e k => forall x, match step s e x with Some s' => wp (k x) s' Q | None => False end
      end.

    Lemma wp_bind {A B} (m : M A) (f : A -> M B) : forall s Q,
      wp m s (fun s' a => wp (f a) s' Q) -> wp (bind m f) s Q.
    Proof.
      induction m as [a|e k IH]; intros s Q H; simpl in *; [exact H|].
      intros x. specialize (H x). destruct (step s e x); [|exact H]. apply IH. exact H.
    Qed.

    Lemma wp_mono {A} (m : M A) : forall s (Q Q' : S -> A -> Prop),
      (forall s' a, Q s' a -> Q' s' a) -> wp m s Q -> wp m s Q'.
    Proof.
      induction m as [a|e k IH]; intros s Q Q' HQ H; simpl in *; [apply HQ; exact H|].
      intros x. specialize (H x). destruct (step s e x); [|exact H]. eapply IH; eauto.
    Qed.

    Theorem wp_sound {A} (m : M A) : forall s Q, wp m s Q ->
      forall tr a, runs m tr a -> exists s', run_monitor s tr = Some s' /\ Q s' a.
    Proof.
      induction m as [x|e k IH]; intros s Q H tr a R; simpl in *.
      - destruct R as [-> ->]. exists s. auto.
      - destruct tr as [|[e' x] tr']; [contradiction|]. destruct R as [-> R]. simpl.
        specialize (H x). destruct (step s e x) as [s'|]; [|contradiction]. eapply IH; eauto.
    Qed.
  End Monitor.
End Free.

Arguments Ret {ev ans A}. Arguments Op {ev ans A}.
Arguments bind {ev ans A B}. Arguments call {ev ans}.
Arguments runs {ev ans A}. Arguments replay {ev ans} ev_eqb {A}.
Arguments RDone {ev A}. Arguments RMismatch {ev A}. Arguments RExtra {ev A}.
Arguments run_monitor {ev ans S}. Arguments wp {ev ans S} step {A}.
