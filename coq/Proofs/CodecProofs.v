(* C01: the round trip of the codec model is the identity on documents in canonical form, drops nothing silently
   beyond what the statement allows. *)
From Coq Require Import String List Bool Arith ZArith.
From Verif Require Import Base.ListX Base.Json Vocab.Tables Streams.Codec.
Import ListNotations.
Open Scope string_scope.
Open Scope list_scope.

Section CodecProofs.
  Variable T : list type_row.
  Variable P : list prop_row.
  Variable url_ok : string -> bool.
  Variable norm_iri : string -> string.
  Variable norm : string -> json -> option json.

  Notation rt_type := (rt_type T P url_ok norm_iri norm).
  Notation rt_elem := (rt_elem T url_ok norm_iri norm).
  Notation rt_prop := (rt_prop T url_ok norm_iri norm).
  Notation rt_member := (rt_member T P url_ok norm_iri norm).
  Notation try_chain := (try_chain T norm).

  (* a scalar in canonical lexical form: every literal codec that accepts it returns it unchanged; an IRI is in URL-normal form *)
  Definition lexical (e : json) : Prop :=
    (forall k v, norm k e = Some v -> v = e) /\ (forall s, e = JStr s -> url_ok s = true -> norm_iri s = s).

  (* an element in canonical form, given what canonical means for the members of an embedded value *)
  Definition celem_with (cm : type_row -> list (string * json) -> Prop) (x : json) : Prop :=
    lexical x /\ match x with JObj em => forall r, cm r em | _ => True end.

  (* canonical form of the members of a value decoded as type row, to nesting depth fuel *)
  Fixpoint cmembers (fuel : nat) (row : type_row) (m : list (string * json)) : Prop :=
    match fuel with
    | O => True
    | S f =>
      Forall (fun kv =>
        match prop_of_key P row (fst kv) with
        | None => True                                      (* unknown / extension member: kept verbatim whatever it is *)
        | Some (p, is_map) =>
            snd kv <> JNull /\
            (* single values are written as scalars *)
            (p_functional p = false -> forall x, snd kv <> JArr [x]) /\
            (* the spelling matches the value: <name>Map exactly for a single language map, and only one spelling is present *)
            (is_map = (p_has_map p && is_langstring (snd kv))) /\
            (is_map = true -> assoc (p_name p) m = None) /\
            (fst kv = if is_map then String.append (p_name p) "Map" else p_name p) /\
            (* the elements *)
            match snd kv with
            | JArr l => if p_functional p then celem_with (cmembers f) (snd kv) else Forall (celem_with (cmembers f)) l
            | x => celem_with (cmembers f) x
            end
        end) m
    end.

  Lemma flat_map_id {A} (g : A -> list A) (l : list A) : Forall (fun x => g x = [x]) l -> flat_map g l = l.
  Proof. induction 1 as [|x r Hx _ IH]; [reflexivity|]. simpl. rewrite Hx, IH. reflexivity. Qed.

  Section Level.
    Variable f : nat.
    Hypothesis IH : forall row m m', cmembers f row m -> rt_type f row m = Some m' -> m' = m.

    Lemma try_chain_id e : celem_with (cmembers f) e -> forall chain, try_chain (rt_type f) e chain = e.
    Proof.
      intros [[Hn _] Ho] chain. induction chain as [|k rest IHc]; [reflexivity|]. cbn [Codec.try_chain].
      destruct (is_literal_kind k).
      - destruct (norm k e) as [v|] eqn:E; [apply (Hn k v E)|exact IHc].
      - destruct e as [| | | | |em]; try exact IHc. destruct (trow T k) as [r|]; [|exact IHc].
        destruct (_ || _); [|exact IHc]. destruct (rt_type f r em) as [em'|] eqn:E; [|exact IHc].
        rewrite (IH r em em' (Ho r) E). reflexivity.
    Qed.

    Lemma rt_elem_id p e : celem_with (cmembers f) e -> rt_elem (rt_type f) p e = e.
    Proof.
      intros He. unfold Codec.rt_elem. destruct e as [| | |s| |]; try (apply try_chain_id; exact He).
      destruct (mem "IRI" (p_deser p) && url_ok s) eqn:E; [|apply try_chain_id; exact He].
      apply andb_true_iff in E. destruct E as [_ Eu]. destruct He as [[_ Hi] _]. rewrite (Hi s eq_refl Eu). reflexivity.
    Qed.

    Lemma map_rt_elem_id p l : Forall (celem_with (cmembers f)) l -> map (rt_elem (rt_type f) p) l = l.
    Proof. induction 1 as [|x r Hx _ IHl]; [reflexivity|]. simpl. rewrite (rt_elem_id p x Hx), IHl. reflexivity. Qed.

    Lemma rt_member_id row m kv : In kv m ->
      match prop_of_key P row (fst kv) with
      | None => True
      | Some (p, is_map) =>
          snd kv <> JNull /\ (p_functional p = false -> forall x, snd kv <> JArr [x]) /\
          (is_map = (p_has_map p && is_langstring (snd kv))) /\ (is_map = true -> assoc (p_name p) m = None) /\
          (fst kv = if is_map then String.append (p_name p) "Map" else p_name p) /\
          match snd kv with
          | JArr l => if p_functional p then celem_with (cmembers f) (snd kv) else Forall (celem_with (cmembers f)) l
          | x => celem_with (cmembers f) x
          end
      end -> rt_member (rt_type f) row m kv = [kv].
    Proof.
      intros _ H. unfold Codec.rt_member. destruct kv as [k v]. cbn [fst snd] in *.
      destruct (prop_of_key P row k) as [[p is_map]|]; [|reflexivity].
      destruct H as [Hnull [Hsingle [Hmap [Habsent [Hkey Hel]]]]].
      assert (Hv : rt_prop (rt_type f) p v = v).
      { unfold Codec.rt_prop. destruct (p_functional p) eqn:Ef.
        - apply rt_elem_id. destruct v; exact Hel.
        - destruct v as [| | | |l|]; try (apply rt_elem_id; exact Hel).
          rewrite (map_rt_elem_id p l Hel). destruct l as [|x [|y r]]; try reflexivity. exfalso. apply (Hsingle eq_refl x). reflexivity. }
      rewrite Hv.
      destruct is_map.
      - rewrite (Habsent eq_refl). cbn [andb]. destruct v; try congruence; unfold Codec.out_name; rewrite <- Hmap; rewrite Hkey; reflexivity.
      - cbn [andb]. destruct v; try congruence; unfold Codec.out_name; rewrite <- Hmap; rewrite Hkey; reflexivity.
    Qed.
  End Level.

  (* the round trip is the identity on canonical documents, at every nesting depth *)
  Theorem roundtrip_identity : forall n row m m', cmembers n row m -> rt_type n row m = Some m' -> m' = m.
  Proof.
    induction n as [|f IH]; intros row m m' Hc H; [discriminate|].
    cbn [Codec.rt_type] in H. unfold rt_members in H. destruct (negb _); [discriminate|]. inversion H; subst m'. clear H.
    apply flat_map_id. cbn [cmembers] in Hc. rewrite Forall_forall in *. intros kv Hin.
    apply (rt_member_id f IH row m kv Hin). exact (Hc kv Hin).
  Qed.

  (* nothing is dropped silently: an unknown member is kept verbatim; a known one comes back under the name its value
     calls for, unless its value encodes to null or it is the Map spelling next to the plain one (the case the
     statement does not allow: finding F13) *)
  Theorem members_kept : forall n row m m', rt_type n row m = Some m' -> forall kv, In kv m ->
    match prop_of_key P row (fst kv) with
    | None => In kv m'
    | Some (p, is_map) =>
        (is_map = true /\ assoc (p_name p) m <> None) \/
        rt_prop (rt_type (pred n)) p (snd kv) = JNull \/
        In (out_name p (rt_prop (rt_type (pred n)) p (snd kv)), rt_prop (rt_type (pred n)) p (snd kv)) m'
    end.
  Proof.
    intros [|f] row m m' H kv Hin; [discriminate|]. cbn [Codec.rt_type pred] in *. unfold rt_members in H.
    destruct (negb _); [discriminate|]. inversion H; subst m'. clear H.
    destruct (prop_of_key P row (fst kv)) as [[p is_map]|] eqn:Ek.
    - destruct (is_map && match assoc (p_name p) m with Some _ => true | None => false end) eqn:Eb.
      + left. apply andb_true_iff in Eb. destruct Eb as [E1 E2]. split; [exact E1|]. destruct (assoc (p_name p) m); [discriminate|discriminate].
      + right. destruct (rt_prop (rt_type f) p (snd kv)) eqn:Ev; try (left; reflexivity); right;
          apply in_flat_map; exists kv; (split; [exact Hin|]); unfold Codec.rt_member; rewrite Ek, Eb, Ev; left; reflexivity.
    - apply in_flat_map. exists kv. split; [exact Hin|]. unfold Codec.rt_member. rewrite Ek. left. reflexivity.
  Qed.
  (* ---- the rebuilt @context ---- *)
  Notation cx_type := (cx_type T P url_ok norm_iri norm).
  Notation cx_prop := (cx_prop T url_ok norm).
  (* exactly the vocabularies used: the type's own, and for every known member that encodes to something the property's own
     and those of the values embedded in it *)
  Theorem context_exact : forall n row m u,
    In u (cx_type (S n) row m) <->
    u = t_vocab_uri row \/
    exists kv p is_map, In kv m /\ prop_of_key P row (fst kv) = Some (p, is_map) /\
      (is_map && match assoc (p_name p) m with Some _ => true | None => false end) = false /\
      rt_prop (rt_type n) p (snd kv) <> JNull /\
      (u = p_vocab_uri p \/ In u (cx_prop (rt_type n) (cx_type n) p (snd kv))).
  Proof.
    intros n row m u. cbn [Codec.cx_type]. unfold cx_members. cbn [In]. rewrite in_flat_map. split.
    - intros [H|[kv [Hin Hu]]]; [left; symmetry; exact H|]. right. unfold cx_member in Hu.
      destruct (prop_of_key P row (fst kv)) as [[p is_map]|] eqn:Ek; [|destruct Hu].
      destruct (is_map && match assoc (p_name p) m with Some _ => true | None => false end) eqn:Eb; [destruct Hu|].
      exists kv, p, is_map. split; [exact Hin|]. split; [exact Ek|]. split; [exact Eb|].
      destruct (rt_prop (rt_type n) p (snd kv)) eqn:Ev; try (destruct Hu; fail);
        (split; [discriminate|]); (destruct Hu as [Hu|Hu]; [left; symmetry; exact Hu|right; exact Hu]).
    - intros [H|[kv [p [is_map [Hin [Ek [Eb [Hv Hu]]]]]]]]; [left; symmetry; exact H|]. right. exists kv. split; [exact Hin|].
      unfold cx_member. rewrite Ek, Eb.
      destruct (rt_prop (rt_type n) p (snd kv)) eqn:Ev; try (exfalso; apply Hv; reflexivity);
        (destruct Hu as [Hu|Hu]; [left; symmetry; exact Hu|right; exact Hu]).
  Qed.
  (* and the round trip of a canonical document leaves it as it is *)
  Theorem context_roundtrip : forall n row m m', cmembers n row m -> rt_type n row m = Some m' -> cx_type n row m' = cx_type n row m.
  Proof. intros n row m m' Hc H. rewrite (roundtrip_identity n row m m' Hc H). reflexivity. Qed.
End CodecProofs.
