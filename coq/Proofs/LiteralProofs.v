(* The value a duration's lexical form denotes: 365-day years, 30-day months. *)
From Coq Require Import String Ascii List Bool ZArith Lia.
From Verif Require Import Streams.Literals.
Import ListNotations.
Open Scope Z_scope.

Lemma wrap64_id z : - two63 <= z < two63 -> wrap64 z = z.
Proof. unfold wrap64, two63. intros H. rewrite Z.mod_small by lia. lia. Qed.

Definition all_digits (d : list ascii) : Prop := forallb is_digit d = true.

Lemma take_digits_app d rest : all_digits d ->
  match rest with c :: _ => is_digit c = false | [] => True end ->
  take_digits (d ++ rest) = (d, rest).
Proof.
  unfold all_digits. induction d as [|c d IH]; simpl; intros Hd Hr.
  - destruct rest as [|c r]; [reflexivity|]. simpl. rewrite Hr. reflexivity.
  - apply andb_true_iff in Hd. destruct Hd as [Hc Hd]. rewrite Hc. rewrite (IH Hd Hr). reflexivity.
Qed.

Lemma group_hit letter d rest : all_digits d -> is_digit letter = false ->
  group letter (d ++ letter :: rest) = (Some d, rest).
Proof.
  intros Hd Hl. unfold group. rewrite (take_digits_app d (letter :: rest) Hd Hl).
  rewrite Ascii.eqb_refl. reflexivity.
Qed.

Definition ns_of (y mo d h mi s : Z) : Z :=
  y * (8760 * hour_ns) + mo * (720 * hour_ns) + d * (24 * hour_ns) + h * hour_ns + mi * 60000000000 + s * 1000000000.

Definition lexical (dy dm dd dh dmi ds : list ascii) : string :=
  string_of_list_ascii ("P"%char :: dy ++ "Y"%char :: dm ++ "M"%char :: dd ++ "D"%char :: "T"%char ::
                        dh ++ "H"%char :: dmi ++ "M"%char :: ds ++ "S"%char :: [])%list.

Lemma add_group_some d u a : d <> [] -> int64_ok (digits_val d) = true -> a + digits_val d * u < two63 ->
  add_group (Some d) u (Some a) = Some (a + digits_val d * u).
Proof.
  intros Hn Hok Hlt. unfold add_group. destruct d; [congruence|]. rewrite Hok.
  destruct (Z.ltb_spec (a + digits_val (a0 :: d) * u) two63) as [_|Hge]; [reflexivity|lia].
Qed.

(* full form P<y>Y<mo>M<d>DT<h>H<mi>M<s>S, any number of digits per field, no int64 overflow *)
Theorem duration_value dy dm dd dh dmi ds :
  all_digits dy -> all_digits dm -> all_digits dd -> all_digits dh -> all_digits dmi -> all_digits ds ->
  dy <> [] -> dm <> [] -> dd <> [] -> dh <> [] -> dmi <> [] -> ds <> [] ->
  let y := digits_val dy in let mo := digits_val dm in let d := digits_val dd in
  let h := digits_val dh in let mi := digits_val dmi in let s := digits_val ds in
  0 <= y -> 0 <= mo -> 0 <= d -> 0 <= h -> 0 <= mi -> 0 <= s ->
  ns_of y mo d h mi s < two63 ->
  parse_duration (lexical dy dm dd dh dmi ds) = DOk (ns_of y mo d h mi s).
Proof.
  intros Ay Am Ad Ah Ami As Ny Nm Nd Nh Nmi Ns y mo d h mi s Py Pm Pd Ph Pmi Ps Hlt.
  unfold parse_duration, lexical, chars. rewrite list_ascii_of_string_of_list_ascii.
  cbn [Ascii.eqb Bool.eqb negb].
  change (Ascii.eqb "P" "-") with false. cbn iota.
  change (Ascii.eqb "P" "P") with true. cbn [negb]. cbn iota.
  rewrite (group_hit "Y" dy _ Ay eq_refl).
  rewrite (group_hit "M" dm _ Am eq_refl).
  rewrite (group_hit "D" dd _ Ad eq_refl).
  change (Ascii.eqb "T" "T") with true. cbn iota.
  rewrite (group_hit "H" dh _ Ah eq_refl).
  rewrite (group_hit "M" dmi _ Ami eq_refl).
  rewrite (group_hit "S" ds _ As eq_refl).
  assert (B : forall v u, 0 <= v -> 0 < u -> v * u < two63 -> int64_ok v = true).
  { intros v u Hv Hu Hvu. unfold int64_ok. apply andb_true_iff. unfold two63 in *. split; [apply Z.leb_le; lia|apply Z.ltb_lt; nia]. }
  unfold ns_of, hour_ns, two63 in *.
  fold y mo d h mi s.
  assert (Iy : int64_ok y = true) by (apply (B y 31536000000000000); lia).
  assert (Im : int64_ok mo = true) by (apply (B mo 2592000000000000); lia).
  assert (Id : int64_ok d = true) by (apply (B d 86400000000000); lia).
  assert (Ih : int64_ok h = true) by (apply (B h 3600000000000); lia).
  assert (Imi : int64_ok mi = true) by (apply (B mi 60000000000); lia).
  assert (Is : int64_ok s = true) by (apply (B s 1000000000); lia).
  rewrite (add_group_some dy _ 0 Ny Iy) by (unfold two63; fold y; lia).
  rewrite (add_group_some dm _ _ Nm Im) by (unfold two63; fold y mo; lia).
  rewrite (add_group_some dd _ _ Nd Id) by (unfold two63; fold y mo d; lia).
  rewrite (add_group_some dh _ _ Nh Ih) by (unfold two63, hour_ns; fold y mo d h; lia).
  rewrite (add_group_some dmi _ _ Nmi Imi) by (unfold two63, hour_ns; fold y mo d h mi; lia).
  rewrite (add_group_some ds _ _ Ns Is) by (unfold two63, hour_ns; fold y mo d h mi s; lia).
  first [reflexivity | f_equal; unfold hour_ns; lia].
Qed.

(* the two inputs on which the decoder panicked before fix F8 are now rejected; no input panics *)
Theorem duration_total : forall s, parse_duration s <> DPanic.
Proof.
  intros s. unfold parse_duration.
  repeat match goal with
  | |- context [match ?x with _ => _ end] => destruct x
  | |- context [if ?x then _ else _] => destruct x
  | |- context [let (_, _) := ?x in _] => destruct x
  end; discriminate.
Qed.

(* days_from_civil: consecutive days, month and year roll-over, for every year *)
Lemma days_step_in_month y m d : 1 <= m <= 12 -> days_from_civil y m (d + 1) = days_from_civil y m d + 1.
Proof. intros _. unfold days_from_civil. lia. Qed.

Theorem days_epoch : days_from_civil 1970 1 1 = 0.
Proof. reflexivity. Qed.
