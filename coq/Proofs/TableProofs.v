(* C12: the shipped type/property tables against the ontology-derived
   specification, and the meaning of that specification in terms of
   clos_trans subClassOf. *)
From Coq Require Import String List Bool Arith Relations.
From Verif Require Import Base.ListX Vocab.Tables Vocab.Ontology Vocab.Spec Streams.TableSpec Streams.Literals Proofs.SpecProofs.
From Verif Require Import Gen.TablesShipped Gen.OntologyShipped.
Import ListNotations.
Open Scope string_scope.
Open Scope list_scope.

Definition O := ont_shipped.
Definition T := types_shipped.
Definition P := props_shipped.

Lemma tables_ok_shipped : tables_ok O T P = true.
Proof. vm_compute. reflexivity. Qed.

Lemma clear_ok_shipped : forallb clear_ok P = true.
Proof. vm_compute. reflexivity. Qed.

Lemma sat : saturated O = true.
Proof. vm_compute. reflexivity. Qed.

Lemma all_type_props : forallb (type_props_ok O) T = true.
Proof. vm_compute. reflexivity. Qed.
Lemma all_known_keys : forallb (known_keys_ok O) T = true.
Proof. vm_compute. reflexivity. Qed.
Lemma all_prop_rows : forallb (prop_ok O) P = true.
Proof. vm_compute. reflexivity. Qed.

Ltac splitb H := repeat match type of H with (_ && _ = true) => let H' := fresh "Hb" in apply andb_true_iff in H; destruct H as [H H'] end.

Lemma type_props t : In t T -> type_props_ok O t = true.
Proof. intros Ht. pose proof all_type_props as H. rewrite forallb_forall in H. exact (H t Ht). Qed.

Lemma known_keys t : In t T -> known_keys_ok O t = true.
Proof. intros Ht. pose proof all_known_keys as H. rewrite forallb_forall in H. exact (H t Ht). Qed.

Lemma prop_rows p : In p P -> prop_ok O p = true.
Proof. intros Hp. pose proof all_prop_rows as H. rewrite forallb_forall in H. exact (H p Hp). Qed.

(* ---- each type exposes exactly the ontology's properties ---- *)
Lemma fields_exact t : In t T -> forall p, In p (t_fields t) <-> In p (props_of_type O (t_name t)).
Proof.
  intros Ht. pose proof (type_props t Ht) as H. unfold type_props_ok in H.
  splitb H.
  apply set_eq_spec. exact H.
Qed.

Lemma fields_all_used t : In t T -> t_deser t = t_fields t /\ t_ser t = t_fields t /\ NoDup (t_fields t).
Proof.
  intros Ht. pose proof (type_props t Ht) as H. unfold type_props_ok in H.
  splitb H.
  repeat match goal with E : list_eqb _ _ = true |- _ => apply list_eqb_eq in E end.
  match goal with E : nodupb _ = true |- _ => apply nodupb_spec in E end. auto.
Qed.

Lemma known_exact t : In t T -> forall k, In k (t_known t) <-> In k (known_spec O t).
Proof.
  intros Ht. pose proof (known_keys t Ht) as H. unfold known_keys_ok in H.
  apply andb_true_iff in H. destruct H as [H _]. apply set_eq_spec. exact H.
Qed.

(* meaning of props_of_type for any saturated ontology *)
Section Meaning.
  Variable ont : ontology.
  Hypothesis Hsat : saturated ont = true.

  Definition InDomain (o : oprop_row) (a : string) : Prop := exists d, In d (o_domain o) /\ aos ont a d.
  Definition Withheld (o : oprop_row) (a : string) : Prop := exists w, In w (o_without o) /\ aos ont a w.

  Lemma has_domain_spec o a : has_domain ont o a = true <-> InDomain o a.
  Proof.
    unfold has_domain, InDomain. rewrite existsb_exists. split; intros [d [H1 H2]]; exists d; split; try exact H1.
    - apply mem_In in H2. apply (anc_or_self_correct ont Hsat). exact H2.
    - apply mem_In. apply (anc_or_self_correct ont Hsat). exact H2.
  Qed.

  Lemma withheld_spec o a : withheld ont o a = true <-> Withheld o a.
  Proof.
    unfold withheld, Withheld. rewrite existsb_exists. split; intros [d [H1 H2]]; exists d; split; try exact H1.
    - apply mem_In in H2. apply (anc_or_self_correct ont Hsat). exact H2.
    - apply mem_In. apply (anc_or_self_correct ont Hsat). exact H2.
  Qed.

  Theorem props_of_type_meaning a p :
    In p (props_of_type ont a) <->
      (exists o, In o (oprops ont) /\ o_name o = p /\ InDomain o a /\ ~ Withheld o a)
      \/ p = "id" \/ (p = "type" /\ is_typeless ont a = false).
  Proof.
    unfold props_of_type. rewrite in_app_iff, in_map_iff. simpl. split.
    - intros [[o [Hn Ho]]|H].
      + left. apply filter_In in Ho. destruct Ho as [Ho Hc]. apply andb_true_iff in Hc. destruct Hc as [C1 C2].
        exists o. split; [exact Ho|split; [exact Hn|]]. split; [apply has_domain_spec; exact C1|].
        intros W. apply withheld_spec in W. rewrite W in C2. discriminate.
      + right. destruct H as [H|H]; [left; symmetry; exact H|].
        destruct (is_typeless ont a); simpl in H; [contradiction|].
        destruct H as [H|H]; [right; split; [symmetry; exact H|reflexivity]|contradiction].
    - intros [[o [Ho [Hn [Hd Hw]]]]|[H|[H Ht]]].
      + left. exists o. split; [exact Hn|]. apply filter_In. split; [exact Ho|].
        apply andb_true_iff. split; [apply has_domain_spec; exact Hd|].
        apply negb_true_iff. destruct (withheld ont o a) eqn:E; [|reflexivity]. exfalso. apply Hw. apply withheld_spec. exact E.
      + right. left. symmetry. exact H.
      + right. right. rewrite Ht. simpl. left. symmetry. exact H.
  Qed.

  Theorem kinds_of_range_meaning r k :
    In k (kinds_of_range ont r) <->
      exists x, In x r /\ ((is_lit_kind x = true /\ k = x) \/
                           (is_lit_kind x = false /\ (k = x \/ (In k (class_names ont) /\ clos_trans string (parent_rel ont) k x)))).
  Proof.
    unfold kinds_of_range. rewrite in_flat_map. split.
    - intros [x [Hx Hk]]. exists x. split; [exact Hx|]. destruct (is_lit_kind x) eqn:E.
      + left. destruct Hk as [Hk|[]]. auto.
      + right. split; [reflexivity|]. destruct Hk as [Hk|Hk]; [left; auto|right].
        apply (descendants_correct ont Hsat). exact Hk.
    - intros [x [Hx H]]. exists x. split; [exact Hx|]. destruct H as [[E Hk]|[E Hk]]; rewrite E.
      + left. auto.
      + destruct Hk as [Hk|Hk]; [left; auto|right]. apply (descendants_correct ont Hsat). exact Hk.
  Qed.
End Meaning.

(* ---- each property accepts exactly the declared kinds ---- *)
Lemma prop_kinds_exact p : In p P ->
  exists ks fn nl, kinds_spec O (p_name p) = Some (ks, fn, nl) /\
    (forall k, In k (member_kinds p) <-> In k ks) /\ NoDup (member_kinds p) /\
    p_functional p = fn /\ p_has_map p = nl /\ p_map_name p = nl /\ chain_ok p = true.
Proof.
  intros Hp. pose proof (prop_rows p Hp) as H. unfold prop_ok in H.
  destruct (kinds_spec O (p_name p)) as [[[ks fn] nl]|]; [|discriminate].
  exists ks, fn, nl. split; [reflexivity|].
  splitb H.
  repeat match goal with E : Bool.eqb _ _ = true |- _ => apply Bool.eqb_prop in E end.
  match goal with E : nodupb _ = true |- _ => apply nodupb_spec in E end.
  split; [apply set_eq_spec; exact H|]. auto.
Qed.

(* ---- decoding one element: the reported kind is one the chain lists and that accepts the value;
        "UNK" only when no listed kind accepts it ---- *)
Section Decode.
  Variable url_ok : string -> bool.
  Variable typeless : string -> bool.

  Lemma decode_elem_sound chain v k : decode_elem url_ok typeless chain v = k ->
    (In k chain /\ accepts url_ok typeless k v = true /\
       forall k', In k' chain -> accepts url_ok typeless k' v = true ->
         exists pre post, chain = pre ++ k :: post /\ forall x, In x pre -> accepts url_ok typeless x v = false)
    \/ (k = "UNK" /\ forall k', In k' chain -> accepts url_ok typeless k' v = false).
  Proof.
    unfold decode_elem. intros H.
    destruct (find (fun k0 => accepts url_ok typeless k0 v) chain) as [k0|] eqn:E.
    - left. subst k0. pose proof E as E'. apply find_some in E'. destruct E' as [Hin Hacc].
      split; [exact Hin|split; [exact Hacc|]]. intros _ _ _.
      clear Hin. revert E. induction chain as [|c r IH]; simpl; [discriminate|].
      destruct (accepts url_ok typeless c v) eqn:A.
      + intros Hc. inversion Hc; subst. exists [], r. split; [reflexivity|]. intros x [].
      + intros Hc. destruct (IH Hc) as [pre [post [Hp Hall]]]. exists (c :: pre), post. split; [rewrite Hp; reflexivity|].
        intros x [Hx|Hx]; [subst; exact A|apply Hall; exact Hx].
    - right. split; [symmetry; exact H|]. intros k' Hk'. eapply find_none in E; [|exact Hk']. exact E.
  Qed.
End Decode.
