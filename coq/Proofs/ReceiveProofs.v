(* C03, last sentence: "... however the activity was addressed, wrapped or normalised, and the hidden recipients still receive
   the delivery" - the composition of C02 (what Deliver hands to the transport), C03 (what the payload carries) and C05
   (wrapping and normalisation), as theorems about ONE run of Deliver. *)
From Coq Require Import String List Bool Arith.
From Verif Require Import Base.ListX Base.Json Base.Free Pub.Events Pub.Calls Pub.Value Pub.EffectSpec Pub.Util Pub.SideEffect Pub.DeliverySpec.
From Verif Require Import Proofs.ValueProofs Proofs.HiddenProofs Proofs.ServeProofs Proofs.EffectProofs Proofs.DeliveryProofs.
From Verif Require Import Proofs.NormalizeProofs Proofs.WrapProofs.
Import ListNotations.
Open Scope string_scope.
Open Scope list_scope.

Local Opaque has_prop known_type admits vhas T P.

(* h is a hidden recipient of a: one of the ids of its bto or bcc property *)
Definition hidden_in (a : json) (h : string) : Prop :=
  (exists b, ids_of "bto" a = Ok b /\ In h b) \/ (exists b, ids_of "bcc" a = Ok b /\ In h b).

(* ---- small facts ---- *)
Lemma jget_some_obj k v x : jget k v = Some x -> exists m, v = JObj m.
Proof. destruct v as [| | | | |m]; try discriminate. intros _. exists m. reflexivity. Qed.

Lemma ids_of_in_obj p v ids h : ids_of p v = Ok ids -> In h ids -> exists m, v = JObj m.
Proof.
  unfold ids_of, elems. destruct (jget p v) as [x|] eqn:E; [intros _ _; exact (jget_some_obj p v x E)|].
  intros H. apply Ok_inj in H. subst ids. intros [].
Qed.

Lemma hidden_in_obj a h : hidden_in a h -> exists m, a = JObj m.
Proof. intros [[b [Eb Hb]]|[b [Eb Hb]]]; eapply ids_of_in_obj; eassumption. Qed.

Lemma hidden_addressed a l h : collect_recipients a = Ok l -> hidden_in a h -> In h l.
Proof.
  intros Hc Hh. unfold collect_recipients in Hc.
  destruct (ids_of "to" a) as [t|e|p]; try discriminate Hc.
  destruct (ids_of "bto" a) as [bt|e|p] eqn:E1; try discriminate Hc.
  destruct (ids_of "cc" a) as [c|e|p]; try discriminate Hc.
  destruct (ids_of "bcc" a) as [bc|e|p] eqn:E2; try discriminate Hc.
  destruct (ids_of "audience" a) as [au|e|p]; try discriminate Hc.
  apply Ok_inj in Hc. subst l. rewrite !in_app_iff.
  destruct Hh as [[b [Eb Hb]]|[b [Eb Hb]]]; [rewrite E1 in Eb|rewrite E2 in Eb]; apply Ok_inj in Eb; subst b; tauto.
Qed.

Lemma strip_hidden_obj m : exists m', strip_hidden (JObj m) = JObj m'.
Proof. unfold strip_hidden. cbn [jremove]. destruct (elems "object" _); [apply set_elems_obj|eexists; reflexivity]. Qed.

Lemma transport_no_hidden a m : a = JObj m -> flat a = true -> no_hidden (canon (streams_serialize (strip_hidden a))) = true.
Proof.
  intros Ha Hf. destruct (strip_hidden_obj m) as [m' Hm']. rewrite <- Ha in Hm'.
  rewrite (no_hidden_payload _ m' Hm'). exact (strip_hidden_ok a m Ha Hf).
Qed.

(* exactly one hand-over in a list of events *)
Lemma batch_nil_notin tr : batch_recipients tr = [] -> forall p rs, ~ In (EBatchDeliver p rs) tr.
Proof.
  induction tr as [|e r IH]; intros H p rs; [intros []|]. unfold batch_recipients in H. cbn [flat_map] in H. fold (batch_recipients r) in H.
  intros [He|Hin].
  - subst e. discriminate H.
  - destruct e; cbn [app] in H; try exact (IH H p rs Hin). discriminate H.
Qed.
Lemma batch_one tr t : batch_recipients tr = [t] ->
  exists p, In (EBatchDeliver p t) tr /\ forall p' rs', In (EBatchDeliver p' rs') tr -> p' = p /\ rs' = t.
Proof.
  induction tr as [|e r IH]; intros H; [discriminate H|]. unfold batch_recipients in H. cbn [flat_map] in H. fold (batch_recipients r) in H.
  assert (Skip : (forall p rs, e <> EBatchDeliver p rs) -> batch_recipients r = [t] ->
            exists p, In (EBatchDeliver p t) (e :: r) /\ forall p' rs', In (EBatchDeliver p' rs') (e :: r) -> p' = p /\ rs' = t).
  { intros Hne Hr. destruct (IH Hr) as [p [Hin Hall]]. exists p. split; [right; exact Hin|].
    intros p' rs' [He|Hi]; [exfalso; exact (Hne p' rs' He)|exact (Hall p' rs' Hi)]. }
  destruct e; cbn [app] in H; try (apply Skip; [intros p0 rs0; discriminate|exact H]).
  clear Skip. injection H as H1 H2. subst rcpts. exists payload. split; [left; reflexivity|].
  intros p' rs' [He|Hi]; [injection He as <- <-; split; reflexivity|]. exfalso. exact (batch_nil_notin r H2 p' rs' Hi).
Qed.

(* a trace accepted by the payload monitor hands over nothing but the expected payload *)
Lemma pay_monitor_in expected : forall tr u, run_monitor (pay_step expected) tt tr = Some u ->
  forall p rs x, In (EBatchDeliver p rs, x) tr -> p = expected.
Proof.
  induction tr as [|[e y] r IH]; intros u H p rs x; [intros []|]. cbn [run_monitor] in H.
  destruct (pay_step expected tt e y) as [[]|] eqn:Es; [|discriminate H].
  intros [He|Hin]; [|exact (IH u H p rs x Hin)]. injection He as -> _. unfold pay_step, pexp in Es.
  destruct (jeqb p expected) eqn:Ej; [apply jeqb_eq; exact Ej|discriminate Es].
Qed.

(* ================================================================================================================== *)
(* R2 - wrapping keeps the hidden recipients: the Create carries the object's bto / bcc ids                           *)
(* ================================================================================================================== *)
Lemma bto_addressing : In "bto" addressing. Proof. unfold addressing. cbn [In]. tauto. Qed.
Lemma bcc_addressing : In "bcc" addressing. Proof. unfold addressing. cbn [In]. tauto. Qed.

Theorem hidden_survive_wrap o actor c : wrap_in_create o actor = Ok c ->
  (forall ids, vhas o "bto" = true -> ids_of "bto" o = Ok ids -> ids_of "bto" c = Ok ids) /\
  (forall ids, vhas o "bcc" = true -> ids_of "bcc" o = Ok ids -> ids_of "bcc" c = Ok ids) /\
  (forall h, (vhas o "bto" = true /\ exists b, ids_of "bto" o = Ok b /\ In h b) \/
             (vhas o "bcc" = true /\ exists b, ids_of "bcc" o = Ok b /\ In h b) -> hidden_in c h).
Proof.
  intros Hw. destruct (wrap_in_create_spec o actor c Hw) as [_ [_ [_ [_ [_ [Hids _]]]]]].
  assert (H1 : forall ids, vhas o "bto" = true -> ids_of "bto" o = Ok ids -> ids_of "bto" c = Ok ids)
    by (intros ids Hv Hi; rewrite (Hids "bto" ids bto_addressing Hv Hi); exact Hi).
  assert (H2 : forall ids, vhas o "bcc" = true -> ids_of "bcc" o = Ok ids -> ids_of "bcc" c = Ok ids)
    by (intros ids Hv Hi; rewrite (Hids "bcc" ids bcc_addressing Hv Hi); exact Hi).
  split; [exact H1|]. split; [exact H2|].
  intros h [[Hv [b [Eb Hb]]]|[Hv [b [Eb Hb]]]]; [left|right]; exists b; (split; [|exact Hb]); [apply H1|apply H2]; assumption.
Qed.

(* the Create is a JSON object whose object property is flat *)
Lemma wrap_flat o mo actor c : o = JObj mo -> wrap_in_create o actor = Ok c -> (exists m, c = JObj m) /\ flat c = true.
Proof.
  intros Ho Hw. destruct (wrap_in_create_spec o actor c Hw) as [Ht [_ [Hobj _]]].
  split; [exact (jget_some_obj _ _ _ Ht)|]. unfold flat, elems0, elems. rewrite Hobj, Ho. reflexivity.
Qed.

(* ================================================================================================================== *)
(* R3 - normalisation keeps the hidden recipients, and lifts those of the embedded objects onto the activity          *)
(* ================================================================================================================== *)
Section Normalised.
  Variable perm : list string -> list string.
  Hypothesis perm_in : forall l x, In x (perm l) <-> In x l.

  Theorem hidden_survive_normalise a m a' :
    a = JObj m -> flat_addr a -> Forall flat_addr (elems0 "object" a) ->
    normalize_recipients perm a = Ok a' ->
    forall h, hidden_in a h \/ (exists e, In e (elems0 "object" a) /\ hidden_in e h) -> hidden_in a' h.
  Proof.
    intros Hm Hf Hfo Hn h Hh.
    assert (K : forall p, In p addressing ->
              (exists b, ids_of p a = Ok b /\ In h b) \/ (exists e, In e (elems0 "object" a) /\ exists b, ids_of p e = Ok b /\ In h b) ->
              exists b, ids_of p a' = Ok b /\ In h b).
    { intros p Hp Hc. destruct (normalisation_unions perm perm_in a m a' Hm Hf Hfo Hn p Hp) as [A [n [EA [En [Hiff _]]]]].
      exists n. split; [exact En|]. apply Hiff. destruct Hc as [[b [Eb Hb]]|[e [He [b [Eb Hb]]]]].
      - left. rewrite EA in Eb. apply Ok_inj in Eb. subst b. exact Hb.
      - right. exists e, b. split; [exact He|]. split; [exact Eb|exact Hb]. }
    destruct Hh as [[Hb|Hb]|[e [He [Hb|Hb]]]].
    - left. apply (K "bto" bto_addressing). left. exact Hb.
    - right. apply (K "bcc" bcc_addressing). left. exact Hb.
    - left. apply (K "bto" bto_addressing). right. exists e. split; [exact He|exact Hb].
    - right. apply (K "bcc" bcc_addressing). right. exists e. split; [exact He|exact Hb].
  Qed.

  (* the normalised activity's object property holds JSON objects only *)
  Lemma normalised_flat a m a' :
    a = JObj m -> flat_addr a -> Forall flat_addr (elems0 "object" a) ->
    normalize_recipients perm a = Ok a' -> flat a' = true.
  Proof.
    intros Hm Hf Hfo Hn.
    destruct (normalize_activity perm perm_in a m a' Hm Hf Hfo Hn) as [A0 [A1 [A2 [A3 [A4 [objs' [idss [R0 [R1 [R2 [R3 [R4 [F2 [Hl [EO _]]]]]]]]]]]]]]].
    assert (SA : schemes A0 /\ schemes A1 /\ schemes A2 /\ schemes A3 /\ schemes A4) by (repeat split; eapply ids_of_schemes; eassumption).
    destruct SA as [S0 [S1 [S2 [S3 S4]]]].
    unfold flat. rewrite EO. clear EO Hn. revert objs' idss F2 Hl Hfo. generalize (elems0 "object" a) as objs.
    induction objs as [|e r IH]; intros objs' idss F2 Hl Hfo.
    - destruct objs' as [|x xs]; destruct idss as [|y ys]; try discriminate Hl; try (inversion F2; fail). reflexivity.
    - destruct objs' as [|x xs]; destruct idss as [|y ys]; try discriminate Hl; try (inversion F2; fail).
      cbn [combine] in F2. inversion F2 as [|e0 r0 le lr Hrel Hrest]; subst. cbn [fst snd] in Hrel.
      inversion Hfo as [|e1 r1 Hfe Hfr]; subst.
      destruct (norm_object_spec perm perm_in A0 A1 A2 A3 A4 e x y S0 S1 S2 S3 S4 Hfe Hrel) as [o0 [o1 [o2 [o3 [o4 [_ [_ [_ [_ [_ [_ [[mx Hx] _]]]]]]]]]]]].
      injection Hl as Hl. cbn [forallb]. rewrite Hx. cbn [is_arr negb andb]. exact (IH xs ys Hrest Hl Hfr).
  Qed.
End Normalised.

(* ================================================================================================================== *)
(* R1 - one run of Deliver: the payload carries no bto/bcc AND the hidden recipient's inbox is handed to the transport  *)
(* ================================================================================================================== *)
Section Receive.
  Variable g : graph.
  Variable env : ev -> ans.
  Variables outbox sender : string.
  Variable sender_doc : json.
  (* the environment the federation graph presents; every Database and Transport call succeeds (as in C02_deliver) *)
  Hypothesis env_deref : forall u, env (EDeref u) = deref_answer (g_deref g u).
  Hypothesis env_lock : forall i, env (ELock i) = AOk.
  Hypothesis env_inbox : forall a, env (EDb "InboxForActor" [JStr a]) = match g_stored_inbox g a with Some i => AIri i | None => ANone end.
  Hypothesis env_nt : forall b, env (ENewTransport b) = AOk.
  Hypothesis env_depth : env (EApp "MaxDeliveryRecursionDepth" []) = ANat (g_depth g).
  Hypothesis depth_pos : g_depth g <> 0.
  Hypothesis env_afo : env (EDb "ActorForOutbox" [JStr outbox]) = AIri sender.
  Hypothesis env_get : env (EDb "Get" [JStr sender]) = AJson sender_doc.
  Hypothesis self_inbox : get_inbox sender_doc = Ok (g_self g).
  Hypothesis env_batch : forall p r, env (EBatchDeliver p r) = AOk.

  (* the inbox of h as the graph gives it: stored by the application, or reached by dereferencing within the depth *)
  Definition inbox_of (h ib : string) : Prop :=
    g_stored_inbox g h = Some ib \/ (g_stored_inbox g h = None /\ Reaches g (g_depth g) h (Ok ib)).

  Theorem hidden_recipient_receives a targets h ib :
    spec_targets g a = Ok targets ->                 (* every reached actor document has an inbox: the delivery does not fail *)
    hidden_in a h -> is_public h = false -> inbox_of h ib -> ib <> g_self g ->
    let r := fst (run_env env (deliver outbox a)) in
    let tr := snd (run_env env (deliver outbox a)) in
    runs (deliver outbox a) (map (fun e => (e, env e)) tr) r /\
    r = Ok (strip_hidden a) /\
    exists p rs, In (EBatchDeliver p rs) tr /\ In ib rs /\ rs = targets /\
      p = canon (streams_serialize (strip_hidden a)) /\
      (flat a = true -> no_hidden p = true) /\
      forall p' rs', In (EBatchDeliver p' rs') tr -> p' = p /\ rs' = rs.
  Proof.
    intros Hs Hh Hp Hib Hne r tr.
    pose proof (run_env_runs env (deliver outbox a)) as Hruns. fold r tr in Hruns.
    pose proof (deliver_meets_spec g env outbox sender sender_doc env_deref env_lock env_inbox env_nt env_depth depth_pos
                  env_afo env_get self_inbox env_batch a targets Hs) as Hm.
    unfold r, tr in *. destruct (run_env env (deliver outbox a)) as [r0 tr0]. cbn [fst snd] in *. destruct Hm as [Hr [Hb _]].
    split; [exact Hruns|]. split; [exact Hr|].
    destruct (batch_one tr0 targets Hb) as [p [Hin Hall]].
    assert (Hc : exists l, collect_recipients a = Ok l).
    { unfold spec_targets in Hs. destruct (collect_recipients a) as [l|e|s]; try discriminate Hs. exists l. reflexivity. }
    destruct Hc as [l Hc].
    destruct (spec_targets_char g a l targets Hc Hs) as [_ [_ Hiff]].
    assert (Hpay : p = canon (streams_serialize (strip_hidden a))).
    { destruct (wp_sound ev ans unit (pay_step _) _ _ _ (deliver_payload outbox a) _ _ Hruns) as [u [Eu _]].
      apply (pay_monitor_in _ _ u Eu p targets (env (EBatchDeliver p targets))).
      apply (in_map (fun e => (e, env e))) in Hin. exact Hin. }
    exists p, targets. split; [exact Hin|]. split.
    - apply Hiff. split; [exact Hne|]. exists h. split; [exact (hidden_addressed a l h Hc Hh)|]. split; [exact Hp|exact Hib].
    - split; [reflexivity|]. split; [exact Hpay|]. split; [|exact Hall].
      intros Hf. destruct (hidden_in_obj a h Hh) as [m Hm]. rewrite Hpay. exact (transport_no_hidden a m Hm Hf).
  Qed.

  (* R4a - end to end through wrapping: a bare object with a hidden recipient h is wrapped in a Create and delivered - the one
     hand-over lists h's inbox, and its payload (the Create and the object embedded in it) carries no bto/bcc *)
  Theorem wrapped_hidden_recipient_receives o mo actor c targets h ib :
    o = JObj mo -> wrap_in_create o actor = Ok c ->
    (vhas o "bto" = true /\ exists b, ids_of "bto" o = Ok b /\ In h b) \/
    (vhas o "bcc" = true /\ exists b, ids_of "bcc" o = Ok b /\ In h b) ->
    spec_targets g c = Ok targets ->
    is_public h = false -> inbox_of h ib -> ib <> g_self g ->
    fst (run_env env (deliver outbox c)) = Ok (strip_hidden c) /\
    exists p rs, In (EBatchDeliver p rs) (snd (run_env env (deliver outbox c))) /\ In ib rs /\
      p = canon (streams_serialize (strip_hidden c)) /\ no_hidden p = true /\
      forall p' rs', In (EBatchDeliver p' rs') (snd (run_env env (deliver outbox c))) -> p' = p /\ rs' = rs.
  Proof.
    intros Ho Hw Hh Hs Hp Hib Hne.
    destruct (hidden_survive_wrap o actor c Hw) as [_ [_ Hc]]. destruct (wrap_flat o mo actor c Ho Hw) as [_ Hf].
    destruct (hidden_recipient_receives c targets h ib Hs (Hc h Hh) Hp Hib Hne) as [_ [Hr [p [rs [Hin [Hi [_ [Hpay [Hnh Hall]]]]]]]]].
    split; [exact Hr|]. exists p, rs. split; [exact Hin|]. split; [exact Hi|]. split; [exact Hpay|]. split; [exact (Hnh Hf)|exact Hall].
  Qed.

  (* R4b - end to end through normalisation: a hidden recipient of the activity OR of one of its embedded objects; the
     normalised activity is delivered - the one hand-over lists h's inbox and its payload carries no bto/bcc *)
  Theorem normalised_hidden_recipient_receives perm a m a' targets h ib :
    (forall l x, In x (perm l) <-> In x l) ->
    a = JObj m -> flat_addr a -> Forall flat_addr (elems0 "object" a) ->
    normalize_recipients perm a = Ok a' ->
    hidden_in a h \/ (exists e, In e (elems0 "object" a) /\ hidden_in e h) ->
    spec_targets g a' = Ok targets ->
    is_public h = false -> inbox_of h ib -> ib <> g_self g ->
    fst (run_env env (deliver outbox a')) = Ok (strip_hidden a') /\
    exists p rs, In (EBatchDeliver p rs) (snd (run_env env (deliver outbox a'))) /\ In ib rs /\
      p = canon (streams_serialize (strip_hidden a')) /\ no_hidden p = true /\
      forall p' rs', In (EBatchDeliver p' rs') (snd (run_env env (deliver outbox a'))) -> p' = p /\ rs' = rs.
  Proof.
    intros perm_in Hm Hfa Hfo Hn Hh Hs Hp Hib Hne.
    pose proof (hidden_survive_normalise perm perm_in a m a' Hm Hfa Hfo Hn h Hh) as Hh'.
    pose proof (normalised_flat perm perm_in a m a' Hm Hfa Hfo Hn) as Hf.
    destruct (hidden_recipient_receives a' targets h ib Hs Hh' Hp Hib Hne) as [_ [Hr [p [rs [Hin [Hi [_ [Hpay [Hnh Hall]]]]]]]]].
    split; [exact Hr|]. exists p, rs. split; [exact Hin|]. split; [exact Hi|]. split; [exact Hpay|]. split; [exact (Hnh Hf)|exact Hall].
  Qed.
End Receive.

(* ---- non-vacuity: a tiny federation - one hidden recipient and one visible one, both with stored inboxes ---- *)
Definition rx_me_doc : json :=
  JObj [("@context", JStr "https://www.w3.org/ns/activitystreams"); ("type", JStr "Person"); ("id", JStr "https://me.example/me");
        ("inbox", JStr "https://me.example/me/inbox")].
Definition rx_graph : graph :=
  {| g_stored_inbox := fun a => if String.eqb a "https://h.example/hidden" then Some "https://h.example/hidden/inbox"
                                else if String.eqb a "https://v.example/visible" then Some "https://v.example/visible/inbox" else None;
     g_deref := fun _ => DFailed; g_depth := 1; g_self := "https://me.example/me/inbox" |}.
Definition rx_env (e : ev) : ans :=
  match e with
  | EDeref u => deref_answer (g_deref rx_graph u)
  | EDb "InboxForActor" [JStr a] => match g_stored_inbox rx_graph a with Some i => AIri i | None => ANone end
  | EDb "ActorForOutbox" _ => AIri "https://me.example/me"
  | EDb "Get" _ => AJson rx_me_doc
  | EApp _ _ => ANat 1
  | _ => AOk
  end.
Definition rx_note : json :=
  JObj [("type", JStr "Note"); ("id", JStr "https://me.example/notes/1"); ("content", JStr "hello");
        ("to", JStr "https://v.example/visible"); ("bto", JStr "https://h.example/hidden")].

(* the run itself: wrap the Note, deliver the Create - one hand-over, to both inboxes, and the payload has no bto anywhere *)
Example receive_run :
  match wrap_in_create rx_note "https://me.example/me" with
  | Ok c =>
      ids_of "bto" c = Ok ["https://h.example/hidden"] /\
      match filter (fun e => match e with EBatchDeliver _ _ => true | _ => false end) (snd (run_env rx_env (deliver "https://me.example/me/outbox" c))) with
      | [EBatchDeliver p rs] => rs = ["https://v.example/visible/inbox"; "https://h.example/hidden/inbox"] /\
                                no_hidden p = true /\ jget "bto" p = None /\
                                match jget "object" p with Some o => jget "bto" o = None /\ jget "to" o = Some (JStr "https://v.example/visible") | None => False end
      | _ => False
      end
  | _ => False
  end.
Proof. vm_compute. repeat split; reflexivity. Qed.

(* ... and the theorem's hypotheses are satisfiable: it applies to this environment *)
Example receive_instance : exists c p rs,
  wrap_in_create rx_note "https://me.example/me" = Ok c /\
  In (EBatchDeliver p rs) (snd (run_env rx_env (deliver "https://me.example/me/outbox" c))) /\
  In "https://h.example/hidden/inbox" rs /\ no_hidden p = true.
Proof.
  destruct (wrap_in_create rx_note "https://me.example/me") as [c|x|s] eqn:Ew; [|vm_compute in Ew; discriminate Ew|vm_compute in Ew; discriminate Ew].
  assert (Hs : exists t, spec_targets rx_graph c = Ok t).
  { vm_compute in Ew. apply Ok_inj in Ew. subst c. eexists. vm_compute. reflexivity. }
  destruct Hs as [t Hs].
  destruct (wrapped_hidden_recipient_receives rx_graph rx_env "https://me.example/me/outbox" "https://me.example/me" rx_me_doc
              ltac:(intros u; reflexivity) ltac:(intros i; reflexivity) ltac:(intros a; reflexivity) ltac:(intros b; reflexivity)
              ltac:(reflexivity) ltac:(discriminate) ltac:(reflexivity) ltac:(reflexivity) ltac:(vm_compute; reflexivity) ltac:(intros p r; reflexivity)
              rx_note _ "https://me.example/me" c t "https://h.example/hidden" "https://h.example/hidden/inbox"
              eq_refl Ew) as [_ [p [rs [Hin [Hi [_ [Hnh _]]]]]]].
  - left. split; [vm_compute; reflexivity|]. exists ["https://h.example/hidden"]. split; [vm_compute; reflexivity|left; reflexivity].
  - exact Hs.
  - vm_compute. reflexivity.
  - left. reflexivity.
  - discriminate.
  - exists c, p, rs. split; [reflexivity|]. split; [exact Hin|]. split; [exact Hi|exact Hnh].
Qed.

Print Assumptions hidden_recipient_receives.
Print Assumptions hidden_survive_wrap.
Print Assumptions hidden_survive_normalise.
Print Assumptions wrapped_hidden_recipient_receives.
Print Assumptions normalised_hidden_recipient_receives.
