(* C05: the normalisation of a client's Create (normalizeRecipients) - each of the five addressing properties of the activity
   ends as the union over activity and objects, and each object gains the activity's. *)
From Coq Require Import String List Bool Arith.
From Verif Require Import Base.ListX Base.Json Pub.Events Pub.Value Pub.EffectSpec Pub.Util.
From Verif Require Import Proofs.ValueProofs Proofs.HiddenProofs Proofs.ServeProofs Proofs.EffectProofs.
Import ListNotations.
Open Scope string_scope.
Open Scope list_scope.

Definition schemes (l : list string) : Prop := Forall (fun s => has_scheme s = true) l.

Lemma to_id_scheme p e i : to_id p e = Ok i -> has_scheme i = true.
Proof.
  unfold to_id. destruct (e_type p e) as [v|].
  - unfold get_id. destruct (jget "id" v) as [[| | |s| |]|]; try discriminate.
    + destruct (has_scheme s) eqn:E; [|discriminate]. intros H. injection H as <-. exact E.
    + destruct (vhas v "href"); [|discriminate]. destruct (jget "href" v) as [[| | |s| |]|]; try discriminate.
      destruct (has_scheme s) eqn:E; [|discriminate]. intros H. injection H as <-. exact E.
  - destruct (e_is_iri e) eqn:E; [|discriminate]. intros H. injection H as <-. unfold e_is_iri in E. destruct e; try discriminate. exact E.
Qed.
Lemma to_ids_schemes p : forall l ids, to_ids p l = Ok ids -> schemes ids.
Proof.
  induction l as [|e r IH]; intros ids; cbn [to_ids]; [intros H; injection H as <-; constructor|].
  destruct (to_id p e) as [i|x|s] eqn:E; try discriminate. destruct (to_ids p r) as [is|x|s]; try discriminate.
  intros H. injection H as <-. constructor; [exact (to_id_scheme p e i E)|apply IH; reflexivity].
Qed.
Lemma to_ids_app p : forall l1 l2 a b, to_ids p l1 = Ok a -> to_ids p l2 = Ok b -> to_ids p (l1 ++ l2) = Ok (a ++ b).
Proof.
  induction l1 as [|e r IH]; intros l2 a b; cbn [to_ids app]; [intros H; injection H as <-; intros H2; exact H2|].
  destruct (to_id p e) as [i|x|s]; try discriminate. destruct (to_ids p r) as [is|x|s] eqn:E; try discriminate.
  intros H H2. injection H as <-. rewrite (IH l2 is b eq_refl H2). reflexivity.
Qed.
Lemma to_ids_strs p : forall ids, schemes ids -> to_ids p (map JStr ids) = Ok ids.
Proof.
  induction ids as [|i r IH]; intros H; [reflexivity|]. inversion H as [|x l Hi Hr]; subst. cbn [map to_ids].
  unfold to_id. cbn [e_type e_is_iri e_iri]. rewrite Hi, (IH Hr). reflexivity.
Qed.

Lemma jset_obj k v m : exists m', jset k v (JObj m) = JObj m'.
Proof. unfold jset. eexists. reflexivity. Qed.

Lemma ids_of_jget q v v' : jget q v' = jget q v -> ids_of q v' = ids_of q v.
Proof. intros H. unfold ids_of, elems. rewrite H. reflexivity. Qed.
Lemma elems0_jget q v v' : jget q v' = jget q v -> elems0 q v' = elems0 q v.
Proof. intros H. unfold elems0, elems. rewrite H. reflexivity. Qed.
Lemma ids_of_elems0 p v ids : ids_of p v = Ok ids -> to_ids p (elems0 p v) = Ok ids.
Proof. unfold ids_of, elems0. destruct (elems p v); intros H; [exact H|rewrite <- H; reflexivity]. Qed.
Lemma ids_of_present p v : jget p v <> None -> ids_of p v = to_ids p (elems0 p v).
Proof. unfold ids_of, elems0, elems. destruct (jget p v) as [[| | | |l|]|]; reflexivity. Qed.

(* appending ids to one property *)
Lemma append_iris_ids p new v m old :
  v = JObj m -> no_arrays (elems0 p v) = true -> ids_of p v = Ok old -> schemes new ->
  ids_of p (append_iris p new v) = Ok (old ++ new) /\ (exists m', append_iris p new v = JObj m') /\
  no_arrays (elems0 p (append_iris p new v)) = true /\ forall q, q <> p -> jget q (append_iris p new v) = jget q v.
Proof.
  intros Hv Hf Ho Hs. unfold append_iris. destruct new as [|i r].
  - rewrite app_nil_r. repeat split; try assumption. exists m. exact Hv.
  - assert (Hne : i :: r <> []) by discriminate.
    destruct (add_entries p (i :: r) v m Hv Hne Hf) as [E1 E2]. unfold add_spec in E1, E2.
    assert (Hp : jget p (set_elems p (elems0 p v ++ map JStr (i :: r)) v) <> None).
    { subst v. unfold set_elems. rewrite jget_jset_same. discriminate. }
    split; [|split; [|split]].
    + rewrite (ids_of_present _ _ Hp), E1. apply to_ids_app; [apply ids_of_elems0; exact Ho|apply to_ids_strs; exact Hs].
    + subst v. unfold set_elems. apply jset_obj.
    + rewrite E1. unfold no_arrays in *. rewrite forallb_app, Hf. cbn [andb]. clear. induction (i :: r) as [|x l IH]; [reflexivity|exact IH].
    + exact E2.
Qed.

(* a sequence of appends, possibly several to one property *)
Definition apply_all (l : list (string * list string)) (v : json) : json :=
  fold_left (fun acc t => append_iris (fst t) (snd t) acc) l v.
Definition added (q : string) (l : list (string * list string)) : list string :=
  flat_map (fun t => if String.eqb (fst t) q then snd t else []) l.

Lemma apply_all_ids : forall l v m,
  v = JObj m -> (forall p, In p (map fst l) -> no_arrays (elems0 p v) = true /\ exists old, ids_of p v = Ok old) ->
  (forall t, In t l -> schemes (snd t)) ->
  (exists m', apply_all l v = JObj m') /\
  (forall q old, ids_of q v = Ok old -> ids_of q (apply_all l v) = Ok (old ++ added q l)) /\
  (forall q, ~ In q (map fst l) -> jget q (apply_all l v) = jget q v).
Proof.
  induction l as [|[p new] r IH]; intros v m Hv Hp Hs.
  - cbn [apply_all fold_left added flat_map]. split; [exists m; exact Hv|]. split; [intros q old H; rewrite app_nil_r; exact H|reflexivity].
  - cbn [apply_all fold_left fst snd]. fold (apply_all r (append_iris p new v)).
    destruct (Hp p (or_introl eq_refl)) as [Hf [old Ho]].
    destruct (append_iris_ids p new v m old Hv Hf Ho (Hs (p, new) (or_introl eq_refl))) as [A1 [[m1 A2] [A3 A4]]].
    assert (Hp' : forall p0, In p0 (map fst r) -> no_arrays (elems0 p0 (append_iris p new v)) = true /\ exists old0, ids_of p0 (append_iris p new v) = Ok old0).
    { intros p0 Hin. destruct (String.eqb_spec p0 p) as [->|Hne].
      - split; [exact A3|eexists; exact A1].
      - destruct (Hp p0 (or_intror Hin)) as [Hf0 [old0 Ho0]]. split.
        + rewrite (elems0_jget p0 v _ (A4 p0 Hne)). exact Hf0.
        + exists old0. rewrite (ids_of_jget p0 v _ (A4 p0 Hne)). exact Ho0. }
    destruct (IH (append_iris p new v) m1 A2 Hp' (fun t Ht => Hs t (or_intror Ht))) as [I1 [I2 I3]].
    split; [exact I1|]. split.
    + intros q oldq Hq. cbn [added flat_map fst snd]. fold (added q r). destruct (String.eqb_spec p q) as [->|Hne].
      * assert (oldq = old) by congruence. subst oldq. rewrite (I2 q (old ++ new) A1). rewrite app_assoc. reflexivity.
      * cbn [app]. apply I2. rewrite (ids_of_jget q v _ (A4 q (fun E => Hne (eq_sym E)))). exact Hq.
    + intros q Hq. cbn [map fst In] in Hq. rewrite I3 by (intros Hin; apply Hq; right; exact Hin).
      apply A4. intros E. apply Hq. left. symmetry. exact E.
Qed.

(* ---- acquire: the ids of the five properties; absent properties become empty ones ---- *)
Lemma acquire_spec need : forall ps v m v' idss, v = JObj m -> acquire ps need v = Ok (v', idss) ->
  (exists m', v' = JObj m') /\ (forall q, ids_of q v' = ids_of q v) /\ (forall q, elems0 q v' = elems0 q v) /\
  Forall2 (fun p ids => ids_of p v = Ok ids) ps idss.
Proof.
  induction ps as [|p r IH]; intros v m v' idss Hv; cbn [acquire].
  - intros H. injection H as <- <-. split; [exists m; exact Hv|]. split; [reflexivity|]. split; [reflexivity|constructor].
  - destruct (need && negb (vhas v p)); [discriminate|].
    destruct (ids_of p v) as [ids|e|s] eqn:Ei; try discriminate.
    set (v1 := match elems p v with None => jset p (JArr []) v | Some _ => v end).
    assert (H1 : (exists m1, v1 = JObj m1) /\ (forall q, ids_of q v1 = ids_of q v) /\ (forall q, elems0 q v1 = elems0 q v)).
    { unfold v1. destruct (elems p v) as [l|] eqn:Ee; [split; [exists m; exact Hv|split; reflexivity]|].
      assert (Hg : jget p v = None) by (unfold elems in Ee; destruct (jget p v) as [[| | | | |]|]; try discriminate; reflexivity).
      split; [subst v; apply jset_obj|]. split; intros q; (destruct (String.eqb_spec q p) as [->|Hne];
        [|first [apply ids_of_jget|apply elems0_jget]; apply jget_jset_other; exact Hne]).
      - subst v. unfold ids_of, elems. rewrite jget_jset_same, Hg. reflexivity.
      - subst v. unfold elems0, elems. rewrite jget_jset_same, Hg. reflexivity. }
    destruct H1 as [[m1 E1] [H2 H3]].
    destruct (acquire r need v1) as [[v2 rest]|e|s] eqn:Ea; try discriminate.
    intros H. injection H as <- <-. destruct (IH v1 m1 v2 rest E1 Ea) as [I1 [I2 [I3 I4]]].
    split; [exact I1|]. split; [intros q; rewrite I2; apply H2|]. split; [intros q; rewrite I3; apply H3|].
    constructor; [exact Ei|]. clear -I4 H2. induction I4 as [|a b la lb Hab _ IHf]; constructor; [rewrite <- H2; exact Hab|exact IHf].
Qed.

Lemma fold_append_map {A} (h : A -> string * list string) : forall (l : list A) (f : json -> A -> json) v,
  (forall acc t, f acc t = append_iris (fst (h t)) (snd (h t)) acc) -> fold_left f l v = apply_all (map h l) v.
Proof.
  induction l as [|t r IH]; intros f v Hf; [reflexivity|]. cbn [fold_left map apply_all]. rewrite Hf. apply IH. exact Hf.
Qed.

Section Norm.
  Variable perm : list string -> list string.
  Hypothesis perm_in : forall l x, In x (perm l) <-> In x l.

  Lemma uniq_in l x : In x (uniq l) <-> In x l.
  Proof. unfold uniq. rewrite dedupe_against_spec. split; [intros [H _]; exact H|intros H; split; [exact H|intros []]]. Qed.
  Lemma missing_in have want x : In x (missing have want) <-> In x want /\ ~ In x have.
  Proof. unfold missing. rewrite filter_In, negb_true_iff, mem_false_In. reflexivity. Qed.
  Lemma schemes_sub l l' : schemes l -> (forall x, In x l' -> In x l) -> schemes l'.
  Proof. unfold schemes. rewrite !Forall_forall. intros H Hs x Hx. apply H. apply Hs. exact Hx. Qed.
  Lemma new_schemes have want : schemes want -> schemes (perm (missing have (uniq want))).
  Proof. intros H. apply (schemes_sub want _ H). intros x Hx. apply (proj1 (perm_in _ _)) in Hx. apply (proj1 (missing_in _ _ _)) in Hx. apply (proj1 (uniq_in _ _)). tauto. Qed.
  Lemma new_in have want x : In x (have ++ perm (missing have (uniq want))) <-> In x have \/ In x want.
  Proof.
    rewrite in_app_iff, perm_in, missing_in, uniq_in. split; [tauto|]. intros [H|H]; [left; exact H|].
    destruct (in_dec string_dec x have); [left; assumption|right; tauto].
  Qed.
End Norm.

Definition flat_addr (v : json) : Prop := forall p, In p addressing -> no_arrays (elems0 p v) = true.

Lemma forall2_addr5 (R : string -> list string -> Prop) l : Forall2 R addressing l ->
  exists a0 a1 a2 a3 a4, l = [a0; a1; a2; a3; a4] /\ R "to" a0 /\ R "bto" a1 /\ R "cc" a2 /\ R "bcc" a3 /\ R "audience" a4.
Proof.
  unfold addressing. intros H.
  inversion H as [|x0 a0 l0 r0 H0 T0]; subst. inversion T0 as [|x1 a1 l1 r1 H1 T1]; subst. inversion T1 as [|x2 a2 l2 r2 H2 T2]; subst.
  inversion T2 as [|x3 a3 l3 r3 H3 T3]; subst. inversion T3 as [|x4 a4 l4 r4 H4 T4]; subst. inversion T4; subst.
  exists a0, a1, a2, a3, a4. tauto.
Qed.

Section Norm2.
  Variable perm : list string -> list string.
  Hypothesis perm_in : forall l x, In x (perm l) <-> In x l.

  (* one object: it keeps its own recipients and gains the activity's, property by property *)
  Lemma norm_object_spec a0 a1 a2 a3 a4 e e' obj_ids :
    schemes a0 -> schemes a1 -> schemes a2 -> schemes a3 -> schemes a4 -> flat_addr e ->
    norm_object perm [a0; a1; a2; a3; a4] e = Ok (e', obj_ids) ->
    exists o0 o1 o2 o3 o4, obj_ids = [o0; o1; o2; o3; o4] /\
      ids_of "to" e = Ok o0 /\ ids_of "bto" e = Ok o1 /\ ids_of "cc" e = Ok o2 /\ ids_of "bcc" e = Ok o3 /\ ids_of "audience" e = Ok o4 /\
      (exists m', e' = JObj m') /\
      ids_of "to" e' = Ok (o0 ++ perm (missing o0 (uniq a0))) /\ ids_of "bto" e' = Ok (o1 ++ perm (missing o1 (uniq a1))) /\
      ids_of "cc" e' = Ok (o2 ++ perm (missing o2 (uniq a2))) /\ ids_of "bcc" e' = Ok (o3 ++ perm (missing o3 (uniq a3))) /\
      ids_of "audience" e' = Ok (o4 ++ perm (missing o4 (uniq a4))).
  Proof.
    intros S0 S1 S2 S3 S4 Hf. unfold norm_object. destruct (e_type "object" e) as [o|] eqn:Et; [|discriminate].
    destruct (e_type_some _ _ _ Et) as [-> [m Hm]].
    destruct (acquire addressing true e) as [[o1' oids]|x|s] eqn:Ea; try discriminate.
    destruct (acquire_spec true addressing e m o1' oids Hm Ea) as [[m1 E1] [I2 [I3 I4]]].
    destruct (forall2_addr5 _ _ I4) as [o0 [o1 [o2 [o3 [o4 [-> [R0 [R1 [R2 [R3 R4]]]]]]]]]].
    intros H. injection H as <- <-.
    exists o0, o1, o2, o3, o4. split; [reflexivity|]. repeat (split; [assumption|]).
    set (L := [("to", perm (missing o0 (uniq a0))); ("bto", perm (missing o1 (uniq a1))); ("cc", perm (missing o2 (uniq a2)));
               ("bcc", perm (missing o3 (uniq a3))); ("audience", perm (missing o4 (uniq a4)))]).
    assert (Hp : forall p, In p (map fst L) -> no_arrays (elems0 p o1') = true /\ exists old, ids_of p o1' = Ok old).
    { intros p Hin. split; [rewrite I3; apply Hf; exact Hin|]. rewrite I2.
      cbn [L map fst In] in Hin. destruct Hin as [<-|[<-|[<-|[<-|[<-|[]]]]]]; eexists; eassumption. }
    assert (Hs : forall t, In t L -> schemes (snd t)).
    { intros t Hin. cbn [L In] in Hin. destruct Hin as [<-|[<-|[<-|[<-|[<-|[]]]]]]; cbn [snd]; apply (new_schemes perm perm_in); assumption. }
    destruct (apply_all_ids L o1' m1 E1 Hp Hs) as [A1 [A2 A3]].
    cbn [apply_all fold_left L fst snd] in A1, A2, A3.
    split; [exact A1|].
    rewrite <- I2 in R0, R1, R2, R3, R4.
    rewrite (A2 "to" o0 R0), (A2 "bto" o1 R1), (A2 "cc" o2 R2), (A2 "bcc" o3 R3), (A2 "audience" o4 R4).
    cbn [L added flat_map fst snd String.eqb Ascii.eqb Bool.eqb app]. rewrite !app_nil_r.
    repeat split; reflexivity.
  Qed.

  Lemma ids_of_schemes p v ids : ids_of p v = Ok ids -> schemes ids.
  Proof. unfold ids_of. destruct (elems p v); [apply to_ids_schemes|intros H; injection H as <-; constructor]. Qed.

  (* the list of objects *)
  Definition obj_rel a0 a1 a2 a3 a4 (e e' : json) (oids : list (list string)) : Prop :=
    norm_object perm [a0; a1; a2; a3; a4] e = Ok (e', oids).
  Lemma norm_objects_spec a0 a1 a2 a3 a4 : forall objs objs' idss,
    norm_objects perm [a0; a1; a2; a3; a4] objs = Ok (objs', idss) ->
    Forall2 (fun e r => obj_rel a0 a1 a2 a3 a4 e (fst r) (snd r)) objs (combine objs' idss) /\ length objs' = length idss.
  Proof.
    induction objs as [|e r IH]; intros objs' idss; cbn [norm_objects].
    - intros H. injection H as <- <-. split; [constructor|reflexivity].
    - destruct (norm_object perm [a0; a1; a2; a3; a4] e) as [[e' ids]|x|s] eqn:E; try discriminate.
      destruct (norm_objects perm [a0; a1; a2; a3; a4] r) as [[r' idss']|x|s] eqn:Er; try discriminate.
      intros H. injection H as <- <-. destruct (IH r' idss' eq_refl) as [I1 I2]. split; [|cbn [length]; rewrite I2; reflexivity].
      cbn [combine]. constructor; [exact E|exact I1].
  Qed.

  Lemma added_app q l1 l2 : added q (l1 ++ l2) = added q l1 ++ added q l2.
  Proof. unfold added. apply flat_map_app. Qed.
  Lemma added_map_same {A} q (g : A -> list string) l : added q (map (fun x => (q, g x)) l) = flat_map g l.
  Proof. unfold added. induction l as [|x r IH]; [reflexivity|]. cbn [map flat_map fst snd]. rewrite String.eqb_refl, IH. reflexivity. Qed.
  Lemma added_map_other {A} q p (g : A -> list string) l : String.eqb p q = false -> added q (map (fun x => (p, g x)) l) = [].
  Proof. intros H. unfold added. induction l as [|x r IH]; [reflexivity|]. cbn [map flat_map fst snd]. rewrite H, IH. reflexivity. Qed.
  Lemma apply_all_app l1 l2 v : apply_all (l1 ++ l2) v = apply_all l2 (apply_all l1 v).
  Proof. unfold apply_all. apply fold_left_app. Qed.
  Lemma inner_fold p (g : list (list string) -> list string) : forall idss v,
    fold_left (fun acc oids => append_iris p (g oids) acc) idss v = apply_all (map (fun oids => (p, g oids)) idss) v.
  Proof. induction idss as [|o r IH]; intros v; [reflexivity|]. cbn [fold_left map apply_all fst snd]. apply IH. Qed.
End Norm2.

Section Norm3.
  Variable perm : list string -> list string.
  Hypothesis perm_in : forall l x, In x (perm l) <-> In x l.

  (* after normalisation: property by property, the activity's ids are its own followed by what each object had and it lacked *)
  Theorem normalize_activity a m a' :
    a = JObj m -> flat_addr a -> Forall flat_addr (elems0 "object" a) ->
    normalize_recipients perm a = Ok a' ->
    exists A0 A1 A2 A3 A4 objs' idss,
      ids_of "to" a = Ok A0 /\ ids_of "bto" a = Ok A1 /\ ids_of "cc" a = Ok A2 /\ ids_of "bcc" a = Ok A3 /\ ids_of "audience" a = Ok A4 /\
      Forall2 (fun e r => obj_rel perm A0 A1 A2 A3 A4 e (fst r) (snd r)) (elems0 "object" a) (combine objs' idss) /\ length objs' = length idss /\
      elems0 "object" a' = objs' /\
      ids_of "to" a' = Ok (A0 ++ flat_map (fun oids => perm (missing A0 (uniq (nth 0 oids [])))) idss) /\
      ids_of "bto" a' = Ok (A1 ++ flat_map (fun oids => perm (missing A1 (uniq (nth 1 oids [])))) idss) /\
      ids_of "cc" a' = Ok (A2 ++ flat_map (fun oids => perm (missing A2 (uniq (nth 2 oids [])))) idss) /\
      ids_of "bcc" a' = Ok (A3 ++ flat_map (fun oids => perm (missing A3 (uniq (nth 3 oids [])))) idss) /\
      ids_of "audience" a' = Ok (A4 ++ flat_map (fun oids => perm (missing A4 (uniq (nth 4 oids [])))) idss).
  Proof.
    intros Hm Hf Hfo. unfold normalize_recipients.
    destruct (acquire addressing false a) as [[a1 act_ids]|x|s] eqn:Ea; try discriminate.
    destruct (acquire_spec false addressing a m a1 act_ids Hm Ea) as [[m1 E1] [I2 [I3 I4]]].
    destruct (forall2_addr5 _ _ I4) as [A0 [A1 [A2 [A3 [A4 [-> [R0 [R1 [R2 [R3 R4]]]]]]]]]].
    destruct (elems "object" a1) as [objs|] eqn:Eo; [|discriminate].
    assert (Eobjs : objs = elems0 "object" a) by (rewrite <- I3; unfold elems0; rewrite Eo; reflexivity).
    destruct (norm_objects perm [A0; A1; A2; A3; A4] objs) as [[objs' idss]|x|s] eqn:En; try discriminate.
    destruct (norm_objects_spec perm A0 A1 A2 A3 A4 objs objs' idss En) as [N1 N2].
    intros H. injection H as <-.
    exists A0, A1, A2, A3, A4, objs', idss. repeat (split; [assumption|]). split; [rewrite <- Eobjs; exact N1|]. split; [exact N2|].
    (* the schemes of everything *)
    assert (SA : schemes A0 /\ schemes A1 /\ schemes A2 /\ schemes A3 /\ schemes A4).
    { repeat split; eapply ids_of_schemes; eassumption. }
    destruct SA as [S0 [S1 [S2 [S3 S4]]]].
    (* every object came out as an object, and its ids have schemes *)
    assert (HO : Forall (fun e' => exists me, e' = JObj me) objs' /\
                 Forall (fun oids => exists o0 o1 o2 o3 o4, oids = [o0; o1; o2; o3; o4] /\ schemes o0 /\ schemes o1 /\ schemes o2 /\ schemes o3 /\ schemes o4) idss).
    { clear -N1 N2 Hfo Eobjs S0 S1 S2 S3 S4 perm_in. rewrite <- Eobjs in Hfo. clear Eobjs. revert objs' idss N1 N2 Hfo.
      induction objs as [|e r IH]; intros objs' idss N1 N2 Hfo.
      - destruct objs' as [|x xs]; destruct idss as [|y ys]; try discriminate N2; try (inversion N1; fail). split; constructor.
      - destruct objs' as [|x xs]; destruct idss as [|y ys]; try discriminate N2; try (inversion N1; fail).
        cbn [combine] in N1. inversion N1 as [|e0 r0 le lr Hrel Hrest]; subst. cbn [fst snd] in Hrel.
        inversion Hfo as [|e1 r1 Hfe Hfr]; subst.
        destruct (norm_object_spec perm perm_in A0 A1 A2 A3 A4 e x y S0 S1 S2 S3 S4 Hfe Hrel) as [o0 [o1 [o2 [o3 [o4 [-> [Q0 [Q1 [Q2 [Q3 [Q4 [Hobj _]]]]]]]]]]]].
        injection N2 as N2. destruct (IH xs ys Hrest N2 Hfr) as [J1 J2]. split; constructor; try assumption.
        exists o0, o1, o2, o3, o4. split; [reflexivity|]. repeat split; eapply ids_of_schemes; eassumption. }
    destruct HO as [HO1 HO2].
    set (a2 := set_elems "object" objs' a1).
    assert (NA : no_arrays objs' = true).
    { unfold no_arrays. apply forallb_forall. intros x Hx. rewrite Forall_forall in HO1. destruct (HO1 x Hx) as [me ->]. reflexivity. }
    assert (G2 : forall q, q <> "object" -> jget q a2 = jget q a1) by (intros q Hq; unfold a2, set_elems; apply jget_jset_other; exact Hq).
    assert (O2 : exists m2, a2 = JObj m2) by (unfold a2, set_elems; rewrite E1; apply jset_obj).
    destruct O2 as [m2 E2].
    assert (EO2 : elems0 "object" a2 = objs') by (unfold a2; apply (elems_set_elems "object" objs' a1 m1 E1); exact NA).
    (* phase 3 as one sequence of appends *)
    cbn [seq combine addressing fold_left].
    rewrite !inner_fold. rewrite <- !apply_all_app.
    set (L := map (fun oids => ("to", perm (missing A0 (uniq (nth 0 oids []))))) idss ++
              map (fun oids => ("bto", perm (missing A1 (uniq (nth 1 oids []))))) idss ++
              map (fun oids => ("cc", perm (missing A2 (uniq (nth 2 oids []))))) idss ++
              map (fun oids => ("bcc", perm (missing A3 (uniq (nth 3 oids []))))) idss ++
              map (fun oids => ("audience", perm (missing A4 (uniq (nth 4 oids []))))) idss).
    fold a2.
    match goal with |- context [apply_all ?l a2] => assert (EL : l = L) by (unfold L; rewrite <- ?app_assoc; reflexivity) end.
    try rewrite EL. clear EL.
    assert (Hin : forall p, In p (map fst L) -> In p addressing).
    { intros p Hp. unfold L in Hp. rewrite !map_app, !map_map in Hp. cbn [fst] in Hp. rewrite !in_app_iff, !in_map_iff in Hp. unfold addressing. cbn [In].
      destruct Hp as [[? [<- _]]|[[? [<- _]]|[[? [<- _]]|[[? [<- _]]|[? [<- _]]]]]]; tauto. }
    assert (Hp : forall p, In p (map fst L) -> no_arrays (elems0 p a2) = true /\ exists old, ids_of p a2 = Ok old).
    { intros p Hp. apply Hin in Hp. assert (Hne : p <> "object") by (intros ->; unfold addressing in Hp; cbn [In] in Hp; intuition discriminate).
      rewrite (elems0_jget p a1 a2 (G2 p Hne)), (ids_of_jget p a1 a2 (G2 p Hne)), I3, I2. split; [apply Hf; exact Hp|].
      unfold addressing in Hp. cbn [In] in Hp. destruct Hp as [<-|[<-|[<-|[<-|[<-|[]]]]]]; eexists; eassumption. }
    assert (Hs : forall t, In t L -> schemes (snd t)).
    { intros t Ht. unfold L in Ht. rewrite !in_app_iff, !in_map_iff in Ht. rewrite Forall_forall in HO2.
      destruct Ht as [[oids [<- Ho]]|[[oids [<- Ho]]|[[oids [<- Ho]]|[[oids [<- Ho]]|[oids [<- Ho]]]]]]; cbn [snd];
        destruct (HO2 oids Ho) as [o0 [o1 [o2 [o3 [o4 [-> [T0 [T1 [T2 [T3 T4]]]]]]]]]]; cbn [nth]; apply (new_schemes perm perm_in); assumption. }
    destruct (apply_all_ids L a2 m2 E2 Hp Hs) as [B1 [B2 B3]].
    split.
    - rewrite <- EO2. apply elems0_jget. apply B3. intros Hc. apply Hin in Hc. unfold addressing in Hc. cbn [In] in Hc. intuition discriminate.
    - assert (K : forall p A, p <> "object" -> ids_of p a = Ok A -> ids_of p a2 = Ok A).
      { intros p A Hne HA. rewrite (ids_of_jget p a1 a2 (G2 p Hne)), I2. exact HA. }
      rewrite (B2 "to" A0 (K "to" A0 ltac:(discriminate) R0)), (B2 "bto" A1 (K "bto" A1 ltac:(discriminate) R1)), (B2 "cc" A2 (K "cc" A2 ltac:(discriminate) R2)),
              (B2 "bcc" A3 (K "bcc" A3 ltac:(discriminate) R3)), (B2 "audience" A4 (K "audience" A4 ltac:(discriminate) R4)).
      unfold L. rewrite !added_app.
      rewrite !added_map_same.
      rewrite !(added_map_other "to") by reflexivity. rewrite !(added_map_other "bto") by reflexivity. rewrite !(added_map_other "cc") by reflexivity.
      rewrite !(added_map_other "bcc") by reflexivity. rewrite !(added_map_other "audience") by reflexivity.
      cbn [app]. rewrite !app_nil_r. repeat split; reflexivity.
  Qed.
End Norm3.

Section Norm4.
  Variable perm : list string -> list string.
  Hypothesis perm_in : forall l x, In x (perm l) <-> In x l.

  Lemma union_in have want x : In x (perm (missing have (uniq want))) <-> In x want /\ ~ In x have.
  Proof. rewrite perm_in, missing_in, (uniq_in want x). reflexivity. Qed.

  (* one property (index k, name p, the activity's ids A), all objects *)
  Lemma per_property k p A : forall objs objs' idss,
    Forall2 (fun e r => exists o, nth k (snd r) [] = o /\ ids_of p e = Ok o /\ ids_of p (fst r) = Ok (o ++ perm (missing o (uniq A)))) objs (combine objs' idss) ->
    length objs' = length idss ->
    (forall x, In x (A ++ flat_map (fun oids => perm (missing A (uniq (nth k oids [])))) idss) <->
               In x A \/ exists e o, In e objs /\ ids_of p e = Ok o /\ In x o) /\
    Forall2 (fun e e' => exists o n', ids_of p e = Ok o /\ ids_of p e' = Ok n' /\ forall x, In x n' <-> In x o \/ In x A) objs objs'.
  Proof.
    induction objs as [|e r IH]; intros objs' idss H Hl.
    - destruct objs' as [|x xs]; destruct idss as [|y ys]; try discriminate Hl; try (inversion H; fail).
      split; [|constructor]. intros x. cbn [flat_map]. rewrite app_nil_r. split; [tauto|]. intros [Hx|[e [o [[] _]]]]. exact Hx.
    - destruct objs' as [|e' xs]; destruct idss as [|oids ys]; try discriminate Hl; try (inversion H; fail).
      cbn [combine] in H. inversion H as [|e0 r0 le lr [o [Hn [Ho Ho']]] Hrest]; subst. cbn [fst snd] in *.
      injection Hl as Hl. destruct (IH xs ys Hrest Hl) as [I1 I2]. split.
      + intros x. cbn [flat_map]. rewrite in_app_iff, in_app_iff, union_in. specialize (I1 x). rewrite in_app_iff in I1. split.
        * intros [Hx|[[Hx _]|Hx]]; [left; exact Hx|right; exists e, (nth k oids []); split; [left; reflexivity|split; assumption]|].
          destruct (proj1 I1 (or_intror Hx)) as [Hx'|[e1 [o1 [Hin [Ho1 Hx1]]]]]; [left; exact Hx'|right; exists e1, o1; split; [right; exact Hin|split; assumption]].
        * intros [Hx|[e1 [o1 [[<-|Hin] [Ho1 Hx1]]]]]; [left; exact Hx| |].
          -- assert (o1 = nth k oids []) by congruence. subst o1. destruct (in_dec string_dec x A); [left; assumption|right; left; split; assumption].
          -- destruct (proj2 I1 (or_intror (ex_intro _ e1 (ex_intro _ o1 (conj Hin (conj Ho1 Hx1)))))) as [Hx|Hx]; [left; exact Hx|right; right; exact Hx].
      + constructor; [|exact I2]. exists (nth k oids []), (nth k oids [] ++ perm (missing (nth k oids []) (uniq A))). split; [exact Ho|]. split; [exact Ho'|].
        intros x. apply (new_in perm perm_in).
  Qed.

  Lemma obj_k A0 A1 A2 A3 A4 e e' oids : schemes A0 -> schemes A1 -> schemes A2 -> schemes A3 -> schemes A4 -> flat_addr e ->
    obj_rel perm A0 A1 A2 A3 A4 e e' oids ->
    forall k p A, In (k, p, A) [(0, "to", A0); (1, "bto", A1); (2, "cc", A2); (3, "bcc", A3); (4, "audience", A4)] ->
    exists o, nth k oids [] = o /\ ids_of p e = Ok o /\ ids_of p e' = Ok (o ++ perm (missing o (uniq A))).
  Proof.
    intros S0 S1 S2 S3 S4 Hf Hr k p A Hin.
    destruct (norm_object_spec perm perm_in A0 A1 A2 A3 A4 e e' oids S0 S1 S2 S3 S4 Hf Hr) as [o0 [o1 [o2 [o3 [o4 [-> [Q0 [Q1 [Q2 [Q3 [Q4 [_ [P0 [P1 [P2 [P3 P4]]]]]]]]]]]]]]]].
    cbn [In] in Hin. destruct Hin as [E|[E|[E|[E|[E|[]]]]]]; injection E as <- <- <-; cbn [nth]; eexists; (split; [reflexivity|]); split; eassumption.
  Qed.

  (* the statement: every addressing property of the activity ends as the union over activity and objects; every object keeps
     its own and gains the activity's *)
  Theorem normalisation_unions a m a' :
    a = JObj m -> flat_addr a -> Forall flat_addr (elems0 "object" a) ->
    normalize_recipients perm a = Ok a' ->
    forall p, In p addressing ->
    exists A n, ids_of p a = Ok A /\ ids_of p a' = Ok n /\
      (forall x, In x n <-> In x A \/ exists e o, In e (elems0 "object" a) /\ ids_of p e = Ok o /\ In x o) /\
      Forall2 (fun e e' => exists o n', ids_of p e = Ok o /\ ids_of p e' = Ok n' /\ forall x, In x n' <-> In x o \/ In x A)
              (elems0 "object" a) (elems0 "object" a').
  Proof.
    intros Hm Hf Hfo Hn p Hp.
    destruct (normalize_activity perm perm_in a m a' Hm Hf Hfo Hn) as [A0 [A1 [A2 [A3 [A4 [objs' [idss [R0 [R1 [R2 [R3 [R4 [F2 [Hl [EO [N0 [N1 [N2 [N3 N4]]]]]]]]]]]]]]]]]]].
    assert (SA : schemes A0 /\ schemes A1 /\ schemes A2 /\ schemes A3 /\ schemes A4) by (repeat split; eapply ids_of_schemes; eassumption).
    destruct SA as [S0 [S1 [S2 [S3 S4]]]].
    assert (G : forall k q A, In (k, q, A) [(0, "to", A0); (1, "bto", A1); (2, "cc", A2); (3, "bcc", A3); (4, "audience", A4)] ->
      Forall2 (fun e r => exists o, nth k (snd r) [] = o /\ ids_of q e = Ok o /\ ids_of q (fst r) = Ok (o ++ perm (missing o (uniq A)))) (elems0 "object" a) (combine objs' idss)).
    { intros k q A Hin. clear -F2 Hfo Hin S0 S1 S2 S3 S4 perm_in. revert Hfo. induction F2 as [|e r le lr Hr _ IH]; intros Hfo; [constructor|].
      inversion Hfo as [|e1 r1 Hfe Hfr]; subst. constructor; [|apply IH; exact Hfr].
      exact (obj_k A0 A1 A2 A3 A4 e (fst r) (snd r) S0 S1 S2 S3 S4 Hfe Hr k q A Hin). }
    unfold addressing in Hp. cbn [In] in Hp. rewrite EO.
    destruct Hp as [<-|[<-|[<-|[<-|[<-|[]]]]]].
    - destruct (per_property 0 "to" A0 _ _ _ (G 0 "to" A0 ltac:(cbn; tauto)) Hl) as [P1 P2]. exists A0. eexists. split; [exact R0|]. split; [exact N0|]. split; assumption.
    - destruct (per_property 1 "bto" A1 _ _ _ (G 1 "bto" A1 ltac:(cbn; tauto)) Hl) as [P1 P2]. exists A1. eexists. split; [exact R1|]. split; [exact N1|]. split; assumption.
    - destruct (per_property 2 "cc" A2 _ _ _ (G 2 "cc" A2 ltac:(cbn; tauto)) Hl) as [P1 P2]. exists A2. eexists. split; [exact R2|]. split; [exact N2|]. split; assumption.
    - destruct (per_property 3 "bcc" A3 _ _ _ (G 3 "bcc" A3 ltac:(cbn; tauto)) Hl) as [P1 P2]. exists A3. eexists. split; [exact R3|]. split; [exact N3|]. split; assumption.
    - destruct (per_property 4 "audience" A4 _ _ _ (G 4 "audience" A4 ltac:(cbn; tauto)) Hl) as [P1 P2]. exists A4. eexists. split; [exact R4|]. split; [exact N4|]. split; assumption.
  Qed.
End Norm4.
