(* The fuelled closure [anc] against clos_trans, for every ontology that passes
   the (computable) saturation test. *)
From Coq Require Import String List Bool Arith Lia Relations.
From Verif Require Import Base.ListX Vocab.Ontology Vocab.Spec.
Import ListNotations.
Open Scope string_scope.

Section WithOntology.
  Variable ont : ontology.

  Definition parent_rel (a b : string) : Prop := In b (parents_of ont a).

  Lemma anc_sound n : forall a b, In b (anc ont n a) -> clos_trans string parent_rel a b.
  Proof.
    induction n as [|n IH]; intros a b H; simpl in H; [contradiction|].
    apply in_flat_map in H. destruct H as [p [Hp Hb]].
    destruct Hb as [Hb|Hb].
    - subst. apply t_step. exact Hp.
    - eapply t_trans; [apply t_step; exact Hp|]. apply IH. exact Hb.
  Qed.

  Lemma ancestors_sound a b : In b (ancestors ont a) -> clos_trans string parent_rel a b.
  Proof. apply anc_sound. Qed.

  Lemma parents_of_nonclass a : ~ In a (class_names ont) -> parents_of ont a = [].
  Proof.
    unfold parents_of, class_names. intros H.
    destruct (find_row c_name a (classes ont)) as [c|] eqn:E; [|reflexivity].
    exfalso. apply H. apply find_row_In in E. destruct E as [E1 E2].
    subst. apply in_map. exact E1.
  Qed.

  Lemma anc_nonclass n a : ~ In a (class_names ont) -> anc ont n a = [].
  Proof. intros H. destruct n; simpl; [reflexivity|]. rewrite parents_of_nonclass by exact H. reflexivity. Qed.

  Hypothesis Hsat : saturated ont = true.

  Lemma sat_step1 a p : In p (parents_of ont a) -> In p (ancestors ont a).
  Proof.
    intros Hp.
    destruct (mem a (class_names ont)) eqn:E.
    - apply mem_In in E. unfold saturated in Hsat. rewrite forallb_forall in Hsat.
      specialize (Hsat a E). apply andb_true_iff in Hsat. destruct Hsat as [H1 _].
      rewrite subset_spec in H1. apply H1. exact Hp.
    - apply mem_false_In in E. rewrite parents_of_nonclass in Hp by exact E. contradiction.
  Qed.

  Lemma sat_step2 a b p : In b (ancestors ont a) -> In p (parents_of ont b) -> In p (ancestors ont a).
  Proof.
    intros Hb Hp.
    destruct (mem a (class_names ont)) eqn:E.
    - apply mem_In in E. unfold saturated in Hsat. rewrite forallb_forall in Hsat.
      specialize (Hsat a E). apply andb_true_iff in Hsat. destruct Hsat as [_ H2].
      rewrite forallb_forall in H2. specialize (H2 b Hb). rewrite subset_spec in H2. apply H2. exact Hp.
    - apply mem_false_In in E. unfold ancestors in Hb. rewrite anc_nonclass in Hb by exact E. contradiction.
  Qed.

  Lemma ancestors_complete a b : clos_trans string parent_rel a b -> In b (ancestors ont a).
  Proof.
    intros H. apply clos_trans_tn1 in H. induction H as [y Hy|y z Hyz Hxy IH].
    - apply sat_step1. exact Hy.
    - eapply sat_step2; [exact IH|exact Hyz].
  Qed.

  Theorem ancestors_correct a b : In b (ancestors ont a) <-> clos_trans string parent_rel a b.
  Proof. split; [apply ancestors_sound|apply ancestors_complete]. Qed.

  Definition aos (a b : string) : Prop := a = b \/ clos_trans string parent_rel a b.

  Lemma anc_or_self_correct a b : In b (anc_or_self ont a) <-> aos a b.
  Proof.
    unfold anc_or_self, aos. simpl. rewrite ancestors_correct. reflexivity.
  Qed.

  Definition declared (a b : string) : Prop := In b (declared_disjoint ont a).

  Definition DisjointSpec (a b : string) : Prop :=
    exists a' b', aos a a' /\ aos b b' /\ (declared a' b' \/ declared b' a').

  Theorem disjoint_spec_correct a b : disjoint_spec ont a b = true <-> DisjointSpec a b.
  Proof.
    unfold disjoint_spec, DisjointSpec. rewrite existsb_exists. split.
    - intros [a' [Ha H]]. rewrite existsb_exists in H. destruct H as [b' [Hb H]].
      exists a', b'. rewrite <- !anc_or_self_correct. split; [exact Ha|split; [exact Hb|]].
      apply orb_true_iff in H. unfold declared. rewrite <- !mem_In. exact H.
    - intros [a' [b' [Ha [Hb H]]]]. exists a'. rewrite anc_or_self_correct. split; [exact Ha|].
      rewrite existsb_exists. exists b'. rewrite anc_or_self_correct. split; [exact Hb|].
      apply orb_true_iff. unfold declared in H. rewrite <- !mem_In in H. exact H.
  Qed.

  (* disjointness as specified is symmetric, for every ontology *)
  Theorem DisjointSpec_sym a b : DisjointSpec a b -> DisjointSpec b a.
  Proof.
    intros [a' [b' [Ha [Hb H]]]]. exists b', a'. split; [exact Hb|split; [exact Ha|]].
    destruct H; [right|left]; assumption.
  Qed.

  Lemma descendants_correct a b :
    In b (descendants ont a) <-> In b (class_names ont) /\ clos_trans string parent_rel b a.
  Proof.
    unfold descendants. rewrite filter_In, mem_In, ancestors_correct. reflexivity.
  Qed.
End WithOntology.
