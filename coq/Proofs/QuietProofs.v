(* "Quiet" programs: they write nothing to the ResponseWriter and do not call
   the authentication callbacks.  Everything the delegate (side effects,
   delivery, forwarding, wrapped callbacks) does is quiet; this is what lets the
   HTTP-level theorems of C10 treat the delegate as a black box. *)
From Coq Require Import String List Bool Arith ZArith.
From Verif Require Import Base.ListX Base.Json Base.Free Pub.Events Pub.Calls Pub.Value Pub.Util Pub.SideEffect Pub.Fed Pub.Soc Pub.BaseActor Pub.Monitors.
Import ListNotations.
Open Scope string_scope.

Definition quiet (e : ev) : bool :=
  match e with
  | EWriteHeader _ | ESetHeader _ _ | EWrite _ => false
  | EApp name _ => negb (prefix "Authenticate" name)
  | _ => true
  end.

Fixpoint quiet_prog {A} (m : prog A) : Prop :=
  match m with
  | Ret _ => True
  | Op e k => quiet e = true /\ forall x, quiet_prog (k x)
  end.

Lemma quiet_bind {A B} (m : prog A) (f : A -> prog B) :
  quiet_prog m -> (forall a, quiet_prog (f a)) -> quiet_prog (bind m f).
Proof.
  induction m as [a|e k IH]; simpl; intros Hm Hf; [apply Hf|].
  destruct Hm as [He Hk]. split; [exact He|]. intros x. apply IH; [apply Hk|exact Hf].
Qed.

Lemma quiet_bindr {A B} (m : prog (res A)) (f : A -> prog (res B)) :
  quiet_prog m -> (forall a, quiet_prog (f a)) -> quiet_prog (bindr m f).
Proof.
  intros Hm Hf. unfold bindr. apply quiet_bind; [exact Hm|]. intros [a|e|s]; simpl; auto.
Qed.

Lemma quiet_foreach {A} (l : list A) (f : A -> prog (res unit)) :
  (forall x, quiet_prog (f x)) -> quiet_prog (foreach l f).
Proof.
  intros Hf. induction l as [|x r IH]; simpl; [exact I|]. apply quiet_bindr; [apply Hf|]. intros _. exact IH.
Qed.

Lemma quiet_mapm {A B} (l : list A) (f : A -> prog (res B)) :
  (forall x, quiet_prog (f x)) -> quiet_prog (mapm l f).
Proof.
  intros Hf. induction l as [|x r IH]; simpl; [exact I|]. apply quiet_bindr; [apply Hf|]. intros y.
  apply quiet_bindr; [exact IH|]. intros ys. exact I.
Qed.

Lemma quiet_lift {A} (r : res A) : quiet_prog (lift r).
Proof. exact I. Qed.

Create HintDb quiet.
#[export] Hint Resolve quiet_lift : quiet.

(* one step of the syntactic decomposition *)
Ltac q_step :=
  match goal with
  | |- quiet_prog (Ret _) => exact I
  | |- quiet_prog (ok _) => exact I
  | |- quiet_prog (fail _) => exact I
  | |- quiet_prog (panic _) => exact I
  | |- quiet_prog (ret _) => exact I
  | |- quiet_prog (lift _) => exact I
  | |- quiet_prog (bind _ _) => apply quiet_bind; [|intros]
  | |- quiet_prog (bindr _ _) => apply quiet_bindr; [|intros]
  | |- quiet_prog (Op _ _) => split; [reflexivity|intros]
  | |- quiet_prog (foreach _ _) => apply quiet_foreach; intros
  | |- quiet_prog (mapm _ _) => apply quiet_mapm; intros
  | |- quiet_prog (match ?x with _ => _ end) => destruct x
  | |- quiet_prog (if ?b then _ else _) => destruct b
  | |- quiet_prog (let (_, _) := ?p in _) => destruct p
  | |- quiet_prog _ => solve [auto with quiet]
  end.
Ltac q := repeat q_step.
(* unfold the head definition, then decompose *)
Ltac qu f := unfold f; q.

(* ---- Calls ---- *)
Lemma q_lock i : quiet_prog (lock i). Proof. unfold lock, call; q. Qed.
Lemma q_unlock i : quiet_prog (unlock i). Proof. unfold unlock, call; q. Qed.
Lemma q_db op args : quiet_prog (db op args). Proof. unfold db, call; q. Qed.
#[export] Hint Resolve q_lock q_unlock q_db : quiet.
Lemma q_db_unit op args : quiet_prog (db_unit op args). Proof. qu db_unit. Qed.
Lemma q_db_bool op args : quiet_prog (db_bool op args). Proof. qu db_bool. Qed.
Lemma q_db_iri op args : quiet_prog (db_iri op args). Proof. qu db_iri. Qed.
Lemma q_db_opt_iri op args : quiet_prog (db_opt_iri op args). Proof. qu db_opt_iri. Qed.
Lemma q_db_json op args : quiet_prog (db_json op args). Proof. qu db_json. Qed.
Lemma q_db_opt_json op args : quiet_prog (db_opt_json op args). Proof. qu db_opt_json. Qed.
Lemma q_new_transport b : quiet_prog (new_transport b). Proof. unfold new_transport, call; q. Qed.
Lemma q_dereference i : quiet_prog (dereference i). Proof. unfold dereference, call; q. Qed.
Lemma q_batch p r : quiet_prog (batch_deliver p r). Proof. unfold batch_deliver, call; q. Qed.
Lemma q_now : quiet_prog now. Proof. unfold now, call; q. Qed.
#[export] Hint Resolve q_db_unit q_db_bool q_db_iri q_db_opt_iri q_db_json q_db_opt_json q_new_transport q_dereference q_batch q_now : quiet.

Lemma q_app name args : prefix "Authenticate" name = false -> quiet_prog (app name args).
Proof. intros H. unfold app, call. simpl. rewrite H. split; [reflexivity|]. intros x. exact I. Qed.
Lemma q_app_unit name args : prefix "Authenticate" name = false -> quiet_prog (app_unit name args).
Proof. intros H. unfold app_unit. apply quiet_bind; [apply q_app; exact H|]. intros x. q. Qed.

Lemma q_with_lock {A} i (body : prog (res A)) : quiet_prog body -> quiet_prog (with_lock_deferred i body).
Proof. intros H. unfold with_lock_deferred. q. Qed.
#[export] Hint Resolve q_with_lock : quiet.

Lemma q_fetch box i : quiet_prog (fetch box i). Proof. qu fetch. Qed.
#[export] Hint Resolve q_fetch : quiet.

Ltac q_step2 :=
  match goal with
  | |- True => exact I
  | |- _ = _ /\ _ => split; [reflexivity|intros]
  | |- quiet_prog (with_lock_deferred _ _) => apply q_with_lock
  | |- quiet_prog (app_unit _ _) => apply q_app_unit; reflexivity
  | |- quiet_prog (app _ _) => apply q_app; reflexivity
  | |- _ => q_step
  end.
Ltac q ::= repeat q_step2.
#[export] Hint Extern 1 (quiet_prog (app_unit _ _)) => apply q_app_unit; reflexivity : quiet.
#[export] Hint Extern 1 (quiet_prog (app _ _)) => apply q_app; reflexivity : quiet.

(* ---- Util ---- *)
Lemma q_add_loop ids t : quiet_prog (add_loop ids t). Proof. qu add_loop. Qed.
Lemma q_remove_loop ids t : quiet_prog (remove_loop ids t). Proof. qu remove_loop. Qed.
#[export] Hint Resolve q_add_loop q_remove_loop : quiet.
Lemma q_add a : quiet_prog (add a). Proof. qu add. Qed.
Lemma q_remove a : quiet_prog (remove a). Proof. qu remove. Qed.
Lemma q_actors_match_one box aa e : quiet_prog (actors_match_one box aa e). Proof. qu actors_match_one. Qed.
#[export] Hint Resolve q_add q_remove q_actors_match_one : quiet.
Lemma q_must_actors_match box a : quiet_prog (must_actors_match box a). Proof. qu must_actors_match. Qed.
#[export] Hint Resolve q_must_actors_match : quiet.

(* ---- SideEffect ---- *)
Lemma q_add_to_inbox_if_new i a : quiet_prog (add_to_inbox_if_new i a). Proof. qu add_to_inbox_if_new. Qed.
Lemma q_add_to_outbox o a : quiet_prog (add_to_outbox o a). Proof. qu add_to_outbox. Qed.
Lemma q_deliver_to_recipients b a r : quiet_prog (deliver_to_recipients b a r). Proof. qu deliver_to_recipients. Qed.
Lemma q_wrap_in_create_for o b : quiet_prog (wrap_in_create_for o b). Proof. qu wrap_in_create_for. Qed.
#[export] Hint Resolve q_add_to_inbox_if_new q_add_to_outbox q_deliver_to_recipients q_wrap_in_create_for : quiet.

Lemma q_new_ids_objects l : quiet_prog (new_ids_objects l).
Proof. induction l as [|e r IH]; cbn [new_ids_objects]; q. Qed.
#[export] Hint Resolve q_new_ids_objects : quiet.
Lemma q_add_new_ids a : quiet_prog (add_new_ids a). Proof. qu add_new_ids. Qed.
Lemma q_deref_for_resolving u : quiet_prog (deref_for_resolving u). Proof. qu deref_for_resolving. Qed.
#[export] Hint Resolve q_add_new_ids q_deref_for_resolving : quiet.

Lemma q_resolve_actors fuel : forall r, quiet_prog (resolve_actors fuel r).
Proof.
  induction fuel as [|f IH]; intros r; cbn [resolve_actors]; [exact I|].
  induction r as [|u rest IHr]; [exact I|]. q; try exact IHr.
Qed.
#[export] Hint Resolve q_resolve_actors : quiet.

Lemma q_inboxes_from_db r : quiet_prog (inboxes_from_db r).
Proof. induction r as [|a rest IH]; cbn [inboxes_from_db]; q. Qed.
#[export] Hint Resolve q_inboxes_from_db : quiet.
Lemma q_max_delivery_depth : quiet_prog max_delivery_depth. Proof. qu max_delivery_depth. Qed.
#[export] Hint Resolve q_max_delivery_depth : quiet.
Lemma q_deliver o a : quiet_prog (deliver o a). Proof. qu deliver. Qed.
#[export] Hint Resolve q_deliver : quiet.

Lemma q_owns_any ids : quiet_prog (owns_any ids).
Proof. induction ids as [|i r IH]; cbn [owns_any]; q. Qed.
Lemma q_owns_any_value vs : quiet_prog (owns_any_value vs).
Proof. induction vs as [|v r IH]; cbn [owns_any_value]; q. Qed.
Lemma q_fetch_for_forwarding box iris : quiet_prog (fetch_for_forwarding box iris).
Proof. induction iris as [|i r IH]; cbn [fetch_for_forwarding]; q. Qed.
#[export] Hint Resolve q_owns_any q_owns_any_value q_fetch_for_forwarding : quiet.

Lemma q_has_forwarding_values fuel : forall box v, quiet_prog (has_forwarding_values fuel box v).
Proof.
  induction fuel as [|f IH]; intros box v; cbn [has_forwarding_values]; [exact I|].
  destruct (forwarding_values v) as [types iris]. q.
  match goal with |- quiet_prog (_ ?l) => induction l as [|x r IHl] end; [exact I|]. q.
Qed.
#[export] Hint Resolve q_has_forwarding_values : quiet.

Lemma q_my_iris r : quiet_prog (my_iris r).
Proof. induction r as [|i rest IH]; cbn [my_iris]; q. Qed.
Lemma q_unlock_all l : quiet_prog (unlock_all l).
Proof. induction l as [|i r IH]; cbn [unlock_all]; q. Qed.
Lemma q_load_collections l : forall d c, quiet_prog (load_collections l d c).
Proof. induction l as [|i r IH]; intros d c; cbn [load_collections]; q. Qed.
#[export] Hint Resolve q_my_iris q_unlock_all q_load_collections : quiet.
Lemma q_inbox_forwarding i a : quiet_prog (inbox_forwarding i a). Proof. qu inbox_forwarding. Qed.
#[export] Hint Resolve q_inbox_forwarding : quiet.

(* ---- Fed ---- *)
Lemma q_wrapped cfg n a : quiet_prog (Fed.wrapped cfg n a).
Proof. unfold Fed.wrapped. destruct (mem n (c_fed_wrapped cfg)); [|exact I]. apply q_app_unit. reflexivity. Qed.
#[export] Hint Resolve q_wrapped : quiet.
Lemma q_value_or_fetch inbox e : quiet_prog (value_or_fetch inbox e). Proof. qu value_or_fetch. Qed.
#[export] Hint Resolve q_value_or_fetch : quiet.
Lemma q_fed_create cfg inbox a : quiet_prog (Fed.create cfg inbox a). Proof. qu Fed.create. Qed.
Lemma q_fed_update cfg a : quiet_prog (Fed.update cfg a). Proof. qu Fed.update. Qed.
Lemma q_fed_delete cfg a : quiet_prog (Fed.delete cfg a). Proof. qu Fed.delete. Qed.
Lemma q_fed_follow cfg inbox a : quiet_prog (Fed.follow cfg inbox a). Proof. qu Fed.follow. Qed.
Lemma q_find_my_follow inbox actor l : quiet_prog (find_my_follow inbox actor l).
Proof. induction l as [|e r IH]; cbn [find_my_follow]; q. Qed.
#[export] Hint Resolve q_find_my_follow : quiet.
Lemma q_fed_accept cfg inbox a : quiet_prog (Fed.accept cfg inbox a). Proof. qu Fed.accept. Qed.
Lemma q_fed_reject cfg a : quiet_prog (Fed.reject cfg a). Proof. qu Fed.reject. Qed.
Lemma q_fed_add cfg a : quiet_prog (Fed.add_cb cfg a). Proof. qu Fed.add_cb. Qed.
Lemma q_fed_remove cfg a : quiet_prog (Fed.remove_cb cfg a). Proof. qu Fed.remove_cb. Qed.
Lemma q_like_loop cp id e : quiet_prog (like_loop cp id e). Proof. qu like_loop. Qed.
#[export] Hint Resolve q_like_loop : quiet.
Lemma q_fed_like cfg a : quiet_prog (Fed.like cfg a). Proof. qu Fed.like. Qed.
Lemma q_fed_announce cfg a : quiet_prog (Fed.announce cfg a). Proof. qu Fed.announce. Qed.
Lemma q_fed_undo cfg inbox a : quiet_prog (Fed.undo cfg inbox a). Proof. qu Fed.undo. Qed.
Lemma q_fed_block cfg a : quiet_prog (Fed.block cfg a). Proof. qu Fed.block. Qed.
#[export] Hint Resolve q_fed_create q_fed_update q_fed_delete q_fed_follow q_fed_accept q_fed_reject q_fed_add q_fed_remove q_fed_like q_fed_announce q_fed_undo q_fed_block : quiet.
Lemma q_fed_default cfg inbox ty a : quiet_prog (fed_default cfg inbox ty a). Proof. qu fed_default. Qed.
#[export] Hint Resolve q_fed_default : quiet.
Lemma q_other n a : quiet_prog (app_unit ("Other:" ++ n) [a]).
Proof. apply q_app_unit. reflexivity. Qed.
#[export] Hint Resolve q_other : quiet.
Lemma q_post_inbox cfg inbox a : quiet_prog (post_inbox cfg inbox a). Proof. qu post_inbox. Qed.

(* ---- Soc ---- *)
Lemma q_swrapped cfg n a : quiet_prog (swrapped cfg n a).
Proof. unfold swrapped. destruct (mem n (c_soc_wrapped cfg)); [|exact I]. apply q_app_unit. reflexivity. Qed.
#[export] Hint Resolve q_swrapped : quiet.
Lemma q_soc_create cfg perm a : quiet_prog (Soc.create cfg perm a). Proof. qu Soc.create. Qed.
Lemma q_update_loop raw : forall l idx ids, quiet_prog (update_loop raw idx l ids).
Proof. induction l as [|e r IH]; intros idx [|id ids]; cbn [update_loop]; q. Qed.
#[export] Hint Resolve q_update_loop : quiet.
Lemma q_soc_update cfg raw a : quiet_prog (Soc.update cfg raw a). Proof. qu Soc.update. Qed.
Lemma q_soc_delete cfg a : quiet_prog (Soc.delete cfg a). Proof. qu Soc.delete. Qed.
Lemma q_soc_follow cfg a : quiet_prog (Soc.follow cfg a). Proof. qu Soc.follow. Qed.
Lemma q_soc_add cfg a : quiet_prog (Soc.add_cb cfg a). Proof. qu Soc.add_cb. Qed.
Lemma q_soc_remove cfg a : quiet_prog (Soc.remove_cb cfg a). Proof. qu Soc.remove_cb. Qed.
Lemma q_soc_like cfg outbox a : quiet_prog (Soc.like cfg outbox a). Proof. qu Soc.like. Qed.
Lemma q_soc_undo cfg outbox a : quiet_prog (Soc.undo cfg outbox a). Proof. qu Soc.undo. Qed.
Lemma q_soc_block cfg a : quiet_prog (Soc.block cfg a). Proof. qu Soc.block. Qed.
#[export] Hint Resolve q_soc_create q_soc_update q_soc_delete q_soc_follow q_soc_add q_soc_remove q_soc_like q_soc_undo q_soc_block : quiet.
Lemma q_post_outbox cfg outbox raw perm a : quiet_prog (post_outbox cfg outbox raw perm a). Proof. unfold post_outbox, soc_callbacks. q. Qed.
#[export] Hint Resolve q_post_inbox q_post_outbox : quiet.

(* ---- BaseActor.deliver ---- *)
Lemma q_deliver_outbox cfg perm outbox v raw : quiet_prog (deliver_outbox cfg perm outbox v raw). Proof. qu deliver_outbox. Qed.
#[export] Hint Resolve q_deliver_outbox : quiet.
