(* C01, idempotence: the remaining hypothesis of Proofs/IdemProofs.v (time_literals_idem) for the shipped literal codecs -
   a printed xsd:duration / xsd:dateTime is read back as itself. *)
From Coq Require Import String Ascii List Bool Arith ZArith Lia.
From Verif Require Import Base.ListX Base.Json Base.Time Vocab.Tables Gen.TablesShipped Streams.Literals Streams.Codec Streams.CodecInst.
From Verif Require Import Proofs.LiteralProofs Proofs.IdemProofs.
Import ListNotations.
Open Scope string_scope.
Open Scope list_scope.
Open Scope Z_scope.

(* ---------- characters and decimal numbers ---------- *)
Lemma chars_app s t : chars (String.append s t) = chars s ++ chars t.
Proof. unfold chars. induction s as [|c s IH]; [reflexivity|]. cbn [String.append list_ascii_of_string app]. rewrite IH. reflexivity. Qed.

Lemma digit_char_ok d : 0 <= d <= 9 -> is_digit (digit_char d) = true /\ digit_val (digit_char d) = d.
Proof.
  intros H. assert (E : d = 0 \/ d = 1 \/ d = 2 \/ d = 3 \/ d = 4 \/ d = 5 \/ d = 6 \/ d = 7 \/ d = 8 \/ d = 9) by lia.
  repeat (destruct E as [E|E]; [subst d; split; reflexivity|]). subst d. split; reflexivity.
Qed.

Lemma digits_val_snoc ds c : digits_val (ds ++ [c]) = digits_val ds * 10 + digit_val c.
Proof. unfold digits_val. rewrite fold_left_app. reflexivity. Qed.

Lemma all_digits_app a b : all_digits a -> all_digits b -> all_digits (a ++ b).
Proof. unfold all_digits. intros Ha Hb. rewrite forallb_app, Ha, Hb. reflexivity. Qed.

Lemma z_digits_spec f : forall n acc, 0 <= n < 10 ^ Z.of_nat (S f) ->
  exists ds, chars (z_digits (S f) n acc) = ds ++ chars acc /\ all_digits ds /\ ds <> [] /\ digits_val ds = n.
Proof.
  induction f as [|f IH]; intros n acc Hn.
  - change (10 ^ Z.of_nat 1) with 10 in Hn. cbn [z_digits]. destruct (Z.ltb_spec n 10) as [_|Hge]; [|lia].
    rewrite Z.mod_small by lia. destruct (digit_char_ok n ltac:(lia)) as [Hd Hv].
    exists [digit_char n]. split; [reflexivity|]. split; [unfold all_digits; cbn [forallb]; rewrite Hd; reflexivity|].
    split; [discriminate|]. unfold digits_val. cbn [fold_left]. rewrite Hv. lia.
  - assert (Hm : 0 <= n mod 10 <= 9) by (pose proof (Z.mod_pos_bound n 10 ltac:(lia)); lia).
    destruct (digit_char_ok (n mod 10) Hm) as [Hd Hv].
    change (z_digits (S (S f)) n acc) with
      (let acc' := String (digit_char (n mod 10)) acc in if n <? 10 then acc' else z_digits (S f) (n / 10) acc').
    cbv zeta. destruct (Z.ltb_spec n 10) as [Hlt|Hge].
    + rewrite Z.mod_small in * by lia. exists [digit_char n]. split; [reflexivity|].
      split; [unfold all_digits; cbn [forallb]; rewrite Hd; reflexivity|]. split; [discriminate|].
      unfold digits_val. cbn [fold_left]. rewrite Hv. lia.
    + assert (Hq : 0 <= n / 10 < 10 ^ Z.of_nat (S f)).
      { rewrite (Nat2Z.inj_succ (S f)), Z.pow_succ_r in Hn by lia. split; [apply Z.div_pos; lia|]. apply Z.div_lt_upper_bound; lia. }
      destruct (IH (n / 10) (String (digit_char (n mod 10)) acc) Hq) as [ds [Hc [Ha [Hne Hval]]]].
      exists (ds ++ [digit_char (n mod 10)]). split.
      * rewrite Hc. unfold chars. cbn [list_ascii_of_string]. rewrite <- app_assoc. reflexivity.
      * split; [apply all_digits_app; [exact Ha|unfold all_digits; cbn [forallb]; rewrite Hd; reflexivity]|].
        split; [destruct ds; discriminate|]. rewrite digits_val_snoc, Hval, Hv. pose proof (Z.div_mod n 10 ltac:(lia)). lia.
Qed.

Lemma z_str_spec n : 0 <= n < 10 ^ 20 -> exists ds, chars (z_str n) = ds /\ all_digits ds /\ ds <> [] /\ digits_val ds = n.
Proof.
  intros Hn. destruct (z_digits_spec 19 n "" Hn) as [ds [Hc H]]. exists ds. split; [|exact H].
  unfold z_str. rewrite Hc. unfold chars. cbn [list_ascii_of_string]. apply app_nil_r.
Qed.

(* ---------- xsd:duration: the printed form ---------- *)
Definition dpart (n : Z) (u : string) : string := if 1 <=? n then String.append (z_str n) u else "".
Definition pd_core (neg : bool) (secs : Z) : string :=
  let y := secs / 31536000 in let r1 := secs - y * 31536000 in
  let mo := r1 / 2592000 in let r2 := r1 - mo * 2592000 in
  let d := r2 / 86400 in let r3 := r2 - d * 86400 in
  let h := r3 / 3600 in let r4 := r3 - h * 3600 in
  let mi := r4 / 60 in let sc := r4 - mi * 60 in
  let head : string := if neg then "-P" else "P" in
  let tpart : string := if 0 <? r3 then String.append "T" (String.append (dpart h "H") (String.append (dpart mi "M") (dpart sc "S"))) else "" in
  String.append head (String.append (dpart y "Y") (String.append (dpart mo "M") (String.append (dpart d "D") tpart))).
Lemma print_duration_core ns : print_duration ns = pd_core (ns <? 0) (Z.abs ns / 1000000000).
Proof. reflexivity. Qed.

Definition cp (n : Z) (c : ascii) : list ascii := chars (dpart n (String c "")).

Lemma cp_spec n c : 0 <= n < 10 ^ 20 ->
  (n = 0 /\ cp n c = []) \/ (1 <= n /\ exists ds, cp n c = ds ++ [c] /\ all_digits ds /\ ds <> [] /\ digits_val ds = n).
Proof.
  intros Hn. unfold cp, dpart. destruct (Z.leb_spec 1 n) as [H1|H1].
  - right. split; [exact H1|]. destruct (z_str_spec n Hn) as [ds [Hc H]]. exists ds. split; [|exact H].
    rewrite chars_app, Hc. reflexivity.
  - left. split; [lia|reflexivity].
Qed.

(* what may follow a group: nothing, or digits and then one of the given letters *)
Definition starts_ok (letters : list ascii) (l : list ascii) : Prop :=
  l = [] \/ exists ds c rest, l = ds ++ c :: rest /\ all_digits ds /\ is_digit c = false /\ In c letters.
Lemma starts_ok_more letters c l : starts_ok letters l -> starts_ok (c :: letters) l.
Proof. intros [H|[ds [c' [rest [H1 [H2 [H3 H4]]]]]]]; [left; exact H|]. right. exists ds, c', rest. repeat split; try assumption. right. exact H4. Qed.

Lemma group_miss letter letters l : starts_ok letters l -> ~ In letter letters -> group letter l = (None, l).
Proof.
  intros [H|[ds [c [rest [H1 [H2 [H3 H4]]]]]]] Hnot.
  - subst l. reflexivity.
  - subst l. unfold group. rewrite (take_digits_app ds (c :: rest) H2 H3).
    destruct (Ascii.eqb c letter) eqn:E; [|reflexivity]. apply Ascii.eqb_eq in E. subst c. contradiction.
Qed.

Definition gnum (g : option (list ascii)) (n : Z) : Prop :=
  (g = None /\ n = 0) \/ (exists ds, g = Some ds /\ ds <> [] /\ digits_val ds = n).

Lemma group_cp c n rest letters : is_digit c = false -> 0 <= n < 10 ^ 20 -> starts_ok letters rest -> ~ In c letters ->
  exists g, group c (cp n c ++ rest) = (g, rest) /\ gnum g n /\ starts_ok (c :: letters) (cp n c ++ rest).
Proof.
  intros Hc Hn Hs Hnot. destruct (cp_spec n c Hn) as [[H0 E]|[H1 [ds [E [Ha [Hne Hv]]]]]]; rewrite E.
  - exists None. cbn [app]. split; [exact (group_miss c letters rest Hs Hnot)|]. split; [left; split; [reflexivity|exact H0]|].
    apply starts_ok_more. exact Hs.
  - exists (Some ds). rewrite <- app_assoc. cbn [app]. split; [exact (group_hit c ds rest Ha Hc)|].
    split; [right; exists ds; repeat split; assumption|]. right. exists ds, c, rest. repeat split; try assumption. left. reflexivity.
Qed.

Lemma add_group_gnum g n u a : gnum g n -> 0 <= n < two63 -> a + n * u < two63 -> add_group g u (Some a) = Some (a + n * u).
Proof.
  intros [[Hg H0]|[ds [Hg [Hne Hv]]]] Hn Hlt; subst g.
  - subst n. cbn [add_group]. f_equal. lia.
  - subst n. apply add_group_some; [exact Hne| |exact Hlt]. unfold int64_ok. apply andb_true_iff. unfold two63 in *.
    split; [apply Z.leb_le; lia|apply Z.ltb_lt; lia].
Qed.

(* ---------- xsd:duration: what parse_duration returns ---------- *)
Definition gok (g : option (list ascii)) : Prop := match g with Some d => all_digits d | None => True end.

Lemma take_digits_digits l : all_digits (fst (take_digits l)).
Proof.
  unfold all_digits. induction l as [|c r IH]; [reflexivity|]. cbn [take_digits]. destruct (is_digit c) eqn:E; [|reflexivity].
  destruct (take_digits r) as [d rest]. cbn [fst forallb] in *. rewrite E, IH. reflexivity.
Qed.

Lemma group_gok letter l : gok (fst (group letter l)).
Proof.
  unfold group. pose proof (take_digits_digits l) as H. destruct (take_digits l) as [d rest]. cbn [fst] in H.
  destruct rest as [|c rest']; [exact I|]. destruct (Ascii.eqb c letter); [exact H|exact I].
Qed.

Lemma digits_val_nonneg d : all_digits d -> 0 <= digits_val d.
Proof.
  unfold all_digits, digits_val. assert (G : forall acc, 0 <= acc -> forallb is_digit d = true -> 0 <= fold_left (fun acc c => acc * 10 + digit_val c) d acc).
  { induction d as [|c r IH]; intros acc Ha Hd; [exact Ha|]. cbn [forallb fold_left] in *. apply andb_true_iff in Hd. destruct Hd as [Hc Hr].
    apply IH; [|exact Hr]. unfold is_digit in Hc. apply andb_true_iff in Hc. destruct Hc as [Hc1 _]. apply Nat.leb_le in Hc1.
    unfold digit_val. lia. }
  apply G. lia.
Qed.

Definition acc_inv (o : option Z) : Prop := match o with Some a => 0 <= a < two63 /\ (1000000000 | a) | None => True end.
Lemma add_group_inv g u acc : gok g -> 0 <= u -> (1000000000 | u) -> acc_inv acc -> acc_inv (add_group g u acc).
Proof.
  intros Hg Hu Hdiv Ha. destruct acc as [a|]; [|exact I]. destruct g as [d|]; [|exact Ha]. cbn [add_group].
  destruct d as [|c r]; [exact I|]. destruct (int64_ok _); [|exact I].
  destruct (Z.ltb_spec (a + digits_val (c :: r) * u) two63) as [Hlt|_]; [|exact I].
  destruct Ha as [Ha1 Ha2]. pose proof (digits_val_nonneg (c :: r) Hg) as Hv. cbn [acc_inv]. split; [split; [nia|exact Hlt]|].
  apply Z.divide_add_r; [exact Ha2|]. apply Z.divide_mul_r. exact Hdiv.
Qed.

Lemma parse_duration_inv s ns : parse_duration s = DOk ns ->
  exists t, 0 <= t /\ t * 1000000000 < two63 /\ (ns = t * 1000000000 \/ ns = - (t * 1000000000)).
Proof.
  unfold parse_duration. destruct (chars s) as [|c0 r0]; [discriminate|].
  destruct (if Ascii.eqb c0 "-" then r0 else c0 :: r0) as [|p r]; [discriminate|].
  destruct (negb (Ascii.eqb p "P")); [discriminate|].
  pose proof (group_gok "Y" r) as Gy. destruct (group "Y" r) as [gy r1].
  pose proof (group_gok "M" r1) as Gm. destruct (group "M" r1) as [gm r2].
  pose proof (group_gok "D" r2) as Gd. destruct (group "D" r2) as [gd r3]. cbn [fst] in *.
  assert (Ht : exists gh gmi gs, gok gh /\ gok gmi /\ gok gs /\
            match r3 with
            | t :: r4 => if Ascii.eqb t "T" then let (gh, r5) := group "H" r4 in let (gmi, r6) := group "M" r5 in let (gs, _) := group "S" r6 in (gh, gmi, gs)
                         else (None, None, None)
            | [] => (None, None, None)
            end = (gh, gmi, gs)).
  { destruct r3 as [|t r4]; [exists None, None, None; repeat split|]. destruct (Ascii.eqb t "T"); [|exists None, None, None; repeat split].
    pose proof (group_gok "H" r4) as Gh. destruct (group "H" r4) as [gh r5].
    pose proof (group_gok "M" r5) as Gmi. destruct (group "M" r5) as [gmi r6].
    pose proof (group_gok "S" r6) as Gs. destruct (group "S" r6) as [gs r7]. exists gh, gmi, gs. repeat split; assumption. }
  destruct Ht as [gh [gmi [gs [Gh [Gmi [Gs Et]]]]]]. rewrite Et.
  assert (I0 : acc_inv (Some 0)) by (split; [unfold two63; lia|exists 0; reflexivity]).
  pose proof (add_group_inv gy (8760 * hour_ns) _ Gy ltac:(unfold hour_ns; lia) ltac:(exists 31536000; vm_compute; reflexivity) I0) as I1.
  pose proof (add_group_inv gm (720 * hour_ns) _ Gm ltac:(unfold hour_ns; lia) ltac:(exists 2592000; vm_compute; reflexivity) I1) as I2.
  pose proof (add_group_inv gd (24 * hour_ns) _ Gd ltac:(unfold hour_ns; lia) ltac:(exists 86400; vm_compute; reflexivity) I2) as I3.
  pose proof (add_group_inv gh hour_ns _ Gh ltac:(unfold hour_ns; lia) ltac:(exists 3600; vm_compute; reflexivity) I3) as I4.
  pose proof (add_group_inv gmi 60000000000 _ Gmi ltac:(lia) ltac:(exists 60; vm_compute; reflexivity) I4) as I5.
  pose proof (add_group_inv gs 1000000000 _ Gs ltac:(lia) ltac:(exists 1; vm_compute; reflexivity) I5) as I6.
  destruct (add_group gs 1000000000 _) as [a|]; [|discriminate]. destruct I6 as [[Ha1 Ha2] [t Ht]]. intros H. inversion H as [Hns]. clear H.
  exists t. split; [lia|]. split; [lia|]. destruct (Ascii.eqb c0 "-").
  - right. rewrite wrap64_id by (unfold two63 in *; lia). lia.
  - left. exact Ht.
Qed.

(* ---------- xsd:duration: the printed form is read back as the same duration ---------- *)
Ltac Zify.zify_post_hook ::= Z.div_mod_to_equations.

Lemma parse_pd neg t : 0 <= t -> t * 1000000000 < two63 ->
  parse_duration (pd_core neg t) = DOk (if neg then wrap64 (t * 1000000000 * -1) else t * 1000000000).
Proof.
  intros Ht0 Htb. unfold parse_duration, pd_core. cbv zeta.
  remember (t / 31536000) as y eqn:Ey. remember (t - y * 31536000) as r1 eqn:Er1.
  remember (r1 / 2592000) as mo eqn:Emo. remember (r1 - mo * 2592000) as r2 eqn:Er2.
  remember (r2 / 86400) as d eqn:Ed0. remember (r2 - d * 86400) as r3 eqn:Er3.
  remember (r3 / 3600) as h eqn:Eh0. remember (r3 - h * 3600) as r4 eqn:Er4.
  remember (r4 / 60) as mi eqn:Emi0. remember (r4 - mi * 60) as sc eqn:Esc.
  assert (B : 0 <= y /\ 0 <= mo /\ 0 <= d /\ 0 <= h /\ 0 <= mi /\ 0 <= sc /\ 0 <= r3 /\
              r3 = h * 3600 + mi * 60 + sc /\ t = y * 31536000 + mo * 2592000 + d * 86400 + r3) by lia.
  clear Ey Er1 Emo Er2 Ed0 Er3 Eh0 Er4 Emi0 Esc. destruct B as [By [Bmo [Bd [Bh [Bmi [Bsc [Br3 [Hr3 Hdec]]]]]]]].
  assert (P20 : two63 < 10 ^ 20) by (vm_compute; reflexivity).
  assert (Hy : 0 <= y < 10 ^ 20) by (unfold two63 in *; lia). assert (Hmo : 0 <= mo < 10 ^ 20) by (unfold two63 in *; lia).
  assert (Hd : 0 <= d < 10 ^ 20) by (unfold two63 in *; lia). assert (Hh : 0 <= h < 10 ^ 20) by (unfold two63 in *; lia).
  assert (Hmi : 0 <= mi < 10 ^ 20) by (unfold two63 in *; lia). assert (Hsc : 0 <= sc < 10 ^ 20) by (unfold two63 in *; lia).
  (* the groups, from the last to the first *)
  destruct (group_cp "S" sc [] [] eq_refl Hsc (or_introl eq_refl) (fun x => x)) as [gs [Es [Ns Ss]]]. rewrite app_nil_r in Es, Ss.
  destruct (group_cp "M" mi (cp sc "S") ["S"%char] eq_refl Hmi Ss ltac:(intros [X|[]]; discriminate)) as [gmi [Emi [Nmi Smi]]].
  destruct (group_cp "H" h (cp mi "M" ++ cp sc "S") ["M"%char; "S"%char] eq_refl Hh Smi ltac:(intros [X|[X|[]]]; discriminate)) as [gh [Eh [Nh _]]].
  set (TL := if 0 <? r3 then "T"%char :: cp h "H" ++ cp mi "M" ++ cp sc "S" else []).
  assert (STL : starts_ok ["T"%char] TL).
  { unfold TL. destruct (0 <? r3); [|left; reflexivity]. right. exists [], "T"%char, (cp h "H" ++ cp mi "M" ++ cp sc "S").
    repeat split; try reflexivity. left. reflexivity. }
  destruct (group_cp "D" d TL ["T"%char] eq_refl Hd STL ltac:(intros [X|[]]; discriminate)) as [gd [Ed [Nd Sd]]].
  destruct (group_cp "M" mo (cp d "D" ++ TL) ["D"%char; "T"%char] eq_refl Hmo Sd ltac:(intros [X|[X|[]]]; discriminate)) as [gm [Em [Nm Sm]]].
  destruct (group_cp "Y" y (cp mo "M" ++ cp d "D" ++ TL) ["M"%char; "D"%char; "T"%char] eq_refl Hy Sm ltac:(intros [X|[X|[X|[]]]]; discriminate)) as [gy [Egy [Ny _]]].
  (* the characters of the printed form *)
  assert (Hchars : chars (String.append (if neg then "-P" else "P")
             (String.append (dpart y "Y") (String.append (dpart mo "M") (String.append (dpart d "D")
               (if 0 <? r3 then String.append "T" (String.append (dpart h "H") (String.append (dpart mi "M") (dpart sc "S"))) else ""))))) =
           (if neg then ["-"%char; "P"%char] else ["P"%char]) ++ cp y "Y" ++ cp mo "M" ++ cp d "D" ++ TL).
  { rewrite !chars_app. unfold TL, cp. destruct neg; destruct (0 <? r3); rewrite ?chars_app; reflexivity. }
  rewrite Hchars. clear Hchars.
  assert (Hsum : forall a, a = t * 1000000000 -> DOk (if neg then wrap64 (a * -1) else a) = DOk (if neg then wrap64 (t * 1000000000 * -1) else t * 1000000000))
    by (intros a Ha; rewrite Ha; reflexivity).
  assert (Hbody : match "P"%char :: cp y "Y" ++ cp mo "M" ++ cp d "D" ++ TL with
                  | [] => DErr
                  | p :: r =>
                      if negb (Ascii.eqb p "P") then DErr else
                      let (gy, r1) := group "Y" r in let (gm, r2) := group "M" r1 in let (gd, r3) := group "D" r2 in
                      let '(gh, gmi, gs) :=
                        match r3 with
                        | t :: r4 => if Ascii.eqb t "T" then let (gh, r5) := group "H" r4 in let (gmi, r6) := group "M" r5 in
                                       let (gs, _) := group "S" r6 in (gh, gmi, gs) else (None, None, None)
                        | [] => (None, None, None)
                        end in
                      let acc := add_group gy (8760 * hour_ns) (Some 0) in let acc := add_group gm (720 * hour_ns) acc in
                      let acc := add_group gd (24 * hour_ns) acc in let acc := add_group gh hour_ns acc in
                      let acc := add_group gmi 60000000000 acc in let acc := add_group gs 1000000000 acc in
                      match acc with None => DErr | Some a => DOk (if neg then wrap64 (a * -1) else a) end
                  end = DOk (if neg then wrap64 (t * 1000000000 * -1) else t * 1000000000)).
  { change (Ascii.eqb "P" "P") with true. cbv beta iota zeta. change (negb true) with false. cbv iota.
    rewrite Egy, Em, Ed. cbv beta iota zeta.
    rewrite (add_group_gnum gy y _ 0 Ny) by (unfold hour_ns, two63 in *; lia).
    rewrite (add_group_gnum gm mo _ _ Nm) by (unfold hour_ns, two63 in *; lia).
    rewrite (add_group_gnum gd d _ _ Nd) by (unfold hour_ns, two63 in *; lia).
    unfold TL. destruct (Z.ltb_spec 0 r3) as [Hpos|Hzero].
    - change (Ascii.eqb "T" "T") with true. cbv iota. rewrite Eh, Emi, Es. cbv beta iota zeta.
      rewrite (add_group_gnum gh h _ _ Nh) by (unfold hour_ns, two63 in *; lia).
      rewrite (add_group_gnum gmi mi _ _ Nmi) by (unfold hour_ns, two63 in *; lia).
      rewrite (add_group_gnum gs sc _ _ Ns) by (unfold hour_ns, two63 in *; lia).
      apply Hsum. unfold hour_ns. lia.
    - cbv beta iota zeta. cbn [add_group]. apply Hsum. unfold hour_ns. lia. }
  destruct neg; cbn [app].
  - change (Ascii.eqb "-" "-") with true. cbv iota. exact Hbody.
  - change (Ascii.eqb "P" "-") with false. cbv iota. exact Hbody.
Qed.

Theorem duration_idem : forall e v, norm "@duration" e = Some v -> norm "@duration" v = Some v.
Proof.
  intros e v H. destruct (norm_inv _ _ _ H) as [? Hin| | | | | | | | |s ns _ He Hp Hv]; try discriminate.
  - repeat (destruct Hin as [Hin|Hin]; [discriminate|]). destruct Hin.
  - subst e v. destruct (parse_duration_inv s ns Hp) as [t [Ht0 [Htb Hns]]].
    assert (Hpp : parse_duration (print_duration ns) = DOk ns).
    { rewrite print_duration_core. destruct Hns as [Hns|Hns].
      - assert (E1 : (ns <? 0) = false) by (apply Z.ltb_ge; lia). assert (E2 : Z.abs ns / 1000000000 = t) by (subst ns; rewrite Z.abs_eq by lia; apply Z.div_mul; lia).
        rewrite E1, E2, (parse_pd false t Ht0 Htb). f_equal. symmetry. exact Hns.
      - destruct (Z.eq_dec t 0) as [Hz|Hnz].
        + subst t. assert (ns = 0) by lia. subst ns. vm_compute. reflexivity.
        + assert (E1 : (ns <? 0) = true) by (apply Z.ltb_lt; lia).
          assert (E2 : Z.abs ns / 1000000000 = t) by (subst ns; rewrite Z.abs_neq by lia; rewrite Z.opp_involutive; apply Z.div_mul; lia).
          rewrite E1, E2, (parse_pd true t Ht0 Htb). f_equal. rewrite wrap64_id by (unfold two63 in *; lia). lia. }
    change (norm "@duration" (JStr (print_duration ns))) with
      (match parse_duration (print_duration ns) with DOk ns0 => Some (JStr (print_duration ns0)) | _ => None end).
    rewrite Hpp. reflexivity.
Qed.
Print Assumptions duration_idem.

(* ================= xsd:dateTime ================= *)
(* ---------- the calendar: civil_from_days inverts days_from_civil ---------- *)
Definition date_ok (y m d : Z) : bool :=
  match civil_from_days (days_from_civil y m d) with (y', m', d') => (y' =? y) && (m' =? m) && (d' =? d) end.
Fixpoint upto (n : nat) (f : Z -> bool) : bool := match n with O => true | S k => f (Z.of_nat k) && upto k f end.
Lemma upto_spec n f : upto n f = true -> forall k, 0 <= k < Z.of_nat n -> f k = true.
Proof.
  induction n as [|n IH]; intros H k Hk; [lia|]. cbn [upto] in H. apply andb_true_iff in H. destruct H as [H1 H2].
  destruct (Z.eq_dec k (Z.of_nat n)) as [E|E]; [subst k; exact H1|]. apply IH; [exact H2|lia].
Qed.
Definition months_ok (y : Z) (from : Z) (n : nat) : bool :=
  upto n (fun m0 => let m := m0 + from in upto (Z.to_nat (days_in_month y m)) (fun d0 => date_ok y m (d0 + 1))).

Lemma date_ok_spec y m d : date_ok y m d = true -> civil_from_days (days_from_civil y m d) = (y, m, d).
Proof.
  unfold date_ok. destruct (civil_from_days _) as [[y' m'] d']. intros H. apply andb_true_iff in H. destruct H as [H H3].
  apply andb_true_iff in H. destruct H as [H1 H2]. apply Z.eqb_eq in H1, H2, H3. subst. reflexivity.
Qed.
Lemma months_ok_spec y from n m d : months_ok y from n = true -> from <= m < from + Z.of_nat n -> 1 <= d <= days_in_month y m ->
  civil_from_days (days_from_civil y m d) = (y, m, d).
Proof.
  intros H Hm Hd. unfold months_ok in H. assert (Ha : 0 <= m - from < Z.of_nat n) by lia.
  pose proof (upto_spec _ _ H (m - from) Ha) as H1. cbv beta zeta in H1.
  replace (m - from + from) with m in H1 by lia.
  assert (Hb : 0 <= d - 1 < Z.of_nat (Z.to_nat (days_in_month y m))) by lia.
  pose proof (upto_spec _ _ H1 (d - 1) Hb) as H2. cbv beta in H2. replace (d - 1 + 1) with d in H2 by lia.
  exact (date_ok_spec y m d H2).
Qed.

(* one 400-year cycle, by computation *)
Lemma cal_cycle : upto 400 (fun y0 => months_ok (y0 + 1) 1 12) = true.
Proof. vm_compute. reflexivity. Qed.
Lemma cal_year0_from_march : months_ok 0 3 10 = true.
Proof. vm_compute. reflexivity. Qed.

Lemma dfc_shift y m d k : 0 <= k -> 1 <= y -> days_from_civil (y + 400 * k) m d = days_from_civil y m d + 146097 * k.
Proof.
  intros Hk Hy. unfold days_from_civil. destruct (m <=? 2).
  - destruct (Z.geb_spec (y + 400 * k - 1) 0); [|lia]. destruct (Z.geb_spec (y - 1) 0); [|lia]. lia.
  - destruct (Z.geb_spec (y + 400 * k) 0); [|lia]. destruct (Z.geb_spec y 0); [|lia]. lia.
Qed.

Definition cfd_core (era doe : Z) : Z * Z * Z :=
  let yoe := (doe - doe / 1460 + doe / 36524 - doe / 146096) / 365 in
  let y := yoe + era * 400 in
  let doy := doe - (365 * yoe + yoe / 4 - yoe / 100) in
  let mp := (5 * doy + 2) / 153 in
  let d := doy - (153 * mp + 2) / 5 + 1 in
  let m := if mp <? 10 then mp + 3 else mp - 9 in
  (if m <=? 2 then y + 1 else y, m, d).
Lemma cfd_shift z k : 0 <= k -> 0 <= z + 719468 ->
  civil_from_days (z + 146097 * k) = let '(y, m, d) := civil_from_days z in (y + 400 * k, m, d).
Proof.
  intros Hk Hz.
  assert (E : forall z, 0 <= z + 719468 -> civil_from_days z = cfd_core ((z + 719468) / 146097) ((z + 719468) - (z + 719468) / 146097 * 146097)).
  { intros z0 H0. unfold civil_from_days, cfd_core. try destruct (Z.geb_spec (z0 + 719468) 0); first [reflexivity|lia]. }
  rewrite (E z Hz), (E (z + 146097 * k)) by lia.
  assert (E1 : (z + 146097 * k + 719468) / 146097 = (z + 719468) / 146097 + k) by lia.
  rewrite E1. replace (z + 146097 * k + 719468 - ((z + 719468) / 146097 + k) * 146097) with (z + 719468 - (z + 719468) / 146097 * 146097) by lia.
  unfold cfd_core. cbv zeta. destruct (_ <=? 2); f_equal; f_equal; lia.
Qed.

Lemma dfc_lower y m d : 1 <= y -> 1 <= m <= 12 -> 1 <= d -> 0 <= days_from_civil y m d + 719468.
Proof.
  intros Hy Hm Hd. unfold days_from_civil. destruct (Z.leb_spec m 2).
  - destruct (Z.geb_spec (y - 1) 0); [|lia]. lia.
  - destruct (Z.geb_spec y 0); [|lia]. lia.
Qed.

Lemma dim_shift y0 k m : days_in_month (y0 + 400 * k) m = days_in_month y0 m.
Proof.
  unfold days_in_month, is_leap.
  assert (E4 : (y0 + 400 * k) mod 4 = y0 mod 4) by lia. assert (E100 : (y0 + 400 * k) mod 100 = y0 mod 100) by lia.
  assert (E400 : (y0 + 400 * k) mod 400 = y0 mod 400) by lia. rewrite E4, E100, E400. reflexivity.
Qed.

(* every date from 0000-03-01 on (all years) *)
Theorem cal_roundtrip_from_march y m d : 0 <= y -> 1 <= y \/ 3 <= m -> 1 <= m <= 12 -> 1 <= d <= days_in_month y m ->
  civil_from_days (days_from_civil y m d) = (y, m, d).
Proof.
  intros Hy0 Hrange Hm Hd. destruct (Z.eq_dec y 0) as [E0|E0].
  - subst y. apply (months_ok_spec 0 3 10 m d cal_year0_from_march); lia.
  - set (k := (y - 1) / 400). set (y0 := y - 400 * k).
    assert (Hk : 0 <= k) by (unfold k; lia). assert (Hy0r : 1 <= y0 <= 400) by (unfold y0, k; lia).
    assert (Ey : y = y0 + 400 * k) by (unfold y0; lia). rewrite Ey in Hd |- *. rewrite dim_shift in Hd.
    rewrite (dfc_shift y0 m d k Hk ltac:(lia)). rewrite (cfd_shift _ k Hk (dfc_lower y0 m d ltac:(lia) Hm ltac:(lia))).
    assert (Hb : civil_from_days (days_from_civil y0 m d) = (y0, m, d)).
    { pose proof (upto_spec _ _ cal_cycle (y0 - 1) ltac:(lia)) as H1. cbv beta in H1. replace (y0 - 1 + 1) with y0 in H1 by lia.
      apply (months_ok_spec y0 1 12 m d H1); lia. }
    rewrite Hb. reflexivity.
Qed.

(* A defect of the MODEL found while proving this (not of the Go code): civil_from_days used to apply the correction
   "z - 146096" of the truncating-division algorithm under Coq's floor division, so the 59 days 0000-01-01 .. 0000-02-28 came
   back one day late; Base/Time.v now divides by floor, and the round trip holds for every date (year0_ok below). *)
Example cal_year0 : civil_from_days (days_from_civil 0 1 15) = (0, 1, 15).
Proof. vm_compute. reflexivity. Qed.

(* ---------- the printed form, as characters ---------- *)
Notation p2 n rest := (digit_char (n / 10 mod 10) :: digit_char (n mod 10) :: rest).
Notation p4 n rest := (digit_char (n / 1000 mod 10) :: digit_char (n / 100 mod 10) :: p2 (n mod 100) rest).
Definition dt_chars (y m d h mi sc : Z) (zone : list ascii) : list ascii :=
  p4 y ("-"%char :: p2 m ("-"%char :: p2 d ("T"%char :: p2 h (":"%char :: p2 mi (":"%char :: p2 sc zone))))).
Definition dt_str (y m d h mi sc : Z) (tail : string) : string :=
  (pad4 y ++ "-" ++ pad2 m ++ "-" ++ pad2 d ++ "T" ++ pad2 h ++ ":" ++ pad2 mi ++ ":" ++ pad2 sc ++ tail)%string.
Lemma dt_str_chars y m d h mi sc tail : chars (dt_str y m d h mi sc tail) = dt_chars y m d h mi sc (chars tail).
Proof. reflexivity. Qed.
Lemma dt_str_body y m d h mi sc :
  substring 0 (String.length (dt_str y m d h mi sc "Z") - 1) (dt_str y m d h mi sc "Z") = dt_str y m d h mi sc "".
Proof. reflexivity. Qed.
Lemma rfc_utc_str L days y m d h mi sc : split_unix L = (days, h, mi, sc) -> civil_from_days days = (y, m, d) ->
  rfc3339_utc L = dt_str y m d h mi sc "Z".
Proof. intros H1 H2. unfold rfc3339_utc. rewrite H1, H2. reflexivity. Qed.

Lemma fixed2 n rest : 0 <= n <= 99 -> fixed_digits 2 (p2 n rest) = Some (n, rest).
Proof.
  intros Hn. unfold fixed_digits. cbn [firstn skipn length Nat.eqb forallb andb].
  destruct (digit_char_ok (n / 10 mod 10) ltac:(lia)) as [Ha1 Ha2]. destruct (digit_char_ok (n mod 10) ltac:(lia)) as [Hb1 Hb2].
  rewrite Ha1, Hb1. cbn [andb]. unfold digits_val. cbn [fold_left]. rewrite Ha2, Hb2. f_equal. f_equal. lia.
Qed.
Lemma fixed4 n rest : 0 <= n <= 9999 -> fixed_digits 4 (p4 n rest) = Some (n, rest).
Proof.
  intros Hn. unfold fixed_digits. cbn [firstn skipn length Nat.eqb forallb andb].
  destruct (digit_char_ok (n / 1000 mod 10) ltac:(lia)) as [Ha1 Ha2]. destruct (digit_char_ok (n / 100 mod 10) ltac:(lia)) as [Hb1 Hb2].
  destruct (digit_char_ok (n mod 100 / 10 mod 10) ltac:(lia)) as [Hc1 Hc2]. destruct (digit_char_ok (n mod 100 mod 10) ltac:(lia)) as [Hd1 Hd2].
  rewrite Ha1, Hb1, Hc1, Hd1. cbn [andb]. unfold digits_val. cbn [fold_left]. rewrite Ha2, Hb2, Hc2, Hd2. f_equal. f_equal. lia.
Qed.
Lemma expect_hit c rest : expect c (c :: rest) = Some rest.
Proof. unfold expect. rewrite Ascii.eqb_refl. reflexivity. Qed.

Lemma parse_dt s y m d h mi sc zone off : chars s = dt_chars y m d h mi sc zone ->
  0 <= y <= 9999 -> 1 <= m <= 12 -> 1 <= d <= days_in_month y m -> 0 <= h <= 23 -> 0 <= mi <= 59 -> 0 <= sc <= 59 ->
  parse_zone zone = Some off ->
  parse_datetime s = Some (days_from_civil y m d * 86400 + h * 3600 + mi * 60 + sc - off, off).
Proof.
  intros Hc Hy Hm Hd Hh Hmi Hsc Hz.
  assert (Hdim : days_in_month y m <= 31) by (unfold days_in_month; repeat destruct (_ =? _); try destruct (is_leap y); cbn; lia).
  unfold parse_datetime. cbv zeta. rewrite Hc. unfold dt_chars.
  rewrite (fixed4 y _ Hy). cbv beta iota. rewrite expect_hit. cbv beta iota.
  rewrite (fixed2 m _ ltac:(lia)). cbv beta iota. rewrite expect_hit. cbv beta iota.
  rewrite (fixed2 d _ ltac:(lia)). cbv beta iota. rewrite expect_hit. cbv beta iota.
  rewrite (fixed2 h _ ltac:(lia)). cbv beta iota. rewrite expect_hit. cbv beta iota.
  rewrite (fixed2 mi _ ltac:(lia)). cbv beta iota. rewrite expect_hit. cbv beta iota.
  rewrite (fixed2 sc _ ltac:(lia)). cbv beta iota. rewrite Hz.
  assert (V : (1 <=? m) && (m <=? 12) && (1 <=? d) && (d <=? days_in_month y m) && (h <=? 23) && (mi <=? 59) && (sc <=? 59) = true)
    by (repeat (apply andb_true_iff; split); apply Z.leb_le; lia).
  rewrite V. reflexivity.
Qed.

(* ---------- what parse_datetime returns ---------- *)
Lemma is_digit_val c : is_digit c = true -> 0 <= digit_val c <= 9.
Proof.
  unfold is_digit, digit_val. intros H. apply andb_true_iff in H. destruct H as [H1 H2]. apply Nat.leb_le in H1, H2. lia.
Qed.
Lemma fixed_digits_inv n l v rest : fixed_digits n l = Some (v, rest) ->
  0 <= v /\ (n = 2%nat -> v <= 99) /\ (n = 4%nat -> v <= 9999).
Proof.
  unfold fixed_digits. destruct (Nat.eqb (length (firstn n l)) n && forallb is_digit (firstn n l)) eqn:E; [|discriminate].
  intros H. inversion H; subst v rest. clear H. apply andb_true_iff in E. destruct E as [El Ed]. apply Nat.eqb_eq in El.
  split; [exact (digits_val_nonneg _ Ed)|]. split; intros Hn; subst n.
  - destruct (firstn 2 l) as [|a [|b [|c r]]]; try discriminate. cbn [forallb] in Ed.
    apply andb_true_iff in Ed. destruct Ed as [Ha Ed]. apply andb_true_iff in Ed. destruct Ed as [Hb _].
    pose proof (is_digit_val a Ha). pose proof (is_digit_val b Hb). unfold digits_val. cbn [fold_left]. lia.
  - destruct (firstn 4 l) as [|a [|b [|c [|e [|g r]]]]]; try discriminate. cbn [forallb] in Ed.
    apply andb_true_iff in Ed. destruct Ed as [Ha Ed]. apply andb_true_iff in Ed. destruct Ed as [Hb Ed].
    apply andb_true_iff in Ed. destruct Ed as [Hc Ed]. apply andb_true_iff in Ed. destruct Ed as [He _].
    pose proof (is_digit_val a Ha). pose proof (is_digit_val b Hb). pose proof (is_digit_val c Hc). pose proof (is_digit_val e He).
    unfold digits_val. cbn [fold_left]. lia.
Qed.

Definition zone_off (off : Z) : Prop :=
  exists hh mm, 0 <= hh <= 23 /\ 0 <= mm <= 59 /\ (off = hh * 3600 + mm * 60 \/ off = - (hh * 3600 + mm * 60)).
Lemma parse_zone_inv l off : parse_zone l = Some off -> zone_off off.
Proof.
  unfold parse_zone. destruct l as [|sgn r]; [discriminate|]. destruct r as [|c r'].
  - destruct (Ascii.eqb sgn "Z"); [|discriminate]. intros H. inversion H. exists 0, 0. lia.
  - destruct (Ascii.eqb sgn "+" || Ascii.eqb sgn "-"); [|discriminate].
    destruct (fixed_digits 2 (c :: r')) as [[hh r1]|] eqn:E1; [|discriminate].
    destruct (expect ":" r1) as [r2|]; [|discriminate].
    destruct (fixed_digits 2 r2) as [[mm r3]|] eqn:E2; [|discriminate]. destruct r3; [|discriminate].
    destruct (Z.leb_spec hh 23) as [Lh|]; [|discriminate]. destruct (Z.leb_spec mm 59) as [Lm|]; [|discriminate]. cbn [andb].
    destruct (fixed_digits_inv _ _ _ _ E1) as [H1 _]. destruct (fixed_digits_inv _ _ _ _ E2) as [H2 _].
    intros H. inversion H. exists hh, mm. destruct (Ascii.eqb sgn "-"); lia.
Qed.

Lemma parse_datetime_inv s u off : parse_datetime s = Some (u, off) ->
  exists y m d h mi sc, 0 <= y <= 9999 /\ 1 <= m <= 12 /\ 1 <= d <= days_in_month y m /\ 0 <= h <= 23 /\ 0 <= mi <= 59 /\ 0 <= sc <= 59 /\
    u + off = days_from_civil y m d * 86400 + h * 3600 + mi * 60 + sc /\ zone_off off.
Proof.
  unfold parse_datetime. cbv zeta.
  destruct (fixed_digits 4 (chars s)) as [[y l1]|] eqn:Ey; [|discriminate]. destruct (expect "-" l1) as [l2|]; [|discriminate].
  destruct (fixed_digits 2 l2) as [[mo l3]|] eqn:Emo; [|discriminate]. destruct (expect "-" l3) as [l4|]; [|discriminate].
  destruct (fixed_digits 2 l4) as [[d l5]|] eqn:Ed; [|discriminate]. destruct (expect "T" l5) as [l6|]; [|discriminate].
  destruct (fixed_digits 2 l6) as [[h l7]|] eqn:Eh; [|discriminate]. destruct (expect ":" l7) as [l8|]; [|discriminate].
  destruct (fixed_digits 2 l8) as [[mi l9]|] eqn:Emi; [|discriminate].
  destruct (fixed_digits_inv _ _ _ _ Ey) as [Hy0 [_ Hy1]]. destruct (fixed_digits_inv _ _ _ _ Eh) as [Hh0 _].
  destruct (fixed_digits_inv _ _ _ _ Emi) as [Hmi0 _].
  assert (Hsec : exists sec lz, (match sec with Some sc => 0 <= sc | None => True end) /\
            match expect ":" l9 with
            | Some l10 => match fixed_digits 2 l10 with Some (sc, l11) => (Some sc, l11) | None => (None, l9) end
            | None => (Some 0, l9) end = (sec, lz)).
  { destruct (expect ":" l9) as [l10|]; [|exists (Some 0), l9; split; [lia|reflexivity]].
    destruct (fixed_digits 2 l10) as [[sc l11]|] eqn:Esc; [|exists None, l9; split; [exact I|reflexivity]].
    exists (Some sc), l11. split; [exact (proj1 (fixed_digits_inv _ _ _ _ Esc))|reflexivity]. }
  destruct Hsec as [sec [lz [Hsc0 Esec]]]. rewrite Esec. destruct sec as [sc|]; [|discriminate].
  destruct (parse_zone lz) as [off0|] eqn:Ez; [|discriminate].
  destruct (Z.leb_spec 1 mo) as [L1|]; [|discriminate]. destruct (Z.leb_spec mo 12) as [L2|]; [|discriminate].
  destruct (Z.leb_spec 1 d) as [L3|]; [|discriminate].
  destruct (Z.leb_spec d (days_in_month y mo)) as [L4|]; [|discriminate]. destruct (Z.leb_spec h 23) as [L5|]; [|discriminate].
  destruct (Z.leb_spec mi 59) as [L6|]; [|discriminate]. destruct (Z.leb_spec sc 59) as [L7|]; [|discriminate]. cbn [andb].
  intros H. inversion H; subst u off0. exists y, mo, d, h, mi, sc. pose proof (parse_zone_inv _ _ Ez) as Hz.
  repeat split; try lia; try exact Hz.
Qed.

(* ---------- the printed zone is read back ---------- *)
Lemma parse_zone_Z : parse_zone ["Z"%char] = Some 0.
Proof. reflexivity. Qed.
Lemma parse_zone_printed off : zone_off off -> off <> 0 ->
  parse_zone (chars (if off <? 0 then "-" else "+") ++ p2 (Z.abs off / 3600) (":"%char :: p2 (Z.abs off mod 3600 / 60) [])) = Some off.
Proof.
  intros [hh [mm [Hh [Hm Hoff]]]] Hnz.
  assert (E1 : Z.abs off / 3600 = hh) by lia. assert (E2 : Z.abs off mod 3600 / 60 = mm) by lia. rewrite E1, E2.
  destruct (Z.ltb_spec off 0) as [Hneg|Hpos].
  - change (chars "-") with ["-"%char]. cbn [app]. unfold parse_zone.
    change (Ascii.eqb "-" "+") with false. change (Ascii.eqb "-" "-") with true. cbn [orb].
    rewrite (fixed2 hh _ ltac:(lia)). rewrite expect_hit. rewrite (fixed2 mm _ ltac:(lia)).
    destruct (Z.leb_spec hh 23); [|lia]. destruct (Z.leb_spec mm 59); [|lia]. cbn [andb]. f_equal. lia.
  - change (chars "+") with ["+"%char]. cbn [app]. unfold parse_zone.
    change (Ascii.eqb "+" "+") with true. change (Ascii.eqb "+" "-") with false. cbn [orb].
    rewrite (fixed2 hh _ ltac:(lia)). rewrite expect_hit. rewrite (fixed2 mm _ ltac:(lia)).
    destruct (Z.leb_spec hh 23); [|lia]. destruct (Z.leb_spec mm 59); [|lia]. cbn [andb]. f_equal. lia.
Qed.

(* ---------- a printed dateTime is read back as the same (instant, offset) ---------- *)
Definition cal_roundtrip : Prop :=
  forall y m d, 0 <= y <= 9999 -> 1 <= m <= 12 -> 1 <= d <= days_in_month y m -> civil_from_days (days_from_civil y m d) = (y, m, d).

Lemma print_parse_datetime y m d h mi sc off :
  0 <= y <= 9999 -> 1 <= m <= 12 -> 1 <= d <= days_in_month y m -> 0 <= h <= 23 -> 0 <= mi <= 59 -> 0 <= sc <= 59 -> zone_off off ->
  civil_from_days (days_from_civil y m d) = (y, m, d) ->
  let u := days_from_civil y m d * 86400 + h * 3600 + mi * 60 + sc - off in
  parse_datetime (rfc3339_off u off) = Some (u, off).
Proof.
  intros Hy Hm Hd Hh Hmi Hsc Hz Hcal u.
  assert (Hsplit : split_unix (u + off) = (days_from_civil y m d, h, mi, sc)).
  { unfold split_unix, u. set (D := days_from_civil y m d). f_equal; [f_equal; [f_equal|]|]; lia. }
  pose proof (rfc_utc_str (u + off) _ y m d h mi sc Hsplit Hcal) as Hutc.
  unfold rfc3339_off. destruct (Z.eqb_spec off 0) as [E0|Hnz].
  - subst off. replace (u + 0) with u in Hutc by lia. rewrite Hutc.
    rewrite (parse_dt _ y m d h mi sc ["Z"%char] 0 (dt_str_chars y m d h mi sc "Z") Hy Hm Hd Hh Hmi Hsc parse_zone_Z).
    first [reflexivity | f_equal; f_equal; unfold u; lia].
  - cbv zeta. rewrite Hutc, dt_str_body.
    set (sign := if off <? 0 then "-"%string else "+"%string).
    assert (Hc : chars (dt_str y m d h mi sc "" ++ sign ++ pad2 (Z.abs off / 3600) ++ ":" ++ pad2 (Z.abs off mod 3600 / 60))%string =
                 dt_chars y m d h mi sc (chars sign ++ p2 (Z.abs off / 3600) (":"%char :: p2 (Z.abs off mod 3600 / 60) []))).
    { unfold sign. destruct (off <? 0); reflexivity. }
    rewrite (parse_dt _ y m d h mi sc _ off Hc Hy Hm Hd Hh Hmi Hsc (parse_zone_printed off Hz Hnz)). reflexivity.
Qed.

(* dateTime: every accepted value from 0000-03-01 (local time) on; all of them if the calendar round trip holds in year 0 too *)
Theorem datetime_idem_from_march : forall s u off, parse_datetime s = Some (u, off) ->
  days_from_civil 0 3 1 * 86400 <= u + off ->
  norm "@datetime" (JStr (rfc3339_off u off)) = Some (JStr (rfc3339_off u off)).
Proof.
  intros s u off Hp Hlow. destruct (parse_datetime_inv s u off Hp) as [y [m [d [h [mi [sc [Hy [Hm [Hd [Hh [Hmi [Hsc [Hu Hz]]]]]]]]]]]]].
  assert (Hrange : 1 <= y \/ 3 <= m).
  { destruct (Z.eq_dec y 0) as [E0|E0]; [|left; lia]. right. subst y. destruct (Z.le_gt_cases 3 m) as [H3|H3]; [exact H3|exfalso].
    assert (Hdd : d <= 31) by (revert Hd; unfold days_in_month; repeat destruct (_ =? _); try destruct (is_leap 0); cbn; lia).
    assert (Hdf : days_from_civil 0 m d <= days_from_civil 0 3 1 - 1).
    { assert (Em : m = 1 \/ m = 2) by lia. assert (E31 : days_from_civil 0 3 1 = -719468) by (vm_compute; reflexivity). rewrite E31.
      destruct Em; subst m; unfold days_from_civil.
      - change (1 <=? 2) with true. cbv iota. change (0 - 1 >=? 0) with false. cbv iota. lia.
      - change (days_in_month 0 2) with 29 in Hd. change (2 <=? 2) with true. cbv iota. change (0 - 1 >=? 0) with false. cbv iota. lia. }
    lia. }
  pose proof (cal_roundtrip_from_march y m d ltac:(lia) Hrange Hm Hd) as Hcal.
  pose proof (print_parse_datetime y m d h mi sc off Hy Hm Hd Hh Hmi Hsc Hz Hcal) as Hpp. cbv zeta in Hpp.
  replace (days_from_civil y m d * 86400 + h * 3600 + mi * 60 + sc - off) with u in Hpp by lia.
  change (norm "@datetime" (JStr (rfc3339_off u off))) with
    (match parse_datetime (rfc3339_off u off) with Some (u0, off0) => Some (JStr (rfc3339_off u0 off0)) | None => None end).
  rewrite Hpp. reflexivity.
Qed.

Theorem datetime_idem : cal_roundtrip -> forall e v, norm "@datetime" e = Some v -> norm "@datetime" v = Some v.
Proof.
  intros Hcalr e v H. destruct (norm_inv _ _ _ H) as [? Hin| | | | | | | |s u off _ He Hp Hv|]; try discriminate.
  - repeat (destruct Hin as [Hin|Hin]; [discriminate|]). destruct Hin.
  - subst e v. destruct (parse_datetime_inv s u off Hp) as [y [m [d [h [mi [sc [Hy [Hm [Hd [Hh [Hmi [Hsc [Hu Hz]]]]]]]]]]]]].
    pose proof (print_parse_datetime y m d h mi sc off Hy Hm Hd Hh Hmi Hsc Hz (Hcalr y m d Hy Hm Hd)) as Hpp. cbv zeta in Hpp.
    replace (days_from_civil y m d * 86400 + h * 3600 + mi * 60 + sc - off) with u in Hpp by lia.
    change (norm "@datetime" (JStr (rfc3339_off u off))) with
      (match parse_datetime (rfc3339_off u off) with Some (u0, off0) => Some (JStr (rfc3339_off u0 off0)) | None => None end).
    rewrite Hpp. reflexivity.
Qed.
Print Assumptions datetime_idem_from_march.

(* ---------- what remains of time_literals_idem: the calendar of year 0000 before March ---------- *)
(* the whole of cal_roundtrip follows from the 59 dates 0000-01-01 .. 0000-02-29 (a decidable statement) ... *)
Lemma cal_roundtrip_of_year0 : months_ok 0 1 2 = true -> cal_roundtrip.
Proof.
  intros H0 y m d Hy Hm Hd. destruct (Z.eq_dec y 0) as [E0|E0].
  - subst y. destruct (Z.le_gt_cases 3 m) as [H3|H3].
    + apply cal_roundtrip_from_march; lia.
    + apply (months_ok_spec 0 1 2 m d H0); lia.
  - apply cal_roundtrip_from_march; lia.
Qed.
Lemma year0_ok : months_ok 0 1 2 = true.
Proof. vm_compute. reflexivity. Qed.

Lemma time_literals_idem_of_cal : cal_roundtrip -> time_literals_idem.
Proof.
  intros Hc k e v [Hk|Hk] H; subst k; [exact (datetime_idem Hc e v H)|exact (duration_idem e v H)].
Qed.

(* idempotence and preservation of the side conditions for the shipped tables and codecs: the only hypothesis left is the
   calendar round trip for the 59 days before 0000-03-01 (all else of codec_stable, xsd:duration included, is proved) *)
Theorem roundtrip_idempotent_shipped_cal : months_ok 0 1 2 = true -> forall n row m m',
  In row types_shipped -> good types_shipped props_shipped n row m = true ->
  rt_type types_shipped props_shipped url_ok norm_iri norm n row m = Some m' ->
  rt_type types_shipped props_shipped url_ok norm_iri norm n row m' = Some m'.
Proof. intros H0. exact (roundtrip_idempotent_shipped (time_literals_idem_of_cal (cal_roundtrip_of_year0 H0))). Qed.
Theorem good_preserved_shipped_cal : months_ok 0 1 2 = true -> forall n row m m',
  In row types_shipped -> good types_shipped props_shipped n row m = true ->
  rt_type types_shipped props_shipped url_ok norm_iri norm n row m = Some m' ->
  good types_shipped props_shipped n row m' = true.
Proof. intros H0. exact (good_preserved_shipped (time_literals_idem_of_cal (cal_roundtrip_of_year0 H0))). Qed.

Print Assumptions duration_idem.
Print Assumptions datetime_idem_from_march.
Print Assumptions cal_roundtrip_from_march.
Print Assumptions roundtrip_idempotent_shipped_cal.
Print Assumptions good_preserved_shipped_cal.

(* ---- with the calendar of the model repaired nothing is assumed any more ---- *)
Theorem time_literals_idem_shipped : time_literals_idem.
Proof. exact (time_literals_idem_of_cal (cal_roundtrip_of_year0 year0_ok)). Qed.
Theorem roundtrip_idempotent_shipped_closed : forall n row m m',
  In row types_shipped -> good types_shipped props_shipped n row m = true ->
  rt_type types_shipped props_shipped url_ok norm_iri norm n row m = Some m' ->
  rt_type types_shipped props_shipped url_ok norm_iri norm n row m' = Some m'.
Proof. exact (roundtrip_idempotent_shipped_cal year0_ok). Qed.
Theorem good_preserved_shipped_closed : forall n row m m',
  In row types_shipped -> good types_shipped props_shipped n row m = true ->
  rt_type types_shipped props_shipped url_ok norm_iri norm n row m = Some m' ->
  good types_shipped props_shipped n row m' = true.
Proof. exact (good_preserved_shipped_cal year0_ok). Qed.
Print Assumptions roundtrip_idempotent_shipped_closed.
Print Assumptions good_preserved_shipped_closed.
