(* C16: what the effect functions of Pub/EffectSpec.v do, member by member / entry by entry. *)
From Coq Require Import String List Bool Arith.
From Verif Require Import Base.ListX Base.Json Base.Free Pub.Events Pub.Calls Pub.Value Pub.EffectSpec Pub.Util.
From Verif Require Import Proofs.ValueProofs Proofs.HiddenProofs.
Import ListNotations.
Open Scope string_scope.
Open Scope list_scope.

Local Opaque has_prop known_type admits T P.

Lemma assoc_not_in {A} k (l : list (string * A)) : ~ In k (map fst l) -> assoc k l = None.
Proof.
  induction l as [|[k0 v] r IH]; simpl; intros H; [reflexivity|].
  destruct (String.eqb k k0) eqn:E; [apply String.eqb_eq in E; subst; exfalso; apply H; left; reflexivity|].
  apply IH. intros Hin. apply H. right. exact Hin.
Qed.

(* ---- Update ---- *)
Lemma overlay_get : forall fields t k, NoDup (map fst fields) ->
  jget k (fold_left (fun acc kv => jset (fst kv) (snd kv) acc) fields (JObj t)) =
  match assoc k fields with Some v => Some v | None => jget k (JObj t) end.
Proof.
  induction fields as [|[k0 v0] rest IH]; intros t k Hnd; [reflexivity|].
  cbn [fold_left fst snd]. inversion Hnd as [|x l Hnotin Hnd']; subst.
  unfold jset at 2. rewrite (IH (set_key k0 v0 t) k Hnd'). cbn [assoc].
  destruct (String.eqb k k0) eqn:E.
  - apply String.eqb_eq in E. subst k0. rewrite (assoc_not_in k rest Hnotin).
    change (JObj (set_key k v0 t)) with (jset k v0 (JObj t)). apply jget_jset_same.
  - destruct (assoc k rest); [reflexivity|].
    change (JObj (set_key k0 v0 t)) with (jset k0 v0 (JObj t)). apply jget_jset_other.
    intros ->. rewrite String.eqb_refl in E. discriminate.
Qed.

Lemma remove_keys_get : forall ks m k, jget k (remove_keys ks m) = if mem k ks then None else jget k m.
Proof.
  unfold remove_keys. induction ks as [|k0 r IH]; intros m k; [reflexivity|].
  cbn [fold_left]. rewrite IH. unfold mem. cbn [existsb]. fold (mem k r).
  destruct (String.eqb k k0) eqn:E.
  - apply String.eqb_eq in E. subst k0. cbn [orb]. destruct (mem k r); [reflexivity|apply jget_jremove_same].
  - cbn [orb]. destruct (mem k r); [reflexivity|]. apply jget_jremove_other. intros ->. rewrite String.eqb_refl in E. discriminate.
Qed.

(* exactly the supplied top-level members are replaced, the members given as null are removed, the others stay *)
Theorem update_members stored supplied raw t s k :
  stored = JObj t -> supplied = JObj s -> NoDup (map fst s) ->
  jget k (update_merge stored supplied raw) =
    if mem k (null_keys raw) then None
    else match jget k supplied with Some v => Some v | None => jget k stored end.
Proof.
  intros -> -> Hnd. unfold update_merge. rewrite remove_keys_get. destruct (mem k (null_keys raw)); [reflexivity|].
  unfold overlay. cbn [jfields]. rewrite (overlay_get s t k Hnd). reflexivity.
Qed.

(* ---- Delete ---- *)
Theorem tombstone_members obj id now_ :
  let t := to_tombstone obj id now_ in
  jget "type" t = Some (JStr "Tombstone") /\ jget "id" t = Some (JStr id) /\
  jget "formerType" t = Some (JStr (type_name obj)) /\ jget "deleted" t = Some (JStr now_) /\
  jget "published" t = (if vhas obj "published" then jget "published" obj else None) /\
  jget "updated" t = (if vhas obj "updated" then jget "updated" obj else None).
Proof.
  unfold to_tombstone.
  set (t0 := JObj [("type", JStr "Tombstone"); ("id", JStr id); ("formerType", JStr (type_name obj))]).
  set (t1 := if vhas obj "published" then match jget "published" obj with Some v => jset "published" v t0 | None => t0 end else t0).
  set (t2 := if vhas obj "updated" then match jget "updated" obj with Some v => jset "updated" v t1 | None => t1 end else t1).
  assert (O1 : exists m, t1 = JObj m) by (unfold t1, t0; destruct (vhas obj "published"); [destruct (jget "published" obj)|]; eexists; reflexivity).
  assert (O2 : exists m, t2 = JObj m).
  { destruct O1 as [m1 E1]. unfold t2. rewrite E1. destruct (vhas obj "updated"); [destruct (jget "updated" obj)|]; eexists; reflexivity. }
  assert (G1 : forall k, k <> "published" -> jget k t1 = jget k t0).
  { intros k Hk. unfold t1. destruct (vhas obj "published"); [destruct (jget "published" obj); [apply jget_jset_other; exact Hk|]|]; reflexivity. }
  assert (G2 : forall k, k <> "updated" -> jget k t2 = jget k t1).
  { intros k Hk. unfold t2. destruct (vhas obj "updated"); [destruct (jget "updated" obj); [apply jget_jset_other; exact Hk|]|]; reflexivity. }
  destruct O2 as [m2 E2]. cbn zeta.
  repeat split.
  - rewrite jget_jset_other, G2, G1 by discriminate. reflexivity.
  - rewrite jget_jset_other, G2, G1 by discriminate. reflexivity.
  - rewrite jget_jset_other, G2, G1 by discriminate. reflexivity.
  - rewrite E2. apply jget_jset_same.
  - rewrite jget_jset_other, G2 by discriminate. unfold t1. destruct O1 as [m1 E1].
    destruct (vhas obj "published"); [|reflexivity]. destruct (jget "published" obj) as [v|]; [apply jget_jset_same|reflexivity].
  - rewrite jget_jset_other by discriminate. unfold t2. destruct O1 as [m1 E1]. rewrite E1.
    destruct (vhas obj "updated").
    + destruct (jget "updated" obj) as [v|]; [apply jget_jset_same|]. rewrite <- E1. rewrite G1 by discriminate. reflexivity.
    + rewrite <- E1. rewrite G1 by discriminate. reflexivity.
Qed.

(* ---- Add ---- *)
Definition no_arrays (l : list json) : bool := forallb (fun e => negb (is_arr e)) l.

Theorem add_entries cp ids tp m : tp = JObj m -> ids <> [] -> no_arrays (elems0 cp tp) = true ->
  elems0 cp (add_spec cp ids tp) = elems0 cp tp ++ map JStr ids /\
  forall k, k <> cp -> jget k (add_spec cp ids tp) = jget k tp.
Proof.
  intros Hm Hne Hna. unfold add_spec. destruct ids as [|i r]; [congruence|]. split.
  - apply (elems_set_elems cp _ tp m Hm). unfold no_arrays in *. rewrite forallb_app, Hna. cbn [andb].
    clear. induction (i :: r) as [|x l IH]; [reflexivity|]. simpl. exact IH.
  - intros k Hk. unfold set_elems. apply jget_jset_other. exact Hk.
Qed.

(* ---- Remove ---- *)
Lemma remove_ids_filter cp ops : forall l l', remove_ids cp ops l = Ok l' ->
  l' = filter (fun e => match to_id cp e with Ok i => negb (mem i ops) | _ => true end) l.
Proof.
  induction l as [|e r IH]; intros l' H; simpl in H; [inversion H; reflexivity|].
  simpl. destruct (to_id cp e) as [i|x|s]; try discriminate. destruct (is_nil i); [discriminate|].
  destruct (remove_ids cp ops r) as [r'|x|s]; try discriminate. inversion H; subst l'. rewrite (IH r' eq_refl).
  destruct (mem i ops); reflexivity.
Qed.

Theorem remove_entries cp ids tp m tp' : tp = JObj m -> remove_spec cp ids tp = Ok tp' -> no_arrays (elems0 cp tp) = true ->
  elems0 cp tp' = filter (fun e => match to_id cp e with Ok i => negb (mem i ids) | _ => true end) (elems0 cp tp) /\
  forall k, k <> cp -> jget k tp' = jget k tp.
Proof.
  intros Hm H Hna. unfold remove_spec in H. unfold elems0 in *. destruct (elems cp tp) as [l|] eqn:El.
  - destruct (remove_ids cp ids l) as [l'|x|s] eqn:Er; try discriminate. inversion H; subst tp'.
    rewrite (remove_ids_filter cp ids l l' Er). split.
    + fold (elems0 cp (set_elems cp (filter (fun e => match to_id cp e with Ok i => negb (mem i ids) | _ => true end) l) tp)).
      apply (elems_set_elems cp _ tp m Hm). unfold no_arrays in Hna. rewrite forallb_forall in *. intros x Hx. apply filter_In in Hx. apply Hna. apply Hx.
    + intros k Hk. unfold set_elems. apply jget_jset_other. exact Hk.
  - inversion H; subst tp'. rewrite El. split; [reflexivity|intros; reflexivity].
Qed.

(* ---- Like ---- *)
Theorem like_entries ids liked m : liked = JObj m -> no_arrays (elems0 "items" liked) = true ->
  elems0 "items" (like_spec ids liked) = map JStr (rev ids) ++ elems0 "items" liked /\
  forall k, k <> "items" -> jget k (like_spec ids liked) = jget k liked.
Proof.
  intros Hm Hna. unfold like_spec. split.
  - apply (elems_set_elems "items" _ liked m Hm). unfold no_arrays in *. rewrite forallb_app, Hna, andb_true_r.
    induction (rev ids) as [|x l IH]; [reflexivity|]. simpl. exact IH.
  - intros k Hk. unfold set_elems. apply jget_jset_other. exact Hk.
Qed.

(* ---- for EVERY environment: Add / Remove update a target only after Owns answered true, with exactly the documented value ---- *)
From Verif Require Import Pub.Monitors.
Section EffWp.
  Variable kind : eff_kind.
  Notation step := (eff_step kind).

  Lemma ewp_bindr {A B} (m : prog (res A)) (f : A -> prog (res B)) s (Q : estate -> res B -> Prop) :
    wp step m s (fun s' r => match r with Ok a => wp step (f a) s' Q | Err e => Q s' (Err e) | Panic p => Q s' (Panic p) end) ->
    wp step (bindr m f) s Q.
  Proof. intros H. unfold bindr. apply wp_bind. eapply wp_mono; [|exact H]. intros s' [a|e|p] H'; exact H'. Qed.
  Lemma ewp_lock i s (Q : estate -> res unit -> Prop) : (forall r, Q s r) -> wp step (lock i) s Q.
  Proof. intros H. unfold lock, call. cbn [bind wp eff_step]. intros x. destruct x; apply H. Qed.
  Lemma ewp_unlock i s (Q : estate -> unit -> Prop) : Q s tt -> wp step (unlock i) s Q.
  Proof. intros H. unfold unlock, call. cbn [bind wp eff_step]. intros x. exact H. Qed.
  Lemma ewp_owns t s (Q : estate -> res bool -> Prop) :
    (forall x, Q {| e_owns := match x with ABool b => Some b | _ => None end; e_got := None |} (match x with ABool b => Ok b | _ => Err EGeneric end)) ->
    wp step (db_bool "Owns" [JStr t]) s Q.
  Proof. intros H. unfold db_bool, db, call. cbn [bind wp map]. intros x. specialize (H x). destruct x; exact H. Qed.
  Lemma ewp_get t s (Q : estate -> res json -> Prop) :
    (forall x, Q {| e_owns := e_owns s; e_got := match x with AJson j => Some j | _ => None end |} (match x with AJson j => Ok j | _ => Err EGeneric end)) ->
    wp step (db_json "Get" [JStr t]) s Q.
  Proof. intros H. unfold db_json, db, call. cbn [bind wp map]. intros x. specialize (H x). destruct x; exact H. Qed.
  Lemma ewp_update v tp s (Q : estate -> res unit -> Prop) :
    e_owns s = Some true -> e_got s = Some tp -> eff_expected kind tp = Some v ->
    (forall r, Q e0 r) -> wp step (db_unit "Update" [v]) s Q.
  Proof.
    intros Ho Hg He H. unfold db_unit, db, call. cbn [bind wp map]. intros x.
    change (eff_step kind s (EDb "Update" [canon v]) x) with
      (match e_owns s, e_got s with
       | Some true, Some tp => match eff_expected kind tp with Some want => if jeqb (canon v) (canon want) then Some e0 else None | None => None end
       | _, _ => None end).
    rewrite Ho, Hg, He, jeqb_refl. destruct x; apply H.
  Qed.
End EffWp.

Theorem eff_add_loop ids t s : wp (eff_step (KAdd ids)) (add_loop ids t) s (fun _ _ => True).
Proof.
  unfold add_loop, with_lock_deferred.
  apply ewp_bindr. apply ewp_lock. intros [_|e|p]; try exact I.
  apply wp_bind. apply ewp_bindr. apply ewp_owns. intros x.
  destruct x; try (apply wp_bind; apply ewp_unlock; exact I).
  destruct b; cbn [negb]; [|apply wp_bind; apply ewp_unlock; exact I].
  apply ewp_bindr. apply ewp_get. intros y.
  destruct y; try (apply wp_bind; apply ewp_unlock; exact I).
  apply ewp_bindr. unfold lift. cbn [wp].
  destruct (collection_prop j) as [cp|e|p] eqn:Ec; try (apply wp_bind; apply ewp_unlock; exact I).
  apply (ewp_update (KAdd ids) _ j); [reflexivity|reflexivity|unfold eff_expected; rewrite Ec; reflexivity|].
  intros r. apply wp_bind. apply ewp_unlock. exact I.
Qed.

Theorem eff_remove_loop ids t s : wp (eff_step (KRemove ids)) (remove_loop ids t) s (fun _ _ => True).
Proof.
  unfold remove_loop, with_lock_deferred.
  apply ewp_bindr. apply ewp_lock. intros [_|e|p]; try exact I.
  apply wp_bind. apply ewp_bindr. apply ewp_owns. intros x.
  destruct x; try (apply wp_bind; apply ewp_unlock; exact I).
  destruct b; cbn [negb]; [|apply wp_bind; apply ewp_unlock; exact I].
  apply ewp_bindr. apply ewp_get. intros y.
  destruct y; try (apply wp_bind; apply ewp_unlock; exact I).
  apply ewp_bindr. unfold lift. cbn [wp].
  destruct (collection_prop j) as [cp|e|p] eqn:Ec; try (apply wp_bind; apply ewp_unlock; exact I).
  apply ewp_bindr. cbn [wp].
  destruct (remove_spec cp ids j) as [tp'|e|p] eqn:Er; try (apply wp_bind; apply ewp_unlock; exact I).
  apply (ewp_update (KRemove ids) _ j); [reflexivity|reflexivity|unfold eff_expected; rewrite Ec, Er; reflexivity|].
  intros r. apply wp_bind. apply ewp_unlock. exact I.
Qed.

Lemma eff_foreach kind (f : string -> prog (res unit)) : (forall t s, wp (eff_step kind) (f t) s (fun _ _ => True)) ->
  forall l s, wp (eff_step kind) (foreach l f) s (fun _ _ => True).
Proof.
  intros Hf. induction l as [|t r IH]; intros s; [exact I|]. cbn [foreach].
  apply ewp_bindr. eapply wp_mono; [|apply Hf]. intros s' [u|e|p] _; [apply IH|exact I|exact I].
Qed.

Theorem eff_add a ids : ids_of "object" a = Ok ids -> wp (eff_step (KAdd ids)) (add a) e0 (fun _ _ => True).
Proof.
  intros Hi. unfold add. rewrite Hi. apply ewp_bindr. cbn [lift wp].
  apply ewp_bindr. destruct (ids_of "target" a) as [ts|e|p]; cbn [lift wp]; try exact I.
  apply eff_foreach. intros t s. apply eff_add_loop.
Qed.
Theorem eff_remove a ids : ids_of "object" a = Ok ids -> wp (eff_step (KRemove ids)) (remove a) e0 (fun _ _ => True).
Proof.
  intros Hi. unfold remove. rewrite Hi. apply ewp_bindr. cbn [lift wp].
  apply ewp_bindr. destruct (ids_of "target" a) as [ts|e|p]; cbn [lift wp]; try exact I.
  apply eff_foreach. intros t s. apply eff_remove_loop.
Qed.

(* ---- Block is stored and listed, never delivered; a missing object changes nothing (for EVERY environment) ---- *)
From Verif Require Import Pub.SideEffect Pub.Fed Pub.Soc Pub.BaseActor Proofs.OnlyProofs Proofs.OrderProofs Proofs.DeliveryProofs.

Lemma only_bind_leaves {A B} (Pe : ev -> bool) (R : A -> Prop) (m : prog A) (f : A -> prog B) :
  only Pe m -> leaves R m -> (forall a, R a -> only Pe (f a)) -> only Pe (bind m f).
Proof.
  induction m as [a|e k IH]; simpl; intros Hm Hl Hf; [apply Hf; exact Hl|].
  destruct Hm as [He Hk]. split; [exact He|]. intros x. apply IH; [apply Hk|apply Hl|exact Hf].
Qed.
Lemma only_bindr_leaves {A B} (Pe : ev -> bool) (R : A -> Prop) (m : prog (res A)) (f : A -> prog (res B)) :
  only Pe m -> leaves (fun r => match r with Ok a => R a | _ => True end) m -> (forall a, R a -> only Pe (f a)) -> only Pe (bindr m f).
Proof.
  intros Hm Hl Hf. unfold bindr. apply (only_bind_leaves Pe (fun r => match r with Ok a => R a | _ => True end)); [exact Hm|exact Hl|].
  intros [a|e|p] Hr; [apply Hf; exact Hr|exact I|exact I].
Qed.

Lemma add_new_ids_type a0 : leaves (fun r => match r with Ok a1 => type_name a1 = type_name a0 | _ => True end) (add_new_ids a0).
Proof.
  unfold add_new_ids. apply leaves_bindr; [intros; exact I|intros; exact I|]. intros id.
  assert (Ht : type_name (jset "id" (JStr id) a0) = type_name a0) by (apply type_name_jset; discriminate).
  destruct (is_or_extends _ "Create"); [|exact Ht].
  destruct (negb _); [exact I|]. destruct (elems "object" _); [|exact Ht].
  apply leaves_bindr; [intros; exact I|intros; exact I|]. intros l'. cbn [leaves ok].
  rewrite type_name_set_elems by discriminate. exact Ht.
Qed.

Section Block.
  Variable cfg : config.
  Variable perm : list string -> list string.
  Hypothesis social : c_social cfg = true.
  Hypothesis not_overridden : mem "Block" (c_soc_other cfg) = false.

  Ltac nb := try reflexivity; intros; try reflexivity.

  Lemma block_callbacks outbox raw a : type_name a = "Block" ->
    leaves (fun r => match r with Ok p => snd p = false | _ => True end) (soc_callbacks cfg outbox raw perm a).
  Proof.
    intros Ht. unfold soc_callbacks. rewrite social, Ht, not_overridden.
    apply leaves_bindr; [intros; exact I|intros; exact I|]. intros _. cbn [String.eqb Ascii.eqb Bool.eqb].
    apply leaves_bindr; [intros; exact I|intros; exact I|]. intros _. reflexivity.
  Qed.

  Theorem block_not_delivered outbox v raw : is_activity v = true -> type_name v = "Block" ->
    only nobatch (deliver_outbox cfg perm outbox v raw).
  Proof.
    intros Ha Ht. unfold deliver_outbox. rewrite Ha.
    unfold bindr at 1. cbn [bind ok].
    destruct (negb (satisfies_activity v)); [exact I|].
    apply (only_bindr_leaves nobatch (fun a1 => type_name a1 = "Block")).
    - apply q_add_new_ids with (dbok := fun _ => true); nb.
    - eapply leaves_mono; [|apply (add_new_ids_type v)]. intros [a1|e|s] H; [rewrite H; exact Ht|exact I|exact I].
    - intros a1 H1.
      apply (only_bindr_leaves nobatch (fun p : json * bool => snd p = false)).
      + apply q_post_outbox with (dbok := fun _ => true); nb.
      + unfold post_outbox. apply leaves_bindr_R with (R0 := fun p : json * bool => snd p = false).
        * eapply leaves_mono; [|apply (block_callbacks outbox _ a1 H1)]. intros [p|e|s] Hp; exact Hp.
        * intros r Hr. apply leaves_bindr; [intros; exact I|intros; exact I|]. intros _. exact Hr.
      + intros [a2 d] Hd. cbn [snd] in Hd. subst d. rewrite andb_false_r. exact I.
  Qed.
End Block.

(* ---- an activity lacking its required object (or target) is rejected before anything is stored, changed or sent ---- *)
Definition nomod (e : ev) : bool :=
  match e with
  | EDb op _ => negb (String.eqb op "Create" || String.eqb op "Update" || String.eqb op "Delete" || String.eqb op "SetOutbox" || String.eqb op "SetInbox")
  | EBatchDeliver _ _ => false
  | _ => true
  end.
Definition nomod_db (op : string) : bool :=
  negb (String.eqb op "Create" || String.eqb op "Update" || String.eqb op "Delete" || String.eqb op "SetOutbox" || String.eqb op "SetInbox").

Lemma add_new_ids_plain v : is_or_extends (type_name v) "Create" = false ->
  leaves (fun r => match r with Ok a1 => exists id, a1 = jset "id" (JStr id) v | _ => True end) (add_new_ids v).
Proof.
  intros Hc. unfold add_new_ids. apply leaves_bindr; [intros; exact I|intros; exact I|]. intros id.
  rewrite type_name_jset by discriminate. rewrite Hc. exists id. reflexivity.
Qed.

Lemma required_jset_id x v : object_required (jset "id" x v) = object_required v /\ target_required (jset "id" x v) = target_required v.
Proof. unfold object_required, target_required, elems. rewrite !jget_jset_other by discriminate. split; reflexivity. Qed.

Section Missing.
  Variable cfg : config.
  Variable perm : list string -> list string.
  Hypothesis social : c_social cfg = true.

  Definition c16_types : list string := ["Update"; "Delete"; "Add"; "Remove"; "Like"; "Block"].

  Lemma missing_callbacks outbox raw a ty : In ty c16_types -> type_name a = ty -> mem ty (c_soc_other cfg) = false ->
    (object_required a = true \/ ((ty = "Add" \/ ty = "Remove") /\ target_required a = true)) ->
    only nomod (soc_callbacks cfg outbox raw perm a) /\
    leaves (fun r => match r with Ok _ => False | _ => True end) (soc_callbacks cfg outbox raw perm a).
  Proof.
    intros Hin Ht Hno Hreq. unfold soc_callbacks. rewrite social, Ht, Hno.
    assert (Happ : only nomod (app_unit "SocialCallbacks" [])) by (apply q_app_unit; reflexivity).
    simpl in Hin.
    destruct Hin as [<-|[<-|[<-|[<-|[<-|[<-|[]]]]]]]; cbn [String.eqb Ascii.eqb Bool.eqb];
      unfold update, delete, add_cb, remove_cb, like, block;
      (destruct Hreq as [Ho|[Hty Htg]];
       [rewrite Ho|
        destruct Hty as [Hty|Hty]; try discriminate Hty; destruct (object_required a); try rewrite Htg]);
      (split; [apply quiet_bindr; [exact Happ|intros _; exact I]
              |apply leaves_bindr; [intros; exact I|intros; exact I|intros _; exact I]]).
  Qed.

  Theorem missing_changes_nothing outbox v raw ty : In ty c16_types -> is_activity v = true -> type_name v = ty ->
    is_or_extends ty "Create" = false -> mem ty (c_soc_other cfg) = false ->
    (object_required v = true \/ ((ty = "Add" \/ ty = "Remove") /\ target_required v = true)) ->
    only nomod (deliver_outbox cfg perm outbox v raw) /\
    leaves (fun r => match r with Ok _ => False | _ => True end) (deliver_outbox cfg perm outbox v raw).
  Proof.
    intros Hin Ha Ht Hc Hno Hreq. unfold deliver_outbox. rewrite Ha.
    change (bindr (ok v) ?f) with (f v). cbn beta.
    destruct (negb (satisfies_activity v)); [split; exact I|].
    assert (Hl : leaves (fun r => match r with Ok a1 => type_name a1 = ty /\ (object_required a1 = true \/ ((ty = "Add" \/ ty = "Remove") /\ target_required a1 = true)) | _ => True end) (add_new_ids v)).
    { eapply leaves_mono; [|apply add_new_ids_plain; rewrite Ht; exact Hc]. intros [a1|e|s] H; try exact I.
      destruct H as [id ->]. rewrite type_name_jset by discriminate. destruct (required_jset_id (JStr id) v) as [-> ->]. split; assumption. }
    split.
    - apply (only_bindr_leaves nomod (fun a1 => type_name a1 = ty /\ (object_required a1 = true \/ ((ty = "Add" \/ ty = "Remove") /\ target_required a1 = true)))).
      + apply q_add_new_ids with (dbok := nomod_db); try reflexivity; intros; try reflexivity; assumption.
      + exact Hl.
      + intros a1 [H1 H2]. destruct (missing_callbacks outbox (match raw with Some m => m | None => a1 end) a1 ty Hin H1 Hno H2) as [Ho Hle].
        apply (only_bindr_leaves nomod (fun _ : json * bool => False)).
        * unfold post_outbox. apply (only_bindr_leaves nomod (fun _ : json * bool => False)); [exact Ho|exact Hle|intros r []].
        * unfold post_outbox. apply leaves_bindr_R with (R0 := fun _ : json * bool => False); [|intros r []].
          eapply leaves_mono; [|exact Hle]. intros [r|e|s] H; [destruct H|exact I|exact I].
        * intros r [].
    - apply leaves_bindr_R with (R0 := fun a1 => type_name a1 = ty /\ (object_required a1 = true \/ ((ty = "Add" \/ ty = "Remove") /\ target_required a1 = true))).
      + eapply leaves_mono; [|exact Hl]. intros [a1|e|s] H; [exact H|exact I|exact I].
      + intros a1 [H1 H2]. destruct (missing_callbacks outbox (match raw with Some m => m | None => a1 end) a1 ty Hin H1 Hno H2) as [Ho Hle].
        apply leaves_bindr_R with (R0 := fun _ : json * bool => False); [|intros r []].
        unfold post_outbox. apply leaves_bindr_R with (R0 := fun _ : json * bool => False); [|intros r []].
        eapply leaves_mono; [|exact Hle]. intros [r|e|s] H; [destruct H|exact I|exact I].
  Qed.
End Missing.
