(* C02: the model of Deliver against the delivery specification, for every federation graph. *)
From Coq Require Import String List Bool Arith Lia.
From Verif Require Import Base.ListX Base.Json Base.Free Pub.Events Pub.Calls Pub.Value Pub.Util Pub.SideEffect Pub.DeliverySpec.
From Verif Require Import Proofs.ServeProofs Proofs.OnlyProofs.
Import ListNotations.
Open Scope string_scope.
Open Scope list_scope.

Local Opaque has_prop known_type admits T P.

(* ---- running a program against a stateless environment ---- *)
Fixpoint run_env {A} (env : ev -> ans) (m : prog A) : A * list ev :=
  match m with
  | Ret a => (a, [])
  | Op e k => let '(a, tr) := run_env env (k (env e)) in (a, e :: tr)
  end.

Lemma run_env_bind {A B} env (m : prog A) (f : A -> prog B) :
  run_env env (bind m f) = let '(a, t1) := run_env env m in let '(b, t2) := run_env env (f a) in (b, t1 ++ t2).
Proof.
  induction m as [a|e k IH]; simpl.
  - destruct (run_env env (f a)) as [b t2]. reflexivity.
  - rewrite IH. destruct (run_env env (k (env e))) as [a t1]. destruct (run_env env (f a)) as [b t2]. reflexivity.
Qed.

Lemma run_env_runs {A} env (m : prog A) : runs m (map (fun e => (e, env e)) (snd (run_env env m))) (fst (run_env env m)).
Proof.
  induction m as [a|e k IH]; simpl; [split; reflexivity|].
  specialize (IH (env e)). destruct (run_env env (k (env e))) as [a tr]. simpl in *. split; [reflexivity|exact IH].
Qed.

(* ---- the environment a federation graph presents to Deliver (every call succeeds) ---- *)
Section G.
  Variable g : graph.
  Variable env : ev -> ans.
  Definition deref_answer (d : deref_ans) : ans := match d with DDoc j => AJson j | DNotJson => ANotJson | DFailed => AErr end.
  Hypothesis env_deref : forall u, env (EDeref u) = deref_answer (g_deref g u).

  (* the actor documents found *)
  Fixpoint actors_of (fuel : nat) (ids : list string) : list json :=
    match fuel with
    | O => []
    | S f => flat_map (fun u => match classify (g_deref g u) with RSkip => [] | RActor v => [v] | RMore ms => actors_of f ms end) (filter_public ids)
    end.

  Lemma deref_dd d : (match deref_answer d with AJson j => DDoc j | ANotJson => DNotJson | _ => DFailed end) = d.
  Proof. destruct d; reflexivity. Qed.

  Lemma run_deref_for_resolving u : run_env env (deref_for_resolving u) = (classify (g_deref g u), [EDeref u]).
  Proof. unfold deref_for_resolving, dereference, call. cbn [bind run_env ret]. rewrite env_deref, deref_dd. reflexivity. Qed.

  Lemma run_resolve_actors fuel : forall r,
    run_env env (resolve_actors fuel r) = (actors_of fuel r, map EDeref (derefs g fuel r)).
  Proof.
    induction fuel as [|f IH]; intros r; [reflexivity|].
    cbn [resolve_actors actors_of derefs]. fold (derefs g).
    induction r as [|u rest IHr]; [reflexivity|].
    unfold filter_public in *. cbn [filter]. destruct (is_public u); cbn [negb]; [exact IHr|].
    cbn [flat_map]. rewrite run_env_bind, run_deref_for_resolving.
    rewrite run_env_bind.
    destruct (classify (g_deref g u)) as [|v|ms].
    - cbn [run_env ret]. rewrite run_env_bind, IHr. cbn [run_env ret]. rewrite app_nil_r. reflexivity.
    - cbn [run_env ret]. rewrite run_env_bind, IHr. cbn [run_env ret]. rewrite app_nil_r. reflexivity.
    - rewrite IH. rewrite run_env_bind, IHr. cbn [run_env ret]. rewrite app_nil_r.
      cbn [map app]. rewrite map_app. reflexivity.
  Qed.

  (* the inboxes of the actors found are what the specification's expansion lists *)
  Lemma inboxes_expand fuel : forall r, get_inboxes (actors_of fuel r) = all_ok (expand g fuel r).
  Proof.
    assert (Happ : forall a b, all_ok (a ++ b) = match all_ok a with Ok x => match all_ok b with Ok y => Ok (x ++ y) | e => e end | e => e end).
    { induction a as [|x a IHa]; intros b; simpl.
      - destruct (all_ok b); reflexivity.
      - destruct x as [i|e|s]; try reflexivity. rewrite IHa. destruct (all_ok a); [destruct (all_ok b)|..]; reflexivity. }
    assert (Hgi : forall a b, get_inboxes (a ++ b) = match get_inboxes a with Ok x => match get_inboxes b with Ok y => Ok (x ++ y) | e => e end | e => e end).
    { induction a as [|t a IHa]; intros b; simpl.
      - destruct (get_inboxes b); reflexivity.
      - rewrite IHa. destruct (get_inbox t); try reflexivity. destruct (get_inboxes a); [destruct (get_inboxes b)|..]; reflexivity. }
    induction fuel as [|f IH]; intros r; [reflexivity|].
    cbn [actors_of expand]. induction r as [|u rest IHr]; [reflexivity|].
    unfold filter_public in *. cbn [filter]. destruct (is_public u); cbn [negb]; [exact IHr|].
    cbn [flat_map]. rewrite Hgi, Happ, IHr. unfold contribute.
    destruct (classify (g_deref g u)) as [|v|ms]; cbn [get_inboxes all_ok].
    - reflexivity.
    - destruct (get_inbox v); reflexivity.
    - rewrite IH. reflexivity.
  Qed.
End G.

(* ---- the whole of Deliver against a graph in which every Database / Transport call succeeds ---- *)
Section Whole.
  Variable g : graph.
  Variable env : ev -> ans.
  Variables outbox sender : string.
  Variable sender_doc : json.
  Hypothesis env_deref : forall u, env (EDeref u) = deref_answer (g_deref g u).
  Hypothesis env_lock : forall i, env (ELock i) = AOk.
  Hypothesis env_inbox : forall a, env (EDb "InboxForActor" [JStr a]) = match g_stored_inbox g a with Some i => AIri i | None => ANone end.
  Hypothesis env_nt : forall b, env (ENewTransport b) = AOk.
  Hypothesis env_depth : env (EApp "MaxDeliveryRecursionDepth" []) = ANat (g_depth g).
  Hypothesis depth_pos : g_depth g <> 0.
  Hypothesis env_afo : env (EDb "ActorForOutbox" [JStr outbox]) = AIri sender.
  Hypothesis env_get : env (EDb "Get" [JStr sender]) = AJson sender_doc.
  Hypothesis self_inbox : get_inbox sender_doc = Ok (g_self g).
  Hypothesis env_batch : forall p r, env (EBatchDeliver p r) = AOk.

  Definition has_stored (a : string) : bool := match g_stored_inbox g a with Some _ => true | None => false end.
  Definition hits (r : list string) : list string := flat_map (fun a => match g_stored_inbox g a with Some ib => [ib] | None => [] end) r.

  Lemma run_inboxes_from_db r : exists tr,
    run_env env (inboxes_from_db r) = (Ok (hits r, filter has_stored r), tr) /\
    forall e, In e tr -> match e with EBatchDeliver _ _ | EDeref _ => False | _ => True end.
  Proof.
    induction r as [|a rest [tr [IH Htr]]]; [exists []; split; [reflexivity|intros e []]|].
    cbn [inboxes_from_db]. unfold lock, unlock, db_opt_iri, db, call, bindr.
    cbn [bind run_env map canon]. rewrite env_lock. cbn [bind run_env ok]. rewrite env_inbox.
    unfold hits, has_stored in *. cbn [flat_map filter].
    destruct (g_stored_inbox g a) as [ib|]; cbn [bind run_env ok ret lift].
    - rewrite run_env_bind, IH. cbn [run_env ok fst snd].
      eexists. split; [reflexivity|]. intros e He. simpl in He.
      destruct He as [<-|[<-|[<-|He]]]; try exact I. rewrite app_nil_r in He. apply Htr. exact He.
    - rewrite run_env_bind, IH. cbn [run_env ok fst snd].
      eexists. split; [reflexivity|]. intros e He. simpl in He.
      destruct He as [<-|[<-|[<-|He]]]; try exact I. rewrite app_nil_r in He. apply Htr. exact He.
  Qed.

  Lemma remove_found r : fold_left remove_one (filter has_stored r) r = filter (fun a => negb (has_stored a)) r.
  Proof.
    assert (H : forall (found l : list string), fold_left remove_one found l = filter (fun a => negb (mem a found)) l).
    { induction found as [|x found IHf]; intros l; simpl.
      - induction l as [|y l IHl]; simpl; [reflexivity|]. f_equal. exact IHl.
      - rewrite IHf. unfold remove_one.
        assert (FF : forall (f h : string -> bool) l, filter f (filter h l) = filter (fun a => h a && f a) l).
        { intros f h l0. induction l0 as [|z l0 IHl]; simpl; [reflexivity|].
          destruct (h z); simpl; [destruct (f z); rewrite IHl; reflexivity|exact IHl]. }
        rewrite FF. apply filter_ext. intros z. unfold mem. simpl. destruct (String.eqb z x); reflexivity. }
    rewrite H. apply filter_ext_in. intros a Ha. f_equal.
    destruct (has_stored a) eqn:E.
    - apply mem_In. apply filter_In. split; assumption.
    - apply mem_false_In. intros Hin. apply filter_In in Hin. destruct Hin as [_ Hs]. congruence.
  Qed.

  Definition batch_recipients (tr : list ev) : list (list string) :=
    flat_map (fun e => match e with EBatchDeliver _ r => [r] | _ => [] end) tr.

  (* exactly one BatchDeliver, carrying the specification's targets; Deref events are exactly derefs *)
  Theorem deliver_meets_spec a targets : spec_targets g a = Ok targets ->
    let '(r, tr) := run_env env (deliver outbox a) in
    r = Ok (strip_hidden a) /\ batch_recipients tr = [targets] /\
    flat_map (fun e => match e with EDeref u => [u] | _ => [] end) tr =
      derefs g (g_depth g) (filter (fun x => negb (has_stored x)) (filter_public (match collect_recipients a with Ok l => l | _ => [] end))).
  Proof.
    unfold spec_targets. intros Hs. destruct (collect_recipients a) as [addr|e|s] eqn:Ec; try discriminate.
    unfold deliver. rewrite Ec. unfold lift, bindr at 1. cbn [bind].
    unfold bindr at 1. rewrite run_env_bind.
    destruct (run_inboxes_from_db (filter_public addr)) as [tr1 [E1 Htr1]]. rewrite E1. cbn [fst snd].
    rewrite remove_found.
    set (rest := filter (fun x => negb (has_stored x)) (filter_public addr)).
    unfold new_transport, call, bindr at 1. cbn [bind run_env]. rewrite env_nt. cbn [bind run_env ok].
    unfold max_delivery_depth, app, call. cbn [bind run_env map]. rewrite env_depth. cbn [bind run_env ret].
    assert (Ed : (if Nat.eqb (g_depth g) 0 then 64 else g_depth g) = g_depth g) by (destruct (g_depth g); [congruence|reflexivity]).
    rewrite Ed. rewrite run_env_bind, (run_resolve_actors g env env_deref).
    rewrite (inboxes_expand g).
    assert (Hrest : rest = filter (fun actor => match g_stored_inbox g actor with Some _ => false | None => true end) (filter_public addr)).
    { unfold rest, has_stored. apply filter_ext. intros x. destruct (g_stored_inbox g x); reflexivity. }
    rewrite <- Hrest in Hs. destruct (all_ok (expand g (g_depth g) rest)) as [remote|e|s] eqn:Ee; try discriminate.
    inversion Hs; subst targets. unfold lift, bindr at 1. cbn [bind].
    unfold lock, unlock, db_iri, db_json, db, call, bindr. cbn [bind run_env map canon].
    rewrite env_lock. cbn [bind run_env ok]. rewrite env_afo. cbn [bind run_env ok ret]. rewrite env_lock. cbn [bind run_env ok].
    rewrite env_get. cbn [bind run_env ok ret lift]. rewrite self_inbox. cbn [bind run_env ok].
    unfold deliver_to_recipients, new_transport, batch_deliver, call, bindr. cbn [bind run_env]. rewrite env_nt. cbn [bind run_env ok].
    rewrite env_batch. cbn [bind run_env ok].
    split; [reflexivity|]. unfold batch_recipients.
    assert (Hnb : forall l, (forall e, In e l -> match e with EBatchDeliver _ _ | EDeref _ => False | _ => True end) ->
                   flat_map (fun e => match e with EBatchDeliver _ r => [r] | _ => [] end) l = [] /\
                   flat_map (fun e => match e with EDeref u => [u] | _ => [] end) l = []).
    { induction l as [|x l IHl]; intros Hl; [split; reflexivity|]. simpl.
      pose proof (Hl x (or_introl eq_refl)) as Hx. destruct (IHl (fun e He => Hl e (or_intror He))) as [I1 I2].
      destruct x; try contradiction; simpl; split; assumption. }
    destruct (Hnb tr1 Htr1) as [B1 D1].
    assert (Hd : forall l, flat_map (fun e => match e with EBatchDeliver _ r => [r] | _ => [] end) (map EDeref l) = [] /\
                 flat_map (fun e => match e with EDeref u => [u] | _ => [] end) (map EDeref l) = l).
    { induction l as [|x l [I1 I2]]; [split; reflexivity|]. simpl. split; [exact I1|f_equal; exact I2]. }
    destruct (Hd (derefs g (g_depth g) rest)) as [B2 D2].
    rewrite !flat_map_app. rewrite B1, D1. cbn [flat_map app]. rewrite !flat_map_app, B2, D2. cbn [flat_map app].
    rewrite ?app_nil_r. split; reflexivity.
  Qed.
End Whole.

(* ---- the specification read declaratively ---- *)
Section Declarative.
  Variable g : graph.

  (* inbox i is reached from id u using at most n levels of dereferencing; Public is never a step *)
  Inductive Reaches : nat -> string -> res string -> Prop :=
  | R_actor n u i : is_public u = false -> contribute (g_deref g u) = CInbox i -> Reaches (S n) u i
  | R_member n u ms m i : is_public u = false -> contribute (g_deref g u) = CMembers ms -> In m ms -> Reaches n m i -> Reaches (S n) u i.

  Lemma in_filter_public u ids : In u (filter_public ids) <-> In u ids /\ is_public u = false.
  Proof. unfold filter_public. rewrite filter_In. destruct (is_public u); simpl; intuition congruence. Qed.

  Lemma expand_in n : forall ids i, In i (expand g n ids) <-> exists u, In u ids /\ Reaches n u i.
  Proof.
    induction n as [|n IH]; intros ids i; cbn [expand].
    - split; [intros []|intros [u [_ H]]; inversion H].
    - rewrite in_flat_map. split.
      + intros [u [Hu Hi]]. apply in_filter_public in Hu. destruct Hu as [Hu Hp]. exists u. split; [exact Hu|].
        destruct (contribute (g_deref g u)) as [|j|ms] eqn:Ec.
        * destruct Hi.
        * destruct Hi as [<-|[]]. apply R_actor; assumption.
        * apply IH in Hi. destruct Hi as [m [Hm Hr]]. eapply R_member; eassumption.
      + intros [u [Hu Hr]]. exists u.
        inversion Hr as [n' u' i' Hp Ec|n' u' ms m i' Hp Ec Hm Hr']; subst; (split; [apply in_filter_public; split; assumption|]); rewrite Ec.
        * left. reflexivity.
        * apply IH. exists m. split; assumption.
  Qed.

  (* IRI v is dereferenced when starting from u with n levels *)
  Inductive Visits : nat -> string -> string -> Prop :=
  | V_here n u : is_public u = false -> Visits (S n) u u
  | V_member n u ms m v : is_public u = false -> classify (g_deref g u) = RMore ms -> In m ms -> Visits n m v -> Visits (S n) u v.

  Lemma derefs_in n : forall ids v, In v (derefs g n ids) <-> exists u, In u ids /\ Visits n u v.
  Proof.
    induction n as [|n IH]; intros ids v; cbn [derefs].
    - split; [intros []|intros [u [_ H]]; inversion H].
    - rewrite in_flat_map. split.
      + intros [u [Hu Hi]]. apply in_filter_public in Hu. destruct Hu as [Hu Hp]. exists u. split; [exact Hu|].
        destruct Hi as [<-|Hi]; [apply V_here; exact Hp|].
        destruct (classify (g_deref g u)) as [|j|ms] eqn:Ec; try destruct Hi.
        apply IH in Hi. destruct Hi as [m [Hm Hr]]. eapply V_member; eassumption.
      + intros [u [Hu Hr]]. exists u.
        inversion Hr as [n' u' Hp|n' u' ms m v' Hp Ec Hm Hr']; subst; (split; [apply in_filter_public; split; assumption|]); [left; reflexivity|right].
        rewrite Ec. apply IH. exists m. split; assumption.
  Qed.

  (* Public is never dereferenced, wherever it is named *)
  Lemma visits_not_public n u v : Visits n u v -> is_public v = false.
  Proof. induction 1 as [n u Hp|n u ms m v Hp Ec Hm Hv IH]; assumption. Qed.

  (* a visit chain never exceeds the configured depth: Visits n is empty at n = 0 and each step consumes a level *)
  Fixpoint chain (n : nat) (u v : string) (path : list string) : Prop :=
    match path with
    | [] => u = v /\ 0 < n
    | m :: rest => match n with O => False | S n' => (exists ms, classify (g_deref g u) = RMore ms /\ In m ms) /\ chain n' m v rest end
    end.
  Lemma visits_chain n : forall u v, Visits n u v -> exists path, chain n u v path /\ length path < n.
  Proof.
    induction n as [|n IH]; intros u v H; inversion H as [n' u' Hp|n' u' ms m v' Hp Ec Hm Hr]; subst.
    - exists []. simpl. split; [split; [reflexivity|lia]|lia].
    - destruct (IH _ _ Hr) as [p [Hp' Hl]]. exists (m :: p). simpl. split; [split; [exists ms; split; assumption|exact Hp']|lia].
  Qed.

  Lemma all_ok_in l t : all_ok l = Ok t -> forall i, In i t <-> In (Ok i) l.
  Proof.
    revert t. induction l as [|x l IH]; intros t H i; simpl in H.
    - inversion H. split; intros [].
    - destruct x as [j|e|s]; try discriminate. destruct (all_ok l) as [t'|e|s] eqn:E; try discriminate.
      inversion H; subst t. simpl. rewrite (IH t' eq_refl). split; intros [Hj|Hj]; [left; congruence|right; exact Hj|left; congruence|right; exact Hj].
  Qed.
  Lemma all_ok_err l e : all_ok l = Err e -> In (Err e) l.
  Proof.
    induction l as [|x l IH]; simpl; [discriminate|]. destruct x as [j|e'|s]; [|intros H; left; congruence|discriminate].
    destruct (all_ok l) as [t'|e'|s]; try discriminate. intros H. right. apply IH. exact H.
  Qed.

  (* the targets: exactly the addressed, non-Public actors' inboxes (stored if the application has one,
     reached by dereferencing otherwise), never the sender's own inbox, each once *)
  Theorem spec_targets_char a addressed t :
    collect_recipients a = Ok addressed -> spec_targets g a = Ok t ->
    NoDup t /\ ~ In (g_self g) t /\
    forall i, In i t <-> i <> g_self g /\ exists u, In u addressed /\ is_public u = false /\
                  (g_stored_inbox g u = Some i \/ (g_stored_inbox g u = None /\ Reaches (g_depth g) u (Ok i))).
  Proof.
    intros Ec Hs. unfold spec_targets in Hs. rewrite Ec in Hs.
    destruct (all_ok (expand g (g_depth g) _)) as [remote|e|s] eqn:Ee; try discriminate.
    inversion Hs; subst t. unfold dedupe_iris. split; [apply dedupe_against_nodup|]. split.
    - rewrite dedupe_against_spec. intros [_ H]. apply H. left. reflexivity.
    - intros i. rewrite dedupe_against_spec, in_app_iff, in_flat_map. rewrite (all_ok_in _ _ Ee), expand_in.
      unfold filter_public. split.
      + intros [[[u [Hu Hi]]|[u [Hu Hr]]] Hn].
        * split; [intros ->; apply Hn; left; reflexivity|]. apply filter_In in Hu. destruct Hu as [Hu Hp].
          exists u. split; [exact Hu|]. split; [destruct (is_public u); [discriminate|reflexivity]|].
          left. destruct (g_stored_inbox g u) as [ib|]; [destruct Hi as [<-|[]]; reflexivity|destruct Hi].
        * split; [intros ->; apply Hn; left; reflexivity|]. apply filter_In in Hu. destruct Hu as [Hu Hst].
          apply filter_In in Hu. destruct Hu as [Hu Hp].
          exists u. split; [exact Hu|]. split; [destruct (is_public u); [discriminate|reflexivity]|].
          right. split; [destruct (g_stored_inbox g u); [discriminate|reflexivity]|exact Hr].
      + intros [Hn [u [Hu [Hp [Hst|[Hst Hr]]]]]].
        * split; [|intros [H|[]]; congruence]. left. exists u. split; [apply filter_In; split; [exact Hu|rewrite Hp; reflexivity]|].
          rewrite Hst. left. reflexivity.
        * split; [|intros [H|[]]; congruence]. right. exists u. split; [|exact Hr].
          apply filter_In. split; [apply filter_In; split; [exact Hu|rewrite Hp; reflexivity]|rewrite Hst; reflexivity].
  Qed.

  (* the specification fails only when a reached actor document has no usable inbox *)
  Theorem spec_targets_err a addressed e :
    collect_recipients a = Ok addressed -> spec_targets g a = Err e ->
    exists u, In u addressed /\ is_public u = false /\ g_stored_inbox g u = None /\ Reaches (g_depth g) u (Err e).
  Proof.
    intros Ec Hs. unfold spec_targets in Hs. rewrite Ec in Hs.
    destruct (all_ok (expand g (g_depth g) _)) as [remote|e'|s] eqn:Ee; try discriminate.
    inversion Hs; subst e'. apply all_ok_err in Ee. apply expand_in in Ee. destruct Ee as [u [Hu Hr]].
    apply filter_In in Hu. destruct Hu as [Hu Hst]. apply filter_In in Hu. destruct Hu as [Hu Hp].
    exists u. split; [exact Hu|]. split; [destruct (is_public u); [discriminate|reflexivity]|].
    split; [destruct (g_stored_inbox g u); [discriminate|reflexivity]|exact Hr].
  Qed.

  (* what is dereferenced: only addressed non-Public ids without a stored inbox, and members of collections
     reached from them within the depth; in particular an addressed Public IRI is never dereferenced *)
  Theorem derefs_char addressed v :
    In v (derefs g (g_depth g) (filter (fun x => match g_stored_inbox g x with Some _ => false | None => true end) (filter_public addressed))) <->
    exists u, In u addressed /\ is_public u = false /\ g_stored_inbox g u = None /\ Visits (g_depth g) u v.
  Proof.
    rewrite derefs_in. unfold filter_public. split.
    - intros [u [Hu Hv]]. apply filter_In in Hu. destruct Hu as [Hu Hst]. apply filter_In in Hu. destruct Hu as [Hu Hp].
      exists u. split; [exact Hu|]. split; [destruct (is_public u); [discriminate|reflexivity]|].
      split; [destruct (g_stored_inbox g u); [discriminate|reflexivity]|exact Hv].
    - intros [u [Hu [Hp [Hst Hv]]]]. exists u. split; [|exact Hv].
      apply filter_In. split; [apply filter_In; split; [exact Hu|rewrite Hp; reflexivity]|rewrite Hst; reflexivity].
  Qed.
End Declarative.

(* ---- for EVERY environment: the payload is handed over at most once, and exactly once when Deliver succeeds ---- *)
Definition nobatch (e : ev) : bool := match e with EBatchDeliver _ _ => false | _ => true end.
Definition is_ok {A} (r : res A) : bool := match r with Ok _ => true | _ => false end.

Fixpoint once {A} (seen : bool) (m : prog (res A)) : Prop :=
  match m with
  | Ret r => is_ok r = true -> seen = true
  | Op e k => if nobatch e then forall x, once seen (k x) else seen = false /\ forall x, once true (k x)
  end.

Lemma once_bind {A B} seen (m : prog A) (f : A -> prog (res B)) :
  only nobatch m -> (forall a, once seen (f a)) -> once seen (bind m f).
Proof.
  induction m as [a|e k IH]; simpl; intros Hm Hf; [apply Hf|].
  destruct Hm as [He Hk]. rewrite He. intros x. apply IH; [apply Hk|exact Hf].
Qed.
Lemma once_bindr {A B} seen (m : prog (res A)) (f : A -> prog (res B)) :
  only nobatch m -> (forall a, once seen (f a)) -> once seen (bindr m f).
Proof.
  intros Hm Hf. unfold bindr. apply once_bind; [exact Hm|]. intros [a|e|s]; [apply Hf|simpl; discriminate|simpl; discriminate].
Qed.

Lemma once_runs {A} (m : prog (res A)) : forall seen tr r, once seen m -> runs m tr r ->
  length (batches tr) + (if seen then 1 else 0) <= 1 /\ (is_ok r = true -> length (batches tr) + (if seen then 1 else 0) = 1).
Proof.
  induction m as [a|e k IH]; intros seen tr r Ho Hr; simpl in *.
  - destruct Hr as [-> <-]. simpl. destruct seen; [split; [lia|intros; lia]|]. split; [lia|]. intros H. specialize (Ho H). discriminate.
  - destruct tr as [|[e' x] tr]; [destruct Hr|]. destruct Hr as [-> Hr].
    destruct e; simpl in Ho; try (specialize (IH x seen tr r (Ho x) Hr); unfold batches in *; simpl; exact IH).
    destruct Ho as [-> Ho]. specialize (IH x true tr r (Ho x) Hr). unfold batches in *. simpl. destruct IH as [I1 I2]. split; [lia|intros H; specialize (I2 H); lia].
Qed.

Lemma once_deliver outbox a : once false (deliver outbox a).
Proof.
  assert (L : forall i, only nobatch (lock i)) by (intros; apply q_lock; intros; reflexivity).
  assert (U : forall i, only nobatch (unlock i)) by (intros; apply q_unlock; intros; reflexivity).
  unfold deliver.
  apply once_bindr; [exact I|intros r0].
  apply once_bindr; [apply q_inboxes_from_db with (dbok := fun _ => true); intros; reflexivity|intros found].
  apply once_bindr; [apply q_new_transport; intros; reflexivity|intros _].
  apply once_bind; [apply q_max_delivery_depth; intros; reflexivity|intros depth].
  apply once_bind; [apply q_resolve_actors; intros; reflexivity|intros actors].
  apply once_bindr; [exact I|intros remote].
  apply once_bindr; [apply L|intros _].
  apply once_bind; [apply q_db_iri with (dbok := fun _ => true); intros; reflexivity|intros x].
  apply once_bind; [apply U|intros _].
  apply once_bindr; [exact I|intros actor].
  apply once_bindr; [apply L|intros _].
  apply once_bind; [apply q_db_json with (dbok := fun _ => true); intros; reflexivity|intros y].
  apply once_bind; [apply U|intros _].
  apply once_bindr; [exact I|intros this_actor].
  apply once_bindr; [exact I|intros ignore].
  unfold deliver_to_recipients, new_transport, batch_deliver, call, bindr. cbn [bind once nobatch].
  intros x1. destruct x1; simpl; try (intros H; discriminate H).
  split; [reflexivity|]. intros x2. destruct x2; simpl; try (intros H; discriminate H). intros _. reflexivity.
Qed.

Theorem deliver_once outbox a tr r : runs (deliver outbox a) tr r ->
  length (batches tr) <= 1 /\ (is_ok r = true -> length (batches tr) = 1).
Proof.
  intros H. destruct (once_runs _ false tr r (once_deliver outbox a) H) as [H1 H2]. split; [lia|intros Hr; specialize (H2 Hr); lia].
Qed.

Theorem derefs_not_public g n ids v : In v (derefs g n ids) -> is_public v = false.
Proof. intros H. apply derefs_in in H. destruct H as [u [_ Hv]]. exact (visits_not_public g n u v Hv). Qed.

(* a visited id is the addressed id itself or a member listed by a dereferenced collection *)
Lemma visits_origin g n u v : Visits g n u v -> v = u \/ exists w ms, classify (g_deref g w) = RMore ms /\ In v ms.
Proof.
  induction 1 as [n u Hp|n u ms m v Hp Ec Hm Hv IH]; [left; reflexivity|right].
  destruct IH as [->|IH]; [exists u, ms; split; assumption|exact IH].
Qed.
