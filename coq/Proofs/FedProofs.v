(* C04: the default inbox side effects - who may be modified, what replaces what, and when the application's
   wrapped callback runs - for every environment. *)
From Coq Require Import String List Bool Arith.
From Verif Require Import Base.ListX Base.Json Base.Free Pub.Events Pub.Calls Pub.Value Pub.EffectSpec Pub.Util Pub.SideEffect Pub.Fed Pub.Monitors.
From Verif Require Import Proofs.ValueProofs Proofs.HiddenProofs Proofs.OnlyProofs Proofs.OrderProofs Proofs.EffectProofs.
Import ListNotations.
Open Scope string_scope.
Open Scope list_scope.

Local Opaque has_prop known_type admits T P.

(* ---- how a run of (m ;; f) splits ---- *)
Lemma runs_bind {A B} (m : prog A) (f : A -> prog B) : forall tr b, runs (bind m f) tr b ->
  exists tr1 tr2 a, tr = tr1 ++ tr2 /\ runs m tr1 a /\ runs (f a) tr2 b.
Proof.
  induction m as [a|e k IH]; intros tr b H; simpl in H.
  - exists [], tr, a. split; [reflexivity|]. split; [split; reflexivity|exact H].
  - destruct tr as [|[e' x] tr]; [destruct H|]. destruct H as [-> H].
    destruct (IH x tr b H) as [tr1 [tr2 [a [E [H1 H2]]]]]. exists ((e, x) :: tr1), tr2, a.
    split; [simpl; rewrite E; reflexivity|]. split; [simpl; split; [reflexivity|exact H1]|exact H2].
Qed.

(* the default callback for a type = its effect, then - only if the effect succeeded - the wrapped application callback *)
Section Factor.
  Variable cfg : config.
  Variable inbox : string.

  Definition effect_then_wrapped (name : string) (effect : prog (res unit)) (a : json) : prog (res unit) :=
    _ <-? effect ;; wrapped cfg name a.

  Theorem wrapped_after_effect name effect a tr r : runs (effect_then_wrapped name effect a) tr r ->
    exists tr1 tr2 r1, tr = tr1 ++ tr2 /\ runs effect tr1 r1 /\
      match r1 with
      | Ok _ => (tr2 = [] /\ r = Ok tt /\ mem name (c_fed_wrapped cfg) = false) \/
                (exists x, tr2 = [(EApp ("Wrapped:" ++ name) [canon a], x)] /\ mem name (c_fed_wrapped cfg) = true)
      | Err e => tr2 = [] /\ r = Err e
      | Panic p => tr2 = [] /\ r = Panic p
      end.
  Proof.
    intros H. unfold effect_then_wrapped, bindr in H. destruct (runs_bind _ _ _ _ H) as [tr1 [tr2 [r1 [E [H1 H2]]]]].
    exists tr1, tr2, r1. split; [exact E|]. split; [exact H1|].
    destruct r1 as [u|e|p]; simpl in H2.
    - unfold wrapped in H2. destruct (mem name (c_fed_wrapped cfg)).
      + right. unfold app_unit, app, call in H2. simpl in H2. destruct tr2 as [|[e' x] tr2]; [destruct H2|]. destruct H2 as [-> H2].
        exists x. destruct x; simpl in H2; destruct H2 as [-> _]; split; reflexivity.
      + left. simpl in H2. destruct H2 as [-> <-]. repeat split; reflexivity.
    - destruct H2 as [-> <-]. split; reflexivity.
    - destruct H2 as [-> <-]. split; reflexivity.
  Qed.

  (* the effect parts *)
  Definition create_effect (a : json) : prog (res unit) :=
    if object_required a then fail EObjectRequired else
    foreach (elems0 "object" a) (fun e => t <-? value_or_fetch inbox e ;; id <-? lift (get_id t) ;; with_lock_deferred id (db_unit "Create" [t])).
  Definition update_effect (a : json) : prog (res unit) :=
    if object_required a then fail EObjectRequired else
    _ <-? lift (must_origin_match a) ;;
    foreach (elems0 "object" a) (fun e => match e_type "object" e with
                                          | None => fail EGeneric
                                          | Some t => id <-? lift (get_id t) ;; with_lock_deferred id (db_unit "Update" [t]) end).
  Definition delete_effect (a : json) : prog (res unit) :=
    if object_required a then fail EObjectRequired else
    _ <-? lift (must_origin_match a) ;;
    foreach (elems0 "object" a) (fun e => id <-? lift (to_id "object" e) ;; with_lock_deferred id (db_unit "Delete" [JStr id])).
  Definition add_effect (a : json) : prog (res unit) :=
    if object_required a then fail EObjectRequired else if target_required a then fail ETargetRequired else add a.
  Definition remove_effect (a : json) : prog (res unit) :=
    if object_required a then fail EObjectRequired else if target_required a then fail ETargetRequired else remove a.
  Definition like_effect (a : json) : prog (res unit) :=
    if object_required a then fail EObjectRequired else
    id <-? lift (get_id a) ;; foreach (elems0 "object" a) (like_loop "likes" id).
  Definition announce_effect (a : json) : prog (res unit) :=
    id <-? lift (get_id a) ;; foreach (elems0 "object" a) (like_loop "shares" id).
  Definition undo_effect (a : json) : prog (res unit) :=
    if object_required a then fail EObjectRequired else must_actors_match inbox a.
  Definition block_effect (a : json) : prog (res unit) := if object_required a then fail EObjectRequired else ok tt.

  Theorem factor_create a : create cfg inbox a = effect_then_wrapped "Create" (create_effect a) a.
  Proof. unfold create, effect_then_wrapped, create_effect. destruct (object_required a); reflexivity. Qed.
  Theorem factor_update a : update cfg a = effect_then_wrapped "Update" (update_effect a) a.
  Proof. unfold update, effect_then_wrapped, update_effect. destruct (object_required a); [reflexivity|]. destruct (must_origin_match a); reflexivity. Qed.
  Theorem factor_delete a : delete cfg a = effect_then_wrapped "Delete" (delete_effect a) a.
  Proof. unfold delete, effect_then_wrapped, delete_effect. destruct (object_required a); [reflexivity|]. destruct (must_origin_match a); reflexivity. Qed.
  Theorem factor_add a : add_cb cfg a = effect_then_wrapped "Add" (add_effect a) a.
  Proof. unfold add_cb, effect_then_wrapped, add_effect. destruct (object_required a); [reflexivity|]. destruct (target_required a); reflexivity. Qed.
  Theorem factor_remove a : remove_cb cfg a = effect_then_wrapped "Remove" (remove_effect a) a.
  Proof. unfold remove_cb, effect_then_wrapped, remove_effect. destruct (object_required a); [reflexivity|]. destruct (target_required a); reflexivity. Qed.
  Theorem factor_like a : like cfg a = effect_then_wrapped "Like" (like_effect a) a.
  Proof. unfold like, effect_then_wrapped, like_effect. destruct (object_required a); [reflexivity|]. destruct (get_id a); reflexivity. Qed.
  Theorem factor_announce a : announce cfg a = effect_then_wrapped "Announce" (announce_effect a) a.
  Proof. unfold announce, effect_then_wrapped, announce_effect. destruct (get_id a); reflexivity. Qed.
  Theorem factor_undo a : undo cfg inbox a = effect_then_wrapped "Undo" (undo_effect a) a.
  Proof. unfold undo, effect_then_wrapped, undo_effect. destruct (object_required a); reflexivity. Qed.
  Theorem factor_block a : block cfg a = effect_then_wrapped "Block" (block_effect a) a.
  Proof. unfold block, effect_then_wrapped, block_effect. destruct (object_required a); reflexivity. Qed.
  Theorem factor_reject a : reject cfg a = effect_then_wrapped "Reject" (ok tt) a.
  Proof. reflexivity. Qed.
End Factor.

(* ---- Like / Announce: for EVERY environment an object is updated only after Owns answered true for it, and only to
        the value prepend_on gives for what Get returned; nothing is created, deleted or sent ---- *)
Section OwnWp.
  Variables cp id : string.
  Notation step := (own_step cp id).
  Lemma owp_bindr {A B} (m : prog (res A)) (f : A -> prog (res B)) s (Q : estate -> res B -> Prop) :
    wp step m s (fun s' r => match r with Ok a => wp step (f a) s' Q | Err e => Q s' (Err e) | Panic p => Q s' (Panic p) end) ->
    wp step (bindr m f) s Q.
  Proof. intros H. unfold bindr. apply wp_bind. eapply wp_mono; [|exact H]. intros s' [a|e|p] H'; exact H'. Qed.
  Lemma owp_lock i s (Q : estate -> res unit -> Prop) : (forall r, Q s r) -> wp step (lock i) s Q.
  Proof. intros H. unfold lock, call. cbn [bind wp own_step]. intros x. destruct x; apply H. Qed.
  Lemma owp_unlock i s (Q : estate -> unit -> Prop) : Q s tt -> wp step (unlock i) s Q.
  Proof. intros H. unfold unlock, call. cbn [bind wp own_step]. intros x. exact H. Qed.
  Lemma owp_owns t s (Q : estate -> res bool -> Prop) :
    (forall x, Q {| e_owns := match x with ABool b => Some b | _ => None end; e_got := None |} (match x with ABool b => Ok b | _ => Err EGeneric end)) ->
    wp step (db_bool "Owns" [JStr t]) s Q.
  Proof. intros H. unfold db_bool, db, call. cbn [bind wp map]. intros x. specialize (H x). destruct x; exact H. Qed.
  Lemma owp_get t s (Q : estate -> res json -> Prop) :
    (forall x, Q {| e_owns := e_owns s; e_got := match x with AJson j => Some j | _ => None end |} (match x with AJson j => Ok j | _ => Err EGeneric end)) ->
    wp step (db_json "Get" [JStr t]) s Q.
  Proof. intros H. unfold db_json, db, call. cbn [bind wp map]. intros x. specialize (H x). destruct x; exact H. Qed.
  Lemma owp_update v t s (Q : estate -> res unit -> Prop) :
    e_owns s = Some true -> e_got s = Some t -> prepend_on cp id t = Ok v ->
    (forall r, Q e0 r) -> wp step (db_unit "Update" [v]) s Q.
  Proof.
    intros Ho Hg He H. unfold db_unit, db, call. cbn [bind wp map]. intros x.
    change (own_step cp id s (EDb "Update" [canon v]) x) with
      (match e_owns s, e_got s with
       | Some true, Some t => match prepend_on cp id t with Ok want => if jeqb (canon v) (canon want) then Some e0 else None | _ => None end
       | _, _ => None end).
    rewrite Ho, Hg, He, jeqb_refl. destruct x; apply H.
  Qed.

  Theorem own_like_loop e s : wp step (like_loop cp id e) s (fun _ _ => True).
  Proof.
    unfold like_loop, with_lock_deferred.
    apply owp_bindr. unfold lift. cbn [wp]. destruct (to_id "object" e) as [obj_id|x|p]; try exact I.
    apply owp_bindr. apply owp_lock. intros [_|x|p]; try exact I.
    apply wp_bind. apply owp_bindr. apply owp_owns. intros x.
    destruct x; try (apply wp_bind; apply owp_unlock; exact I).
    destruct b; cbn [negb]; [|apply wp_bind; apply owp_unlock; exact I].
    apply owp_bindr. apply owp_get. intros y.
    destruct y; try (apply wp_bind; apply owp_unlock; exact I).
    apply owp_bindr. unfold lift. cbn [wp].
    destruct (prepend_on cp id j) as [t'|x|p] eqn:Ep; try (apply wp_bind; apply owp_unlock; exact I).
    apply (owp_update t' j); [reflexivity|reflexivity|exact Ep|].
    intros r. apply wp_bind. apply owp_unlock. exact I.
  Qed.

  Theorem own_foreach l : forall s, wp step (foreach l (like_loop cp id)) s (fun _ _ => True).
  Proof.
    induction l as [|e r IH]; intros s; [exact I|]. cbn [foreach].
    apply owp_bindr. eapply wp_mono; [|apply own_like_loop]. intros s' [u|x|p] _; [apply IH|exact I|exact I].
  Qed.
End OwnWp.

Theorem own_like_effect a id : get_id a = Ok id -> wp (own_step "likes" id) (like_effect a) e0 (fun _ _ => True).
Proof. intros Hi. unfold like_effect. destruct (object_required a); [exact I|]. rewrite Hi. apply owp_bindr. cbn [lift wp]. apply own_foreach. Qed.
Theorem own_announce_effect a id : get_id a = Ok id -> wp (own_step "shares" id) (announce_effect a) e0 (fun _ _ => True).
Proof. intros Hi. unfold announce_effect. rewrite Hi. apply owp_bindr. cbn [lift wp]. apply own_foreach. Qed.

(* what prepend_on does to the value: the activity id at the front of the collection held by the property *)
Theorem prepend_on_front cp id t m t' : t = JObj m -> prepend_on cp id t = Ok t' ->
  exists col p, (p = "items" \/ p = "orderedItems") /\
    jget cp t' = Some (prepend_iri p id col) /\ (forall k, k <> cp -> jget k t' = jget k t) /\
    (forall cm, col = JObj cm -> elems0 p (prepend_iri p id col) = JStr id :: elems0 p col \/ exists x, elems0 p col = [JArr x]).
Proof.
  intros -> H. unfold prepend_on in H. destruct (negb (vhas (JObj m) cp)); [discriminate|].
  set (col := match jget cp (JObj m) with
              | Some e => match e_type cp e with Some c => c | None => JObj [("type", JStr "Collection")] end
              | None => JObj [("type", JStr "Collection")] end) in *.
  assert (G : forall p cm, col = JObj cm -> elems0 p (prepend_iri p id col) = JStr id :: elems0 p col \/ exists x, elems0 p col = [JArr x]).
  { intros p cm ->. unfold prepend_iri, set_elems, elems0 at 1, elems. rewrite jget_jset_same.
    destruct (elems0 p (JObj cm)) as [|y l] eqn:E; [left; reflexivity|]. left. reflexivity. }
  destruct (vhas col "items").
  - assert (Et : t' = jset cp (prepend_iri "items" id col) (JObj m)) by congruence. clear H. subst t'. exists col, "items". split; [left; reflexivity|]. split; [apply jget_jset_same|].
    split; [intros k Hk; apply jget_jset_other; exact Hk|apply G].
  - destruct (vhas col "orderedItems"); [|discriminate].
    assert (Et : t' = jset cp (prepend_iri "orderedItems" id col) (JObj m)) by congruence. clear H. subst t'. exists col, "orderedItems".
    split; [right; reflexivity|]. split; [apply jget_jset_same|]. split; [intros k Hk; apply jget_jset_other; exact Hk|apply G].
Qed.

(* ---- an 'other' callback replaces the default effect entirely: nothing is created, updated, deleted, fetched or sent ---- *)
Definition quiet_inbox (e : ev) : bool :=
  match e with
  | EDb op _ => negb (String.eqb op "Create" || String.eqb op "Update" || String.eqb op "Delete" || String.eqb op "SetOutbox")
  | EBatchDeliver _ _ | EDeref _ | ENewTransport _ => false
  | _ => true
  end.
Definition quiet_inbox_db (op : string) : bool := negb (String.eqb op "Create" || String.eqb op "Update" || String.eqb op "Delete" || String.eqb op "SetOutbox").

Theorem other_replaces_default cfg inbox a : mem (type_name a) (c_fed_other cfg) = true -> only quiet_inbox (post_inbox cfg inbox a).
Proof.
  intros Hm. unfold post_inbox. rewrite Hm.
  apply quiet_bindr; [apply q_add_to_inbox_if_new with (dbok := quiet_inbox_db); try reflexivity; intros; try reflexivity; assumption|].
  intros is_new. destruct (negb is_new); [exact I|].
  apply quiet_bindr; [apply q_app_unit; reflexivity|]. intros _. apply q_app_unit. reflexivity.
Qed.

(* ---- Follow: when the application chose to do nothing, nothing is changed or sent; a Reject never touches followers ---- *)
Definition no_change_no_send (e : ev) : bool :=
  match e with
  | EDb op _ => negb (String.eqb op "Create" || String.eqb op "Update" || String.eqb op "Delete" || String.eqb op "SetOutbox" || String.eqb op "NewID")
  | EBatchDeliver _ _ | EDeref _ | ENewTransport _ => false
  | _ => true
  end.
Definition ncns_db (op : string) : bool := negb (String.eqb op "Create" || String.eqb op "Update" || String.eqb op "Delete" || String.eqb op "SetOutbox" || String.eqb op "NewID").

Theorem follow_do_nothing cfg inbox a : c_on_follow cfg = 0 -> only no_change_no_send (follow cfg inbox a).
Proof.
  intros H0. unfold follow. rewrite H0. destruct (object_required a); [exact I|].
  apply quiet_bindr; [apply q_lock; reflexivity|]. intros _.
  apply quiet_bind; [apply q_db_iri with (dbok := ncns_db); try reflexivity; intros; assumption|]. intros x.
  apply quiet_bind; [apply q_unlock; reflexivity|]. intros _.
  apply quiet_bindr; [exact I|]. intros actor. cbn [Nat.eqb lift bindr bind negb ok].
  apply q_wrapped. reflexivity.
Qed.

Definition no_update (e : ev) : bool := match e with EDb op _ => negb (String.eqb op "Update" || String.eqb op "Delete") | _ => true end.
Definition no_update_db (op : string) : bool := negb (String.eqb op "Update" || String.eqb op "Delete").

Theorem follow_reject_leaves_followers cfg inbox a : c_on_follow cfg = 2 -> only no_update (follow cfg inbox a).
Proof.
  intros H2. unfold follow. rewrite H2. cbn [Nat.eqb orb negb].
  destruct (object_required a); [exact I|].
  apply quiet_bindr; [apply q_lock; reflexivity|]. intros _.
  apply quiet_bind; [apply q_db_iri with (dbok := no_update_db); try reflexivity; intros; assumption|]. intros x.
  apply quiet_bind; [apply q_unlock; reflexivity|]. intros _.
  apply quiet_bindr; [exact I|]. intros actor.
  apply quiet_bindr; [exact I|]. intros is_me.
  apply quiet_bindr; [|intros _; apply q_wrapped; reflexivity].
  destruct (negb is_me); [exact I|]. destruct (elems "actor" a); [|exact I].
  apply quiet_bindr; [exact I|]. intros recipients.
  apply quiet_bindr; [exact I|]. intros _.
  apply quiet_bindr; [apply q_lock; reflexivity|]. intros _.
  apply quiet_bind; [apply q_db_iri with (dbok := no_update_db); try reflexivity; intros; assumption|]. intros ob.
  apply quiet_bind; [apply q_unlock; reflexivity|]. intros _.
  apply quiet_bindr; [exact I|]. intros outbox.
  apply quiet_bindr; [apply q_add_new_ids with (dbok := no_update_db); try reflexivity; intros; assumption|]. intros r'.
  apply quiet_bindr; [apply q_deliver with (dbok := no_update_db); try reflexivity; intros; try reflexivity; assumption|]. intros _. exact I.
Qed.
