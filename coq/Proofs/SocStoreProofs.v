(* C16, the programs: what the client-side default callbacks (Pub/Soc.v) STORE when they succeed - for EVERY
   environment, as a function of what the environment answered to Get / Liked / ActorForOutbox / Now; and, as corollaries,
   against the environment of any world (stored : id -> value).
   S env m (Proofs/StoreProofs.v) = the Create / Update / Delete / SetInbox / SetOutbox / BatchDeliver events of the run of m. *)
From Coq Require Import String List Bool Arith ZArith Lia.
From Verif Require Import Base.ListX Base.Json Base.Free Base.Time Pub.Events Pub.Calls Pub.Value Pub.EffectSpec Pub.Util Pub.SideEffect Pub.Fed Pub.Soc.
From Verif Require Import Proofs.ValueProofs Proofs.OnlyProofs Proofs.DeliveryProofs Proofs.ForwardIffProofs Proofs.TargetProofs Proofs.StoreProofs Proofs.FollowProofs.
Import ListNotations.
Open Scope string_scope.
Open Scope list_scope.
Open Scope prog_scope.

Local Opaque has_prop known_type admits T P is_or_extends.

(* ---- lists ---- *)
Lemma to_ids_length p : forall l ids, to_ids p l = Ok ids -> length ids = length l.
Proof.
  induction l as [|e r IH]; intros ids; cbn [to_ids]; [intros H; injection H as <-; reflexivity|].
  destruct (to_id p e) as [i|x|s]; [|intros H; discriminate H|intros H; discriminate H].
  destruct (to_ids p r) as [is|x|s]; [|intros H; discriminate H|intros H; discriminate H].
  intros H. injection H as <-. cbn [length]. rewrite (IH is eq_refl). reflexivity.
Qed.
Lemma ids_of_length p a ids : ids_of p a = Ok ids -> length ids = length (elems0 p a).
Proof.
  unfold ids_of, elems0. destruct (elems p a) as [l|]; [apply to_ids_length|]. intros H. injection H as <-. reflexivity.
Qed.

(* ---- the Tombstone: what C16_delete does not say yet ---- *)
Definition tombstone_keys : list string := ["type"; "id"; "formerType"; "published"; "updated"; "deleted"].
Lemma tombstone_obj obj id now_ : exists m, to_tombstone obj id now_ = JObj m.
Proof.
  unfold to_tombstone.
  destruct (vhas obj "published"); [destruct (jget "published" obj)|]; (destruct (vhas obj "updated"); [destruct (jget "updated" obj)|]);
    cbn [jset]; eexists; reflexivity.
Qed.
(* nothing else of the deleted value survives: no content, no addressing, no attributedTo ... *)
Lemma tombstone_no_other_member obj id now_ k : ~ In k tombstone_keys -> jget k (to_tombstone obj id now_) = None.
Proof.
  intros Hk. unfold tombstone_keys in Hk. cbn [In] in Hk.
  assert (H1 : k <> "type") by (intros E; apply Hk; left; symmetry; exact E).
  assert (H2 : k <> "id") by (intros E; apply Hk; right; left; symmetry; exact E).
  assert (H3 : k <> "formerType") by (intros E; apply Hk; right; right; left; symmetry; exact E).
  assert (H4 : k <> "published") by (intros E; apply Hk; right; right; right; left; symmetry; exact E).
  assert (H5 : k <> "updated") by (intros E; apply Hk; right; right; right; right; left; symmetry; exact E).
  assert (H6 : k <> "deleted") by (intros E; apply Hk; right; right; right; right; right; left; symmetry; exact E).
  unfold to_tombstone. rewrite (jget_jset_other k "deleted" _ _ H6).
  assert (B : jget k (JObj [("type", JStr "Tombstone"); ("id", JStr id); ("formerType", JStr (type_name obj))]) = None).
  { unfold jget. cbn [jfields assoc]. apply String.eqb_neq in H1, H2, H3. rewrite H1, H2, H3. reflexivity. }
  destruct (vhas obj "updated"); [destruct (jget "updated" obj); [rewrite (jget_jset_other k "updated" _ _ H5)|]|];
    (destruct (vhas obj "published"); [destruct (jget "published" obj); [rewrite (jget_jset_other k "published" _ _ H4)|]|]); exact B.
Qed.
Lemma tombstone_type_name obj id now_ : type_name (to_tombstone obj id now_) = "Tombstone".
Proof.
  unfold to_tombstone. rewrite type_name_jset by (intros H; discriminate H).
  destruct (vhas obj "updated"); [destruct (jget "updated" obj); [rewrite type_name_jset by (intros H; discriminate H)|]|];
    (destruct (vhas obj "published"); [destruct (jget "published" obj); [rewrite type_name_jset by (intros H; discriminate H)|]|]); reflexivity.
Qed.
Lemma tombstone_get_id obj id now_ : has_scheme id = true -> get_id (to_tombstone obj id now_) = Ok id.
Proof.
  intros Hs. unfold get_id.
  assert (B : jget "id" (to_tombstone obj id now_) = Some (JStr id)).
  { unfold to_tombstone. rewrite jget_jset_other by (intros H; discriminate H).
    destruct (vhas obj "updated"); [destruct (jget "updated" obj); [rewrite jget_jset_other by (intros H; discriminate H)|]|];
      (destruct (vhas obj "published"); [destruct (jget "published" obj); [rewrite jget_jset_other by (intros H; discriminate H)|]|]); reflexivity. }
  rewrite B, Hs. reflexivity.
Qed.

(* ================= every environment ================= *)
Section Any.
  Variable env : ev -> ans.

  (* what the environment answers to Get for an id (JNull when it answers no value - then the programs below fail) *)
  Definition got (i : string) : json := match env (EDb "Get" [JStr i]) with AJson j => j | _ => JNull end.
  (* the clock reading: the model reads 0 when Now answers no time *)
  Definition clock : Z := match env ENow with AZ z => z | _ => 0%Z end.

  Lemma S_swrapped cfg name a : S env (swrapped cfg name a) = [].
  Proof. unfold swrapped. destruct (mem name (c_soc_wrapped cfg)); [apply S_app_unit|reflexivity]. Qed.
  Lemma S_now : S env now = [].
  Proof. unfold now. rewrite S_bind, S_call. reflexivity. Qed.
  Lemma res_now : res_env env now = clock.
  Proof. unfold now. rewrite res_env_bind, res_call. reflexivity. Qed.

  Lemma foreach_stores_gen {X V} (f : X -> prog (res unit)) (R : X -> V -> Prop) (g : V -> ev) :
    (forall e, res_env env (f e) = Ok tt -> exists v, R e v /\ S env (f e) = [g v]) ->
    forall l, res_env env (foreach l f) = Ok tt -> exists vs, Forall2 R l vs /\ S env (foreach l f) = map g vs.
  Proof.
    intros Hf. induction l as [|e r IH]; cbn [foreach].
    - intros _. exists []. split; [constructor|reflexivity].
    - rewrite res_env_bindr, S_bindr. destruct (res_env env (f e)) as [u|x|p] eqn:Ee; [|intros H; discriminate H|intros H; discriminate H].
      destruct u. intros Hr. destruct (Hf e Ee) as [v [Hv Hs]]. destruct (IH Hr) as [vs [Hvs Hss]].
      exists (v :: vs). split; [constructor; assumption|]. rewrite Hs, Hss. reflexivity.
  Qed.

  (* ---- (U) Update ---- *)
  (* what is written for the object at index k: the supplied value laid over what Get answered for its id, minus the members
     given as null in the raw object at the same index (fix F10), decoded again *)
  Definition update_written (stored : string -> json) (raw : json) (p : nat * (json * string)) (new_t : json) : Prop :=
    exists supplied, e_type "object" (fst (snd p)) = Some supplied
                     /\ update_spec (stored (snd (snd p))) supplied (raw_object_at raw (fst p)) = Ok new_t.

  Lemma update_step raw idx e id :
    res_env env (with_lock_deferred id (
                   t <-? db_json "Get" [JStr id] ;;
                   match e_type "object" e with
                   | None => fail EGeneric
                   | Some supplied => new_t <-? lift (update_spec t supplied (raw_object_at raw idx)) ;; db_unit "Update" [new_t]
                   end)) = Ok tt ->
    exists new_t, env (EDb "Get" [JStr id]) = AJson (got id) /\ update_written got raw (idx, (e, id)) new_t
      /\ S env (with_lock_deferred id (
                   t <-? db_json "Get" [JStr id] ;;
                   match e_type "object" e with
                   | None => fail EGeneric
                   | Some supplied => new_t <-? lift (update_spec t supplied (raw_object_at raw idx)) ;; db_unit "Update" [new_t]
                   end)) = [EDb "Update" [canon new_t]].
  Proof.
    intros H. apply with_lock_ok in H. destruct H as [H Hs]. rewrite Hs. clear Hs. revert H.
    rewrite res_env_bindr, S_bindr, res_db_json, (S_db_json env "Get" [JStr id] eq_refl). cbn [app map canon].
    unfold update_written, got. cbn [fst snd].
    destruct (env (EDb "Get" [JStr id])) as [| |b|i| |t|l|n|s|z|]; cbn [json_ans]; try (intros H; discriminate H).
    destruct (e_type "object" e) as [supplied|]; [|intros H; discriminate H].
    rewrite res_env_bindr, S_bindr, res_env_lift, S_lift. cbn [app].
    destruct (update_spec t supplied (raw_object_at raw idx)) as [new_t|x|p] eqn:Eu; [|intros H; discriminate H|intros H; discriminate H].
    intros _. exists new_t. split; [reflexivity|]. split; [exists supplied; split; [reflexivity|exact Eu]|].
    apply (S_db_unit env "Update" [new_t]). reflexivity.
  Qed.

  Lemma update_loop_stores raw : forall l ids idx, length ids = length l ->
    res_env env (update_loop raw idx l ids) = Ok tt ->
    exists news, Forall (fun id => env (EDb "Get" [JStr id]) = AJson (got id)) ids
      /\ Forall2 (update_written got raw) (combine (seq idx (length l)) (combine l ids)) news
      /\ S env (update_loop raw idx l ids) = map (fun t => EDb "Update" [canon t]) news.
  Proof.
    induction l as [|e r IH]; intros ids idx Hl.
    - destruct ids as [|id ids']; [|discriminate Hl]. intros _. exists []. split; [constructor|]. split; [constructor|reflexivity].
    - destruct ids as [|id ids']; [discriminate Hl|]. cbn [length] in Hl. injection Hl as Hl.
      cbn [update_loop]. rewrite res_env_bindr, S_bindr.
      match goal with |- context [res_env env (with_lock_deferred id ?b)] => set (body := with_lock_deferred id b) end.
      destruct (res_env env body) as [u|x|p] eqn:Eb; [|intros H; discriminate H|intros H; discriminate H].
      destruct u. intros Hr. destruct (update_step raw idx e id Eb) as [new_t [Hg [Hw Hs]]].
      destruct (IH ids' (Datatypes.S idx) Hl Hr) as [news [Hgs [Hws Hss]]].
      exists (new_t :: news). split; [constructor; assumption|]. split.
      + cbn [length seq combine]. constructor; assumption.
      + unfold body. rewrite Hs, Hss. reflexivity.
  Qed.

  Theorem update_stores_any cfg raw a : res_env env (update cfg raw a) = Ok tt ->
    exists ids news,
      ids_of "object" a = Ok ids /\ length ids = length (elems0 "object" a)
      /\ Forall (fun id => env (EDb "Get" [JStr id]) = AJson (got id)) ids
      /\ Forall2 (update_written got raw) (combine (seq 0 (length (elems0 "object" a))) (combine (elems0 "object" a) ids)) news
      /\ S env (update cfg raw a) = map (fun t => EDb "Update" [canon t]) news.
  Proof.
    unfold update. destruct (object_required a); [intros H; discriminate H|].
    rewrite res_env_bindr, S_bindr, res_env_lift, S_lift. cbn [app].
    destruct (ids_of "object" a) as [ids|x|p] eqn:Ei; [|intros H; discriminate H|intros H; discriminate H].
    pose proof (ids_of_length _ _ _ Ei) as Hl.
    rewrite res_env_bindr, S_bindr.
    destruct (res_env env (update_loop raw 0 (elems0 "object" a) ids)) as [u|x|p] eqn:El; [|intros H; discriminate H|intros H; discriminate H].
    destruct u. intros _. destruct (update_loop_stores raw _ _ 0 Hl El) as [news [Hg [Hw Hs]]].
    exists ids, news. split; [reflexivity|]. split; [exact Hl|]. split; [exact Hg|]. split; [exact Hw|].
    rewrite Hs, S_swrapped, app_nil_r. reflexivity.
  Qed.

  (* ---- (D) Delete ---- *)
  Theorem delete_stores_any cfg a : res_env env (delete cfg a) = Ok tt ->
    exists ids,
      ids_of "object" a = Ok ids
      /\ Forall (fun id => env (EDb "Get" [JStr id]) = AJson (got id)) ids
      /\ S env (delete cfg a) = map (fun id => EDb "Update" [canon (to_tombstone (got id) id (rfc3339_utc clock))]) ids.
  Proof.
    unfold delete. destruct (object_required a); [intros H; discriminate H|].
    rewrite res_env_bindr, S_bindr, res_env_lift, S_lift. cbn [app].
    destruct (ids_of "object" a) as [ids|x|p]; [|intros H; discriminate H|intros H; discriminate H].
    rewrite res_env_bindr, S_bindr.
    match goal with |- context [foreach ids ?f] => set (body := f) end.
    destruct (res_env env (foreach ids body)) as [u|x|p] eqn:El; [|intros H; discriminate H|intros H; discriminate H].
    destruct u. intros _.
    assert (Hb : forall id, res_env env (body id) = Ok tt ->
                   exists v : string, (v = id /\ env (EDb "Get" [JStr id]) = AJson (got id))
                     /\ S env (body id) = [EDb "Update" [canon (to_tombstone (got v) v (rfc3339_utc clock))]]).
    { intros id. unfold body. intros H. apply with_lock_ok in H. destruct H as [H Hs]. rewrite Hs. clear Hs. revert H.
      rewrite res_env_bindr, S_bindr, res_db_json, (S_db_json env "Get" [JStr id] eq_refl). cbn [app map canon].
      destruct (env (EDb "Get" [JStr id])) as [| |b|i| |t|l|n|s|z|] eqn:Eg; cbn [json_ans]; try (intros H; discriminate H).
      rewrite res_env_bind, S_bind, S_now, res_now. cbn [app]. intros _. exists id. unfold got. rewrite Eg. split; [split; reflexivity|].
      apply (S_db_unit env "Update" [to_tombstone t id (rfc3339_utc clock)]). reflexivity. }
    destruct (foreach_stores_gen body _ _ Hb ids El) as [vs [Hv Hs]].
    assert (Hvs : vs = ids /\ Forall (fun id => env (EDb "Get" [JStr id]) = AJson (got id)) ids).
    { clear Hs El. induction Hv as [|id v ids' vs' [Hv1 Hv2] Hr IH]; [split; [reflexivity|constructor]|].
      destruct IH as [-> IH2]. subst v. split; [reflexivity|constructor; assumption]. }
    destruct Hvs as [-> Hg]. exists ids. split; [reflexivity|]. split; [exact Hg|].
    rewrite Hs, S_swrapped, app_nil_r. reflexivity.
  Qed.

  (* ---- (B) Block: nothing stored, nothing sent, and the side effect tells the caller not to deliver ---- *)
  Theorem block_stores_nothing cfg a : S env (block cfg a) = [].
  Proof. unfold block. destruct (object_required a); [reflexivity|apply S_swrapped]. Qed.

  Theorem block_not_deliverable cfg outbox raw perm a r :
    c_social cfg = true -> mem "Block" (c_soc_other cfg) = false -> type_name a = "Block" ->
    res_env env (soc_callbacks cfg outbox raw perm a) = Ok r ->
    r = (a, false) /\ S env (soc_callbacks cfg outbox raw perm a) = [].
  Proof.
    intros Hs Hn Ht. unfold soc_callbacks. rewrite Hs. cbn zeta. rewrite Ht, Hn.
    change (String.eqb "Block" "Create") with false. change (String.eqb "Block" "Update") with false.
    change (String.eqb "Block" "Delete") with false. change (String.eqb "Block" "Follow") with false.
    change (String.eqb "Block" "Add") with false. change (String.eqb "Block" "Remove") with false.
    change (String.eqb "Block" "Like") with false. change (String.eqb "Block" "Undo") with false.
    change (String.eqb "Block" "Block") with true. cbn iota.
    rewrite res_env_bindr, S_bindr, S_app_unit. cbn [app].
    destruct (res_env env (app_unit "SocialCallbacks" [])) as [u|x|p]; [|intros H; discriminate H|intros H; discriminate H].
    rewrite res_env_bindr, S_bindr, block_stores_nothing. cbn [app].
    destruct (res_env env (block cfg a)) as [u'|x|p]; [|intros H; discriminate H|intros H; discriminate H].
    rewrite res_env_ok. intros H. injection H as <-. split; reflexivity.
  Qed.

  (* ---- (L) Like: the complete run ---- *)
  Lemma evs_call e : evs_env env (call e) = [e].
  Proof. reflexivity. Qed.
  Lemma evs_lock i : evs_env env (lock i) = [ELock i].
  Proof. unfold lock. rewrite evs_env_bind, evs_call, res_call. destruct (env (ELock i)); reflexivity. Qed.
  Lemma evs_unlock_k {A} i (k : prog A) : evs_env env (unlock i ;;; k) = EUnlock i :: evs_env env k.
  Proof. rewrite evs_env_bind. reflexivity. Qed.
  Lemma evs_db_iri op args : evs_env env (db_iri op args) = [EDb op (map canon args)].
  Proof. unfold db_iri, db. rewrite evs_env_bind, evs_call, res_call. destruct (env (EDb op (map canon args))); reflexivity. Qed.
  Lemma evs_db_json op args : evs_env env (db_json op args) = [EDb op (map canon args)].
  Proof. unfold db_json, db. rewrite evs_env_bind, evs_call, res_call. destruct (env (EDb op (map canon args))); reflexivity. Qed.
  Lemma evs_db_unit op args : evs_env env (db_unit op args) = [EDb op (map canon args)].
  Proof. unfold db_unit, db. rewrite evs_env_bind, evs_call, res_call. destruct (env (EDb op (map canon args))); reflexivity. Qed.
  Lemma evs_swrapped cfg name a :
    evs_env env (swrapped cfg name a) = if mem name (c_soc_wrapped cfg) then [EApp ("Wrapped:" ++ name)%string [canon a]] else [].
  Proof.
    unfold swrapped. destruct (mem name (c_soc_wrapped cfg)); [|reflexivity].
    unfold app_unit, app. rewrite evs_env_bind, evs_call, res_call. cbn [map]. destruct (env (EApp ("Wrapped:" ++ name)%string [canon a])); reflexivity.
  Qed.
  Lemma with_lock_trace {A} i (body : prog (res A)) x : res_env env (with_lock_deferred i body) = Ok x ->
    res_env env body = Ok x /\ evs_env env (with_lock_deferred i body) = ELock i :: evs_env env body ++ [EUnlock i].
  Proof.
    unfold with_lock_deferred. rewrite res_env_bindr, evs_env_bindr, evs_lock.
    destruct (res_env env (lock i)) as [u|e|p]; [|intros H; discriminate H|intros H; discriminate H].
    rewrite res_env_bind, evs_env_bind, res_unlock_k, evs_unlock_k.
    change (res_env env (ret (res_env env body))) with (res_env env body).
    intros H. split; [exact H|reflexivity].
  Qed.

  Definition is_lock (e : ev) : bool := match e with ELock _ => true | _ => false end.

  Theorem like_trace cfg outbox a : res_env env (like cfg outbox a) = Ok tt ->
    exists actor liked ids,
      env (EDb "ActorForOutbox" [JStr outbox]) = AIri actor
      /\ env (EDb "Liked" [JStr actor]) = AJson liked
      /\ to_ids "object" (elems0 "object" a) = Ok ids
      /\ evs_env env (like cfg outbox a) =
           [ELock outbox; EDb "ActorForOutbox" [JStr outbox]; EUnlock outbox;
            ELock actor; EDb "Liked" [JStr actor]; EDb "Update" [canon (like_spec ids liked)]]
           ++ (if mem "Like" (c_soc_wrapped cfg) then [EApp "Wrapped:Like" [canon a]] else [])
           ++ [EUnlock actor].
  Proof.
    unfold like. destruct (object_required a); [intros H; discriminate H|].
    rewrite res_env_bindr, evs_env_bindr, evs_lock.
    destruct (res_env env (lock outbox)) as [u|e|p]; [|intros H; discriminate H|intros H; discriminate H].
    rewrite res_env_bind, evs_env_bind, res_db_iri, evs_db_iri. cbn [map canon]. rewrite res_unlock_k, evs_unlock_k.
    destruct (env (EDb "ActorForOutbox" [JStr outbox])) as [| |b|actor| |j|l|n|s|z|] eqn:Ea; cbn [iri_ans];
      rewrite res_env_bindr, evs_env_bindr, res_env_lift; try (intros H; discriminate H).
    intros H. apply with_lock_trace in H. destruct H as [H Ht]. rewrite Ht. clear Ht. revert H.
    rewrite res_env_bindr, evs_env_bindr, res_db_json, evs_db_json. cbn [map canon].
    destruct (env (EDb "Liked" [JStr actor])) as [| |b|i| |liked|l|n|s|z|] eqn:Eli; cbn [json_ans]; try (intros H; discriminate H).
    rewrite res_env_bindr, evs_env_bindr, res_env_lift.
    destruct (to_ids "object" (elems0 "object" a)) as [ids|x|p] eqn:Ei; [|intros H; discriminate H|intros H; discriminate H].
    rewrite res_env_bindr, evs_env_bindr, evs_db_unit, evs_swrapped. cbn [map].
    destruct (res_env env (db_unit "Update" [like_spec ids liked])) as [u1|x|p]; [|intros H; discriminate H|intros H; discriminate H].
    intros _. exists actor, liked, ids. split; [reflexivity|]. split; [exact Eli|]. split; [reflexivity|].
    change (evs_env env (lift (Ok actor))) with (@nil ev). change (evs_env env (lift (Ok ids))) with (@nil ev).
    cbn [app]. rewrite <- !app_assoc. reflexivity.
  Qed.

  (* the liked collection of the outbox's actor is read once and rewritten once, with every object id put in front (like_spec);
     nothing else is stored; the locks taken are the outbox's (to read its actor) and then the actor's (around Liked / Update) *)
  Corollary like_stores_any cfg outbox a : res_env env (like cfg outbox a) = Ok tt ->
    exists actor liked ids,
      env (EDb "ActorForOutbox" [JStr outbox]) = AIri actor
      /\ env (EDb "Liked" [JStr actor]) = AJson liked
      /\ to_ids "object" (elems0 "object" a) = Ok ids
      /\ S env (like cfg outbox a) = [EDb "Update" [canon (like_spec ids liked)]]
      /\ filter is_lock (evs_env env (like cfg outbox a)) = [ELock outbox; ELock actor].
  Proof.
    intros H. destruct (like_trace cfg outbox a H) as [actor [liked [ids [Ha [Hl [Hi Ht]]]]]].
    exists actor, liked, ids. split; [exact Ha|]. split; [exact Hl|]. split; [exact Hi|].
    unfold S. rewrite Ht. destruct (mem "Like" (c_soc_wrapped cfg)); split; reflexivity.
  Qed.

  (* ---- (A/R) the client Add / Remove are the shared add / remove: their stores are their Updates ---- *)
  Definition update_or_quiet (e : ev) : bool := is_update e || negb (is_store e).
  Lemma stores_are_updates tr : forallb update_or_quiet tr = true -> stores tr = updates tr.
  Proof.
    unfold stores, updates. induction tr as [|e r IH]; cbn [forallb filter]; intros H; [reflexivity|].
    apply andb_true_iff in H. destruct H as [H1 H2]. rewrite (IH H2). unfold update_or_quiet in H1.
    destruct (is_update e) eqn:Eu.
    - rewrite (update_is_store e Eu). reflexivity.
    - cbn [orb] in H1. apply negb_true_iff in H1. rewrite H1. reflexivity.
  Qed.
  Lemma only_add_updates a : only update_or_quiet (add a).
  Proof.
    apply (q_add update_or_quiet) with (dbok := fun op => String.eqb op "Update" || db_quiet op); try (intros; reflexivity).
    intros op args H. exact H.
  Qed.
  Lemma only_remove_updates a : only update_or_quiet (remove a).
  Proof.
    apply (q_remove update_or_quiet) with (dbok := fun op => String.eqb op "Update" || db_quiet op); try (intros; reflexivity).
    intros op args H. exact H.
  Qed.
  Lemma S_add a : S env (add a) = updates (evs_env env (add a)).
  Proof. apply stores_are_updates. apply only_evs. apply only_add_updates. Qed.
  Lemma S_remove a : S env (remove a) = updates (evs_env env (remove a)).
  Proof. apply stores_are_updates. apply only_evs. apply only_remove_updates. Qed.
  Lemma add_cb_stores cfg a u : res_env env (add_cb cfg a) = Ok u ->
    res_env env (add a) = Ok tt /\ S env (add_cb cfg a) = updates (evs_env env (add a)).
  Proof.
    unfold add_cb. destruct (object_required a); [intros H; discriminate H|]. destruct (target_required a); [intros H; discriminate H|].
    rewrite res_env_bindr, S_bindr, S_add. destruct (res_env env (add a)) as [u0|x|p]; [|intros H; discriminate H|intros H; discriminate H].
    destruct u0. intros _. rewrite S_swrapped, app_nil_r. split; reflexivity.
  Qed.
  Lemma remove_cb_stores cfg a u : res_env env (remove_cb cfg a) = Ok u ->
    res_env env (remove a) = Ok tt /\ S env (remove_cb cfg a) = updates (evs_env env (remove a)).
  Proof.
    unfold remove_cb. destruct (object_required a); [intros H; discriminate H|]. destruct (target_required a); [intros H; discriminate H|].
    rewrite res_env_bindr, S_bindr, S_remove. destruct (res_env env (remove a)) as [u0|x|p]; [|intros H; discriminate H|intros H; discriminate H].
    destruct u0. intros _. rewrite S_swrapped, app_nil_r. split; reflexivity.
  Qed.
End Any.

(* ================= the environment of any world ================= *)
Section World.
  Variable stored : string -> json.
  Variable env : ev -> ans.
  Hypothesis env_get : forall i, env (EDb "Get" [JStr i]) = AJson (stored i).

  Lemma got_stored i : got env i = stored i.
  Proof. unfold got. rewrite env_get. reflexivity. Qed.

  (* (U) one Update per object, in order: update_spec of what is stored under the object's id, the object as posted, and the
     raw object at the same index; nothing else is stored *)
  Theorem update_stores_world cfg raw a : res_env env (update cfg raw a) = Ok tt ->
    exists ids news,
      ids_of "object" a = Ok ids /\ length ids = length (elems0 "object" a)
      /\ Forall2 (update_written stored raw) (combine (seq 0 (length (elems0 "object" a))) (combine (elems0 "object" a) ids)) news
      /\ S env (update cfg raw a) = map (fun t => EDb "Update" [canon t]) news.
  Proof.
    intros H. destruct (update_stores_any env cfg raw a H) as [ids [news [Hi [Hl [_ [Hw Hs]]]]]].
    exists ids, news. split; [exact Hi|]. split; [exact Hl|]. split; [|exact Hs].
    refine (Forall2_impl _ _ _ _ _ Hw). intros p t [supplied [H1 H2]]. exists supplied. split; [exact H1|].
    rewrite <- got_stored. exact H2.
  Qed.

  (* (D) one Update per named object, in order: the Tombstone of what is stored, deleted at the clock's reading *)
  Theorem delete_stores_world cfg a z : env ENow = AZ z -> res_env env (delete cfg a) = Ok tt ->
    exists ids, ids_of "object" a = Ok ids
      /\ S env (delete cfg a) = map (fun id => EDb "Update" [canon (to_tombstone (stored id) id (rfc3339_utc z))]) ids.
  Proof.
    intros Hz H. destruct (delete_stores_any env cfg a H) as [ids [Hi [_ Hs]]].
    exists ids. split; [exact Hi|]. rewrite Hs. apply map_ext. intros id. rewrite got_stored. unfold clock. rewrite Hz. reflexivity.
  Qed.

  (* (A/R) with ownership: the stores of the client Add / Remove are exactly the Updates of the owned targets (TargetProofs) *)
  Variable owns : string -> bool.
  Hypothesis env_lock : forall i, env (ELock i) = AOk.
  Hypothesis env_owns : forall i, env (EDb "Owns" [JStr i]) = ABool (owns i).
  Hypothesis env_update : forall x, env (EDb "Update" [x]) = AOk.

  Theorem add_cb_stores_world cfg a ops ts : ids_of "object" a = Ok ops -> ids_of "target" a = Ok ts ->
    res_env env (add_cb cfg a) = Ok tt ->
    S env (add_cb cfg a) = flat_map (fun t => if owns t then match collection_prop (stored t) with
                                                             | Ok cp => [EDb "Update" [canon (add_spec cp ops (stored t))]]
                                                             | _ => [] end else []) ts.
  Proof.
    intros Ho Ht H. destruct (add_cb_stores env cfg a tt H) as [Ha Hs]. rewrite Hs.
    exact (proj1 (add_updates_owned owns stored env env_lock env_owns env_get env_update a ops ts Ho Ht Ha)).
  Qed.
  Theorem remove_cb_stores_world cfg a ops ts : ids_of "object" a = Ok ops -> ids_of "target" a = Ok ts ->
    res_env env (remove_cb cfg a) = Ok tt ->
    S env (remove_cb cfg a) = flat_map (fun t => if owns t then match collection_prop (stored t) with
                                                                | Ok cp => match remove_spec cp ops (stored t) with Ok tp' => [EDb "Update" [canon tp']] | _ => [] end
                                                                | _ => [] end else []) ts.
  Proof.
    intros Ho Ht H. destruct (remove_cb_stores env cfg a tt H) as [Ha Hs]. rewrite Hs.
    exact (remove_updates_owned owns stored env env_lock env_owns env_get env_update a ops ts Ho Ht Ha).
  Qed.
End World.

(* ================= the hypotheses are satisfiable ================= *)
Definition sx_note_id := "https://h.example/notes/1".
Definition sx_alice := "https://h.example/alice".
Definition sx_outbox := "https://h.example/alice/outbox".
Definition sx_stored_note : json :=
  JObj [("@context", JStr "https://www.w3.org/ns/activitystreams"); ("type", JStr "Note"); ("id", JStr sx_note_id);
        ("summary", JStr "a summary"); ("content", JStr "old text")].
Definition sx_liked : json :=
  JObj [("type", JStr "Collection"); ("id", JStr "https://h.example/alice/liked"); ("items", JStr "https://x.example/earlier")].
Definition sx_env (e : ev) : ans :=
  match e with
  | EDb op _ =>
      if String.eqb op "Get" then AJson sx_stored_note
      else if String.eqb op "ActorForOutbox" then AIri sx_alice
      else if String.eqb op "Liked" then AJson sx_liked
      else AOk
  | ENow => AZ 1000
  | _ => AOk
  end.
Definition sx_cfg : config :=
  {| c_social := true; c_federating := true; c_on_follow := 0; c_fed_wrapped := []; c_fed_other := [];
     c_soc_wrapped := ["Like"]; c_soc_other := [] |}.
Lemma sx_env_get : forall i, sx_env (EDb "Get" [JStr i]) = AJson ((fun _ => sx_stored_note) i).
Proof. reflexivity. Qed.

(* an Update giving a new content and "summary": null (the decoded activity has lost the null; the raw JSON has it) *)
Definition sx_update : json :=
  JObj [("id", JStr "https://h.example/activities/1"); ("type", JStr "Update"); ("actor", JStr sx_alice);
        ("object", JObj [("type", JStr "Note"); ("id", JStr sx_note_id); ("content", JStr "new text")])].
Definition sx_update_raw : json :=
  JObj [("id", JStr "https://h.example/activities/1"); ("type", JStr "Update"); ("actor", JStr sx_alice);
        ("object", JObj [("type", JStr "Note"); ("id", JStr sx_note_id); ("content", JStr "new text"); ("summary", JNull)])].
Example sx_update_stores :
  res_env sx_env (update sx_cfg sx_update_raw sx_update) = Ok tt
  /\ S sx_env (update sx_cfg sx_update_raw sx_update) =
       [EDb "Update" [canon (JObj [("@context", JStr "https://www.w3.org/ns/activitystreams"); ("type", JStr "Note");
                                   ("id", JStr sx_note_id); ("content", JStr "new text")])]].
Proof. vm_compute. split; reflexivity. Qed.
(* without the raw null the summary stays *)
Example sx_update_keeps :
  S sx_env (update sx_cfg sx_update sx_update) =
       [EDb "Update" [canon (JObj [("@context", JStr "https://www.w3.org/ns/activitystreams"); ("type", JStr "Note");
                                   ("id", JStr sx_note_id); ("summary", JStr "a summary"); ("content", JStr "new text")])]].
Proof. vm_compute. reflexivity. Qed.

(* a Delete of it, the clock reading 1000 s after the epoch *)
Definition sx_delete : json :=
  JObj [("id", JStr "https://h.example/activities/2"); ("type", JStr "Delete"); ("actor", JStr sx_alice); ("object", JStr sx_note_id)].
Example sx_delete_stores :
  res_env sx_env (delete sx_cfg sx_delete) = Ok tt
  /\ S sx_env (delete sx_cfg sx_delete) =
       [EDb "Update" [canon (JObj [("type", JStr "Tombstone"); ("id", JStr sx_note_id); ("formerType", JStr "Note");
                                   ("deleted", JStr "1970-01-01T00:16:40Z")])]].
Proof. vm_compute. split; reflexivity. Qed.

(* a Like of two objects: both ids in front of the earlier entry, the second named first *)
Definition sx_like : json :=
  JObj [("id", JStr "https://h.example/activities/3"); ("type", JStr "Like"); ("actor", JStr sx_alice);
        ("object", JArr [JStr sx_note_id; JStr "https://y.example/notes/7"])].
Example sx_like_run :
  res_env sx_env (like sx_cfg sx_outbox sx_like) = Ok tt
  /\ evs_env sx_env (like sx_cfg sx_outbox sx_like) =
       [ELock sx_outbox; EDb "ActorForOutbox" [JStr sx_outbox]; EUnlock sx_outbox; ELock sx_alice; EDb "Liked" [JStr sx_alice];
        EDb "Update" [canon (JObj [("type", JStr "Collection"); ("id", JStr "https://h.example/alice/liked");
                                   ("items", JArr [JStr "https://y.example/notes/7"; JStr sx_note_id; JStr "https://x.example/earlier"])])];
        EApp "Wrapped:Like" [canon sx_like]; EUnlock sx_alice].
Proof. vm_compute. split; reflexivity. Qed.

(* a Block: accepted, nothing stored, flagged as not to be delivered *)
Definition sx_block : json :=
  JObj [("id", JStr "https://h.example/activities/4"); ("type", JStr "Block"); ("actor", JStr sx_alice); ("object", JStr "https://z.example/mallory")].
Example sx_block_run :
  run_env sx_env (soc_callbacks sx_cfg sx_outbox sx_block (fun l => l) sx_block) = (Ok (sx_block, false), [EApp "SocialCallbacks" []]).
Proof. vm_compute. reflexivity. Qed.

Print Assumptions tombstone_no_other_member.
Print Assumptions tombstone_type_name.
Print Assumptions tombstone_get_id.
Print Assumptions update_stores_any.
Print Assumptions update_stores_world.
Print Assumptions delete_stores_any.
Print Assumptions delete_stores_world.
Print Assumptions block_stores_nothing.
Print Assumptions block_not_deliverable.
Print Assumptions like_trace.
Print Assumptions like_stores_any.
Print Assumptions add_cb_stores_world.
Print Assumptions remove_cb_stores_world.
