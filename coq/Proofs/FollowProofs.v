(* C04, the Follow clause: what the federating default callback for Follow stores and sends, for EVERY environment.
   "A Follow naming this inbox's actor, when the application chose auto-accept (auto-reject), adds every following actor
   to that actor's followers (leaves followers unchanged) and delivers a freshly identified Accept (Reject) of that
   Follow from the actor addressed to those actors, and otherwise sends and changes nothing."
   S env m (Proofs/StoreProofs.v) = the Create / Update / Delete / SetInbox / SetOutbox / BatchDeliver events of the run of
   m against env. *)
From Coq Require Import String List Bool Arith Lia.
From Verif Require Import Base.ListX Base.Json Base.Free Pub.Events Pub.Calls Pub.Value Pub.EffectSpec Pub.Util Pub.SideEffect Pub.Fed Pub.DeliverySpec.
From Verif Require Import Proofs.ValueProofs Proofs.OnlyProofs Proofs.HiddenProofs Proofs.DeliveryProofs Proofs.ForwardIffProofs Proofs.NormalizeProofs Proofs.StoreProofs.
Import ListNotations.
Open Scope string_scope.
Open Scope list_scope.
Open Scope prog_scope.

(* table lookups, computed once, before the tables are made opaque *)
Lemma accept_not_create : is_or_extends "Accept" "Create" = false.
Proof. vm_compute. reflexivity. Qed.
Lemma reject_not_create : is_or_extends "Reject" "Create" = false.
Proof. vm_compute. reflexivity. Qed.

Local Opaque has_prop known_type admits T P is_or_extends.

(* ---- the pieces of Fed.follow, named ---- *)
(* the followers collection after the Accept: the following actors in front, in reverse order of the actor property *)
Definition new_followers (recipients : list string) (followers : json) : json :=
  match recipients with
  | [] => (match elems "items" followers with None => jset "items" (JArr []) followers | Some _ => followers end)
  | _ => set_elems "items" (map JStr (rev recipients) ++ elems0 "items" followers) followers
  end.

Definition follow_update (c : nat) (actor : string) (recipients : list string) : prog (res unit) :=
  if Nat.eqb c 1 then
    _ <-? lock actor ;;
    f <- db_json "Followers" [JStr actor] ;;
    match f with
    | Ok followers => u <- db_unit "Update" [new_followers recipients followers] ;; unlock actor ;;; lift u
    | Err e => unlock actor ;;; fail e
    | Panic s => unlock actor ;;; Ret (Panic s)
    end
  else ok tt.

Definition response_kind (c : nat) : string := if Nat.eqb c 1 then "Accept" else "Reject".

Definition follow_send (c : nat) (inbox : string) (a : json) (actor : string) (recipients : list string) : prog (res unit) :=
  _ <-? follow_update c actor recipients ;;
  _ <-? lock inbox ;;
  ob <- db_iri "OutboxForInbox" [JStr inbox] ;;
  unlock inbox ;;;
  outbox <-? lift ob ;;
  response' <-? add_new_ids (response_activity (response_kind c) actor a recipients) ;;
  _ <-? deliver outbox response' ;;
  ok tt.

Definition follow_mid (c : nat) (inbox : string) (a : json) (actor : string) (is_me : bool) : prog (res unit) :=
  if negb is_me then ok tt else
  if negb (Nat.eqb c 1 || Nat.eqb c 2) then fail EGeneric else
  match elems "actor" a with
  | None => panic "federating follow: nil actor property"
  | Some al => recipients <-? lift (to_ids "actor" al) ;; follow_send c inbox a actor recipients
  end.

Definition follow_is_me (c : nat) (actor : string) (a : json) : res bool :=
  if Nat.eqb c 0 then Ok false else names_me "object" actor (elems0 "object" a).

(* Fed.follow is literally these pieces *)
Lemma follow_unfold cfg inbox a : follow cfg inbox a =
  if object_required a then fail EObjectRequired else
  _ <-? lock inbox ;;
  x <- db_iri "ActorForInbox" [JStr inbox] ;;
  unlock inbox ;;;
  actor <-? lift x ;;
  is_me <-? lift (follow_is_me (c_on_follow cfg) actor a) ;;
  _ <-? follow_mid (c_on_follow cfg) inbox a actor is_me ;;
  wrapped cfg "Follow" a.
Proof. reflexivity. Qed.

(* ---- pure facts about the response ---- *)
Lemma response_type k actor a r : jget "type" (response_activity k actor a r) = Some (JStr k).
Proof. reflexivity. Qed.
Lemma response_actor k actor a r : jget "actor" (response_activity k actor a r) = Some (JStr actor).
Proof. reflexivity. Qed.
Lemma response_object k actor a r : jget "object" (response_activity k actor a r) = Some a.
Proof. reflexivity. Qed.
Lemma response_to k actor a r : schemes r -> ids_of "to" (response_activity k actor a r) = Ok r.
Proof.
  intros Hr. unfold ids_of, elems.
  change (jget "to" (response_activity k actor a r)) with (Some (canon_list (map JStr r))).
  destruct r as [|i [|j r']].
  - reflexivity.
  - cbn [map canon_list]. exact (to_ids_strs "to" [i] Hr).
  - change (canon_list (map JStr (i :: j :: r'))) with (JArr (map JStr (i :: j :: r'))). exact (to_ids_strs "to" _ Hr).
Qed.
Lemma response_type_name k actor a r : type_name (response_activity k actor a r) = k.
Proof. reflexivity. Qed.
Lemma response_id_type_name x k actor a r : type_name (jset "id" x (response_activity k actor a r)) = k.
Proof. rewrite type_name_jset by (intros H; discriminate H). apply response_type_name. Qed.

(* ---- lists of events ---- *)
Definition no_store (e : ev) : bool := negb (is_store e).
Lemma no_stores tr : forallb no_store tr = true -> stores tr = [].
Proof.
  induction tr as [|e r IH]; cbn [forallb stores filter]; intros H; [reflexivity|]. apply andb_true_iff in H. destruct H as [H1 H2].
  unfold no_store in H1. apply negb_true_iff in H1. rewrite H1. apply IH. exact H2.
Qed.
(* everything but BatchDeliver is not a store *)
Definition no_db_store (e : ev) : bool := match e with EBatchDeliver _ _ => true | _ => negb (is_store e) end.
Definition db_quiet (op : string) : bool := negb (existsb (String.eqb op) store_ops).
Lemma stores_batches tr : forallb no_db_store tr = true -> stores tr = batches tr.
Proof.
  unfold batches. induction tr as [|e r IH]; cbn [forallb stores filter]; intros H; [reflexivity|]. apply andb_true_iff in H. destruct H as [H1 H2].
  fold (stores r). rewrite (IH H2).
  destruct e as [i|i|op args|b|i|pl rc|n args|c|k v|b|]; try reflexivity.
  cbn [no_db_store] in H1. apply negb_true_iff in H1. rewrite H1. reflexivity.
Qed.
Lemma batches_length env tr : length (DeliverySpec.batches (map (fun e : ev => (e, env e : ans)) tr)) = length (batches tr).
Proof.
  unfold DeliverySpec.batches, batches. induction tr as [|e r IH]; [reflexivity|]. cbn [map flat_map fst filter].
  rewrite app_length, IH. destruct e as [i|i|op args|b|i|pl rc|n args|c|k v|b|]; reflexivity.
Qed.
Lemma batches_payload p tr : forallb (pexp p) tr = true -> forall e, In e (batches tr) -> exists rs, e = EBatchDeliver p rs.
Proof.
  unfold batches. intros H e He. apply filter_In in He. destruct He as [Hin Hb]. rewrite forallb_forall in H. specialize (H e Hin).
  destruct e as [i|i|op args|b|i|pl rc|n args|c|k v|b|]; try (discriminate Hb).
  cbn [pexp] in H. apply jeqb_eq in H. subst pl. exists rc. reflexivity.
Qed.

Section Any.
  Variable env : ev -> ans.

  Lemma S_only {A} (m : prog A) : only no_store m -> S env m = [].
  Proof. intros H. unfold S. apply no_stores. apply only_evs. exact H. Qed.

  Definition iri_ans (x : ans) : res string := match x with AIri i => Ok i | _ => Err EGeneric end.
  Definition json_ans (x : ans) : res json := match x with AJson j => Ok j | _ => Err EGeneric end.
  Lemma res_db_iri op args : res_env env (db_iri op args) = iri_ans (env (EDb op (map canon args))).
  Proof. unfold db_iri, db. rewrite res_env_bind, res_call. destruct (env (EDb op (map canon args))); reflexivity. Qed.
  Lemma S_db_iri op args : is_store (EDb op (map canon args)) = false -> S env (db_iri op args) = [].
  Proof.
    intros Hs. unfold db_iri, db. rewrite S_bind, S_call, res_call, Hs. destruct (env (EDb op (map canon args))); reflexivity.
  Qed.
  Lemma res_db_json op args : res_env env (db_json op args) = json_ans (env (EDb op (map canon args))).
  Proof. unfold db_json, db. rewrite res_env_bind, res_call. destruct (env (EDb op (map canon args))); reflexivity. Qed.
  Lemma res_unlock_k {A} i (k : prog A) : res_env env (unlock i ;;; k) = res_env env k.
  Proof. rewrite res_env_bind. reflexivity. Qed.
  Lemma S_unlock_k {A} i (k : prog A) : S env (unlock i ;;; k) = S env k.
  Proof. rewrite S_bind, S_unlock. reflexivity. Qed.

  (* Lock; a Database read answering an IRI; continue with the answer *)
  Lemma locked_iri {A} i op arg (k : res string -> prog (res A)) : is_store (EDb op [JStr arg]) = false ->
    res_env env (_ <-? lock i ;; x <- db_iri op [JStr arg] ;; k x)
      = match res_env env (lock i) with Ok _ => res_env env (k (iri_ans (env (EDb op [JStr arg])))) | Err e => Err e | Panic s => Panic s end
    /\ S env (_ <-? lock i ;; x <- db_iri op [JStr arg] ;; k x)
      = match res_env env (lock i) with Ok _ => S env (k (iri_ans (env (EDb op [JStr arg])))) | _ => [] end.
  Proof.
    intros Hs. rewrite res_env_bindr, S_bindr, S_lock. cbn [app].
    destruct (res_env env (lock i)) as [u|e|p]; [|split; reflexivity|split; reflexivity].
    rewrite res_env_bind, S_bind, res_db_iri, (S_db_iri op [JStr arg] Hs). cbn [app map canon].
    split; reflexivity.
  Qed.

  (* ---- add_new_ids on the response: only the id is set ---- *)
  Lemma only_add_new_ids a : only no_store (add_new_ids a).
  Proof. apply (q_add_new_ids no_store db_quiet); [|reflexivity]. intros op args H. exact H. Qed.
  Lemma S_add_new_ids a : S env (add_new_ids a) = [].
  Proof. apply S_only. apply only_add_new_ids. Qed.

  Lemma add_new_ids_plain_env v response' : is_or_extends (type_name v) "Create" = false ->
    res_env env (add_new_ids v) = Ok response' ->
    exists newid, env (EDb "NewID" [canon v]) = AIri newid /\ response' = jset "id" (JStr newid) v.
  Proof.
    intros Hc. unfold add_new_ids. rewrite res_env_bindr, res_db_iri. cbn [map].
    destruct (env (EDb "NewID" [canon v])) as [| |b|i| |j|l|n|s|z|]; cbn [iri_ans]; try (intros H; discriminate H).
    cbn zeta. rewrite type_name_jset by (intros H; discriminate H). rewrite Hc. rewrite res_env_ok.
    intros H. injection H as <-. exists i. split; reflexivity.
  Qed.
  Lemma add_new_ids_response k actor a r response' : k = "Accept" \/ k = "Reject" ->
    res_env env (add_new_ids (response_activity k actor a r)) = Ok response' ->
    exists newid, env (EDb "NewID" [canon (response_activity k actor a r)]) = AIri newid
                  /\ response' = jset "id" (JStr newid) (response_activity k actor a r).
  Proof.
    intros Hk. apply add_new_ids_plain_env. rewrite response_type_name.
    destruct Hk as [->| ->]; [exact accept_not_create|exact reject_not_create].
  Qed.

  (* ---- (F4) Deliver: at most one store, the hand-over of the stripped activity; exactly one when it succeeds ---- *)
  Lemma only_deliver_db outbox x : only no_db_store (deliver outbox x).
  Proof.
    apply (q_deliver no_db_store) with (dbok := db_quiet); try (intros; reflexivity).
    intros op args H. exact H.
  Qed.
  Theorem deliver_stores outbox x :
    (S env (deliver outbox x) = [] \/ exists rs, S env (deliver outbox x) = [EBatchDeliver (canon (streams_serialize (strip_hidden x))) rs])
    /\ (forall d, res_env env (deliver outbox x) = Ok d ->
          exists rs, S env (deliver outbox x) = [EBatchDeliver (canon (streams_serialize (strip_hidden x))) rs]).
  Proof.
    unfold S. rewrite (stores_batches _ (only_evs no_db_store env _ (only_deliver_db outbox x))).
    pose proof (batches_payload _ _ (only_evs _ env _ (only_deliver outbox x))) as Hp.
    destruct (deliver_once outbox x _ _ (run_env_runs env (deliver outbox x))) as [H1 H2].
    rewrite batches_length in H1, H2. fold (evs_env env (deliver outbox x)) in H1, H2. fold (res_env env (deliver outbox x)) in H2.
    destruct (batches (evs_env env (deliver outbox x))) as [|e [|e' r]] eqn:Eb.
    - split; [left; reflexivity|]. intros d Hd. rewrite Hd in H2. specialize (H2 eq_refl). discriminate H2.
    - destruct (Hp e (or_introl eq_refl)) as [rs ->]. split; [right|intros d _]; exists rs; reflexivity.
    - cbn [length] in H1. lia.
  Qed.

  (* ---- the first part of Follow: either nothing is stored and the callback fails, or the inbox's actor was read ---- *)
  Lemma follow_split cfg inbox a :
    (S env (follow cfg inbox a) = [] /\ forall u, res_env env (follow cfg inbox a) <> Ok u)
    \/ exists actor is_me,
         env (EDb "ActorForInbox" [JStr inbox]) = AIri actor
         /\ follow_is_me (c_on_follow cfg) actor a = Ok is_me
         /\ S env (follow cfg inbox a) = S env (follow_mid (c_on_follow cfg) inbox a actor is_me)
         /\ (forall u, res_env env (follow cfg inbox a) = Ok u -> res_env env (follow_mid (c_on_follow cfg) inbox a actor is_me) = Ok tt).
  Proof.
    rewrite follow_unfold. destruct (object_required a); [left; split; [reflexivity|intros u H; discriminate H]|].
    match goal with |- context [bind (db_iri "ActorForInbox" [JStr inbox]) ?k] =>
      destruct (locked_iri inbox "ActorForInbox" inbox k eq_refl) as [E1 E2] end.
    rewrite E1, E2. clear E1 E2. cbn beta.
    destruct (res_env env (lock inbox)) as [u0|e|p]; [|left; split; [reflexivity|intros u H; discriminate H]|left; split; [reflexivity|intros u H; discriminate H]].
    destruct (env (EDb "ActorForInbox" [JStr inbox])) as [| |b|actor| |j|l|n|s|z|] eqn:Ea; cbn [iri_ans];
      rewrite res_unlock_k, S_unlock_k;
      try (left; split; [reflexivity|intros u H; discriminate H]).
    rewrite res_env_bindr, S_bindr, res_env_lift, S_lift. cbn [app]. cbn beta iota.
    rewrite res_env_bindr, S_bindr, res_env_lift, S_lift. cbn [app].
    destruct (follow_is_me (c_on_follow cfg) actor a) as [is_me|e|p] eqn:Em; [|left; split; [reflexivity|intros u H; discriminate H]|left; split; [reflexivity|intros u H; discriminate H]].
    right. exists actor, is_me. split; [reflexivity|]. split; [exact Em|].
    rewrite res_env_bindr, S_bindr.
    destruct (res_env env (follow_mid (c_on_follow cfg) inbox a actor is_me)) as [u1|e|p].
    - rewrite S_wrapped, app_nil_r. split; [reflexivity|]. intros u _. destruct u1. reflexivity.
    - rewrite app_nil_r. split; [reflexivity|]. intros u H. discriminate H.
    - rewrite app_nil_r. split; [reflexivity|]. intros u H. discriminate H.
  Qed.

  (* ---- (F1) not this inbox's actor, or the application chose to do nothing: nothing stored, nothing sent -
     whether or not the callback succeeds ---- *)
  Theorem follow_not_me_nothing_any cfg inbox a :
    (c_on_follow cfg = 0 \/ exists actor, env (EDb "ActorForInbox" [JStr inbox]) = AIri actor
                                        /\ names_me "object" actor (elems0 "object" a) = Ok false) ->
    S env (follow cfg inbox a) = [].
  Proof.
    intros Hc. destruct (follow_split cfg inbox a) as [[Hs _]|[actor [is_me [Ha [Hm [Hs _]]]]]]; [exact Hs|].
    rewrite Hs. assert (Hf : is_me = false).
    { unfold follow_is_me in Hm. destruct Hc as [Hc|[actor' [Ha' Hn]]].
      - rewrite Hc in Hm. cbn [Nat.eqb] in Hm. injection Hm as <-. reflexivity.
      - rewrite Ha in Ha'. injection Ha' as <-. rewrite Hn in Hm. destruct (Nat.eqb (c_on_follow cfg) 0); injection Hm as <-; reflexivity. }
    subst is_me. reflexivity.
  Qed.
  Corollary follow_not_me_nothing cfg inbox a : res_env env (follow cfg inbox a) = Ok tt ->
    (c_on_follow cfg = 0 \/ exists actor, env (EDb "ActorForInbox" [JStr inbox]) = AIri actor
                                        /\ names_me "object" actor (elems0 "object" a) = Ok false) ->
    S env (follow cfg inbox a) = [].
  Proof. intros _. apply follow_not_me_nothing_any. Qed.

  (* ---- the sending part ---- *)
  Lemma follow_send_ok c inbox a actor recipients : res_env env (follow_send c inbox a actor recipients) = Ok tt ->
    res_env env (follow_update c actor recipients) = Ok tt
    /\ exists outbox response' delivered,
         env (EDb "OutboxForInbox" [JStr inbox]) = AIri outbox
         /\ res_env env (add_new_ids (response_activity (response_kind c) actor a recipients)) = Ok response'
         /\ res_env env (deliver outbox response') = Ok delivered
         /\ S env (follow_send c inbox a actor recipients) = S env (follow_update c actor recipients) ++ S env (deliver outbox response').
  Proof.
    unfold follow_send. rewrite res_env_bindr, S_bindr.
    destruct (res_env env (follow_update c actor recipients)) as [u|e|p]; [|intros H; discriminate H|intros H; discriminate H].
    destruct u.
    match goal with |- context [bind (db_iri "OutboxForInbox" [JStr inbox]) ?k] =>
      destruct (locked_iri inbox "OutboxForInbox" inbox k eq_refl) as [E1 E2] end.
    rewrite E1, E2. clear E1 E2. cbn beta.
    destruct (res_env env (lock inbox)) as [u0|e|p]; [|intros H; discriminate H|intros H; discriminate H].
    destruct (env (EDb "OutboxForInbox" [JStr inbox])) as [| |b|outbox| |j|l|n|s|z|] eqn:Eo; cbn [iri_ans];
      rewrite res_unlock_k, S_unlock_k;
      try (intros H; discriminate H).
    rewrite res_env_bindr, S_bindr, res_env_lift, S_lift. cbn [app]. cbn beta iota.
    rewrite res_env_bindr, S_bindr, S_add_new_ids. cbn [app].
    destruct (res_env env (add_new_ids (response_activity (response_kind c) actor a recipients))) as [response'|e|p];
      [|intros H; discriminate H|intros H; discriminate H].
    rewrite res_env_bindr, S_bindr.
    destruct (res_env env (deliver outbox response')) as [delivered|e|p] eqn:Ed; [|intros H; discriminate H|intros H; discriminate H].
    intros _. split; [reflexivity|]. exists outbox, response', delivered.
    split; [reflexivity|]. split; [reflexivity|]. split; [exact Ed|].
    change (S env (ok tt)) with (@nil ev). rewrite app_nil_r. reflexivity.
  Qed.

  (* auto-accept: the followers collection is read and written back with the following actors in front *)
  Lemma follow_update_accept actor recipients : res_env env (follow_update 1 actor recipients) = Ok tt ->
    exists followers, env (EDb "Followers" [JStr actor]) = AJson followers
                      /\ S env (follow_update 1 actor recipients) = [EDb "Update" [canon (new_followers recipients followers)]].
  Proof.
    unfold follow_update. cbn [Nat.eqb]. rewrite res_env_bindr, S_bindr, S_lock. cbn [app].
    destruct (res_env env (lock actor)) as [u0|e|p]; [|intros H; discriminate H|intros H; discriminate H].
    rewrite res_env_bind, S_bind, res_db_json, (S_db_json env "Followers" [JStr actor] eq_refl). cbn [app map canon].
    destruct (env (EDb "Followers" [JStr actor])) as [| |b|i| |followers|l|n|s|z|] eqn:Ef; cbn [json_ans];
      try (rewrite res_unlock_k; intros H; discriminate H).
    rewrite res_env_bind, S_bind, res_unlock_k, S_unlock_k, res_env_lift, S_lift, app_nil_r.
    intros _. exists followers. split; [reflexivity|]. apply (S_db_unit env "Update" [new_followers recipients followers]). reflexivity.
  Qed.

  (* what a Follow that names this inbox's actor does when the application chose to answer *)
  Lemma follow_mid_me c inbox a actor : c = 1 \/ c = 2 ->
    res_env env (follow_mid c inbox a actor true) = Ok tt ->
    exists al recipients, elems "actor" a = Some al /\ to_ids "actor" al = Ok recipients
      /\ res_env env (follow_send c inbox a actor recipients) = Ok tt
      /\ S env (follow_mid c inbox a actor true) = S env (follow_send c inbox a actor recipients).
  Proof.
    intros Hc. unfold follow_mid. cbn [negb].
    assert (Hb : negb (Nat.eqb c 1 || Nat.eqb c 2) = false) by (destruct Hc as [->| ->]; reflexivity).
    rewrite Hb. destruct (elems "actor" a) as [al|]; [|intros H; discriminate H].
    rewrite res_env_bindr, S_bindr, res_env_lift, S_lift. cbn [app].
    destruct (to_ids "actor" al) as [recipients|e|p] eqn:Er; [|intros H; discriminate H|intros H; discriminate H].
    intros H. exists al, recipients. split; [reflexivity|]. split; [exact Er|]. split; [exact H|reflexivity].
  Qed.

  (* ---- (F2) auto-accept ---- *)
  Theorem follow_accept_effects cfg inbox a actor :
    c_on_follow cfg = 1 ->
    env (EDb "ActorForInbox" [JStr inbox]) = AIri actor ->
    names_me "object" actor (elems0 "object" a) = Ok true ->
    res_env env (follow cfg inbox a) = Ok tt ->
    exists al recipients followers outbox response' delivered,
      elems "actor" a = Some al
      /\ to_ids "actor" al = Ok recipients
      /\ env (EDb "Followers" [JStr actor]) = AJson followers
      /\ env (EDb "OutboxForInbox" [JStr inbox]) = AIri outbox
      /\ res_env env (add_new_ids (response_activity "Accept" actor a recipients)) = Ok response'
      /\ res_env env (deliver outbox response') = Ok delivered
      /\ S env (follow cfg inbox a) = EDb "Update" [canon (new_followers recipients followers)] :: S env (deliver outbox response').
  Proof.
    intros Hc Ha Hn Hr.
    destruct (follow_split cfg inbox a) as [[_ Hno]|[actor' [is_me [Ha' [Hm [Hs Hmid]]]]]]; [destruct (Hno tt Hr)|].
    rewrite Ha in Ha'. injection Ha' as <-. specialize (Hmid tt Hr).
    rewrite Hc in Hm, Hs, Hmid. unfold follow_is_me in Hm. cbn [Nat.eqb] in Hm. rewrite Hn in Hm. injection Hm as <-.
    destruct (follow_mid_me 1 inbox a actor (or_introl eq_refl) Hmid) as [al [recipients [Hal [Hrec [Hsend Hs2]]]]].
    destruct (follow_send_ok 1 inbox a actor recipients Hsend) as [Hu [outbox [response' [delivered [Ho [Hnew [Hd Hs3]]]]]]].
    destruct (follow_update_accept actor recipients Hu) as [followers [Hf Hs4]].
    exists al, recipients, followers, outbox, response', delivered.
    repeat (split; [assumption|]). rewrite Hs, Hs2, Hs3, Hs4. reflexivity.
  Qed.

  (* ---- (F3) auto-reject: the followers are neither read nor written ---- *)
  Theorem follow_reject_effects cfg inbox a actor :
    c_on_follow cfg = 2 ->
    env (EDb "ActorForInbox" [JStr inbox]) = AIri actor ->
    names_me "object" actor (elems0 "object" a) = Ok true ->
    res_env env (follow cfg inbox a) = Ok tt ->
    exists al recipients outbox response' delivered,
      elems "actor" a = Some al
      /\ to_ids "actor" al = Ok recipients
      /\ env (EDb "OutboxForInbox" [JStr inbox]) = AIri outbox
      /\ res_env env (add_new_ids (response_activity "Reject" actor a recipients)) = Ok response'
      /\ res_env env (deliver outbox response') = Ok delivered
      /\ S env (follow cfg inbox a) = S env (deliver outbox response').
  Proof.
    intros Hc Ha Hn Hr.
    destruct (follow_split cfg inbox a) as [[_ Hno]|[actor' [is_me [Ha' [Hm [Hs Hmid]]]]]]; [destruct (Hno tt Hr)|].
    rewrite Ha in Ha'. injection Ha' as <-. specialize (Hmid tt Hr).
    rewrite Hc in Hm, Hs, Hmid. unfold follow_is_me in Hm. cbn [Nat.eqb] in Hm. rewrite Hn in Hm. injection Hm as <-.
    destruct (follow_mid_me 2 inbox a actor (or_intror eq_refl) Hmid) as [al [recipients [Hal [Hrec [Hsend Hs2]]]]].
    destruct (follow_send_ok 2 inbox a actor recipients Hsend) as [Hu [outbox [response' [delivered [Ho [Hnew [Hd Hs3]]]]]]].
    exists al, recipients, outbox, response', delivered.
    repeat (split; [assumption|]). rewrite Hs, Hs2, Hs3. reflexivity.
  Qed.

  (* ---- F2 / F3 with F4 and the facts about the response put together: the complete list of what is stored and sent ---- *)
  Corollary follow_accept_complete cfg inbox a actor :
    c_on_follow cfg = 1 ->
    env (EDb "ActorForInbox" [JStr inbox]) = AIri actor ->
    names_me "object" actor (elems0 "object" a) = Ok true ->
    res_env env (follow cfg inbox a) = Ok tt ->
    exists al recipients followers newid rs,
      elems "actor" a = Some al /\ to_ids "actor" al = Ok recipients
      /\ env (EDb "Followers" [JStr actor]) = AJson followers
      /\ env (EDb "NewID" [canon (response_activity "Accept" actor a recipients)]) = AIri newid
      /\ ids_of "to" (response_activity "Accept" actor a recipients) = Ok recipients
      /\ S env (follow cfg inbox a) =
           [EDb "Update" [canon (new_followers recipients followers)];
            EBatchDeliver (canon (streams_serialize (strip_hidden (jset "id" (JStr newid) (response_activity "Accept" actor a recipients))))) rs].
  Proof.
    intros Hc Ha Hn Hr.
    destruct (follow_accept_effects cfg inbox a actor Hc Ha Hn Hr) as [al [recipients [followers [outbox [response' [delivered [Hal [Hrec [Hf [Ho [Hnew [Hd Hs]]]]]]]]]]]].
    destruct (add_new_ids_response "Accept" actor a recipients response' (or_introl eq_refl) Hnew) as [newid [Hid ->]].
    destruct (proj2 (deliver_stores outbox _) delivered Hd) as [rs Hrs].
    exists al, recipients, followers, newid, rs.
    split; [exact Hal|]. split; [exact Hrec|]. split; [exact Hf|]. split; [exact Hid|].
    split; [apply response_to; exact (to_ids_schemes "actor" al recipients Hrec)|]. rewrite Hs, Hrs. reflexivity.
  Qed.
  Corollary follow_reject_complete cfg inbox a actor :
    c_on_follow cfg = 2 ->
    env (EDb "ActorForInbox" [JStr inbox]) = AIri actor ->
    names_me "object" actor (elems0 "object" a) = Ok true ->
    res_env env (follow cfg inbox a) = Ok tt ->
    exists al recipients newid rs,
      elems "actor" a = Some al /\ to_ids "actor" al = Ok recipients
      /\ env (EDb "NewID" [canon (response_activity "Reject" actor a recipients)]) = AIri newid
      /\ ids_of "to" (response_activity "Reject" actor a recipients) = Ok recipients
      /\ S env (follow cfg inbox a) =
           [EBatchDeliver (canon (streams_serialize (strip_hidden (jset "id" (JStr newid) (response_activity "Reject" actor a recipients))))) rs].
  Proof.
    intros Hc Ha Hn Hr.
    destruct (follow_reject_effects cfg inbox a actor Hc Ha Hn Hr) as [al [recipients [outbox [response' [delivered [Hal [Hrec [Ho [Hnew [Hd Hs]]]]]]]]]].
    destruct (add_new_ids_response "Reject" actor a recipients response' (or_intror eq_refl) Hnew) as [newid [Hid ->]].
    destruct (proj2 (deliver_stores outbox _) delivered Hd) as [rs Hrs].
    exists al, recipients, newid, rs.
    split; [exact Hal|]. split; [exact Hrec|]. split; [exact Hid|].
    split; [apply response_to; exact (to_ids_schemes "actor" al recipients Hrec)|]. rewrite Hs, Hrs. reflexivity.
  Qed.
End Any.

(* ================= the hypotheses are satisfiable: carol follows alice ================= *)
Definition ex_alice := "https://h.example/alice".
Definition ex_carol := "https://c.example/carol".
Definition ex_inbox := "https://h.example/alice/inbox".
Definition ex_outbox := "https://h.example/alice/outbox".
Definition ex_person (id inbox : string) : json :=
  JObj [("@context", JStr "https://www.w3.org/ns/activitystreams"); ("type", JStr "Person"); ("id", JStr id); ("inbox", JStr inbox)].
Definition ex_followers : json :=
  JObj [("type", JStr "Collection"); ("id", JStr "https://h.example/alice/followers"); ("items", JStr "https://d.example/dave")].
Definition ex_follow : json :=
  JObj [("id", JStr "https://c.example/f1"); ("type", JStr "Follow"); ("actor", JStr ex_carol); ("object", JStr ex_alice)].
Definition ex_fenv (e : ev) : ans :=
  match e with
  | EDb op _ =>
      if String.eqb op "ActorForInbox" then AIri ex_alice
      else if String.eqb op "OutboxForInbox" then AIri ex_outbox
      else if String.eqb op "ActorForOutbox" then AIri ex_alice
      else if String.eqb op "Followers" then AJson ex_followers
      else if String.eqb op "NewID" then AIri "https://h.example/alice/activities/1"
      else if String.eqb op "InboxForActor" then ANone
      else if String.eqb op "Get" then AJson (ex_person ex_alice ex_inbox)
      else AOk
  | EDeref _ => AJson (ex_person ex_carol "https://c.example/carol/inbox")
  | EApp _ _ => ANat 1
  | _ => AOk
  end.
Definition ex_fcfg (c : nat) : config :=
  {| c_social := true; c_federating := true; c_on_follow := c; c_fed_wrapped := []; c_fed_other := []; c_soc_wrapped := []; c_soc_other := [] |}.

Example ex_follow_hyps :
  ex_fenv (EDb "ActorForInbox" [JStr ex_inbox]) = AIri ex_alice
  /\ names_me "object" ex_alice (elems0 "object" ex_follow) = Ok true
  /\ res_env ex_fenv (follow (ex_fcfg 1) ex_inbox ex_follow) = Ok tt
  /\ res_env ex_fenv (follow (ex_fcfg 2) ex_inbox ex_follow) = Ok tt
  /\ res_env ex_fenv (follow (ex_fcfg 0) ex_inbox ex_follow) = Ok tt.
Proof. vm_compute. repeat split. Qed.

Example ex_follow_accept :
  S ex_fenv (follow (ex_fcfg 1) ex_inbox ex_follow) =
    [EDb "Update" [canon (JObj [("type", JStr "Collection"); ("id", JStr "https://h.example/alice/followers");
                                ("items", JArr [JStr ex_carol; JStr "https://d.example/dave"])])];
     EBatchDeliver (canon (JObj [("type", JStr "Accept"); ("actor", JStr ex_alice); ("object", ex_follow); ("to", JStr ex_carol);
                                 ("id", JStr "https://h.example/alice/activities/1")]))
                   ["https://c.example/carol/inbox"]].
Proof. vm_compute. reflexivity. Qed.

Example ex_follow_reject :
  S ex_fenv (follow (ex_fcfg 2) ex_inbox ex_follow) =
    [EBatchDeliver (canon (JObj [("type", JStr "Reject"); ("actor", JStr ex_alice); ("object", ex_follow); ("to", JStr ex_carol);
                                 ("id", JStr "https://h.example/alice/activities/1")]))
                   ["https://c.example/carol/inbox"]].
Proof. vm_compute. reflexivity. Qed.

Example ex_follow_nothing : S ex_fenv (follow (ex_fcfg 0) ex_inbox ex_follow) = [].
Proof. vm_compute. reflexivity. Qed.

(* a Follow of somebody else arriving in alice's inbox, auto-accept chosen: nothing *)
Definition ex_follow_other : json :=
  JObj [("id", JStr "https://c.example/f2"); ("type", JStr "Follow"); ("actor", JStr ex_carol); ("object", JStr "https://h.example/bob")].
Example ex_follow_not_me :
  names_me "object" ex_alice (elems0 "object" ex_follow_other) = Ok false
  /\ res_env ex_fenv (follow (ex_fcfg 1) ex_inbox ex_follow_other) = Ok tt
  /\ S ex_fenv (follow (ex_fcfg 1) ex_inbox ex_follow_other) = [].
Proof. vm_compute. repeat split. Qed.

Print Assumptions follow_not_me_nothing_any.
Print Assumptions follow_not_me_nothing.
Print Assumptions follow_accept_effects.
Print Assumptions follow_reject_effects.
Print Assumptions deliver_stores.
Print Assumptions response_to.
Print Assumptions add_new_ids_response.
Print Assumptions follow_accept_complete.
Print Assumptions follow_reject_complete.
