(* Basic facts about the JSON-level value operations of the pub model. *)
From Coq Require Import String List Bool Arith.
From Verif Require Import Base.ListX Base.Json Pub.Events Pub.Calls Pub.Value Pub.Util.
Import ListNotations.
Open Scope string_scope.

Lemma assoc_remove_key k k' m : k <> k' -> assoc k (remove_key k' m) = assoc k m.
Proof.
  intros Hn. induction m as [|[k0 v] r IH]; simpl; [reflexivity|].
  destruct (String.eqb k' k0) eqn:E1.
  - apply String.eqb_eq in E1. subst k0. destruct (String.eqb k k') eqn:E2; [apply String.eqb_eq in E2; congruence|exact IH].
  - simpl. destruct (String.eqb k k0); [reflexivity|exact IH].
Qed.

Lemma assoc_remove_same k m : assoc k (remove_key k m) = @None json.
Proof.
  induction m as [|[k0 v] r IH]; simpl; [reflexivity|].
  destruct (String.eqb k k0) eqn:E; [exact IH|]. simpl. rewrite E. exact IH.
Qed.

Lemma assoc_set_key_other k k' v m : k <> k' -> assoc k (set_key k' v m) = assoc k m.
Proof.
  intros Hn. induction m as [|[k0 v0] r IH]; simpl.
  - destruct (String.eqb k k') eqn:E; [apply String.eqb_eq in E; congruence|reflexivity].
  - destruct (String.eqb k' k0) eqn:E1.
    + apply String.eqb_eq in E1. subst k0. simpl.
      destruct (String.eqb k k') eqn:E2; [apply String.eqb_eq in E2; congruence|]. apply assoc_remove_key. exact Hn.
    + simpl. destruct (String.eqb k k0); [reflexivity|exact IH].
Qed.

Lemma assoc_set_key_same k v m : assoc k (set_key k v m) = Some v.
Proof.
  induction m as [|[k0 v0] r IH]; simpl; [rewrite String.eqb_refl; reflexivity|].
  destruct (String.eqb k k0) eqn:E; simpl; [rewrite String.eqb_refl; reflexivity|rewrite E; exact IH].
Qed.

Lemma jget_jremove_other k k' o : k <> k' -> jget k (jremove k' o) = jget k o.
Proof. intros H. destruct o; try reflexivity. unfold jget, jremove. simpl. apply assoc_remove_key. exact H. Qed.
Lemma jget_jremove_same k o : jget k (jremove k o) = None.
Proof. destruct o; try reflexivity. unfold jget, jremove. simpl. apply assoc_remove_same. Qed.
Lemma jget_jset_other k k' v o : k <> k' -> jget k (jset k' v o) = jget k o.
Proof. intros H. destruct o; try reflexivity. unfold jget, jset. simpl. apply assoc_set_key_other. exact H. Qed.
Lemma jget_jset_same k v m : jget k (jset k v (JObj m)) = Some v.
Proof. unfold jget, jset. simpl. apply assoc_set_key_same. Qed.

Lemma type_name_jremove k o : k <> "type" -> type_name (jremove k o) = type_name o.
Proof. intros H. unfold type_name, jtype. rewrite jget_jremove_other by congruence. reflexivity. Qed.
Lemma type_name_jset k v o : k <> "type" -> type_name (jset k v o) = type_name o.
Proof. intros H. unfold type_name, jtype. rewrite jget_jset_other by congruence. reflexivity. Qed.
Lemma type_name_set_elems k l o : k <> "type" -> type_name (set_elems k l o) = type_name o.
Proof. intros H. unfold set_elems. apply type_name_jset. exact H. Qed.

Lemma type_name_clear_sensitive fuel : forall v, type_name (clear_sensitive fuel v) = type_name v.
Proof.
  induction fuel as [|f IH]; intros v; simpl; [reflexivity|].
  set (v1 := if vhas v "bto" then jremove "bto" v else v).
  assert (T1 : type_name v1 = type_name v) by (unfold v1; destruct (vhas v "bto"); [apply type_name_jremove; discriminate|reflexivity]).
  set (v2 := if vhas v1 "bcc" then jremove "bcc" v1 else v1).
  assert (T2 : type_name v2 = type_name v) by (unfold v2; destruct (vhas v1 "bcc"); [rewrite type_name_jremove by discriminate; exact T1|exact T1]).
  destruct (vhas v2 "object"); [|exact T2].
  destruct (elems "object" v2); [|exact T2].
  rewrite type_name_set_elems by discriminate. exact T2.
Qed.

Lemma scompare_refl s : String.compare s s = Eq.
Proof.
  induction s as [|a s IH]; simpl; [reflexivity|].
  unfold Ascii.compare. rewrite BinNat.N.compare_refl. exact IH.
Qed.

(* ---- lookups commute with canonicalisation and with streams.Serialize's context cleaning ---- *)
Lemma assoc_insert_kv k k' v m : assoc k (insert_kv k' v m) = if String.eqb k k' then Some v else assoc k m.
Proof.
  induction m as [|[k0 v0] r IH]; simpl; [reflexivity|].
  destruct (String.compare k' k0) eqn:C; simpl; try reflexivity.
  (* Gt: k0 < k', so k0 <> k' *)
  rewrite IH. destruct (String.eqb k k') eqn:E1; [|reflexivity].
  apply String.eqb_eq in E1. subst k'. destruct (String.eqb k k0) eqn:E2; [|reflexivity].
  apply String.eqb_eq in E2. subst k0. assert (Hc : String.compare k k = Eq) by apply scompare_refl. rewrite Hc in C. discriminate.
Qed.

Lemma assoc_canon_fold k m :
  assoc k (fold_right (fun kv acc => insert_kv (fst kv) (canon (snd kv)) acc) [] m) = option_map canon (assoc k m).
Proof.
  induction m as [|[k0 v0] r IH]; simpl; [reflexivity|].
  rewrite assoc_insert_kv. destruct (String.eqb k k0); [reflexivity|exact IH].
Qed.

Lemma jget_canon k j : jget k (canon j) = option_map canon (jget k j).
Proof. destruct j; try reflexivity. unfold jget. simpl. apply assoc_canon_fold. Qed.

Lemma jhas_canon k j : jhas k (canon j) = jhas k j.
Proof. unfold jhas. rewrite jget_canon. destruct (jget k j); reflexivity. Qed.

Lemma first_known_canon known : forall l, first_known known (map canon l) = first_known known l.
Proof.
  unfold first_known. induction l as [|e r IH]; [reflexivity|]. cbn [map find].
  destruct e as [| | |s|l0|m]; cbn [canon]; try exact IH.
  - destruct (known s); [reflexivity|exact IH].
Qed.
Lemma jtype_canon j : jtype (canon j) = jtype j.
Proof.
  unfold jtype. rewrite jget_canon. destruct (jget "type" j) as [[| | |s|l|m]|]; try reflexivity.
  cbn [option_map canon]. apply first_known_canon.
Qed.

Definition clean_val (f : nat) (v : json) : json := match v with JObj _ => clean_ctx f (jremove "@context" v) | _ => v end.

Lemma assoc_map_vals {A} (g : A -> A) k (m : list (string * A)) :
  assoc k (map (fun kv => (fst kv, g (snd kv))) m) = option_map g (assoc k m).
Proof. induction m as [|[k0 v0] r IH]; simpl; [reflexivity|]. destruct (String.eqb k k0); [reflexivity|exact IH]. Qed.

Lemma jget_clean_ctx k f m : jget k (clean_ctx (S f) (JObj m)) = option_map (clean_val f) (jget k (JObj m)).
Proof.
  unfold jget. simpl.
  rewrite (map_ext _ (fun kv : string * json => (fst kv, clean_val f (snd kv)))) by (intros [k0 v0]; destruct v0; reflexivity).
  apply (assoc_map_vals (clean_val f)).
Qed.

Lemma jhas_clean_ctx k f j : jhas k (clean_ctx f j) = jhas k j.
Proof.
  destruct f; [reflexivity|]. destruct j; try reflexivity. unfold jhas. rewrite jget_clean_ctx.
  destruct (jget k (JObj m)); reflexivity.
Qed.

Lemma jtype_clean_ctx f j : jtype (clean_ctx f j) = jtype j.
Proof.
  destruct f; [reflexivity|]. destruct j; try reflexivity. unfold jtype. rewrite jget_clean_ctx.
  destruct (jget "type" (JObj m)) as [[| | | | |m0]|]; try reflexivity. simpl. destruct f; reflexivity.
Qed.

Lemma jhas_jremove_other k k' j : k <> k' -> jhas k (jremove k' j) = jhas k j.
Proof. intros H. unfold jhas. rewrite jget_jremove_other by exact H. reflexivity. Qed.
Lemma jtype_jremove k j : k <> "type" -> jtype (jremove k j) = jtype j.
Proof. intros H. unfold jtype. rewrite jget_jremove_other by congruence. reflexivity. Qed.

(* ---- hidden recipients ---- *)

Lemma vhas_jremove v k p : k <> "type" -> vhas (jremove k v) p = vhas v p.
Proof. intros H. unfold vhas. rewrite type_name_jremove by exact H. reflexivity. Qed.

Lemma hidden_on_strip v : hidden_on (let v := if vhas v "bto" then jremove "bto" v else v in if vhas v "bcc" then jremove "bcc" v else v) = false.
Proof.
  unfold hidden_on.
  destruct (vhas v "bto") eqn:E1.
  - rewrite (vhas_jremove v "bto" "bcc") by discriminate.
    destruct (vhas v "bcc") eqn:E2.
    + rewrite !vhas_jremove by discriminate. rewrite E1, E2. simpl.
      rewrite jhas_jremove_other by discriminate. unfold jhas. rewrite !jget_jremove_same. reflexivity.
    + rewrite !vhas_jremove by discriminate. rewrite E1, E2. simpl. unfold jhas. rewrite jget_jremove_same. reflexivity.
  - destruct (vhas v "bcc") eqn:E2.
    + rewrite !vhas_jremove by discriminate. rewrite E1, E2. simpl. unfold jhas. rewrite jget_jremove_same. reflexivity.
    + rewrite E1, E2. reflexivity.
Qed.
