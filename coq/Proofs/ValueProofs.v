(* Basic facts about the JSON-level value operations of the pub model. *)
From Coq Require Import String List Bool Arith.
From Verif Require Import Base.ListX Base.Json Pub.Events Pub.Value Pub.Util.
Import ListNotations.
Open Scope string_scope.

Lemma assoc_remove_key k k' m : k <> k' -> assoc k (remove_key k' m) = assoc k m.
Proof.
  intros Hn. induction m as [|[k0 v] r IH]; simpl; [reflexivity|].
  destruct (String.eqb k' k0) eqn:E1.
  - apply String.eqb_eq in E1. subst k0. destruct (String.eqb k k') eqn:E2; [apply String.eqb_eq in E2; congruence|exact IH].
  - simpl. destruct (String.eqb k k0); [reflexivity|exact IH].
Qed.

Lemma assoc_remove_same k m : assoc k (remove_key k m) = @None json.
Proof.
  induction m as [|[k0 v] r IH]; simpl; [reflexivity|].
  destruct (String.eqb k k0) eqn:E; [exact IH|]. simpl. rewrite E. exact IH.
Qed.

Lemma assoc_set_key_other k k' v m : k <> k' -> assoc k (set_key k' v m) = assoc k m.
Proof.
  intros Hn. induction m as [|[k0 v0] r IH]; simpl.
  - destruct (String.eqb k k') eqn:E; [apply String.eqb_eq in E; congruence|reflexivity].
  - destruct (String.eqb k' k0) eqn:E1.
    + apply String.eqb_eq in E1. subst k0. simpl.
      destruct (String.eqb k k') eqn:E2; [apply String.eqb_eq in E2; congruence|]. apply assoc_remove_key. exact Hn.
    + simpl. destruct (String.eqb k k0); [reflexivity|exact IH].
Qed.

Lemma assoc_set_key_same k v m : assoc k (set_key k v m) = Some v.
Proof.
  induction m as [|[k0 v0] r IH]; simpl; [rewrite String.eqb_refl; reflexivity|].
  destruct (String.eqb k k0) eqn:E; simpl; [rewrite String.eqb_refl; reflexivity|rewrite E; exact IH].
Qed.

Lemma jget_jremove_other k k' o : k <> k' -> jget k (jremove k' o) = jget k o.
Proof. intros H. destruct o; try reflexivity. unfold jget, jremove. simpl. apply assoc_remove_key. exact H. Qed.
Lemma jget_jremove_same k o : jget k (jremove k o) = None.
Proof. destruct o; try reflexivity. unfold jget, jremove. simpl. apply assoc_remove_same. Qed.
Lemma jget_jset_other k k' v o : k <> k' -> jget k (jset k' v o) = jget k o.
Proof. intros H. destruct o; try reflexivity. unfold jget, jset. simpl. apply assoc_set_key_other. exact H. Qed.
Lemma jget_jset_same k v m : jget k (jset k v (JObj m)) = Some v.
Proof. unfold jget, jset. simpl. apply assoc_set_key_same. Qed.

Lemma type_name_jremove k o : k <> "type" -> type_name (jremove k o) = type_name o.
Proof. intros H. unfold type_name, jtype. rewrite jget_jremove_other by congruence. reflexivity. Qed.
Lemma type_name_jset k v o : k <> "type" -> type_name (jset k v o) = type_name o.
Proof. intros H. unfold type_name, jtype. rewrite jget_jset_other by congruence. reflexivity. Qed.
Lemma type_name_set_elems k l o : k <> "type" -> type_name (set_elems k l o) = type_name o.
Proof. intros H. unfold set_elems. apply type_name_jset. exact H. Qed.

Lemma type_name_clear_sensitive fuel : forall v, type_name (clear_sensitive fuel v) = type_name v.
Proof.
  induction fuel as [|f IH]; intros v; simpl; [reflexivity|].
  set (v1 := if vhas v "bto" then jremove "bto" v else v).
  assert (T1 : type_name v1 = type_name v) by (unfold v1; destruct (vhas v "bto"); [apply type_name_jremove; discriminate|reflexivity]).
  set (v2 := if vhas v1 "bcc" then jremove "bcc" v1 else v1).
  assert (T2 : type_name v2 = type_name v) by (unfold v2; destruct (vhas v1 "bcc"); [rewrite type_name_jremove by discriminate; exact T1|exact T1]).
  destruct (vhas v2 "object"); [|exact T2].
  destruct (elems "object" v2); [|exact T2].
  rewrite type_name_set_elems by discriminate. exact T2.
Qed.
