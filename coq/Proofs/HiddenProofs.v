(* C03: hidden recipients never leave the server. *)
From Coq Require Import String List Bool Arith ZArith.
From Verif Require Import Base.ListX Base.Json Base.Free Pub.Events Pub.Calls Pub.Value Pub.Util Pub.SideEffect Pub.Fed Pub.Soc Pub.BaseActor.
From Verif Require Import Proofs.ValueProofs Proofs.OnlyProofs.
Import ListNotations.
Open Scope string_scope.

Local Opaque has_prop known_type admits T P.

Definition is_arr (j : json) : bool := match j with JArr _ => true | _ => false end.
(* no element of the object property is itself a bare array (an array nested directly in an array is kept
   as an unknown value by the decoder and is outside the property's quantifier) *)
Definition flat (a : json) : bool := forallb (fun e => negb (is_arr e)) (elems0 "object" a).

Lemma elems_set_elems p l o m : o = JObj m -> forallb (fun e => negb (is_arr e)) l = true -> elems0 p (set_elems p l o) = l.
Proof.
  intros Ho Hl. subst o. unfold elems0, elems, set_elems. rewrite jget_jset_same.
  destruct l as [|x [|y r]]; simpl; try reflexivity.
  simpl in Hl. apply andb_true_iff in Hl. destruct Hl as [Hx _]. destruct x; simpl in Hx; try discriminate; reflexivity.
Qed.

Lemma e_type_some p e v : e_type p e = Some v -> v = e /\ exists m, e = JObj m.
Proof.
  unfold e_type. destruct e as [| | | | |m]; try discriminate.
  destruct (jtype (JObj m)); try discriminate. destruct (known_type s && admits p s); try discriminate.
  intros H. inversion H. split; [reflexivity|eexists; reflexivity].
Qed.

Lemma e_type_self p v m : v = JObj m -> jtype v = jtype v -> forall v', jtype v' = jtype v -> (exists m', v' = JObj m') ->
  e_type p v = Some v -> e_type p v' = Some v'.
Proof.
  intros Hv _ v' Ht [m' Hm'] E. subst v v'. unfold e_type in *. rewrite Ht.
  destruct (jtype (JObj m)); try discriminate. destruct (known_type s && admits p s); try discriminate. reflexivity.
Qed.

Lemma strip_obj m : exists m', (let v := if vhas (JObj m) "bto" then jremove "bto" (JObj m) else JObj m in
                                 if vhas v "bcc" then jremove "bcc" v else v) = JObj m'.
Proof.
  cbv zeta. destruct (vhas (JObj m) "bto").
  - destruct (vhas (jremove "bto" (JObj m)) "bcc"); eexists; reflexivity.
  - destruct (vhas (JObj m) "bcc"); eexists; reflexivity.
Qed.

Lemma e_type_strip_elem e : match e_type "object" (strip_elem e) with
                            | Some v => hidden_on v = false
                            | None => True end.
Proof.
  unfold strip_elem. destruct (e_type "object" e) as [v|] eqn:E; [|rewrite E; exact I].
  (* e is an embedded value v = e; the stripped value has the same type, so it is still a value *)
  assert (Hv : v = e) by (unfold e_type in E; destruct e; try discriminate; destruct (jtype (JObj m)); try discriminate;
                          destruct (known_type s && admits "object" s); inversion E; reflexivity).
  subst v.
  set (v1 := if vhas e "bto" then jremove "bto" e else e).
  set (v2 := if vhas v1 "bcc" then jremove "bcc" v1 else v1).
  assert (T2 : jtype v2 = jtype e).
  { unfold v2, v1. destruct (vhas e "bto"); destruct (vhas _ "bcc"); rewrite ?jtype_jremove by discriminate; reflexivity. }
  assert (O2 : exists m, v2 = JObj m).
  { destruct (e_type_some _ _ _ E) as [_ [m Hm]]. unfold v2, v1. rewrite Hm. exact (strip_obj m). }
  destruct O2 as [m2 Hm2].
  assert (E2 : e_type "object" v2 = Some v2).
  { destruct (e_type_some _ _ _ E) as [_ [m Hm]].
    apply (e_type_self "object" e m Hm eq_refl); [exact T2|exists m2; exact Hm2|exact E]. }
  rewrite E2. apply hidden_on_strip.
Qed.

Theorem strip_hidden_ok a m : a = JObj m -> flat a = true -> no_hidden (strip_hidden a) = true.
Proof.
  intros Ha Hf. unfold no_hidden, strip_hidden.
  set (a1 := jremove "bcc" (jremove "bto" a)).
  assert (H1 : hidden_on a1 = false).
  { unfold hidden_on, a1, jhas. rewrite jget_jremove_same. rewrite jget_jremove_other by discriminate. rewrite jget_jremove_same.
    rewrite !andb_false_r. reflexivity. }
  assert (Hel : elems "object" a1 = elems "object" a).
  { unfold elems, a1. rewrite !jget_jremove_other by discriminate. reflexivity. }
  assert (Ha1 : exists m1, a1 = JObj m1) by (subst a; unfold a1; simpl; eexists; reflexivity).
  destruct Ha1 as [m1 Hm1].
  rewrite Hel. destruct (elems "object" a) as [l|] eqn:El.
  - assert (Hflat : forallb (fun e => negb (is_arr e)) (map strip_elem l) = true).
    { unfold flat, elems0 in Hf. rewrite El in Hf. rewrite forallb_forall in *. intros x Hx. apply in_map_iff in Hx.
      destruct Hx as [e [Hx He]]. subst x. specialize (Hf e He). unfold strip_elem.
      destruct (e_type "object" e) as [v|] eqn:Et; [|exact Hf].
      destruct (e_type_some _ _ _ Et) as [Hv [me Hme]]. subst v e.
      destruct (vhas _ "bto"); destruct (vhas _ "bcc"); reflexivity. }
    assert (Hh : hidden_on (set_elems "object" (map strip_elem l) a1) = false).
    { unfold hidden_on, set_elems, vhas. rewrite type_name_jset by discriminate. unfold jhas.
      rewrite !jget_jset_other by discriminate. exact H1. }
    rewrite Hh. simpl. rewrite (elems_set_elems "object" _ a1 m1 Hm1 Hflat).
    rewrite forallb_forall. intros x Hx. apply in_map_iff in Hx. destruct Hx as [e [Hx He]]. subst x.
    pose proof (e_type_strip_elem e) as Hs. destruct (e_type "object" (strip_elem e)); [rewrite Hs; reflexivity|reflexivity].
  - rewrite H1. simpl. unfold elems0. rewrite Hel. reflexivity.
Qed.

(* ---- the payload handed to the transport: canonical form of streams.Serialize ---- *)
Lemma type_name_canon v : type_name (canon v) = type_name v.
Proof. unfold type_name. rewrite jtype_canon. reflexivity. Qed.
Lemma type_name_clean f v : type_name (clean_ctx f v) = type_name v.
Proof. unfold type_name. rewrite jtype_clean_ctx. reflexivity. Qed.

Lemma hidden_on_canon v : hidden_on (canon v) = hidden_on v.
Proof. unfold hidden_on, vhas. rewrite type_name_canon, !jhas_canon. reflexivity. Qed.
Lemma hidden_on_clean f v : hidden_on (clean_ctx f v) = hidden_on v.
Proof. unfold hidden_on, vhas. rewrite type_name_clean, !jhas_clean_ctx. reflexivity. Qed.
Lemma hidden_on_rmctx v : hidden_on (jremove "@context" v) = hidden_on v.
Proof. unfold hidden_on, vhas. rewrite type_name_jremove by discriminate. rewrite !jhas_jremove_other by discriminate. reflexivity. Qed.

Lemma canon_obj m : exists m', canon (JObj m) = JObj m'. Proof. eexists. reflexivity. Qed.
Lemma clean_obj f m : exists m', clean_ctx f (JObj m) = JObj m'. Proof. destruct f; eexists; reflexivity. Qed.

Lemma e_type_same_type p e e' : jtype e' = jtype e -> (forall m, e = JObj m -> exists m', e' = JObj m') ->
  (forall m', e' = JObj m' -> exists m, e = JObj m) ->
  match e_type p e, e_type p e' with Some _, Some v' => v' = e' | None, None => True | _, _ => False end.
Proof.
  intros Ht H1 H2. unfold e_type. destruct e as [| | | | |m].
  1-5: destruct e' as [| | | | |m']; try exact I; destruct (H2 m' eq_refl) as [m Hm]; discriminate.
  destruct (H1 m eq_refl) as [m' Hm']. subst e'. rewrite Ht.
  destruct (jtype (JObj m)); [|exact I]. destruct (known_type s && admits p s); [reflexivity|exact I].
Qed.

Definition elem_ok (e : json) : bool := match e_type "object" e with Some v => negb (hidden_on v) | None => true end.

Lemma elem_ok_canon e : elem_ok (canon e) = elem_ok e.
Proof.
  unfold elem_ok.
  pose proof (e_type_same_type "object" e (canon e) (jtype_canon e)) as H.
  assert (H1 : forall m, e = JObj m -> exists m', canon e = JObj m') by (intros m ->; apply canon_obj).
  assert (H2 : forall m', canon e = JObj m' -> exists m, e = JObj m) by (destruct e; simpl; intros m' Hm; try discriminate; eexists; reflexivity).
  specialize (H H1 H2).
  destruct (e_type "object" e) as [v|] eqn:E1; destruct (e_type "object" (canon e)) as [v'|] eqn:E2; try contradiction; [|reflexivity].
  subst v'. destruct (e_type_some _ _ _ E1) as [-> _]. rewrite hidden_on_canon. reflexivity.
Qed.

Lemma elem_ok_clean_val f e : elem_ok (clean_val f e) = elem_ok e.
Proof.
  unfold elem_ok, clean_val. destruct e as [| | | | |m]; try reflexivity.
  set (e := JObj m). set (e' := clean_ctx f (jremove "@context" e)).
  assert (Ht : jtype e' = jtype e) by (unfold e'; rewrite jtype_clean_ctx, jtype_jremove by discriminate; reflexivity).
  assert (H1 : forall m0, e = JObj m0 -> exists m', e' = JObj m') by (intros m0 _; unfold e', e; simpl; apply clean_obj).
  assert (H2 : forall m', e' = JObj m' -> exists m0, e = JObj m0) by (intros; eexists; reflexivity).
  pose proof (e_type_same_type "object" e e' Ht H1 H2) as H.
  destruct (e_type "object" e) as [v|] eqn:E1; destruct (e_type "object" e') as [v'|] eqn:E2; try contradiction; [|reflexivity].
  subst v'. destruct (e_type_some _ _ _ E1) as [-> _]. unfold e'. rewrite hidden_on_clean, hidden_on_rmctx. reflexivity.
Qed.

Theorem no_hidden_payload v m : v = JObj m -> no_hidden (canon (streams_serialize v)) = no_hidden v.
Proof.
  intros Hv. subst v. unfold no_hidden, streams_serialize.
  rewrite hidden_on_canon, hidden_on_clean, hidden_on_rmctx. f_equal.
  fold elem_ok.
  change (forallb elem_ok (elems0 "object" (canon (clean_ctx (S (jdepth1 (JObj m))) (jremove "@context" (JObj m))))) =
          forallb elem_ok (elems0 "object" (JObj m))).
  set (f := jdepth1 (JObj m)). unfold elems0, elems.
  rewrite jget_canon. simpl (jremove "@context" (JObj m)). rewrite jget_clean_ctx.
  change (jget "object" (JObj (remove_key "@context" m))) with (jget "object" (jremove "@context" (JObj m))).
  rewrite jget_jremove_other by discriminate.
  destruct (jget "object" (JObj m)) as [w|]; [|reflexivity]. simpl.
  destruct w as [| | | | l | mo]; try reflexivity.
  - (* an array of elements *)
    simpl. induction l as [|e r IH]; [reflexivity|]. simpl. rewrite elem_ok_canon. f_equal. exact IH.
  - (* a single embedded value *)
    destruct (canon_obj mo) as [mo' _].
    assert (Hc : exists mm, canon (clean_val f (JObj mo)) = JObj mm).
    { unfold clean_val. change (jremove "@context" (JObj mo)) with (JObj (remove_key "@context" mo)).
      destruct (clean_obj f (remove_key "@context" mo)) as [m1 H1]. rewrite H1. apply canon_obj. }
    destruct Hc as [mm Hmm]. rewrite Hmm. simpl. rewrite <- Hmm. rewrite elem_ok_canon, elem_ok_clean_val. reflexivity.
Qed.

(* ---- the GET handler: bto/bcc removed at every depth of object nesting ---- *)
Fixpoint deep_flat (fuel : nat) (v : json) : bool :=
  match fuel with
  | O => true
  | S f => if vhas v "object" then
             forallb (fun e => negb (is_arr e) && match e_type "object" e with Some x => deep_flat f x | None => true end) (elems0 "object" v)
           else true
  end.
Lemma set_elems_obj p l m : exists m', set_elems p l (JObj m) = JObj m'.
Proof. unfold set_elems, jset. eexists. reflexivity. Qed.

Lemma clear_sensitive_obj f m : exists m', clear_sensitive f (JObj m) = JObj m'.
Proof.
  destruct f; [eexists; reflexivity|]. cbn [clear_sensitive].
  set (v1 := if vhas (JObj m) "bto" then jremove "bto" (JObj m) else JObj m).
  assert (O1 : exists m1, v1 = JObj m1) by (unfold v1; destruct (vhas (JObj m) "bto"); eexists; reflexivity).
  destruct O1 as [m1 ->].
  set (v2 := if vhas (JObj m1) "bcc" then jremove "bcc" (JObj m1) else JObj m1).
  assert (O2 : exists m2, v2 = JObj m2) by (unfold v2; destruct (vhas (JObj m1) "bcc"); eexists; reflexivity).
  destruct O2 as [m2 ->].
  destruct (vhas (JObj m2) "object"); [|eexists; reflexivity].
  destruct (elems "object" (JObj m2)); [apply set_elems_obj|eexists; reflexivity].
Qed.

Lemma jtype_clear_sensitive f v : jtype (clear_sensitive f v) = jtype v.
Proof.
  destruct f; [reflexivity|]. cbn [clear_sensitive].
  set (v1 := if vhas v "bto" then jremove "bto" v else v).
  assert (T1 : jtype v1 = jtype v) by (unfold v1; destruct (vhas v "bto"); [apply jtype_jremove; discriminate|reflexivity]).
  set (v2 := if vhas v1 "bcc" then jremove "bcc" v1 else v1).
  assert (T2 : jtype v2 = jtype v) by (unfold v2; destruct (vhas v1 "bcc"); [rewrite jtype_jremove by discriminate; exact T1|exact T1]).
  destruct (vhas v2 "object"); [|exact T2]. destruct (elems "object" v2); [|exact T2].
  unfold set_elems, jtype. rewrite jget_jset_other by discriminate. exact T2.
Qed.

Theorem clear_sensitive_ok fuel : forall v m, v = JObj m -> deep_flat fuel v = true ->
  deep_no_hidden fuel (clear_sensitive fuel v) = true.
Proof.
  induction fuel as [|f IH]; intros v m Hv Hf; [reflexivity|].
  cbn [clear_sensitive deep_no_hidden].
  set (v1 := if vhas v "bto" then jremove "bto" v else v).
  set (v2 := if vhas v1 "bcc" then jremove "bcc" v1 else v1).
  assert (H2 : hidden_on v2 = false) by apply hidden_on_strip.
  assert (T2 : type_name v2 = type_name v).
  { unfold v2, v1. destruct (vhas v "bto"); destruct (vhas _ "bcc"); rewrite ?type_name_jremove by discriminate; reflexivity. }
  assert (O2 : exists m2, v2 = JObj m2).
  { subst v. unfold v2, v1. exact (strip_obj m). }
  destruct O2 as [m2 Hm2].
  assert (E2 : elems "object" v2 = elems "object" v).
  { unfold elems, v2, v1. destruct (vhas v "bto"); destruct (vhas _ "bcc"); rewrite ?jget_jremove_other by discriminate; reflexivity. }
  assert (Vo : vhas v2 "object" = vhas v "object") by (unfold vhas; rewrite T2; reflexivity).
  rewrite Vo. cbn [deep_flat] in Hf. destruct (vhas v "object") eqn:Ho.
  - rewrite E2. destruct (elems "object" v) as [l|] eqn:El.
    + set (g := fun e => match e_type "object" e with Some x => clear_sensitive f x | None => e end).
      assert (Hl : forallb (fun e => negb (is_arr e)) (map g l) = true).
      { unfold elems0 in Hf. rewrite El in Hf. rewrite forallb_forall in *. intros x Hx. apply in_map_iff in Hx.
        destruct Hx as [e [Hx He]]. subst x. specialize (Hf e He). apply andb_true_iff in Hf. destruct Hf as [Hf1 _].
        unfold g. destruct (e_type "object" e) as [x|] eqn:Et; [|exact Hf1].
        destruct (e_type_some _ _ _ Et) as [-> [me ->]]. destruct (clear_sensitive_obj f me) as [m' ->]. reflexivity. }
      assert (Hh : hidden_on (set_elems "object" (map g l) v2) = false).
      { unfold hidden_on, set_elems, vhas. rewrite type_name_jset by discriminate. unfold jhas.
        rewrite !jget_jset_other by discriminate. exact H2. }
      rewrite Hh. cbn [negb andb].
      assert (Vo2 : vhas (set_elems "object" (map g l) v2) "object" = true)
        by (unfold vhas, set_elems; rewrite type_name_jset by discriminate; rewrite T2; exact Ho).
      rewrite Vo2. rewrite (elems_set_elems "object" _ v2 m2 Hm2 Hl).
      rewrite forallb_forall. intros x Hx. apply in_map_iff in Hx. destruct Hx as [e [Hx He]]. subst x.
      unfold elems0 in Hf. rewrite El in Hf. rewrite forallb_forall in Hf. specialize (Hf e He).
      apply andb_true_iff in Hf. destruct Hf as [_ Hf2]. unfold g.
      destruct (e_type "object" e) as [x|] eqn:Et.
      * destruct (e_type_some _ _ _ Et) as [-> [me Hme]].
        assert (Ec : e_type "object" (clear_sensitive f e) = Some (clear_sensitive f e)).
        { apply (e_type_self "object" e me Hme eq_refl); [apply jtype_clear_sensitive|subst e; apply clear_sensitive_obj|exact Et]. }
        rewrite Ec. apply (IH e me Hme Hf2).
      * rewrite Et. reflexivity.
    + rewrite H2. cbn [negb andb]. rewrite Vo. unfold elems0. rewrite E2. reflexivity.
  - rewrite H2. rewrite Vo. reflexivity.
Qed.

(* ---- Deliver hands exactly the stripped activity to the transport, once ---- *)
Definition pexp (expected : json) (e : ev) : bool :=
  match e with EBatchDeliver p _ => jeqb p expected | _ => true end.

Ltac o_side := intros; reflexivity.
Ltac o_step :=
  match goal with
  | |- True => exact I
  | |- only _ (Ret _) => exact I
  | |- only _ (ok _) => exact I
  | |- only _ (fail _) => exact I
  | |- only _ (ret _) => exact I
  | |- only _ (lift _) => exact I
  | |- only _ (inboxes_from_db _) => apply q_inboxes_from_db with (dbok := fun _ => true); o_side
  | |- only _ (resolve_actors _ _) => apply q_resolve_actors; o_side
  | |- only _ max_delivery_depth => apply q_max_delivery_depth; o_side
  | |- only _ (bind _ _) => apply quiet_bind; [|intros]
  | |- only _ (bindr _ _) => apply quiet_bindr; [|intros]
  | |- only _ (Op (EBatchDeliver _ _) _) => split; [apply jeqb_refl|intros]
  | |- only _ (Op _ _) => split; [reflexivity|intros]
  | |- _ = _ /\ _ => split; [reflexivity|intros]
  | |- only _ (match ?x with _ => _ end) => destruct x
  | |- only _ (if ?b then _ else _) => destruct b
  end.

Lemma only_deliver outbox a : only (pexp (canon (streams_serialize (strip_hidden a)))) (deliver outbox a).
Proof.
  unfold deliver, deliver_to_recipients, batch_deliver, new_transport, lock, unlock, db_iri, db_json, db, call.
  repeat o_step.
Qed.

Definition pay_step (expected : json) (st : unit) (e : ev) (x : ans) : option unit :=
  if pexp expected e then Some tt else None.

Theorem deliver_payload outbox a :
  wp (pay_step (canon (streams_serialize (strip_hidden a)))) (deliver outbox a) tt (fun _ _ => True).
Proof.
  apply (only_wp (pexp (canon (streams_serialize (strip_hidden a)))) (pay_step _) (fun _ => True)); auto.
  - intros s e x _ He. exists tt. unfold pay_step. rewrite He. split; [reflexivity|exact I].
  - apply only_deliver.
Qed.
