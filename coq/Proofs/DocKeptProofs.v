(* C01 at the level of the document function: nothing is dropped silently (members_kept lifted to rt_doc), and exactness made
   decidable for the shipped codecs (canonical_scalar <-> lexical, canonical_doc -> rt_shipped d = d without its @context). *)
From Coq Require Import String List Bool Arith ZArith Lia.
From Verif Require Import Base.ListX Base.Json Vocab.Tables Gen.TablesShipped Streams.Literals Streams.Codec Streams.CodecInst.
From Verif Require Import Proofs.CodecProofs Proofs.IdemProofs Proofs.TimeIdemProofs Proofs.DocIdemProofs.
Import ListNotations.
Open Scope nat_scope.
Open Scope string_scope.
Open Scope list_scope.

(* what Serialize does to a member value of the top-level map: @context is deleted from it and from the maps reached through its
   maps (15 further levels); anything that is not an object, and an object without such @context members, is left as it is *)
Definition clean_val (v : json) : json := cv 16 v.
Lemma clean_val_not_obj v : (forall em, v <> JObj em) -> clean_val v = v.
Proof. intros H. unfold clean_val. cbn [cv]. destruct v; try reflexivity. exfalso. eapply H. reflexivity. Qed.
Lemma clean_val_ctxfree em : ctxfree 15 em = true -> clean_val (JObj em) = JObj em.
Proof. intros H. unfold clean_val. cbn [cv]. rewrite (ctxfree_K 15 em H). reflexivity. Qed.
Lemma clean_val_obj em : clean_val (JObj em) = JObj (clean_maps 15 (remove_key "@context" em)).
Proof. reflexivity. Qed.

Lemma assoc_remove_key_some x k (l : list (string * json)) : assoc k (remove_key x l) <> None -> assoc k l <> None.
Proof.
  intros H. destruct (assoc k (remove_key x l)) as [v|] eqn:E; [|congruence]. apply assoc_In in E. apply In_remove_key in E.
  destruct E as [E _]. exact (In_assoc _ _ _ E).
Qed.

(* K1: every member of the input other than the top-level @context comes back: an unknown member as it is, a known one under
   the name its value calls for - both up to clean_val.  What may be lost is exactly: (i) the top-level @context (rebuilt by
   Serialize: cx_doc), (ii) @context members of nested maps (clean_val), (iii) a known member whose value encodes to null,
   (iv) the Map spelling of a property given next to the plain one (finding F13). *)
Theorem rt_doc_members_kept : forall T P url_ok norm_iri norm n m d1,
  rt_doc T P url_ok norm_iri norm n (JObj m) = Some d1 ->
  exists row m', type_of_doc T m = Some row /\ d1 = JObj m' /\
    forall kv, In kv m -> fst kv <> "@context" ->
      match prop_of_key P row (fst kv) with
      | None => In (fst kv, clean_val (snd kv)) m'
      | Some (p, is_map) =>
          let w := rt_prop T url_ok norm_iri norm (rt_type T P url_ok norm_iri norm (pred n)) p (snd kv) in
          (is_map = true /\ assoc (p_name p) m <> None) \/ w = JNull \/ In (out_name p w, clean_val w) m'
      end.
Proof.
  intros T P url_ok norm_iri norm n m d1 H. unfold rt_doc in H. destruct (type_of_doc T m) as [row|] eqn:Etd; [|discriminate].
  destruct (rt_type T P url_ok norm_iri norm n row (remove_key "@context" m)) as [mm|] eqn:Ert; [|discriminate].
  exists row, (clean_maps 16 mm). split; [reflexivity|]. split; [congruence|]. intros kv Hin Hne.
  assert (Hin0 : In kv (remove_key "@context" m)) by (apply In_remove_key; split; assumption).
  pose proof (members_kept T P url_ok norm_iri norm n row _ mm Ert kv Hin0) as Hk.
  assert (Hcl : forall x, In x mm -> In (fst x, clean_val (snd x)) (clean_maps 16 mm)).
  { intros x Hx. rewrite clean_maps_map. apply in_map_iff. exists x. split; [reflexivity|exact Hx]. }
  destruct (prop_of_key P row (fst kv)) as [[p is_map]|].
  - cbv zeta. destruct Hk as [[H1 H2]|[H2|H2]].
    + left. split; [exact H1|]. exact (assoc_remove_key_some _ _ _ H2).
    + right. left. exact H2.
    + right. right. exact (Hcl _ H2).
  - destruct kv as [k v]. exact (Hcl _ Hk).
Qed.
Print Assumptions rt_doc_members_kept.

(* K2: the shipped instance *)
Theorem rt_shipped_members_kept : forall m d1, rt_shipped (JObj m) = Some d1 ->
  exists row m', type_of_doc types_shipped m = Some row /\ d1 = JObj m' /\
    forall kv, In kv m -> fst kv <> "@context" ->
      match prop_of_key props_shipped row (fst kv) with
      | None => In (fst kv, clean_val (snd kv)) m'
      | Some (p, is_map) =>
          let w := rt_prop types_shipped url_ok norm_iri norm (rt_type types_shipped props_shipped url_ok norm_iri norm 7) p (snd kv) in
          (is_map = true /\ assoc (p_name p) m <> None) \/ w = JNull \/ In (out_name p w, clean_val w) m'
      end.
Proof. intros m d1 H. exact (rt_doc_members_kept types_shipped props_shipped url_ok norm_iri norm 8 m d1 H). Qed.

(* the four ways a member can go, on one document *)
Definition kept_doc : json :=
  JObj [("@context", JStr "https://www.w3.org/ns/activitystreams"); ("type", JStr "Note");
        ("name", JStr "both"); ("nameMap", JObj [("en", JStr "spellings")]);
        ("bcc", JNull); ("content", JObj [("en", JStr "hello")]);
        ("ext", JObj [("@context", JNum 1); ("v", JArr [JNull; JObj [("@context", JNum 2)]])])].
Example kept_example :
  rt_shipped kept_doc = Some (JObj [("type", JStr "Note"); ("name", JStr "both"); ("contentMap", JObj [("en", JStr "hello")]);
                                    ("ext", JObj [("v", JArr [JNull; JObj [("@context", JNum 2)]])])]).
Proof. vm_compute. reflexivity. Qed.

(* ================= K3: exactness, decidable for the shipped codecs ================= *)
(* a value every shipped literal codec that accepts it returns unchanged: not the numbers 0 and 1 (xsd:boolean writes them
   false / true), a string that reads as a dateTime only in the form rfc3339_off prints, one that reads as a duration only in
   the form print_duration prints *)
Definition canonical_scalar (e : json) : bool :=
  match e with
  | JNum z => negb ((z =? 0)%Z || (z =? 1)%Z)
  | JStr s => match parse_datetime s with Some (u, off) => String.eqb (rfc3339_off u off) s | None => true end &&
              match parse_duration s with DOk ns => String.eqb (print_duration ns) s | _ => true end
  | _ => true
  end.

Theorem canonical_scalar_lexical e : canonical_scalar e = true <-> lexical url_ok norm_iri norm e.
Proof.
  split.
  - intros Hc. split; [|intros s _ _; reflexivity]. intros k v H.
    destruct (norm_inv k e v H) as [s ? ? Hv|s ? ? ? Hv|b ? ? Hv|? He Hv|? He Hv|z ? ? Hv|z ? ? Hv|? ? Hv|s u off _ He Hp Hv|s ns _ He Hp Hv]; try exact Hv.
    + subst e. discriminate.
    + subst e. discriminate.
    + subst e v. cbn [canonical_scalar] in Hc. rewrite Hp in Hc. apply andb_true_iff in Hc. destruct Hc as [Hc _].
      apply String.eqb_eq in Hc. rewrite Hc. reflexivity.
    + subst e v. cbn [canonical_scalar] in Hc. rewrite Hp in Hc. apply andb_true_iff in Hc. destruct Hc as [_ Hc].
      apply String.eqb_eq in Hc. rewrite Hc. reflexivity.
  - intros [Hl _]. destruct e as [| |z|s| |]; try reflexivity.
    + cbn [canonical_scalar]. destruct (Z.eqb_spec z 0) as [E|E0].
      * subst z. specialize (Hl "@boolean" (JBool false) eq_refl). discriminate.
      * destruct (Z.eqb_spec z 1) as [E|E1]; [|reflexivity]. subst z. specialize (Hl "@boolean" (JBool true) eq_refl). discriminate.
    + cbn [canonical_scalar]. apply andb_true_iff. split.
      * destruct (parse_datetime s) as [[u off]|] eqn:Ep; [|reflexivity].
        assert (E : norm "@datetime" (JStr s) = Some (JStr (rfc3339_off u off))).
        { change (norm "@datetime" (JStr s)) with (match parse_datetime s with Some (u0, off0) => Some (JStr (rfc3339_off u0 off0)) | None => None end).
          rewrite Ep. reflexivity. }
        specialize (Hl _ _ E). inversion Hl as [Hs]. rewrite Hs. apply String.eqb_refl.
      * destruct (parse_duration s) as [ns| |] eqn:Ep; try reflexivity.
        assert (E : norm "@duration" (JStr s) = Some (JStr (print_duration ns))).
        { change (norm "@duration" (JStr s)) with (match parse_duration s with DOk ns0 => Some (JStr (print_duration ns0)) | _ => None end).
          rewrite Ep. reflexivity. }
        specialize (Hl _ _ E). inversion Hl as [Hs]. rewrite Hs. apply String.eqb_refl.
Qed.
Print Assumptions canonical_scalar_lexical.

(* canonical members as a boolean, for every row at once: a key is judged as the plain spelling of the property of that name
   and as the Map spelling of every property <name> with <name>Map = key (whichever a row makes of it) *)
Section Canonical.
  Variable P : list prop_row.
  Definition is_null (v : json) : bool := match v with JNull => true | _ => false end.
  Definition is_single (v : json) : bool := match v with JArr [_] => true | _ => false end.
  Definition absent {A} (o : option A) : bool := match o with None => true | Some _ => false end.

  Fixpoint cm_bool (fuel : nat) (m : list (string * json)) : bool :=
    match fuel with
    | O => true
    | S f =>
        let celem := fun x => canonical_scalar x && match x with JObj em => cm_bool f em | _ => true end in
        let chk := fun (p : prop_row) (is_map : bool) (v : json) =>
          negb (is_null v) && (p_functional p || negb (is_single v)) &&
          Bool.eqb is_map (p_has_map p && is_langstring v) && (negb is_map || absent (assoc (p_name p) m)) &&
          match v with JArr l => if p_functional p then celem v else forallb celem l | x => celem x end in
        forallb (fun kv =>
          match prow P (fst kv) with Some p => chk p false (snd kv) | None => true end &&
          forallb (fun p' => if p_has_map p' && String.eqb (String.append (p_name p') "Map") (fst kv) then chk p' true (snd kv) else true) P) m
    end.

  Theorem cm_bool_cmembers : forall n m, cm_bool n m = true -> forall r, cmembers P url_ok norm_iri norm n r m.
  Proof.
    induction n as [|f IH]; intros m H r; [exact I|]. cbn [cmembers]. apply Forall_forall. intros [k v] Hin. cbn [fst snd].
    destruct (prop_of_key P r k) as [[p b]|] eqn:Ek; [|exact I].
    destruct (pk_key P r k p b Ek) as [HP [_ [Ep [Hkey Hbm]]]].
    cbn [cm_bool] in H. rewrite forallb_forall in H. specialize (H (k, v) Hin). cbn [fst snd] in H.
    apply andb_true_iff in H. destruct H as [Ha Hb].
    set (celem := fun x => canonical_scalar x && match x with JObj em => cm_bool f em | _ => true end) in *.
    assert (Hce : forall x, celem x = true -> celem_with url_ok norm_iri norm (cmembers P url_ok norm_iri norm f) x).
    { intros x Hx. unfold celem in Hx. apply andb_true_iff in Hx. destruct Hx as [Hx1 Hx2]. split; [apply canonical_scalar_lexical; exact Hx1|].
      destruct x; try exact I. intros r0. exact (IH _ Hx2 r0). }
    assert (Hchk : negb (is_null v) && (p_functional p || negb (is_single v)) &&
                   Bool.eqb b (p_has_map p && is_langstring v) && (negb b || absent (assoc (p_name p) m)) &&
                   match v with JArr l => if p_functional p then celem v else forallb celem l | x => celem x end = true).
    { destruct b.
      - rewrite forallb_forall in Hb. specialize (Hb p HP). cbn beta in Hb.
        assert (Hcond : p_has_map p && String.eqb (String.append (p_name p) "Map") k = true) by (rewrite (Hbm eq_refl), Hkey, String.eqb_refl; reflexivity).
        rewrite Hcond in Hb. exact Hb.
      - rewrite Hkey, Ep in Ha. exact Ha. }
    clear Ha Hb. repeat (apply andb_true_iff in Hchk; destruct Hchk as [Hchk ?]).
    repeat match goal with
    | |- _ /\ _ => split
    end.
    - intros E. subst v. discriminate.
    - intros Hnf x E. subst v. rewrite Hnf in *. discriminate.
    - apply eqb_prop. assumption.
    - intros Eb. subst b. match goal with Hx : negb true || absent _ = true |- _ => cbn [negb orb] in Hx; destruct (assoc (p_name p) m); [discriminate|reflexivity] end.
    - exact Hkey.
    - match goal with Hx : match v with JArr _ => _ | _ => _ end = true |- _ => rename Hx into Hel end.
      destruct v as [| | | |l|em]; try (apply Hce; exact Hel).
      destruct (p_functional p); [apply Hce; exact Hel|]. apply Forall_forall. intros x Hx. apply Hce. rewrite forallb_forall in Hel. exact (Hel x Hx).
  Qed.
End Canonical.

(* a document in canonical form, decidably: a known type, canonical members for every row, no @context where Serialize deletes it *)
Definition canonical_doc (d : json) : bool :=
  match d with
  | JObj m => present (type_of_doc types_shipped m) && cm_bool props_shipped 8 (remove_key "@context" m) && ctxfree 16 (remove_key "@context" m)
  | _ => false
  end.
Theorem rt_shipped_canonical : forall d, canonical_doc d = true -> rt_shipped d = Some (jremove "@context" d).
Proof.
  intros d H. destruct d as [| | | | |m]; try discriminate. cbn [canonical_doc] in H.
  apply andb_true_iff in H. destruct H as [H Hctx]. apply andb_true_iff in H. destruct H as [Htd Hcm].
  destruct (type_of_doc types_shipped m) as [row|] eqn:Etd; [|discriminate].
  unfold rt_shipped. cbn [jremove].
  exact (rt_doc_identity types_shipped props_shipped url_ok norm_iri norm 7 m row Etd
           (cm_bool_cmembers props_shipped 8 _ Hcm row) (ctxfree_clean 16 _ Hctx)).
Qed.
Print Assumptions rt_shipped_canonical.

Example canonical_doc_example :
  canonical_doc (JObj (("@context", JStr "https://www.w3.org/ns/activitystreams") :: jfields canon_doc)) = true /\
  canonical_doc idem_doc = false /\ canonical_doc idem_doc1 = true /\
  canonical_scalar (JStr "2020-02-03T04:05+01:00") = false /\ canonical_scalar (JStr "2020-02-03T04:05:00+01:00") = true /\
  canonical_scalar (JStr "PT3600S") = false /\ canonical_scalar (JStr "PT1H") = true /\ canonical_scalar (JNum 1) = false.
Proof. repeat split; vm_compute; reflexivity. Qed.
