(* C08, the bridge: every collection update of the sequential model of package pub IS one critical section of Conc/Model.v -
   bracketed by Lock/Unlock of one id, nothing but Database calls in between, the reads first and at most one write, last;
   and the value written is `Model.write` of the value read under that same hold.  For EVERY environment (any answers). *)
From Coq Require Import String List Bool Arith.
From Verif Require Import Base.ListX Base.Json Base.Free Pub.Events Pub.Calls Pub.Value Pub.EffectSpec Pub.Util Pub.SideEffect Pub.Fed Pub.Soc.
From Verif Require Import Proofs.ValueProofs Proofs.DeliveryProofs Proofs.ForwardIffProofs Proofs.OrderProofs.
From Verif Require Conc.Model.
Import ListNotations.
Open Scope string_scope.
Open Scope list_scope.

Local Opaque has_prop known_type admits vhas T P.

(* ================================================================================================================== *)
(* S0 - what a section is, on the events of a run                                                                     *)
(* ================================================================================================================== *)
Definition is_dbev (e : ev) : bool := match e with EDb _ _ => true | _ => false end.
Definition ans_ok (x : ans) : bool := match x with AOk => true | _ => false end.
Definition db_op (ops : list string) (e : ev) : bool := match e with EDb op _ => mem op ops | _ => false end.

(* between Lock and Unlock: Database calls only; reads, then at most one write, which is the last call *)
Fixpoint body_okb (reads writes : ev -> bool) (l : list ev) : bool :=
  match l with
  | [] => true
  | e :: r => is_dbev e && (if reads e then body_okb reads writes r else writes e && match r with [] => true | _ => false end)
  end.

(* locked: did Lock succeed?  If not, the Lock call is all that happened. *)
Definition is_section (i : string) (reads writes : ev -> bool) (locked : bool) (tr : list ev) : Prop :=
  if locked then exists body, tr = ELock i :: body ++ [EUnlock i] /\ body_okb reads writes body = true
  else tr = [ELock i].

(* the same, read declaratively *)
Lemma body_ok_facts reads writes : forall l, body_okb reads writes l = true ->
  Forall (fun e => is_dbev e = true) l /\
  exists rs ws, l = rs ++ ws /\ Forall (fun e => reads e = true) rs /\
                (ws = [] \/ exists w, ws = [w] /\ writes w = true /\ reads w = false).
Proof.
  induction l as [|e r IH]; cbn [body_okb]; intros H.
  - split; [constructor|]. exists [], []. split; [reflexivity|]. split; [constructor|left; reflexivity].
  - apply andb_true_iff in H. destruct H as [Hd H]. destruct (reads e) eqn:Er.
    + destruct (IH H) as [I1 [rs [ws [-> [I2 I3]]]]]. split; [constructor; assumption|].
      exists (e :: rs), ws. split; [reflexivity|]. split; [constructor; assumption|exact I3].
    + apply andb_true_iff in H. destruct H as [Hw Hr]. destruct r as [|x r]; [|discriminate Hr].
      split; [constructor; [exact Hd|constructor]|]. exists [], [e]. split; [reflexivity|]. split; [constructor|].
      right. exists e. split; [reflexivity|]. split; assumption.
Qed.

(* ---- events and results of the calls, for an arbitrary environment ---- *)
Lemma evs_Op {A} env e (k : ans -> prog A) : evs_env env (Op e k) = e :: evs_env env (k (env e)).
Proof. unfold evs_env. cbn [run_env]. destruct (run_env env (k (env e))). reflexivity. Qed.
Lemma res_Op {A} env e (k : ans -> prog A) : res_env env (Op e k) = res_env env (k (env e)).
Proof. unfold res_env. cbn [run_env]. destruct (run_env env (k (env e))). reflexivity. Qed.
Lemma evs_Ret {A} env (a : A) : evs_env env (Ret a) = [].
Proof. reflexivity. Qed.
Lemma res_Ret {A} env (a : A) : res_env env (Ret a) = a.
Proof. reflexivity. Qed.

Lemma evs_lock env i : evs_env env (lock i) = [ELock i].
Proof. unfold lock, call. cbn [bind]. rewrite evs_Op. destruct (env (ELock i)); reflexivity. Qed.
Lemma res_lock env i : res_env env (lock i) = if ans_ok (env (ELock i)) then Ok tt else Err EGeneric.
Proof. unfold lock, call. cbn [bind]. rewrite res_Op. destruct (env (ELock i)); reflexivity. Qed.

Lemma wld_evs {A} env i (body : prog (res A)) :
  evs_env env (with_lock_deferred i body) = ELock i :: (if ans_ok (env (ELock i)) then evs_env env body ++ [EUnlock i] else []).
Proof.
  unfold with_lock_deferred. rewrite evs_env_bindr, evs_lock, res_lock. cbn [app]. f_equal.
  destruct (ans_ok (env (ELock i))); [|reflexivity]. rewrite evs_env_bind. f_equal.
  unfold unlock, call. cbn [bind]. rewrite evs_Op. reflexivity.
Qed.
Lemma wld_res {A} env i (body : prog (res A)) :
  res_env env (with_lock_deferred i body) = if ans_ok (env (ELock i)) then res_env env body else Err EGeneric.
Proof.
  unfold with_lock_deferred. rewrite res_env_bindr, res_lock. destruct (ans_ok (env (ELock i))); [|reflexivity].
  rewrite res_env_bind. reflexivity.
Qed.

Lemma wld_section {A} env i reads writes (body : prog (res A)) :
  body_okb reads writes (evs_env env body) = true ->
  is_section i reads writes (ans_ok (env (ELock i))) (evs_env env (with_lock_deferred i body)).
Proof.
  intros H. rewrite wld_evs. unfold is_section. destruct (ans_ok (env (ELock i))); [|reflexivity].
  exists (evs_env env body). split; [reflexivity|exact H].
Qed.

(* the Database calls *)
Lemma evs_db_bool env op args : evs_env env (db_bool op args) = [EDb op (map canon args)].
Proof. unfold db_bool, db, call. cbn [bind]. rewrite evs_Op. destruct (env _); reflexivity. Qed.
Lemma res_db_bool env op args : res_env env (db_bool op args) = match env (EDb op (map canon args)) with ABool b => Ok b | _ => Err EGeneric end.
Proof. unfold db_bool, db, call. cbn [bind]. rewrite res_Op. destruct (env _); reflexivity. Qed.
Lemma evs_db_json env op args : evs_env env (db_json op args) = [EDb op (map canon args)].
Proof. unfold db_json, db, call. cbn [bind]. rewrite evs_Op. destruct (env _); reflexivity. Qed.
Lemma res_db_json env op args : res_env env (db_json op args) = match env (EDb op (map canon args)) with AJson j => Ok j | _ => Err EGeneric end.
Proof. unfold db_json, db, call. cbn [bind]. rewrite res_Op. destruct (env _); reflexivity. Qed.
Lemma evs_db_unit env op args : evs_env env (db_unit op args) = [EDb op (map canon args)].
Proof. unfold db_unit, db, call. cbn [bind]. rewrite evs_Op. destruct (env _); reflexivity. Qed.
Lemma res_db_unit env op args : res_env env (db_unit op args) = if ans_ok (env (EDb op (map canon args))) then Ok tt else Err EGeneric.
Proof. unfold db_unit, db, call. cbn [bind]. rewrite res_Op. destruct (env _); reflexivity. Qed.
Lemma evs_db_iri env op args : evs_env env (db_iri op args) = [EDb op (map canon args)].
Proof. unfold db_iri, db, call. cbn [bind]. rewrite evs_Op. destruct (env _); reflexivity. Qed.
Lemma res_db_iri env op args : res_env env (db_iri op args) = match env (EDb op (map canon args)) with AIri i => Ok i | _ => Err EGeneric end.
Proof. unfold db_iri, db, call. cbn [bind]. rewrite res_Op. destruct (env _); reflexivity. Qed.

Ltac run_call := rewrite ?evs_env_bindr, ?res_env_bindr, ?evs_db_bool, ?res_db_bool, ?evs_db_json, ?res_db_json, ?evs_db_unit, ?res_db_unit,
                         ?evs_db_iri, ?res_db_iri, ?res_env_lift; cbn [map canon app].

(* ================================================================================================================== *)
(* S4 - a thread holds one lock at a time                                                                             *)
(* ================================================================================================================== *)
(* the lock held while the events go by (None = none); the run is rejected when a Lock is called while one is held, or an
   Unlock does not name the lock held.  A Lock that fails acquires nothing. *)
Fixpoint lock_run (env : ev -> ans) (h : option string) (tr : list ev) : option (option string) :=
  match tr with
  | [] => Some h
  | ELock i :: r => match h with
                    | None => lock_run env (if ans_ok (env (ELock i)) then Some i else None) r
                    | Some _ => None
                    end
  | EUnlock i :: r => match h with
                      | Some j => if String.eqb i j then lock_run env None r else None
                      | None => None
                      end
  | _ :: r => lock_run env h r
  end.
(* every Lock is taken with no lock held, every hold is released, by the end none is held *)
Definition one_lock_at_a_time (env : ev -> ans) (tr : list ev) : Prop := lock_run env None tr = Some None.

Lemma lock_run_app env : forall t1 t2 h, lock_run env h (t1 ++ t2) = match lock_run env h t1 with Some h' => lock_run env h' t2 | None => None end.
Proof.
  induction t1 as [|e r IH]; intros t2 h; [reflexivity|]. rewrite <- app_comm_cons.
  destruct e; cbn [lock_run]; try apply IH.
  - destruct h; [reflexivity|apply IH].
  - destruct h as [j|]; [|reflexivity]. destruct (String.eqb i j); [apply IH|reflexivity].
Qed.
Lemma lock_run_db env : forall l h, Forall (fun e => is_dbev e = true) l -> lock_run env h l = Some h.
Proof.
  induction l as [|e r IH]; intros h H; [reflexivity|]. inversion H as [|x l Hx Hr]; subst.
  destruct e; try discriminate Hx. cbn [lock_run]. apply IH. exact Hr.
Qed.
Lemma one_lock_app env t1 t2 : one_lock_at_a_time env t1 -> one_lock_at_a_time env t2 -> one_lock_at_a_time env (t1 ++ t2).
Proof. unfold one_lock_at_a_time. intros H1 H2. rewrite lock_run_app, H1. exact H2. Qed.
Lemma one_lock_nil env : one_lock_at_a_time env [].
Proof. reflexivity. Qed.

Theorem section_one_lock env i reads writes tr :
  is_section i reads writes (ans_ok (env (ELock i))) tr -> one_lock_at_a_time env tr.
Proof.
  unfold is_section, one_lock_at_a_time. destruct (ans_ok (env (ELock i))) eqn:El.
  - intros [body [-> Hb]]. cbn [lock_run]. rewrite El, lock_run_app.
    rewrite (lock_run_db env body (Some i) (proj1 (body_ok_facts reads writes body Hb))).
    cbn [lock_run]. rewrite String.eqb_refl. reflexivity.
  - intros ->. cbn [lock_run]. rewrite El. reflexivity.
Qed.

(* ================================================================================================================== *)
(* S1 - addToInboxIfNew                                                                                               *)
(* ================================================================================================================== *)
Definition inbox_reads : ev -> bool := db_op ["InboxContains"; "GetInbox"].
Definition inbox_writes : ev -> bool := db_op ["SetInbox"].

Definition inbox_body (inbox : string) (a : json) : prog (res bool) :=
  bindr (db_bool "InboxContains" [JStr inbox; JStr (id_str a)]) (fun contains =>
  if contains then ok false else
  bindr (db_json "GetInbox" [JStr inbox]) (fun ib =>
  bindr (db_unit "SetInbox" [prepend_iri "orderedItems" (id_str a) ib]) (fun _ => ok true))).
Lemma inbox_unfold inbox a : add_to_inbox_if_new inbox a = with_lock_deferred inbox (inbox_body inbox a).
Proof. reflexivity. Qed.

(* the events and the result of the body, for every combination of answers *)
Lemma inbox_body_run env inbox a :
  let e1 := EDb "InboxContains" [JStr inbox; JStr (id_str a)] in
  let e2 := EDb "GetInbox" [JStr inbox] in
  (evs_env env (inbox_body inbox a), res_env env (inbox_body inbox a)) =
  match env e1 with
  | ABool true => ([e1], Ok false)
  | ABool false =>
      match env e2 with
      | AJson ib => let e3 := EDb "SetInbox" [canon (prepend_iri "orderedItems" (id_str a) ib)] in
                    ([e1; e2; e3], if ans_ok (env e3) then Ok true else Err EGeneric)
      | _ => ([e1; e2], Err EGeneric)
      end
  | _ => ([e1], Err EGeneric)
  end.
Proof.
  unfold inbox_body. run_call.
  destruct (env (EDb "InboxContains" [JStr inbox; JStr (id_str a)])) as [| |[|]| | | | | | | |]; try reflexivity.
  run_call. destruct (env (EDb "GetInbox" [JStr inbox])); try reflexivity.
  run_call. destruct (ans_ok _); reflexivity.
Qed.

Theorem inbox_section env inbox a :
  is_section inbox inbox_reads inbox_writes (ans_ok (env (ELock inbox))) (evs_env env (add_to_inbox_if_new inbox a)).
Proof.
  rewrite inbox_unfold. apply wld_section. pose proof (inbox_body_run env inbox a) as H. cbv zeta in H.
  destruct (env (EDb "InboxContains" [JStr inbox; JStr (id_str a)])) as [| |[|]| | | | | | | |];
    try (injection H as -> _; reflexivity).
  destruct (env (EDb "GetInbox" [JStr inbox])); injection H as -> _; reflexivity.
Qed.

(* the value refinement: what a run that answers true / false did *)
Theorem inbox_refines env inbox a :
  let e1 := EDb "InboxContains" [JStr inbox; JStr (id_str a)] in
  let e2 := EDb "GetInbox" [JStr inbox] in
  (res_env env (add_to_inbox_if_new inbox a) = Ok true ->
     env (ELock inbox) = AOk /\ env e1 = ABool false /\
     exists ib, env e2 = AJson ib /\
       let e3 := EDb "SetInbox" [canon (prepend_iri "orderedItems" (id_str a) ib)] in
       env e3 = AOk /\ evs_env env (add_to_inbox_if_new inbox a) = [ELock inbox; e1; e2; e3; EUnlock inbox]) /\
  (res_env env (add_to_inbox_if_new inbox a) = Ok false ->
     env (ELock inbox) = AOk /\ env e1 = ABool true /\
     evs_env env (add_to_inbox_if_new inbox a) = [ELock inbox; e1; EUnlock inbox]) /\
  (* whatever the result: a write, if there is one, writes the page read under this hold with the id put in front *)
  (forall w, In w (evs_env env (add_to_inbox_if_new inbox a)) -> inbox_writes w = true ->
     env e1 = ABool false /\ exists ib, env e2 = AJson ib /\ w = EDb "SetInbox" [canon (prepend_iri "orderedItems" (id_str a) ib)]).
Proof.
  intros e1 e2. rewrite inbox_unfold, wld_res, wld_evs. pose proof (inbox_body_run env inbox a) as H. cbv zeta in H. fold e1 e2 in H.
  destruct (env (ELock inbox)) eqn:El; cbn [ans_ok];
    try (split; [intros Hr; discriminate Hr|split; [intros Hr; discriminate Hr|]];
         intros w [<-|[]] Hw; discriminate Hw).
  destruct (env e1) as [| |[|]| | | | | | | |] eqn:E1;
    try (injection H as -> ->; split; [intros Hr; discriminate Hr|split; [intros Hr; discriminate Hr|]];
         intros w [<-|[<-|[<-|[]]]] Hw; discriminate Hw).
  - injection H as -> ->. split; [intros Hr; discriminate Hr|]. split; [intros _; repeat split; reflexivity|].
    intros w [<-|[<-|[<-|[]]]] Hw; discriminate Hw.
  - destruct (env e2) as [| | | | |ib| | | | |] eqn:E2;
      try (injection H as -> ->; split; [intros Hr; discriminate Hr|split; [intros Hr; discriminate Hr|]];
           intros w [<-|[<-|[<-|[<-|[]]]]] Hw; discriminate Hw).
    injection H as -> ->. split; [|split].
    + intros Hr. split; [reflexivity|]. split; [reflexivity|]. exists ib. split; [reflexivity|]. cbv zeta.
      destruct (env (EDb "SetInbox" [canon (prepend_iri "orderedItems" (id_str a) ib)])); try discriminate Hr. split; reflexivity.
    + intros Hr. destruct (ans_ok (env (EDb "SetInbox" [canon (prepend_iri "orderedItems" (id_str a) ib)]))); discriminate Hr.
    + intros w [<-|[<-|[<-|[<-|[<-|[]]]]]] Hw; try discriminate Hw. split; [reflexivity|]. exists ib. split; reflexivity.
Qed.

(* ---- the link to Conc/Model.v: the ids a page lists ---- *)
Definition page_ids (page : json) : list string := map e_iri (listing page).

Lemma page_ids_prepend i page m : page = JObj m -> all_iris (listing page) ->
  page_ids (canon (prepend_iri "orderedItems" i page)) = i :: page_ids page.
Proof.
  intros Hm Hi. unfold page_ids. rewrite (listing_prepend i page m Hm), (map_canon_iris _ Hi). reflexivity.
Qed.

(* With sec = (collection inbox, id of the activity, conditional) and l = the ids of the page the store holds:
   the thread stops exactly when Model.stops says so, and otherwise the page it writes lists Model.write sec l.
   Hypotheses: the store answers GetInbox with a JSON object listing IRIs, and - the Database contract - InboxContains
   answers whether the id is among them. *)
Theorem inbox_is_model_section env inbox a page m :
  let id := id_str a in
  let sec := {| Model.s_col := inbox; Model.s_id := id; Model.s_cond := true |} in
  let e1 := EDb "InboxContains" [JStr inbox; JStr id] in
  let e2 := EDb "GetInbox" [JStr inbox] in
  env (ELock inbox) = AOk ->
  env e2 = AJson page -> page = JObj m -> all_iris (listing page) ->
  env e1 = ABool (mem id (page_ids page)) ->
  if Model.stops sec (page_ids page)
  then evs_env env (add_to_inbox_if_new inbox a) = [ELock inbox; e1; EUnlock inbox] /\
       res_env env (add_to_inbox_if_new inbox a) = Ok false /\
       Model.write sec (page_ids page) = page_ids page
  else exists w, evs_env env (add_to_inbox_if_new inbox a) = [ELock inbox; e1; e2; EDb "SetInbox" [w]; EUnlock inbox] /\
       page_ids w = Model.write sec (page_ids page) /\
       res_env env (add_to_inbox_if_new inbox a) = (if ans_ok (env (EDb "SetInbox" [w])) then Ok true else Err EGeneric).
Proof.
  intros id sec e1 e2 El E2 Hm Hi E1. rewrite inbox_unfold, wld_res, wld_evs, El. cbn [ans_ok].
  pose proof (inbox_body_run env inbox a) as H. cbv zeta in H. fold id e1 e2 in H. rewrite E1, E2 in H.
  unfold Model.stops, Model.write. cbn [Model.s_cond Model.s_id sec andb].
  destruct (mem id (page_ids page)) eqn:Em.
  - injection H as -> ->. repeat split; reflexivity.
  - injection H as -> ->. exists (canon (prepend_iri "orderedItems" id page)). split; [reflexivity|].
    split; [exact (page_ids_prepend id page m Hm Hi)|reflexivity].
Qed.

(* ================================================================================================================== *)
(* S2 - addToOutbox: a section on the activity's id holding only the Create, then a section on the outbox             *)
(* ================================================================================================================== *)
Lemma evs_unlock env i : evs_env env (unlock i) = [EUnlock i].
Proof. unfold unlock, call. cbn [bind]. rewrite evs_Op. reflexivity. Qed.
Lemma evs_lift {A} env (r : res A) : evs_env env (lift r) = [].
Proof. reflexivity. Qed.

Definition no_ev : ev -> bool := fun _ => false.
Definition outbox_body (outbox : string) (a : json) : prog (res unit) :=
  bindr (db_json "GetOutbox" [JStr outbox]) (fun ob => db_unit "SetOutbox" [prepend_iri "orderedItems" (id_str a) ob]).
Lemma outbox_unfold outbox a :
  add_to_outbox outbox a =
  bindr (lock (id_str a)) (fun _ => bind (db_unit "Create" [a]) (fun r => bind (unlock (id_str a)) (fun _ =>
  bindr (lift r) (fun _ => with_lock_deferred outbox (outbox_body outbox a))))).
Proof. reflexivity. Qed.

Lemma outbox_body_run env outbox a :
  let e1 := EDb "GetOutbox" [JStr outbox] in
  (evs_env env (outbox_body outbox a), res_env env (outbox_body outbox a)) =
  match env e1 with
  | AJson ob => let e2 := EDb "SetOutbox" [canon (prepend_iri "orderedItems" (id_str a) ob)] in
                ([e1; e2], if ans_ok (env e2) then Ok tt else Err EGeneric)
  | _ => ([e1], Err EGeneric)
  end.
Proof.
  unfold outbox_body. run_call. destruct (env (EDb "GetOutbox" [JStr outbox])); try reflexivity.
  run_call. reflexivity.
Qed.

(* the whole trace and result, for every combination of answers *)
Lemma outbox_run env outbox a :
  let id := id_str a in
  let c := EDb "Create" [canon a] in
  evs_env env (add_to_outbox outbox a) =
    (ELock id :: if ans_ok (env (ELock id)) then [c; EUnlock id] else []) ++
    (if ans_ok (env (ELock id)) && ans_ok (env c) then evs_env env (with_lock_deferred outbox (outbox_body outbox a)) else []) /\
  res_env env (add_to_outbox outbox a) =
    if ans_ok (env (ELock id)) && ans_ok (env c) then res_env env (with_lock_deferred outbox (outbox_body outbox a)) else Err EGeneric.
Proof.
  cbv zeta. rewrite outbox_unfold. rewrite evs_env_bindr, res_env_bindr, evs_lock, res_lock.
  destruct (ans_ok (env (ELock (id_str a)))); cbn [andb app]; [|split; reflexivity].
  rewrite evs_env_bind, res_env_bind, evs_db_unit, res_db_unit. cbn [map app].
  rewrite evs_env_bind, res_env_bind, evs_unlock. cbn [app]. rewrite evs_env_bindr, res_env_bindr, evs_lift, res_env_lift. cbn [app].
  destruct (ans_ok (env (EDb "Create" [canon a]))); split; reflexivity.
Qed.

Theorem outbox_sections env outbox a :
  let id := id_str a in
  let c := EDb "Create" [canon a] in
  exists t1 t2, evs_env env (add_to_outbox outbox a) = t1 ++ t2 /\
    is_section id no_ev (db_op ["Create"]) (ans_ok (env (ELock id))) t1 /\
    (forall w, In w t1 -> db_op ["Create"] w = true -> w = c) /\
    if ans_ok (env (ELock id)) && ans_ok (env c)
    then is_section outbox (db_op ["GetOutbox"]) (db_op ["SetOutbox"]) (ans_ok (env (ELock outbox))) t2
    else t2 = [].
Proof.
  intros id c. destruct (outbox_run env outbox a) as [He _]. fold id c in He.
  eexists. eexists. split; [exact He|]. split; [|split].
  - unfold is_section. destruct (ans_ok (env (ELock id))); [|reflexivity]. exists [c]. split; reflexivity.
  - intros w Hin Hw. destruct (ans_ok (env (ELock id))); [destruct Hin as [<-|[<-|[<-|[]]]]|destruct Hin as [<-|[]]]; try discriminate Hw. reflexivity.
  - destruct (ans_ok (env (ELock id)) && ans_ok (env c)); [|reflexivity].
    apply wld_section. pose proof (outbox_body_run env outbox a) as H. cbv zeta in H.
    destruct (env (EDb "GetOutbox" [JStr outbox])); injection H as -> _; reflexivity.
Qed.

(* a write of the outbox, if there is one, writes the page read under this hold with the id put in front; and success means
   every call succeeded *)
Theorem outbox_refines env outbox a :
  let id := id_str a in
  let c := EDb "Create" [canon a] in
  let e1 := EDb "GetOutbox" [JStr outbox] in
  (forall w, In w (evs_env env (add_to_outbox outbox a)) -> db_op ["SetOutbox"] w = true ->
     env (ELock id) = AOk /\ env c = AOk /\ env (ELock outbox) = AOk /\
     exists ob, env e1 = AJson ob /\ w = EDb "SetOutbox" [canon (prepend_iri "orderedItems" id ob)]) /\
  (res_env env (add_to_outbox outbox a) = Ok tt ->
     env (ELock id) = AOk /\ env c = AOk /\ env (ELock outbox) = AOk /\
     exists ob, env e1 = AJson ob /\
       let e2 := EDb "SetOutbox" [canon (prepend_iri "orderedItems" id ob)] in
       env e2 = AOk /\
       evs_env env (add_to_outbox outbox a) = [ELock id; c; EUnlock id; ELock outbox; e1; e2; EUnlock outbox]).
Proof.
  intros id c e1. destruct (outbox_run env outbox a) as [He Hr]. fold id c in He, Hr. rewrite He, Hr. clear He Hr.
  rewrite wld_evs, wld_res. pose proof (outbox_body_run env outbox a) as H. cbv zeta in H. fold id e1 in H.
  assert (OK : forall x, ans_ok x = true -> x = AOk) by (intros x; destruct x; try discriminate; reflexivity).
  destruct (ans_ok (env (ELock id))) eqn:L1; cbn [andb app].
  2:{ split; [intros w [<-|[]] Hw; discriminate Hw|intros Hx; discriminate Hx]. }
  destruct (ans_ok (env c)) eqn:C1.
  2:{ split; [intros w [<-|[<-|[<-|[]]]] Hw; discriminate Hw|intros Hx; discriminate Hx]. }
  destruct (ans_ok (env (ELock outbox))) eqn:L2.
  2:{ split; [intros w [<-|[<-|[<-|[<-|[]]]]] Hw; discriminate Hw|intros Hx; discriminate Hx]. }
  apply OK in L1, C1, L2.
  destruct (env e1) as [| | | | |ob| | | | |] eqn:E1;
    try (injection H as -> ->; split; [intros w [<-|[<-|[<-|[<-|[<-|[<-|[]]]]]]] Hw; discriminate Hw|intros Hx; discriminate Hx]).
  injection H as -> ->. split.
  - intros w [<-|[<-|[<-|[<-|[<-|[<-|[<-|[]]]]]]]] Hw; try discriminate Hw. repeat (split; [assumption|]). exists ob. split; reflexivity.
  - intros Hx. repeat (split; [assumption|]). exists ob. split; [reflexivity|]. cbv zeta.
    destruct (ans_ok (env (EDb "SetOutbox" [canon (prepend_iri "orderedItems" id ob)]))) eqn:S1; [|discriminate Hx].
    split; [exact (OK _ S1)|reflexivity].
Qed.

(* the link to Conc/Model.v: an unconditional section - the page written lists Model.write sec l = id :: l *)
Theorem outbox_is_model_section env outbox a page m :
  let id := id_str a in
  let sec := {| Model.s_col := outbox; Model.s_id := id; Model.s_cond := false |} in
  let c := EDb "Create" [canon a] in
  let e1 := EDb "GetOutbox" [JStr outbox] in
  env (ELock id) = AOk -> env c = AOk -> env (ELock outbox) = AOk ->
  env e1 = AJson page -> page = JObj m -> all_iris (listing page) ->
  Model.stops sec (page_ids page) = false /\
  exists w, evs_env env (add_to_outbox outbox a) = [ELock id; c; EUnlock id; ELock outbox; e1; EDb "SetOutbox" [w]; EUnlock outbox] /\
    page_ids w = Model.write sec (page_ids page) /\
    res_env env (add_to_outbox outbox a) = (if ans_ok (env (EDb "SetOutbox" [w])) then Ok tt else Err EGeneric).
Proof.
  intros id sec c e1 L1 C1 L2 E1 Hm Hi. split; [reflexivity|].
  destruct (outbox_run env outbox a) as [He Hr]. fold id c in He, Hr. rewrite He, Hr, wld_evs, wld_res, L1, C1, L2. cbn [ans_ok andb app].
  pose proof (outbox_body_run env outbox a) as H. cbv zeta in H. fold id e1 in H. rewrite E1 in H. injection H as -> ->.
  exists (canon (prepend_iri "orderedItems" id page)). split; [reflexivity|]. split; [|reflexivity].
  exact (page_ids_prepend id page m Hm Hi).
Qed.

(* ================================================================================================================== *)
(* S3 - the updates of a stored value the application owns: Owns, Get, a pure function of the value read, Update      *)
(*      (likes / shares of an object: like_loop; Add and Remove on a target collection: add_loop, remove_loop)        *)
(* ================================================================================================================== *)
Definition upd_reads : ev -> bool := db_op ["Owns"; "Get"].
Definition upd_writes : ev -> bool := db_op ["Update"].

(* Owns; if owned: Get, then whatever g does with the value read *)
Definition upd_prog (i : string) (g : json -> prog (res unit)) : prog (res unit) :=
  bindr (db_bool "Owns" [JStr i]) (fun owns => if negb owns then ok tt else bindr (db_json "Get" [JStr i]) g).
(* g computes a value purely and writes it with one Update *)
Definition tail_of (env : ev -> ans) (r : res json) : list ev * res unit :=
  match r with
  | Ok t' => ([EDb "Update" [canon t']], if ans_ok (env (EDb "Update" [canon t'])) then Ok tt else Err EGeneric)
  | Err x => ([], Err x)
  | Panic s => ([], Panic s)
  end.
Definition pure_update (env : ev -> ans) (g : json -> prog (res unit)) (f : json -> res json) : Prop :=
  forall t, (evs_env env (g t), res_env env (g t)) = tail_of env (f t).

Definition upd_spec (env : ev -> ans) (i : string) (f : json -> res json) : list ev * res unit :=
  let e1 := EDb "Owns" [JStr i] in
  let e2 := EDb "Get" [JStr i] in
  match env e1 with
  | ABool true => match env e2 with
                  | AJson t => (e1 :: e2 :: fst (tail_of env (f t)), snd (tail_of env (f t)))
                  | _ => ([e1; e2], Err EGeneric)
                  end
  | ABool false => ([e1], Ok tt)
  | _ => ([e1], Err EGeneric)
  end.

Lemma upd_run env i g f : pure_update env g f ->
  (evs_env env (upd_prog i g), res_env env (upd_prog i g)) = upd_spec env i f.
Proof.
  intros Hg. unfold upd_prog, upd_spec. run_call.
  destruct (env (EDb "Owns" [JStr i])) as [| |[|]| | | | | | | |]; try reflexivity.
  cbn [negb]. run_call. destruct (env (EDb "Get" [JStr i])) as [| | | | |t| | | | |]; try reflexivity.
  pose proof (f_equal fst (Hg t)) as E1. pose proof (f_equal snd (Hg t)) as E2. cbn [fst snd] in E1, E2. rewrite E1, E2. reflexivity.
Qed.

Theorem upd_section env i g f : pure_update env g f ->
  is_section i upd_reads upd_writes (ans_ok (env (ELock i))) (evs_env env (with_lock_deferred i (upd_prog i g))).
Proof.
  intros Hg. apply wld_section. pose proof (upd_run env i g f Hg) as H. unfold upd_spec in H.
  destruct (env (EDb "Owns" [JStr i])) as [| |[|]| | | | | | | |]; try (injection H as -> _; reflexivity).
  destruct (env (EDb "Get" [JStr i])) as [| | | | |t| | | | |]; try (injection H as -> _; reflexivity).
  injection H as -> _. destruct (f t); reflexivity.
Qed.

(* a write, if there is one, writes f of the value read under this hold *)
Theorem upd_refines env i g f : pure_update env g f ->
  forall w, In w (evs_env env (with_lock_deferred i (upd_prog i g))) -> upd_writes w = true ->
  env (ELock i) = AOk /\ env (EDb "Owns" [JStr i]) = ABool true /\
  exists t t', env (EDb "Get" [JStr i]) = AJson t /\ f t = Ok t' /\ w = EDb "Update" [canon t'].
Proof.
  intros Hg w. rewrite wld_evs. pose proof (upd_run env i g f Hg) as H. unfold upd_spec in H.
  destruct (env (ELock i)) eqn:El; cbn [ans_ok]; try (intros [<-|[]] Hw; discriminate Hw).
  destruct (env (EDb "Owns" [JStr i])) as [| |[|]| | | | | | | |];
    try (injection H as -> _; intros [<-|[<-|[<-|[]]]] Hw; discriminate Hw).
  destruct (env (EDb "Get" [JStr i])) as [| | | | |t| | | | |];
    try (injection H as -> _; intros [<-|[<-|[<-|[<-|[]]]]] Hw; discriminate Hw).
  injection H as -> _. destruct (f t) as [t'|x|s] eqn:Ef; cbn [tail_of fst app].
  - intros [<-|[<-|[<-|[<-|[<-|[]]]]]] Hw; try discriminate Hw. repeat (split; [reflexivity|]). exists t, t'. repeat split; [exact Ef].
  - intros [<-|[<-|[<-|[<-|[]]]]] Hw; discriminate Hw.
  - intros [<-|[<-|[<-|[<-|[]]]]] Hw; discriminate Hw.
Qed.

Lemma pure_update_lift env (f : json -> res json) : pure_update env (fun t => bindr (lift (f t)) (fun t' => db_unit "Update" [t'])) f.
Proof. intros t. run_call. destruct (f t); [run_call; reflexivity|reflexivity|reflexivity]. Qed.

(* ---- like_loop (likes / shares) ---- *)
Lemma like_loop_unfold cp id e :
  like_loop cp id e = bindr (lift (to_id "object" e)) (fun obj_id =>
    with_lock_deferred obj_id (upd_prog obj_id (fun t => bindr (lift (prepend_on cp id t)) (fun t' => db_unit "Update" [t'])))).
Proof. reflexivity. Qed.

Theorem like_loop_section env cp id e :
  match to_id "object" e with
  | Ok obj_id =>
      is_section obj_id upd_reads upd_writes (ans_ok (env (ELock obj_id))) (evs_env env (like_loop cp id e)) /\
      forall w, In w (evs_env env (like_loop cp id e)) -> upd_writes w = true ->
        env (ELock obj_id) = AOk /\ env (EDb "Owns" [JStr obj_id]) = ABool true /\
        exists t t', env (EDb "Get" [JStr obj_id]) = AJson t /\ prepend_on cp id t = Ok t' /\ w = EDb "Update" [canon t']
  | _ => evs_env env (like_loop cp id e) = []
  end.
Proof.
  rewrite like_loop_unfold, evs_env_bindr, evs_lift, res_env_lift. cbn [app].
  destruct (to_id "object" e) as [obj_id|x|s]; [|reflexivity|reflexivity]. split.
  - exact (upd_section env obj_id _ _ (pure_update_lift env (prepend_on cp id))).
  - exact (upd_refines env obj_id _ _ (pure_update_lift env (prepend_on cp id))).
Qed.

(* ---- add_loop / remove_loop (Add / Remove on an owned target collection) ---- *)
Definition add_fun (op_ids : list string) (tp : json) : res json :=
  match collection_prop tp with Ok cp => Ok (add_spec cp op_ids tp) | Err x => Err x | Panic s => Panic s end.
Definition remove_fun (op_ids : list string) (tp : json) : res json :=
  match collection_prop tp with Ok cp => remove_spec cp op_ids tp | Err x => Err x | Panic s => Panic s end.

Lemma add_loop_unfold op_ids t :
  add_loop op_ids t = with_lock_deferred t (upd_prog t (fun tp =>
    bindr (lift (collection_prop tp)) (fun cp => db_unit "Update" [add_spec cp op_ids tp]))).
Proof. reflexivity. Qed.
Lemma remove_loop_unfold op_ids t :
  remove_loop op_ids t = with_lock_deferred t (upd_prog t (fun tp =>
    bindr (lift (collection_prop tp)) (fun cp => bindr (lift (remove_spec cp op_ids tp)) (fun tp' => db_unit "Update" [tp'])))).
Proof. reflexivity. Qed.
Lemma pure_update_add env op_ids :
  pure_update env (fun tp => bindr (lift (collection_prop tp)) (fun cp => db_unit "Update" [add_spec cp op_ids tp])) (add_fun op_ids).
Proof. intros tp. unfold add_fun. run_call. destruct (collection_prop tp); [run_call; reflexivity|reflexivity|reflexivity]. Qed.
Lemma pure_update_remove env op_ids :
  pure_update env (fun tp => bindr (lift (collection_prop tp)) (fun cp => bindr (lift (remove_spec cp op_ids tp)) (fun tp' => db_unit "Update" [tp'])))
              (remove_fun op_ids).
Proof.
  intros tp. unfold remove_fun. run_call. destruct (collection_prop tp) as [cp|x|s]; [|reflexivity|reflexivity].
  run_call. destruct (remove_spec cp op_ids tp); [run_call; reflexivity|reflexivity|reflexivity].
Qed.

Theorem add_loop_section env op_ids t :
  is_section t upd_reads upd_writes (ans_ok (env (ELock t))) (evs_env env (add_loop op_ids t)) /\
  forall w, In w (evs_env env (add_loop op_ids t)) -> upd_writes w = true ->
    env (ELock t) = AOk /\ env (EDb "Owns" [JStr t]) = ABool true /\
    exists tp tp', env (EDb "Get" [JStr t]) = AJson tp /\ add_fun op_ids tp = Ok tp' /\ w = EDb "Update" [canon tp'].
Proof.
  rewrite add_loop_unfold. split; [exact (upd_section env t _ _ (pure_update_add env op_ids))|exact (upd_refines env t _ _ (pure_update_add env op_ids))].
Qed.
Theorem remove_loop_section env op_ids t :
  is_section t upd_reads upd_writes (ans_ok (env (ELock t))) (evs_env env (remove_loop op_ids t)) /\
  forall w, In w (evs_env env (remove_loop op_ids t)) -> upd_writes w = true ->
    env (ELock t) = AOk /\ env (EDb "Owns" [JStr t]) = ABool true /\
    exists tp tp', env (EDb "Get" [JStr t]) = AJson tp /\ remove_fun op_ids tp = Ok tp' /\ w = EDb "Update" [canon tp'].
Proof.
  rewrite remove_loop_unfold. split; [exact (upd_section env t _ _ (pure_update_remove env op_ids))|exact (upd_refines env t _ _ (pure_update_remove env op_ids))].
Qed.

(* ================================================================================================================== *)
(* S3, continued - the followers update of the federating Follow, the following update of the federating Accept       *)
(* ================================================================================================================== *)
(* lock the actor; read the collection; write it with one Update; unlock - whatever happened *)
Definition coll_update (read_op actor : string) (f : json -> res json) : prog (res unit) :=
  bindr (lock actor) (fun _ => bind (db_json read_op [JStr actor]) (fun c =>
    match c with
    | Ok col => match f col with
                | Ok col' => bind (db_unit "Update" [col']) (fun u => bind (unlock actor) (fun _ => lift u))
                | Err e => bind (unlock actor) (fun _ => fail e)
                | Panic s => bind (unlock actor) (fun _ => Ret (Panic s))
                end
    | Err e => bind (unlock actor) (fun _ => fail e)
    | Panic s => bind (unlock actor) (fun _ => Ret (Panic s))
    end)).

Definition followers_new (recipients : list string) (followers : json) : json :=
  match recipients with
  | [] => (match elems "items" followers with None => jset "items" (JArr []) followers | Some _ => followers end)
  | _ => set_elems "items" (map JStr (rev recipients) ++ elems0 "items" followers) followers
  end.
Definition following_new (al : list json) (following : json) : res json :=
  match to_ids "actor" al with
  | Ok ids => Ok (set_elems "items" (map JStr (rev ids) ++ elems0 "items" following) following)
  | Err e => Err e
  | Panic s => Panic s
  end.

(* the model's Follow callback is literally this program around coll_update "Followers" *)
Lemma follow_unfold cfg inbox a :
  Fed.follow cfg inbox a =
  if Fed.object_required a then fail EObjectRequired else
  bindr (lock inbox) (fun _ => bind (db_iri "ActorForInbox" [JStr inbox]) (fun x => bind (unlock inbox) (fun _ =>
  bindr (lift x) (fun actor =>
  bindr (lift (if Nat.eqb (c_on_follow cfg) 0 then Ok false else names_me "object" actor (elems0 "object" a))) (fun is_me =>
  bindr (if negb is_me then ok tt else
         if negb (Nat.eqb (c_on_follow cfg) 1 || Nat.eqb (c_on_follow cfg) 2) then fail EGeneric else
         match elems "actor" a with
         | None => panic "federating follow: nil actor property"
         | Some al =>
             bindr (lift (to_ids "actor" al)) (fun recipients =>
             let kind := if Nat.eqb (c_on_follow cfg) 1 then "Accept" else "Reject" in
             let response := response_activity kind actor a recipients in
             bindr (if Nat.eqb (c_on_follow cfg) 1
                    then coll_update "Followers" actor (fun followers => Ok (followers_new recipients followers))
                    else ok tt) (fun _ =>
             bindr (lock inbox) (fun _ => bind (db_iri "OutboxForInbox" [JStr inbox]) (fun ob => bind (unlock inbox) (fun _ =>
             bindr (lift ob) (fun outbox =>
             bindr (add_new_ids response) (fun response' =>
             bindr (deliver outbox response') (fun _ => ok tt))))))))
         end) (fun _ => Fed.wrapped cfg "Follow" a)))))).
Proof. reflexivity. Qed.

(* the fragment of Accept: the accepting actors are converted after the collection was read *)
Definition following_update (actor : string) (al : list json) : prog (res unit) :=
  bindr (lock actor) (fun _ => bind (db_json "Following" [JStr actor]) (fun f =>
    match f with
    | Ok following =>
        match to_ids "actor" al with
        | Ok ids => bind (db_unit "Update" [set_elems "items" (map JStr (rev ids) ++ elems0 "items" following) following])
                         (fun u => bind (unlock actor) (fun _ => lift u))
        | Err e => bind (unlock actor) (fun _ => fail e)
        | Panic s => bind (unlock actor) (fun _ => Ret (Panic s))
        end
    | Err e => bind (unlock actor) (fun _ => fail e)
    | Panic s => bind (unlock actor) (fun _ => Ret (Panic s))
    end)).
(* it runs exactly as coll_update "Following" with the pure function following_new al *)
Lemma following_update_same env actor al :
  run_env env (following_update actor al) = run_env env (coll_update "Following" actor (following_new al)).
Proof.
  unfold following_update, coll_update, following_new, lock, db_json, db, call, bindr. cbn [bind run_env map canon].
  destruct (env (ELock actor)); try reflexivity. cbn [bind run_env ok].
  destruct (env (EDb "Following" [JStr actor])); cbn [bind run_env ok fail]; try reflexivity.
  destruct (to_ids "actor" al); reflexivity.
Qed.

(* ... and the Accept callback around following_update *)
Lemma accept_unfold cfg inbox a :
  Fed.accept cfg inbox a =
  bindr (if Fed.object_required a then ok tt else
    bindr (lock inbox) (fun _ => bind (db_iri "ActorForInbox" [JStr inbox]) (fun x => bind (unlock inbox) (fun _ =>
    bindr (lift x) (fun actor =>
    bindr (find_my_follow inbox actor (elems0 "object" a)) (fun maybe =>
    match maybe with
    | None => ok tt
    | Some follow_id =>
        match elems "actor" a with
        | None | Some [] => fail EGeneric
        | Some al =>
            bindr (with_lock_deferred follow_id (
                     bindr (db_json "Get" [JStr follow_id]) (fun t =>
                     if negb (is_or_extends (type_name t) "Follow") then fail EGeneric else
                     bindr (lift (match elems "actor" t with None => Ok false | Some l => names_me "actor" actor l end)) (fun mine =>
                     if negb mine then fail EGeneric else
                     bindr (lift (to_ids "actor" al)) (fun accept_ids =>
                     bindr (lift (ids_of "object" t)) (fun follow_objs =>
                     if forallb (fun i => mem i follow_objs) accept_ids then ok tt else fail EGeneric)))))) (fun _ =>
            following_update actor al)
        end
    end)))))) (fun _ => Fed.wrapped cfg "Accept" a).
Proof. reflexivity. Qed.

Lemma coll_update_run env read_op actor f :
  let e1 := EDb read_op [JStr actor] in
  evs_env env (coll_update read_op actor f) =
    ELock actor :: (if ans_ok (env (ELock actor)) then
      (e1 :: match env e1 with
             | AJson col => match f col with Ok col' => [EDb "Update" [canon col']] | _ => [] end
             | _ => []
             end) ++ [EUnlock actor] else []).
Proof.
  cbv zeta. unfold coll_update. rewrite evs_env_bindr, evs_lock, res_lock. cbn [app]. f_equal.
  destruct (ans_ok (env (ELock actor))); [|reflexivity].
  rewrite evs_env_bind, evs_db_json, res_db_json. cbn [map canon app]. f_equal.
  destruct (env (EDb read_op [JStr actor])) as [| | | | |col| | | | |];
    try (rewrite evs_env_bind, evs_unlock; reflexivity).
  destruct (f col) as [col'|x|s]; try (rewrite evs_env_bind, evs_unlock; reflexivity).
  rewrite evs_env_bind, evs_db_unit. cbn [map app]. rewrite evs_env_bind, evs_unlock. reflexivity.
Qed.

Theorem coll_update_section env read_op actor f : read_op <> "Update" ->
  is_section actor (db_op [read_op]) upd_writes (ans_ok (env (ELock actor))) (evs_env env (coll_update read_op actor f)) /\
  forall w, In w (evs_env env (coll_update read_op actor f)) -> upd_writes w = true ->
    env (ELock actor) = AOk /\ exists col col', env (EDb read_op [JStr actor]) = AJson col /\ f col = Ok col' /\ w = EDb "Update" [canon col'].
Proof.
  intros Hne. rewrite coll_update_run. cbv zeta. unfold is_section.
  assert (Hr : db_op [read_op] (EDb read_op [JStr actor]) = true) by (cbn [db_op mem existsb]; rewrite String.eqb_refl; reflexivity).
  assert (Hn : upd_writes (EDb read_op [JStr actor]) = false).
  { unfold upd_writes. cbn [db_op mem existsb]. apply String.eqb_neq in Hne. rewrite Hne. reflexivity. }
  assert (Hu : forall x, db_op [read_op] (EDb "Update" x) = false).
  { intros x. cbn [db_op mem existsb]. rewrite String.eqb_sym. apply String.eqb_neq in Hne. rewrite Hne. reflexivity. }
  pose (no_write := fun l : list ev => forall w, In w l -> upd_writes w = true -> False).
  assert (NW1 : no_write [ELock actor]) by (intros w [<-|[]] Hw; discriminate Hw).
  assert (NW3 : no_write [ELock actor; EDb read_op [JStr actor]; EUnlock actor]).
  { intros w [<-|[<-|[<-|[]]]] Hw; try discriminate Hw. rewrite Hn in Hw. discriminate Hw. }
  assert (Short : exists body, [ELock actor; EDb read_op [JStr actor]; EUnlock actor] = ELock actor :: body ++ [EUnlock actor] /\
                               body_okb (db_op [read_op]) upd_writes body = true).
  { exists [EDb read_op [JStr actor]]. split; [reflexivity|]. cbn [body_okb is_dbev andb]. rewrite Hr. reflexivity. }
  destruct (env (ELock actor)) eqn:El; cbn [ans_ok]; try (split; [reflexivity|intros w Hin Hw; destruct (NW1 w Hin Hw)]).
  destruct (env (EDb read_op [JStr actor])) as [| | | | |col| | | | |] eqn:E1; cbn [app];
    try (split; [exact Short|intros w Hin Hw; destruct (NW3 w Hin Hw)]).
  destruct (f col) as [col'|x|s] eqn:Ef; cbn [app];
    try (split; [exact Short|intros w Hin Hw; destruct (NW3 w Hin Hw)]).
  split.
  - exists [EDb read_op [JStr actor]; EDb "Update" [canon col']]. split; [reflexivity|]. cbn [body_okb is_dbev andb]. rewrite Hr, Hu. reflexivity.
  - intros w [<-|[<-|[<-|[<-|[]]]]] Hw; try discriminate Hw; [rewrite Hn in Hw; discriminate Hw|].
    split; [reflexivity|]. exists col, col'. repeat split; [exact Ef].
Qed.

Theorem followers_update_section env actor recipients :
  let p := coll_update "Followers" actor (fun followers => Ok (followers_new recipients followers)) in
  is_section actor (db_op ["Followers"]) upd_writes (ans_ok (env (ELock actor))) (evs_env env p) /\
  forall w, In w (evs_env env p) -> upd_writes w = true ->
    env (ELock actor) = AOk /\ exists col, env (EDb "Followers" [JStr actor]) = AJson col /\ w = EDb "Update" [canon (followers_new recipients col)].
Proof.
  cbv zeta. destruct (coll_update_section env "Followers" actor (fun followers => Ok (followers_new recipients followers)) ltac:(discriminate)) as [H1 H2].
  split; [exact H1|]. intros w Hin Hw. destruct (H2 w Hin Hw) as [El [col [col' [E1 [Ef ->]]]]]. split; [exact El|].
  exists col. split; [exact E1|]. injection Ef as <-. reflexivity.
Qed.

Theorem following_update_section env actor al :
  is_section actor (db_op ["Following"]) upd_writes (ans_ok (env (ELock actor))) (evs_env env (following_update actor al)) /\
  forall w, In w (evs_env env (following_update actor al)) -> upd_writes w = true ->
    env (ELock actor) = AOk /\ exists col col', env (EDb "Following" [JStr actor]) = AJson col /\ following_new al col = Ok col' /\
                                               w = EDb "Update" [canon col'].
Proof.
  unfold evs_env. rewrite following_update_same. exact (coll_update_section env "Following" actor (following_new al) ltac:(discriminate)).
Qed.

(* ================================================================================================================== *)
(* S3, the Social Like (liked): a FINDING - the hold is a section FOLLOWED BY an application callback under the lock    *)
(* ================================================================================================================== *)
Definition soc_like_body (cfg : config) (actor : string) (a : json) : prog (res unit) :=
  bindr (db_json "Liked" [JStr actor]) (fun liked =>
  bindr (lift (to_ids "object" (elems0 "object" a))) (fun ids =>
  bindr (db_unit "Update" [like_spec ids liked]) (fun _ => swrapped cfg "Like" a))).
Lemma soc_like_unfold cfg outbox a :
  Soc.like cfg outbox a =
  if Fed.object_required a then fail EObjectRequired else
  bindr (lock outbox) (fun _ => bind (db_iri "ActorForOutbox" [JStr outbox]) (fun x => bind (unlock outbox) (fun _ =>
  bindr (lift x) (fun actor => with_lock_deferred actor (soc_like_body cfg actor a))))).
Proof. reflexivity. Qed.

Lemma evs_swrapped env cfg name a :
  evs_env env (swrapped cfg name a) = if mem name (c_soc_wrapped cfg) then [EApp ("Wrapped:" ++ name)%string [canon a]] else [].
Proof.
  unfold swrapped. destruct (mem name (c_soc_wrapped cfg)); [|reflexivity].
  unfold app_unit, app, call. cbn [bind map]. rewrite evs_Op. destruct (env _); reflexivity.
Qed.

Lemma soc_like_body_run env cfg actor a :
  let e1 := EDb "Liked" [JStr actor] in
  evs_env env (soc_like_body cfg actor a) =
  e1 :: match env e1 with
        | AJson liked =>
            match to_ids "object" (elems0 "object" a) with
            | Ok ids => let e2 := EDb "Update" [canon (like_spec ids liked)] in
                        e2 :: (if ans_ok (env e2) then (if mem "Like" (c_soc_wrapped cfg) then [EApp "Wrapped:Like" [canon a]] else []) else [])
            | _ => []
            end
        | _ => []
        end.
Proof.
  cbv zeta. unfold soc_like_body. run_call.
  destruct (env (EDb "Liked" [JStr actor])) as [| | | | |liked| | | | |]; try reflexivity.
  run_call. rewrite evs_lift. destruct (to_ids "object" (elems0 "object" a)) as [ids|x|s]; try reflexivity.
  run_call. rewrite evs_swrapped. destruct (ans_ok _); reflexivity.
Qed.

(* what holds: Lock, a section body (read Liked, at most one Update of like_spec of the value read), THEN possibly the
   application's Like callback, Unlock; one lock at a time all the same *)
Theorem soc_like_hold env cfg actor a :
  let tr := evs_env env (with_lock_deferred actor (soc_like_body cfg actor a)) in
  (if ans_ok (env (ELock actor))
   then exists body tail, tr = ELock actor :: body ++ tail ++ [EUnlock actor] /\
          body_okb (db_op ["Liked"]) upd_writes body = true /\
          (tail = [] \/ (tail = [EApp "Wrapped:Like" [canon a]] /\ mem "Like" (c_soc_wrapped cfg) = true /\
                         exists w, In w body /\ upd_writes w = true /\ env w = AOk))
   else tr = [ELock actor]) /\
  (forall w, In w tr -> upd_writes w = true ->
     exists liked ids, env (EDb "Liked" [JStr actor]) = AJson liked /\ to_ids "object" (elems0 "object" a) = Ok ids /\
                       w = EDb "Update" [canon (like_spec ids liked)]) /\
  one_lock_at_a_time env tr.
Proof.
  cbv zeta. rewrite wld_evs, soc_like_body_run. cbv zeta. unfold one_lock_at_a_time.
  destruct (ans_ok (env (ELock actor))) eqn:El.
  2:{ split; [reflexivity|]. split; [intros w [<-|[]] Hw; discriminate Hw|]. cbn [lock_run]. rewrite El. reflexivity. }
  assert (LR : forall l, Forall (fun e => match e with ELock _ | EUnlock _ => False | _ => True end) l ->
                         lock_run env None (ELock actor :: l ++ [EUnlock actor]) = Some None).
  { intros l Hl. cbn [lock_run]. rewrite El, lock_run_app.
    assert (E : lock_run env (Some actor) l = Some (Some actor)).
    { induction Hl as [|e r He _ IH]; [reflexivity|]. destruct e; try contradiction; exact IH. }
    rewrite E. cbn [lock_run]. rewrite String.eqb_refl. reflexivity. }
  destruct (env (EDb "Liked" [JStr actor])) as [| | | | |liked| | | | |] eqn:E1;
    try (split; [exists [EDb "Liked" [JStr actor]], []; split; [reflexivity|split; [reflexivity|left; reflexivity]]|];
         split; [intros w [<-|[<-|[<-|[]]]] Hw; discriminate Hw|apply LR; repeat constructor]).
  destruct (to_ids "object" (elems0 "object" a)) as [ids|x|s] eqn:Ei;
    try (split; [exists [EDb "Liked" [JStr actor]], []; split; [reflexivity|split; [reflexivity|left; reflexivity]]|];
         split; [intros w [<-|[<-|[<-|[]]]] Hw; discriminate Hw|apply LR; repeat constructor]).
  set (e2 := EDb "Update" [canon (like_spec ids liked)]).
  destruct (ans_ok (env e2)) eqn:E2; [destruct (mem "Like" (c_soc_wrapped cfg)) eqn:Em|].
  - split; [exists [EDb "Liked" [JStr actor]; e2], [EApp "Wrapped:Like" [canon a]]; split; [reflexivity|split; [reflexivity|]]|].
    + right. split; [reflexivity|]. split; [reflexivity|]. exists e2. split; [right; left; reflexivity|]. split; [reflexivity|].
      destruct (env e2); try discriminate E2. reflexivity.
    + split; [|apply LR; repeat constructor]. intros w [<-|[<-|[<-|[<-|[<-|[]]]]]] Hw; try discriminate Hw. exists liked, ids. repeat split.
  - split; [exists [EDb "Liked" [JStr actor]; e2], []; split; [reflexivity|split; [reflexivity|left; reflexivity]]|].
    split; [|apply LR; repeat constructor]. intros w [<-|[<-|[<-|[<-|[]]]]] Hw; try discriminate Hw. exists liked, ids. repeat split.
  - split; [exists [EDb "Liked" [JStr actor]; e2], []; split; [reflexivity|split; [reflexivity|left; reflexivity]]|].
    split; [|apply LR; repeat constructor]. intros w [<-|[<-|[<-|[<-|[]]]]] Hw; try discriminate Hw. exists liked, ids. repeat split.
Qed.

(* ================================================================================================================== *)
(* S4 - every one of these programs holds one lock at a time, in every environment: a thread of package pub is a      *)
(*      sequence of sections, which is what a thread of Conc/Model.v is (the hypothesis of C08_no_deadlock)           *)
(* ================================================================================================================== *)
Lemma one_lock_foreach {X} env (f : X -> prog (res unit)) : (forall x, one_lock_at_a_time env (evs_env env (f x))) ->
  forall l, one_lock_at_a_time env (evs_env env (foreach l f)).
Proof.
  intros Hf. induction l as [|x r IH]; [reflexivity|]. cbn [foreach]. rewrite evs_env_bindr. apply one_lock_app; [apply Hf|].
  destruct (res_env env (f x)); [exact IH|reflexivity|reflexivity].
Qed.

Theorem sites_one_lock env :
  (forall inbox a, one_lock_at_a_time env (evs_env env (add_to_inbox_if_new inbox a))) /\
  (forall outbox a, one_lock_at_a_time env (evs_env env (add_to_outbox outbox a))) /\
  (forall cp id e, one_lock_at_a_time env (evs_env env (like_loop cp id e))) /\
  (forall cp id l, one_lock_at_a_time env (evs_env env (foreach l (like_loop cp id)))) /\
  (forall op_ids t, one_lock_at_a_time env (evs_env env (add_loop op_ids t))) /\
  (forall op_ids l, one_lock_at_a_time env (evs_env env (foreach l (add_loop op_ids)))) /\
  (forall op_ids t, one_lock_at_a_time env (evs_env env (remove_loop op_ids t))) /\
  (forall op_ids l, one_lock_at_a_time env (evs_env env (foreach l (remove_loop op_ids)))) /\
  (forall read_op actor f, read_op <> "Update" -> one_lock_at_a_time env (evs_env env (coll_update read_op actor f))) /\
  (forall actor al, one_lock_at_a_time env (evs_env env (following_update actor al))) /\
  (forall cfg actor a, one_lock_at_a_time env (evs_env env (with_lock_deferred actor (soc_like_body cfg actor a)))).
Proof.
  assert (L : forall cp id e, one_lock_at_a_time env (evs_env env (like_loop cp id e))).
  { intros cp id e. pose proof (like_loop_section env cp id e) as H. destruct (to_id "object" e); [|rewrite H; reflexivity|rewrite H; reflexivity].
    exact (section_one_lock env _ _ _ _ (proj1 H)). }
  assert (Ad : forall op_ids t, one_lock_at_a_time env (evs_env env (add_loop op_ids t)))
    by (intros op_ids t; exact (section_one_lock env _ _ _ _ (proj1 (add_loop_section env op_ids t)))).
  assert (Rm : forall op_ids t, one_lock_at_a_time env (evs_env env (remove_loop op_ids t)))
    by (intros op_ids t; exact (section_one_lock env _ _ _ _ (proj1 (remove_loop_section env op_ids t)))).
  split; [intros inbox a; exact (section_one_lock env _ _ _ _ (inbox_section env inbox a))|].
  split.
  { intros outbox a. destruct (outbox_sections env outbox a) as [t1 [t2 [-> [H1 [_ H2]]]]]. apply one_lock_app.
    - exact (section_one_lock env _ _ _ _ H1).
    - destruct (ans_ok (env (ELock (id_str a))) && ans_ok (env (EDb "Create" [canon a]))); [exact (section_one_lock env _ _ _ _ H2)|rewrite H2; reflexivity]. }
  split; [exact L|]. split; [intros cp id l; apply one_lock_foreach; intros x; apply L|].
  split; [exact Ad|]. split; [intros op_ids l; apply one_lock_foreach; intros x; apply Ad|].
  split; [exact Rm|]. split; [intros op_ids l; apply one_lock_foreach; intros x; apply Rm|].
  split; [intros read_op actor f Hne; exact (section_one_lock env _ _ _ _ (proj1 (coll_update_section env read_op actor f Hne)))|].
  split; [intros actor al; exact (section_one_lock env _ _ _ _ (proj1 (following_update_section env actor al)))|].
  intros cfg actor a. exact (proj2 (proj2 (soc_like_hold env cfg actor a))).
Qed.

(* ---- non-vacuity ---- *)
Definition sx_page : json :=
  JObj [("id", JStr "https://x.example/inbox"); ("type", JStr "OrderedCollectionPage"); ("orderedItems", JStr "https://y.example/old")].
Definition sx_act : json := JObj [("type", JStr "Like"); ("id", JStr "https://y.example/like/1"); ("actor", JStr "https://y.example/bob");
                                  ("object", JStr "https://x.example/notes/1")].
(* a store that holds sx_page, and does not hold the activity yet *)
Definition sx_env (e : ev) : ans :=
  match e with
  | EDb "InboxContains" _ => ABool false
  | EDb "GetInbox" _ | EDb "GetOutbox" _ => AJson sx_page
  | EDb "Liked" _ => AJson (JObj [("type", JStr "Collection"); ("id", JStr "https://x.example/alice/liked")])
  | _ => AOk
  end.
Example inbox_section_run :
  evs_env sx_env (add_to_inbox_if_new "https://x.example/inbox" sx_act) =
    [ELock "https://x.example/inbox";
     EDb "InboxContains" [JStr "https://x.example/inbox"; JStr "https://y.example/like/1"];
     EDb "GetInbox" [JStr "https://x.example/inbox"];
     EDb "SetInbox" [canon (prepend_iri "orderedItems" "https://y.example/like/1" sx_page)];
     EUnlock "https://x.example/inbox"] /\
  res_env sx_env (add_to_inbox_if_new "https://x.example/inbox" sx_act) = Ok true /\
  page_ids (canon (prepend_iri "orderedItems" "https://y.example/like/1" sx_page)) =
    Model.write {| Model.s_col := "https://x.example/inbox"; Model.s_id := "https://y.example/like/1"; Model.s_cond := true |} (page_ids sx_page).
Proof. vm_compute. repeat split; reflexivity. Qed.
(* the same activity against a store that already holds it: the thread stops, nothing is written *)
Example inbox_section_duplicate :
  let env := fun e => match e with EDb "InboxContains" _ => ABool true | _ => sx_env e end in
  evs_env env (add_to_inbox_if_new "https://x.example/inbox" sx_act) =
    [ELock "https://x.example/inbox"; EDb "InboxContains" [JStr "https://x.example/inbox"; JStr "https://y.example/like/1"];
     EUnlock "https://x.example/inbox"] /\
  res_env env (add_to_inbox_if_new "https://x.example/inbox" sx_act) = Ok false.
Proof. vm_compute. split; reflexivity. Qed.
Example outbox_sections_run :
  map (fun e => match e with ELock i => ("Lock", i) | EUnlock i => ("Unlock", i) | EDb op _ => (op, "") | _ => ("", "") end)
      (evs_env sx_env (add_to_outbox "https://x.example/outbox" sx_act)) =
    [("Lock", "https://y.example/like/1"); ("Create", ""); ("Unlock", "https://y.example/like/1");
     ("Lock", "https://x.example/outbox"); ("GetOutbox", ""); ("SetOutbox", ""); ("Unlock", "https://x.example/outbox")].
Proof. vm_compute. reflexivity. Qed.
(* the finding, as a trace: with a Like callback configured, the Social Like calls the application between the Update and the
   Unlock of the actor's lock *)
Example soc_like_callback_under_lock :
  let cfg := {| c_social := true; c_federating := false; c_on_follow := 0; c_fed_wrapped := []; c_fed_other := [];
                c_soc_wrapped := ["Like"]; c_soc_other := [] |} in
  map (fun e => match e with ELock i => ("Lock", i) | EUnlock i => ("Unlock", i) | EDb op _ => (op, "") | EApp n _ => (n, "") | _ => ("", "") end)
      (evs_env sx_env (with_lock_deferred "https://x.example/alice" (soc_like_body cfg "https://x.example/alice" sx_act))) =
    [("Lock", "https://x.example/alice"); ("Liked", ""); ("Update", ""); ("Wrapped:Like", ""); ("Unlock", "https://x.example/alice")].
Proof. vm_compute. reflexivity. Qed.

Print Assumptions section_one_lock.
Print Assumptions inbox_section.
Print Assumptions inbox_refines.
Print Assumptions inbox_is_model_section.
Print Assumptions outbox_sections.
Print Assumptions outbox_refines.
Print Assumptions outbox_is_model_section.
Print Assumptions like_loop_section.
Print Assumptions add_loop_section.
Print Assumptions remove_loop_section.
Print Assumptions follow_unfold.
Print Assumptions accept_unfold.
Print Assumptions followers_update_section.
Print Assumptions following_update_section.
Print Assumptions soc_like_hold.
Print Assumptions sites_one_lock.
