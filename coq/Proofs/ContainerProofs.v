From Coq Require Import List Arith Lia Bool.
From Verif Require Import Streams.Container.
Import ListNotations.

Section P.
  Variable A : Type.
  Notation cell := (cell A).

  Lemma vals_renum i (l : list cell) : vals A (renum A i l) = vals A l.
  Proof. revert i. induction l as [|c r IH]; intros i; simpl; [reflexivity|]. f_equal. apply IH. Qed.

  Lemma vals_app (a b : list cell) : vals A (a ++ b) = vals A a ++ vals A b.
  Proof. unfold vals. apply map_app. Qed.
  Lemma vals_cons c (l : list cell) : vals A (c :: l) = val c :: vals A l.
  Proof. reflexivity. Qed.
  Lemma vals_firstn k (l : list cell) : vals A (firstn k l) = firstn k (vals A l).
  Proof. unfold vals. symmetry. apply firstn_map. Qed.
  Lemma vals_skipn k (l : list cell) : vals A (skipn k l) = skipn k (vals A l).
  Proof. unfold vals. symmetry. apply skipn_map. Qed.

  Lemma renum_length i (l : list cell) : length (renum A i l) = length l.
  Proof. revert i. induction l as [|c r IH]; intros i; simpl; [reflexivity|]. f_equal. apply IH. Qed.

  Lemma wf_renum i (l : list cell) : wf_from A i (renum A i l).
  Proof. revert i. induction l as [|c r IH]; intros i; simpl; [exact I|]. split; [reflexivity|apply IH]. Qed.

  Lemma wf_app i (a b : list cell) : wf_from A i (a ++ b) <-> wf_from A i a /\ wf_from A (i + length a) b.
  Proof.
    revert i. induction a as [|c r IH]; intros i; simpl.
    - rewrite Nat.add_0_r. tauto.
    - rewrite IH. replace (S i + length r) with (i + S (length r)) by lia. tauto.
  Qed.

  Lemma wf_firstn i k (l : list cell) : wf_from A i l -> wf_from A i (firstn k l).
  Proof.
    revert i k. induction l as [|c r IH]; intros i k H; destruct k; simpl; auto.
    simpl in H. destruct H as [H1 H2]. split; [exact H1|apply IH; exact H2].
  Qed.

  Lemma wf_nth i (l : list cell) n c : wf_from A i l -> nth_error l n = Some c -> idx c = i + n.
  Proof.
    revert i n. induction l as [|x r IH]; intros i n H Hn; destruct n; simpl in *; try discriminate.
    - inversion Hn; subst. destruct H as [H _]. lia.
    - destruct H as [_ H]. rewrite (IH (S i) n H Hn). lia.
  Qed.

  (* ---- each mutator preserves the invariant and acts on the values as the list operation ---- *)
  Lemma append_ok v l : Inv A l -> Inv A (append A v l) /\ vals A (append A v l) = vals A l ++ [v].
  Proof.
    unfold Inv, append, vals. intros H. split.
    - apply wf_app. split; [exact H|]. simpl. split; [reflexivity|exact I].
    - apply map_app.
  Qed.

  Lemma prepend_ok v l : Inv A (prepend A v l) /\ vals A (prepend A v l) = v :: vals A l.
  Proof.
    unfold Inv, prepend. split.
    - simpl. split; [reflexivity|apply wf_renum].
    - rewrite vals_cons. simpl. f_equal. apply vals_renum.
  Qed.

  Lemma insert_ok k v l : k <= length l -> Inv A l ->
    Inv A (insert A k v l) /\ vals A (insert A k v l) = firstn k (vals A l) ++ v :: skipn k (vals A l).
  Proof.
    unfold Inv, insert. intros Hk H. split.
    - apply wf_app. split; [apply wf_firstn; exact H|]. rewrite firstn_length_le by exact Hk. apply wf_renum.
    - rewrite vals_app, vals_renum, vals_cons, vals_firstn, vals_skipn. reflexivity.
  Qed.

  Lemma set_ok k v l : k < length l -> Inv A l ->
    Inv A (set A k v l) /\ vals A (set A k v l) = put_l k v (vals A l).
  Proof.
    unfold Inv, set, put_l. intros Hk H. split.
    - apply wf_app. split; [apply wf_firstn; exact H|]. rewrite firstn_length_le by lia. simpl. split; [reflexivity|].
      rewrite <- (firstn_skipn (S k) l) in H. apply wf_app in H. destruct H as [_ H].
      rewrite firstn_length_le in H by lia. simpl in H. replace (S k) with (0 + S k) at 1 by lia. exact H.
    - rewrite vals_app, vals_cons, vals_firstn, vals_skipn. reflexivity.
  Qed.

  Lemma remove_ok k l : k < length l -> Inv A l ->
    Inv A (remove A k l) /\ vals A (remove A k l) = firstn k (vals A l) ++ skipn (S k) (vals A l).
  Proof.
    unfold Inv, remove. intros Hk H. split.
    - apply wf_app. split; [apply wf_firstn; exact H|]. rewrite firstn_length_le by lia. apply wf_renum.
    - rewrite vals_app, vals_renum, vals_firstn, vals_skipn. reflexivity.
  Qed.

  (* ---- iteration under the invariant is the value list ---- *)
  Lemma nth_error_vals (l : list cell) n : nth_error (vals A l) n = option_map val (nth_error l n).
  Proof. unfold vals. apply nth_error_map. Qed.

  Lemma walk_fwd_ok l : Inv A l -> forall n k, n + k = length l ->
    walk_fwd A n l (nth_error l k) = skipn k (vals A l).
  Proof.
    intros H n. induction n as [|n IH]; intros k Hk.
    - simpl. assert (E : k = length (vals A l)) by (unfold vals; rewrite map_length; lia).
      rewrite E. rewrite skipn_all. reflexivity.
    - assert (Hlt : k < length l) by lia.
      destruct (nth_error l k) as [c|] eqn:E; [|apply nth_error_None in E; lia].
      cbn [walk_fwd]. pose proof (wf_nth 0 l k c H E) as Hi. simpl in Hi. rewrite Hi.
      assert (Es : skipn k (vals A l) = val c :: skipn (S k) (vals A l)).
      { clear -E. revert k E. induction l as [|x r IHl]; intros k E; destruct k; simpl in *; try discriminate.
        - inversion E; subst. reflexivity.
        - apply IHl. exact E. }
      rewrite Es. f_equal.
      destruct (S k <? length l) eqn:B.
      + apply IH. lia.
      + apply Nat.ltb_ge in B. assert (n = 0) by lia. subst n. cbn [walk_fwd].
        assert (E2 : S k = length (vals A l)) by (unfold vals; rewrite map_length; lia).
        rewrite E2, skipn_all. reflexivity.
  Qed.

  Theorem forward_ok l : Inv A l -> forward A l = vals A l.
  Proof. intros H. unfold forward. rewrite (walk_fwd_ok l H (length l) 0) by lia. reflexivity. Qed.

  Lemma walk_bwd_ok l : Inv A l -> forall n, n <= length l ->
    walk_bwd A n l (match n with 0 => None | S p => nth_error l p end) = rev (firstn n (vals A l)).
  Proof.
    intros H n. induction n as [|n IH]; intros Hn; [reflexivity|].
    destruct (nth_error l n) as [c|] eqn:E; [|apply nth_error_None in E; lia].
    cbn [walk_bwd]. pose proof (wf_nth 0 l n c H E) as Hi. simpl in Hi. rewrite Hi.
    rewrite IH by lia.
    assert (Ef : firstn (S n) (vals A l) = firstn n (vals A l) ++ [val c]).
    { clear -E. revert n E. induction l as [|x r IHl]; intros n E; destruct n; simpl in *; try discriminate.
      - inversion E; subst. reflexivity.
      - f_equal. apply IHl. exact E. }
    rewrite Ef, rev_app_distr. reflexivity.
  Qed.

  Theorem backward_ok l : Inv A l -> backward A l = rev (vals A l).
  Proof.
    intros H. unfold backward. destruct (length l) as [|n] eqn:E.
    - destruct l; [reflexivity|discriminate].
    - replace (S n - 1) with n by lia. pose proof (walk_bwd_ok l H (S n)) as W. rewrite E in W.
      specialize (W (le_n _)). cbn [Nat.pred] in W. rewrite W.
      assert (El : S n = length (vals A l)) by (unfold vals; rewrite map_length; lia).
      rewrite El, firstn_all. reflexivity.
  Qed.

  (* ---- whole histories ---- *)
  Lemma vals_length l : length (vals A l) = length l.
  Proof. unfold vals. apply map_length. Qed.

  Lemma nth_firstn {B} (l : list B) : forall k n, n < k -> nth_error (firstn k l) n = nth_error l n.
  Proof.
    induction l as [|x r IH]; intros k n Hn; destruct k, n; simpl; try reflexivity; try lia.
    apply IH. lia.
  Qed.
  Lemma nth_skipn {B} (l : list B) : forall k n, nth_error (skipn k l) n = nth_error l (k + n).
  Proof.
    induction l as [|x r IH]; intros k n; destruct k; simpl; try reflexivity.
    - destruct n; reflexivity.
    - apply IH.
  Qed.

  Lemma nth_error_put (l : list cell) k c n : k < length l ->
    nth_error (put A k c l) n = if Nat.eqb n k then Some c else nth_error l n.
  Proof.
    intros Hk. unfold put. destruct (Nat.eqb n k) eqn:E.
    - apply Nat.eqb_eq in E. subst. rewrite nth_error_app2 by (rewrite firstn_length_le; lia).
      rewrite firstn_length_le by lia. rewrite Nat.sub_diag. reflexivity.
    - apply Nat.eqb_neq in E. destruct (Nat.lt_ge_cases n k) as [L|G].
      + rewrite nth_error_app1 by (rewrite firstn_length_le; lia). apply nth_firstn. exact L.
      + rewrite nth_error_app2 by (rewrite firstn_length_le; lia). rewrite firstn_length_le by lia.
        destruct (n - k) as [|m] eqn:D; [lia|]. cbn [nth_error]. rewrite nth_skipn. f_equal. lia.
  Qed.

  Lemma put_length (l : list cell) k c : k < length l -> length (put A k c l) = length l.
  Proof. intros Hk. unfold put. rewrite app_length, firstn_length_le by lia. cbn [length]. rewrite skipn_length. lia. Qed.

  Lemma vals_put (l : list cell) k c : vals A (put A k c l) = put_l k (val c) (vals A l).
  Proof. unfold put, put_l. rewrite vals_app, vals_cons, vals_firstn, vals_skipn. reflexivity. Qed.

  Lemma wf_pointwise (l : list cell) : (forall n c, nth_error l n = Some c -> idx c = n) -> Inv A l.
  Proof.
    unfold Inv. intros H. assert (G : forall i, (forall n c, nth_error l n = Some c -> idx c = i + n) -> wf_from A i l).
    { clear H. induction l as [|x r IH]; intros i H; simpl; [exact I|]. split.
      - specialize (H 0 x eq_refl). lia.
      - apply IH. intros n c Hn. specialize (H (S n) c Hn). lia. }
    apply G. exact H.
  Qed.

  Lemma swap_fixed_ok i j l : i < length l -> j < length l -> Inv A l ->
    Inv A (swap A true i j l) /\
    vals A (swap A true i j l) = step_list A (vals A l) (OSwap A i j).
  Proof.
    intros Hi Hj H. unfold swap. simpl.
    destruct (nth_error l i) as [ci|] eqn:Ei; [|apply nth_error_None in Ei; lia].
    destruct (nth_error l j) as [cj|] eqn:Ej; [|apply nth_error_None in Ej; lia].
    rewrite !nth_error_vals, Ei, Ej. simpl. split.
    - apply wf_pointwise. intros n c Hn.
      rewrite nth_error_put in Hn by (rewrite put_length; lia).
      destruct (Nat.eqb n j) eqn:Bj.
      + inversion Hn; subst. apply Nat.eqb_eq in Bj. simpl. lia.
      + rewrite nth_error_put in Hn by lia. destruct (Nat.eqb n i) eqn:Bi.
        * inversion Hn; subst. apply Nat.eqb_eq in Bi. simpl. lia.
        * pose proof (wf_nth 0 l n c H Hn). lia.
    - rewrite !vals_put. reflexivity.
  Qed.

  Definition step_len (n : nat) (o : op A) : nat :=
    match o with OAppend _ _ | OPrepend _ _ | OInsert _ _ _ => S n | ORemove _ _ => pred n | _ => n end.

  Lemma step_ok fix_idx l o : in_range A (length l) o = true -> (fix_idx = true \/ is_swap A o = false) -> Inv A l ->
    Inv A (step A fix_idx l o) /\ vals A (step A fix_idx l o) = step_list A (vals A l) o /\
    length (step A fix_idx l o) = step_len (length l) o.
  Proof.
    intros Hr Hs H. destruct o as [v|v|k v|k v|k|i j]; simpl in *.
    - destruct (append_ok v l H) as [H1 H2]. split; [exact H1|split; [exact H2|]]. unfold append. rewrite app_length. simpl. lia.
    - destruct (prepend_ok v l) as [H1 H2]. split; [exact H1|split; [exact H2|]]. unfold prepend. simpl. rewrite renum_length. reflexivity.
    - apply Nat.leb_le in Hr. destruct (insert_ok k v l Hr H) as [H1 H2]. split; [exact H1|split; [exact H2|]].
      unfold insert. rewrite app_length, firstn_length_le by lia. rewrite renum_length. cbn [length]. rewrite skipn_length. lia.
    - apply Nat.ltb_lt in Hr. destruct (set_ok k v l Hr H) as [H1 H2]. split; [exact H1|split; [exact H2|]].
      unfold set. rewrite app_length, firstn_length_le by lia. cbn [length]. rewrite skipn_length. lia.
    - apply Nat.ltb_lt in Hr. destruct (remove_ok k l Hr H) as [H1 H2]. split; [exact H1|split; [exact H2|]].
      unfold remove. rewrite app_length, firstn_length_le by lia. rewrite renum_length, skipn_length. lia.
    - destruct Hs as [Hs|Hs]; [|discriminate]. subst fix_idx.
      apply andb_true_iff in Hr. destruct Hr as [Hi Hj]. apply Nat.ltb_lt in Hi, Hj.
      destruct (swap_fixed_ok i j l Hi Hj H) as [H1 H2]. split; [exact H1|split; [exact H2|]].
      unfold swap. destruct (nth_error l i) as [ci|] eqn:Ei; [|apply nth_error_None in Ei; lia].
      destruct (nth_error l j) as [cj|] eqn:Ej; [|apply nth_error_None in Ej; lia].
      rewrite put_length by (rewrite put_length; lia). apply put_length. lia.
  Qed.

  (* every history of in-range operations (swap allowed only if it re-numbers) refines the plain list *)
  Theorem history_refines fix_idx ops : forall l, Inv A l -> ops_in_range A (length l) ops = true ->
    (fix_idx = true \/ forallb (fun o => negb (is_swap A o)) ops = true) ->
    let l' := fold_left (step A fix_idx) ops l in
    let spec := fold_left (step_list A) ops (vals A l) in
    Inv A l' /\ vals A l' = spec /\ length l' = length spec /\ forward A l' = spec /\ backward A l' = rev spec.
  Proof.
    induction ops as [|o r IH]; intros l H Hr Hs; cbn [fold_left].
    - cbn zeta. split; [exact H|]. split; [reflexivity|]. split; [symmetry; apply vals_length|].
      split; [apply forward_ok; exact H|apply backward_ok; exact H].
    - cbn [ops_in_range] in Hr. apply andb_true_iff in Hr. destruct Hr as [Hr1 Hr2].
      assert (Hs1 : fix_idx = true \/ is_swap A o = false).
      { destruct Hs as [Hs|Hs]; [left; exact Hs|right]. simpl in Hs. apply andb_true_iff in Hs. destruct Hs as [Hs _].
        apply negb_true_iff in Hs. exact Hs. }
      assert (Hs2 : fix_idx = true \/ forallb (fun o => negb (is_swap A o)) r = true).
      { destruct Hs as [Hs|Hs]; [left; exact Hs|right]. simpl in Hs. apply andb_true_iff in Hs. destruct Hs as [_ Hs]. exact Hs. }
      destruct (step_ok fix_idx l o Hr1 Hs1 H) as [I1 [V1 L1]].
      rewrite <- V1. apply IH; [exact I1| |exact Hs2].
      rewrite L1. unfold step_len. exact Hr2.
  Qed.
End P.

(* Swap without re-numbering breaks iteration: after Swap(0,1) on [a;b;c] the
   iterators yield [b;c] forward instead of [b;a;c] (finding F9). *)
Theorem swap_unfixed_refuted : exists (l : list (cell nat)) i j,
  Inv nat l /\ i < length l /\ j < length l /\
  forward nat (swap nat false i j l) <> step_list nat (vals nat l) (OSwap nat i j).
Proof.
  exists [mk 0 10; mk 1 20; mk 2 30], 0, 1. repeat split; simpl; try lia. discriminate.
Qed.
