(* C17, both directions: run against the environment of ANY world, the value search of the model finds an owned value
   exactly when the specification (Pub/ForwardSpec.v) says one lies within the depth. *)
From Coq Require Import String List Bool Arith Lia.
From Verif Require Import Base.ListX Base.Json Base.Free Pub.Events Pub.Calls Pub.Value Pub.Util Pub.SideEffect Pub.ForwardSpec.
From Verif Require Import Proofs.OnlyProofs Proofs.DeliveryProofs Proofs.ServeProofs.
Import ListNotations.
Open Scope string_scope.
Open Scope list_scope.

(* ---- the declarative and the decidable reading of condition 3 agree ---- *)
Lemma reach_b_level w : forall fuel a, reach_b w fuel a = true <-> exists n x, n < fuel /\ Level w n a x /\ names_owned w x = true.
Proof.
  induction fuel as [|f IH]; intros a; cbn [reach_b].
  - split; [intros H; discriminate H|intros [n [x [H _]]]; lia].
  - rewrite orb_true_iff, existsb_exists. split.
    + intros [H|[y [Hy Hr]]].
      * exists 0, a. split; [lia|]. split; [constructor|exact H].
      * apply IH in Hr. destruct Hr as [n [x [Hn [Hl Ho]]]]. exists (S n), x. split; [lia|]. split; [econstructor; eassumption|exact Ho].
    + intros [n [x [Hn [Hl Ho]]]]. inversion Hl as [a0|n0 a0 y x0 Hy Hl']; subst.
      * left. exact Ho.
      * right. exists y. split; [exact Hy|]. apply IH. exists n0, x. split; [lia|]. split; assumption.
Qed.
Lemma reach_b_spec w depth a : reach_b w depth a = true <-> Reach w depth a.
Proof. apply reach_b_level. Qed.

(* ---- results and events of a run against a stateless environment ---- *)
Definition res_env {A} (env : ev -> ans) (m : prog A) : A := fst (run_env env m).
Definition evs_env {A} (env : ev -> ans) (m : prog A) : list ev := snd (run_env env m).
Lemma res_env_bind {A B} env (m : prog A) (f : A -> prog B) : res_env env (bind m f) = res_env env (f (res_env env m)).
Proof. unfold res_env. rewrite run_env_bind. destruct (run_env env m) as [a t1]. cbn [fst]. destruct (run_env env (f a)) as [b t2]. reflexivity. Qed.
Lemma evs_env_bind {A B} env (m : prog A) (f : A -> prog B) : evs_env env (bind m f) = evs_env env m ++ evs_env env (f (res_env env m)).
Proof. unfold res_env, evs_env. rewrite run_env_bind. destruct (run_env env m) as [a t1]. cbn [fst snd]. destruct (run_env env (f a)) as [b t2]. reflexivity. Qed.
Lemma res_env_bindr {A B} env (m : prog (res A)) (f : A -> prog (res B)) :
  res_env env (bindr m f) = match res_env env m with Ok a => res_env env (f a) | Err e => Err e | Panic s => Panic s end.
Proof. unfold bindr. rewrite res_env_bind. destruct (res_env env m); reflexivity. Qed.
Lemma evs_env_bindr {A B} env (m : prog (res A)) (f : A -> prog (res B)) :
  evs_env env (bindr m f) = evs_env env m ++ match res_env env m with Ok a => evs_env env (f a) | _ => [] end.
Proof. unfold bindr. rewrite evs_env_bind. destruct (res_env env m); reflexivity. Qed.
Lemma res_env_lift {A} env (r : res A) : res_env env (lift r) = r.
Proof. reflexivity. Qed.
Lemma res_env_ok {A} env (a : A) : res_env env (ok a) = Ok a.
Proof. reflexivity. Qed.
Lemma only_evs {A} (P : ev -> bool) env (m : prog A) : only P m -> forallb P (evs_env env m) = true.
Proof.
  unfold evs_env. induction m as [a|e k IH]; cbn [only run_env]; intros H; [reflexivity|].
  destruct H as [He Hk]. specialize (IH (env e) (Hk (env e))). destruct (run_env env (k (env e))) as [a tr]. cbn [snd forallb] in *. rewrite He, IH. reflexivity.
Qed.

Definition is_batch (e : ev) : bool := match e with EBatchDeliver _ _ => true | _ => false end.
Definition no_batch (e : ev) : bool := negb (is_batch e).
Definition batches (tr : list ev) : list ev := filter is_batch tr.
Lemma batches_app a b : batches (a ++ b) = batches a ++ batches b.
Proof. unfold batches. apply filter_app. Qed.
Lemma no_batches tr : forallb no_batch tr = true -> batches tr = [].
Proof.
  induction tr as [|e r IH]; cbn [forallb batches filter]; intros H; [reflexivity|]. apply andb_true_iff in H. destruct H as [H1 H2].
  unfold no_batch in H1. apply negb_true_iff in H1. rewrite H1. apply IH. exact H2.
Qed.

Section World.
  Variable w : fworld.
  Variable env : ev -> ans.
  Hypothesis env_lock : forall i, env (ELock i) = AOk.
  Hypothesis env_owns : forall i, env (EDb "Owns" [JStr i]) = ABool (fw_owns w i).
  Hypothesis env_nt : forall b, env (ENewTransport b) = AOk.
  Hypothesis env_deref : forall u, env (EDeref u) = deref_answer (fw_deref w u).

  Lemma res_lock i : res_env env (lock i) = Ok tt.
  Proof. unfold lock, call, res_env. cbn [bind run_env]. rewrite env_lock. reflexivity. Qed.
  Lemma res_owns i : res_env env (db_bool "Owns" [JStr i]) = Ok (fw_owns w i).
  Proof. unfold db_bool, db, call, res_env. cbn [bind run_env map canon]. rewrite env_owns. reflexivity. Qed.

  Lemma res_owns_any : forall ids, res_env env (owns_any ids) = Ok (existsb (fw_owns w) ids).
  Proof.
    induction ids as [|i r IH]; cbn [owns_any existsb]; [reflexivity|].
    rewrite res_env_bindr, res_lock, res_env_bind, res_owns, res_env_bind, res_env_bindr, res_env_lift.
    destruct (fw_owns w i); [reflexivity|]. exact IH.
  Qed.

  Lemma res_owns_any_value : forall vals b, res_env env (owns_any_value vals) = Ok b -> b = existsb (owned_id w) vals.
  Proof.
    induction vals as [|v r IH]; intros b; cbn [owns_any_value existsb]; [intros H; injection H as <-; reflexivity|].
    rewrite res_env_bindr, res_env_lift. unfold owned_id at 1.
    destruct (get_id v) as [i|e|p]; try (intros H; discriminate H).
    rewrite res_env_bindr, res_lock, res_env_bind, res_owns, res_env_bind, res_env_bindr, res_env_lift.
    destruct (fw_owns w i); [intros H; injection H as <-; reflexivity|]. apply IH.
  Qed.

  Lemma res_fetch box : forall iris l, res_env env (fetch_for_forwarding box iris) = Ok l -> l = fetched_of w iris.
  Proof.
    induction iris as [|i r IH]; intros l; cbn [fetch_for_forwarding]; [intros H; injection H as <-; reflexivity|].
    unfold fetched_of. cbn [flat_map]. fold (fetched_of w r).
    rewrite res_env_bindr. unfold new_transport at 1, call. unfold res_env at 1. cbn [bind run_env]. rewrite env_nt. cbn [ok run_env fst].
    rewrite res_env_bind. unfold dereference at 1, call. unfold res_env at 2. cbn [bind run_env ret]. rewrite env_deref, deref_dd. cbn [fst].
    destruct (fw_deref w i) as [j| |].
    - destruct (to_type j) as [v|e|p]; [|apply IH|apply IH].
      rewrite res_env_bindr. destruct (res_env env (fetch_for_forwarding box r)) as [more|e|p] eqn:E; try (intros H; discriminate H).
      intros H. injection H as <-. apply (f_equal (cons v)). apply IH. reflexivity.
    - intros H. discriminate H.
    - apply IH.
  Qed.

  (* the value search answers what the specification says, whenever it answers *)
  Lemma res_has_values : forall fuel box v b, res_env env (has_forwarding_values fuel box v) = Ok b -> b = reach_b w fuel v.
  Proof.
    induction fuel as [|f IH]; intros box v b; cbn [has_forwarding_values reach_b]; [intros H; injection H as <-; reflexivity|].
    unfold names_owned, next_values. destruct (forwarding_values v) as [types iris]. cbn [fst snd].
    rewrite res_env_bindr, res_owns_any. destruct (existsb (fw_owns w) iris); [intros H; injection H as <-; reflexivity|]. cbn [orb].
    rewrite res_env_bindr. destruct (res_env env (owns_any_value types)) as [o2|e|p] eqn:E2; try (intros H; discriminate H).
    apply res_owns_any_value in E2. rewrite <- E2. destruct o2; [intros H; injection H as <-; reflexivity|]. cbn [orb].
    rewrite res_env_bindr. destruct (res_env env (fetch_for_forwarding box iris)) as [fetched|e|p] eqn:E3; try (intros H; discriminate H).
    apply res_fetch in E3. rewrite <- E3. generalize (types ++ fetched). intros l. revert b.
    induction l as [|x r IHl]; intros b; cbn [existsb]; [intros H; injection H as <-; reflexivity|].
    rewrite res_env_bindr. destruct (res_env env (has_forwarding_values f box x)) as [h|e|p] eqn:E4; try (intros H; discriminate H).
    apply IH in E4. rewrite <- E4. destruct h; [intros H; injection H as <-; reflexivity|]. apply IHl.
  Qed.

  (* ---- the whole of InboxForwarding ---- *)
  Hypothesis env_unlock : forall i, env (EUnlock i) = AOk.
  Hypothesis env_exists : forall i, env (EDb "Exists" [JStr i]) = ABool (fw_seen w).
  Hypothesis env_create : forall x, env (EDb "Create" [x]) = AOk.
  Hypothesis env_get : forall i, env (EDb "Get" [JStr i]) = AJson (fw_get w i).
  Hypothesis env_depth : env (EApp "MaxInboxForwardingRecursionDepth" []) = ANat (fw_depth w).
  Hypothesis env_filter : forall args, env (EApp "FilterForwarding" args) = AIris (fw_filter w args).
  Hypothesis env_batch : forall p r, env (EBatchDeliver p r) = AOk.

  Lemma res_unlock {A} i (k : prog A) : res_env env (unlock i ;;; k) = res_env env k.
  Proof. rewrite res_env_bind. reflexivity. Qed.

  Lemma res_my_iris : forall l, res_env env (my_iris l) = Ok (filter (fw_owns w) l).
  Proof.
    induction l as [|i r IH]; cbn [my_iris filter]; [reflexivity|].
    rewrite res_env_bindr, res_lock, res_env_bind, res_owns, res_unlock, res_env_bindr, res_env_lift, res_env_bindr, IH.
    destruct (fw_owns w i); reflexivity.
  Qed.

  Definition col_ids (l : list string) : list string := filter (fun i => is_collection_value (fw_get w i)) l.
  Lemma res_load : forall l d c,
    res_env env (load_collections l d c) = (Ok (c ++ map (fun i => (i, fw_get w i)) (col_ids l)), d ++ col_ids l).
  Proof.
    induction l as [|i r IH]; intros d c; cbn [load_collections col_ids filter map]; [rewrite !app_nil_r; reflexivity|].
    rewrite res_env_bind, res_lock. rewrite res_env_bind. unfold db_json at 1, db, call. unfold res_env at 2. cbn [bind run_env map canon]. rewrite env_get. cbn [ok run_env fst].
    fold (col_ids r). destruct (is_collection_value (fw_get w i)) eqn:Ec; unfold is_collection_value in Ec; cbv zeta; rewrite Ec.
    - rewrite IH. cbn [map]. rewrite <- !app_assoc. reflexivity.
    - rewrite res_unlock. apply IH.
  Qed.

  Lemma in_insert_sorted x : forall l y, In y (insert_sorted x l) <-> y = x \/ In y l.
  Proof.
    induction l as [|z r IH]; intros y; cbn [insert_sorted In]; [intuition congruence|].
    destruct (String.leb x z); cbn [In]; [intuition congruence|]. rewrite IH. intuition congruence.
  Qed.
  Lemma in_sort_strings : forall l y, In y (sort_strings l) <-> In y l.
  Proof.
    unfold sort_strings. induction l as [|x r IH]; intros y; cbn [fold_right In]; [reflexivity|]. rewrite in_insert_sorted, IH. intuition congruence.
  Qed.
  Lemma filter_nil_iff {A} (f : A -> bool) l : filter f l = [] <-> forall x, In x l -> f x = false.
  Proof.
    induction l as [|a r IH]; cbn [filter In]; [intuition|]. destruct (f a) eqn:E.
    - split; [intros H; discriminate H|]. intros H. rewrite (H a (or_introl eq_refl)) in E. discriminate E.
    - rewrite IH. split; [intros H x [<-|Hx]; [exact E|apply H; exact Hx]|intros H x Hx; apply H; right; exact Hx].
  Qed.
  (* the collections loaded are none exactly when no owned collection is addressed *)
  Lemma loaded_nil l : col_ids (sort_strings (dedupe_iris (filter (fw_owns w) l) [])) = [] <-> owned_collections w l = [].
  Proof.
    unfold col_ids, owned_collections, dedupe_iris. rewrite !filter_nil_iff. split.
    - intros H x Hx. destruct (fw_owns w x) eqn:Eo; [|reflexivity]. cbn [andb]. apply H. apply (proj2 (in_sort_strings _ _)). apply (proj2 (dedupe_against_spec _ _ _)).
      split; [apply filter_In; split; assumption|intros []].
    - intros H x Hx. apply (proj1 (in_sort_strings _ _)) in Hx. apply (proj1 (dedupe_against_spec _ _ _)) in Hx. destruct Hx as [Hx _]. apply filter_In in Hx. destruct Hx as [Hx Eo].
      specialize (H x Hx). rewrite Eo in H. exact H.
  Qed.

  Lemma res_exists i : res_env env (db_bool "Exists" [JStr i]) = Ok (fw_seen w).
  Proof. unfold db_bool, db, call, res_env. cbn [bind run_env map canon]. rewrite env_exists. reflexivity. Qed.
  Lemma res_create x : res_env env (db_unit "Create" [x]) = Ok tt.
  Proof. unfold db_unit, db, call, res_env. cbn [bind run_env map]. rewrite env_create. reflexivity. Qed.

  Definition B {A} (m : prog A) : list ev := batches (evs_env env m).
  Lemma B_bind {A C} (m : prog A) (f : A -> prog C) : B (bind m f) = B m ++ B (f (res_env env m)).
  Proof. unfold B. rewrite evs_env_bind, batches_app. reflexivity. Qed.
  Lemma B_bindr {A C} (m : prog (res A)) (f : A -> prog (res C)) : B (bindr m f) = B m ++ match res_env env m with Ok a => B (f a) | _ => [] end.
  Proof. unfold B. rewrite evs_env_bindr, batches_app. destruct (res_env env m); reflexivity. Qed.
  Lemma B_quiet {A} (m : prog A) : only no_batch m -> B m = [].
  Proof. intros H. unfold B. apply no_batches. apply only_evs. exact H. Qed.
  Lemma B_ret {A} (x : A) : B (Ret x) = [].
  Proof. reflexivity. Qed.

  Lemma B_lock i : B (lock i) = []. Proof. apply B_quiet. apply q_lock. reflexivity. Qed.
  Lemma B_unlock i : B (unlock i) = []. Proof. apply B_quiet. apply q_unlock. reflexivity. Qed.
  Lemma B_db_bool op args : B (db_bool op args) = []. Proof. apply B_quiet. apply q_db_bool with (dbok := fun _ => true); reflexivity. Qed.
  Lemma B_db_unit op args : B (db_unit op args) = []. Proof. apply B_quiet. apply q_db_unit with (dbok := fun _ => true); reflexivity. Qed.
  Lemma B_lift {A} (r : res A) : B (lift r) = []. Proof. reflexivity. Qed.
  Lemma B_app n args : B (app n args) = []. Proof. apply B_quiet. apply q_app. reflexivity. Qed.
  Lemma B_my_iris l : B (my_iris l) = []. Proof. apply B_quiet. apply q_my_iris with (dbok := fun _ => true); reflexivity. Qed.
  Lemma B_load l d c : B (load_collections l d c) = []. Proof. apply B_quiet. apply q_load_collections with (dbok := fun _ => true); reflexivity. Qed.
  Lemma B_has_values fuel box v : B (has_forwarding_values fuel box v) = [].
  Proof. apply B_quiet. apply q_has_forwarding_values with (dbok := fun _ => true); reflexivity. Qed.
  Lemma B_unlock_all l : B (unlock_all l) = []. Proof. apply B_quiet. apply q_unlock_all. reflexivity. Qed.
  Lemma B_new_transport b : B (new_transport b) = []. Proof. apply B_quiet. apply q_new_transport. reflexivity. Qed.

  Lemma res_tail {A} l (x : A) : res_env env (unlock_all l ;;; ret x) = x.
  Proof. rewrite res_env_bind. reflexivity. Qed.
  Lemma B_tail {A} l (x : A) : B (unlock_all l ;;; ret x) = [].
  Proof. rewrite B_bind, B_unlock_all. reflexivity. Qed.
  Lemma res_depth : res_env env (app "MaxInboxForwardingRecursionDepth" []) = ANat (fw_depth w).
  Proof. unfold app, call, res_env. cbn [bind run_env map]. rewrite env_depth. reflexivity. Qed.
  Lemma res_filter args : res_env env (app "FilterForwarding" args) = AIris (fw_filter w (map canon args)).
  Proof. unfold app, call, res_env. cbn [bind run_env]. rewrite env_filter. reflexivity. Qed.
  Lemma res_new_transport b : res_env env (new_transport b) = Ok tt.
  Proof. unfold new_transport, call, res_env. cbn [bind run_env]. rewrite env_nt. reflexivity. Qed.
  Lemma B_batch p r : B (batch_deliver p r) = [EBatchDeliver (canon (streams_serialize p)) r].
  Proof. unfold batch_deliver, call, B, evs_env. cbn [bind run_env]. rewrite env_batch. reflexivity. Qed.

  Theorem forwarding_iff inbox a : res_env env (inbox_forwarding inbox a) = Ok tt ->
    if must_forward w a then exists rcpts, B (inbox_forwarding inbox a) = [EBatchDeliver (canon (streams_serialize a)) rcpts]
    else B (inbox_forwarding inbox a) = [].
  Proof.
    unfold inbox_forwarding, must_forward. cbv zeta.
    rewrite res_env_bindr, B_bindr, res_lock, B_lock. cbn [app].
    rewrite res_env_bind, B_bind, res_exists, B_db_bool. cbn [app].
    destruct (fw_seen w); cbn [negb andb].
    { intros _. rewrite B_bind, B_unlock. reflexivity. }
    rewrite res_env_bind, B_bind, res_create, B_db_unit. cbn [app].
    rewrite res_unlock, B_bind, B_unlock. cbn [app].
    rewrite res_env_bindr, B_bindr, res_env_lift, B_lift. cbn [app].
    unfold addressed.
    rewrite res_env_bindr, B_bindr, res_env_lift, B_lift. cbn [app].
    destruct (ids_of "to" a) as [to|e|p]; try (intros H; discriminate H).
    rewrite res_env_bindr, B_bindr, res_env_lift, B_lift. cbn [app].
    destruct (ids_of "cc" a) as [cc|e|p]; try (intros H; discriminate H).
    rewrite res_env_bindr, B_bindr, res_env_lift, B_lift. cbn [app].
    destruct (ids_of "audience" a) as [au|e|p]; try (intros H; discriminate H).
    rewrite res_env_bindr, B_bindr, res_my_iris, B_my_iris. cbn [app].
    rewrite res_env_bind, B_bind, res_load, B_load. cbn [app].
    rewrite !app_nil_l. rewrite res_env_bind, B_bind, res_tail, B_tail, app_nil_r.
    pose proof (loaded_nil (to ++ cc ++ au)) as Hn.
    destruct (col_ids (sort_strings (dedupe_iris (filter (fw_owns w) (to ++ cc ++ au)) []))) as [|c0 cr].
    { rewrite (proj1 Hn eq_refl). cbn. intros _. reflexivity. }
    destruct (owned_collections w (to ++ cc ++ au)) as [|o0 orr]; [destruct Hn as [_ Hn]; discriminate (Hn eq_refl)|]. clear Hn.
    cbn [length Nat.eqb negb andb map].
    rewrite res_env_bindr, B_bindr, res_env_lift, B_lift, app_nil_l.
    rewrite res_env_bind, B_bind, res_depth, B_app, app_nil_l.
    fold (effective_depth w).
    rewrite res_env_bindr, B_bindr, B_has_values, app_nil_l.
    destruct (res_env env (has_forwarding_values (effective_depth w) inbox a)) as [b|e|p] eqn:E; try (intros H; discriminate H).
    apply res_has_values in E. rewrite <- E. destruct b; cbn [negb]; [|intros _; reflexivity].
    rewrite res_env_bind, B_bind, res_filter, B_app, app_nil_l.
    rewrite res_env_bindr, B_bindr, res_env_lift, B_lift, app_nil_l.
    match goal with |- context [forwarding_recipients ?x ?y] => destruct (forwarding_recipients x y) as [rcpts|e|p] end; try (intros H; discriminate H).
    intros _. exists rcpts. unfold deliver_to_recipients. rewrite B_bindr, res_new_transport, B_new_transport, app_nil_l. apply B_batch.
  Qed.
End World.

(* ---- what must_forward says, in words ---- *)
Lemma must_forward_spec w a : must_forward w a = true <->
  fw_seen w = false /\
  exists l, addressed a = Ok l /\
            (exists c, In c l /\ fw_owns w c = true /\ is_collection_value (fw_get w c) = true) /\
            Reach w (effective_depth w) a.
Proof.
  unfold must_forward. rewrite andb_true_iff, negb_true_iff. split.
  - intros [Hs H]. split; [exact Hs|]. destruct (addressed a) as [l|e|p]; try discriminate H. exists l. split; [reflexivity|].
    apply andb_true_iff in H. destruct H as [Hc Hr]. split; [|apply reach_b_spec; exact Hr].
    unfold owned_collections in Hc. destruct (filter (fun i => fw_owns w i && is_collection_value (fw_get w i)) l) as [|c r] eqn:E; [discriminate Hc|].
    assert (Hin : In c (c :: r)) by (left; reflexivity). rewrite <- E in Hin. apply filter_In in Hin. destruct Hin as [Hin Hb]. apply andb_true_iff in Hb.
    exists c. tauto.
  - intros [Hs [l [Hl [[c [Hin [Ho Hc]]] Hr]]]]. split; [exact Hs|]. rewrite Hl. apply andb_true_iff. split; [|apply reach_b_spec; exact Hr].
    unfold owned_collections. destruct (filter (fun i => fw_owns w i && is_collection_value (fw_get w i)) l) as [|c' r] eqn:E; [|reflexivity].
    assert (Hf : In c (filter (fun i => fw_owns w i && is_collection_value (fw_get w i)) l)) by (apply filter_In; split; [exact Hin|rewrite Ho, Hc; reflexivity]).
    rewrite E in Hf. destruct Hf.
Qed.

(* ---- the environment a world presents (every call succeeds) ---- *)
Definition env_of (w : fworld) (e : ev) : ans :=
  match e with
  | ELock _ | EUnlock _ | ENewTransport _ | EBatchDeliver _ _ => AOk
  | EDeref u => deref_answer (fw_deref w u)
  | EDb op args =>
      if String.eqb op "Owns" then match args with [JStr i] => ABool (fw_owns w i) | _ => AErr end
      else if String.eqb op "Exists" then ABool (fw_seen w)
      else if String.eqb op "Create" then AOk
      else if String.eqb op "Get" then match args with [JStr i] => AJson (fw_get w i) | _ => AErr end
      else AErr
  | EApp n args => if String.eqb n "FilterForwarding" then AIris (fw_filter w args) else ANat (fw_depth w)
  | _ => AErr
  end.

Theorem forwarding_iff_world w inbox a :
  fst (run_env (env_of w) (inbox_forwarding inbox a)) = Ok tt ->
  if must_forward w a
  then exists rcpts, batches (snd (run_env (env_of w) (inbox_forwarding inbox a))) = [EBatchDeliver (canon (streams_serialize a)) rcpts]
  else batches (snd (run_env (env_of w) (inbox_forwarding inbox a))) = [].
Proof. apply (forwarding_iff w (env_of w)); intros; reflexivity. Qed.
