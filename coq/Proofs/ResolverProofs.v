From Coq Require Import String List Bool Arith Lia.
From Verif Require Import Base.ListX Vocab.Tables Streams.Resolver Streams.Hier.
From Verif Require Import Gen.TablesShipped.
Import ListNotations.
Open Scope string_scope.

(* ---------- general facts about the dispatch loops (any tables) ---------- *)
Lemma first_cb_spec iface cbs : forall i k,
  first_cb iface cbs i = Some k ->
  i <= k /\ nth_error cbs (k - i) = Some iface /\ (forall j, j < k - i -> nth_error cbs j <> Some iface).
Proof.
  induction cbs as [|c r IH]; intros i k H; simpl in H; [discriminate|].
  destruct (String.eqb c iface) eqn:E.
  - inversion H; subst. apply String.eqb_eq in E. subst. replace (k - k) with 0 by lia.
    split; [lia|split; [reflexivity|]]. intros j Hj. lia.
  - apply IH in H. destruct H as [H1 [H2 H3]]. split; [lia|].
    replace (k - i) with (S (k - S i)) by lia. simpl. split; [exact H2|].
    intros j Hj. destruct j as [|j]; simpl.
    + intros Hc. inversion Hc; subst. rewrite String.eqb_refl in E. discriminate.
    + apply H3. lia.
Qed.

Lemma first_cb_none iface cbs : forall i, first_cb iface cbs i = None <-> ~ In iface cbs.
Proof.
  induction cbs as [|c r IH]; intros i; simpl.
  - split; [intros _ H; exact H|reflexivity].
  - destruct (String.eqb c iface) eqn:E.
    + apply String.eqb_eq in E. subst. split; [discriminate|]. intros H. exfalso. apply H. left. reflexivity.
    + rewrite IH. apply String.eqb_neq in E. split.
      * intros H [Hc|Hc]; [contradiction|]. exact (H Hc).
      * intros H Hc. apply H. right. exact Hc.
Qed.

Section Loop.
  Variable branches : list branch_row.
  Variables uri name : string.

  Lemma type_loop_known br : find_branch branches uri name = Some br ->
    forall cbs i, type_loop branches uri name cbs i =
       match first_cb (b_cb br) cbs i with Some k => Invoked k | None => NoCallbackMatch end.
  Proof.
    intros Hb. induction cbs as [|c r IH]; intros i; simpl; [reflexivity|].
    rewrite Hb. rewrite String.eqb_sym. destruct (String.eqb c (b_cb br)); [reflexivity|apply IH].
  Qed.

  Lemma type_loop_unknown : find_branch branches uri name = None ->
    forall cbs i, is_unmatched (type_loop branches uri name cbs i) = true.
  Proof. intros Hb [|c r] i; simpl; [reflexivity|]. rewrite Hb. reflexivity. Qed.
End Loop.

(* the statement of C14 for a resolver whose branch table is well formed *)
Section Dispatch.
  Variable types : list type_row.
  Variable structs : list (string * string).
  Variable branches : list branch_row.
  Hypothesis Hwf : branches_wf types structs true branches = true.

  Lemma wf_known t : In t types -> exists br s, find_branch branches (t_vocab_uri t) (t_name t) = Some br /\
      struct_of structs (t_name t) = Some s /\ b_cb br = s /\ b_val br = s.
  Proof.
    intros Ht. unfold branches_wf in Hwf. apply andb_true_iff in Hwf. destruct Hwf as [H _].
    apply andb_true_iff in H. destruct H as [H _]. rewrite forallb_forall in H. specialize (H t Ht).
    destruct (find_branch branches (t_vocab_uri t) (t_name t)) as [br|]; [|discriminate].
    destruct (struct_of structs (t_name t)) as [s|]; [|discriminate].
    apply andb_true_iff in H. destruct H as [H1 H2]. simpl in H2.
    apply String.eqb_eq in H1, H2. exists br, s. auto.
  Qed.

  Lemma wf_unknown uri name : (forall t, In t types -> ~ (t_vocab_uri t = uri /\ t_name t = name)) ->
    find_branch branches uri name = None.
  Proof.
    intros Hn. destruct (find_branch branches uri name) as [br|] eqn:E; [|reflexivity]. exfalso.
    unfold find_branch in E. apply find_some in E. destruct E as [Hin Hg].
    apply andb_true_iff in Hg. destruct Hg as [G1 G2]. apply String.eqb_eq in G1, G2.
    unfold branches_wf in Hwf. apply andb_true_iff in Hwf. destruct Hwf as [H _].
    apply andb_true_iff in H. destruct H as [_ H]. rewrite forallb_forall in H. specialize (H br Hin).
    rewrite existsb_exists in H. destruct H as [t [Ht Hc]]. apply andb_true_iff in Hc. destruct Hc as [C1 C2].
    apply String.eqb_eq in C1, C2. apply (Hn t Ht). split; congruence.
  Qed.

  (* TypeResolver: invoked callback is the first one written for exactly this type *)
  Theorem type_dispatch t s cbs : In t types -> struct_of structs (t_name t) = Some s ->
    match type_resolve branches (t_vocab_uri t) (t_name t) cbs with
    | Invoked k => nth_error cbs k = Some s /\ (forall j, j < k -> nth_error cbs j <> Some s)
    | NoCallbackMatch => ~ In s cbs
    | _ => False
    end.
  Proof.
    intros Ht Hs. destruct (wf_known t Ht) as [br [s' [Hb [Hs' [Hc _]]]]].
    rewrite Hs in Hs'. injection Hs' as Hs'. subst s'. unfold type_resolve.
    rewrite (type_loop_known _ _ _ br Hb). rewrite Hc.
    destruct (first_cb s cbs 0) as [k|] eqn:E.
    - apply first_cb_spec in E. destruct E as [_ [E2 E3]]. rewrite Nat.sub_0_r in *. split; assumption.
    - apply first_cb_none in E. exact E.
  Qed.

  Theorem type_unknown uri name cbs : (forall t, In t types -> ~ (t_vocab_uri t = uri /\ t_name t = name)) ->
    is_unmatched (type_resolve branches uri name cbs) = true.
  Proof. intros H. apply type_loop_unknown. apply wf_unknown. exact H. Qed.

  Theorem pred_dispatch t s pred pass d : In t types -> struct_of structs (t_name t) = Some s ->
    pred_apply branches (t_vocab_uri t) (t_name t) pred pass d =
      if String.eqb s pred then (if pass then PredPassed d else PredRejected) else PredicateUnmatched.
  Proof.
    intros Ht Hs. destruct (wf_known t Ht) as [br [s' [Hb [Hs' [Hc _]]]]].
    rewrite Hs in Hs'. injection Hs' as Hs'. subst s'. unfold pred_apply. rewrite Hb, Hc. reflexivity.
  Qed.

  Theorem pred_unknown uri name pred pass d : (forall t, In t types -> ~ (t_vocab_uri t = uri /\ t_name t = name)) ->
    pred_apply branches uri name pred pass d = UnhandledType.
  Proof. intros H. unfold pred_apply. rewrite (wf_unknown _ _ H). reflexivity. Qed.
End Dispatch.

(* JSON resolver: same statement under injectivity of alias ++ name on the branch table *)
Section Json.
  Variable branches : list branch_row.
  Variable alias : string -> string.
  Definition key (br : branch_row) := alias (b_guard_vocab br) ++ b_guard_name br.
  Hypothesis Hinj : forall b1 b2, In b1 branches -> In b2 branches -> key b1 = key b2 -> b1 = b2.

  Lemma find_json_own br : In br branches -> find_json_branch branches alias (key br) = Some br.
  Proof.
    intros Hin. unfold find_json_branch.
    destruct (find (fun b => String.eqb (key br) (alias (b_guard_vocab b) ++ b_guard_name b)) branches) as [b'|] eqn:E.
    - apply find_some in E. destruct E as [Hin' He]. apply String.eqb_eq in He.
      f_equal. symmetry. apply Hinj; assumption.
    - exfalso. eapply find_none in E; [|exact Hin]. unfold key in E. rewrite String.eqb_refl in E. discriminate.
  Qed.

  Theorem json_dispatch br cbs : In br branches ->
    match json_handle branches alias (key br) true cbs with
    | Invoked k => nth_error cbs k = Some (b_cb br) /\ (forall j, j < k -> nth_error cbs j <> Some (b_cb br))
    | NoCallbackMatch => ~ In (b_cb br) cbs
    | _ => False
    end.
  Proof.
    intros Hin. unfold json_handle. rewrite (find_json_own br Hin).
    destruct (first_cb (b_cb br) cbs 0) as [k|] eqn:E.
    - apply first_cb_spec in E. destruct E as [_ [E2 E3]]. rewrite Nat.sub_0_r in *. split; assumption.
    - apply first_cb_none in E. exact E.
  Qed.

  Theorem json_unknown ts ok cbs : (forall br, In br branches -> key br <> ts) ->
    json_handle branches alias ts ok cbs = UnhandledType.
  Proof.
    intros H. unfold json_handle, find_json_branch.
    destruct (find (fun br => String.eqb ts (alias (b_guard_vocab br) ++ b_guard_name br)) branches) as [b|] eqn:E; [|reflexivity].
    apply find_some in E. destruct E as [Hin He]. apply String.eqb_eq in He. exfalso. apply (H b Hin). symmetry. exact He.
  Qed.
End Json.

(* ---------- the shipped tables ---------- *)
Lemma type_branches_wf : branches_wf types_shipped type_structs true type_branches = true.
Proof. vm_compute. reflexivity. Qed.
Lemma pred_branches_wf : branches_wf types_shipped type_structs true pred_branches = true.
Proof. vm_compute. reflexivity. Qed.
(* JSON branches: guard vocabulary is the https spelling of the type's URI (the resolver also tries http) *)
Definition json_wf : bool :=
  forallb (fun t => match find (fun br => String.eqb (b_guard_name br) (t_name t)) json_branches, struct_of type_structs (t_name t) with
                    | Some br, Some s => String.eqb (b_cb br) s &&
                        String.eqb (b_deser br) ("Deserialize" ++ t_name t ++ substring 0 (String.length s - String.length (t_name t)) s)
                    | _, _ => false end) types_shipped &&
  Nat.eqb (length json_branches) (length types_shipped) &&
  nodupb (map b_guard_name json_branches).
Lemma json_branches_wf : json_wf = true.
Proof. vm_compute. reflexivity. Qed.

Lemma json_noalias_inj : forall b1 b2, In b1 json_branches -> In b2 json_branches ->
  key (fun _ => "") b1 = key (fun _ => "") b2 -> b1 = b2.
Proof.
  assert (H : forallb (fun b1 => forallb (fun b2 => negb (String.eqb (b_guard_name b1) (b_guard_name b2)) ||
              (String.eqb (b_guard_vocab b1) (b_guard_vocab b2) && String.eqb (b_deser b1) (b_deser b2) &&
               String.eqb (b_cb b1) (b_cb b2) && String.eqb (b_val b1) (b_val b2))) json_branches) json_branches = true)
    by (vm_compute; reflexivity).
  intros b1 b2 H1 H2 Hk. unfold key in Hk. simpl in Hk.
  rewrite forallb_forall in H. specialize (H b1 H1). rewrite forallb_forall in H. specialize (H b2 H2).
  rewrite Hk, String.eqb_refl in H. simpl in H.
  repeat (apply andb_true_iff in H; destruct H as [H ?]).
  repeat match goal with E : String.eqb _ _ = true |- _ => apply String.eqb_eq in E end.
  destruct b1, b2; simpl in *; congruence.
Qed.

Definition all_structs : list string := map fst type_structs.
Lemma constructor_cases : set_eq json_cases all_structs = true /\ set_eq type_cases all_structs = true /\
                          set_eq pred_cases all_structs = true /\ nodupb all_structs = true.
Proof. vm_compute. repeat split. Qed.

Lemma unmatched_errs_ok : unmatched_errs = ["ErrPredicateUnmatched"; "ErrUnhandledType"; "ErrNoCallbackMatch"].
Proof. vm_compute. reflexivity. Qed.
