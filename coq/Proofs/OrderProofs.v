(* C05: the ordering monitor ord_step holds of the model of baseActor.deliver / PostOutbox / Send for every environment. *)
From Coq Require Import String List Bool Arith Lia.
From Verif Require Import Base.ListX Base.Json Base.Free Pub.Events Pub.Calls Pub.Value Pub.Util Pub.SideEffect Pub.Fed Pub.Soc Pub.BaseActor Pub.Monitors.
From Verif Require Import Proofs.ValueProofs Proofs.OnlyProofs Proofs.HiddenProofs.
Import ListNotations.
Open Scope string_scope.
Open Scope list_scope.

Local Opaque has_prop known_type admits T P.

(* ---- the id of a value depends on its id, type and href members only ---- *)
Lemma get_id_ext a b : jget "id" a = jget "id" b -> type_name a = type_name b -> jget "href" a = jget "href" b -> get_id a = get_id b.
Proof. intros H1 H2 H3. unfold get_id, vhas. rewrite H1, H2, H3. reflexivity. Qed.

Lemma get_id_canon a : get_id (canon a) = get_id a.
Proof.
  unfold get_id, vhas. rewrite !jget_canon, type_name_canon.
  destruct (jget "id" a) as [[]|]; try reflexivity. cbn [option_map].
  destruct (has_prop (type_name a) "href"); [|reflexivity].
  destruct (jget "href" a) as [[]|]; reflexivity.
Qed.
Lemma id_str_canon a : id_str (canon a) = id_str a.
Proof. unfold id_str. rewrite get_id_canon. reflexivity. Qed.

Lemma get_id_strip a : get_id (strip_hidden a) = get_id a.
Proof.
  unfold strip_hidden.
  assert (H : get_id (jremove "bcc" (jremove "bto" a)) = get_id a).
  { apply get_id_ext.
    - rewrite !jget_jremove_other by discriminate. reflexivity.
    - rewrite !type_name_jremove by discriminate. reflexivity.
    - rewrite !jget_jremove_other by discriminate. reflexivity. }
  destruct (elems "object" _); [|exact H].
  rewrite <- H. apply get_id_ext.
  - unfold set_elems. rewrite jget_jset_other by discriminate. reflexivity.
  - apply type_name_set_elems. discriminate.
  - unfold set_elems. rewrite jget_jset_other by discriminate. reflexivity.
Qed.
Lemma id_str_strip a : id_str (strip_hidden a) = id_str a.
Proof. unfold id_str. rewrite get_id_strip. reflexivity. Qed.

(* ---- what a program returns ---- *)
Fixpoint leaves {A} (R : A -> Prop) (m : prog A) : Prop :=
  match m with Ret a => R a | Op e k => forall x, leaves R (k x) end.
Lemma leaves_bind {A B} (R : B -> Prop) (m : prog A) (f : A -> prog B) : (forall a, leaves R (f a)) -> leaves R (bind m f).
Proof. intros Hf. induction m as [a|e k IH]; simpl; [apply Hf|intros x; apply IH]. Qed.
Lemma leaves_bindr {A B} (R : res B -> Prop) (m : prog (res A)) (f : A -> prog (res B)) :
  (forall e, R (Err e)) -> (forall s, R (Panic s)) -> (forall a, leaves R (f a)) -> leaves R (bindr m f).
Proof. intros He Hp Hf. unfold bindr. apply leaves_bind. intros [a|e|s]; simpl; auto. Qed.

Lemma leaves_mono {A} (R R' : A -> Prop) (m : prog A) : (forall a, R a -> R' a) -> leaves R m -> leaves R' m.
Proof. intros H. induction m as [a|e k IH]; simpl; [apply H|intros Hl x; apply IH; apply Hl]. Qed.
(* the continuation may rely on what the first part returned *)
Lemma leaves_bindr_R {A B} (R0 : A -> Prop) (R : res B -> Prop) (m : prog (res A)) (f : A -> prog (res B)) :
  leaves (fun r => match r with Ok a => R0 a | Err e => R (Err e) | Panic s => R (Panic s) end) m ->
  (forall a, R0 a -> leaves R (f a)) -> leaves R (bindr m f).
Proof.
  intros Hm Hf. unfold bindr. induction m as [r|e k IH]; simpl in *.
  - destruct r as [a|e|s]; [apply Hf; exact Hm|exact Hm|exact Hm].
  - intros x. apply IH. apply Hm.
Qed.

Lemma only_leaves_wp {A S} (Pe : ev -> bool) (R : A -> Prop) (step : S -> ev -> ans -> option S) (Inv : S -> Prop) (m : prog A) :
  (forall s e x, Inv s -> Pe e = true -> exists s', step s e x = Some s' /\ Inv s') ->
  only Pe m -> leaves R m -> forall s (Q : S -> A -> Prop), Inv s -> (forall s' a, Inv s' -> R a -> Q s' a) -> wp step m s Q.
Proof.
  intros Hstep. induction m as [a|e k IH]; simpl; intros Hm Hl s Q Hi HQ; [apply HQ; assumption|].
  destruct Hm as [He Hk]. intros x. destruct (Hstep s e x Hi He) as [s' [E Hi']]. rewrite E.
  apply IH; [apply Hk|apply Hl|exact Hi'|exact HQ].
Qed.

(* ---- before the outbox is written: nothing touches it, nothing is delivered or answered ---- *)
Definition pre_ok (e : ev) : bool :=
  match e with
  | EDb op _ => negb (String.eqb op "SetOutbox")
  | EBatchDeliver _ _ => false
  | ESetHeader k _ => negb (String.eqb k "Location")
  | EWriteHeader n => negb (Nat.eqb n 201)
  | _ => true
  end.
Definition pre_db (op : string) : bool := negb (String.eqb op "SetOutbox").

Lemma pre_step s e x : o_set s = 0 -> pre_ok e = true -> exists s', ord_step s e x = Some s' /\ o_set s' = 0.
Proof.
  intros Hs He. destruct e as [i|i|op args|b|i|p r|nm args|n|k v|b|]; simpl in *; try (eexists; split; [reflexivity|exact Hs]); try discriminate.
  - destruct (String.eqb op "Create"); [eexists; split; [reflexivity|exact Hs]|].
    destruct (String.eqb op "GetOutbox"); [eexists; split; [reflexivity|exact Hs]|].
    destruct (String.eqb op "SetOutbox"); [discriminate|]. eexists; split; [reflexivity|exact Hs].
  - destruct (Nat.eqb n 201); [discriminate|]. eexists; split; [reflexivity|exact Hs].
  - destruct (String.eqb k "Location"); [discriminate|]. eexists; split; [reflexivity|exact Hs].
Qed.

Lemma pre_frame {A} (m : prog A) : only pre_ok m -> forall s (Q : ostate -> A -> Prop), o_set s = 0 -> (forall s' a, o_set s' = 0 -> Q s' a) -> wp ord_step m s Q.
Proof.
  intros Hm s Q Hs HQ. apply (only_wp pre_ok ord_step (fun s => o_set s = 0)); auto.
  intros s0 e x H0 He. apply pre_step; assumption.
Qed.

(* ---- after it is written: the stored id stays, the outbox is not written again ---- *)
Definition post_ok (e : ev) : bool :=
  match e with
  | EDb op _ => negb (String.eqb op "SetOutbox") && negb (String.eqb op "Create")
  | ESetHeader k _ => negb (String.eqb k "Location")
  | EWriteHeader n => negb (Nat.eqb n 201)
  | _ => true
  end.
Definition post_db (op : string) : bool := negb (String.eqb op "SetOutbox") && negb (String.eqb op "Create").

Lemma post_step i s e x : o_set s = 1 /\ o_created s = Some i -> post_ok e = true -> exists s', ord_step s e x = Some s' /\ (o_set s' = 1 /\ o_created s' = Some i).
Proof.
  intros [Hs Hc] He. destruct e as [i0|i0|op args|b|i0|p r|nm args|n|k v|b|]; simpl in *; try (eexists; split; [reflexivity|split; assumption]).
  - destruct (String.eqb op "Create"); [rewrite andb_false_r in He; discriminate|].
    destruct (String.eqb op "GetOutbox"); [eexists; split; [reflexivity|split; assumption]|].
    destruct (String.eqb op "SetOutbox"); [discriminate|]. eexists; split; [reflexivity|split; assumption].
  - rewrite Hs. simpl. eexists; split; [reflexivity|split; assumption].
  - destruct (Nat.eqb n 201); [discriminate|]. eexists; split; [reflexivity|split; assumption].
  - destruct (String.eqb k "Location"); [discriminate|]. eexists; split; [reflexivity|split; assumption].
Qed.

(* ---- addToOutbox: stores the activity, then reads the outbox and writes it back with the id at the front ---- *)
Lemma ord_other s e x : (match e with ELock _ | EUnlock _ => True | _ => False end) -> ord_step s e x = Some s.
Proof. destruct e; intros []; reflexivity. Qed.

Lemma wp_lock i s (Q : ostate -> res unit -> Prop) : (forall r, Q s r) -> wp ord_step (lock i) s Q.
Proof. intros H. unfold lock, call. cbn [bind wp]. intros x. rewrite ord_other by exact I. destruct x; apply H. Qed.
Lemma wp_unlock i s (Q : ostate -> unit -> Prop) : Q s tt -> wp ord_step (unlock i) s Q.
Proof. intros H. unfold unlock, call. cbn [bind wp]. intros x. rewrite ord_other by exact I. exact H. Qed.
Lemma wp_bindr {A B} (m : prog (res A)) (f : A -> prog (res B)) s (Q : ostate -> res B -> Prop) :
  wp ord_step m s (fun s' r => match r with Ok a => wp ord_step (f a) s' Q | Err e => Q s' (Err e) | Panic p => Q s' (Panic p) end) ->
  wp ord_step (bindr m f) s Q.
Proof. intros H. unfold bindr. apply wp_bind. eapply wp_mono; [|exact H]. intros s' [a|e|p] H'; exact H'. Qed.

Lemma wp_create a s (Q : ostate -> res unit -> Prop) :
  (forall x, Q {| o_created := match x with AOk => Some (id_str (canon a)) | _ => None end; o_page := o_page s; o_set := o_set s |}
               (match x with AOk => Ok tt | _ => Err EGeneric end)) ->
  wp ord_step (db_unit "Create" [a]) s Q.
Proof. intros H. unfold db_unit, db, call. cbn [bind wp map]. intros x. specialize (H x). destruct x; exact H. Qed.
Lemma wp_get_outbox o s (Q : ostate -> res json -> Prop) :
  (forall x, Q {| o_created := o_created s; o_page := match x with AJson p => Some p | _ => None end; o_set := o_set s |}
               (match x with AJson p => Ok p | _ => Err EGeneric end)) ->
  wp ord_step (db_json "GetOutbox" [JStr o]) s Q.
Proof. intros H. unfold db_json, db, call. cbn [bind wp map]. intros x. specialize (H x). destruct x; exact H. Qed.
Lemma wp_set_outbox i cur s (Q : ostate -> res unit -> Prop) :
  o_set s = 0 -> o_created s = Some i -> o_page s = Some cur ->
  (forall x, Q {| o_created := Some i; o_page := Some cur; o_set := match x with AOk => 1 | _ => 2 end |}
               (match x with AOk => Ok tt | _ => Err EGeneric end)) ->
  wp ord_step (db_unit "SetOutbox" [prepend_iri "orderedItems" i cur]) s Q.
Proof.
  intros H0 Hc Hp H. unfold db_unit, db, call. cbn [bind wp map]. intros x.
  change (ord_step s (EDb "SetOutbox" [canon (prepend_iri "orderedItems" i cur)]) x) with
    (match o_created s, o_page s with
     | Some i', Some cur' => if Nat.eqb (o_set s) 0 && jeqb (canon (prepend_iri "orderedItems" i cur)) (canon (prepend_iri "orderedItems" i' cur'))
                            then Some {| o_created := o_created s; o_page := o_page s; o_set := match x with AOk => 1 | _ => 2 end |} else None
     | _, _ => None end).
  rewrite Hc, Hp, H0, jeqb_refl. cbn [Nat.eqb andb]. specialize (H x). destruct x; exact H.
Qed.

Lemma wp_add_to_outbox outbox a s : o_set s = 0 ->
  wp ord_step (add_to_outbox outbox a) s
     (fun s' r => match r with Ok _ => o_set s' = 1 /\ o_created s' = Some (id_str a) | _ => o_set s' <> 1 end).
Proof.
  intros Hs. unfold add_to_outbox, with_lock_deferred.
  apply wp_bindr. apply wp_lock. intros [_|e|p]; try (rewrite Hs; discriminate).
  apply wp_bind. apply wp_create. intros x.
  apply wp_bind. apply wp_unlock.
  apply wp_bindr. unfold lift. cbn [wp].
  destruct x; try (cbn [o_set]; rewrite Hs; discriminate).
  apply wp_bindr. apply wp_lock. intros [_|e|p]; try (cbn [o_set]; rewrite Hs; discriminate).
  apply wp_bind. apply wp_bindr. apply wp_get_outbox. intros y.
  destruct y; try (apply wp_bind; apply wp_unlock; cbn [wp o_set]; rewrite Hs; discriminate).
  apply wp_set_outbox; [exact Hs|cbn [o_created]; rewrite id_str_canon; reflexivity|reflexivity|]. intros z.
  apply wp_bind. apply wp_unlock. cbn [wp ret]. destruct z; cbn [o_set o_created]; try discriminate. split; reflexivity.
Qed.

(* ---- Deliver after the outbox was written ---- *)
Ltac lv := repeat first [ apply leaves_bindr; [intros; exact I|intros; exact I|intros ?] | apply leaves_bind; intros ? ].
Lemma deliver_leaves outbox a : leaves (fun r => match r with Ok a' => a' = strip_hidden a | _ => True end) (deliver outbox a).
Proof. unfold deliver. lv. reflexivity. Qed.

Lemma only_post_deliver outbox a : only post_ok (deliver outbox a).
Proof. apply q_deliver with (dbok := post_db); try reflexivity; intros; try reflexivity; assumption. Qed.

Definition ord_post (s' : ostate) (r : res json) : Prop :=
  match r with Ok a => o_set s' = 1 /\ o_created s' = Some (id_str a) | _ => True end.

Lemma wp_deliver_after outbox a s : o_set s = 1 -> o_created s = Some (id_str a) ->
  wp ord_step (deliver outbox a) s ord_post.
Proof.
  intros H1 H2.
  apply (only_leaves_wp post_ok (fun r => match r with Ok a' => a' = strip_hidden a | _ => True end) ord_step
           (fun s => o_set s = 1 /\ o_created s = Some (id_str a))).
  - intros s0 e x Hi He. apply post_step; assumption.
  - apply only_post_deliver.
  - apply deliver_leaves.
  - split; assumption.
  - intros s' [a'|e|p] [Hs Hc] Hr; [|exact I|exact I]. subst a'. unfold ord_post. rewrite id_str_strip. split; assumption.
Qed.

(* ---- baseActor.deliver: wrapping, ids and the Social side effect never touch the outbox; then addToOutbox; then Deliver ---- *)
Section Whole.
  Variable cfg : config.
  Variable perm : list string -> list string.

  Ltac pre_side := try reflexivity; intros; try reflexivity; try assumption.

  Theorem ord_deliver_outbox outbox v raw s : o_set s = 0 ->
    wp ord_step (deliver_outbox cfg perm outbox v raw) s ord_post.
  Proof.
    intros Hs. unfold deliver_outbox.
    apply wp_bindr. apply pre_frame; [|exact Hs|].
    { destruct (is_activity v); [exact I|]. apply q_wrap_in_create_for with (dbok := pre_db); pre_side. }
    intros s1 [a0|e|p] H1; [|exact I|exact I].
    destruct (negb (satisfies_activity a0)); [exact I|].
    apply wp_bindr. apply pre_frame; [|exact H1|].
    { apply q_add_new_ids with (dbok := pre_db); pre_side. }
    intros s2 [a1|e|p] H2; [|exact I|exact I].
    apply wp_bindr. unfold post_outbox.
    apply wp_bindr. apply pre_frame; [|exact H2|].
    { apply q_soc_callbacks with (dbok := pre_db); pre_side. }
    intros s3 [r|e|p] H3; [|exact I|exact I].
    apply wp_bindr. eapply wp_mono; [|apply wp_add_to_outbox; exact H3].
    intros s4 [u|e|p] H4; [|exact I|exact I]. destruct H4 as [H4 H5]. cbn [wp ok].
    destruct r as [a2 deliverable]. cbn [fst] in *.
    destruct (c_federating cfg && deliverable).
    - apply wp_bindr. eapply wp_mono; [|apply wp_deliver_after; assumption].
      intros s5 [a3|e|p] H6; [|exact I|exact I]. exact H6.
    - cbn [wp ok]. split; assumption.
  Qed.
End Whole.

(* ---- the two entry points ---- *)
Lemma wp_write_header n s (Q : ostate -> unit -> Prop) : (n = 201 -> o_set s = 1) -> Q s tt -> wp ord_step (write_header n) s Q.
Proof.
  intros Hn H. unfold write_header, call. cbn [bind wp ord_step]. intros x.
  destruct (Nat.eqb n 201) eqn:E; [apply Nat.eqb_eq in E; rewrite (Hn E); cbn [Nat.eqb]; exact H|exact H].
Qed.

Theorem ord_post_outbox_http cfg perm r : wp ord_step (post_outbox_http cfg perm r) o0 (fun _ _ => True).
Proof.
  unfold post_outbox_http, done.
  destruct (negb (is_ap_post _ _)); [exact I|].
  destruct (negb (c_social cfg)).
  { apply wp_bind. apply wp_write_header; [discriminate|exact I]. }
  apply wp_bind. apply pre_frame; [|reflexivity|].
  { unfold authenticate. apply quiet_bind; [apply q_app; reflexivity|]. intros x. destruct x; exact I. }
  intros s1 [[|]|e|p] H1; try exact I.
  destruct (r_body r) as [|j]; [exact I|].
  destruct (to_type j) as [v|e|p]; [|destruct e; try exact I; apply wp_bind; apply wp_write_header; [discriminate|exact I]|exact I].
  apply wp_bind. apply pre_frame; [|exact H1|].
  { apply q_app_unit; reflexivity. }
  intros s2 [u|e|p] H2; try exact I.
  apply wp_bind. eapply wp_mono; [|apply ord_deliver_outbox; exact H2].
  intros s3 [a|e|p] H3; [| |exact I].
  - destruct H3 as [H3 H4]. apply wp_bind. unfold set_header, call. cbn [bind wp]. intros x.
    change (ord_step s3 (ESetHeader "Location" (id_str a)) x) with
      (match o_created s3 with Some i => if String.eqb (id_str a) i && Nat.eqb (o_set s3) 1 then Some s3 else None | None => None end).
    rewrite H4, H3, String.eqb_refl. cbn [andb Nat.eqb wp].
    apply wp_bind. apply wp_write_header; [intros _; exact H3|exact I].
  - destruct e; try exact I; apply wp_bind; apply wp_write_header; try discriminate; exact I.
Qed.

Theorem ord_send cfg perm outbox v : wp ord_step (send cfg perm outbox v) o0 ord_post.
Proof. unfold send. apply ord_deliver_outbox. reflexivity. Qed.

(* ---- what the write does to the listing, and the listing after a history of accepted posts ---- *)
Definition listing (page : json) : list json := elems0 "orderedItems" page.
Definition all_iris (l : list json) : Prop := Forall (fun x => exists s, x = JStr s) l.

Lemma map_canon_iris l : all_iris l -> map canon l = l.
Proof. induction 1 as [|x l [s ->] _ IH]; [reflexivity|]. simpl. rewrite IH. reflexivity. Qed.

Lemma listing_prepend i cur m : cur = JObj m ->
  listing (canon (prepend_iri "orderedItems" i cur)) = JStr i :: map canon (listing cur).
Proof.
  intros ->. unfold listing, elems0, elems, prepend_iri, set_elems. rewrite jget_canon, jget_jset_same.
  fold (elems "orderedItems" (JObj m)). fold (elems0 "orderedItems" (JObj m)).
  destruct (elems0 "orderedItems" (JObj m)) as [|x l]; reflexivity.
Qed.

(* a history: each accepted post reads the page the previous one wrote and writes it back as the monitor demands *)
Fixpoint after_posts (page : json) (ids : list string) : json :=
  match ids with [] => page | i :: r => after_posts (canon (prepend_iri "orderedItems" i page)) r end.

Lemma after_posts_obj ids : forall m, exists m', after_posts (JObj m) ids = JObj m'.
Proof.
  induction ids as [|i r IH]; intros m; [exists m; reflexivity|]. cbn [after_posts].
  unfold prepend_iri. destruct (set_elems_obj "orderedItems" (JStr i :: elems0 "orderedItems" (JObj m)) m) as [m1 ->].
  destruct (canon_obj m1) as [m2 ->]. apply IH.
Qed.

Theorem listing_after_posts ids : forall page m, page = JObj m -> all_iris (listing page) ->
  listing (after_posts page ids) = map JStr (rev ids) ++ listing page.
Proof.
  induction ids as [|i r IH]; intros page m Hm Hi; [reflexivity|]. cbn [after_posts rev].
  assert (Hl : listing (canon (prepend_iri "orderedItems" i page)) = JStr i :: listing page).
  { rewrite (listing_prepend i page m Hm). rewrite map_canon_iris by exact Hi. reflexivity. }
  assert (Ho : exists m2, canon (prepend_iri "orderedItems" i page) = JObj m2).
  { subst page. unfold prepend_iri. destruct (set_elems_obj "orderedItems" (JStr i :: elems0 "orderedItems" (JObj m)) m) as [m1 ->]. apply canon_obj. }
  destruct Ho as [m2 E2].
  rewrite (IH _ m2 E2).
  - rewrite Hl. rewrite map_app. cbn [map]. rewrite <- app_assoc. reflexivity.
  - rewrite Hl. constructor; [exists i; reflexivity|exact Hi].
Qed.

(* ---- what acceptance by the monitor means for a whole trace ---- *)
Definition is_set_outbox (p : ev * ans) : bool := match fst p with EDb op _ => String.eqb op "SetOutbox" | _ => false end.
Definition is_batch (p : ev * ans) : bool := match fst p with EBatchDeliver _ _ => true | _ => false end.

(* the outbox is written at most once per accepted trace *)
Theorem ord_once : forall tr s s', run_monitor ord_step s tr = Some s' ->
  length (filter is_set_outbox tr) + (if Nat.eqb (o_set s) 0 then 0 else 1) <= 1.
Proof.
  induction tr as [|[e x] tr IH]; intros s s' H; simpl in *.
  - destruct (Nat.eqb (o_set s) 0); lia.
  - destruct (ord_step s e x) as [s1|] eqn:E; [|discriminate]. specialize (IH s1 s' H).
    unfold is_set_outbox at 1. cbn [fst].
    destruct e as [i|i|op args|b|i|p r|nm args|n|k v|b|]; simpl in E;
      try (inversion E; subst s1; exact IH).
    + destruct (String.eqb op "Create") eqn:E1.
      { assert (String.eqb op "SetOutbox" = false) as -> by (apply String.eqb_eq in E1; subst op; reflexivity).
        inversion E; subst s1. exact IH. }
      destruct (String.eqb op "GetOutbox") eqn:E2.
      { assert (String.eqb op "SetOutbox" = false) as -> by (apply String.eqb_eq in E2; subst op; reflexivity).
        inversion E; subst s1. exact IH. }
      destruct (String.eqb op "SetOutbox") eqn:E3; [|inversion E; subst s1; exact IH].
      destruct args as [|page [|]]; try discriminate. destruct (o_created s); try discriminate. destruct (o_page s); try discriminate.
      destruct (Nat.eqb (o_set s) 0) eqn:E0; [|discriminate]. cbn [andb] in E. destruct (jeqb _ _); [|discriminate].
      inversion E; subst s1. cbn [o_set] in IH. destruct x; simpl in *; lia.
    + destruct (Nat.eqb (o_set s) 1); inversion E; subst s1; exact IH.
    + destruct (Nat.eqb n 201); [destruct (Nat.eqb (o_set s) 1)|]; inversion E; subst s1; exact IH.
    + destruct (String.eqb k "Location"); [destruct (o_created s); [destruct (_ && _)|]|]; inversion E; subst s1; exact IH.
Qed.

(* nothing is handed to the transport before the successful write: every BatchDeliver lies after it *)
Theorem ord_deliver_after_write : forall tr s s', run_monitor ord_step s tr = Some s' -> o_set s = 0 ->
  forall pre p post, tr = pre ++ p :: post -> is_batch p = true ->
  exists w, In w pre /\ is_set_outbox w = true /\ snd w = AOk.
Proof.
  induction tr as [|[e x] tr IH]; intros s s' H H0 pre p post Htr Hp; [destruct pre; discriminate|].
  simpl in H. destruct (ord_step s e x) as [s1|] eqn:E; [|discriminate].
  destruct pre as [|q pre].
  - inversion Htr; subst p post. unfold is_batch in Hp. cbn [fst] in Hp. destruct e; try discriminate.
    simpl in E. rewrite H0 in E. discriminate.
  - inversion Htr; subst q tr.
    destruct (Nat.eqb (o_set s1) 0) eqn:E1.
    + apply Nat.eqb_eq in E1. destruct (IH s1 s' H E1 pre p post eq_refl Hp) as [w [Hw [W1 W2]]]. exists w. split; [right; exact Hw|split; assumption].
    + (* this very event is the write *)
      exists (e, x). split; [left; reflexivity|].
      destruct e as [i|i|op args|b|i|p0 r|nm args|n|k v|b|]; simpl in E;
        try (inversion E; subst s1; rewrite H0 in E1; discriminate).
      * destruct (String.eqb op "Create"); [inversion E; subst s1; cbn [o_set] in E1; rewrite H0 in E1; discriminate|].
        destruct (String.eqb op "GetOutbox"); [inversion E; subst s1; cbn [o_set] in E1; rewrite H0 in E1; discriminate|].
        destruct (String.eqb op "SetOutbox") eqn:E3; [|inversion E; subst s1; rewrite H0 in E1; discriminate].
        destruct args as [|page [|]]; try discriminate. destruct (o_created s); try discriminate. destruct (o_page s); try discriminate.
        destruct (_ && _); [|discriminate]. inversion E; subst s1. cbn [o_set] in E1.
        unfold is_set_outbox. cbn [fst snd]. rewrite E3. split; [reflexivity|].
        (* a failed write leaves o_set = 2: then no BatchDeliver can follow *)
        destruct x; try reflexivity; exfalso; cbn in E1;
          (assert (Hno : forall tr s s', run_monitor ord_step s tr = Some s' -> o_set s = 2 -> forall p, In p tr -> is_batch p = false);
           [clear; induction tr as [|[e x] tr IH]; intros s s' H H2 p Hin; [destruct Hin|];
            simpl in H; destruct (ord_step s e x) as [s1|] eqn:E; [|discriminate];
            assert (H2' : o_set s1 = 2);
            [destruct e as [i|i|op args|b|i|p0 r|nm args|n|k v|b|]; simpl in E; try (inversion E; subst s1; exact H2);
             [destruct (String.eqb op "Create"); [inversion E; subst s1; exact H2|];
              destruct (String.eqb op "GetOutbox"); [inversion E; subst s1; exact H2|];
              destruct (String.eqb op "SetOutbox"); [|inversion E; subst s1; exact H2];
              destruct args as [|page [|]]; try discriminate; destruct (o_created s); try discriminate; destruct (o_page s); try discriminate;
              rewrite H2 in E; discriminate
             |rewrite H2 in E; discriminate
             |destruct (Nat.eqb n 201); [rewrite H2 in E; discriminate|inversion E; subst s1; exact H2]
             |destruct (String.eqb k "Location"); [destruct (o_created s); [rewrite H2 in E; rewrite andb_false_r in E; discriminate|discriminate]|inversion E; subst s1; exact H2]]
            |destruct Hin as [<-|Hin]; [unfold is_batch; cbn [fst]; destruct e; try reflexivity; simpl in E; rewrite H2 in E; discriminate|exact (IH s1 s' H H2' p Hin)]]
           |]);
          match goal with Hrm : run_monitor ord_step _ (pre ++ p :: post) = Some _ |- _ =>
            rewrite (Hno _ _ _ Hrm eq_refl p) in Hp; [discriminate|apply in_or_app; right; left; reflexivity] end.
      * destruct (Nat.eqb (o_set s) 1); inversion E; subst s1; rewrite H0 in E1; discriminate.
      * destruct (Nat.eqb n 201); [destruct (Nat.eqb (o_set s) 1)|]; inversion E; subst s1; rewrite H0 in E1; discriminate.
      * destruct (String.eqb k "Location"); [destruct (o_created s); [destruct (_ && _)|]|]; inversion E; subst s1; rewrite H0 in E1; discriminate.
Qed.

(* what holds of every leaf holds of the result of every run *)
Lemma leaves_runs {A} (R : A -> Prop) (m : prog A) : leaves R m -> forall tr a, runs m tr a -> R a.
Proof.
  induction m as [x|e k IH]; simpl; intros Hl tr a Hr.
  - destruct Hr as [_ <-]. exact Hl.
  - destruct tr as [|[e' x] tr]; [destruct Hr|]. destruct Hr as [_ Hr]. eapply IH; [apply Hl|exact Hr].
Qed.
