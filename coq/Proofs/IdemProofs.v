(* C01, the idempotence clause: a second round trip of the codec model changes nothing.
   rt_type is one pass "decode then encode"; here: rt_type n row m = Some m' -> rt_type n row m' = Some m', for any tables and
   literal codecs that are stable in the sense of `codec_stable` (what the second pass needs of the Go codecs) and tables
   with `row_ok` rows (decidable, proved for the shipped tables), on members `m` that are `good` (unique keys and no
   one-element array holding an array for a known non-functional property - recursively through the embedded values).
   For the code before fix F23 the shipped codec of xsd:duration was NOT stable (a duration beyond int64 nanoseconds wrapped
   around): found here by computation, replayed on the real code, repaired in /repo; see overflowing_duration_kept. *)
From Coq Require Import String List Bool Arith ZArith Lia.
From Verif Require Import Base.ListX Base.Json Vocab.Tables Gen.TablesShipped Streams.Literals Streams.Codec Streams.CodecInst.
Import ListNotations.
Open Scope nat_scope.
Open Scope string_scope.
Open Scope list_scope.

(* ---------- strings, association lists ---------- *)
Lemma str_len_app s t : String.length (String.append s t) = String.length s + String.length t.
Proof. induction s as [|c s IH]; [reflexivity|]. cbn [String.append String.length]. rewrite IH. reflexivity. Qed.

Lemma append_inj_r s1 : forall s2 t, String.append s1 t = String.append s2 t -> s1 = s2.
Proof.
  induction s1 as [|c s1 IH]; intros [|c2 s2] t H; cbn [String.append] in H.
  - reflexivity.
  - exfalso. apply (f_equal String.length) in H. cbn [String.length] in H. rewrite str_len_app in H. lia.
  - exfalso. apply (f_equal String.length) in H. cbn [String.length] in H. rewrite str_len_app in H. lia.
  - inversion H; subst. f_equal. eapply IH. eassumption.
Qed.

Lemma map_not_type pn : String.append pn "Map" <> "type".
Proof.
  intros H. destruct pn as [|c1 [|c2 r]]; cbn in H; try discriminate.
  apply (f_equal String.length) in H. cbn [String.append String.length] in H. rewrite str_len_app in H. cbn in H. lia.
Qed.

Lemma assoc_In {A} k (l : list (string * A)) v : assoc k l = Some v -> In (k, v) l.
Proof.
  induction l as [|[k' v'] r IH]; cbn [assoc]; [discriminate|].
  destruct (String.eqb k k') eqn:E.
  - intros H. inversion H; subst. apply String.eqb_eq in E. subst. left. reflexivity.
  - intros H. right. exact (IH H).
Qed.

Lemma In_assoc {A} k (l : list (string * A)) v : In (k, v) l -> assoc k l <> None.
Proof.
  induction l as [|[k' v'] r IH]; cbn [assoc In]; [intros []|].
  intros [H|H].
  - inversion H; subst. rewrite String.eqb_refl. discriminate.
  - destruct (String.eqb k k'); [discriminate|exact (IH H)].
Qed.

Lemma assoc_None_notin {A} k (l : list (string * A)) : (forall kv, In kv l -> fst kv <> k) -> assoc k l = None.
Proof.
  intros H. destruct (assoc k l) as [v|] eqn:E; [|reflexivity]. exfalso. apply (H (k, v) (assoc_In _ _ _ E)). reflexivity.
Qed.

Lemma assoc_app_skip {A} k (a b : list (string * A)) : (forall kv, In kv a -> fst kv <> k) -> assoc k (a ++ b) = assoc k b.
Proof.
  induction a as [|[k' v'] r IH]; intros H; [reflexivity|]. cbn [app assoc].
  destruct (String.eqb k k') eqn:E.
  - exfalso. apply String.eqb_eq in E. apply (H (k', v')); [left; reflexivity|]. cbn. congruence.
  - apply IH. intros kv Hin. apply H. right. exact Hin.
Qed.

Lemma NoDup_fst_eq {A} (l : list (string * A)) k v1 v2 : NoDup (map fst l) -> In (k, v1) l -> In (k, v2) l -> v1 = v2.
Proof.
  induction l as [|[k' v'] r IH]; intros Hnd H1 H2; [destruct H1|].
  cbn [map fst] in Hnd. inversion Hnd as [|x xs Hnot Hnd']; subst.
  destruct H1 as [H1|H1]; destruct H2 as [H2|H2].
  - congruence.
  - inversion H1; subst. exfalso. apply Hnot. apply (in_map fst) in H2. exact H2.
  - inversion H2; subst. exfalso. apply Hnot. apply (in_map fst) in H1. exact H1.
  - exact (IH Hnd' H1 H2).
Qed.

Lemma flat_map_id' {A} (g : A -> list A) (l : list A) : (forall x, In x l -> g x = [x]) -> flat_map g l = l.
Proof.
  induction l as [|x r IH]; intros H; [reflexivity|]. cbn [flat_map]. rewrite (H x (or_introl eq_refl)).
  rewrite IH; [reflexivity|]. intros y Hy. apply H. right. exact Hy.
Qed.

Definition is_scalar (v : json) : Prop := match v with JBool _ | JNum _ | JStr _ => True | _ => False end.
Definition is_name (name : string) (e : json) : bool := match e with JStr s => String.eqb s name | _ => false end.

Section Idem.
  Variable T : list type_row.
  Variable P : list prop_row.
  Variable url_ok : string -> bool.
  Variable norm_iri : string -> string.
  Variable norm : string -> json -> option json.

  Notation rt_type := (rt_type T P url_ok norm_iri norm).
  Notation rt_elem := (rt_elem T url_ok norm_iri norm).
  Notation rt_prop := (rt_prop T url_ok norm_iri norm).
  Notation rt_member := (rt_member T P url_ok norm_iri norm).
  Notation rt_members := (rt_members T P url_ok norm_iri norm).
  Notation try_chain := (try_chain T norm).
  Notation trow := (trow T).
  Notation prow := (prow P).
  Notation prop_of_key := (prop_of_key P).

  (* ---------- what the "type" member says, as rt_members / try_chain read it ---------- *)
  Definition tmatch (name : string) (m : list (string * json)) : bool :=
    match assoc "type" m with Some tv => type_matches name tv | None => false end.
  Definition typed (row : type_row) (m : list (string * json)) : bool := t_typeless row || tmatch (t_name row) m.

  (* ---------- the side conditions ---------- *)
  (* tables: within one type no field is called <name>Map for a field <name> that has a Map spelling (decidable) *)
  Definition row_ok (row : type_row) : bool :=
    forallb (fun pn => match prow pn with
                       | Some p => if p_has_map p then negb (mem (String.append pn "Map") (t_fields row)) else true
                       | None => true
                       end) (t_fields row).

  (* documents: unique keys; a known non-functional property is not given as [[...]] (a one-element array holding an array);
     the same for every object that may be decoded as an embedded value, by the rows its property's chain names *)
  Definition nested1 (v : json) : bool := match v with JArr [JArr _] => true | _ => false end.
  Fixpoint good (fuel : nat) (row : type_row) (m : list (string * json)) : bool :=
    match fuel with
    | O => true
    | S f =>
        nodupb (map fst m) &&
        forallb (fun kv =>
          match prop_of_key row (fst kv) with
          | None => true
          | Some (p, _) =>
              let ge := fun e => match e with
                                 | JObj em => forallb (fun k => match trow k with Some r => good f r em | None => true end) (p_deser p)
                                 | _ => true
                                 end in
              if p_functional p then ge (snd kv)
              else negb (nested1 (snd kv)) && match snd kv with JArr l => forallb ge l | x => ge x end
          end) m
    end.
  Definition good_elem (f : nat) (p : prop_row) (e : json) : bool :=
    match e with
    | JObj em => forallb (fun k => match trow k with Some r => good f r em | None => true end) (p_deser p)
    | _ => true
    end.

  (* the literal codecs (norm k = serialise . deserialise of streams/values/<k>), url.Parse / u.String(), and the chains *)
  Record codec_stable : Prop := {
    (* a serialised literal is read back by the same codec as itself *)
    cs_idem : forall p k e v, In p P -> In k (p_deser p) -> norm k e = Some v -> norm k v = Some v;
    (* the choice in the chain is stable: a kind of the same chain that rejected the input rejects the output of another kind *)
    cs_later : forall p k k2 e v, In p P -> In k (p_deser p) -> In k2 (p_deser p) ->
                 norm k2 e = Some v -> norm k e = None -> norm k v = None;
    (* a literal serialiser writes a boolean, a number or a string - or hands the input back (the language map) *)
    cs_shape : forall p k e v, In p P -> In k (p_deser p) -> norm k e = Some v -> v = e \/ is_scalar v;
    (* in a chain that can decode an embedded value (names a type of the tables) no literal kind accepts an object *)
    cs_obj : forall p k k2 r em, In p P -> In k (p_deser p) -> In k2 (p_deser p) -> is_literal_kind k = true ->
                 is_literal_kind k2 = false -> trow k2 = Some r -> norm k (JObj em) = None;
    (* u.String() of an accepted URL is accepted and is a fixed point of u.String() *)
    cs_iri : forall s, url_ok s = true -> url_ok (norm_iri s) = true /\ norm_iri (norm_iri s) = norm_iri s;
    (* where IRIs are accepted too, a string written by a literal serialiser is not taken for an IRI on the way back,
       unless it is already in u.String() form, or the input was such a string *)
    cs_iri_lit : forall p k e s', In p P -> In k (p_deser p) -> mem "IRI" (p_deser p) = true -> norm k e = Some (JStr s') ->
                 url_ok s' = true -> norm_iri s' = s' \/ exists s0, e = JStr s0 /\ url_ok s0 = true;
    (* the property "type": a list, without Map spelling, no IRI branch, whose literal kinds return a string as it is and
       make a string only out of a string - so that the type names a value carries are the same after the round trip *)
    cs_type : forall p, In p P -> p_name p = "type" ->
                 p_functional p = false /\ p_has_map p = false /\ mem "IRI" (p_deser p) = false /\
                 forall k, In k (p_deser p) -> is_literal_kind k = true ->
                   (forall s, norm k (JStr s) = None \/ norm k (JStr s) = Some (JStr s)) /\
                   (forall e s, norm k e = Some (JStr s) -> exists s0, e = JStr s0)
  }.

  (* ---------- keys and properties ---------- *)
  Lemma prow_In pn p : prow pn = Some p -> In p P /\ p_name p = pn.
  Proof. unfold Codec.prow. apply find_row_In. Qed.
  Lemma trow_In k r : trow k = Some r -> In r T /\ t_name r = k.
  Proof. unfold Codec.trow. apply find_row_In. Qed.

  Lemma pk_key row k p b : prop_of_key row k = Some (p, b) ->
    In p P /\ In (p_name p) (t_fields row) /\ prow (p_name p) = Some p /\
    k = (if b then String.append (p_name p) "Map" else p_name p) /\ (b = true -> p_has_map p = true).
  Proof.
    unfold Codec.prop_of_key. intros H.
    destruct (find (fun pn => String.eqb pn k) (t_fields row)) as [pn|] eqn:E1.
    - destruct (prow pn) as [p0|] eqn:Ep; [|discriminate]. inversion H; subst; clear H.
      apply find_some in E1. destruct E1 as [Hin Heq]. apply String.eqb_eq in Heq. subst k.
      destruct (prow_In pn p Ep) as [HP Hn]. rewrite Hn. repeat split; try assumption. discriminate.
    - match type of H with context [find ?g (t_fields row)] => destruct (find g (t_fields row)) as [pn|] eqn:E2; [|discriminate] end.
      destruct (prow pn) as [p0|] eqn:Ep; [|discriminate]. inversion H; subst; clear H.
      apply find_some in E2. destruct E2 as [Hin Heq]. rewrite Ep in Heq. apply andb_true_iff in Heq. destruct Heq as [Heq Hm].
      apply String.eqb_eq in Heq. subst k.
      destruct (prow_In pn p Ep) as [HP Hn]. rewrite Hn. repeat split; try assumption. intros _. exact Hm.
  Qed.

  Lemma pk_plain row pn p : In pn (t_fields row) -> prow pn = Some p -> prop_of_key row pn = Some (p, false).
  Proof.
    intros Hin Ep. unfold Codec.prop_of_key.
    destruct (find (fun pn0 => String.eqb pn0 pn) (t_fields row)) as [pn'|] eqn:E1.
    - apply find_some in E1. destruct E1 as [_ Heq]. apply String.eqb_eq in Heq. subst pn'. rewrite Ep. reflexivity.
    - exfalso. pose proof (find_none _ _ E1 pn Hin) as Hf. cbn beta in Hf. rewrite String.eqb_refl in Hf. discriminate.
  Qed.

  Lemma row_ok_spec row : row_ok row = true -> forall pn p, In pn (t_fields row) -> prow pn = Some p -> p_has_map p = true ->
    ~ In (String.append pn "Map") (t_fields row).
  Proof.
    unfold row_ok. intros H pn p Hin Ep Hm. rewrite forallb_forall in H. specialize (H pn Hin). cbn beta in H.
    rewrite Ep, Hm in H. apply negb_true_iff in H. apply mem_false_In. exact H.
  Qed.

  Lemma pk_map row pn p : row_ok row = true -> In pn (t_fields row) -> prow pn = Some p -> p_has_map p = true ->
    prop_of_key row (String.append pn "Map") = Some (p, true).
  Proof.
    intros Hok Hin Ep Hm. unfold Codec.prop_of_key.
    destruct (find (fun pn0 => String.eqb pn0 (String.append pn "Map")) (t_fields row)) as [pn'|] eqn:E1.
    - exfalso. apply find_some in E1. destruct E1 as [Hin' Heq]. apply String.eqb_eq in Heq. subst pn'.
      exact (row_ok_spec row Hok pn p Hin Ep Hm Hin').
    - match goal with |- context [find ?g (t_fields row)] => destruct (find g (t_fields row)) as [pn'|] eqn:E2 end.
      + apply find_some in E2. destruct E2 as [_ Heq]. apply andb_true_iff in Heq. destruct Heq as [Heq _].
        apply String.eqb_eq in Heq. apply append_inj_r in Heq. subst pn'. rewrite Ep. reflexivity.
      + exfalso. pose proof (find_none _ _ E2 pn Hin) as Hf. cbn beta in Hf. rewrite String.eqb_refl, Ep, Hm in Hf. discriminate.
  Qed.

  (* the key a value is written under resolves to the same property *)
  Lemma pk_out row k p b v' : row_ok row = true -> prop_of_key row k = Some (p, b) ->
    prop_of_key row (out_name p v') = Some (p, p_has_map p && is_langstring v').
  Proof.
    intros Hok Hk. destruct (pk_key row k p b Hk) as [_ [Hin [Ep _]]]. unfold out_name.
    destruct (p_has_map p && is_langstring v') eqn:E.
    - apply andb_true_iff in E. destruct E as [Hm _]. apply pk_map; assumption.
    - apply pk_plain; assumption.
  Qed.

  Hypothesis CS : codec_stable.
  Hypothesis TOK : forall r, In r T -> row_ok r = true.

  (* ---------- one level: the decoder of embedded values `rec` is idempotent on good members, keeps what the "type"
     member says, and fails only for want of the type name (or always: no fuel) ---------- *)
  Section Level.
    Variable f : nat.
    Variable rec : type_row -> list (string * json) -> option (list (string * json)).
    Hypothesis rec_idem : forall r em em', row_ok r = true -> good f r em = true -> rec r em = Some em' -> rec r em' = Some em'.
    Hypothesis rec_tm : forall r em em', row_ok r = true -> good f r em = true -> rec r em = Some em' ->
      forall name, tmatch name em' = tmatch name em.
    Hypothesis rec_none : forall r em, rec r em = None -> typed r em = false \/ (forall r2 m2, rec r2 m2 = None).

    (* the steps of try_chain *)
    Lemma tc_lit_some e k rest v : is_literal_kind k = true -> norm k e = Some v -> try_chain rec e (k :: rest) = v.
    Proof. intros Hl Hn. cbn [Codec.try_chain]. rewrite Hl, Hn. reflexivity. Qed.
    Lemma tc_lit_none e k rest : is_literal_kind k = true -> norm k e = None -> try_chain rec e (k :: rest) = try_chain rec e rest.
    Proof. intros Hl Hn. cbn [Codec.try_chain]. rewrite Hl, Hn. reflexivity. Qed.
    Lemma tc_obj_some em k rest r em' : is_literal_kind k = false -> trow k = Some r -> tmatch k em || t_typeless r = true ->
      rec r em = Some em' -> try_chain rec (JObj em) (k :: rest) = JObj em'.
    Proof. intros Hl Ht Hm Hr. cbn [Codec.try_chain]. rewrite Hl, Ht. unfold tmatch in Hm. rewrite Hm, Hr. reflexivity. Qed.
    (* why a type kind passes a value on *)
    Definition skipcond (e : json) (k : string) : Prop :=
      match e with
      | JObj em => match trow k with Some r => tmatch k em || t_typeless r = false \/ rec r em = None | None => True end
      | _ => True
      end.
    Lemma tc_obj_skip e k rest : is_literal_kind k = false -> skipcond e k -> try_chain rec e (k :: rest) = try_chain rec e rest.
    Proof.
      intros Hl Hs. cbn [Codec.try_chain]. rewrite Hl. destruct e as [| | | | |em]; try reflexivity.
      unfold skipcond in Hs. destruct (trow k) as [r|]; [|reflexivity]. unfold tmatch in Hs.
      destruct Hs as [Hs|Hs]; [rewrite Hs; reflexivity|]. rewrite Hs. destruct (_ || _); reflexivity.
    Qed.

    (* where the result of a chain comes from *)
    Inductive chain_res (p : prop_row) (e x : json) : Prop :=
    | CR_same : x = e -> chain_res p e x
    | CR_lit k : In k (p_deser p) -> is_literal_kind k = true -> norm k e = Some x -> chain_res p e x
    | CR_obj k r em em' : In k (p_deser p) -> is_literal_kind k = false -> e = JObj em -> trow k = Some r ->
        rec r em = Some em' -> x = JObj em' -> chain_res p e x.

    Lemma try_chain_res p e chain : incl chain (p_deser p) -> chain_res p e (try_chain rec e chain).
    Proof.
      induction chain as [|k rest IHc]; intros Hincl; [apply CR_same; reflexivity|].
      assert (Hk : In k (p_deser p)) by (apply Hincl; left; reflexivity).
      assert (Hrest : incl rest (p_deser p)) by (intros y Hy; apply Hincl; right; exact Hy).
      specialize (IHc Hrest). cbn [Codec.try_chain].
      destruct (is_literal_kind k) eqn:El.
      - destruct (norm k e) as [v|] eqn:En; [|exact IHc]. eapply CR_lit; eassumption.
      - destruct e as [| | | | |em]; try exact IHc. destruct (trow k) as [r|] eqn:Et; [|exact IHc].
        destruct (_ || _); [|exact IHc]. destruct (rec r em) as [em'|] eqn:Er; [|exact IHc].
        eapply CR_obj; try eassumption; reflexivity.
    Qed.

    Lemma good_elem_row p em k r : good_elem f p (JObj em) = true -> In k (p_deser p) -> trow k = Some r ->
      good f r em = true /\ row_ok r = true /\ t_name r = k.
    Proof.
      intros Hg Hk Ht. cbn [good_elem] in Hg. rewrite forallb_forall in Hg. specialize (Hg k Hk). cbn beta in Hg. rewrite Ht in Hg.
      destruct (trow_In k r Ht) as [HT Hn]. split; [exact Hg|]. split; [exact (TOK r HT)|exact Hn].
    Qed.

    (* a type kind that passed the input on passes the result of the rest of the chain on *)
    Lemma skip_second p e x k : In p P -> good_elem f p e = true -> chain_res p e x -> skipcond e k -> skipcond x k.
    Proof.
      intros HP Hg R Hs. destruct R as [Hx|k2 Hk2 Hl2 Hn|k2 r2 em em2 Hk2 Hl2 He Ht2 Hr2 Hx].
      - subst x. exact Hs.
      - destruct (cs_shape CS p k2 e x HP Hk2 Hn) as [Hx|Hx]; [subst x; exact Hs|]. destruct x; try exact I. destruct Hx.
      - subst e x. unfold skipcond in *. destruct (trow k) as [r|] eqn:Et; [|exact I].
        destruct (good_elem_row p em k2 r2 Hg Hk2 Ht2) as [Hg2 [Hok2 _]].
        rewrite (rec_tm r2 em em2 Hok2 Hg2 Hr2 k).
        destruct Hs as [Hs|Hs]; [left; exact Hs|].
        destruct (rec_none r em Hs) as [Hty|Hall]; [|right; apply Hall].
        left. unfold typed in Hty. destruct (trow_In k r Et) as [_ Hn]. rewrite Hn in Hty. rewrite orb_comm. exact Hty.
    Qed.

    Lemma try_chain_idem p e : In p P -> good_elem f p e = true -> forall chain, incl chain (p_deser p) ->
      try_chain rec (try_chain rec e chain) chain = try_chain rec e chain.
    Proof.
      intros HP Hg. induction chain as [|k rest IHc]; intros Hincl; [reflexivity|].
      assert (Hk : In k (p_deser p)) by (apply Hincl; left; reflexivity).
      assert (Hrest : incl rest (p_deser p)) by (intros y Hy; apply Hincl; right; exact Hy).
      specialize (IHc Hrest). pose proof (try_chain_res p e rest Hrest) as R.
      destruct (is_literal_kind k) eqn:El.
      - destruct (norm k e) as [v|] eqn:En.
        + rewrite (tc_lit_some e k rest v El En). apply tc_lit_some; [exact El|]. exact (cs_idem CS p k e v HP Hk En).
        + rewrite (tc_lit_none e k rest El En). rewrite tc_lit_none; [exact IHc|exact El|].
          destruct R as [Hx|k2 Hk2 Hl2 Hn|k2 r2 em em2 Hk2 Hl2 He Ht2 Hr2 Hx].
          * rewrite Hx. exact En.
          * exact (cs_later CS p k k2 e _ HP Hk Hk2 Hn En).
          * rewrite Hx. exact (cs_obj CS p k k2 r2 em2 HP Hk Hk2 El Hl2 Ht2).
      - assert (Hskip : skipcond e k -> try_chain rec (try_chain rec e (k :: rest)) (k :: rest) = try_chain rec e (k :: rest)).
        { intros Hs. rewrite (tc_obj_skip e k rest El Hs). rewrite tc_obj_skip; [exact IHc|exact El|].
          exact (skip_second p e _ k HP Hg R Hs). }
        destruct e as [| | | | |em]; try (apply Hskip; exact I).
        destruct (trow k) as [r|] eqn:Et; [|apply Hskip; unfold skipcond; rewrite Et; exact I].
        destruct (tmatch k em || t_typeless r) eqn:Em; [|apply Hskip; unfold skipcond; rewrite Et; left; exact Em].
        destruct (rec r em) as [em'|] eqn:Er; [|apply Hskip; unfold skipcond; rewrite Et; right; exact Er].
        destruct (good_elem_row p em k r Hg Hk Et) as [Hgr [Hokr _]].
        rewrite (tc_obj_some em k rest r em' El Et Em Er). apply (tc_obj_some em' k rest r em' El Et).
        * rewrite (rec_tm r em em' Hokr Hgr Er k). exact Em.
        * exact (rec_idem r em em' Hokr Hgr Er).
    Qed.

    Lemma rt_elem_idem p e : In p P -> good_elem f p e = true -> rt_elem rec p (rt_elem rec p e) = rt_elem rec p e.
    Proof.
      intros HP Hg.
      assert (Hgen : (match e with JStr s => mem "IRI" (p_deser p) && url_ok s = false | _ => True end) ->
                     rt_elem rec p (try_chain rec e (p_deser p)) = try_chain rec e (p_deser p)).
      { intros Hnot. pose proof (try_chain_res p e (p_deser p) (incl_refl _)) as R.
        pose proof (try_chain_idem p e HP Hg (p_deser p) (incl_refl _)) as Hid.
        remember (try_chain rec e (p_deser p)) as x eqn:Ex. unfold Codec.rt_elem.
        destruct x as [| | |s'| |]; try exact Hid.
        destruct (mem "IRI" (p_deser p) && url_ok s') eqn:Ei; [|exact Hid].
        apply andb_true_iff in Ei. destruct Ei as [Hmem Hu].
        destruct R as [Hx|k2 Hk2 Hl2 Hn|k2 r2 em em2 Hk2 Hl2 He Ht2 Hr2 Hx]; [| |discriminate].
        - subst e. rewrite Hmem, Hu in Hnot. discriminate.
        - destruct (cs_iri_lit CS p k2 e s' HP Hk2 Hmem Hn Hu) as [Hfix|[s0 [He Hu0]]]; [rewrite Hfix; reflexivity|].
          subst e. rewrite Hmem, Hu0 in Hnot. discriminate. }
      unfold Codec.rt_elem at 2 3. destruct e as [| | |s| |]; try (apply Hgen; exact I).
      destruct (mem "IRI" (p_deser p) && url_ok s) eqn:Ei; [|apply Hgen; reflexivity].
      apply andb_true_iff in Ei. destruct Ei as [Hmem Hu]. destruct (cs_iri CS s Hu) as [Hu2 Hfix].
      unfold Codec.rt_elem. rewrite Hmem, Hu2, Hfix. reflexivity.
    Qed.

    (* ---------- a property's value ---------- *)
    Definition is_arr (v : json) : bool := match v with JArr _ => true | _ => false end.
    Definition good_val (p : prop_row) (v : json) : bool :=
      if p_functional p then good_elem f p v
      else negb (nested1 v) && match v with JArr l => forallb (good_elem f p) l | x => good_elem f p x end.

    Lemma rt_elem_not_arr p e : In p P -> is_arr e = false -> is_arr (rt_elem rec p e) = false.
    Proof.
      intros HP He.
      assert (Hgen : is_arr (try_chain rec e (p_deser p)) = false).
      { destruct (try_chain_res p e (p_deser p) (incl_refl _)) as [Hx|k2 Hk2 Hl2 Hn|k2 r2 em em2 Hk2 Hl2 He2 Ht2 Hr2 Hx].
        - rewrite Hx. exact He.
        - destruct (cs_shape CS p k2 e _ HP Hk2 Hn) as [Hx|Hx]; [rewrite Hx; exact He|].
          destruct (try_chain rec e (p_deser p)); try reflexivity. destruct Hx.
        - rewrite Hx. reflexivity. }
      unfold Codec.rt_elem. destruct e as [| | |s| |]; try exact Hgen. destruct (_ && _); [reflexivity|exact Hgen].
    Qed.

    Lemma rt_prop_nonarr p x : p_functional p = false -> is_arr x = false -> rt_prop rec p x = rt_elem rec p x.
    Proof. intros Hf Hx. unfold Codec.rt_prop. rewrite Hf. destruct x; try reflexivity. discriminate. Qed.

    Lemma map_rt_elem_idem p l : In p P -> forallb (good_elem f p) l = true ->
      map (rt_elem rec p) (map (rt_elem rec p) l) = map (rt_elem rec p) l.
    Proof.
      intros HP. induction l as [|e r IH]; intros Hg; [reflexivity|]. cbn [forallb] in Hg. apply andb_true_iff in Hg.
      destruct Hg as [Hg1 Hg2]. cbn [map]. rewrite (rt_elem_idem p e HP Hg1), (IH Hg2). reflexivity.
    Qed.

    Lemma rt_prop_idem p v : In p P -> good_val p v = true -> rt_prop rec p (rt_prop rec p v) = rt_prop rec p v.
    Proof.
      intros HP Hg. unfold good_val in Hg. destruct (p_functional p) eqn:Ef.
      - unfold Codec.rt_prop. rewrite Ef. exact (rt_elem_idem p v HP Hg).
      - apply andb_true_iff in Hg. destruct Hg as [Hn Hg]. apply negb_true_iff in Hn.
        assert (Hna : forall x, is_arr x = false -> good_elem f p x = true -> rt_prop rec p (rt_prop rec p x) = rt_prop rec p x).
        { intros x Hx Hgx. rewrite (rt_prop_nonarr p x Ef Hx). rewrite (rt_prop_nonarr p _ Ef (rt_elem_not_arr p x HP Hx)).
          exact (rt_elem_idem p x HP Hgx). }
        destruct v as [| | | |l|]; try (apply Hna; [reflexivity|exact Hg]).
        destruct l as [|e1 [|e2 r]].
        + unfold Codec.rt_prop. rewrite Ef. reflexivity.
        + cbn [forallb] in Hg. apply andb_true_iff in Hg. destruct Hg as [Hg1 _].
          assert (He1 : is_arr e1 = false) by (destruct e1; try reflexivity; discriminate).
          assert (E : rt_prop rec p (JArr [e1]) = rt_elem rec p e1) by (unfold Codec.rt_prop; rewrite Ef; reflexivity).
          rewrite E. rewrite (rt_prop_nonarr p _ Ef (rt_elem_not_arr p e1 HP He1)). exact (rt_elem_idem p e1 HP Hg1).
        + assert (E : forall a b t, rt_prop rec p (JArr (a :: b :: t)) = JArr (map (rt_elem rec p) (a :: b :: t)))
            by (intros a b t; unfold Codec.rt_prop; rewrite Ef; reflexivity).
          rewrite E. cbn [map]. rewrite E. f_equal. change (map (rt_elem rec p) (map (rt_elem rec p) (e1 :: e2 :: r)) = map (rt_elem rec p) (e1 :: e2 :: r)).
          apply map_rt_elem_idem; assumption.
    Qed.

    (* ---------- the "type" member names the same types afterwards ---------- *)
    Lemma tc_str_id p s : (forall k, In k (p_deser p) -> is_literal_kind k = true -> norm k (JStr s) = None \/ norm k (JStr s) = Some (JStr s)) ->
      forall chain, incl chain (p_deser p) -> try_chain rec (JStr s) chain = JStr s.
    Proof.
      intros H. induction chain as [|k rest IHc]; intros Hincl; [reflexivity|].
      assert (Hk : In k (p_deser p)) by (apply Hincl; left; reflexivity).
      assert (Hrest : incl rest (p_deser p)) by (intros y Hy; apply Hincl; right; exact Hy).
      destruct (is_literal_kind k) eqn:El.
      - destruct (H k Hk El) as [Hn|Hn]; [rewrite (tc_lit_none _ k rest El Hn); exact (IHc Hrest)|exact (tc_lit_some _ k rest _ El Hn)].
      - rewrite (tc_obj_skip (JStr s) k rest El I). exact (IHc Hrest).
    Qed.

    Lemma type_matches_nonarr name x : is_arr x = false -> type_matches name x = is_name name x.
    Proof. destruct x; try reflexivity. discriminate. Qed.

    Section TypeProp.
      Variable p : prop_row.
      Hypothesis HP : In p P.
      Hypothesis Hname : p_name p = "type".

      Lemma type_elem name e : is_name name (rt_elem rec p e) = is_name name e.
      Proof.
        destruct (cs_type CS p HP Hname) as [_ [_ [Hiri Hk]]].
        unfold Codec.rt_elem. rewrite Hiri. cbn [andb].
        assert (Hgen : (forall s, e <> JStr s) -> is_name name (try_chain rec e (p_deser p)) = is_name name e).
        { intros Hns. assert (He : is_name name e = false) by (destruct e; try reflexivity; exfalso; eapply Hns; reflexivity).
          rewrite He.
          destruct (try_chain_res p e (p_deser p) (incl_refl _)) as [Hx|k2 Hk2 Hl2 Hn|k2 r2 em em2 Hk2 Hl2 He2 Ht2 Hr2 Hx].
          - rewrite Hx. exact He.
          - destruct (try_chain rec e (p_deser p)) as [| | |s'| |] eqn:Ex; try reflexivity.
            destruct (proj2 (Hk k2 Hk2 Hl2) e s' Hn) as [s0 Hs0]. exfalso. exact (Hns s0 Hs0).
          - rewrite Hx. reflexivity. }
        destruct e as [| | |s| |]; try (apply Hgen; intros s0; discriminate).
        rewrite (tc_str_id p s (fun k Hk0 Hl => proj1 (Hk k Hk0 Hl) s) (p_deser p) (incl_refl _)). reflexivity.
      Qed.

      Lemma type_val name tv : nested1 tv = false -> type_matches name (rt_prop rec p tv) = type_matches name tv.
      Proof.
        intros Hn. destruct (cs_type CS p HP Hname) as [Hnf _].
        assert (Hna : forall x, is_arr x = false -> type_matches name (rt_elem rec p x) = is_name name x).
        { intros x Hx. rewrite (type_matches_nonarr name _ (rt_elem_not_arr p x HP Hx)). apply type_elem. }
        destruct tv as [| | | |l|]; try (rewrite rt_prop_nonarr by first [exact Hnf|reflexivity]; rewrite Hna by reflexivity; reflexivity).
        destruct l as [|e1 [|e2 r]].
        - unfold Codec.rt_prop. rewrite Hnf. reflexivity.
        - assert (He1 : is_arr e1 = false) by (destruct e1; try reflexivity; discriminate).
          assert (E : rt_prop rec p (JArr [e1]) = rt_elem rec p e1) by (unfold Codec.rt_prop; rewrite Hnf; reflexivity).
          rewrite E, (Hna e1 He1). cbn [type_matches existsb]. rewrite orb_false_r. reflexivity.
        - assert (E : rt_prop rec p (JArr (e1 :: e2 :: r)) = JArr (map (rt_elem rec p) (e1 :: e2 :: r)))
            by (unfold Codec.rt_prop; rewrite Hnf; reflexivity).
          rewrite E. change (existsb (is_name name) (map (rt_elem rec p) (e1 :: e2 :: r)) = existsb (is_name name) (e1 :: e2 :: r)).
          generalize (e1 :: e2 :: r). intros l0. induction l0 as [|a t IHl]; [reflexivity|].
          cbn [map existsb]. rewrite type_elem, IHl. reflexivity.
      Qed.
    End TypeProp.

    (* ---------- members ---------- *)
    Notation present o := (match o with Some _ => true | None => false end).

    Lemma rt_member_inv row m k v kv' : In kv' (rt_member rec row m (k, v)) ->
      (prop_of_key row k = None /\ kv' = (k, v)) \/
      exists p b, prop_of_key row k = Some (p, b) /\ b && present (assoc (p_name p) m) = false /\
                  rt_prop rec p v <> JNull /\ kv' = (out_name p (rt_prop rec p v), rt_prop rec p v).
    Proof.
      unfold Codec.rt_member. cbn [fst snd]. destruct (prop_of_key row k) as [[p b]|] eqn:Ek.
      - destruct (b && present (assoc (p_name p) m)) eqn:Eb; [intros []|]. cbv zeta. intros H. right. exists p, b.
        split; [reflexivity|]. split; [first [exact Eb|reflexivity]|].
        destruct (rt_prop rec p v) eqn:Ev; try (destruct H; fail); (destruct H as [H|[]]; split; [discriminate|symmetry; exact H]).
      - intros [H|[]]. left. split; [reflexivity|symmetry; exact H].
    Qed.

    Lemma good_S row m : good (S f) row m = true ->
      NoDup (map fst m) /\ forall k v p b, In (k, v) m -> prop_of_key row k = Some (p, b) -> good_val p v = true.
    Proof.
      cbn [good]. intros H. apply andb_true_iff in H. destruct H as [Hnd Hall]. split; [apply nodupb_spec; exact Hnd|].
      intros k v p b Hin Hk. rewrite forallb_forall in Hall. specialize (Hall (k, v) Hin). cbn [fst snd] in Hall. rewrite Hk in Hall.
      unfold good_val. destruct (p_functional p); [destruct v; exact Hall|]. destruct v; exact Hall.
    Qed.

    Section Members.
      Variable row : type_row.
      Variable m : list (string * json).
      Hypothesis Hok : row_ok row = true.
      Hypothesis Hgood : good (S f) row m = true.
      Let m' := flat_map (rt_member rec row m) m.

      (* a value written under the Map spelling: the plain spelling is not in the output *)
      Lemma out_map_absent k v p b : In (k, v) m -> prop_of_key row k = Some (p, b) ->
        b && present (assoc (p_name p) m) = false -> p_has_map p && is_langstring (rt_prop rec p v) = true ->
        assoc (p_name p) m' = None.
      Proof.
        intros Hin Hk Hnd Hlang. destruct (good_S row m Hgood) as [HND _].
        destruct (pk_key row k p b Hk) as [HP [Hfld [Ep [Hkey _]]]].
        destruct (assoc (p_name p) m') as [w|] eqn:Ea; [exfalso|reflexivity].
        apply assoc_In in Ea. unfold m' in Ea. apply in_flat_map in Ea. destruct Ea as [[k2 v2] [Hin2 Hout]].
        apply rt_member_inv in Hout. destruct Hout as [[Hnone Heq]|[p2 [b2 [Hk2 [Hnd2 [_ Heq]]]]]].
        - inversion Heq; subst k2 v2. rewrite (pk_plain row (p_name p) p Hfld Ep) in Hnone. discriminate.
        - destruct (pk_key row k2 p2 b2 Hk2) as [HP2 [Hfld2 [Ep2 [Hkey2 _]]]].
          inversion Heq as [[Hname Hw]]. unfold out_name in Hname.
          destruct (p_has_map p2 && is_langstring (rt_prop rec p2 v2)) eqn:E2.
          + apply andb_true_iff in E2. destruct E2 as [Hm2 _].
            apply (row_ok_spec row Hok (p_name p2) p2 Hfld2 Ep2 Hm2). rewrite <- Hname. exact Hfld.
          + rewrite Hname in Ep. rewrite Ep2 in Ep. inversion Ep; subst p2. clear Ep.
            destruct b, b2; cbn [andb] in *.
            * subst k k2. rewrite (NoDup_fst_eq m _ v v2 HND Hin Hin2) in Hlang. congruence.
            * subst k2. pose proof (In_assoc _ _ _ Hin2) as Hne. destruct (assoc (p_name p) m); [discriminate|apply Hne; reflexivity].
            * subst k. pose proof (In_assoc _ _ _ Hin) as Hne. destruct (assoc (p_name p) m); [discriminate|apply Hne; reflexivity].
            * subst k k2. rewrite (NoDup_fst_eq m _ v v2 HND Hin Hin2) in Hlang. congruence.
      Qed.

      (* every member of the output is its own round trip *)
      Lemma member_second kv kv' : In kv m -> In kv' (rt_member rec row m kv) -> rt_member rec row m' kv' = [kv'].
      Proof.
        intros Hin Hout. destruct kv as [k v]. destruct (good_S row m Hgood) as [_ Hvals].
        apply rt_member_inv in Hout. destruct Hout as [[Hnone Heq]|[p [b [Hk [Hnd [Hnn Heq]]]]]].
        - subst kv'. unfold Codec.rt_member. cbn [fst snd]. rewrite Hnone. reflexivity.
        - subst kv'. destruct (pk_key row k p b Hk) as [HP _].
          unfold Codec.rt_member. cbn [fst snd]. rewrite (pk_out row k p b _ Hok Hk). cbv zeta.
          rewrite (rt_prop_idem p v HP (Hvals k v p b Hin Hk)).
          destruct (p_has_map p && is_langstring (rt_prop rec p v)) eqn:El.
          + rewrite (out_map_absent k v p b Hin Hk Hnd El). cbn [andb].
            destruct (rt_prop rec p v); try reflexivity. exfalso. apply Hnn. reflexivity.
          + cbn [andb]. destruct (rt_prop rec p v); try reflexivity. exfalso. apply Hnn. reflexivity.
      Qed.

      (* no other member becomes "type" *)
      Lemma not_type_out kv kv' : fst kv <> "type" -> In kv' (rt_member rec row m kv) -> fst kv' <> "type".
      Proof.
        destruct kv as [k v]. cbn [fst]. intros Hne Hout.
        apply rt_member_inv in Hout. destruct Hout as [[_ Heq]|[p [b [Hk [_ [_ Heq]]]]]]; subst kv'; cbn [fst]; [exact Hne|].
        destruct (pk_key row k p b Hk) as [HP [_ [_ [Hkey Hbm]]]]. unfold out_name.
        destruct (p_has_map p && is_langstring (rt_prop rec p v)); [apply map_not_type|].
        intros Hname. destruct (cs_type CS p HP Hname) as [_ [Hnm _]]. destruct b.
        - rewrite (Hbm eq_refl) in Hnm. discriminate.
        - apply Hne. rewrite Hkey. exact Hname.
      Qed.

      Lemma tmatch_suffix name l : incl l m -> NoDup (map fst l) ->
        tmatch name (flat_map (rt_member rec row m) l) = tmatch name l.
      Proof.
        destruct (good_S row m Hgood) as [_ Hvals].
        induction l as [|[k v] rest IH]; intros Hincl Hnd; [reflexivity|].
        assert (Hin : In (k, v) m) by (apply Hincl; left; reflexivity).
        assert (Hrest : incl rest m) by (intros y Hy; apply Hincl; right; exact Hy).
        cbn [map fst] in Hnd. inversion Hnd as [|x xs Hnotin Hnd']; subst. specialize (IH Hrest Hnd').
        cbn [flat_map]. unfold tmatch in *. cbn [assoc]. destruct (String.eqb "type" k) eqn:Ek.
        - apply String.eqb_eq in Ek. subst k.
          assert (Hnone : assoc "type" (flat_map (rt_member rec row m) rest) = None).
          { apply assoc_None_notin. intros kv' Hin'. apply in_flat_map in Hin'. destruct Hin' as [kv2 [Hin2 Hout2]].
            apply (not_type_out kv2 kv'); [|exact Hout2]. intros E. apply Hnotin. rewrite <- E. apply in_map. exact Hin2. }
          set (tl := flat_map (rt_member rec row m) rest) in *. clearbody tl.
          unfold Codec.rt_member. cbn [fst snd]. destruct (prop_of_key row "type") as [[p b]|] eqn:Ep.
          + destruct (pk_key row "type" p b Ep) as [HP [_ [_ [Hkey Hbm]]]].
            destruct b; [exfalso; symmetry in Hkey; exact (map_not_type _ Hkey)|]. symmetry in Hkey.
            destruct (cs_type CS p HP Hkey) as [Hnf [Hnm _]]. cbn [andb]. cbv zeta.
            assert (Hn1 : nested1 v = false).
            { pose proof (Hvals "type" v p false Hin Ep) as Hgv. unfold good_val in Hgv. rewrite Hnf in Hgv.
              apply andb_true_iff in Hgv. destruct Hgv as [Hgv _]. apply negb_true_iff in Hgv. exact Hgv. }
            pose proof (type_val p HP Hkey name v Hn1) as Htv.
            assert (Hon : out_name p (rt_prop rec p v) = "type") by (unfold out_name; rewrite Hnm; exact Hkey).
            rewrite Hon. destruct (rt_prop rec p v) eqn:Ev;
              try (cbn [app assoc]; rewrite String.eqb_refl; exact Htv).
            cbn [app]. rewrite Hnone. rewrite <- Htv. reflexivity.
          + cbn [app assoc]. rewrite String.eqb_refl. reflexivity.
        - rewrite assoc_app_skip; [exact IH|]. intros kv' Hin'. apply (not_type_out (k, v) kv'); [|exact Hin'].
          cbn [fst]. intros E. subst k. rewrite String.eqb_refl in Ek. discriminate.
      Qed.

      Lemma tmatch_pres name : tmatch name m' = tmatch name m.
      Proof. destruct (good_S row m Hgood) as [HND _]. apply tmatch_suffix; [apply incl_refl|exact HND]. Qed.

      Lemma members_second : flat_map (rt_member rec row m') m' = m'.
      Proof.
        apply flat_map_id'. intros kv' Hin'. unfold m' in Hin'. apply in_flat_map in Hin'. destruct Hin' as [kv [Hin Hout]].
        exact (member_second kv kv' Hin Hout).
      Qed.
    End Members.
  End Level.

  (* ---------- all levels ---------- *)
  Lemma rt_type_inv n row m m' : rt_type n row m = Some m' ->
    exists f, n = S f /\ typed row m = true /\ m' = flat_map (rt_member (rt_type f) row m) m.
  Proof.
    destruct n as [|f]; [discriminate|]. cbn [Codec.rt_type]. unfold Codec.rt_members. intros H. exists f. split; [reflexivity|].
    unfold typed, tmatch. destruct (t_typeless row || _); cbn [negb] in H; [|discriminate]. inversion H. split; reflexivity.
  Qed.

  Lemma rt_type_none n r em : rt_type n r em = None -> typed r em = false \/ (forall r2 m2, rt_type n r2 m2 = None).
  Proof.
    destruct n as [|f]; [intros _; right; reflexivity|]. cbn [Codec.rt_type]. unfold Codec.rt_members, typed, tmatch. intros H. left.
    destruct (t_typeless r || _); cbn [negb] in H; [discriminate|reflexivity].
  Qed.

  Lemma rt_type_tm n r em em' : good n r em = true -> rt_type n r em = Some em' -> forall name, tmatch name em' = tmatch name em.
  Proof.
    intros Hg H name. destruct (rt_type_inv n r em em' H) as [f [Hn [_ Hm']]]. subst n em'. apply (tmatch_pres f). exact Hg.
  Qed.

  Theorem roundtrip_idempotent_sec : forall n row m m', row_ok row = true -> good n row m = true ->
    rt_type n row m = Some m' -> rt_type n row m' = Some m'.
  Proof.
    induction n as [|f IH]; intros row m m' Hok Hg H; [discriminate|].
    destruct (rt_type_inv (S f) row m m' H) as [f0 [Hn [Hty Hm']]]. inversion Hn; subst f0. clear Hn.
    cbn [Codec.rt_type]. unfold Codec.rt_members.
    assert (Hty' : typed row m' = true).
    { unfold typed in *. rewrite Hm'. rewrite (tmatch_pres f (rt_type f) row m Hg). exact Hty. }
    unfold typed, tmatch in Hty'. rewrite Hty'. cbn [negb]. f_equal. rewrite Hm'.
    apply (members_second f (rt_type f) IH (fun r em em' _ Hgr Hr => rt_type_tm f r em em' Hgr Hr) (rt_type_none f) row m Hok Hg).
  Qed.

  (* ---------- the side conditions hold again for the output (so the theorem can be iterated) ---------- *)
  (* tables: no property is called <name>Map for a property <name> that has a Map spelling (decidable) *)
  Hypothesis POK : forall p1 p2, In p1 P -> In p2 P -> p_has_map p1 = true -> p_name p2 <> String.append (p_name p1) "Map".

  Lemma pk_out_any row3 p v' p3 b3 : In p P -> prow (p_name p) = Some p -> prop_of_key row3 (out_name p v') = Some (p3, b3) -> p3 = p.
  Proof.
    intros HP Ep H. destruct (pk_key row3 _ p3 b3 H) as [HP3 [_ [Ep3 [Hkey Hbm]]]]. unfold out_name in Hkey.
    destruct (p_has_map p && is_langstring v') eqn:E; destruct b3.
    - apply append_inj_r in Hkey. rewrite Hkey in Ep. rewrite Ep3 in Ep. inversion Ep. reflexivity.
    - apply andb_true_iff in E. destruct E as [Hm _]. exfalso. apply (POK p p3 HP HP3 Hm). symmetry. exact Hkey.
    - exfalso. apply (POK p3 p HP3 HP (Hbm eq_refl)). exact Hkey.
    - rewrite Hkey in Ep. rewrite Ep3 in Ep. inversion Ep. reflexivity.
  Qed.

  Lemma good_S_intro f row m : NoDup (map fst m) ->
    (forall k v p b, In (k, v) m -> prop_of_key row k = Some (p, b) -> good_val f p v = true) -> good (S f) row m = true.
  Proof.
    intros Hnd H. cbn [good]. apply andb_true_iff. split; [apply nodupb_spec; exact Hnd|]. apply forallb_forall. intros [k v] Hin.
    cbn [fst snd]. destruct (prop_of_key row k) as [[p b]|] eqn:Ek; [|reflexivity]. specialize (H k v p b Hin Ek).
    unfold good_val in H. destruct (p_functional p); [destruct v; exact H|]. destruct v; exact H.
  Qed.

  Section LevelP.
    Variable f : nat.
    Variable rec : type_row -> list (string * json) -> option (list (string * json)).
    Hypothesis rec_good : forall r r3 em em', row_ok r = true -> good f r em = true -> good f r3 em = true -> rec r em = Some em' -> good f r3 em' = true.

    Lemma good_elem_out p e : In p P -> good_elem f p e = true -> good_elem f p (rt_elem rec p e) = true.
    Proof.
      intros HP Hg.
      assert (Hgen : good_elem f p (try_chain rec e (p_deser p)) = true).
      { destruct (try_chain_res rec p e (p_deser p) (incl_refl _)) as [Hx|k2 Hk2 Hl2 Hn|k2 r2 em em2 Hk2 Hl2 He2 Ht2 Hr2 Hx].
        - rewrite Hx. exact Hg.
        - destruct (cs_shape CS p k2 e _ HP Hk2 Hn) as [Hx|Hx]; [rewrite Hx; exact Hg|].
          destruct (try_chain rec e (p_deser p)); try reflexivity. destruct Hx.
        - rewrite Hx. subst e. cbn [good_elem]. apply forallb_forall. intros k3 Hk3. destruct (trow k3) as [r3|] eqn:Et3; [|reflexivity].
          destruct (good_elem_row f p em k2 r2 Hg Hk2 Ht2) as [Hg2 [Hok2 _]].
          destruct (good_elem_row f p em k3 r3 Hg Hk3 Et3) as [Hg3 _].
          exact (rec_good r2 r3 em em2 Hok2 Hg2 Hg3 Hr2). }
      unfold Codec.rt_elem. destruct e as [| | |s| |]; try exact Hgen. destruct (_ && _); [reflexivity|exact Hgen].
    Qed.

    Lemma good_val_nonarr p x : p_functional p = false -> is_arr x = false -> good_val f p x = good_elem f p x.
    Proof. intros Hf Hx. unfold good_val. rewrite Hf. destruct x; try reflexivity. discriminate. Qed.

    Lemma good_val_out p v : In p P -> good_val f p v = true -> good_val f p (rt_prop rec p v) = true.
    Proof.
      intros HP Hg. unfold good_val in Hg. destruct (p_functional p) eqn:Ef.
      - unfold good_val, Codec.rt_prop. rewrite Ef. exact (good_elem_out p v HP Hg).
      - apply andb_true_iff in Hg. destruct Hg as [Hn Hg]. apply negb_true_iff in Hn.
        assert (Hna : forall x, is_arr x = false -> good_elem f p x = true -> good_val f p (rt_prop rec p x) = true).
        { intros x Hx Hgx. rewrite (rt_prop_nonarr rec p x Ef Hx).
          rewrite (good_val_nonarr p _ Ef (rt_elem_not_arr rec p x HP Hx)). exact (good_elem_out p x HP Hgx). }
        destruct v as [| | | |l|]; try (apply Hna; [reflexivity|exact Hg]).
        destruct l as [|e1 [|e2 r]].
        + unfold good_val, Codec.rt_prop. rewrite Ef. reflexivity.
        + cbn [forallb] in Hg. apply andb_true_iff in Hg. destruct Hg as [Hg1 _].
          assert (He1 : is_arr e1 = false) by (destruct e1; try reflexivity; discriminate).
          assert (E : rt_prop rec p (JArr [e1]) = rt_elem rec p e1) by (unfold Codec.rt_prop; rewrite Ef; reflexivity).
          rewrite E. rewrite (good_val_nonarr p _ Ef (rt_elem_not_arr rec p e1 HP He1)). exact (good_elem_out p e1 HP Hg1).
        + assert (E : rt_prop rec p (JArr (e1 :: e2 :: r)) = JArr (map (rt_elem rec p) (e1 :: e2 :: r)))
            by (unfold Codec.rt_prop; rewrite Ef; reflexivity).
          rewrite E. unfold good_val. rewrite Ef.
          assert (N2 : forall a b t, nested1 (JArr (a :: b :: t)) = false) by (intros a b t; destruct a; reflexivity).
          cbn [map]. rewrite N2. cbn [negb andb].
          change (forallb (good_elem f p) (map (rt_elem rec p) (e1 :: e2 :: r)) = true).
          revert Hg. generalize (e1 :: e2 :: r). intros l0. induction l0 as [|a t IHl]; [reflexivity|].
          cbn [forallb map]. intros Hg. apply andb_true_iff in Hg. destruct Hg as [Ha Ht]. rewrite (good_elem_out p a HP Ha), (IHl Ht). reflexivity.
    Qed.

    (* the keys of the output are distinct *)
    Lemma out_key_clash row m k1 v1 k2 v2 kv1 kv2 : row_ok row = true -> NoDup (map fst m) ->
      In (k1, v1) m -> In (k2, v2) m -> In kv1 (rt_member rec row m (k1, v1)) -> In kv2 (rt_member rec row m (k2, v2)) ->
      fst kv1 = fst kv2 -> k1 = k2.
    Proof.
      intros Hok Hnd Hin1 Hin2 Ho1 Ho2 Heq.
      apply rt_member_inv in Ho1. apply rt_member_inv in Ho2.
      assert (Hunk : forall k p b w, prop_of_key row k = None -> forall k0, prop_of_key row k0 = Some (p, b) -> k <> out_name p w).
      { intros k p b w Hnone k0 Hk0 E. rewrite E in Hnone. rewrite (pk_out row k0 p b w Hok Hk0) in Hnone. discriminate. }
      destruct Ho1 as [[Hn1 E1]|[p1 [b1 [Hk1 [Hd1 [_ E1]]]]]]; destruct Ho2 as [[Hn2 E2]|[p2 [b2 [Hk2 [Hd2 [_ E2]]]]]]; subst kv1 kv2; cbn [fst] in Heq.
      - exact Heq.
      - exfalso. exact (Hunk k1 p2 b2 _ Hn1 k2 Hk2 Heq).
      - exfalso. symmetry in Heq. exact (Hunk k2 p1 b1 _ Hn2 k1 Hk1 Heq).
      - destruct (pk_key row k1 p1 b1 Hk1) as [HP1 [Hf1 [Ep1 [Hkey1 Hbm1]]]].
        destruct (pk_key row k2 p2 b2 Hk2) as [HP2 [Hf2 [Ep2 [Hkey2 Hbm2]]]].
        assert (Hp : p1 = p2).
        { unfold out_name in Heq.
          destruct (p_has_map p1 && is_langstring (rt_prop rec p1 v1)) eqn:El1; destruct (p_has_map p2 && is_langstring (rt_prop rec p2 v2)) eqn:El2.
          - apply append_inj_r in Heq. rewrite Heq in Ep1. rewrite Ep2 in Ep1. inversion Ep1. reflexivity.
          - exfalso. apply andb_true_iff in El1. destruct El1 as [Hm1 _]. apply (row_ok_spec row Hok (p_name p1) p1 Hf1 Ep1 Hm1). rewrite Heq. exact Hf2.
          - exfalso. apply andb_true_iff in El2. destruct El2 as [Hm2 _]. apply (row_ok_spec row Hok (p_name p2) p2 Hf2 Ep2 Hm2). rewrite <- Heq. exact Hf1.
          - rewrite Heq in Ep1. rewrite Ep2 in Ep1. inversion Ep1. reflexivity. }
        subst p2. destruct b1, b2; cbn [andb] in *; try congruence.
        + exfalso. subst k2. pose proof (In_assoc _ _ _ Hin2) as Hne. destruct (assoc (p_name p1) m); [discriminate|apply Hne; reflexivity].
        + exfalso. subst k1. pose proof (In_assoc _ _ _ Hin1) as Hne. destruct (assoc (p_name p1) m); [discriminate|apply Hne; reflexivity].
    Qed.

    Lemma rt_member_le1 row m kv a b : In a (rt_member rec row m kv) -> In b (rt_member rec row m kv) -> a = b.
    Proof.
      unfold Codec.rt_member. destruct (prop_of_key row (fst kv)) as [[p bb]|].
      - destruct (_ && _); [intros []|]. cbv zeta. destruct (rt_prop rec p (snd kv)); try (intros []; fail); intros [Ha|[]] [Hb|[]]; congruence.
      - intros [Ha|[]] [Hb|[]]. congruence.
    Qed.

    Lemma NoDup_rt_member row m kv : NoDup (map fst (rt_member rec row m kv)).
    Proof.
      unfold Codec.rt_member. destruct (prop_of_key row (fst kv)) as [[p bb]|].
      - destruct (_ && _); [constructor|]. cbv zeta. destruct (rt_prop rec p (snd kv)); try constructor; try (intros []); constructor.
      - constructor; [intros []|constructor].
    Qed.

    Lemma out_keys_nodup row m : row_ok row = true -> NoDup (map fst m) ->
      forall l, incl l m -> NoDup (map fst l) -> NoDup (map fst (flat_map (rt_member rec row m) l)).
    Proof.
      intros Hok Hnd. induction l as [|[k v] rest IH]; intros Hincl Hndl; [constructor|].
      assert (Hin : In (k, v) m) by (apply Hincl; left; reflexivity).
      assert (Hrest : incl rest m) by (intros y Hy; apply Hincl; right; exact Hy).
      cbn [map fst] in Hndl. inversion Hndl as [|x xs Hnotin Hndl']; subst. specialize (IH Hrest Hndl').
      cbn [flat_map]. rewrite map_app.
      assert (Hdisj : forall kv1, In kv1 (rt_member rec row m (k, v)) -> ~ In (fst kv1) (map fst (flat_map (rt_member rec row m) rest))).
      { intros kv1 Ho1 Hin2. apply in_map_iff in Hin2. destruct Hin2 as [kv2 [Hfst Hin2]]. apply in_flat_map in Hin2.
        destruct Hin2 as [[k2 v2] [Hin2 Ho2]]. symmetry in Hfst.
        pose proof (out_key_clash row m k v k2 v2 kv1 kv2 Hok Hnd Hin (Hrest _ Hin2) Ho1 Ho2 Hfst) as E. subst k2.
        apply Hnotin. apply (in_map fst) in Hin2. exact Hin2. }
      pose proof (NoDup_rt_member row m (k, v)) as Hh.
      destruct (rt_member rec row m (k, v)) as [|kv1 [|kv1b t]] eqn:Eg.
      - exact IH.
      - cbn [map app]. constructor; [|exact IH]. apply Hdisj. left. reflexivity.
      - exfalso. assert (E : kv1 = kv1b) by (apply (rt_member_le1 row m (k, v)); rewrite Eg; [left; reflexivity|right; left; reflexivity]).
        subst kv1b. cbn [map] in Hh. inversion Hh as [|y ys Hny _]. apply Hny. left. reflexivity.
    Qed.
  End LevelP.

  Theorem good_preserved_sec : forall n row row3 m m', row_ok row = true -> good n row m = true -> good n row3 m = true ->
    rt_type n row m = Some m' -> good n row3 m' = true.
  Proof.
    induction n as [|f IH]; intros row row3 m m' Hok Hg Hg3 H; [discriminate|].
    destruct (rt_type_inv (S f) row m m' H) as [f0 [Hn [_ Hm']]]. inversion Hn; subst f0. clear Hn.
    destruct (good_S f row m Hg) as [Hnd Hvals]. destruct (good_S f row3 m Hg3) as [_ Hvals3].
    apply good_S_intro.
    - rewrite Hm'. apply (out_keys_nodup (rt_type f) row m Hok Hnd m (incl_refl _) Hnd).
    - intros k' v' p3 b3 Hin' Hk3. rewrite Hm' in Hin'. apply in_flat_map in Hin'. destruct Hin' as [[k v] [Hin Hout]].
      apply rt_member_inv in Hout. destruct Hout as [[_ Heq]|[p [b [Hk [_ [_ Heq]]]]]].
      + inversion Heq; subst k' v'. exact (Hvals3 k v p3 b3 Hin Hk3).
      + inversion Heq; subst k' v'. destruct (pk_key row k p b Hk) as [HP [_ [Ep _]]].
        rewrite (pk_out_any row3 p _ p3 b3 HP Ep Hk3).
        apply (good_val_out f (rt_type f)); [|exact HP|exact (Hvals k v p b Hin Hk)].
        intros r r3 em em' Hokr Hgr Hgr3 Hr. exact (IH r r3 em em' Hokr Hgr Hgr3 Hr).
  Qed.
End Idem.

(* The second round trip changes nothing: for all tables whose rows are row_ok and all literal codecs that are codec_stable,
   on members that are good (unique keys, no [[...]] for a known list property, through the embedded values). *)
Theorem roundtrip_idempotent : forall T P url_ok norm_iri norm,
  codec_stable T P url_ok norm_iri norm -> (forall r, In r T -> row_ok P r = true) ->
  forall n row m m', row_ok P row = true -> good T P n row m = true ->
  rt_type T P url_ok norm_iri norm n row m = Some m' -> rt_type T P url_ok norm_iri norm n row m' = Some m'.
Proof. exact roundtrip_idempotent_sec. Qed.

Print Assumptions roundtrip_idempotent.

(* ... and the output meets the side conditions again *)
Theorem good_preserved : forall T P url_ok norm_iri norm,
  codec_stable T P url_ok norm_iri norm -> (forall r, In r T -> row_ok P r = true) ->
  (forall p1 p2, In p1 P -> In p2 P -> p_has_map p1 = true -> p_name p2 <> String.append (p_name p1) "Map") ->
  forall n row m m', row_ok P row = true -> good T P n row m = true ->
  rt_type T P url_ok norm_iri norm n row m = Some m' -> good T P n row m' = true.
Proof. intros T P url_ok norm_iri norm CS TOK POK n row m m' Hok Hg H. exact (good_preserved_sec T P url_ok norm_iri norm CS TOK POK n row row m m' Hok Hg Hg H). Qed.
Print Assumptions good_preserved.

(* ================= the shipped tables and literal codecs ================= *)
(* the table hypothesis, decided by computation *)
Lemma shipped_tables_ok : forall r, In r types_shipped -> row_ok props_shipped r = true.
Proof. apply forallb_forall. vm_compute. reflexivity. Qed.

(* what the shipped literal codecs return *)
Inductive norm_spec (k : string) (e v : json) : Prop :=
| NS_str s : In k ["@string"; "@bcp47"; "@rfc2045"; "@rfc5988"] -> e = JStr s -> v = e -> norm_spec k e v
| NS_uri s : k = "@anyuri" -> e = JStr s -> url_ok s = true -> v = e -> norm_spec k e v
| NS_bool b : k = "@boolean" -> e = JBool b -> v = e -> norm_spec k e v
| NS_bool0 : k = "@boolean" -> e = JNum 0 -> v = JBool false -> norm_spec k e v
| NS_bool1 : k = "@boolean" -> e = JNum 1 -> v = JBool true -> norm_spec k e v
| NS_float z : k = "@float" -> e = JNum z -> v = e -> norm_spec k e v
| NS_nni z : k = "@nonnegativeinteger" -> e = JNum z -> v = e -> norm_spec k e v
| NS_lang : k = "@langstring" -> is_langstring e = true -> v = e -> norm_spec k e v
| NS_dt s u off : k = "@datetime" -> e = JStr s -> parse_datetime s = Some (u, off) -> v = JStr (rfc3339_off u off) -> norm_spec k e v
| NS_dur s ns : k = "@duration" -> e = JStr s -> parse_duration s = DOk ns -> v = JStr (print_duration ns) -> norm_spec k e v.

Lemma norm_inv k e v : norm k e = Some v -> norm_spec k e v.
Proof.
  unfold norm.
  destruct (String.eqb k "@string" || String.eqb k "@bcp47" || String.eqb k "@rfc2045" || String.eqb k "@rfc5988") eqn:Es.
  { intros H. destruct e as [| | |s| |]; try discriminate. inversion H; subst v. apply (NS_str k _ _ s); try reflexivity.
    repeat (apply orb_true_iff in Es; destruct Es as [Es|Es]); apply String.eqb_eq in Es; subst k; cbn; tauto. }
  destruct (String.eqb k "@anyuri") eqn:E1.
  { apply String.eqb_eq in E1. intros H. destruct e as [| | |s| |]; try discriminate. destruct (url_ok s) eqn:Eu; [|discriminate].
    inversion H; subst v. apply (NS_uri k _ _ s); try assumption; reflexivity. }
  destruct (String.eqb k "@boolean") eqn:E2.
  { apply String.eqb_eq in E2. intros H. destruct e as [|b|z| | |]; try discriminate.
    - inversion H; subst v. apply (NS_bool k _ _ b); try assumption; reflexivity.
    - destruct z as [|q|q]; try discriminate; [inversion H; subst v; apply NS_bool0; try assumption; reflexivity|].
      destruct q; try discriminate. inversion H; subst v. apply NS_bool1; try assumption; reflexivity. }
  destruct (String.eqb k "@float") eqn:E3.
  { apply String.eqb_eq in E3. intros H. destruct e as [| |z| | |]; try discriminate. inversion H; subst v.
    apply (NS_float k _ _ z); try assumption; reflexivity. }
  destruct (String.eqb k "@nonnegativeinteger") eqn:E4.
  { apply String.eqb_eq in E4. intros H. destruct e as [| |z| | |]; try discriminate. destruct (0 <=? z)%Z; [|discriminate]. inversion H; subst v.
    apply (NS_nni k _ _ z); try assumption; reflexivity. }
  destruct (String.eqb k "@langstring") eqn:E5.
  { apply String.eqb_eq in E5. intros H. destruct (is_langstring e) eqn:El; [|discriminate]. inversion H; subst v.
    apply NS_lang; try assumption; reflexivity. }
  destruct (String.eqb k "@datetime") eqn:E6.
  { apply String.eqb_eq in E6. intros H. destruct e as [| | |s| |]; try discriminate. destruct (parse_datetime s) as [[u off]|] eqn:Ep; [|discriminate].
    inversion H; subst v. apply (NS_dt k _ _ s u off); try assumption; reflexivity. }
  destruct (String.eqb k "@duration") eqn:E7.
  { apply String.eqb_eq in E7. intros H. destruct e as [| | |s| |]; try discriminate. destruct (parse_duration s) as [ns| |] eqn:Ep; try discriminate.
    inversion H; subst v. apply (NS_dur k _ _ s ns); try assumption; reflexivity. }
  discriminate.
Qed.

(* facts about the shipped chains, decided by computation *)
Definition chain_ok_shipped (p : prop_row) : bool :=
  let c := p_deser p in
  (* a chain with @langstring names no type *)
  (negb (mem "@langstring" c) || forallb (fun k2 => is_literal_kind k2 || match trow types_shipped k2 with None => true | Some _ => false end) c) &&
  (* a chain with @datetime or @duration has no other kind that reads strings by parsing *)
  (negb (mem "@datetime" c) || (negb (mem "@anyuri" c) && negb (mem "@duration" c))) &&
  (negb (mem "@duration" c) || (negb (mem "@anyuri" c) && negb (mem "@datetime" c))) &&
  (* the property "type" *)
  (negb (String.eqb (p_name p) "type") ||
   (negb (p_functional p) && negb (p_has_map p) && negb (mem "IRI" c) &&
    forallb (fun k => negb (is_literal_kind k) || mem k ["@anyuri"; "@string"]) c)).
Lemma shipped_chains_ok : forall p, In p props_shipped -> chain_ok_shipped p = true.
Proof. apply forallb_forall. vm_compute. reflexivity. Qed.

Lemma norm_str_kinds k s : In k ["@string"; "@bcp47"; "@rfc2045"; "@rfc5988"] -> norm k (JStr s) = Some (JStr s).
Proof. intros H. repeat (destruct H as [H|H]; [subst k; reflexivity|]). destruct H. Qed.

(* the one thing not established here: a printed dateTime / duration is read back as itself (before fix F23 this was false
   for xsd:duration, see below); everything else of codec_stable is proved. *)
Definition time_literals_idem : Prop :=
  forall k e v, k = "@datetime" \/ k = "@duration" -> norm k e = Some v -> norm k v = Some v.

Lemma shipped_codec_stable : time_literals_idem -> codec_stable types_shipped props_shipped url_ok norm_iri norm.
Proof.
  intros Htime. constructor.
  - (* cs_idem *)
    intros p k e v _ _ H. destruct (norm_inv k e v H) as [s ? ? Hv|s ? ? ? Hv|b ? ? Hv| | |z ? ? Hv|z ? ? Hv|? ? Hv|s u off Hk|s ns Hk];
      subst; try exact H; try reflexivity.
    + apply (Htime "@datetime" (JStr s)); [left; reflexivity|exact H].
    + apply (Htime "@duration" (JStr s)); [right; reflexivity|exact H].
  - (* cs_later *)
    intros p k k2 e v HP Hk Hk2 H2 Hnone. pose proof (shipped_chains_ok p HP) as Hc. unfold chain_ok_shipped in Hc.
    apply andb_true_iff in Hc. destruct Hc as [Hc _]. apply andb_true_iff in Hc. destruct Hc as [Hc Hdur].
    apply andb_true_iff in Hc. destruct Hc as [_ Hdt].
    apply mem_In in Hk. apply mem_In in Hk2.
    destruct (norm k v) as [w|] eqn:Ew; [exfalso|reflexivity].
    destruct (norm_inv k2 e v H2) as [s ? ? Hv|s ? ? ? Hv|b ? ? Hv| | |z ? ? Hv|z ? ? Hv|? ? Hv|s u off Hk2e He Hp Hv|s ns Hk2e He Hp Hv];
      try (rewrite Hv in Ew; congruence).
    + (* JNum 0 -> false *) subst. destruct (norm_inv k _ _ Ew); subst; discriminate.
    + subst. destruct (norm_inv k _ _ Ew); subst; discriminate.
    + (* @datetime *) subst k2 e v. rewrite Hk2 in Hdt. cbn [negb orb] in Hdt. apply andb_true_iff in Hdt. destruct Hdt as [Hnu Hnd].
      destruct (norm_inv k _ _ Ew) as [s1 Hin ? ?|s1 Hk1|b Hk1 He1| Hk1 He1| Hk1 He1|z Hk1 He1|z Hk1 He1|Hk1 Hl|s1 u1 off1 Hk1|s1 ns1 Hk1]; try discriminate.
      * rewrite (norm_str_kinds k s Hin) in Hnone. discriminate.
      * subst k. rewrite Hk in Hnu. discriminate.
      * subst k. congruence.
      * subst k. rewrite Hk in Hnd. discriminate.
    + (* @duration *) subst k2 e v. rewrite Hk2 in Hdur. cbn [negb orb] in Hdur. apply andb_true_iff in Hdur. destruct Hdur as [Hnu Hnd].
      destruct (norm_inv k _ _ Ew) as [s1 Hin ? ?|s1 Hk1|b Hk1 He1| Hk1 He1| Hk1 He1|z Hk1 He1|z Hk1 He1|Hk1 Hl|s1 u1 off1 Hk1|s1 ns1 Hk1]; try discriminate.
      * rewrite (norm_str_kinds k s Hin) in Hnone. discriminate.
      * subst k. rewrite Hk in Hnu. discriminate.
      * subst k. rewrite Hk in Hnd. discriminate.
      * subst k. congruence.
  - (* cs_shape *)
    intros p k e v _ _ H. destruct (norm_inv k e v H); subst; try (left; reflexivity); right; exact I.
  - (* cs_obj *)
    intros p k k2 r em HP Hk Hk2 Hl Hl2 Ht. pose proof (shipped_chains_ok p HP) as Hc. unfold chain_ok_shipped in Hc.
    apply andb_true_iff in Hc. destruct Hc as [Hc _]. apply andb_true_iff in Hc. destruct Hc as [Hc _].
    apply andb_true_iff in Hc. destruct Hc as [Hlang _].
    destruct (norm k (JObj em)) as [w|] eqn:Ew; [exfalso|reflexivity].
    destruct (norm_inv k _ _ Ew) as [s1 Hin ? ?|s1 Hk1|b Hk1 He1| Hk1 He1| Hk1 He1|z Hk1 He1|z Hk1 He1|Hk1 Hl1|s1 u1 off1 Hk1|s1 ns1 Hk1]; try discriminate.
    subst k. apply mem_In in Hk. rewrite Hk in Hlang. cbn [negb orb] in Hlang. rewrite forallb_forall in Hlang.
    specialize (Hlang k2 Hk2). rewrite Hl2, Ht in Hlang. discriminate.
  - (* cs_iri *) intros s Hs. split; [exact Hs|reflexivity].
  - (* cs_iri_lit *) intros. left. reflexivity.
  - (* cs_type *)
    intros p HP Hname. pose proof (shipped_chains_ok p HP) as Hc. unfold chain_ok_shipped in Hc.
    apply andb_true_iff in Hc. destruct Hc as [_ Hty]. rewrite Hname in Hty. cbn [String.eqb Ascii.eqb Bool.eqb negb orb] in Hty.
    repeat (apply andb_true_iff in Hty; destruct Hty as [Hty ?]).
    repeat match goal with H : negb _ = true |- _ => apply negb_true_iff in H end.
    split; [assumption|]. split; [assumption|]. split; [assumption|].
    intros k Hk Hl. match goal with H : forallb _ _ = true |- _ => rewrite forallb_forall in H; specialize (H k Hk); rewrite Hl in H; cbn [negb orb] in H; apply mem_In in H; rename H into Hin end.
    split.
    + intros s. destruct Hin as [Hin|[Hin|[]]]; subst k.
      * change (norm "@anyuri" (JStr s)) with (if url_ok s then Some (JStr (norm_iri s)) else None). destruct (url_ok s); [right; reflexivity|left; reflexivity].
      * right. reflexivity.
    + intros e s H. destruct (norm_inv k e _ H); subst; try discriminate; eexists; reflexivity.
Qed.

(* idempotence for the shipped tables and codecs, given only that printed dateTimes / durations are read back as themselves *)
Theorem roundtrip_idempotent_shipped : time_literals_idem -> forall n row m m',
  In row types_shipped -> good types_shipped props_shipped n row m = true ->
  rt_type types_shipped props_shipped url_ok norm_iri norm n row m = Some m' ->
  rt_type types_shipped props_shipped url_ok norm_iri norm n row m' = Some m'.
Proof.
  intros Htime n row m m' Hrow. apply roundtrip_idempotent; [exact (shipped_codec_stable Htime)|exact shipped_tables_ok|exact (shipped_tables_ok row Hrow)].
Qed.
Print Assumptions roundtrip_idempotent_shipped.

(* the side conditions hold again for the output, for the shipped tables and codecs *)
Lemma shipped_props_ok : forall p1 p2, In p1 props_shipped -> In p2 props_shipped -> p_has_map p1 = true ->
  p_name p2 <> String.append (p_name p1) "Map".
Proof.
  assert (H : forallb (fun p1 => negb (p_has_map p1) ||
                forallb (fun p2 => negb (String.eqb (p_name p2) (String.append (p_name p1) "Map"))) props_shipped) props_shipped = true)
    by (vm_compute; reflexivity).
  intros p1 p2 H1 H2 Hm E. rewrite forallb_forall in H. specialize (H p1 H1). cbn beta in H. rewrite Hm in H. cbn [negb orb] in H.
  rewrite forallb_forall in H. specialize (H p2 H2). cbn beta in H. rewrite E, String.eqb_refl in H. discriminate.
Qed.
Theorem good_preserved_shipped : time_literals_idem -> forall n row m m',
  In row types_shipped -> good types_shipped props_shipped n row m = true ->
  rt_type types_shipped props_shipped url_ok norm_iri norm n row m = Some m' ->
  good types_shipped props_shipped n row m' = true.
Proof.
  intros Htime n row m m' Hrow. apply (good_preserved types_shipped props_shipped url_ok norm_iri norm);
    [exact (shipped_codec_stable Htime)|exact shipped_tables_ok|exact shipped_props_ok|exact (shipped_tables_ok row Hrow)].
Qed.

(* ================= witnesses ================= *)
(* Finding F23 (repaired in /repo, commit "fix: DeserializeDuration rejects values beyond the range of time.Duration"): for
   the code before that commit this development refuted time_literals_idem for "@duration" by computation - 18446744073 s *
   10^9 wrapped around int64 to -709551616 ns, printed "-P" (the real code: "-PT"), which is read as 0 and printed "P", so
   {"type":"Note","duration":"PT18446744073S"} changed again on the second round trip; replayed on the real code it gave
   "-PT" and then "P".  With the repair (Streams/Literals.v add_group: a sum that does not fit an int64 is rejected) the value
   is no duration any more and comes back verbatim: *)
Definition dur_doc : json := JObj [("type", JStr "Note"); ("duration", JStr "PT18446744073S")].
Example overflowing_duration_kept : rt_shipped dur_doc = Some dur_doc /\ norm "@duration" (JStr "PT18446744073S") = None /\
                                     norm "@duration" (JStr "P400Y") = None /\ norm "@duration" (JStr "P292Y") = Some (JStr "P292Y").
Proof. repeat split; vm_compute; reflexivity. Qed.

(* the side conditions are needed by the model: [[x]] for a list property loses one pair of brackets per round trip; a key
   given twice (not possible for an object decoded by encoding/json) can bring both spellings into the output *)
Example nested_array_not_idempotent :
  let d := JObj [("type", JStr "Note"); ("to", JArr [JArr [JStr "https://example.com/u"]])] in
  rt_shipped d = Some (JObj [("type", JStr "Note"); ("to", JArr [JStr "https://example.com/u"])]) /\
  rt_shipped (JObj [("type", JStr "Note"); ("to", JArr [JStr "https://example.com/u"])]) = Some (JObj [("type", JStr "Note"); ("to", JStr "https://example.com/u")]).
Proof. split; vm_compute; reflexivity. Qed.
Example duplicate_key_not_idempotent :
  let d := JObj [("type", JStr "Note"); ("name", JObj [("en", JStr "a")]); ("name", JStr "b")] in
  rt_shipped d = Some (JObj [("type", JStr "Note"); ("nameMap", JObj [("en", JStr "a")]); ("name", JStr "b")]) /\
  rt_shipped (JObj [("type", JStr "Note"); ("nameMap", JObj [("en", JStr "a")]); ("name", JStr "b")]) = Some (JObj [("type", JStr "Note"); ("name", JStr "b")]).
Proof. split; vm_compute; reflexivity. Qed.

(* non-vacuity: a document far from canonical form (type and actor as one-element arrays, dateTimes without seconds / with
   offsets, a language map under the plain name, a boolean given as 1, a duration in seconds, a null for a known property,
   an embedded value with the same, unknown members with nulls and nested arrays) changes in the first round trip and not in
   the second; its members are `good` *)
Definition idem_doc : json :=
  JObj [("@context", JStr "https://www.w3.org/ns/activitystreams"); ("type", JArr [JStr "Create"]); ("id", JStr "HTTPS://Example.com/a/../1");
        ("actor", JArr [JStr "https://example.com/users/alice"]);
        ("published", JStr "2020-02-03T04:05+01:00"); ("updated", JStr "2020-02-03T04:05:06+00:00");
        ("name", JObj [("en", JStr "hello")]); ("sensitive", JNum 1); ("duration", JStr "PT3600S");
        ("object", JArr [JObj [("type", JStr "Note"); ("to", JArr [JStr "https://example.com/users/bob"]);
                               ("content", JObj [("en", JStr "x"); ("fr", JStr "y")]);
                               ("startTime", JStr "2021-01-01T00:00:00-00:00"); ("x-ext", JArr [JArr [JNum 1]])]]);
        ("bcc", JNull);
        ("ext:vendor", JObj [("n", JNull); ("a", JArr [JArr []])])].
Definition idem_doc1 : json :=
  JObj [("type", JStr "Create"); ("id", JStr "HTTPS://Example.com/a/../1");
        ("actor", JStr "https://example.com/users/alice");
        ("published", JStr "2020-02-03T04:05:00+01:00"); ("updated", JStr "2020-02-03T04:05:06Z");
        ("nameMap", JObj [("en", JStr "hello")]); ("sensitive", JBool true); ("duration", JStr "PT1H");
        ("object", JObj [("type", JStr "Note"); ("to", JStr "https://example.com/users/bob");
                         ("contentMap", JObj [("en", JStr "x"); ("fr", JStr "y")]);
                         ("startTime", JStr "2021-01-01T00:00:00Z"); ("x-ext", JArr [JArr [JNum 1]])]);
        ("ext:vendor", JObj [("n", JNull); ("a", JArr [JArr []])])].
Example idempotent_example : rt_shipped idem_doc = Some idem_doc1 /\ idem_doc1 <> idem_doc /\ rt_shipped idem_doc1 = Some idem_doc1.
Proof. split; [vm_compute; reflexivity|]. split; [discriminate|vm_compute; reflexivity]. Qed.
Example idempotent_example_good :
  exists row, trow types_shipped "Create" = Some row /\
              good types_shipped props_shipped 8 row (remove_key "@context" (jfields idem_doc)) = true.
Proof. eexists. split; [vm_compute; reflexivity|]. vm_compute. reflexivity. Qed.

Print Assumptions overflowing_duration_kept.
Print Assumptions idempotent_example.
