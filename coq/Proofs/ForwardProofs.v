(* C17: the forwarding monitor fwd_step holds of the model of InboxForwarding for every environment. *)
From Coq Require Import String List Bool Arith Lia.
From Verif Require Import Base.ListX Base.Json Base.Free Pub.Events Pub.Calls Pub.Value Pub.EffectSpec Pub.Util Pub.SideEffect Pub.Monitors.
From Verif Require Import Proofs.ValueProofs Proofs.HiddenProofs Proofs.OnlyProofs Proofs.OrderProofs.
Import ListNotations.
Open Scope string_scope.
Open Scope list_scope.

Local Opaque has_prop known_type admits T P.

Section Fwd.
  Variable a : json.
  Notation step := (fwd_step a).

  Lemma fwp_bindr {A B} (m : prog (res A)) (f : A -> prog (res B)) s (Q : fstate -> res B -> Prop) :
    wp step m s (fun s' r => match r with Ok a => wp step (f a) s' Q | Err e => Q s' (Err e) | Panic p => Q s' (Panic p) end) ->
    wp step (bindr m f) s Q.
  Proof. intros H. unfold bindr. apply wp_bind. eapply wp_mono; [|exact H]. intros s' [x|e|p] H'; exact H'. Qed.
  Lemma fwp_lock i s (Q : fstate -> res unit -> Prop) : (forall r, Q s r) -> wp step (lock i) s Q.
  Proof. intros H. unfold lock, call. cbn [bind wp fwd_step]. intros x. destruct x; apply H. Qed.
  Lemma fwp_unlock i s (Q : fstate -> unit -> Prop) : Q s tt -> wp step (unlock i) s Q.
  Proof. intros H. unfold unlock, call. cbn [bind wp fwd_step]. intros x. exact H. Qed.

  (* the value search may only raise f_owned_value *)
  Definition grows (s s' : fstate) : Prop :=
    f_exists s' = f_exists s /\ f_created s' = f_created s /\ f_cols s' = f_cols s /\ f_asked s' = f_asked s /\
    f_filter s' = f_filter s /\ f_sent s' = f_sent s /\ (f_owned_value s = true -> f_owned_value s' = true).
  Lemma grows_refl s : grows s s. Proof. unfold grows. tauto. Qed.
  Lemma grows_trans s1 s2 s3 : grows s1 s2 -> grows s2 s3 -> grows s1 s3.
  Proof. unfold grows. intros [A1 [A2 [A3 [A4 [A5 [A6 A7]]]]]] [B1 [B2 [B3 [B4 [B5 [B6 B7]]]]]]. repeat split; try congruence. auto. Qed.

  Lemma fwp_owns i s (Q : fstate -> res bool -> Prop) :
    (forall s' r, grows s s' -> (r = Ok true -> f_asked s = true -> f_owned_value s' = true) -> Q s' r) ->
    wp step (db_bool "Owns" [JStr i]) s Q.
  Proof.
    intros H. unfold db_bool, db, call. cbn [bind wp map]. intros x.
    change (fwd_step a s (EDb "Owns" [canon (JStr i)]) x) with
      (match x with
       | ABool true => if f_asked s then Some {| f_exists := f_exists s; f_created := f_created s; f_cols := f_cols s; f_asked := true;
                                                 f_owned_value := true; f_filter := f_filter s; f_sent := f_sent s |} else Some s
       | _ => Some s end).
    destruct x; cbn [wp ok fail]; try (apply H; [apply grows_refl|intros Hx; discriminate Hx]).
    destruct b.
    - destruct (f_asked s) eqn:Ea; cbn [wp ok].
      + apply H; [unfold grows; cbn; rewrite Ea; repeat split; auto|intros; reflexivity].
      + apply H; [apply grows_refl|intros _ Hc; discriminate Hc].
    - cbn [wp ok]. apply H; [apply grows_refl|intros Hx; discriminate Hx].
  Qed.

  (* events that never change the state *)
  Definition inert (e : ev) : bool := match e with ELock _ | EUnlock _ | ENewTransport _ | EDeref _ => true | _ => false end.
  Lemma inert_frame {A} (m : prog A) s (Q : fstate -> A -> Prop) : only inert m -> (forall x, Q s x) -> wp step m s Q.
  Proof.
    intros Hm HQ. apply (only_wp inert step (fun s' => s' = s)); auto.
    - intros s0 e x -> He. exists s. destruct e; simpl in *; try discriminate; split; reflexivity.
    - intros s' x ->. apply HQ.
  Qed.

  Lemma w_owns_any : forall ids s, wp step (owns_any ids) s (fun s' r => grows s s' /\ (r = Ok true -> f_asked s = true -> f_owned_value s' = true)).
  Proof.
    induction ids as [|i r IH]; intros s; cbn [owns_any]; [split; [apply grows_refl|intros Hx; discriminate Hx]|].
    apply fwp_bindr. apply fwp_lock. intros [_|e|p]; try (split; [apply grows_refl|intros Hx; discriminate Hx]).
    apply wp_bind. apply fwp_owns. intros s1 r1 G1 O1.
    apply wp_bind. apply fwp_unlock. apply fwp_bindr. cbn [lift wp].
    destruct r1 as [[|]|e|p]; try (split; [exact G1|intros Hx; discriminate Hx]).
    - cbn [wp ok]. split; [exact G1|intros _ Ha; apply O1; [reflexivity|exact Ha]].
    - eapply wp_mono; [|apply IH]. intros s2 r2 [G2 O2]. split; [eapply grows_trans; eassumption|].
      intros Hr Ha. apply O2; [exact Hr|]. destruct G1 as [_ [_ [_ [G4 _]]]]. rewrite G4. exact Ha.
  Qed.

  Lemma w_owns_any_value : forall vs s, wp step (owns_any_value vs) s (fun s' r => grows s s' /\ (r = Ok true -> f_asked s = true -> f_owned_value s' = true)).
  Proof.
    induction vs as [|v r IH]; intros s; cbn [owns_any_value]; [split; [apply grows_refl|intros Hx; discriminate Hx]|].
    apply fwp_bindr. cbn [lift wp]. destruct (get_id v) as [id|e|p]; try (split; [apply grows_refl|intros Hx; discriminate Hx]).
    apply fwp_bindr. apply fwp_lock. intros [_|e|p]; try (split; [apply grows_refl|intros Hx; discriminate Hx]).
    apply wp_bind. apply fwp_owns. intros s1 r1 G1 O1.
    apply wp_bind. apply fwp_unlock. apply fwp_bindr. cbn [lift wp].
    destruct r1 as [[|]|e|p]; try (split; [exact G1|intros Hx; discriminate Hx]).
    - cbn [wp ok]. split; [exact G1|intros _ Ha; apply O1; [reflexivity|exact Ha]].
    - eapply wp_mono; [|apply IH]. intros s2 r2 [G2 O2]. split; [eapply grows_trans; eassumption|].
      intros Hr Ha. apply O2; [exact Hr|]. destruct G1 as [_ [_ [_ [G4 _]]]]. rewrite G4. exact Ha.
  Qed.

  Lemma w_has_values : forall fuel box v s,
    wp step (has_forwarding_values fuel box v) s (fun s' r => grows s s' /\ (r = Ok true -> f_asked s = true -> f_owned_value s' = true)).
  Proof.
    induction fuel as [|f IH]; intros box v s; cbn [has_forwarding_values]; [split; [apply grows_refl|intros Hx; discriminate Hx]|].
    destruct (forwarding_values v) as [types iris].
    apply fwp_bindr. eapply wp_mono; [|apply w_owns_any]. intros s1 [[|]|e|p] [G1 O1]; try (split; [exact G1|intros Hx; discriminate Hx]).
    { cbn [wp ok]. split; [exact G1|intros _ Ha; apply O1; [reflexivity|exact Ha]]. }
    apply fwp_bindr. eapply wp_mono; [|apply w_owns_any_value]. intros s2 [[|]|e|p] [G2 O2]; try (split; [eapply grows_trans; eassumption|intros Hx; discriminate Hx]).
    { cbn [wp ok]. split; [eapply grows_trans; eassumption|]. intros _ Ha. apply O2; [reflexivity|]. destruct G1 as [_ [_ [_ [G4 _]]]]. rewrite G4. exact Ha. }
    assert (G12 : grows s s2) by (eapply grows_trans; eassumption).
    apply fwp_bindr. apply inert_frame; [apply q_fetch_for_forwarding; reflexivity|].
    intros [fetched|e|p]; try (split; [exact G12|intros Hx; discriminate Hx]).
    generalize (types ++ fetched). intros l. clear O2 G2. revert s2 G12.
    induction l as [|x r IHl]; intros s2 G12; [split; [exact G12|intros Hx; discriminate Hx]|].
    apply fwp_bindr. eapply wp_mono; [|apply IH]. intros s3 [[|]|e|p] [G3 O3]; try (split; [eapply grows_trans; eassumption|intros Hx; discriminate Hx]).
    - cbn [wp ok]. split; [eapply grows_trans; eassumption|]. intros _ Ha. apply O3; [reflexivity|]. destruct G12 as [_ [_ [_ [G4 _]]]]. rewrite G4. exact Ha.
    - apply IHl. eapply grows_trans; eassumption.
  Qed.

  (* before the value search Owns answers leave the state alone *)
  Lemma w_my_iris : forall l s, f_asked s = false -> wp step (my_iris l) s (fun s' _ => s' = s).
  Proof.
    induction l as [|i r IH]; intros s Ha; cbn [my_iris]; [reflexivity|].
    apply fwp_bindr. apply fwp_lock. intros [_|e|p]; try reflexivity.
    apply wp_bind. unfold db_bool, db, call. cbn [bind wp map]. intros x.
    change (fwd_step a s (EDb "Owns" [canon (JStr i)]) x) with
      (match x with
       | ABool true => if f_asked s then Some {| f_exists := f_exists s; f_created := f_created s; f_cols := f_cols s; f_asked := true;
                                                 f_owned_value := true; f_filter := f_filter s; f_sent := f_sent s |} else Some s
       | _ => Some s end).
    rewrite Ha.
    assert (Hk : forall (rb : res bool), wp step (unlock i;;; (owns <-? lift rb;; more <-? my_iris r;; ok (if owns then i :: more else more))) s (fun s' _ => s' = s)).
    { intros rb. apply wp_bind. apply fwp_unlock. apply fwp_bindr. cbn [lift wp]. destruct rb as [owns|e|p]; try reflexivity.
      apply fwp_bindr. eapply wp_mono; [|apply IH; exact Ha]. intros s' [more|e|p] ->; reflexivity. }
    destruct x; try destruct b; cbn [wp ok fail]; apply Hk.
  Qed.

  Definition cols_only (s s' : fstate) : Prop :=
    f_exists s' = f_exists s /\ f_created s' = f_created s /\ f_asked s' = f_asked s /\
    f_owned_value s' = f_owned_value s /\ f_filter s' = f_filter s /\ f_sent s' = f_sent s.
  Lemma cols_only_refl s : cols_only s s. Proof. unfold cols_only. tauto. Qed.
  Lemma cols_only_trans s1 s2 s3 : cols_only s1 s2 -> cols_only s2 s3 -> cols_only s1 s3.
  Proof. unfold cols_only. intros [A1 [A2 [A3 [A4 [A5 A6]]]]] [B1 [B2 [B3 [B4 [B5 B6]]]]]. repeat split; congruence. Qed.

  Lemma w_load : forall l deferred cols s, f_asked s = false -> f_cols s = cols ->
    wp step (load_collections l deferred cols) s
       (fun s' r => cols_only s s' /\ match fst r with Ok cols' => f_cols s' = cols' | _ => True end).
  Proof.
    induction l as [|i r IH]; intros deferred cols s Ha Hc; cbn [load_collections]; [cbn [wp ret fst]; split; [apply cols_only_refl|exact Hc]|].
    apply wp_bind. apply fwp_lock. intros [_|e|p]; cbn [wp ret fst]; try (split; [apply cols_only_refl|exact I]).
    apply wp_bind. unfold db_json, db, call. cbn [bind wp map]. intros x.
    change (fwd_step a s (EDb "Get" [canon (JStr i)]) x) with
      (match x with
       | AJson t => if is_collection_value t && negb (f_asked s) then
              Some {| f_exists := f_exists s; f_created := f_created s; f_cols := f_cols s ++ [(i, t)]; f_asked := f_asked s;
                      f_owned_value := f_owned_value s; f_filter := f_filter s; f_sent := f_sent s |} else Some s
       | _ => Some s end).
    destruct x; cbn [wp ok fail]; try (apply wp_bind; apply fwp_unlock; cbn [wp ret fst]; split; [apply cols_only_refl|exact I]).
    rewrite Ha. cbn [negb]. rewrite andb_true_r. fold (is_collection_value j).
    destruct (is_collection_value j) eqn:Ec.
    - cbn [wp]. eapply wp_mono; [|apply IH; [reflexivity|cbn [f_cols]; rewrite Hc; reflexivity]].
      intros s' r' [C1 C2]. split; [|exact C2]. unfold cols_only in *. cbn in C1. rewrite Ha. exact C1.
    - cbn [wp]. apply wp_bind. apply fwp_unlock. apply IH; assumption.
  Qed.

  Lemma w_unlock_all : forall l s (Q : fstate -> unit -> Prop), Q s tt -> wp step (unlock_all l) s Q.
  Proof. induction l as [|i r IH]; intros s Q H; cbn [unlock_all]; [exact H|]. apply wp_bind. apply fwp_unlock. apply IH. exact H. Qed.

  Lemma map_canon_ids (cols : list (string * json)) : map canon (map (fun c => JStr (fst c)) cols) = map (fun c => JStr (fst c)) cols.
  Proof. induction cols as [|c r IH]; [reflexivity|]. simpl. rewrite IH. reflexivity. Qed.

  Theorem fwd_inbox_forwarding inbox : wp step (inbox_forwarding inbox a) f0 (fun _ _ => True).
  Proof.
    unfold inbox_forwarding.
    apply fwp_bindr. apply fwp_lock. intros [_|e|p]; try exact I.
    apply wp_bind. unfold db_bool, db, call. cbn [bind wp map]. intros x.
    change (fwd_step a f0 (EDb "Exists" [canon (JStr (id_str a))]) x) with
      (Some {| f_exists := match x with ABool b => Some b | _ => Some true end; f_created := 0; f_cols := []; f_asked := false;
               f_owned_value := false; f_filter := None; f_sent := false |}).
    cbn iota.
    destruct x; cbn [wp ok fail]; try (apply wp_bind; apply fwp_unlock; exact I).
    destruct b; [apply wp_bind; apply fwp_unlock; exact I|].
    apply wp_bind. unfold db_unit, db, call. cbn [bind wp map]. intros y.
    change (fwd_step a ?s (EDb "Create" [canon a]) y) with
      (match f_exists s, f_created s with
       | Some false, 0 => if jeqb (canon a) (canon a) then
              Some {| f_exists := f_exists s; f_created := match y with AOk => 1 | _ => 2 end; f_cols := f_cols s; f_asked := f_asked s;
                      f_owned_value := f_owned_value s; f_filter := f_filter s; f_sent := f_sent s |} else None
       | _, _ => None end).
    cbn [f_exists f_created f_cols f_asked f_owned_value f_filter f_sent]. rewrite jeqb_refl.
    destruct y; cbn [wp ok fail]; apply wp_bind; apply fwp_unlock; apply fwp_bindr; cbn [lift wp]; try exact I.
    set (s1 := {| f_exists := Some false; f_created := 1; f_cols := []; f_asked := false; f_owned_value := false; f_filter := None; f_sent := false |}).
    apply fwp_bindr. cbn [lift wp]. destruct (ids_of "to" a) as [to|e|p]; try exact I.
    apply fwp_bindr. cbn [lift wp]. destruct (ids_of "cc" a) as [cc|e|p]; try exact I.
    apply fwp_bindr. cbn [lift wp]. destruct (ids_of "audience" a) as [au|e|p]; try exact I.
    apply fwp_bindr. eapply wp_mono; [|apply w_my_iris; reflexivity]. intros s' [mine|e|p] ->; try exact I.
    apply wp_bind. eapply wp_mono; [|apply (w_load (sort_strings (dedupe_iris mine [])) [] [] s1); reflexivity].
    intros s2 [rcols deferred] [C2 L2]. cbn [fst] in L2.
    apply wp_bind.
    assert (Hend : forall s (r : res unit), wp step (unlock_all (rev deferred);;; ret r) s (fun _ _ => True)).
    { intros s r. apply wp_bind. apply w_unlock_all. exact I. }
    apply fwp_bindr. cbn [lift wp]. destruct rcols as [cols|e|p]; try apply Hend.
    destruct cols as [|c0 cols'] eqn:Ecols; [cbn [wp ok]; apply Hend|]. rewrite <- Ecols in *.
    destruct C2 as [X1 [X2 [X3 [X4 [X5 X6]]]]]. cbn in X1, X2, X3, X4, X5, X6.
    apply wp_bind. unfold app, call. cbn [bind wp map]. intros dx.
    change (fwd_step a s2 (EApp "MaxInboxForwardingRecursionDepth" []) dx) with
      (match f_cols s2 with [] => None | _ => Some {| f_exists := f_exists s2; f_created := f_created s2; f_cols := f_cols s2; f_asked := true;
                                                      f_owned_value := f_owned_value s2; f_filter := f_filter s2; f_sent := f_sent s2 |} end).
    rewrite L2, Ecols. cbn iota. rewrite <- Ecols. cbn [wp ret].
    set (s3 := {| f_exists := f_exists s2; f_created := f_created s2; f_cols := cols; f_asked := true; f_owned_value := f_owned_value s2; f_filter := f_filter s2; f_sent := f_sent s2 |}).
    apply fwp_bindr. eapply wp_mono; [|apply w_has_values].
    intros s4 [owns_value|e|p] [G4 O4]; try apply Hend.
    destruct owns_value; cbn [negb]; [|cbn [wp ok]; apply Hend].
    specialize (O4 eq_refl eq_refl). destruct G4 as [Y1 [Y2 [Y3 [Y4 [Y5 [Y6 Y7]]]]]]. cbn in Y1, Y2, Y3, Y4, Y5, Y6.
    intros fx.
    change (fwd_step a s4 (EApp "FilterForwarding" [canon (JArr (map (fun c => JStr (fst c)) cols)); canon a]) fx) with
      (if f_owned_value s4 && jsons_eqb [canon (JArr (map (fun c => JStr (fst c)) cols)); canon a] [JArr (map (fun c => JStr (fst c)) (f_cols s4)); canon a]
       then Some {| f_exists := f_exists s4; f_created := f_created s4; f_cols := f_cols s4; f_asked := f_asked s4;
                    f_owned_value := f_owned_value s4; f_filter := match fx with AIris l => Some l | _ => None end; f_sent := f_sent s4 |} else None).
    rewrite O4, Y3. cbn [canon andb jsons_eqb]. rewrite map_canon_ids, !jeqb_refl. cbn [andb wp ret].
    destruct fx; cbn [wp fail]; try apply Hend.
    apply fwp_bindr. cbn [lift wp]. destruct (forwarding_recipients l cols) as [rcpts|e|p] eqn:Er; try apply Hend.
    unfold deliver_to_recipients. apply fwp_bindr. unfold new_transport, call. cbn [bind wp fwd_step]. intros nt.
    destruct nt; cbn [wp ok fail]; try apply Hend.
    unfold batch_deliver, call. cbn [bind wp]. intros bx.
    change (fwd_step a ?s (EBatchDeliver (canon (streams_serialize a)) rcpts) bx) with
      (match f_filter s with
       | Some to_send =>
          if Nat.eqb (f_created s) 1 && negb (f_sent s) && jeqb (canon (streams_serialize a)) (canon (streams_serialize a)) &&
             match forwarding_recipients to_send (f_cols s) with Ok want => list_eqb rcpts want | _ => false end
          then Some {| f_exists := f_exists s; f_created := f_created s; f_cols := f_cols s; f_asked := f_asked s;
                       f_owned_value := f_owned_value s; f_filter := f_filter s; f_sent := true |} else None
       | None => None end).
    cbn [f_filter f_created f_sent f_cols]. rewrite Y2, Y6, Er. rewrite X2, X6.
    rewrite jeqb_refl. assert (Hl : list_eqb rcpts rcpts = true) by (apply list_eqb_eq; reflexivity). rewrite Hl. cbn [Nat.eqb negb andb].
    destruct bx; cbn [wp ok fail]; apply Hend.
  Qed.
End Fwd.

(* ---- what acceptance by fwd_step means for a whole trace ---- *)
Definition finv (s : fstate) : Prop :=
  (f_asked s = true -> f_cols s <> []) /\ (f_owned_value s = true -> f_asked s = true) /\
  (f_filter s <> None -> f_owned_value s = true) /\ (f_sent s = true -> f_created s = 1 /\ f_owned_value s = true) /\
  (f_created s <> 0 -> f_exists s = Some false).

Lemma finv_f0 : finv f0.
Proof. unfold finv, f0; cbn. repeat split; intros; try discriminate; congruence. Qed.

Lemma finv_step a s e x s' : finv s -> fwd_step a s e x = Some s' -> finv s'.
Proof.
  intros Hi H.
  assert (Hsame : Some s = Some s' -> finv s') by (intros E; inversion E; subst s'; exact Hi).
  destruct Hi as [I1 [I2 [I3 [I4 I5]]]].
  Ltac fin H := inversion H; subst; unfold finv; cbn; intuition (try congruence; try discriminate).
  destruct e as [i|i|op args|b|i|p r|nm args|n|k v|b|]; simpl in H; try (apply Hsame; exact H).
  - destruct (String.eqb op "Exists").
    { destruct (f_exists s) eqn:Ee; [discriminate|]. fin H. }
    destruct (String.eqb op "Create").
    { destruct args as [|v [|]]; try discriminate. destruct (f_exists s) as [[|]|] eqn:Ee; try discriminate. destruct (f_created s) eqn:Ec; try discriminate.
      destruct (jeqb v (canon a)); [|discriminate]. fin H. }
    destruct (String.eqb op "Get").
    { destruct args as [|[] [|]]; try (apply Hsame; exact H). destruct x; try (apply Hsame; exact H).
      destruct (is_collection_value j && negb (f_asked s)) eqn:Eb; [|apply Hsame; exact H].
      assert (Hne : f_cols s ++ [(s0, j)] <> []) by (destruct (f_cols s); discriminate). fin H. }
    destruct (String.eqb op "Owns").
    { destruct x; try (apply Hsame; exact H). destruct b; [|apply Hsame; exact H].
      destruct (f_asked s) eqn:Ea; [|apply Hsame; exact H]. fin H. }
    destruct (_ || _); [discriminate|]. apply Hsame; exact H.
  - destruct (f_filter s) as [ts|] eqn:Ef; [|discriminate]. destruct (_ && _) eqn:Eb; [|discriminate].
    assert (Hc : f_created s = 1).
    { apply andb_true_iff in Eb. destruct Eb as [Eb _]. apply andb_true_iff in Eb. destruct Eb as [Eb _]. apply andb_true_iff in Eb. destruct Eb as [Eb _].
      apply Nat.eqb_eq in Eb. exact Eb. }
    assert (Ho : f_owned_value s = true) by (apply I3; congruence).
    fin H.
  - destruct (String.eqb nm "MaxInboxForwardingRecursionDepth").
    { destruct (f_cols s) eqn:Ec; [discriminate|]. fin H. }
    destruct (String.eqb nm "FilterForwarding"); [|apply Hsame; exact H].
    destruct (f_owned_value s && _) eqn:Eb; [|discriminate]. apply andb_true_iff in Eb. destruct Eb as [Eo _]. fin H.
Qed.

Lemma finv_run a : forall tr s s', finv s -> run_monitor (fwd_step a) s tr = Some s' -> finv s'.
Proof.
  induction tr as [|[e x] tr IH]; intros s s' Hi H; simpl in H; [inversion H; subst; exact Hi|].
  destruct (fwd_step a s e x) as [s1|] eqn:E; [|discriminate]. eapply IH; [eapply finv_step; eassumption|exact H].
Qed.

(* forwarded only if: not seen before, recorded now, an owned collection was addressed, an owned value was found, the filter was asked *)
Theorem fwd_only_if a tr s : run_monitor (fwd_step a) f0 tr = Some s -> f_sent s = true ->
  f_exists s = Some false /\ f_created s = 1 /\ f_cols s <> [] /\ f_owned_value s = true.
Proof.
  intros H Hs. destruct (finv_run a tr f0 s finv_f0 H) as [I1 [I2 [I3 [I4 I5]]]].
  destruct (I4 Hs) as [Hc Ho]. assert (Ha := I2 Ho).
  split; [apply I5; rewrite Hc; discriminate|]. split; [exact Hc|]. split; [apply I1; exact Ha|exact Ho].
Qed.

Definition is_fwd_batch (p : ev * ans) : bool := match fst p with EBatchDeliver _ _ => true | _ => false end.
Definition is_create (p : ev * ans) : bool := match fst p with EDb op _ => String.eqb op "Create" | _ => false end.

(* once: at most one hand-over and at most one Create per accepted trace *)
Theorem fwd_once a : forall tr s s', run_monitor (fwd_step a) s tr = Some s' ->
  length (filter is_fwd_batch tr) + (if f_sent s then 1 else 0) <= 1 /\
  length (filter is_create tr) + (if Nat.eqb (f_created s) 0 then 0 else 1) <= 1.
Proof.
  induction tr as [|[e x] tr IH]; intros s s' H; simpl in H.
  - simpl. destruct (f_sent s), (Nat.eqb (f_created s) 0); lia.
  - destruct (fwd_step a s e x) as [s1|] eqn:E; [|discriminate]. destruct (IH s1 s' H) as [IH1 IH2]. clear IH H.
    cbn [filter]. unfold is_fwd_batch at 1, is_create at 1. cbn [fst].
    destruct e as [i|i|op args|b|i|p r|nm args|n|k v|b|]; simpl in E; try (inversion E; subst s1; split; assumption).
    + destruct (String.eqb op "Exists") eqn:E1.
      { assert (String.eqb op "Create" = false) as -> by (apply String.eqb_eq in E1; subst op; reflexivity).
        destruct (f_exists s); [discriminate|]. inversion E; subst s1. cbn in IH1, IH2. split; assumption. }
      destruct (String.eqb op "Create") eqn:E2.
      { destruct args as [|v [|]]; try discriminate. destruct (f_exists s) as [[|]|]; try discriminate. destruct (f_created s) eqn:Ec; try discriminate.
        destruct (jeqb v (canon a)); [|discriminate]. inversion E; subst s1. cbn in IH1, IH2. split; [exact IH1|].
        cbn [length]. destruct x; simpl in *; lia. }
      destruct (String.eqb op "Get").
      { destruct args as [|[] [|]]; try (inversion E; subst s1; split; assumption). destruct x; try (inversion E; subst s1; split; assumption).
        destruct (_ && _); inversion E; subst s1; cbn in IH1, IH2; split; assumption. }
      destruct (String.eqb op "Owns").
      { destruct x; try (inversion E; subst s1; split; assumption). destruct b; [|inversion E; subst s1; split; assumption].
        destruct (f_asked s); inversion E; subst s1; cbn in IH1, IH2; split; assumption. }
      destruct (_ || _); [discriminate|]. inversion E; subst s1. split; assumption.
    + destruct (f_filter s); [|discriminate]. destruct (Nat.eqb (f_created s) 1 && negb (f_sent s) && _ && _) eqn:Eb; [|discriminate].
      inversion E; subst s1. cbn in IH1, IH2.
      assert (Hs : f_sent s = false).
      { apply andb_true_iff in Eb. destruct Eb as [Eb _]. apply andb_true_iff in Eb. destruct Eb as [Eb _]. apply andb_true_iff in Eb. destruct Eb as [_ Eb].
        destruct (f_sent s); [discriminate|reflexivity]. }
      rewrite Hs. cbn [length]. split; [lia|exact IH2].
    + destruct (String.eqb nm "MaxInboxForwardingRecursionDepth").
      { destruct (f_cols s); [discriminate|]. inversion E; subst s1. cbn in IH1, IH2. split; assumption. }
      destruct (String.eqb nm "FilterForwarding"); [|inversion E; subst s1; split; assumption].
      destruct (_ && _); [|discriminate]. inversion E; subst s1. cbn in IH1, IH2. split; assumption.
Qed.
