From Coq Require Import String List Bool.
From Verif Require Import Base.ListX Streams.Slot.
Import ListNotations.
Open Scope string_scope.

Section P.
  Variable V : Type.
  Variable cl : list string.

  Definition fields (s : st V) : list string := map fst s.

  Lemma fields_clear s : fields (clear V cl s) = fields s.
  Proof. unfold fields, clear. rewrite map_map. apply map_ext. intros [f v]. simpl. destruct (mem f cl); reflexivity. Qed.
  Lemma fields_assign f v s : fields (assign V f v s) = fields s.
  Proof. unfold fields, assign. rewrite map_map. apply map_ext. intros [g w]. simpl. destruct (String.eqb g f); reflexivity. Qed.

  Lemma get_clear f s : mem f cl = true -> get V f (clear V cl s) = None.
  Proof.
    intros Hm. unfold get, clear. induction s as [|[g w] r IH]; simpl; [reflexivity|].
    destruct (mem g cl) eqn:E; simpl; destruct (String.eqb f g) eqn:Ef; try exact IH; try reflexivity.
    apply String.eqb_eq in Ef. subst. congruence.
  Qed.

  Lemma get_assign f v g s : In g (fields s) ->
    get V g (assign V f v s) = if String.eqb g f then Some v else get V g s.
  Proof.
    unfold get, assign, fields. induction s as [|[h w] r IH]; simpl; [intros []|].
    intros Hin. destruct (String.eqb h f) eqn:Ehf; simpl.
    - destruct (String.eqb g h) eqn:Egh.
      + apply String.eqb_eq in Egh, Ehf. subst. rewrite String.eqb_refl. reflexivity.
      + destruct Hin as [Hin|Hin]; [subst; rewrite String.eqb_refl in Egh; discriminate|]. apply IH. exact Hin.
    - destruct (String.eqb g h) eqn:Egh.
      + apply String.eqb_eq in Egh. subst. rewrite Ehf. reflexivity.
      + destruct Hin as [Hin|Hin]; [subst; rewrite String.eqb_refl in Egh; discriminate|]. apply IH. exact Hin.
  Qed.

  (* table obligation: clear() resets every representation slot *)
  Definition all_cleared (s : st V) : Prop := forall f, In f (fields s) -> mem f cl = true.

  Theorem set_reports_only_itself s f v g : all_cleared s -> In f (fields s) -> In g (fields s) ->
    get V g (set_slot V cl f v s) = if String.eqb g f then Some v else None.
  Proof.
    intros Hc Hf Hg. unfold set_slot. rewrite get_assign by (rewrite fields_clear; exact Hg).
    destruct (String.eqb g f); [reflexivity|]. apply get_clear. apply Hc. exact Hg.
  Qed.

  Theorem clear_reports_nothing s g : all_cleared s -> In g (fields s) -> get V g (clear V cl s) = None.
  Proof. intros Hc Hg. apply get_clear. apply Hc. exact Hg. Qed.

  Lemma fields_step s o : fields (sstep V cl s o) = fields s.
  Proof. destruct o; simpl; [unfold set_slot; rewrite fields_assign, fields_clear|rewrite fields_clear]; reflexivity. Qed.

  Lemma fields_fold ops : forall s, fields (fold_left (sstep V cl) ops s) = fields s.
  Proof. induction ops as [|o r IH]; intros s; simpl; [reflexivity|]. rewrite IH. apply fields_step. Qed.

  (* after any non-empty history of set / clear operations exactly the last-set slot (or none) is reported *)
  Theorem history_single_slot ops s g : ops <> [] -> all_cleared s -> In g (fields s) ->
    (forall f v, In (SSet V f v) ops -> In f (fields s)) ->
    get V g (fold_left (sstep V cl) ops s) =
      match last_set V ops with Some (f, v) => if String.eqb g f then Some v else None | None => None end.
  Proof.
    intros Hne Hc Hg Hin. destruct (exists_last Hne) as [pre [o Eo]]. subst ops.
    rewrite fold_left_app. simpl. unfold last_set. rewrite rev_app_distr. simpl.
    set (s' := fold_left (sstep V cl) pre s).
    assert (Fs : fields s' = fields s) by apply fields_fold.
    assert (Hc' : all_cleared s') by (unfold all_cleared; rewrite Fs; exact Hc).
    destruct o as [f v|]; simpl.
    - apply set_reports_only_itself; [exact Hc'| |rewrite Fs; exact Hg].
      rewrite Fs. apply (Hin f v). apply in_or_app. right. left. reflexivity.
    - apply clear_reports_nothing; [exact Hc'|rewrite Fs; exact Hg].
  Qed.
End P.
