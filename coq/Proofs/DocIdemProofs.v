(* C01, idempotence at the level of the document function rt_doc (what rt_shipped instantiates): type_of_doc picks the row,
   the top-level @context is removed, rt_type runs, clean_maps deletes @context from every map reached through maps.
   rt_doc n d = Some d1 -> rt_doc n d1 = Some d1 under the hypotheses of roundtrip_idempotent plus what the wrapper needs:
   two decidable table conditions, fuel <= 16 (the depth clean_maps reaches) and a condition on nested @context members
   (cgood): an object given for a known property that cannot be an embedded typed value (its chain names no type) carries
   no @context - the one corner where the model is NOT idempotent (context_in_language_map_not_idempotent). *)
From Coq Require Import String List Bool Arith ZArith Lia.
From Verif Require Import Base.ListX Base.Json Vocab.Tables Gen.TablesShipped Streams.Literals Streams.Codec Streams.CodecInst.
From Verif Require Import Proofs.CodecProofs Proofs.IdemProofs Proofs.TimeIdemProofs.
Import ListNotations.
Open Scope nat_scope.
Open Scope string_scope.
Open Scope list_scope.

Notation present o := (match o with Some _ => true | None => false end).

(* ---------- clean_maps as a map over the members ---------- *)
Definition K (c : nat) (m : list (string * json)) : list (string * json) := clean_maps c (remove_key "@context" m).
Definition cv (c : nat) (v : json) : json := match c with O => v | S c' => match v with JObj n => JObj (K c' n) | _ => v end end.
Definition cvm (c : nat) (kv : string * json) : string * json := (fst kv, cv c (snd kv)).

Lemma clean_maps_map c l : clean_maps c l = map (cvm c) l.
Proof.
  destruct c as [|c'].
  - cbn [clean_maps]. induction l as [|[k v] r IH]; [reflexivity|]. cbn [map]. rewrite <- IH. reflexivity.
  - cbn [clean_maps]. apply map_ext. intros [k v]. destruct v; reflexivity.
Qed.
Lemma remove_key_map c x l : remove_key x (map (cvm c) l) = map (cvm c) (remove_key x l).
Proof.
  induction l as [|[k v] r IH]; [reflexivity|]. cbn [map remove_key cvm fst snd]. destruct (String.eqb x k); [exact IH|].
  cbn [map cvm fst snd]. rewrite IH. reflexivity.
Qed.
Lemma K_map c m : K c m = map (cvm c) (remove_key "@context" m).
Proof. unfold K. apply clean_maps_map. Qed.

Lemma In_remove_key x (l : list (string * json)) kv : In kv (remove_key x l) <-> In kv l /\ fst kv <> x.
Proof.
  induction l as [|[k v] r IH]; cbn [remove_key In]; [tauto|]. destruct (String.eqb x k) eqn:E.
  - apply String.eqb_eq in E. subst k. rewrite IH. split; [tauto|]. intros [[H|H] Hne]; [subst kv; cbn in Hne; congruence|tauto].
  - apply String.eqb_neq in E. cbn [In]. rewrite IH. split; [intros [H|H]; [subst kv; cbn; split; [tauto|congruence]|tauto]|tauto].
Qed.
Lemma remove_key_absent x (l : list (string * json)) : assoc x l = None -> remove_key x l = l.
Proof.
  induction l as [|[k v] r IH]; [reflexivity|]. cbn [assoc remove_key]. destruct (String.eqb x k); [discriminate|]. intros H. rewrite (IH H). reflexivity.
Qed.
Lemma assoc_remove_key x k (l : list (string * json)) : k <> x -> assoc k (remove_key x l) = assoc k l.
Proof.
  intros Hne. induction l as [|[k' v] r IH]; [reflexivity|]. cbn [assoc remove_key]. destruct (String.eqb x k') eqn:E.
  - apply String.eqb_eq in E. subst k'. destruct (String.eqb k x) eqn:E2; [apply String.eqb_eq in E2; congruence|exact IH].
  - cbn [assoc]. rewrite IH. reflexivity.
Qed.
Lemma assoc_remove_same x (l : list (string * json)) : assoc x (remove_key x l) = None.
Proof. apply assoc_None_notin. intros kv H. apply In_remove_key in H. tauto. Qed.
Lemma assoc_map_cvm c k l : assoc k (map (cvm c) l) = option_map (cv c) (assoc k l).
Proof. induction l as [|[k' v] r IH]; [reflexivity|]. cbn [map cvm fst snd assoc]. destruct (String.eqb k k'); [reflexivity|exact IH]. Qed.
Lemma assoc_K c k m : k <> "@context" -> assoc k (K c m) = option_map (cv c) (assoc k m).
Proof. intros H. rewrite K_map, assoc_map_cvm, assoc_remove_key by exact H. reflexivity. Qed.
Lemma In_K c kv m : In kv (K c m) <-> exists v, In (fst kv, v) m /\ snd kv = cv c v /\ fst kv <> "@context".
Proof.
  rewrite K_map, in_map_iff. split.
  - intros [[k v] [E H]]. apply In_remove_key in H. destruct H as [H Hne]. subst kv. exists v. cbn [cvm fst snd] in *. tauto.
  - intros [v [H [E Hne]]]. exists (fst kv, v). split; [destruct kv as [k w]; cbn [cvm fst snd] in *; subst w; reflexivity|].
    apply In_remove_key. split; [exact H|exact Hne].
Qed.

Lemma type_matches_cv c name tv : type_matches name (cv c tv) = type_matches name tv.
Proof. destruct c; [reflexivity|]. destruct tv; reflexivity. Qed.
Lemma tmatch_K c name m : tmatch name (K c m) = tmatch name m.
Proof. unfold tmatch. rewrite assoc_K by discriminate. destruct (assoc "type" m); [apply type_matches_cv|reflexivity]. Qed.

(* cleaning twice is cleaning once *)
Lemma K_idem c : forall m, K c (K c m) = K c m.
Proof.
  induction c as [|c IH]; intros m.
  - rewrite !K_map, remove_key_map, map_map. rewrite (remove_key_absent _ _ (assoc_remove_same "@context" m)).
    apply map_ext. intros [k v]. reflexivity.
  - rewrite !K_map, remove_key_map, map_map. rewrite (remove_key_absent _ _ (assoc_remove_same "@context" m)).
    apply map_ext. intros [k v]. unfold cvm. cbn [fst snd]. f_equal. destruct v; try reflexivity. cbn [cv]. rewrite IH. reflexivity.
Qed.
Lemma clean_K c m : clean_maps c (K c m) = K c m.
Proof.
  pose proof (K_idem c m) as H. unfold K at 1 in H. rewrite remove_key_absent in H; [exact H|].
  rewrite assoc_None_notin; [reflexivity|]. intros kv Hin. apply In_K in Hin. destruct Hin as [v [_ [_ Hne]]]. exact Hne.
Qed.

(* no @context in the maps reached through maps, to depth c *)
Fixpoint ctxfree (c : nat) (m : list (string * json)) : bool :=
  negb (present (assoc "@context" m)) &&
  match c with O => true | S c' => forallb (fun kv => match snd kv with JObj n => ctxfree c' n | _ => true end) m end.
Lemma ctxfree_K c : forall m, ctxfree c m = true -> K c m = m.
Proof.
  induction c as [|c IH]; intros m H; cbn [ctxfree] in H; apply andb_true_iff in H; destruct H as [H1 H2];
    (assert (Ha : assoc "@context" m = None) by (destruct (assoc "@context" m); [discriminate|reflexivity]));
    rewrite K_map, (remove_key_absent _ _ Ha).
  - clear. induction m as [|[k v] r IHm]; [reflexivity|]. cbn [map]. unfold cvm at 1. cbn [fst snd cv]. f_equal. exact IHm.
  - rewrite forallb_forall in H2. clear H1 Ha. induction m as [|[k v] r IHm]; [reflexivity|]. cbn [map]. f_equal.
    + unfold cvm. cbn [fst snd]. f_equal. destruct v; try reflexivity. cbn [cv]. f_equal. apply IH. apply (H2 (k, JObj m)). left. reflexivity.
    + apply IHm. intros x Hx. apply H2. right. exact Hx.
Qed.

Lemma not_context_map pn : String.append pn "Map" <> "@context".
Proof.
  intros H. destruct pn as [|c1 [|c2 [|c3 [|c4 [|c5 [|c6 r]]]]]]; cbn in H; try discriminate.
  apply (f_equal String.length) in H. cbn [String.append String.length] in H. rewrite str_len_app in H. cbn in H. lia.
Qed.

Section DocIdem.
  Variable T : list type_row.
  Variable P : list prop_row.
  Variable url_ok : string -> bool.
  Variable norm_iri : string -> string.
  Variable norm : string -> json -> option json.
  Hypothesis CS : codec_stable T P url_ok norm_iri norm.
  Hypothesis TOK : forall r, In r T -> row_ok P r = true.

  Notation rt_type := (rt_type T P url_ok norm_iri norm).
  Notation rt_elem := (rt_elem T url_ok norm_iri norm).
  Notation rt_prop := (rt_prop T url_ok norm_iri norm).
  Notation rt_member := (rt_member T P url_ok norm_iri norm).
  Notation try_chain := (try_chain T norm).
  Notation trow := (trow T).
  Notation prop_of_key := (prop_of_key P).
  Notation good := (good T P).
  Notation good_elem := (good_elem T P).
  Notation good_val := (good_val T P).

  (* the chain of the property can decode an embedded typed value *)
  Definition has_tk (p : prop_row) : bool := existsb (fun k => negb (is_literal_kind k) && present (trow k)) (p_deser p).
  Lemma has_tk_intro p k r : In k (p_deser p) -> is_literal_kind k = false -> trow k = Some r -> has_tk p = true.
  Proof. intros Hk Hl Ht. unfold has_tk. apply existsb_exists. exists k. split; [exact Hk|]. rewrite Hl, Ht. reflexivity. Qed.
  Lemma has_tk_elim p : has_tk p = true -> exists k r, In k (p_deser p) /\ is_literal_kind k = false /\ trow k = Some r.
  Proof.
    unfold has_tk. intros H. apply existsb_exists in H. destruct H as [k [Hk H]]. apply andb_true_iff in H. destruct H as [H1 H2].
    apply negb_true_iff in H1. destruct (trow k) as [r|] eqn:E; [|discriminate]. exists k, r. tauto.
  Qed.

  (* tables (decidable): no property is called @context; a property with a Map spelling cannot hold an embedded typed value *)
  Hypothesis NOCTX : forall p, In p P -> p_name p <> "@context".
  Hypothesis TKM : forall p, In p P -> has_tk p = true -> p_has_map p = false.

  (* documents: an object given directly (or as the only entry of a list) for a known property carries no @context through its
     maps, unless the property's chain can decode typed values - then the same holds inside it, for the rows of the chain *)
  Fixpoint cgood (c f : nat) (row : type_row) (m : list (string * json)) {struct f} : bool :=
    match f with
    | O => true
    | S f' =>
      match c with
      | O => true
      | S c' =>
        forallb (fun kv =>
          match prop_of_key row (fst kv) with
          | None => true
          | Some (p, _) =>
              let ce := fun e => match e with
                                 | JObj em => (ctxfree c' em || has_tk p) &&
                                              forallb (fun k => match trow k with Some r => cgood c' f' r em | None => true end) (p_deser p)
                                 | _ => true
                                 end in
              if p_functional p then ce (snd kv)
              else match snd kv with JArr [e] => ce e | JArr _ => true | x => ce x end
          end) m
      end
    end.
  Definition cge (c' f' : nat) (p : prop_row) (e : json) : bool :=
    match e with
    | JObj em => (ctxfree c' em || has_tk p) && forallb (fun k => match trow k with Some r => cgood c' f' r em | None => true end) (p_deser p)
    | _ => true
    end.
  Definition cgval (c' f' : nat) (p : prop_row) (v : json) : bool :=
    if p_functional p then cge c' f' p v else match v with JArr [e] => cge c' f' p e | JArr _ => true | x => cge c' f' p x end.
  Lemma cgood_S c' f' row m : cgood (S c') (S f') row m = true ->
    forall k v p b, In (k, v) m -> prop_of_key row k = Some (p, b) -> cgval c' f' p v = true.
  Proof.
    cbn [cgood]. intros H k v p b Hin Hk. rewrite forallb_forall in H. specialize (H (k, v) Hin). cbn [fst snd] in H. rewrite Hk in H.
    unfold cgval. destruct (p_functional p); [destruct v; exact H|]. destruct v as [| | | |l|]; try exact H.
  Qed.

  Section LevelK.
    Variable f c' : nat.
    Variable rec : type_row -> list (string * json) -> option (list (string * json)).
    Hypothesis rec_idem : forall r em em', row_ok P r = true -> good f r em = true -> rec r em = Some em' -> rec r em' = Some em'.
    Hypothesis rec_tm : forall r em em', row_ok P r = true -> good f r em = true -> rec r em = Some em' ->
      forall name, tmatch name em' = tmatch name em.
    Hypothesis rec_none : forall r em, rec r em = None -> typed r em = false \/ (forall r2 m2, rec r2 m2 = None).
    Hypothesis rec_K : forall r em em', row_ok P r = true -> good f r em = true -> cgood c' f r em = true -> rec r em = Some em' ->
      rec r (K c' em') = Some (K c' em').
    Notation cvS := (cv (S c')).

    Lemma cge_obj p em : cge c' f p (JObj em) = true -> has_tk p = false -> K c' em = em.
    Proof. cbn [cge]. intros H Htk. apply andb_true_iff in H. destruct H as [H _]. rewrite Htk, orb_false_r in H. exact (ctxfree_K c' em H). Qed.
    Lemma cge_row p em k r : cge c' f p (JObj em) = true -> In k (p_deser p) -> trow k = Some r -> cgood c' f r em = true.
    Proof. cbn [cge]. intros H Hk Ht. apply andb_true_iff in H. destruct H as [_ H]. rewrite forallb_forall in H. specialize (H k Hk). rewrite Ht in H. exact H. Qed.

    (* the output of a literal kind is not changed by cleaning *)
    Lemma cv_lit p k e v : In p P -> In k (p_deser p) -> is_literal_kind k = true -> cge c' f p e = true -> norm k e = Some v -> cvS v = v.
    Proof.
      intros HP Hk Hl Hc Hn. destruct (cs_shape _ _ _ _ _ CS p k e v HP Hk Hn) as [Hv|Hv].
      - subst v. destruct e as [| | | | |em]; try reflexivity. destruct (has_tk p) eqn:Htk.
        + exfalso. destruct (has_tk_elim p Htk) as [k2 [r2 [Hk2 [Hl2 Ht2]]]].
          rewrite (cs_obj _ _ _ _ _ CS p k k2 r2 em HP Hk Hk2 Hl Hl2 Ht2) in Hn. discriminate.
        + cbn [cv]. rewrite (cge_obj p em Hc Htk). reflexivity.
      - destruct v; try reflexivity; destruct Hv.
    Qed.

    Lemma skip_cv x k : skipcond T rec x k -> skipcond T rec (cvS x) k.
    Proof.
      unfold skipcond. destruct x as [| | | | |em2]; try (intros _; exact I). cbn [cv]. destruct (trow k) as [r|] eqn:Et; [|intros _; exact I].
      rewrite tmatch_K. intros [H|H]; [left; exact H|].
      destruct (rec_none r em2 H) as [Hty|Hall]; [|right; apply Hall].
      left. unfold typed in Hty. destruct (find_row_In t_name k T r Et) as [_ Hn]. rewrite Hn in Hty. rewrite orb_comm. exact Hty.
    Qed.

    Lemma tc_clean p e : In p P -> good_elem f p e = true -> cge c' f p e = true -> forall chain, incl chain (p_deser p) ->
      try_chain rec (cvS (try_chain rec e chain)) chain = cvS (try_chain rec e chain).
    Proof.
      intros HP Hg Hc. induction chain as [|k rest IHc]; intros Hincl; [reflexivity|].
      assert (Hk : In k (p_deser p)) by (apply Hincl; left; reflexivity).
      assert (Hrest : incl rest (p_deser p)) by (intros y Hy; apply Hincl; right; exact Hy).
      specialize (IHc Hrest). pose proof (try_chain_res T norm rec p e rest Hrest) as R.
      destruct (is_literal_kind k) eqn:El.
      - destruct (norm k e) as [v|] eqn:En.
        + rewrite (tc_lit_some T norm rec e k rest v El En). rewrite (cv_lit p k e v HP Hk El Hc En).
          apply tc_lit_some; [exact El|]. exact (cs_idem _ _ _ _ _ CS p k e v HP Hk En).
        + rewrite (tc_lit_none T norm rec e k rest El En). rewrite tc_lit_none; [exact IHc|exact El|].
          destruct R as [Hx|k2 Hk2 Hl2 Hn|k2 r2 em em2 Hk2 Hl2 He Ht2 Hr2 Hx].
          * rewrite Hx. destruct e as [| | | | |em]; try exact En. cbn [cv]. destruct (has_tk p) eqn:Htk.
            -- destruct (has_tk_elim p Htk) as [k2 [r2 [Hk2 [Hl2 Ht2]]]]. exact (cs_obj _ _ _ _ _ CS p k k2 r2 _ HP Hk Hk2 El Hl2 Ht2).
            -- rewrite (cge_obj p em Hc Htk). exact En.
          * rewrite (cv_lit p k2 e _ HP Hk2 Hl2 Hc Hn). exact (cs_later _ _ _ _ _ CS p k k2 e _ HP Hk Hk2 Hn En).
          * rewrite Hx. cbn [cv]. exact (cs_obj _ _ _ _ _ CS p k k2 r2 _ HP Hk Hk2 El Hl2 Ht2).
      - assert (Hskip : skipcond T rec e k ->
                  try_chain rec (cvS (try_chain rec e (k :: rest))) (k :: rest) = cvS (try_chain rec e (k :: rest))).
        { intros Hs. rewrite (tc_obj_skip T norm rec e k rest El Hs). rewrite tc_obj_skip; [exact IHc|exact El|].
          apply skip_cv. exact (skip_second T P url_ok norm_iri norm CS TOK f rec rec_tm rec_none p e _ k HP Hg R Hs). }
        destruct e as [| | | | |em]; try (apply Hskip; exact I).
        destruct (trow k) as [r|] eqn:Et; [|apply Hskip; unfold skipcond; rewrite Et; exact I].
        destruct (tmatch k em || t_typeless r) eqn:Em; [|apply Hskip; unfold skipcond; rewrite Et; left; exact Em].
        destruct (rec r em) as [em'|] eqn:Er; [|apply Hskip; unfold skipcond; rewrite Et; right; exact Er].
        destruct (good_elem_row T P TOK f p em k r Hg Hk Et) as [Hgr [Hokr _]].
        rewrite (tc_obj_some T norm rec em k rest r em' El Et Em Er). cbn [cv]. apply (tc_obj_some T norm rec _ k rest r _ El Et).
        * rewrite tmatch_K, (rec_tm r em em' Hokr Hgr Er k). exact Em.
        * exact (rec_K r em em' Hokr Hgr (cge_row p em k r Hc Hk Et) Er).
    Qed.

    Lemma rt_elem_obj p e n : rt_elem rec p e = JObj n -> try_chain rec e (p_deser p) = JObj n.
    Proof. unfold Codec.rt_elem. destruct e as [| | |s| |]; try (intros H; exact H). destruct (_ && _); [discriminate|intros H; exact H]. Qed.

    Lemma rt_elem_clean p e : In p P -> good_elem f p e = true -> cge c' f p e = true ->
      rt_elem rec p (cvS (rt_elem rec p e)) = cvS (rt_elem rec p e).
    Proof.
      intros HP Hg Hc. destruct (rt_elem rec p e) as [| | | | |n] eqn:Ex;
        try (cbn [cv]; rewrite <- Ex; exact (rt_elem_idem T P url_ok norm_iri norm CS TOK f rec rec_idem rec_tm rec_none p e HP Hg)).
      pose proof (rt_elem_obj p e n Ex) as Et. pose proof (tc_clean p e HP Hg Hc (p_deser p) (incl_refl _)) as H. rewrite Et in H.
      cbn [cv] in *. exact H.
    Qed.

    (* an object comes out of rt_prop only for an element that meets the conditions *)
    Lemma rt_prop_obj p v n : good_val f p v = true -> cgval c' f p v = true -> rt_prop rec p v = JObj n ->
      exists e, rt_elem rec p e = JObj n /\ good_elem f p e = true /\ cge c' f p e = true.
    Proof.
      unfold IdemProofs.good_val, cgval, Codec.rt_prop. destruct (p_functional p).
      - intros Hg Hc H. exists v. tauto.
      - intros Hg Hc H. apply andb_true_iff in Hg. destruct Hg as [_ Hg].
        destruct v as [| | | |l|]; try (exists v; tauto; fail); try (eexists; split; [exact H|split; [exact Hg|exact Hc]]).
        destruct l as [|e [|e2 r]]; cbn [map] in H; try discriminate.
        exists e. cbn [forallb] in Hg. apply andb_true_iff in Hg. destruct Hg as [Hg _]. destruct e; tauto.
    Qed.
    Lemma rt_prop_of_obj p n : rt_prop rec p (JObj n) = rt_elem rec p (JObj n).
    Proof. unfold Codec.rt_prop. destruct (p_functional p); reflexivity. Qed.

    Lemma rt_prop_clean p v : In p P -> good_val f p v = true -> cgval c' f p v = true ->
      rt_prop rec p (cvS (rt_prop rec p v)) = cvS (rt_prop rec p v).
    Proof.
      intros HP Hg Hc. destruct (rt_prop rec p v) as [| | | | |n] eqn:Ew;
        try (cbn [cv]; rewrite <- Ew; exact (rt_prop_idem T P url_ok norm_iri norm CS TOK f rec rec_idem rec_tm rec_none p v HP Hg)).
      destruct (rt_prop_obj p v n Hg Hc Ew) as [e [Ee [Hge Hce]]]. cbn [cv]. rewrite rt_prop_of_obj.
      pose proof (rt_elem_clean p e HP Hge Hce) as H. rewrite Ee in H. cbn [cv] in H. exact H.
    Qed.

    (* without a type in the chain nothing is cleaned *)
    Lemma cv_out_fix p v : In p P -> good_val f p v = true -> cgval c' f p v = true -> has_tk p = false ->
      cvS (rt_prop rec p v) = rt_prop rec p v.
    Proof.
      intros HP Hg Hc Htk. destruct (rt_prop rec p v) as [| | | | |n] eqn:Ew; try reflexivity.
      destruct (rt_prop_obj p v n Hg Hc Ew) as [e [Ee [Hge Hce]]]. pose proof (rt_elem_obj p e n Ee) as Et.
      destruct (try_chain_res T norm rec p e (p_deser p) (incl_refl _)) as [Hx|k2 Hk2 Hl2 Hn|k2 r2 em em2 Hk2 Hl2 He Ht2 Hr2 Hx].
      - rewrite Et in Hx. subst e. cbn [cv]. rewrite (cge_obj p n Hce Htk). reflexivity.
      - rewrite Et in Hn. exact (cv_lit p k2 e _ HP Hk2 Hl2 Hce Hn).
      - rewrite (has_tk_intro p k2 r2 Hk2 Hl2 Ht2) in Htk. discriminate.
    Qed.
    Lemma out_name_clean p v : In p P -> good_val f p v = true -> cgval c' f p v = true ->
      out_name p (cvS (rt_prop rec p v)) = out_name p (rt_prop rec p v).
    Proof.
      intros HP Hg Hc. destruct (has_tk p) eqn:Htk.
      - unfold out_name. rewrite (TKM p HP Htk). reflexivity.
      - rewrite (cv_out_fix p v HP Hg Hc Htk). reflexivity.
    Qed.

    (* ---------- members ---------- *)
    Section MembersK.
      Variable row : type_row.
      Variable m : list (string * json).
      Hypothesis Hok : row_ok P row = true.
      Hypothesis Hgood : good (S f) row m = true.
      Hypothesis Hcg : cgood (S c') (S f) row m = true.
      Let m' := flat_map (rt_member rec row m) m.

      Lemma member_K kv kv' : In kv m -> In kv' (rt_member rec row m kv) ->
        rt_member rec row (K (S c') m') (cvm (S c') kv') = [cvm (S c') kv'].
      Proof.
        intros Hin Hout. destruct kv as [k v]. destruct (good_S T P f row m Hgood) as [_ Hvals].
        apply rt_member_inv in Hout. destruct Hout as [[Hnone Heq]|[p [b [Hk [Hnd [Hnn Heq]]]]]].
        - subst kv'. unfold Codec.rt_member, cvm. cbn [fst snd]. rewrite Hnone. reflexivity.
        - subst kv'. destruct (pk_key P row k p b Hk) as [HP _].
          pose proof (Hvals k v p b Hin Hk) as Hgv. pose proof (cgood_S c' f row m Hcg k v p b Hin Hk) as Hcv.
          unfold Codec.rt_member, cvm. cbn [fst snd]. rewrite (pk_out P row k p b _ Hok Hk). cbv zeta.
          rewrite (rt_prop_clean p v HP Hgv Hcv). rewrite (out_name_clean p v HP Hgv Hcv).
          assert (Hnn' : cvS (rt_prop rec p v) <> JNull) by (destruct (rt_prop rec p v); cbn [cv]; try discriminate; exact Hnn).
          destruct (p_has_map p && is_langstring (rt_prop rec p v)) eqn:El.
          + pose proof (out_map_absent T P url_ok norm_iri norm f rec row m Hok Hgood k v p b Hin Hk Hnd El) as Habs. fold m' in Habs.
            rewrite (assoc_K (S c') (p_name p) m' (NOCTX p HP)), Habs. cbn [option_map andb].
            destruct (cvS (rt_prop rec p v)); try reflexivity. exfalso. apply Hnn'. reflexivity.
          + cbn [andb]. destruct (cvS (rt_prop rec p v)); try reflexivity. exfalso. apply Hnn'. reflexivity.
      Qed.

      Lemma members_K : flat_map (rt_member rec row (K (S c') m')) (K (S c') m') = K (S c') m'.
      Proof.
        apply flat_map_id'. intros x Hx. rewrite K_map in Hx. apply in_map_iff in Hx. destruct Hx as [kv' [Ex Hin']]. subst x.
        apply In_remove_key in Hin'. destruct Hin' as [Hin' _]. unfold m' in Hin'. apply in_flat_map in Hin'. destruct Hin' as [kv [Hin Hout]].
        exact (member_K kv kv' Hin Hout).
      Qed.
    End MembersK.
  End LevelK.

  (* the per-type pass maps the cleaned output to itself *)
  Theorem rt_type_clean : forall n c row m m', n <= c -> row_ok P row = true -> good n row m = true -> cgood c n row m = true ->
    rt_type n row m = Some m' -> rt_type n row (K c m') = Some (K c m').
  Proof.
    induction n as [|f IH]; intros c row m m' Hle Hok Hg Hc H; [discriminate|]. destruct c as [|c']; [lia|].
    destruct (rt_type_inv T P url_ok norm_iri norm (S f) row m m' H) as [f0 [Hn [Hty Hm']]]. inversion Hn; subst f0. clear Hn.
    cbn [Codec.rt_type]. unfold Codec.rt_members.
    assert (Hty' : typed row (K (S c') m') = true).
    { unfold typed in *. rewrite tmatch_K, Hm'. rewrite (tmatch_pres T P url_ok norm_iri norm CS f (rt_type f) row m Hg). exact Hty. }
    unfold typed, tmatch in Hty'. rewrite Hty'. cbn [negb]. f_equal. rewrite Hm'.
    apply (members_K f c' (rt_type f)); try assumption.
    - intros r em em' Hokr Hgr Hr. exact (roundtrip_idempotent_sec T P url_ok norm_iri norm CS TOK f r em em' Hokr Hgr Hr).
    - intros r em em' _ Hgr Hr. exact (rt_type_tm T P url_ok norm_iri norm CS f r em em' Hgr Hr).
    - intros r em. apply rt_type_none.
    - intros r em em' Hokr Hgr Hcr Hr. apply (IH c' r em em'); try assumption. lia.
  Qed.

  (* ---------- the top level ---------- *)
  (* no member of the output is called @context *)
  Lemma out_not_context rec row m kv kv' : fst kv <> "@context" -> In kv' (rt_member rec row m kv) -> fst kv' <> "@context".
  Proof.
    destruct kv as [k v]. cbn [fst]. intros Hne Hout.
    apply rt_member_inv in Hout. destruct Hout as [[_ Heq]|[p [b [Hk [_ [_ Heq]]]]]]; subst kv'; cbn [fst]; [exact Hne|].
    destruct (pk_key P row k p b Hk) as [HP _]. unfold out_name. destruct (_ && _); [apply not_context_map|exact (NOCTX p HP)].
  Qed.
  Lemma out_no_context rec row m : assoc "@context" m = None -> assoc "@context" (flat_map (rt_member rec row m) m) = None.
  Proof.
    intros Ha. apply assoc_None_notin. intros kv' Hin'. apply in_flat_map in Hin'. destruct Hin' as [[k v] [Hin Hout]].
    apply (out_not_context rec row m (k, v) kv'); [|exact Hout]. cbn [fst]. intros E. subst k. exact (In_assoc _ _ _ Hin Ha).
  Qed.

  (* the "type" member of the output *)
  Lemma assoc_type_out f rec row m : good (S f) row m = true ->
    assoc "type" (flat_map (rt_member rec row m) m) =
    match assoc "type" m with
    | None => None
    | Some tv => match prop_of_key row "type" with
                 | None => Some tv
                 | Some (p, _) => match rt_prop rec p tv with JNull => None | w => Some w end
                 end
    end.
  Proof.
    intros Hg. destruct (good_S T P f row m Hg) as [HND _].
    assert (G : forall l, incl l m -> NoDup (map fst l) ->
              assoc "type" (flat_map (rt_member rec row m) l) =
              match assoc "type" l with
              | None => None
              | Some tv => match prop_of_key row "type" with
                           | None => Some tv
                           | Some (p, _) => match rt_prop rec p tv with JNull => None | w => Some w end
                           end
              end).
    { induction l as [|[k v] rest IH]; intros Hincl Hnd; [reflexivity|].
      assert (Hin : In (k, v) m) by (apply Hincl; left; reflexivity).
      assert (Hrest : incl rest m) by (intros y Hy; apply Hincl; right; exact Hy).
      cbn [map fst] in Hnd. inversion Hnd as [|x xs Hnotin Hnd']; subst. specialize (IH Hrest Hnd').
      cbn [flat_map assoc]. destruct (String.eqb "type" k) eqn:Ek.
      - apply String.eqb_eq in Ek. subst k.
        assert (Hnone : assoc "type" (flat_map (rt_member rec row m) rest) = None).
        { apply assoc_None_notin. intros kv' Hin'. apply in_flat_map in Hin'. destruct Hin' as [kv2 [Hin2 Hout2]].
          apply (not_type_out T P url_ok norm_iri norm CS rec row m kv2 kv'); [|exact Hout2]. intros E. apply Hnotin. rewrite <- E. apply in_map. exact Hin2. }
        set (tl := flat_map (rt_member rec row m) rest) in *. clearbody tl.
        unfold Codec.rt_member. cbn [fst snd]. destruct (prop_of_key row "type") as [[p b]|] eqn:Ep.
        + destruct (pk_key P row "type" p b Ep) as [HP [_ [_ [Hkey Hbm]]]].
          destruct b; [exfalso; symmetry in Hkey; exact (map_not_type _ Hkey)|]. symmetry in Hkey.
          destruct (cs_type _ _ _ _ _ CS p HP Hkey) as [_ [Hnm _]]. cbn [andb]. cbv zeta.
          assert (Hon : forall w, out_name p w = "type") by (intros w; unfold out_name; rewrite Hnm; exact Hkey).
          destruct (rt_prop rec p v) eqn:Ev; try (rewrite Hon; cbn [app assoc]; rewrite String.eqb_refl; reflexivity).
          cbn [app]. exact Hnone.
        + cbn [app assoc]. rewrite String.eqb_refl. reflexivity.
      - rewrite assoc_app_skip; [exact IH|]. intros kv' Hin'. apply (not_type_out T P url_ok norm_iri norm CS rec row m (k, v) kv'); [|exact Hin'].
        cbn [fst]. intros E. subst k. rewrite String.eqb_refl in Ek. discriminate. }
    apply G; [apply incl_refl|exact HND].
  Qed.

  (* which row type_of_doc picks, as a function of the "type" member *)
  Definition known (e : json) : bool := match e with JStr s => match trow s with Some _ => true | None => false end | _ => false end.
  Definition tod (tvo : option json) : option type_row :=
    match tvo with
    | Some (JStr s) => trow s
    | Some (JArr l) => match find known l with Some (JStr s) => trow s | _ => None end
    | _ => None
    end.
  Lemma type_of_doc_tod m : type_of_doc T m = tod (assoc "type" m).
  Proof. reflexivity. Qed.
  Lemma tod_cv c tvo : tod (option_map (cv c) tvo) = tod tvo.
  Proof. destruct tvo as [tv|]; [|reflexivity]. destruct c; [reflexivity|]. destruct tv; reflexivity. Qed.

  Lemma find_known_map g l : (forall e, known (g e) = known e) -> (forall e, known e = true -> g e = e) ->
    find known (map g l) = find known l.
  Proof.
    intros H1 H2. induction l as [|a r IH]; [reflexivity|]. cbn [map find]. rewrite H1. destruct (known a) eqn:E; [rewrite (H2 a E); reflexivity|exact IH].
  Qed.

  Lemma tod_type_out rec p tv row : In p P -> p_name p = "type" -> tod (Some tv) = Some row ->
    tod (match rt_prop rec p tv with JNull => None | w => Some w end) = Some row.
  Proof.
    intros HP Hname H. destruct (cs_type _ _ _ _ _ CS p HP Hname) as [Hnf [_ [Hiri Hk]]].
    assert (Hstr : forall s, rt_elem rec p (JStr s) = JStr s).
    { intros s. unfold Codec.rt_elem. rewrite Hiri. cbn [andb].
      exact (tc_str_id T norm rec p s (fun k Hk0 Hl => proj1 (Hk k Hk0 Hl) s) (p_deser p) (incl_refl _)). }
    assert (Hns : forall e s', rt_elem rec p e = JStr s' -> exists s, e = JStr s).
    { intros e s' Ex. pose proof (type_elem T P url_ok norm_iri norm CS rec p HP Hname s' e) as Hn. rewrite Ex in Hn. cbn [is_name] in Hn.
      rewrite String.eqb_refl in Hn. destruct e as [| | |s| |]; try discriminate. exists s. reflexivity. }
    assert (Hkn : forall e, known (rt_elem rec p e) = known e).
    { intros e. destruct e as [| | |s| |]; try (rewrite Hstr; reflexivity);
        (match goal with |- known ?x = _ => destruct x as [| | |s'| |] eqn:Ex end; try reflexivity;
         destruct (Hns _ _ Ex) as [s0 Hs0]; discriminate). }
    assert (Hfix : forall e, known e = true -> rt_elem rec p e = e).
    { intros e He. destruct e as [| | |s| |]; try discriminate. apply Hstr. }
    destruct tv as [| | |s|l|]; try discriminate.
    - rewrite (rt_prop_nonarr T url_ok norm_iri norm rec p (JStr s) Hnf eq_refl), Hstr. exact H.
    - unfold Codec.rt_prop. rewrite Hnf. destruct l as [|e1 [|e2 r]].
      + discriminate.
      + cbn [map]. cbn [tod find] in H. destruct (known e1) eqn:E1; [|discriminate]. rewrite (Hfix e1 E1).
        destruct e1 as [| | |s| |]; try discriminate. exact H.
      + assert (E : map (rt_elem rec p) (e1 :: e2 :: r) = rt_elem rec p e1 :: rt_elem rec p e2 :: map (rt_elem rec p) r) by reflexivity.
        rewrite E. rewrite <- E. cbn [tod]. rewrite (find_known_map (rt_elem rec p) _ Hkn Hfix). exact H.
  Qed.

  Theorem rt_doc_idempotent : forall n doc d1,
    n <= 16 ->
    match doc with
    | JObj m => match type_of_doc T m with
                | Some row => good n row (remove_key "@context" m) && cgood 16 n row (remove_key "@context" m)
                | None => true
                end
    | _ => true
    end = true ->
    rt_doc T P url_ok norm_iri norm n doc = Some d1 -> rt_doc T P url_ok norm_iri norm n d1 = Some d1.
  Proof.
    intros n doc d1 Hn Hside H. destruct doc as [| | | | |m]; try discriminate. unfold Codec.rt_doc in H.
    destruct (type_of_doc T m) as [row|] eqn:Etd; [|discriminate]. apply andb_true_iff in Hside. destruct Hside as [Hg Hc].
    set (m0 := remove_key "@context" m) in *.
    destruct (rt_type n row m0) as [m'|] eqn:Ert; [|discriminate].
    assert (Hd1 : d1 = JObj (clean_maps 16 m')) by congruence. rewrite Hd1. clear H Hd1.
    assert (Hrow : row_ok P row = true).
    { apply TOK. rewrite type_of_doc_tod in Etd. unfold tod in Etd. destruct (assoc "type" m) as [[| | |s|l|]|]; try discriminate.
      - exact (proj1 (find_row_In t_name s T row Etd)).
      - destruct (find known l) as [[| | |s| |]|]; try discriminate. exact (proj1 (find_row_In t_name s T row Etd)). }
    destruct (rt_type_inv T P url_ok norm_iri norm n row m0 m' Ert) as [f [En [Hty Hm']]]. subst n.
    assert (Hnoc : assoc "@context" m' = None) by (rewrite Hm'; apply out_no_context; apply assoc_remove_same).
    assert (EK : clean_maps 16 m' = K 16 m') by (unfold K; rewrite (remove_key_absent _ _ Hnoc); reflexivity).
    rewrite EK. unfold Codec.rt_doc.
    assert (Etd' : type_of_doc T (K 16 m') = Some row).
    { rewrite type_of_doc_tod, assoc_K by discriminate. rewrite tod_cv, Hm', (assoc_type_out f (rt_type f) row m0 Hg).
      rewrite type_of_doc_tod in Etd. unfold m0. rewrite assoc_remove_key by discriminate.
      destruct (assoc "type" m) as [tv|]; [|discriminate]. destruct (prop_of_key row "type") as [[p b]|] eqn:Ep; [|exact Etd].
      destruct (pk_key P row "type" p b Ep) as [HP [_ [_ [Hkey _]]]].
      destruct b; [exfalso; symmetry in Hkey; exact (map_not_type _ Hkey)|]. symmetry in Hkey.
      exact (tod_type_out (rt_type f) p tv row HP Hkey Etd). }
    rewrite Etd'.
    assert (ER : remove_key "@context" (K 16 m') = K 16 m').
    { apply remove_key_absent. apply assoc_None_notin. intros kv Hin. apply In_K in Hin. destruct Hin as [v [_ [_ Hne]]]. exact Hne. }
    rewrite ER. rewrite (rt_type_clean (S f) 16 row m0 m' Hn Hrow Hg Hc Ert). rewrite clean_K. reflexivity.
  Qed.
End DocIdem.

(* The document function is idempotent: for all tables and literal codecs as in roundtrip_idempotent, the two table conditions
   of the wrapper, fuel <= 16, and documents whose members (without the top-level @context) are good and cgood. *)
Theorem rt_doc_idempotent_all : forall T P url_ok norm_iri norm,
  codec_stable T P url_ok norm_iri norm -> (forall r, In r T -> row_ok P r = true) ->
  (forall p, In p P -> p_name p <> "@context") -> (forall p, In p P -> has_tk T p = true -> p_has_map p = false) ->
  forall n doc d1, n <= 16 ->
  match doc with
  | JObj m => match type_of_doc T m with
              | Some row => good T P n row (remove_key "@context" m) && cgood T P 16 n row (remove_key "@context" m)
              | None => true
              end
  | _ => true
  end = true ->
  rt_doc T P url_ok norm_iri norm n doc = Some d1 -> rt_doc T P url_ok norm_iri norm n d1 = Some d1.
Proof. exact rt_doc_idempotent. Qed.
Print Assumptions rt_doc_idempotent_all.

(* ================= the shipped instance ================= *)
Lemma shipped_no_context_prop : forall p, In p props_shipped -> p_name p <> "@context".
Proof.
  assert (H : forallb (fun p => negb (String.eqb (p_name p) "@context")) props_shipped = true) by (vm_compute; reflexivity).
  intros p Hp E. rewrite forallb_forall in H. specialize (H p Hp). rewrite E in H. discriminate.
Qed.
Lemma shipped_map_no_type : forall p, In p props_shipped -> has_tk types_shipped p = true -> p_has_map p = false.
Proof.
  assert (H : forallb (fun p => negb (has_tk types_shipped p) || negb (p_has_map p)) props_shipped = true) by (vm_compute; reflexivity).
  intros p Hp E. rewrite forallb_forall in H. specialize (H p Hp). rewrite E in H. cbn [negb orb] in H. apply negb_true_iff in H. exact H.
Qed.

(* the side conditions of a document, as one boolean (fuel 8 as in rt_shipped) *)
Definition doc_ok (doc : json) : bool :=
  match doc with
  | JObj m => match type_of_doc types_shipped m with
              | Some row => good types_shipped props_shipped 8 row (remove_key "@context" m) &&
                            cgood types_shipped props_shipped 16 8 row (remove_key "@context" m)
              | None => true
              end
  | _ => true
  end.

Theorem rt_shipped_idempotent : forall doc d1, doc_ok doc = true -> rt_shipped doc = Some d1 -> rt_shipped d1 = Some d1.
Proof.
  intros doc d1 Hok H. unfold rt_shipped in *.
  apply (rt_doc_idempotent_all types_shipped props_shipped url_ok norm_iri norm (shipped_codec_stable time_literals_idem_shipped)
           shipped_tables_ok shipped_no_context_prop shipped_map_no_type 8 doc d1 ltac:(lia) Hok H).
Qed.
Print Assumptions rt_shipped_idempotent.

(* FINDING: a natural-language map that carries an @context which is not a string is not a language map for the decoder (a value
   is not a string), is kept as it is, loses the @context in Serialize (which deletes it from every nested map) - and is a
   language map at the second round trip, which renames the property.  doc_ok excludes exactly this. *)
Definition ctx_doc : json := JObj [("type", JStr "Note"); ("name", JObj [("@context", JNum 1); ("en", JStr "x")])].
Example context_in_language_map_not_idempotent :
  rt_shipped ctx_doc = Some (JObj [("type", JStr "Note"); ("name", JObj [("en", JStr "x")])]) /\
  rt_shipped (JObj [("type", JStr "Note"); ("name", JObj [("en", JStr "x")])]) = Some (JObj [("type", JStr "Note"); ("nameMap", JObj [("en", JStr "x")])]) /\
  doc_ok ctx_doc = false.
Proof. repeat split; vm_compute; reflexivity. Qed.

(* non-vacuity: the document of idempotent_example, and one with @context members inside embedded values (deleted where
   Serialize reaches them through maps, kept inside the array) *)
Example doc_ok_idem_doc : doc_ok idem_doc = true /\ rt_shipped idem_doc = Some idem_doc1 /\ rt_shipped idem_doc1 = Some idem_doc1.
Proof. repeat split; vm_compute; reflexivity. Qed.
Definition nested_ctx_doc : json :=
  JObj [("@context", JStr "https://www.w3.org/ns/activitystreams"); ("type", JArr [JStr "Create"; JStr "ext:Thing"]);
        ("object", JObj [("type", JStr "Note"); ("@context", JArr [JStr "a"; JObj [("k", JStr "v")]]); ("name", JStr "n");
                         ("attributedTo", JArr [JObj [("type", JStr "Person"); ("@context", JStr "c")]])]);
        ("actor", JArr [JObj [("type", JStr "Person"); ("@context", JStr "c")]; JStr "https://x.y/z"]);
        ("ext", JObj [("@context", JNum 1); ("deep", JObj [("@context", JNum 2)])])].
Definition nested_ctx_doc1 : json :=
  JObj [("type", JArr [JStr "Create"; JStr "ext:Thing"]);
        ("object", JObj [("type", JStr "Note"); ("name", JStr "n"); ("attributedTo", JObj [("type", JStr "Person")])]);
        ("actor", JArr [JObj [("type", JStr "Person"); ("@context", JStr "c")]; JStr "https://x.y/z"]);
        ("ext", JObj [("deep", JObj [])])].
Example nested_context_example :
  doc_ok nested_ctx_doc = true /\ rt_shipped nested_ctx_doc = Some nested_ctx_doc1 /\ rt_shipped nested_ctx_doc1 = Some nested_ctx_doc1.
Proof. repeat split; vm_compute; reflexivity. Qed.

(* ================= exactness at the level of the document ================= *)
(* a document whose members (without the top-level @context, which Serialize rebuilds) are canonical (CodecProofs.cmembers) and
   carry no @context where Serialize deletes it is its own round trip, up to that top-level @context *)
Theorem rt_doc_identity : forall T P url_ok norm_iri norm n m row,
  type_of_doc T m = Some row ->
  Verif.Proofs.CodecProofs.cmembers P url_ok norm_iri norm (S n) row (remove_key "@context" m) ->
  clean_maps 16 (remove_key "@context" m) = remove_key "@context" m ->
  rt_doc T P url_ok norm_iri norm (S n) (JObj m) = Some (JObj (remove_key "@context" m)).
Proof.
  intros T P url_ok norm_iri norm n m row Etd Hc Hclean. unfold rt_doc. rewrite Etd.
  assert (Hty : typed row (remove_key "@context" m) = true).
  { unfold typed, tmatch. rewrite assoc_remove_key by discriminate. rewrite type_of_doc_tod in Etd. unfold tod in Etd.
    destruct (assoc "type" m) as [[| | |s|l|]|]; try discriminate.
    - destruct (find_row_In t_name s T row Etd) as [_ Hn]. cbn [type_matches]. rewrite Hn, String.eqb_refl. apply orb_true_r.
    - destruct (find (known T) l) as [[| | |s| |]|] eqn:Ef; try discriminate.
      destruct (find_row_In t_name s T row Etd) as [_ Hn]. apply find_some in Ef. destruct Ef as [Hin _].
      cbn [type_matches]. replace (existsb _ l) with true; [apply orb_true_r|]. symmetry. apply existsb_exists.
      exists (JStr s). split; [exact Hin|]. rewrite Hn. apply String.eqb_refl. }
  destruct (Codec.rt_type T P url_ok norm_iri norm (S n) row (remove_key "@context" m)) as [m'|] eqn:Ert.
  - rewrite (Verif.Proofs.CodecProofs.roundtrip_identity T P url_ok norm_iri norm (S n) row _ m' Hc Ert). rewrite Hclean. reflexivity.
  - exfalso. cbn [Codec.rt_type] in Ert. unfold Codec.rt_members in Ert. unfold typed, tmatch in Hty. rewrite Hty in Ert. discriminate.
Qed.
Print Assumptions rt_doc_identity.
(* the condition on nested @context members, from the boolean *)
Lemma ctxfree_clean c m : ctxfree c m = true -> clean_maps c m = m.
Proof.
  intros H. pose proof (ctxfree_K c m H) as E. unfold K in E. rewrite remove_key_absent in E; [exact E|].
  destruct c; cbn [ctxfree] in H; apply andb_true_iff in H; destruct H as [H _]; destruct (assoc "@context" m); [discriminate|reflexivity|discriminate|reflexivity].
Qed.
Definition canon_doc : json :=
  JObj [("type", JStr "Create"); ("id", JStr "https://example.com/a/1"); ("actor", JStr "https://example.com/users/alice");
        ("to", JArr [JStr "https://example.com/users/bob"; JStr "https://www.w3.org/ns/activitystreams#Public"]);
        ("published", JStr "2020-02-03T04:05:06Z");
        ("object", JObj [("type", JStr "Note"); ("id", JStr "https://example.com/n/1"); ("contentMap", JObj [("en", JStr "hello"); ("fr", JStr "salut")]);
                         ("duration", JStr "PT5S"); ("attributedTo", JStr "https://example.com/users/alice"); ("x-ext", JArr [JNum 1; JNull])]);
        ("ext:vendor", JObj [("anything", JArr [JArr [JNum 1]]); ("n", JNull)])].
Example rt_doc_identity_example :
  rt_shipped (JObj (("@context", JStr "https://www.w3.org/ns/activitystreams") :: jfields canon_doc)) = Some canon_doc /\
  ctxfree 16 (jfields canon_doc) = true.
Proof. split; vm_compute; reflexivity. Qed.
