(* What the federating default callbacks STORE when they succeed.
   Part 1 (Create / Update / Delete): for EVERY environment - every answer to every call, every fault sequence.
   Part 2 (Like / Announce): for the environment of ANY world (which objects are owned, what is stored for them).
   A "store" is a Database call that writes (Create, Update, Delete, SetInbox, SetOutbox) or a BatchDeliver. *)
From Coq Require Import String List Bool Arith.
From Verif Require Import Base.ListX Base.Json Base.Free Pub.Events Pub.Calls Pub.Value Pub.EffectSpec Pub.Util Pub.SideEffect Pub.Fed.
From Verif Require Import Proofs.DeliveryProofs Proofs.ForwardIffProofs Proofs.TargetProofs.
Import ListNotations.
Open Scope string_scope.
Open Scope list_scope.

Local Opaque has_prop known_type admits T P.

Definition store_ops : list string := ["Create"; "Update"; "Delete"; "SetInbox"; "SetOutbox"].
Definition is_store (e : ev) : bool :=
  match e with
  | EDb op _ => existsb (String.eqb op) store_ops
  | EBatchDeliver _ _ => true
  | _ => false
  end.
Definition stores (tr : list ev) : list ev := filter is_store tr.
Lemma stores_app a b : stores (a ++ b) = stores a ++ stores b.
Proof. apply filter_app. Qed.

Lemma Forall2_impl {A B} (R R' : A -> B -> Prop) : (forall a b, R a b -> R' a b) ->
  forall l l', Forall2 R l l' -> Forall2 R' l l'.
Proof. intros HR l l' H. induction H as [|a b l l' Hab Hl IH]; constructor; [apply HR; exact Hab|exact IH]. Qed.

(* ================= Part 1: every environment ================= *)
Section Any.
  Variable env : ev -> ans.

  Definition S {A} (m : prog A) : list ev := stores (evs_env env m).
  Lemma S_bind {A C} (m : prog A) (f : A -> prog C) : S (bind m f) = S m ++ S (f (res_env env m)).
  Proof. unfold S. rewrite evs_env_bind, stores_app. reflexivity. Qed.
  Lemma S_bindr {A C} (m : prog (res A)) (f : A -> prog (res C)) :
    S (bindr m f) = S m ++ match res_env env m with Ok a => S (f a) | _ => [] end.
  Proof. unfold S. rewrite evs_env_bindr, stores_app. destruct (res_env env m); reflexivity. Qed.
  Lemma S_ret {A} (a : A) : S (Ret a) = [].
  Proof. reflexivity. Qed.
  Lemma S_lift {A} (r : res A) : S (lift r) = [].
  Proof. reflexivity. Qed.
  Lemma S_call e : S (call e) = if is_store e then [e] else [].
  Proof. unfold S, call, evs_env, stores. cbn [run_env snd filter]. reflexivity. Qed.
  Lemma res_call e : res_env env (call e) = env e.
  Proof. reflexivity. Qed.

  (* primitives that store nothing, whatever the environment answers *)
  Lemma S_lock i : S (lock i) = [].
  Proof. unfold lock. rewrite S_bind, S_call, res_call. cbn [is_store app]. destruct (env (ELock i)); reflexivity. Qed.
  Lemma S_unlock i : S (unlock i) = [].
  Proof. unfold unlock. rewrite S_bind, S_call. reflexivity. Qed.
  Lemma S_new_transport b : S (new_transport b) = [].
  Proof. unfold new_transport. rewrite S_bind, S_call, res_call. cbn [is_store app]. destruct (env (ENewTransport b)); reflexivity. Qed.
  Lemma S_dereference i : S (dereference i) = [].
  Proof. unfold dereference. rewrite S_bind, S_call. reflexivity. Qed.
  Lemma S_app_unit n args : S (app_unit n args) = [].
  Proof. unfold app_unit, app. rewrite S_bind, S_call, res_call. cbn [is_store app]. destruct (env (EApp n (map canon args))); reflexivity. Qed.
  Lemma S_wrapped cfg name a : S (wrapped cfg name a) = [].
  Proof. unfold wrapped. destruct (mem name (c_fed_wrapped cfg)); [apply S_app_unit|reflexivity]. Qed.

  Lemma S_fetch box i : S (fetch box i) = [].
  Proof.
    unfold fetch. rewrite S_bindr, S_new_transport. cbn [app].
    destruct (res_env env (new_transport box)) as [u|e|p]; [|reflexivity|reflexivity].
    rewrite S_bind, S_dereference. cbn [app]. destruct (res_env env (dereference i)); reflexivity.
  Qed.
  Lemma S_value_or_fetch box e : S (value_or_fetch box e) = [].
  Proof.
    unfold value_or_fetch. destruct (e_type "object" e) as [t|]; [reflexivity|].
    destruct (e_is_iri e); [apply S_fetch|reflexivity].
  Qed.

  (* a Database write is recorded whether or not it succeeds *)
  Lemma S_db_unit op args : is_store (EDb op (map canon args)) = true -> S (db_unit op args) = [EDb op (map canon args)].
  Proof.
    intros Hs. unfold db_unit, db. rewrite S_bind, S_call, res_call, Hs.
    destruct (env (EDb op (map canon args))); reflexivity.
  Qed.

  (* the deferred-unlock wrapper: when it succeeds, the body ran and succeeded, and nothing else was stored *)
  Lemma with_lock_ok {A} i (body : prog (res A)) x :
    res_env env (with_lock_deferred i body) = Ok x -> res_env env body = Ok x /\ S (with_lock_deferred i body) = S body.
  Proof.
    unfold with_lock_deferred. rewrite res_env_bindr, S_bindr, S_lock. cbn [app].
    destruct (res_env env (lock i)) as [u|e|p]; [|intros H; discriminate H|intros H; discriminate H].
    rewrite res_env_bind, res_env_bind, S_bind, S_bind, S_unlock. cbn [app]. rewrite S_ret, app_nil_r.
    change (res_env env (ret (res_env env body))) with (res_env env body).
    intros H. split; [exact H|reflexivity].
  Qed.

  (* the loop: if every successful round stores exactly one event determined by a witness, the successful loop
     stores exactly those events, in order *)
  Lemma foreach_stores {V} (f : json -> prog (res unit)) (R : json -> V -> Prop) (g : V -> ev) :
    (forall e, res_env env (f e) = Ok tt -> exists v, R e v /\ S (f e) = [g v]) ->
    forall l, res_env env (foreach l f) = Ok tt -> exists vs, Forall2 R l vs /\ S (foreach l f) = map g vs.
  Proof.
    intros Hf. induction l as [|e r IH]; cbn [foreach].
    - intros _. exists []. split; [constructor|reflexivity].
    - rewrite res_env_bindr, S_bindr. destruct (res_env env (f e)) as [u|x|p] eqn:Ee; [|intros H; discriminate H|intros H; discriminate H].
      destruct u. intros Hr. destruct (Hf e Ee) as [v [Hv Hs]]. destruct (IH Hr) as [vs [Hvs Hss]].
      exists (v :: vs). split; [constructor; assumption|]. rewrite Hs, Hss. reflexivity.
  Qed.

  (* ---- what value_or_fetch returns ---- *)
  Lemma value_or_fetch_spec box e t : res_env env (value_or_fetch box e) = Ok t ->
    e_type "object" e = Some t \/
    (e_type "object" e = None /\ e_is_iri e = true /\ exists j, env (EDeref (e_iri e)) = AJson j /\ to_type j = Ok t).
  Proof.
    unfold value_or_fetch. destruct (e_type "object" e) as [t0|] eqn:Et.
    - rewrite res_env_ok. intros H. injection H as <-. left. reflexivity.
    - destruct (e_is_iri e) eqn:Ei; [|intros H; discriminate H].
      unfold fetch. rewrite res_env_bindr.
      destruct (res_env env (new_transport box)) as [u|x|p]; [|intros H; discriminate H|intros H; discriminate H].
      rewrite res_env_bind. unfold dereference at 1. rewrite res_env_bind, res_call.
      destruct (env (EDeref (e_iri e))) as [| |b|i| |j|l|n|s|z|] eqn:Ed; cbn [ret]; try (intros H; discriminate H).
      change (res_env env (ret (DDoc j))) with (DDoc j). cbn beta iota. rewrite res_env_lift.
      intros H. right. split; [reflexivity|]. split; [reflexivity|]. exists j. split; [reflexivity|exact H].
  Qed.

  (* ---- Create ---- *)
  Lemma is_store_create x : is_store (EDb "Create" x) = true. Proof. reflexivity. Qed.
  Lemma is_store_update x : is_store (EDb "Update" x) = true. Proof. reflexivity. Qed.
  Lemma is_store_delete x : is_store (EDb "Delete" x) = true. Proof. reflexivity. Qed.

  Theorem create_stores_every_object cfg inbox a : res_env env (create cfg inbox a) = Ok tt ->
    exists vals, Forall2 (fun e t => res_env env (value_or_fetch inbox e) = Ok t) (elems0 "object" a) vals
                 /\ S (create cfg inbox a) = map (fun t => EDb "Create" [canon t]) vals.
  Proof.
    unfold create. destruct (object_required a); [intros H; discriminate H|].
    rewrite res_env_bindr, S_bindr.
    match goal with |- context [foreach _ ?f] => set (body := f) end.
    destruct (res_env env (foreach (elems0 "object" a) body)) as [u|x|p] eqn:El; [|intros H; discriminate H|intros H; discriminate H].
    destruct u. intros _.
    assert (Hb : forall e, res_env env (body e) = Ok tt ->
                   exists t, res_env env (value_or_fetch inbox e) = Ok t /\ S (body e) = [EDb "Create" [canon t]]).
    { intros e. unfold body. rewrite res_env_bindr, S_bindr, S_value_or_fetch. cbn [app].
      destruct (res_env env (value_or_fetch inbox e)) as [t|x|p]; [|intros H; discriminate H|intros H; discriminate H].
      rewrite res_env_bindr, S_bindr, res_env_lift, S_lift. cbn [app].
      destruct (get_id t) as [id|x|p]; [|intros H; discriminate H|intros H; discriminate H].
      intros H. apply with_lock_ok in H. destruct H as [_ Hs]. exists t. split; [reflexivity|].
      rewrite Hs. apply (S_db_unit "Create" [t]). apply is_store_create. }
    destruct (foreach_stores body _ _ Hb _ El) as [vals [Hv Hs]].
    exists vals. split; [exact Hv|]. rewrite Hs, S_wrapped, app_nil_r. reflexivity.
  Qed.

  (* ---- Update ---- *)
  Theorem update_stores_exactly_named cfg a : res_env env (update cfg a) = Ok tt ->
    exists vals, Forall2 (fun e t => e_type "object" e = Some t) (elems0 "object" a) vals
                 /\ S (update cfg a) = map (fun t => EDb "Update" [canon t]) vals.
  Proof.
    unfold update. destruct (object_required a); [intros H; discriminate H|].
    rewrite res_env_bindr, S_bindr, res_env_lift, S_lift. cbn [app].
    destruct (must_origin_match a) as [u0|x|p]; [|intros H; discriminate H|intros H; discriminate H].
    rewrite res_env_bindr, S_bindr.
    match goal with |- context [foreach _ ?f] => set (body := f) end.
    destruct (res_env env (foreach (elems0 "object" a) body)) as [u|x|p] eqn:El; [|intros H; discriminate H|intros H; discriminate H].
    destruct u. intros _.
    assert (Hb : forall e, res_env env (body e) = Ok tt ->
                   exists t, e_type "object" e = Some t /\ S (body e) = [EDb "Update" [canon t]]).
    { intros e. unfold body. destruct (e_type "object" e) as [t|]; [|intros H; discriminate H].
      rewrite res_env_bindr, S_bindr, res_env_lift, S_lift. cbn [app].
      destruct (get_id t) as [id|x|p]; [|intros H; discriminate H|intros H; discriminate H].
      intros H. apply with_lock_ok in H. destruct H as [_ Hs]. exists t. split; [reflexivity|].
      rewrite Hs. apply (S_db_unit "Update" [t]). apply is_store_update. }
    destruct (foreach_stores body _ _ Hb _ El) as [vals [Hv Hs]].
    exists vals. split; [exact Hv|]. rewrite Hs, S_wrapped, app_nil_r. reflexivity.
  Qed.

  (* ---- Delete ---- *)
  Theorem delete_removes_exactly_named cfg a : res_env env (delete cfg a) = Ok tt ->
    exists ids, Forall2 (fun e i => to_id "object" e = Ok i) (elems0 "object" a) ids
                /\ S (delete cfg a) = map (fun i => EDb "Delete" [JStr i]) ids.
  Proof.
    unfold delete. destruct (object_required a); [intros H; discriminate H|].
    rewrite res_env_bindr, S_bindr, res_env_lift, S_lift. cbn [app].
    destruct (must_origin_match a) as [u0|x|p]; [|intros H; discriminate H|intros H; discriminate H].
    rewrite res_env_bindr, S_bindr.
    match goal with |- context [foreach _ ?f] => set (body := f) end.
    destruct (res_env env (foreach (elems0 "object" a) body)) as [u|x|p] eqn:El; [|intros H; discriminate H|intros H; discriminate H].
    destruct u. intros _.
    assert (Hb : forall e, res_env env (body e) = Ok tt ->
                   exists i, to_id "object" e = Ok i /\ S (body e) = [EDb "Delete" [JStr i]]).
    { intros e. unfold body. rewrite res_env_bindr, S_bindr, res_env_lift, S_lift. cbn [app].
      destruct (to_id "object" e) as [id|x|p]; [|intros H; discriminate H|intros H; discriminate H].
      intros H. apply with_lock_ok in H. destruct H as [_ Hs]. exists id. split; [reflexivity|].
      rewrite Hs. apply (S_db_unit "Delete" [JStr id]). apply is_store_delete. }
    destruct (foreach_stores body _ _ Hb _ El) as [ids [Hv Hs]].
    exists ids. split; [exact Hv|]. rewrite Hs, S_wrapped, app_nil_r. reflexivity.
  Qed.
End Any.

(* reads store nothing, whatever is answered *)
Lemma S_db_bool env op args : is_store (EDb op (map canon args)) = false -> S env (db_bool op args) = [].
Proof.
  intros Hs. unfold db_bool, db. rewrite S_bind, S_call, res_call, Hs. destruct (env (EDb op (map canon args))); reflexivity.
Qed.
Lemma S_db_json env op args : is_store (EDb op (map canon args)) = false -> S env (db_json op args) = [].
Proof.
  intros Hs. unfold db_json, db. rewrite S_bind, S_call, res_call, Hs. destruct (env (EDb op (map canon args))); reflexivity.
Qed.

(* a successful loop converted every object element to an id *)
Lemma foreach_like_ids env cp id : forall es, res_env env (foreach es (like_loop cp id)) = Ok tt -> exists os, to_ids "object" es = Ok os.
Proof.
  induction es as [|e r IH]; cbn [foreach to_ids]; [intros _; exists []; reflexivity|].
  rewrite res_env_bindr. unfold like_loop at 1. rewrite res_env_bindr, res_env_lift.
  destruct (to_id "object" e) as [o|x|p]; [|intros H; discriminate H|intros H; discriminate H].
  match goal with |- context [res_env env (with_lock_deferred o ?b)] => destruct (res_env env (with_lock_deferred o b)) as [u|x|p] end;
    [|intros H; discriminate H|intros H; discriminate H].
  intros H. destruct (IH H) as [os Hos]. rewrite Hos. exists (o :: os). reflexivity.
Qed.

(* every Update is a store, so the Update events of a run are those among its stores *)
Lemma update_is_store e : is_update e = true -> is_store e = true.
Proof.
  destruct e as [i|i|op args|b|i|pl rc|n args|c|k v|b|]; cbn [is_update is_store]; try (intros H; discriminate H).
  intros H. apply String.eqb_eq in H. subst op. reflexivity.
Qed.
Lemma updates_stores tr : updates (stores tr) = updates tr.
Proof.
  induction tr as [|e r IH]; [reflexivity|]. unfold stores, updates in *. cbn [filter].
  destruct (is_store e) eqn:Es; cbn [filter]; [rewrite IH; reflexivity|].
  destruct (is_update e) eqn:Eu; [apply update_is_store in Eu; rewrite Eu in Es; discriminate Es|exact IH].
Qed.

(* ================= Part 2: the environment of any world ================= *)
Section World.
  Variable owns : string -> bool.
  Variable stored : string -> json.
  Variable env : ev -> ans.
  Hypothesis env_lock : forall i, env (ELock i) = AOk.
  Hypothesis env_owns : forall i, env (EDb "Owns" [JStr i]) = ABool (owns i).
  Hypothesis env_get : forall i, env (EDb "Get" [JStr i]) = AJson (stored i).
  Hypothesis env_update : forall x, env (EDb "Update" [x]) = AOk.

  Lemma w_lock i : res_env env (lock i) = Ok tt.
  Proof. unfold lock. rewrite res_env_bind, res_call, env_lock. reflexivity. Qed.
  Lemma w_owns i : res_env env (db_bool "Owns" [JStr i]) = Ok (owns i).
  Proof. unfold db_bool, db. rewrite res_env_bind, res_call. cbn [map canon]. rewrite env_owns. reflexivity. Qed.
  Lemma w_get i : res_env env (db_json "Get" [JStr i]) = Ok (stored i).
  Proof. unfold db_json, db. rewrite res_env_bind, res_call. cbn [map canon]. rewrite env_get. reflexivity. Qed.
  Lemma w_update x : res_env env (db_unit "Update" [x]) = Ok tt.
  Proof. unfold db_unit, db. rewrite res_env_bind, res_call. cbn [map]. rewrite env_update. reflexivity. Qed.

  Lemma with_lock_run {A} i (body : prog (res A)) :
    res_env env (with_lock_deferred i body) = res_env env body /\ S env (with_lock_deferred i body) = S env body.
  Proof.
    unfold with_lock_deferred. rewrite res_env_bindr, S_bindr, w_lock, S_lock. cbn [app].
    rewrite res_env_bind, res_env_bind, S_bind, S_bind, S_unlock. cbn [app]. rewrite S_ret, app_nil_r.
    split; reflexivity.
  Qed.

  (* what one object contributes: cp is "likes" or "shares", id the id of the activity *)
  Definition like_one (cp id o : string) : res unit * list ev :=
    if owns o then match prepend_on cp id (stored o) with
                   | Ok t' => (Ok tt, [EDb "Update" [canon t']])
                   | Err e => (Err e, []) | Panic s => (Panic s, []) end
    else (Ok tt, []).

  Lemma run_like_loop cp id e o : to_id "object" e = Ok o ->
    res_env env (like_loop cp id e) = fst (like_one cp id o) /\ S env (like_loop cp id e) = snd (like_one cp id o).
  Proof.
    intros Ho. unfold like_loop, like_one.
    rewrite res_env_bindr, S_bindr, res_env_lift, S_lift, Ho. cbn beta iota. cbn [app].
    match goal with |- context [with_lock_deferred o ?b] => destruct (with_lock_run o b) as [E1 E2] end.
    rewrite E1, E2. clear E1 E2.
    rewrite res_env_bindr, S_bindr, w_owns, (S_db_bool env "Owns" [JStr o] eq_refl). cbn [app].
    destruct (owns o); cbn [negb].
    - rewrite res_env_bindr, S_bindr, w_get, (S_db_json env "Get" [JStr o] eq_refl). cbn [app].
      rewrite res_env_bindr, S_bindr, res_env_lift, S_lift. cbn [app].
      destruct (prepend_on cp id (stored o)) as [t'|x|p]; cbn [fst snd]; [|split; reflexivity|split; reflexivity].
      rewrite w_update, (S_db_unit env "Update" [t'] (is_store_update _)). split; reflexivity.
    - split; reflexivity.
  Qed.

  (* the whole loop: the contributions in order, up to the first failure *)
  Fixpoint like_all (cp id : string) (os : list string) : res unit * list ev :=
    match os with
    | [] => (Ok tt, [])
    | o :: r => match like_one cp id o with
                | (Ok _, us) => let '(x, more) := like_all cp id r in (x, us ++ more)
                | (x, us) => (x, us)
                end
    end.

  Lemma run_like_objects cp id : forall es os, to_ids "object" es = Ok os ->
    res_env env (foreach es (like_loop cp id)) = fst (like_all cp id os) /\ S env (foreach es (like_loop cp id)) = snd (like_all cp id os).
  Proof.
    induction es as [|e r IH]; intros os; cbn [to_ids].
    - intros H. injection H as <-. cbn [foreach like_all]. split; reflexivity.
    - destruct (to_id "object" e) as [o|x|p] eqn:Eo; [|intros H; discriminate H|intros H; discriminate H].
      destruct (to_ids "object" r) as [os'|x|p]; [|intros H; discriminate H|intros H; discriminate H].
      intros H. injection H as <-. destruct (IH os' eq_refl) as [IH1 IH2].
      cbn [foreach like_all]. rewrite res_env_bindr, S_bindr. destruct (run_like_loop cp id e o Eo) as [E1 E2]. rewrite E1, E2.
      destruct (like_one cp id o) as [[[]|x|p] us]; cbn [fst snd].
      + rewrite IH1, IH2. destruct (like_all cp id os') as [x more]. split; reflexivity.
      + rewrite app_nil_r. split; reflexivity.
      + rewrite app_nil_r. split; reflexivity.
  Qed.

  Definition like_updates (cp id : string) (os : list string) : list ev :=
    flat_map (fun o => if owns o then match prepend_on cp id (stored o) with
                                      | Ok t' => [EDb "Update" [canon t']]
                                      | _ => [] end else []) os.

  Lemma like_all_ok cp id : forall os, fst (like_all cp id os) = Ok tt ->
    snd (like_all cp id os) = like_updates cp id os
    /\ forall o, In o os -> owns o = true -> exists t', prepend_on cp id (stored o) = Ok t'.
  Proof.
    unfold like_updates.
    induction os as [|o r IH]; cbn [like_all flat_map]; [intros _; split; [reflexivity|intros o []]|].
    unfold like_one at 1 2. destruct (owns o) eqn:Eo.
    - destruct (prepend_on cp id (stored o)) as [t'|x|p] eqn:Ep; cbn [fst snd]; try (intros H; discriminate H).
      destruct (like_all cp id r) as [x more] eqn:Ea. cbn [fst snd]. intros Hx. subst x. destruct (IH eq_refl) as [IH1 IH2]. cbn [snd] in IH1.
      split; [rewrite IH1; reflexivity|]. intros o' [<-|Hin] Ho; [exists t'; exact Ep|apply IH2; assumption].
    - destruct (like_all cp id r) as [x more] eqn:Ea. cbn [fst snd app]. intros Hx. subst x. destruct (IH eq_refl) as [IH1 IH2]. cbn [snd] in IH1.
      split; [exact IH1|]. intros o' [<-|Hin] Ho; [rewrite Eo in Ho; discriminate Ho|apply IH2; assumption].
  Qed.

  Theorem like_updates_every_owned_object cfg a id objs :
    get_id a = Ok id -> to_ids "object" (elems0 "object" a) = Ok objs ->
    res_env env (like cfg a) = Ok tt ->
    S env (like cfg a) = flat_map (fun o => if owns o then match prepend_on "likes" id (stored o) with
                                                          | Ok t' => [EDb "Update" [canon t']]
                                                          | _ => [] end else []) objs
    /\ forall o, In o objs -> owns o = true -> exists t', prepend_on "likes" id (stored o) = Ok t'.
  Proof.
    intros Hid Hobjs. unfold like. destruct (object_required a); [intros H; discriminate H|].
    rewrite res_env_bindr, S_bindr, res_env_lift, S_lift, Hid. cbn beta iota. cbn [app].
    rewrite res_env_bindr, S_bindr. destruct (run_like_objects "likes" id _ _ Hobjs) as [E1 E2]. rewrite E1, E2.
    destruct (fst (like_all "likes" id objs)) as [u|x|p] eqn:Ef; [|intros H; discriminate H|intros H; discriminate H].
    destruct u. intros _. rewrite S_wrapped, app_nil_r. apply (like_all_ok "likes" id objs Ef).
  Qed.

  Theorem announce_updates_every_owned_object cfg a id objs :
    get_id a = Ok id -> to_ids "object" (elems0 "object" a) = Ok objs ->
    res_env env (announce cfg a) = Ok tt ->
    S env (announce cfg a) = flat_map (fun o => if owns o then match prepend_on "shares" id (stored o) with
                                                              | Ok t' => [EDb "Update" [canon t']]
                                                              | _ => [] end else []) objs
    /\ forall o, In o objs -> owns o = true -> exists t', prepend_on "shares" id (stored o) = Ok t'.
  Proof.
    intros Hid Hobjs. unfold announce.
    rewrite res_env_bindr, S_bindr, res_env_lift, S_lift, Hid. cbn beta iota. cbn [app].
    rewrite res_env_bindr, S_bindr. destruct (run_like_objects "shares" id _ _ Hobjs) as [E1 E2]. rewrite E1, E2.
    destruct (fst (like_all "shares" id objs)) as [u|x|p] eqn:Ef; [|intros H; discriminate H|intros H; discriminate H].
    destruct u. intros _. rewrite S_wrapped, app_nil_r. apply (like_all_ok "shares" id objs Ef).
  Qed.
  (* the same without assuming that the ids can be read: a successful Like / Announce has read them *)
  Lemma updates_like_updates cp id : forall os, updates (like_updates cp id os) = like_updates cp id os.
  Proof.
    unfold like_updates. induction os as [|o r IH]; cbn [flat_map]; [reflexivity|]. rewrite updates_app, IH.
    destruct (owns o); [|reflexivity]. destruct (prepend_on cp id (stored o)); reflexivity.
  Qed.

  Corollary like_total cfg a : res_env env (like cfg a) = Ok tt ->
    exists id objs, get_id a = Ok id /\ to_ids "object" (elems0 "object" a) = Ok objs
      /\ S env (like cfg a) = like_updates "likes" id objs
      /\ updates (evs_env env (like cfg a)) = like_updates "likes" id objs
      /\ forall o, In o objs -> owns o = true -> exists t', prepend_on "likes" id (stored o) = Ok t'.
  Proof.
    intros H. pose proof H as H0. unfold like in H0. destruct (object_required a); [discriminate H0|].
    rewrite res_env_bindr, res_env_lift in H0. destruct (get_id a) as [id|x|p] eqn:Eid; [|discriminate H0|discriminate H0].
    rewrite res_env_bindr in H0.
    destruct (res_env env (foreach (elems0 "object" a) (like_loop "likes" id))) as [u|x|p] eqn:El; [|discriminate H0|discriminate H0].
    destruct u. destruct (foreach_like_ids env "likes" id _ El) as [objs Hobjs].
    destruct (like_updates_every_owned_object cfg a id objs Eid Hobjs H) as [E1 E2].
    exists id, objs. split; [reflexivity|]. split; [exact Hobjs|]. split; [exact E1|]. split; [|exact E2].
    rewrite <- updates_stores. change (stores (evs_env env (like cfg a))) with (S env (like cfg a)). rewrite E1. apply updates_like_updates.
  Qed.

  Corollary announce_total cfg a : res_env env (announce cfg a) = Ok tt ->
    exists id objs, get_id a = Ok id /\ to_ids "object" (elems0 "object" a) = Ok objs
      /\ S env (announce cfg a) = like_updates "shares" id objs
      /\ updates (evs_env env (announce cfg a)) = like_updates "shares" id objs
      /\ forall o, In o objs -> owns o = true -> exists t', prepend_on "shares" id (stored o) = Ok t'.
  Proof.
    intros H. pose proof H as H0. unfold announce in H0.
    rewrite res_env_bindr, res_env_lift in H0. destruct (get_id a) as [id|x|p] eqn:Eid; [|discriminate H0|discriminate H0].
    rewrite res_env_bindr in H0.
    destruct (res_env env (foreach (elems0 "object" a) (like_loop "shares" id))) as [u|x|p] eqn:El; [|discriminate H0|discriminate H0].
    destruct u. destruct (foreach_like_ids env "shares" id _ El) as [objs Hobjs].
    destruct (announce_updates_every_owned_object cfg a id objs Eid Hobjs H) as [E1 E2].
    exists id, objs. split; [reflexivity|]. split; [exact Hobjs|]. split; [exact E1|]. split; [|exact E2].
    rewrite <- updates_stores. change (stores (evs_env env (announce cfg a))) with (S env (announce cfg a)). rewrite E1. apply updates_like_updates.
  Qed.
End World.

(* ================= the hypotheses are satisfiable ================= *)
Definition ex_cfg : config :=
  {| c_social := true; c_federating := true; c_on_follow := 0; c_fed_wrapped := ["Create"; "Like"];
     c_fed_other := []; c_soc_wrapped := []; c_soc_other := [] |}.
Definition ex_note : json := JObj [("id", JStr "https://h.example/n1"); ("type", JStr "Note"); ("content", JStr "hello")].
Definition ex_create : json :=
  JObj [("id", JStr "https://h.example/a1"); ("type", JStr "Create"); ("actor", JStr "https://h.example/u"); ("object", ex_note)].

(* Part 1: a Create with one embedded Note, every call succeeding *)
Example ex_create_stores :
  res_env (fun _ => AOk) (create ex_cfg "https://h.example/inbox" ex_create) = Ok tt
  /\ S (fun _ => AOk) (create ex_cfg "https://h.example/inbox" ex_create) = [EDb "Create" [canon ex_note]].
Proof. vm_compute. split; reflexivity. Qed.

(* Part 2: a Like of an owned Note and of somebody else's; the world owns n1 and holds ex_note for it *)
Definition ex_owns (i : string) : bool := String.eqb i "https://h.example/n1".
Definition ex_stored (i : string) : json := ex_note.
Definition ex_env (e : ev) : ans :=
  match e with
  | EDb op [JStr i] => if String.eqb op "Owns" then ABool (ex_owns i) else if String.eqb op "Get" then AJson (ex_stored i) else AOk
  | _ => AOk
  end.
Definition ex_like : json :=
  JObj [("id", JStr "https://other.example/l1"); ("type", JStr "Like"); ("actor", JStr "https://other.example/v");
        ("object", JArr [JStr "https://h.example/n1"; JStr "https://third.example/n2"])].
Lemma ex_env_lock : forall i, ex_env (ELock i) = AOk. Proof. reflexivity. Qed.
Lemma ex_env_owns : forall i, ex_env (EDb "Owns" [JStr i]) = ABool (ex_owns i). Proof. reflexivity. Qed.
Lemma ex_env_get : forall i, ex_env (EDb "Get" [JStr i]) = AJson (ex_stored i). Proof. reflexivity. Qed.
Lemma ex_env_update : forall x, ex_env (EDb "Update" [x]) = AOk. Proof. intros x. destruct x; reflexivity. Qed.
Example ex_like_hyps :
  get_id ex_like = Ok "https://other.example/l1"
  /\ to_ids "object" (elems0 "object" ex_like) = Ok ["https://h.example/n1"; "https://third.example/n2"]
  /\ res_env ex_env (like ex_cfg ex_like) = Ok tt.
Proof. vm_compute. repeat split. Qed.
Example ex_like_stores :
  S ex_env (like ex_cfg ex_like)
  = [EDb "Update" [canon (JObj [("id", JStr "https://h.example/n1"); ("type", JStr "Note"); ("content", JStr "hello");
                                ("likes", JObj [("type", JStr "Collection"); ("items", JStr "https://other.example/l1")])])]].
Proof.
  destruct ex_like_hyps as [H1 [H2 H3]].
  destruct (like_updates_every_owned_object ex_owns ex_stored ex_env ex_env_lock ex_env_owns ex_env_get ex_env_update ex_cfg _ _ _ H1 H2 H3) as [E _].
  rewrite E. vm_compute. reflexivity.
Qed.

Print Assumptions value_or_fetch_spec.
Print Assumptions create_stores_every_object.
Print Assumptions update_stores_exactly_named.
Print Assumptions delete_removes_exactly_named.
Print Assumptions like_updates_every_owned_object.
Print Assumptions announce_updates_every_owned_object.
Print Assumptions like_total.
Print Assumptions announce_total.
