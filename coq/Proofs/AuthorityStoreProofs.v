(* C06, "a peer cannot act beyond its authority", at the level of runs against EVERY environment:
   a federated Update / Delete whose objects do not come from the activity's own host stores nothing and fails; an Undo whose
   actors are not the actors of what it undoes fails before the application's Undo callback runs.
   (What must_origin_match = Ok tt means host by host is Proofs/AuthorityProofs.v origin_match_char = C06_origin.) *)
From Coq Require Import String List Bool Arith.
From Verif Require Import Base.ListX Base.Json Base.Free Pub.Events Pub.Calls Pub.Value Pub.EffectSpec Pub.Util Pub.SideEffect Pub.Fed.
From Verif Require Import Proofs.OnlyProofs Proofs.DeliveryProofs Proofs.ForwardIffProofs Proofs.AuthorityProofs Proofs.StoreProofs Proofs.FollowProofs.
Import ListNotations.
Open Scope string_scope.
Open Scope list_scope.
Open Scope prog_scope.

Local Opaque has_prop known_type admits T P is_or_extends.

(* the application's callback for a type did not run *)
Definition is_wrapped_call (name : string) (e : ev) : bool :=
  match e with EApp n _ => String.eqb n ("Wrapped:" ++ name)%string | _ => false end.
Definition not_wrapped_call (name : string) (e : ev) : bool := negb (is_wrapped_call name e).

Section Any.
  Variable env : ev -> ans.

  (* ---- (O1) Update / Delete from a foreign origin ---- *)
  Theorem update_foreign_origin_nothing cfg a : (forall u, must_origin_match a <> Ok u) ->
    (forall u, res_env env (Fed.update cfg a) <> Ok u) /\ S env (Fed.update cfg a) = [].
  Proof.
    intros Hm. unfold Fed.update. destruct (object_required a); [split; [intros u H; discriminate H|reflexivity]|].
    rewrite res_env_bindr, S_bindr, res_env_lift, S_lift. cbn [app].
    destruct (must_origin_match a) as [u0|e|p]; [destruct (Hm u0 eq_refl)| |]; split; try reflexivity; intros u H; discriminate H.
  Qed.
  Theorem delete_foreign_origin_nothing cfg a : (forall u, must_origin_match a <> Ok u) ->
    (forall u, res_env env (Fed.delete cfg a) <> Ok u) /\ S env (Fed.delete cfg a) = [].
  Proof.
    intros Hm. unfold Fed.delete. destruct (object_required a); [split; [intros u H; discriminate H|reflexivity]|].
    rewrite res_env_bindr, S_bindr, res_env_lift, S_lift. cbn [app].
    destruct (must_origin_match a) as [u0|e|p]; [destruct (Hm u0 eq_refl)| |]; split; try reflexivity; intros u H; discriminate H.
  Qed.
  (* the positive reading: a successful Update / Delete passed the origin check (and had an object) *)
  Theorem update_ok_origin cfg a u : res_env env (Fed.update cfg a) = Ok u -> object_required a = false /\ must_origin_match a = Ok tt.
  Proof.
    unfold Fed.update. destruct (object_required a); [intros H; discriminate H|].
    rewrite res_env_bindr, res_env_lift. destruct (must_origin_match a) as [[]|e|p]; [|intros H; discriminate H|intros H; discriminate H].
    intros _. split; reflexivity.
  Qed.
  Theorem delete_ok_origin cfg a u : res_env env (Fed.delete cfg a) = Ok u -> object_required a = false /\ must_origin_match a = Ok tt.
  Proof.
    unfold Fed.delete. destruct (object_required a); [intros H; discriminate H|].
    rewrite res_env_bindr, res_env_lift. destruct (must_origin_match a) as [[]|e|p]; [|intros H; discriminate H|intros H; discriminate H].
    intros _. split; reflexivity.
  Qed.

  (* ---- (O2) Undo by somebody who is not an actor of what is undone ---- *)
  Lemma only_must_actors_match_no_callback name inbox a : only (not_wrapped_call name) (must_actors_match inbox a).
  Proof. apply (q_must_actors_match (not_wrapped_call name)); intros; reflexivity. Qed.

  Theorem undo_foreign_actor_no_callback cfg inbox a : (forall u, res_env env (must_actors_match inbox a) <> Ok u) ->
    (forall u, res_env env (undo cfg inbox a) <> Ok u)
    /\ forallb (not_wrapped_call "Undo") (evs_env env (undo cfg inbox a)) = true
    /\ forall args, ~ In (EApp "Wrapped:Undo" args) (evs_env env (undo cfg inbox a)).
  Proof.
    intros Hm.
    assert (Hcore : (forall u, res_env env (undo cfg inbox a) <> Ok u)
                    /\ forallb (not_wrapped_call "Undo") (evs_env env (undo cfg inbox a)) = true).
    { unfold undo. destruct (object_required a); [split; [intros u H; discriminate H|reflexivity]|].
      rewrite res_env_bindr, evs_env_bindr.
      pose proof (only_evs _ env _ (only_must_actors_match_no_callback "Undo" inbox a)) as Ho.
      destruct (res_env env (must_actors_match inbox a)) as [u0|e|p] eqn:Em; [exfalso; exact (Hm u0 eq_refl)| |];
        (split; [intros u H; discriminate H|rewrite app_nil_r; exact Ho]). }
    destruct Hcore as [H1 H2]. split; [exact H1|]. split; [exact H2|].
    intros args Hin. rewrite forallb_forall in H2. specialize (H2 _ Hin). discriminate H2.
  Qed.
  Theorem undo_ok_actors cfg inbox a u : res_env env (undo cfg inbox a) = Ok u ->
    object_required a = false /\ res_env env (must_actors_match inbox a) = Ok tt.
  Proof.
    unfold undo. destruct (object_required a); [intros H; discriminate H|].
    rewrite res_env_bindr. destruct (res_env env (must_actors_match inbox a)) as [[]|e|p]; [|intros H; discriminate H|intros H; discriminate H].
    intros _. split; reflexivity.
  Qed.
  (* the callback, when there is one and the check passed, does run: the statement above is not vacuous *)
  Lemma undo_ok_callback cfg inbox a u : mem "Undo" (c_fed_wrapped cfg) = true -> res_env env (undo cfg inbox a) = Ok u ->
    In (EApp "Wrapped:Undo" [canon a]) (evs_env env (undo cfg inbox a)).
  Proof.
    intros Hw H. destruct (undo_ok_actors cfg inbox a u H) as [Ho Hm]. unfold undo. rewrite Ho.
    rewrite evs_env_bindr, Hm. apply in_or_app. right. unfold wrapped. rewrite Hw.
    unfold app_unit, app. rewrite evs_env_bind. apply in_or_app. left. left. reflexivity.
  Qed.

  (* ---- (O3) what the origin check means: every object's id has the host of the activity's id ---- *)
  Corollary update_ok_hosts cfg a u : res_env env (Fed.update cfg a) = Ok u ->
    exists origin, get_id a = Ok origin /\ is_nil origin = false /\
      Forall (fun e => exists i, to_id "object" e = Ok i /\ is_nil i = false /\ host_of i = host_of origin) (elems0 "object" a).
  Proof. intros H. apply origin_match_char. exact (proj2 (update_ok_origin cfg a u H)). Qed.
  Corollary delete_ok_hosts cfg a u : res_env env (Fed.delete cfg a) = Ok u ->
    exists origin, get_id a = Ok origin /\ is_nil origin = false /\
      Forall (fun e => exists i, to_id "object" e = Ok i /\ is_nil i = false /\ host_of i = host_of origin) (elems0 "object" a).
  Proof. intros H. apply origin_match_char. exact (proj2 (delete_ok_origin cfg a u H)). Qed.
End Any.

(* ================= examples ================= *)
Definition zx_cfg : config :=
  {| c_social := true; c_federating := true; c_on_follow := 0; c_fed_wrapped := ["Update"; "Delete"; "Undo"]; c_fed_other := [];
     c_soc_wrapped := []; c_soc_other := [] |}.
(* remote.example updates a note that lives on other.example *)
Definition zx_update (note_id : string) : json :=
  JObj [("id", JStr "https://remote.example/activities/1"); ("type", JStr "Update"); ("actor", JStr "https://remote.example/mallory");
        ("object", JObj [("type", JStr "Note"); ("id", JStr note_id); ("content", JStr "defaced")])].
Example zx_update_foreign :
  must_origin_match (zx_update "https://other.example/notes/1") = Err EGeneric
  /\ res_env (fun _ => AOk) (Fed.update zx_cfg (zx_update "https://other.example/notes/1")) = Err EGeneric
  /\ evs_env (fun _ => AOk) (Fed.update zx_cfg (zx_update "https://other.example/notes/1")) = [].
Proof. vm_compute. repeat split. Qed.
(* its own note: accepted, stored, the application told *)
Example zx_update_own :
  res_env (fun _ => AOk) (Fed.update zx_cfg (zx_update "https://remote.example/notes/1")) = Ok tt
  /\ S (fun _ => AOk) (Fed.update zx_cfg (zx_update "https://remote.example/notes/1")) =
       [EDb "Update" [canon (JObj [("type", JStr "Note"); ("id", JStr "https://remote.example/notes/1"); ("content", JStr "defaced")])]].
Proof. vm_compute. split; reflexivity. Qed.
Definition zx_delete (note_id : string) : json :=
  JObj [("id", JStr "https://remote.example/activities/2"); ("type", JStr "Delete"); ("actor", JStr "https://remote.example/mallory");
        ("object", JStr note_id)].
Example zx_delete_foreign :
  res_env (fun _ => AOk) (Fed.delete zx_cfg (zx_delete "https://other.example/notes/1")) = Err EGeneric
  /\ evs_env (fun _ => AOk) (Fed.delete zx_cfg (zx_delete "https://other.example/notes/1")) = [].
Proof. vm_compute. repeat split. Qed.

(* mallory undoes carol's Follow: the Follow is dereferenced, its actor is carol - an error, and no Undo callback *)
Definition zx_carol_follow : json :=
  JObj [("@context", JStr "https://www.w3.org/ns/activitystreams"); ("type", JStr "Follow"); ("id", JStr "https://c.example/follows/1");
        ("actor", JStr "https://c.example/carol"); ("object", JStr "https://h.example/alice")].
Definition zx_env (e : ev) : ans := match e with EDeref _ => AJson zx_carol_follow | _ => AOk end.
Definition zx_undo (by_ : string) : json :=
  JObj [("id", JStr "https://remote.example/activities/3"); ("type", JStr "Undo"); ("actor", JStr by_);
        ("object", JStr "https://c.example/follows/1")].
Example zx_undo_foreign :
  res_env zx_env (must_actors_match "https://h.example/alice/inbox" (zx_undo "https://remote.example/mallory")) = Err EGeneric
  /\ run_env zx_env (undo zx_cfg "https://h.example/alice/inbox" (zx_undo "https://remote.example/mallory"))
     = (Err EGeneric, [ENewTransport "https://h.example/alice/inbox"; EDeref "https://c.example/follows/1"]).
Proof. vm_compute. split; reflexivity. Qed.
Example zx_undo_own :
  run_env zx_env (undo zx_cfg "https://h.example/alice/inbox" (zx_undo "https://c.example/carol"))
  = (Ok tt, [ENewTransport "https://h.example/alice/inbox"; EDeref "https://c.example/follows/1";
             EApp "Wrapped:Undo" [canon (zx_undo "https://c.example/carol")]]).
Proof. vm_compute. reflexivity. Qed.

Print Assumptions update_foreign_origin_nothing.
Print Assumptions delete_foreign_origin_nothing.
Print Assumptions update_ok_origin.
Print Assumptions delete_ok_origin.
Print Assumptions undo_foreign_actor_no_callback.
Print Assumptions undo_ok_actors.
Print Assumptions undo_ok_callback.
Print Assumptions update_ok_hosts.
Print Assumptions delete_ok_hosts.
