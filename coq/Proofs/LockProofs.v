(* C09: lock discipline of package pub under every environment. *)
From Coq Require Import String List Bool Arith ZArith.
From Verif Require Import Base.ListX Base.Json Base.Free Pub.Events Pub.Calls Pub.Value Pub.Util Pub.SideEffect Pub.Fed Pub.Soc Pub.BaseActor Pub.Monitors.
Import ListNotations.
Open Scope string_scope.
Open Scope list_scope.
Open Scope prog_scope.

Notation step := lock_step_gen.
Definition keeps {A} (s : bool) (m : prog A) (h : held) : Prop := wp (step s) m h (fun h' _ => h' = h).

(* LT: does its own locking, entered with nothing held in strict mode, anything in counting mode *)
Definition LT {A} (s : bool) (m : prog A) : Prop := forall h, (s = true -> h = []) -> keeps s m h.
(* LD: touches the Database without locking: needs a lock held *)
Definition LD {A} (s : bool) (m : prog A) : Prop := forall h, h <> [] -> keeps s m h.
(* LF: neither locks nor touches the Database (id generation aside) *)
Definition lf (e : ev) : bool :=
  match e with ELock _ | EUnlock _ => false | EDb op _ => String.eqb op "NewID" | _ => true end.
Fixpoint LFp {A} (m : prog A) : Prop :=
  match m with Ret _ => True | Op e k => lf e = true /\ forall x, LFp (k x) end.

Lemma step_lf s h e x : lf e = true -> step s h e x = Some h.
Proof. destruct e; simpl; intros H; try discriminate; try reflexivity. rewrite H. reflexivity. Qed.

Lemma LF_keeps {A} (m : prog A) : LFp m -> forall s h (Q : held -> A -> Prop), (forall a, Q h a) -> wp (step s) m h Q.
Proof.
  induction m as [a|e k IH]; simpl; intros Hm s h Q HQ; [apply HQ|].
  destruct Hm as [He Hk]. intros x. rewrite (step_lf s h e x He). apply IH; [apply Hk|exact HQ].
Qed.

Lemma LF_LT {A} s (m : prog A) : LFp m -> LT s m.
Proof. intros H h _. apply LF_keeps; [exact H|reflexivity]. Qed.
Lemma LF_LD {A} s (m : prog A) : LFp m -> LD s m.
Proof. intros H h _. apply LF_keeps; [exact H|reflexivity]. Qed.

(* ---- composition ---- *)
Lemma keeps_bind {A B} s (m : prog A) (f : A -> prog B) h :
  keeps s m h -> (forall a, keeps s (f a) h) -> keeps s (bind m f) h.
Proof. intros Hm Hf. apply wp_bind. eapply wp_mono; [|exact Hm]. intros h' a E. simpl in E. subst. apply Hf. Qed.
Lemma keeps_bindr {A B} s (m : prog (res A)) (f : A -> prog (res B)) h :
  keeps s m h -> (forall a, keeps s (f a) h) -> keeps s (bindr m f) h.
Proof. intros Hm Hf. unfold bindr. apply keeps_bind; [exact Hm|]. intros [a|e|x]; [apply Hf|reflexivity|reflexivity]. Qed.
Lemma keeps_ret {A} s (a : A) h : keeps s (Ret a) h. Proof. reflexivity. Qed.

Lemma keeps_foreach {A} s (l : list A) (f : A -> prog (res unit)) h :
  (forall x, keeps s (f x) h) -> keeps s (foreach l f) h.
Proof. intros Hf. induction l as [|x r IH]; simpl; [reflexivity|]. apply keeps_bindr; [apply Hf|intros _; exact IH]. Qed.

(* ---- the primitive calls ---- *)
Lemma keeps_db s op args h : h <> [] -> keeps s (db op args) h.
Proof.
  intros Hh. unfold db, call, keeps. simpl. intros x. destruct (String.eqb op "NewID"); [reflexivity|].
  destruct h; [congruence|reflexivity].
Qed.
Lemma keeps_newid s args h : keeps s (db "NewID" args) h.
Proof. unfold db, call, keeps. simpl. intros x. reflexivity. Qed.

Lemma mem_head i h : mem i (i :: h) = true.
Proof. unfold mem. simpl. rewrite String.eqb_refl. reflexivity. Qed.
Lemma remove1_head i h : remove1 i (i :: h) = h.
Proof. simpl. rewrite String.eqb_refl. reflexivity. Qed.
Lemma step_unlock_head s i h x : step s (i :: h) (EUnlock i) x = Some h.
Proof. unfold lock_step_gen. rewrite mem_head, remove1_head. reflexivity. Qed.

(* Lock i ... Unlock i around a body that keeps the (extended) held set *)
Lemma keeps_locked {A} s i (body : prog (res A)) h : (s = true -> mem i h = false) ->
  keeps s body (i :: h) -> keeps s (with_lock_deferred i body) h.
Proof.
  intros Hi Hb. unfold with_lock_deferred, lock, unlock, call, keeps. simpl. intros x.
  assert (E : s && mem i h = false) by (destruct s; [rewrite Hi; reflexivity|reflexivity]). rewrite E.
  destruct x; simpl; try reflexivity.
  apply wp_bind. eapply wp_mono; [|exact Hb]. intros h' r Eh. simpl in Eh. subst h'.
  cbn [wp bind]. intros y. rewrite step_unlock_head. reflexivity.
Qed.

(* explicit "Lock i; ... ; Unlock i; ..." sequences *)
Lemma wp_lock_then {A} s i (k : unit -> prog (res A)) h (Q : held -> res A -> Prop) :
  (s = true -> mem i h = false) -> (forall e, Q h (Err e)) -> wp (step s) (k tt) (i :: h) Q ->
  wp (step s) (bindr (lock i) k) h Q.
Proof.
  intros Hi He Hk. unfold bindr, lock, call. simpl. intros x.
  assert (E : s && mem i h = false) by (destruct s; [rewrite Hi; reflexivity|reflexivity]). rewrite E.
  destruct x; simpl; try apply He. exact Hk.
Qed.
Lemma wp_unlock_then {A} s i (k : prog A) h (Q : held -> A -> Prop) :
  wp (step s) k h Q -> wp (step s) (bind (unlock i) (fun _ => k)) (i :: h) Q.
Proof.
  intros Hk. unfold unlock, call. cbn [wp bind]. intros y. rewrite step_unlock_head. exact Hk.
Qed.

(* ---- general post-condition form: from the current held set [cur] back to [H] ---- *)
Definition K {A} (s : bool) (m : prog A) (cur H : held) : Prop := wp (step s) m cur (fun h' _ => h' = H).

Lemma K_bind {A B} s (m : prog A) (f : A -> prog B) cur H :
  K s m cur cur -> (forall a, K s (f a) cur H) -> K s (bind m f) cur H.
Proof. intros Hm Hf. apply wp_bind. eapply wp_mono; [|exact Hm]. intros h' a E. simpl in E. subst. apply Hf. Qed.
Lemma K_bindr {A B} s (m : prog (res A)) (f : A -> prog (res B)) cur H :
  K s m cur cur -> cur = H -> (forall a, K s (f a) cur H) -> K s (bindr m f) cur H.
Proof. intros Hm E Hf. unfold bindr. apply K_bind; [exact Hm|]. intros [a|e|x]; [apply Hf|exact E|exact E]. Qed.
(* inside a lock region an error must not simply be propagated: bindr is only allowed when cur = H;
   the hand-written sequences use bind + explicit unlock instead *)

Lemma K_lock_then {A} s i (k : unit -> prog (res A)) H :
  (s = true -> mem i H = false) -> K s (k tt) (i :: H) H -> K s (bindr (lock i) k) H H.
Proof. intros Hi Hk. apply wp_lock_then; [exact Hi|reflexivity|exact Hk]. Qed.
Lemma K_unlock_then {A} s i (k : prog A) cur H : K s k cur H -> K s (bind (unlock i) (fun _ => k)) (i :: cur) H.
Proof. apply wp_unlock_then. Qed.

Lemma keeps_lift {A} s (r : res A) h : keeps s (lift r) h. Proof. reflexivity. Qed.

(* Database wrappers under a held lock *)
Lemma keeps_db_unit s op args h : h <> [] -> keeps s (db_unit op args) h.
Proof. intros Hh. unfold db_unit. apply keeps_bind; [apply keeps_db; exact Hh|]. intros []; reflexivity. Qed.
Lemma keeps_db_bool s op args h : h <> [] -> keeps s (db_bool op args) h.
Proof. intros Hh. unfold db_bool. apply keeps_bind; [apply keeps_db; exact Hh|]. intros []; reflexivity. Qed.
Lemma keeps_db_iri s op args h : h <> [] -> keeps s (db_iri op args) h.
Proof. intros Hh. unfold db_iri. apply keeps_bind; [apply keeps_db; exact Hh|]. intros []; reflexivity. Qed.
Lemma keeps_db_opt_iri s op args h : h <> [] -> keeps s (db_opt_iri op args) h.
Proof. intros Hh. unfold db_opt_iri. apply keeps_bind; [apply keeps_db; exact Hh|]. intros []; reflexivity. Qed.
Lemma keeps_db_json s op args h : h <> [] -> keeps s (db_json op args) h.
Proof. intros Hh. unfold db_json. apply keeps_bind; [apply keeps_db; exact Hh|]. intros []; reflexivity. Qed.
Lemma keeps_db_opt_json s op args h : h <> [] -> keeps s (db_opt_json op args) h.
Proof. intros Hh. unfold db_opt_json. apply keeps_bind; [apply keeps_db; exact Hh|]. intros []; reflexivity. Qed.
Lemma keeps_newid_iri s args h : keeps s (db_iri "NewID" args) h.
Proof. unfold db_iri. apply keeps_bind; [apply keeps_newid|]. intros []; reflexivity. Qed.

(* ---- lock-free programs: syntactic decomposition, as for quiet programs ---- *)
Lemma LF_bind {A B} (m : prog A) (f : A -> prog B) : LFp m -> (forall a, LFp (f a)) -> LFp (bind m f).
Proof.
  induction m as [a|e k IH]; simpl; intros Hm Hf; [apply Hf|].
  destruct Hm as [He Hk]. split; [exact He|]. intros x. apply IH; [apply Hk|exact Hf].
Qed.
Lemma LF_bindr {A B} (m : prog (res A)) (f : A -> prog (res B)) : LFp m -> (forall a, LFp (f a)) -> LFp (bindr m f).
Proof. intros Hm Hf. unfold bindr. apply LF_bind; [exact Hm|]. intros [a|e|x]; simpl; auto. Qed.
Lemma LF_foreach {A} (l : list A) (f : A -> prog (res unit)) : (forall x, LFp (f x)) -> LFp (foreach l f).
Proof. intros Hf. induction l as [|x r IH]; simpl; [exact I|]. apply LF_bindr; [apply Hf|intros _; exact IH]. Qed.

Create HintDb lf.
Ltac lf_step :=
  match goal with
  | |- True => exact I
  | |- _ = _ /\ _ => split; [reflexivity|intros]
  | |- LFp (Ret _) => exact I
  | |- LFp (ok _) => exact I
  | |- LFp (fail _) => exact I
  | |- LFp (panic _) => exact I
  | |- LFp (ret _) => exact I
  | |- LFp (lift _) => exact I
  | |- LFp (bind _ _) => apply LF_bind; [|intros]
  | |- LFp (bindr _ _) => apply LF_bindr; [|intros]
  | |- LFp (Op _ _) => split; [reflexivity|intros]
  | |- LFp (foreach _ _) => apply LF_foreach; intros
  | |- LFp (match ?x with _ => _ end) => destruct x
  | |- LFp (if ?b then _ else _) => destruct b
  | |- LFp (let (_, _) := ?p in _) => destruct p
  | |- LFp _ => solve [auto with lf]
  end.
Ltac lfq := repeat lf_step.

Lemma lf_app n a : LFp (app n a). Proof. unfold app, call. lfq. Qed.
Lemma lf_app_unit n a : LFp (app_unit n a). Proof. unfold app_unit, app, call. lfq. Qed.
Lemma lf_new_transport b : LFp (new_transport b). Proof. unfold new_transport, call. lfq. Qed.
Lemma lf_dereference i : LFp (dereference i). Proof. unfold dereference, call. lfq. Qed.
Lemma lf_batch p r : LFp (batch_deliver p r). Proof. unfold batch_deliver, call. lfq. Qed.
Lemma lf_now : LFp now. Proof. unfold now, call. lfq. Qed.
Lemma lf_write_header n : LFp (write_header n). Proof. unfold write_header, call. lfq. Qed.
Lemma lf_set_header k v : LFp (set_header k v). Proof. unfold set_header, call. lfq. Qed.
Lemma lf_write_body b : LFp (write_body b). Proof. unfold write_body, call. lfq. Qed.
Lemma lf_newid args : LFp (db_iri "NewID" args). Proof. unfold db_iri, db, call. lfq. Qed.
#[export] Hint Resolve lf_app lf_app_unit lf_new_transport lf_dereference lf_batch lf_now lf_write_header lf_set_header lf_write_body lf_newid : lf.
Lemma lf_fetch box i : LFp (fetch box i). Proof. unfold fetch. lfq. Qed.
Lemma lf_deliver_to_recipients b a r : LFp (deliver_to_recipients b a r). Proof. unfold deliver_to_recipients. lfq. Qed.
Lemma lf_deref_for_resolving u : LFp (deref_for_resolving u). Proof. unfold deref_for_resolving. lfq. Qed.
#[export] Hint Resolve lf_fetch lf_deliver_to_recipients lf_deref_for_resolving : lf.
Lemma lf_resolve_actors fuel : forall r, LFp (resolve_actors fuel r).
Proof.
  induction fuel as [|f IH]; intros r; cbn [resolve_actors]; [exact I|].
  induction r as [|u rest IHr]; [exact I|]. lfq.
Qed.
Lemma lf_max_delivery_depth : LFp max_delivery_depth. Proof. unfold max_delivery_depth. lfq. Qed.
Lemma lf_fetch_for_forwarding box iris : LFp (fetch_for_forwarding box iris).
Proof. induction iris as [|i r IH]; cbn [fetch_for_forwarding]; lfq. Qed.
#[export] Hint Resolve lf_resolve_actors lf_max_delivery_depth lf_fetch_for_forwarding : lf.
Lemma lf_actors_match_one box aa e : LFp (actors_match_one box aa e). Proof. unfold actors_match_one. lfq. Qed.
#[export] Hint Resolve lf_actors_match_one : lf.
Lemma lf_must_actors_match box a : LFp (must_actors_match box a). Proof. unfold must_actors_match. lfq. Qed.
Lemma lf_wrapped cfg n a : LFp (Fed.wrapped cfg n a). Proof. unfold Fed.wrapped. lfq. Qed.
Lemma lf_swrapped cfg n a : LFp (swrapped cfg n a). Proof. unfold swrapped. lfq. Qed.
Lemma lf_value_or_fetch inbox e : LFp (value_or_fetch inbox e). Proof. unfold value_or_fetch. lfq. Qed.
Lemma lf_new_ids_objects l : LFp (new_ids_objects l).
Proof. induction l as [|e r IH]; cbn [new_ids_objects]; lfq. Qed.
#[export] Hint Resolve lf_must_actors_match lf_wrapped lf_swrapped lf_value_or_fetch lf_new_ids_objects : lf.
Lemma lf_add_new_ids a : LFp (add_new_ids a). Proof. unfold add_new_ids. lfq. Qed.
#[export] Hint Resolve lf_add_new_ids : lf.

(* ---- symbolic execution of the locking functions ---- *)
Lemma K_locked {A} s i (body : prog (res A)) H : (s = true -> mem i H = false) ->
  K s body (i :: H) (i :: H) -> K s (with_lock_deferred i body) H H.
Proof. apply keeps_locked. Qed.
Lemma K_foreach {A} s (l : list A) (f : A -> prog (res unit)) H :
  (forall x, K s (f x) H H) -> K s (foreach l f) H H.
Proof. apply keeps_foreach. Qed.
Lemma K_LF {A} s (m : prog A) cur : LFp m -> K s m cur cur.
Proof. intros H. apply LF_keeps; [exact H|reflexivity]. Qed.

(* side condition of a locking function: in strict mode it is entered with nothing held *)
Definition entry (s : bool) (h : held) : Prop := s = true -> h = [].
Create HintDb lt.
#[export] Hint Extern 0 (entry _ _) => first [assumption | unfold entry; first [assumption | intros; discriminate | intros; reflexivity | intros; subst; reflexivity]] : lt.

Ltac side :=
  first [ assumption | discriminate | reflexivity
        | intros; discriminate | intros; reflexivity
        | match goal with Hh : entry ?s ?h |- ?s = true -> mem _ ?h = false => let E := fresh in intros E; rewrite (Hh E); reflexivity end
        | match goal with |- _ :: _ <> [] => discriminate end ].

Ltac kp :=
  first
   [ apply keeps_db_unit; side | apply keeps_db_bool; side | apply keeps_newid_iri | apply keeps_db_iri; side
   | apply keeps_db_opt_iri; side | apply keeps_db_json; side | apply keeps_db_opt_json; side
   | apply K_LF; solve [auto with lf | lfq]
   | solve [eauto with lt] ].

Ltac lk_step :=
  match goal with
  | |- K _ (Ret _) _ _ => reflexivity
  | |- K _ (ok _) _ _ => reflexivity
  | |- K _ (fail _) _ _ => reflexivity
  | |- K _ (panic _) _ _ => reflexivity
  | |- K _ (ret _) _ _ => reflexivity
  | |- K _ (lift _) _ _ => reflexivity
  | |- K _ (bindr (lock _) _) _ _ => apply K_lock_then; [side|]
  | |- K _ (bind (unlock _) _) (_ :: _) _ => apply K_unlock_then
  | |- K _ (with_lock_deferred _ _) _ _ => apply K_locked; [side|]
  | |- K _ (foreach _ _) _ _ => apply K_foreach; intros
  | |- K _ (bind _ _) _ _ => apply K_bind; [|intros]
  | |- K _ (bindr _ _) _ _ => apply K_bindr; [|reflexivity|intros]
  | |- K _ (match ?x with _ => _ end) _ _ => destruct x
  | |- K _ (if ?b then _ else _) _ _ => destruct b
  | |- K _ (let (_, _) := ?p in _) _ _ => destruct p
  | |- K _ _ _ _ => kp
  end.
Ltac lk := repeat lk_step.

(* ---- Util ---- *)
Lemma lt_add_loop s ids t h : entry s h -> K s (add_loop ids t) h h.
Proof. intros Hh. unfold add_loop. lk. Qed.
Lemma lt_remove_loop s ids t h : entry s h -> K s (remove_loop ids t) h h.
Proof. intros Hh. unfold remove_loop. lk. Qed.
#[export] Hint Resolve lt_add_loop lt_remove_loop : lt.
Lemma lt_add s a h : entry s h -> K s (add a) h h.
Proof. intros Hh. unfold add. lk. Qed.
Lemma lt_remove s a h : entry s h -> K s (remove a) h h.
Proof. intros Hh. unfold remove. lk. Qed.
#[export] Hint Resolve lt_add lt_remove : lt.

(* ---- SideEffect ---- *)
Lemma lt_add_to_inbox_if_new s i a h : entry s h -> K s (add_to_inbox_if_new i a) h h.
Proof. intros Hh. unfold add_to_inbox_if_new. lk. Qed.
Lemma lt_add_to_outbox s o a h : entry s h -> K s (add_to_outbox o a) h h.
Proof. intros Hh. unfold add_to_outbox. lk. Qed.
Lemma lt_wrap_in_create_for s o b h : entry s h -> K s (wrap_in_create_for o b) h h.
Proof. intros Hh. unfold wrap_in_create_for. lk. Qed.
#[export] Hint Resolve lt_add_to_inbox_if_new lt_add_to_outbox lt_wrap_in_create_for : lt.

Lemma lt_inboxes_from_db s r : forall h, entry s h -> K s (inboxes_from_db r) h h.
Proof. induction r as [|a rest IH]; intros h Hh; cbn [inboxes_from_db]; lk. Qed.
#[export] Hint Resolve lt_inboxes_from_db : lt.
Lemma lt_deliver s o a h : entry s h -> K s (deliver o a) h h.
Proof. intros Hh. unfold deliver. lk. Qed.
#[export] Hint Resolve lt_deliver : lt.

Lemma lt_owns_any s ids : forall h, entry s h -> K s (owns_any ids) h h.
Proof. induction ids as [|i r IH]; intros h Hh; cbn [owns_any]; lk. Qed.
Lemma lt_owns_any_value s vs : forall h, entry s h -> K s (owns_any_value vs) h h.
Proof. induction vs as [|v r IH]; intros h Hh; cbn [owns_any_value]; lk. Qed.
#[export] Hint Resolve lt_owns_any lt_owns_any_value : lt.
Lemma lt_has_forwarding_values s fuel : forall box v h, entry s h -> K s (has_forwarding_values fuel box v) h h.
Proof.
  induction fuel as [|f IH]; intros box v h Hh; cbn [has_forwarding_values]; [reflexivity|].
  destruct (forwarding_values v) as [types iris]. lk.
  match goal with |- K _ (_ ?l) _ _ => induction l as [|x r IHl] end; [reflexivity|]. lk.
Qed.
#[export] Hint Resolve lt_has_forwarding_values : lt.
Lemma lt_my_iris s r : forall h, entry s h -> K s (my_iris r) h h.
Proof. induction r as [|i rest IH]; intros h Hh; cbn [my_iris]; lk. Qed.
#[export] Hint Resolve lt_my_iris : lt.

(* ---- InboxForwarding: collections stay locked until the function returns (counting mode only: finding F2b) ---- *)
Lemma unlock_all_ok l : forall h, K false (unlock_all l) (l ++ h) h.
Proof.
  induction l as [|i r IH]; intros h; cbn [unlock_all app]; [reflexivity|].
  apply K_unlock_then. apply IH.
Qed.

Lemma load_collections_ok l : forall d c h,
  wp (step false) (load_collections l d c) h (fun h' r => exists extra, snd r = d ++ extra /\ h' = rev extra ++ h).
Proof.
  assert (Hnil : forall d h, exists extra : list string, d = d ++ extra /\ h = rev extra ++ h)
    by (intros d h; exists []; rewrite app_nil_r; split; reflexivity).
  induction l as [|i rest IH]; intros d c h; cbn [load_collections].
  - cbn [wp ret]. apply Hnil.
  - unfold lock, call. cbn [wp bind]. intros x. cbn [step andb].
    destruct x; cbn [wp bind ok fail]; try apply Hnil.
    unfold db_json, db, call. cbn [wp bind]. intros y. cbn [step]. cbn [String.eqb Ascii.eqb Bool.eqb].
    assert (Herr : forall e, wp (step false) (unlock i;;; ret (@Err (list (string * json)) e, d)) (i :: h)
                      (fun h' r => exists extra, snd r = d ++ extra /\ h' = rev extra ++ h)).
    { intros e. apply wp_unlock_then. cbn [wp ret]. apply Hnil. }
    destruct y; cbn [wp bind ok fail]; try apply Herr.
    match goal with |- context [if ?b then _ else _] => destruct b end.
    + eapply wp_mono; [|apply IH]. intros h' r [extra [E1 E2]]. exists (i :: extra).
      rewrite E1, E2. rewrite <- app_assoc. simpl. rewrite <- app_assoc. split; reflexivity.
    + apply wp_unlock_then. apply IH.
Qed.

Lemma lt_inbox_forwarding inbox a h : K false (inbox_forwarding inbox a) h h.
Proof.
  assert (Hh : entry false h) by (intros E; discriminate).
  unfold inbox_forwarding.
  apply K_lock_then; [side|].
  apply K_bind; [kp|]. intros x. destruct x as [[|]|e|s0].
  - apply K_unlock_then. reflexivity.
  - apply K_bind; [kp|]. intros y. apply K_unlock_then.
    apply K_bindr; [kp|reflexivity|]. intros _.
    apply K_bindr; [kp|reflexivity|]. intros to.
    apply K_bindr; [kp|reflexivity|]. intros cc.
    apply K_bindr; [kp|reflexivity|]. intros au.
    apply K_bindr; [kp|reflexivity|]. intros mine.
    (* the collections stay locked while the rest runs *)
    unfold K. apply wp_bind. eapply wp_mono; [|apply load_collections_ok].
    intros h1 [rcols deferred] [extra [E1 E2]]. simpl in E1. subst deferred h1. cbn [app].
    set (H1 := rev extra ++ h).
    assert (Hh1 : entry false H1) by (intros E; discriminate).
    apply wp_bind.
    assert (Hrest : forall rr0 : prog (res unit), K false rr0 H1 H1 ->
              wp (step false) rr0 H1 (fun s' a0 => wp (step false) (unlock_all (rev extra);;; ret a0) s' (fun h' _ => h' = h))).
    { intros rr0 Hrr. eapply wp_mono; [|exact Hrr]. intros h' r Eq1. simpl in Eq1. rewrite Eq1.
      apply wp_bind. eapply wp_mono; [|apply (unlock_all_ok (rev extra) h)]. intros h'' u Eq2. exact Eq2. }
    apply Hrest.
    apply K_bindr; [kp|reflexivity|]. intros cols. destruct cols as [|c0 cols']; [reflexivity|].
    apply K_bind; [kp|]. intros dx.
    apply K_bindr; [kp|reflexivity|]. intros owns. destruct owns; cbn [negb]; [|reflexivity].
    apply K_bind; [kp|]. intros fx. destruct fx; try reflexivity.
    apply K_bindr; [kp|reflexivity|]. intros rcpts. kp.
  - apply K_unlock_then. reflexivity.
  - apply K_unlock_then. reflexivity.
Qed.

(* ---- Fed ---- *)
Section FedLocks.
  Variable s : bool.
  Variable cfg : config.
  Variable inbox : string.
  Lemma lt_fed_create a h : entry s h -> K s (Fed.create cfg inbox a) h h.
  Proof. intros Hh. unfold Fed.create. lk. Qed.
  Lemma lt_fed_update a h : entry s h -> K s (Fed.update cfg a) h h.
  Proof. intros Hh. unfold Fed.update. lk. Qed.
  Lemma lt_fed_delete a h : entry s h -> K s (Fed.delete cfg a) h h.
  Proof. intros Hh. unfold Fed.delete. lk. Qed.
  Lemma lt_fed_follow a h : entry s h -> K s (Fed.follow cfg inbox a) h h.
  Proof. intros Hh. unfold Fed.follow. lk. Qed.
  Lemma lt_find_my_follow actor l : forall h, entry s h -> K s (find_my_follow inbox actor l) h h.
  Proof. induction l as [|e r IH]; intros h Hh; cbn [find_my_follow]; lk. Qed.
  Hint Resolve lt_find_my_follow : lt.
  Lemma lt_fed_accept a h : entry s h -> K s (Fed.accept cfg inbox a) h h.
  Proof. intros Hh. unfold Fed.accept. lk. Qed.
  Lemma lt_fed_reject a h : entry s h -> K s (Fed.reject cfg a) h h.
  Proof. intros Hh. unfold Fed.reject. lk. Qed.
  Lemma lt_fed_add a h : entry s h -> K s (Fed.add_cb cfg a) h h.
  Proof. intros Hh. unfold Fed.add_cb. lk. Qed.
  Lemma lt_fed_remove a h : entry s h -> K s (Fed.remove_cb cfg a) h h.
  Proof. intros Hh. unfold Fed.remove_cb. lk. Qed.
  Lemma lt_like_loop cp id e h : entry s h -> K s (like_loop cp id e) h h.
  Proof. intros Hh. unfold like_loop. lk. Qed.
  Hint Resolve lt_like_loop : lt.
  Lemma lt_fed_like a h : entry s h -> K s (Fed.like cfg a) h h.
  Proof. intros Hh. unfold Fed.like. lk. Qed.
  Lemma lt_fed_announce a h : entry s h -> K s (Fed.announce cfg a) h h.
  Proof. intros Hh. unfold Fed.announce. lk. Qed.
  Lemma lt_fed_undo a h : entry s h -> K s (Fed.undo cfg inbox a) h h.
  Proof. intros Hh. unfold Fed.undo. lk. Qed.
  Lemma lt_fed_block a h : entry s h -> K s (Fed.block cfg a) h h.
  Proof. intros Hh. unfold Fed.block. lk. Qed.
  Hint Resolve lt_fed_create lt_fed_update lt_fed_delete lt_fed_follow lt_fed_accept lt_fed_reject lt_fed_add lt_fed_remove lt_fed_like lt_fed_announce lt_fed_undo lt_fed_block : lt.
  Lemma lt_fed_default ty a h : entry s h -> K s (fed_default cfg inbox ty a) h h.
  Proof. intros Hh. unfold fed_default. lk. Qed.
  Hint Resolve lt_fed_default : lt.
  Lemma lt_post_inbox a h : entry s h -> K s (post_inbox cfg inbox a) h h.
  Proof. intros Hh. unfold post_inbox. lk. Qed.
End FedLocks.
#[export] Hint Resolve lt_post_inbox : lt.

(* ---- Soc ---- *)
Section SocLocks.
  Variable s : bool.
  Variable cfg : config.
  Variable outbox : string.
  Variable raw : json.
  Variable perm : list string -> list string.
  Lemma lt_soc_create a h : entry s h -> K s (Soc.create cfg perm a) h h.
  Proof. intros Hh. unfold Soc.create. lk. Qed.
  Lemma lt_update_loop l : forall idx ids h, entry s h -> K s (update_loop raw idx l ids) h h.
  Proof. induction l as [|e r IH]; intros idx [|id ids] h Hh; cbn [update_loop]; lk. Qed.
  Hint Resolve lt_update_loop : lt.
  Lemma lt_soc_update a h : entry s h -> K s (Soc.update cfg raw a) h h.
  Proof. intros Hh. unfold Soc.update. lk. Qed.
  Lemma lt_soc_delete a h : entry s h -> K s (Soc.delete cfg a) h h.
  Proof. intros Hh. unfold Soc.delete. lk. Qed.
  Lemma lt_soc_follow a h : entry s h -> K s (Soc.follow cfg a) h h.
  Proof. intros Hh. unfold Soc.follow. lk. Qed.
  Lemma lt_soc_add a h : entry s h -> K s (Soc.add_cb cfg a) h h.
  Proof. intros Hh. unfold Soc.add_cb. lk. Qed.
  Lemma lt_soc_remove a h : entry s h -> K s (Soc.remove_cb cfg a) h h.
  Proof. intros Hh. unfold Soc.remove_cb. lk. Qed.
  Lemma lt_soc_like a h : entry s h -> K s (Soc.like cfg outbox a) h h.
  Proof. intros Hh. unfold Soc.like. lk. Qed.
  Lemma lt_soc_undo a h : entry s h -> K s (Soc.undo cfg outbox a) h h.
  Proof. intros Hh. unfold Soc.undo. lk. Qed.
  Lemma lt_soc_block a h : entry s h -> K s (Soc.block cfg a) h h.
  Proof. intros Hh. unfold Soc.block. lk. Qed.
  Hint Resolve lt_soc_create lt_soc_update lt_soc_delete lt_soc_follow lt_soc_add lt_soc_remove lt_soc_like lt_soc_undo lt_soc_block : lt.
  Lemma lt_post_outbox a h : entry s h -> K s (post_outbox cfg outbox raw perm a) h h.
  Proof. intros Hh. unfold post_outbox, soc_callbacks. lk. Qed.
End SocLocks.
#[export] Hint Resolve lt_post_outbox : lt.

Lemma lt_deliver_outbox s cfg perm outbox v raw h : entry s h -> K s (deliver_outbox cfg perm outbox v raw) h h.
Proof. intros Hh. unfold deliver_outbox. lk. Qed.
#[export] Hint Resolve lt_deliver_outbox : lt.

(* ---- HTTP level ---- *)
Lemma lf_authenticate n : LFp (authenticate n). Proof. unfold authenticate. lfq. Qed.
Lemma lf_authorize a : LFp (authorize_post_inbox a). Proof. unfold authorize_post_inbox. lfq. Qed.
Lemma lf_add_response_headers v : LFp (add_response_headers v). Proof. unfold add_response_headers. lfq. Qed.
#[export] Hint Resolve lf_authenticate lf_authorize lf_add_response_headers : lf.
Lemma lf_serve_page v : LFp (serve_page v). Proof. unfold serve_page, done. lfq. Qed.
#[export] Hint Resolve lf_serve_page : lf.

Theorem locks_post_outbox s cfg perm r : K s (post_outbox_http cfg perm r) [] [].
Proof.
  assert (Hh : entry s []) by (intros _; reflexivity).
  unfold post_outbox_http, done. lk.
Qed.
Theorem locks_send s cfg perm outbox v : K s (send cfg perm outbox v) [] [].
Proof. assert (Hh : entry s []) by (intros _; reflexivity). unfold send. lk. Qed.
Theorem locks_get_inbox s cfg r : K s (get_inbox_http cfg r) [] [].
Proof. assert (Hh : entry s []) by (intros _; reflexivity). unfold get_inbox_http, done. lk. Qed.
Theorem locks_get_outbox s r : K s (get_outbox_http r) [] [].
Proof. assert (Hh : entry s []) by (intros _; reflexivity). unfold get_outbox_http, done. lk. Qed.
Lemma K_lock_bind {A} s i (k : res unit -> prog A) H :
  (s = true -> mem i H = false) -> (forall e, K s (k (Err e)) H H) -> K s (k (Ok tt)) (i :: H) H ->
  K s (bind (lock i) k) H H.
Proof.
  intros Hi He Hk. unfold K, lock, call. cbn [wp bind]. intros x. cbn [lock_step_gen].
  assert (E : s && mem i H = false) by (destruct s; [rewrite Hi; reflexivity|reflexivity]). rewrite E.
  destruct x; cbn [wp bind ok fail]; try apply He. exact Hk.
Qed.

Theorem locks_handler s r : K s (handler_http r) [] [].
Proof.
  assert (Hh : entry s []) by (intros _; reflexivity).
  unfold handler_http, done.
  destruct (is_ap_get (r_method r) (r_accept r)); cbn [negb]; [|reflexivity].
  apply K_lock_bind; [side|intros e; reflexivity|].
  apply K_bind; [kp|]. intros y. apply K_unlock_then. lk.
Qed.

(* the delegate's PostInbox in strict mode, the whole inbox POST in counting mode *)
Theorem locks_post_inbox_counting cfg r : K false (post_inbox_http cfg r) [] [].
Proof.
  assert (Hh : entry false []) by (intros _; reflexivity).
  pose proof lt_inbox_forwarding as Hf.
  unfold post_inbox_http, done. lk.
Qed.
