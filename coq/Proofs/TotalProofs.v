(* C11: the model of package pub never ends in a panic, for every request and every environment.
   Panic results mark the places where the Go code would dereference a nil value. *)
From Coq Require Import String List Bool Arith.
From Verif Require Import Base.ListX Base.Json Base.Free Pub.Events Pub.Calls Pub.Value Pub.EffectSpec Pub.Util Pub.SideEffect Pub.Fed Pub.Soc Pub.BaseActor.
From Verif Require Import Proofs.ValueProofs Proofs.HiddenProofs Proofs.OrderProofs.
Import ListNotations.
Open Scope string_scope.
Open Scope list_scope.

Local Opaque has_prop known_type admits T P.

Definition notpanic {A} (r : res A) : Prop := match r with Panic _ => False | _ => True end.
Definition NP {A} (m : prog (res A)) : Prop := leaves notpanic m.

(* ---- ids are never nil (fix F19) ---- *)
Lemma has_scheme_not_nil s : has_scheme s = true -> is_nil s = false.
Proof. unfold is_nil. destruct (String.eqb s nil_iri) eqn:E; [|reflexivity]. apply String.eqb_eq in E. subst s. vm_compute. discriminate. Qed.
Lemma get_id_not_nil v i : get_id v = Ok i -> is_nil i = false.
Proof.
  unfold get_id. destruct (jget "id" v) as [[]|]; try discriminate.
  - destruct (has_scheme s) eqn:E; [|discriminate]. intros H. inversion H; subst. apply has_scheme_not_nil. exact E.
  - destruct (vhas v "href"); [|discriminate]. destruct (jget "href" v) as [[]|]; try discriminate.
    destruct (has_scheme s) eqn:E; [|discriminate]. intros H. inversion H; subst. apply has_scheme_not_nil. exact E.
Qed.
Lemma to_id_not_nil p e i : to_id p e = Ok i -> is_nil i = false.
Proof.
  unfold to_id. destruct (e_type p e); [apply get_id_not_nil|]. destruct (e_is_iri e) eqn:E; [|discriminate].
  intros H. inversion H; subst. unfold e_is_iri in E. destruct e; try discriminate. apply has_scheme_not_nil. exact E.
Qed.
Lemma get_id_notpanic v : notpanic (get_id v).
Proof. unfold get_id. destruct (jget "id" v) as [[]|]; cbn; auto; try (destruct (has_scheme s); exact I). destruct (vhas v "href"); [|exact I]. destruct (jget "href" v) as [[]|]; cbn; auto. destruct (has_scheme s); exact I. Qed.
Lemma to_id_notpanic p e : notpanic (to_id p e).
Proof. unfold to_id. destruct (e_type p e); [apply get_id_notpanic|]. destruct (e_is_iri e); exact I. Qed.
Lemma to_ids_notpanic p : forall l, notpanic (to_ids p l).
Proof. induction l as [|e r IH]; cbn; [exact I|]. pose proof (to_id_notpanic p e) as H. destruct (to_id p e); cbn in *; try tauto. destruct (to_ids p r); cbn in *; tauto. Qed.
Lemma ids_of_notpanic p v : notpanic (ids_of p v).
Proof. unfold ids_of. destruct (elems p v); [apply to_ids_notpanic|exact I]. Qed.

(* ---- the pure checks never panic ---- *)
Theorem remove_ids_notpanic cp ops : forall l, notpanic (remove_ids cp ops l).
Proof.
  induction l as [|e r IH]; cbn; [exact I|]. pose proof (to_id_notpanic cp e) as H. destruct (to_id cp e) as [i|x|s] eqn:E; cbn in *; try tauto.
  rewrite (to_id_not_nil cp e i E). destruct (remove_ids cp ops r); cbn in *; tauto.
Qed.
Theorem remove_spec_notpanic cp ops tp : notpanic (remove_spec cp ops tp).
Proof. unfold remove_spec. destruct (elems cp tp); [|exact I]. pose proof (remove_ids_notpanic cp ops l) as H. destruct (remove_ids cp ops l); cbn in *; tauto. Qed.
Theorem origin_match_notpanic a : notpanic (must_origin_match a).
Proof.
  unfold must_origin_match. pose proof (get_id_notpanic a) as H. destruct (get_id a) as [o|x|s] eqn:E; cbn in *; try tauto.
  rewrite (get_id_not_nil a o E). destruct (elems "object" a) as [[|e l]|]; try exact I.
  generalize (e :: l). intros l0. induction l0 as [|e0 r IH]; cbn; [exact I|].
  pose proof (to_id_notpanic "object" e0) as H0. destruct (to_id "object" e0) as [i|x|s] eqn:E0; cbn in *; try tauto.
  rewrite (to_id_not_nil "object" e0 i E0). destruct (String.eqb _ _); [exact IH|exact I].
Qed.

Theorem dedupe_notpanic : forall l seen, notpanic (dedupe_items seen l).
Proof.
  induction l as [|e r IH]; intros seen; cbn; [exact I|].
  fold (to_id "orderedItems" e). pose proof (to_id_notpanic "orderedItems" e) as H.
  destruct (to_id "orderedItems" e) as [i|x|s] eqn:E; cbn in *; try tauto.
  rewrite (to_id_not_nil "orderedItems" e i E). destruct (mem i seen); [apply IH|].
  pose proof (IH (i :: seen)) as H1. destruct (dedupe_items (i :: seen) r); cbn in *; tauto.
Qed.
Theorem dedupe_ordered_items_notpanic oc : notpanic (dedupe_ordered_items oc).
Proof. unfold dedupe_ordered_items. destruct (elems "orderedItems" oc); [|exact I]. pose proof (dedupe_notpanic l []) as H. destruct (dedupe_items [] l); cbn in *; tauto. Qed.

(* ---- programs ---- *)
Lemma NP_bindr {A B} (m : prog (res A)) (f : A -> prog (res B)) : NP m -> (forall a, NP (f a)) -> NP (bindr m f).
Proof.
  intros Hm Hf. unfold NP. apply leaves_bindr_R with (R0 := fun _ => True); [|intros a _; apply Hf].
  eapply leaves_mono; [|exact Hm]. intros [a|e|s] H; cbn in *; tauto.
Qed.
Lemma NP_bind_val {A B} (m : prog (res A)) (f : res A -> prog (res B)) : NP m -> (forall r, notpanic r -> NP (f r)) -> NP (bind m f).
Proof.
  intros Hm Hf. unfold NP in *. induction m as [r|e k IH]; simpl in *; [apply Hf; exact Hm|]. intros x. apply IH. apply Hm.
Qed.
Lemma leaves_bind_val_ {A B} (R0 : A -> Prop) (R : B -> Prop) (m : prog A) (f : A -> prog B) :
  leaves R0 m -> (forall a, R0 a -> leaves R (f a)) -> leaves R (bind m f).
Proof. intros Hm Hf. induction m as [r|e k IH]; simpl in *; [apply Hf; exact Hm|]. intros x. apply IH. apply Hm. Qed.
Lemma NP_bind_any {A B} (m : prog A) (f : A -> prog (res B)) : (forall a, NP (f a)) -> NP (bind m f).
Proof. intros Hf. unfold NP. apply leaves_bind. exact Hf. Qed.
Lemma NP_lift {A} (r : res A) : notpanic r -> NP (lift r).
Proof. intros H. exact H. Qed.
Lemma NP_foreach {A} (l : list A) (f : A -> prog (res unit)) : (forall x, NP (f x)) -> NP (foreach l f).
Proof. intros Hf. induction l as [|x r IH]; cbn; [exact I|]. apply NP_bindr; [apply Hf|intros _; exact IH]. Qed.

Lemma np_lock_ i : NP (lock i). Proof. unfold lock, call, NP. cbn. intros x. destruct x; exact I. Qed.
Lemma np_with_lock_ {A} i (body : prog (res A)) : NP body -> NP (with_lock_deferred i body).
Proof.
  intros H. unfold with_lock_deferred. apply NP_bindr; [apply np_lock_|intros _].
  apply NP_bind_val; [exact H|intros r Hr]. apply NP_bind_any. intros _. exact Hr.
Qed.
#[export] Hint Resolve get_id_notpanic to_id_notpanic to_ids_notpanic ids_of_notpanic remove_spec_notpanic origin_match_notpanic dedupe_ordered_items_notpanic : np.

Ltac np_step :=
  match goal with
  | |- NP (Ret (Ok _)) => exact I
  | |- NP (Ret (Err _)) => exact I
  | |- NP (ok _) => exact I
  | |- NP (fail _) => exact I
  | H : notpanic ?r |- NP (Ret ?r) => exact H
  | H : notpanic ?r |- NP (lift ?r) => exact H
  | |- NP (lift (get_id _)) => apply get_id_notpanic
  | |- NP (lift (to_id _ _)) => apply to_id_notpanic
  | |- NP (lift (to_ids _ _)) => apply to_ids_notpanic
  | |- NP (lift (ids_of _ _)) => apply ids_of_notpanic
  | |- NP (lift (remove_spec _ _ _)) => apply remove_spec_notpanic
  | |- NP (lift (must_origin_match _)) => apply origin_match_notpanic
  | |- NP (with_lock_deferred _ _) => apply np_with_lock_
  | |- NP (lift _) => apply NP_lift; solve [auto with np]
  | |- NP (bindr _ _) => apply NP_bindr; [|intros]
  | |- NP (foreach _ _) => apply NP_foreach; intros
  | |- NP (bind _ _) => first [apply NP_bind_val; [|intros ? ?] | apply NP_bind_any; intros]
  | |- NP (Op _ _) => intros ?
  | |- NP (match ?x with _ => _ end) => destruct x
  | |- NP (if ?b then _ else _) => destruct b
  | |- NP (let (_, _) := ?p in _) => destruct p
  | |- NP _ => solve [auto with np]
  | |- False => solve [auto]
  end.
Ltac np := repeat np_step.
Ltac npu f := unfold f; np.

Lemma np_lock i : NP (lock i). Proof. unfold lock, call, NP. cbn. intros x. destruct x; exact I. Qed.
Lemma np_db_unit op args : NP (db_unit op args). Proof. unfold db_unit, db, call, NP. cbn. intros x. destruct x; exact I. Qed.
Lemma np_db_bool op args : NP (db_bool op args). Proof. unfold db_bool, db, call, NP. cbn. intros x. destruct x; exact I. Qed.
Lemma np_db_iri op args : NP (db_iri op args). Proof. unfold db_iri, db, call, NP. cbn. intros x. destruct x; exact I. Qed.
Lemma np_db_opt_iri op args : NP (db_opt_iri op args). Proof. unfold db_opt_iri, db, call, NP. cbn. intros x. destruct x; exact I. Qed.
Lemma np_db_json op args : NP (db_json op args). Proof. unfold db_json, db, call, NP. cbn. intros x. destruct x; exact I. Qed.
Lemma np_db_opt_json op args : NP (db_opt_json op args). Proof. unfold db_opt_json, db, call, NP. cbn. intros x. destruct x; exact I. Qed.
Lemma np_app_unit n args : NP (app_unit n args). Proof. unfold app_unit, app, call, NP. cbn. intros x. destruct x; exact I. Qed.
Lemma np_new_transport b : NP (new_transport b). Proof. unfold new_transport, call, NP. cbn. intros x. destruct x; exact I. Qed.
Lemma np_batch p r : NP (batch_deliver p r). Proof. unfold batch_deliver, call, NP. cbn. intros x. destruct x; exact I. Qed.
#[export] Hint Resolve np_lock np_db_unit np_db_bool np_db_iri np_db_opt_iri np_db_json np_db_opt_json np_app_unit np_new_transport np_batch : np.

Lemma np_with_lock {A} i (body : prog (res A)) : NP body -> NP (with_lock_deferred i body).
Proof. intros H. unfold with_lock_deferred. np. Qed.
#[export] Hint Resolve np_with_lock : np.

Lemma np_fetch box i : NP (fetch box i).
Proof. unfold fetch. np. unfold to_type. destruct j; try exact I. destruct (jget "type" _) as [[]|]; try exact I; (destruct (jhas _ _); [first [destruct (known_type _)|destruct (first_known _ _)]|]; exact I). Qed.
#[export] Hint Resolve np_fetch : np.

Lemma to_type_notpanic j : notpanic (to_type j).
Proof. unfold to_type. destruct j; try exact I. destruct (jget "type" _) as [[]|]; try exact I; (destruct (jhas _ _); [first [destruct (known_type _)|destruct (first_known _ _)]|]; exact I). Qed.
Lemma collection_prop_notpanic tp : notpanic (collection_prop tp).
Proof. unfold collection_prop. repeat (match goal with |- context [if ?b then _ else _] => destruct b end); exact I. Qed.
#[export] Hint Resolve to_type_notpanic collection_prop_notpanic : np.

(* ---- Util ---- *)
Lemma np_add_loop ids t : NP (add_loop ids t).
Proof. unfold add_loop. np. Qed.
Lemma np_remove_loop ids t : NP (remove_loop ids t).
Proof. unfold remove_loop. np. Qed.
#[export] Hint Resolve np_add_loop np_remove_loop : np.
Lemma np_add a : NP (add a). Proof. npu add. Qed.
Lemma np_remove a : NP (remove a). Proof. npu remove. Qed.
Lemma np_actors_match_one box aa e : NP (actors_match_one box aa e). Proof. npu actors_match_one. Qed.
#[export] Hint Resolve np_add np_remove np_actors_match_one : np.
Lemma np_must_actors_match box a : NP (must_actors_match box a). Proof. npu must_actors_match. Qed.
#[export] Hint Resolve np_must_actors_match : np.

(* ---- SideEffect ---- *)
Lemma np_add_to_inbox_if_new i a : NP (add_to_inbox_if_new i a). Proof. npu add_to_inbox_if_new. Qed.
Lemma np_add_to_outbox o a : NP (add_to_outbox o a). Proof. npu add_to_outbox. Qed.
Lemma np_deliver_to_recipients b a r : NP (deliver_to_recipients b a r). Proof. npu deliver_to_recipients. Qed.
Lemma wrap_in_create_notpanic o actor : notpanic (wrap_in_create o actor).
Proof.
  unfold wrap_in_create. set (c := if vhas o "published" then _ else _). clearbody c.
  assert (H : forall ps c0, notpanic (copy_addressing ps o c0)).
  { induction ps as [|p r IH]; intros c0; cbn; [exact I|]. destruct (vhas o p); [|apply IH].
    destruct (elems p o) as [l0|]; [|apply IH].
    pose proof (to_ids_notpanic p l0) as Hi. destruct (to_ids p l0); cbn in *; try tauto. apply IH. }
  pose proof (H addressing c) as H1. destruct (copy_addressing addressing o c); cbn in *; tauto.
Qed.
Lemma np_wrap_in_create_for o b : NP (wrap_in_create_for o b).
Proof. unfold wrap_in_create_for. np. apply NP_lift. apply wrap_in_create_notpanic. Qed.
#[export] Hint Resolve np_add_to_inbox_if_new np_add_to_outbox np_deliver_to_recipients np_wrap_in_create_for : np.

Lemma np_new_ids_objects l : NP (new_ids_objects l).
Proof. induction l as [|e r IH]; cbn [new_ids_objects]; np. Qed.
#[export] Hint Resolve np_new_ids_objects : np.
Lemma np_add_new_ids a : NP (add_new_ids a). Proof. npu add_new_ids. Qed.
#[export] Hint Resolve np_add_new_ids : np.

Lemma np_inboxes_from_db r : NP (inboxes_from_db r).
Proof. induction r as [|a rest IH]; cbn [inboxes_from_db]; np. Qed.
#[export] Hint Resolve np_inboxes_from_db : np.

Lemma collect_recipients_notpanic a : notpanic (collect_recipients a).
Proof.
  unfold collect_recipients.
  repeat (match goal with |- context [ids_of ?p a] => let H := fresh in pose proof (ids_of_notpanic p a) as H; destruct (ids_of p a); cbn in *; try tauto end).
Qed.
Lemma get_inbox_notpanic v : notpanic (get_inbox v).
Proof. unfold get_inbox. destruct (vhas v "inbox"); [|exact I]. destruct (jget "inbox" v); [apply to_id_notpanic|exact I]. Qed.
Lemma get_inboxes_notpanic : forall l, notpanic (get_inboxes l).
Proof. induction l as [|v r IH]; cbn; [exact I|]. pose proof (get_inbox_notpanic v) as H. destruct (get_inbox v); cbn in *; try tauto. destruct (get_inboxes r); cbn in *; tauto. Qed.
#[export] Hint Resolve collect_recipients_notpanic get_inbox_notpanic get_inboxes_notpanic : np.

Lemma np_deliver o a : NP (deliver o a).
Proof. unfold deliver. np. Qed.
#[export] Hint Resolve np_deliver : np.

(* ---- InboxForwarding ---- *)
Lemma np_owns_any ids : NP (owns_any ids).
Proof. induction ids as [|i r IH]; cbn [owns_any]; np. Qed.
Lemma np_owns_any_value vs : NP (owns_any_value vs).
Proof. induction vs as [|v r IH]; cbn [owns_any_value]; np. Qed.
Lemma np_fetch_for_forwarding box iris : NP (fetch_for_forwarding box iris).
Proof. induction iris as [|i r IH]; cbn [fetch_for_forwarding]; np. Qed.
#[export] Hint Resolve np_owns_any np_owns_any_value np_fetch_for_forwarding : np.
Lemma np_has_forwarding_values fuel : forall box v, NP (has_forwarding_values fuel box v).
Proof.
  induction fuel as [|f IH]; intros box v; cbn [has_forwarding_values]; [exact I|].
  destruct (forwarding_values v) as [types iris]. np.
  match goal with |- NP (_ ?l) => induction l as [|x r IHl] end; [exact I|]. np.
Qed.
#[export] Hint Resolve np_has_forwarding_values : np.
Lemma np_my_iris r : NP (my_iris r).
Proof. induction r as [|i rest IH]; cbn [my_iris]; np. Qed.
#[export] Hint Resolve np_my_iris : np.

Lemma load_collections_notpanic : forall l d c, leaves (fun p => notpanic (fst p)) (load_collections l d c).
Proof.
  induction l as [|i r IH]; intros d c; cbn [load_collections]; [exact I|].
  apply (leaves_bind_val_ (fun x : res unit => notpanic x)); [apply np_lock_|]. intros lk Hlk.
  destruct lk; cbn in Hlk; try tauto; try exact I.
  apply (leaves_bind_val_ (fun x : res json => notpanic x)); [apply np_db_json|]. intros x Hx.
  destruct x; cbn in Hx; try tauto.
  - destruct (_ || _); [apply IH|]. apply leaves_bind. intros _. apply IH.
  - apply leaves_bind. intros _. exact I.
Qed.

Lemma forwarding_recipients_notpanic : forall ts cols, notpanic (forwarding_recipients ts cols).
Proof.
  induction ts as [|i r IH]; intros cols; cbn; [exact I|].
  assert (Hh : notpanic (match assoc i cols with Some t => members_of t | None => Ok [] end)).
  { destruct (assoc i cols); [|exact I]. unfold members_of. destruct (is_or_extends _ _); apply ids_of_notpanic. }
  destruct (match assoc i cols with Some t => members_of t | None => Ok [] end); cbn in *; try tauto.
  pose proof (IH cols) as H1. destruct (forwarding_recipients r cols); cbn in *; tauto.
Qed.
#[export] Hint Resolve forwarding_recipients_notpanic : np.

Lemma np_unlock_all_then {A} l (r : res A) : notpanic r -> NP (bind (unlock_all l) (fun _ => ret r)).
Proof. intros H. apply NP_bind_any. intros _. exact H. Qed.

Lemma np_inbox_forwarding i a : NP (inbox_forwarding i a).
Proof.
  unfold inbox_forwarding. apply NP_bindr; [apply np_lock_|intros _].
  apply NP_bind_val; [apply np_db_bool|intros x Hx].
  destruct x as [[|]|e|s]; cbn in Hx; try tauto.
  - apply NP_bind_any. intros _. exact I.
  - apply NP_bind_val; [apply np_db_unit|intros y Hy]. apply NP_bind_any. intros _.
    apply NP_bindr; [exact Hy|intros _].
    apply NP_bindr; [apply NP_lift; apply ids_of_notpanic|intros to].
    apply NP_bindr; [apply NP_lift; apply ids_of_notpanic|intros cc].
    apply NP_bindr; [apply NP_lift; apply ids_of_notpanic|intros au].
    apply NP_bindr; [apply np_my_iris|intros mine].
    unfold NP. apply (leaves_bind_val_ (fun p : res (list (string * json)) * list string => notpanic (fst p))); [apply load_collections_notpanic|].
    intros [rcols deferred] Hr. cbn in Hr.
    apply (leaves_bind_val_ (fun x : res unit => notpanic x)).
    + apply (NP_bindr (lift rcols)); [exact Hr|intros cols].
      destruct cols; [exact I|]. apply NP_bind_any. intros dx. np.
    + intros rr Hrr. apply leaves_bind. intros _. exact Hrr.
  - apply NP_bind_any. intros _. exact I.
Qed.
#[export] Hint Resolve np_inbox_forwarding : np.

(* ---- the federating callbacks ---- *)
Section FedNP.
  Variable cfg : config.
  Variable inbox : string.
  Lemma np_wrapped n a : NP (Fed.wrapped cfg n a).
  Proof. unfold Fed.wrapped. destruct (mem n (c_fed_wrapped cfg)); [apply np_app_unit|exact I]. Qed.
  Hint Resolve np_wrapped : np.
  Lemma np_value_or_fetch e : NP (value_or_fetch inbox e). Proof. npu value_or_fetch. Qed.
  Hint Resolve np_value_or_fetch : np.
  Lemma np_fed_create a : NP (Fed.create cfg inbox a). Proof. npu Fed.create. Qed.
  Lemma np_fed_update a : NP (Fed.update cfg a). Proof. npu Fed.update. Qed.
  Lemma np_fed_delete a : NP (Fed.delete cfg a). Proof. npu Fed.delete. Qed.
  Lemma names_me_notpanic p actor : forall l, notpanic (names_me p actor l).
  Proof. induction l as [|e r IH]; cbn; [exact I|]. pose proof (to_id_notpanic p e) as H. destruct (to_id p e); cbn in *; try tauto. destruct (String.eqb _ _); [exact I|exact IH]. Qed.
  Hint Resolve names_me_notpanic : np.

  (* the one place where the code relies on an earlier check: the actor property was tested by AuthorizePostInbox *)
  Lemma np_fed_follow a : elems "actor" a <> None -> NP (Fed.follow cfg inbox a).
  Proof.
    intros Ha. unfold Fed.follow. destruct (object_required a); [exact I|].
    apply NP_bindr; [apply np_lock_|intros _]. apply NP_bind_val; [apply np_db_iri|intros x Hx]. apply NP_bind_any; intros _.
    apply NP_bindr; [exact Hx|intros actor].
    apply NP_bindr; [apply NP_lift; destruct (Nat.eqb _ 0); [exact I|apply names_me_notpanic]|intros is_me].
    apply NP_bindr; [|intros _; apply np_wrapped].
    destruct (negb is_me); [exact I|]. destruct (negb _); [exact I|].
    destruct (elems "actor" a) as [al|]; [|congruence].
    apply NP_bindr; [apply NP_lift; apply to_ids_notpanic|intros recipients].
    apply NP_bindr.
    - destruct (Nat.eqb (c_on_follow cfg) 1); [|exact I].
      apply NP_bindr; [apply np_lock_|intros _]. apply NP_bind_val; [apply np_db_json|intros f Hf].
      destruct f; cbn in Hf; try tauto.
      + apply NP_bind_val; [apply np_db_unit|intros u Hu]. apply NP_bind_any; intros _. exact Hu.
      + apply NP_bind_any; intros _. exact I.
    - intros _. np.
  Qed.

  Lemma np_find_my_follow actor : forall l, NP (find_my_follow inbox actor l).
  Proof.
    induction l as [|e r IH]; cbn [find_my_follow]; [exact I|]. np.
    apply NP_lift. destruct (elems "actor" a); [apply names_me_notpanic|exact I].
  Qed.
  Hint Resolve np_find_my_follow : np.
  Lemma np_fed_accept a : NP (Fed.accept cfg inbox a).
  Proof.
    unfold Fed.accept. apply NP_bindr; [|intros _; apply np_wrapped].
    destruct (object_required a); [exact I|].
    apply NP_bindr; [apply np_lock_|intros _]. apply NP_bind_val; [apply np_db_iri|intros x Hx]. apply NP_bind_any; intros _.
    apply NP_bindr; [exact Hx|intros actor]. apply NP_bindr; [apply np_find_my_follow|intros maybe].
    destruct maybe as [fid|]; [|exact I]. destruct (elems "actor" a) as [[|a1 al]|]; try exact I.
    apply NP_bindr.
    - apply np_with_lock_. np; try (apply NP_lift; match goal with |- notpanic (match elems ?p ?t with _ => _ end) => destruct (elems p t); [apply names_me_notpanic|exact I] end).
    - intros _. apply NP_bindr; [apply np_lock_|intros _]. apply NP_bind_val; [apply np_db_json|intros f Hf].
      destruct f; cbn in Hf; try tauto.
      + pose proof (to_ids_notpanic "actor" (a1 :: al)) as Ht. destruct (to_ids "actor" (a1 :: al)); cbn in Ht; try tauto.
        * apply NP_bind_val; [apply np_db_unit|intros u Hu]. apply NP_bind_any; intros _. exact Hu.
        * apply NP_bind_any; intros _. exact I.
      + apply NP_bind_any; intros _. exact I.
  Qed.
  Lemma np_fed_reject a : NP (Fed.reject cfg a). Proof. apply np_wrapped. Qed.
  Lemma np_fed_add a : NP (Fed.add_cb cfg a). Proof. npu Fed.add_cb. Qed.
  Lemma np_fed_remove a : NP (Fed.remove_cb cfg a). Proof. npu Fed.remove_cb. Qed.
  Lemma prepend_on_notpanic cp id t : notpanic (prepend_on cp id t).
  Proof. unfold prepend_on. destruct (negb _); [exact I|]. repeat (match goal with |- context [if ?b then _ else _] => destruct b end); exact I. Qed.
  Hint Resolve prepend_on_notpanic : np.
  Lemma np_like_loop cp id e : NP (like_loop cp id e). Proof. npu like_loop. Qed.
  Hint Resolve np_like_loop : np.
  Lemma np_fed_like a : NP (Fed.like cfg a). Proof. npu Fed.like. Qed.
  Lemma np_fed_announce a : NP (Fed.announce cfg a). Proof. npu Fed.announce. Qed.
  Lemma np_fed_undo a : NP (Fed.undo cfg inbox a). Proof. npu Fed.undo. Qed.
  Lemma np_fed_block a : NP (Fed.block cfg a). Proof. npu Fed.block. Qed.

  Theorem np_post_inbox a : elems "actor" a <> None -> NP (post_inbox cfg inbox a).
  Proof.
    intros Ha. unfold post_inbox. apply NP_bindr; [apply np_add_to_inbox_if_new|intros is_new].
    destruct (negb is_new); [exact I|]. apply NP_bindr; [apply np_app_unit|intros _].
    destruct (mem _ (c_fed_other cfg)); [apply np_app_unit|]. destruct (mem _ fed_defaults); [|apply np_app_unit].
    unfold fed_default.
    repeat (match goal with |- NP (if ?b then _ else _) => destruct b end);
      first [apply np_fed_create|apply np_fed_update|apply np_fed_delete|apply np_fed_follow; exact Ha|apply np_fed_accept|apply np_fed_reject
            |apply np_fed_add|apply np_fed_remove|apply np_fed_like|apply np_fed_announce|apply np_fed_undo|apply np_fed_block].
  Qed.
End FedNP.

(* ---- the Social Create: the two places where the code relies on what it built itself ---- *)
Definition same_shape (v v' : json) : Prop := jtype v' = jtype v /\ (forall m, v = JObj m -> exists m', v' = JObj m').
Lemma ss_refl v : same_shape v v. Proof. split; [reflexivity|intros m ->; eexists; reflexivity]. Qed.
Lemma ss_trans a b c : same_shape a b -> same_shape b c -> same_shape a c.
Proof. intros [T1 O1] [T2 O2]. split; [congruence|]. intros m Hm. destruct (O1 m Hm) as [m1 H1]. apply (O2 m1 H1). Qed.
Lemma ss_jset k x v : k <> "type" -> same_shape v (jset k x v).
Proof. intros Hk. split; [unfold jtype; rewrite jget_jset_other by congruence; reflexivity|intros m ->; eexists; reflexivity]. Qed.
Lemma ss_append_iris p ids v : p <> "type" -> same_shape v (append_iris p ids v).
Proof. intros Hp. unfold append_iris. destruct ids; [apply ss_refl|]. unfold set_elems. apply ss_jset. exact Hp. Qed.
Lemma get_append_iris_other k p ids v : k <> p -> jget k (append_iris p ids v) = jget k v.
Proof. intros Hk. unfold append_iris. destruct ids; [reflexivity|]. unfold set_elems. apply jget_jset_other. exact Hk. Qed.

Lemma acquire_shape : forall ps need v v' idss, (forall p, In p ps -> p <> "type") -> acquire ps need v = Ok (v', idss) ->
  same_shape v v' /\ forall k, ~ In k ps -> jget k v' = jget k v.
Proof.
  induction ps as [|p r IH]; intros need v v' idss Hps H; cbn in H.
  - inversion H; subst. split; [apply ss_refl|reflexivity].
  - destruct (need && negb (vhas v p)); [discriminate|]. destruct (ids_of p v) as [ids|e|s]; try discriminate.
    set (v1 := match elems p v with None => jset p (JArr []) v | Some _ => v end) in *.
    destruct (acquire r need v1) as [[v2 rest]|e|s] eqn:E; try discriminate. inversion H; subst v' idss.
    destruct (IH need v1 v2 rest (fun q Hq => Hps q (or_intror Hq)) E) as [S2 G2].
    assert (S1 : same_shape v v1) by (unfold v1; destruct (elems p v); [apply ss_refl|apply ss_jset; apply Hps; left; reflexivity]).
    split; [eapply ss_trans; eassumption|]. intros k Hk. rewrite G2 by (intros Hin; apply Hk; right; exact Hin).
    unfold v1. destruct (elems p v); [reflexivity|]. apply jget_jset_other. intros ->. apply Hk. left. reflexivity.
Qed.
Lemma acquire_notpanic : forall ps need v, notpanic (acquire ps need v).
Proof.
  induction ps as [|p r IH]; intros need v; cbn; [exact I|]. destruct (need && negb (vhas v p)); [exact I|].
  pose proof (ids_of_notpanic p v) as H. destruct (ids_of p v); cbn in *; try tauto.
  set (v1 := match elems p v with None => _ | Some _ => v end). pose proof (IH need v1) as H1. destruct (acquire r need v1) as [[]| |]; cbn in *; tauto.
Qed.

Lemma addressing_not_type p : In p addressing -> p <> "type".
Proof. intros [<-|[<-|[<-|[<-|[<-|[]]]]]]; discriminate. Qed.
Lemma addressing_not_object p : In p addressing -> p <> "object".
Proof. intros [<-|[<-|[<-|[<-|[<-|[]]]]]]; discriminate. Qed.

Section Norm.
  Variable perm : list string -> list string.

  Lemma fold_append_shape (l : list (string * (list string * list string))) : forall v, (forall t, In t l -> In (fst t) addressing) ->
    same_shape v (fold_left (fun acc t => match t with (p, (aids, oids)) => append_iris p (perm (missing oids (uniq aids))) acc end) l v).
  Proof.
    induction l as [|[p [aids oids]] r IH]; intros v Hl; cbn; [apply ss_refl|].
    eapply ss_trans; [apply ss_append_iris; apply addressing_not_type; apply (Hl (p, (aids, oids))); left; reflexivity|].
    apply IH. intros t Ht. apply Hl. right. exact Ht.
  Qed.

  Lemma norm_object_value act_ids e e' ids : norm_object perm act_ids e = Ok (e', ids) -> e_type "object" e' = Some e'.
  Proof.
    unfold norm_object. destruct (e_type "object" e) as [o|] eqn:Et; [|discriminate].
    destruct (e_type_some _ _ _ Et) as [-> [m Hm]].
    destruct (acquire addressing true e) as [[o1 obj_ids]|x|s] eqn:Ea; try discriminate. intros H. inversion H; subst e' ids. clear H.
    destruct (acquire_shape addressing true e o1 obj_ids addressing_not_type Ea) as [S1 _].
    set (l := combine addressing (combine act_ids obj_ids)).
    assert (Hl : forall t, In t l -> In (fst t) addressing) by (intros [p x] Ht; apply in_combine_l in Ht; exact Ht).
    pose proof (fold_append_shape l o1 Hl) as S2. pose proof (ss_trans _ _ _ S1 S2) as [T O].
    apply (e_type_self "object" e m Hm eq_refl _ T (O m Hm) Et).
  Qed.
  Lemma norm_object_notpanic act_ids e : notpanic (norm_object perm act_ids e).
  Proof. unfold norm_object. destruct (e_type "object" e); [|exact I]. pose proof (acquire_notpanic addressing true j) as H. destruct (acquire addressing true j) as [[]| |]; cbn in *; tauto. Qed.

  Lemma norm_objects_values act_ids : forall l l' idss, norm_objects perm act_ids l = Ok (l', idss) -> Forall (fun e' => e_type "object" e' = Some e') l'.
  Proof.
    induction l as [|e r IH]; intros l' idss H; cbn in H; [inversion H; constructor|].
    destruct (norm_object perm act_ids e) as [[e' ids]|x|s] eqn:E; try discriminate.
    destruct (norm_objects perm act_ids r) as [[r' idss']|x|s] eqn:Er; try discriminate. inversion H; subst.
    constructor; [eapply norm_object_value; exact E|eapply IH; reflexivity].
  Qed.
  Lemma norm_objects_notpanic act_ids : forall l, notpanic (norm_objects perm act_ids l).
  Proof.
    induction l as [|e r IH]; cbn; [exact I|]. pose proof (norm_object_notpanic act_ids e) as H.
    destruct (norm_object perm act_ids e) as [[]| |]; cbn in *; try tauto. destruct (norm_objects perm act_ids r) as [[]| |]; cbn in *; tauto.
  Qed.

  (* normalizeRecipients does not panic on a value that has an object property, and leaves only values as objects *)
  Lemma phase3_objects : forall (l : list (nat * (string * list string))) idss v, (forall t, In t l -> In (fst (snd t)) addressing) ->
    jget "object" (fold_left (fun acc t => match t with (k, (p, aids)) =>
        fold_left (fun acc2 oids => append_iris p (perm (missing aids (uniq (nth k oids [])))) acc2) idss acc end) l v) = jget "object" v.
  Proof.
    induction l as [|[k [p aids]] r IH]; intros idss v Hl; cbn; [reflexivity|]. rewrite IH by (intros t Ht; apply Hl; right; exact Ht).
    assert (Hp : "object" <> p) by (intros <-; apply (addressing_not_object "object"); [apply (Hl (k, ("object", aids))); left; reflexivity|reflexivity]).
    generalize v. induction idss as [|o rest IHi]; intros v0; cbn; [reflexivity|]. rewrite IHi. apply get_append_iris_other. exact Hp.
  Qed.

  Lemma phase3_side (act_ids : list (list string)) : forall t, In t (combine (seq 0 5) (combine addressing act_ids)) -> In (fst (snd t)) addressing.
  Proof. intros [k [p aids]] Ht. apply in_combine_r in Ht. apply in_combine_l in Ht. exact Ht. Qed.

  Theorem normalize_ok a : elems "object" a <> None ->
    notpanic (normalize_recipients perm a) /\
    forall a3, normalize_recipients perm a = Ok a3 -> Forall (fun e' => e_type "object" e' = Some e') (elems0 "object" a3).
  Proof.
    intros Ho. unfold normalize_recipients.
    pose proof (acquire_notpanic addressing false a) as Hn. destruct (acquire addressing false a) as [[a1 act_ids]|x|s] eqn:Ea; cbn in Hn; try tauto; try (split; [exact I|intros; discriminate]).
    destruct (acquire_shape addressing false a a1 act_ids addressing_not_type Ea) as [S1 G1].
    assert (Eo : elems "object" a1 = elems "object" a) by (unfold elems; rewrite G1 by (intros H; apply addressing_not_object in H; congruence); reflexivity).
    rewrite Eo. destruct (elems "object" a) as [objs|] eqn:Eobj; [|congruence].
    pose proof (norm_objects_notpanic act_ids objs) as Hn2. destruct (norm_objects perm act_ids objs) as [[objs' idss]|x|s] eqn:En; cbn in Hn2; try tauto; try (split; [exact I|intros; discriminate]).
    split; [exact I|]. intros a3 H. inversion H; subst a3. clear H.
    pose proof (norm_objects_values act_ids objs objs' idss En) as Hv.
    assert (Ha1 : exists m1, a1 = JObj m1).
    { unfold elems in Eobj. destruct a as [| | | | |m]; try (cbn in Eobj; discriminate). destruct S1 as [_ O]. apply (O m eq_refl). }
    destruct Ha1 as [m1 Hm1].
    unfold elems0, elems. rewrite phase3_objects.
    - fold (elems "object" (set_elems "object" objs' a1)). fold (elems0 "object" (set_elems "object" objs' a1)).
      rewrite (elems_set_elems "object" objs' a1 m1 Hm1); [exact Hv|].
      rewrite forallb_forall. intros x Hx. rewrite Forall_forall in Hv. specialize (Hv x Hx). destruct (e_type_some _ _ _ Hv) as [_ [mx ->]]. reflexivity.
    - exact (phase3_side act_ids).
  Qed.
End Norm.

Lemma NP_bindr_lift {A B} (r : res A) (f : A -> prog (res B)) : notpanic r -> (forall a, r = Ok a -> NP (f a)) -> NP (bindr (lift r) f).
Proof. intros Hr Hf. destruct r as [a|e|s]; cbn in *; [apply Hf; reflexivity|exact I|tauto]. Qed.
Lemma NP_foreach_forall {A} (Pq : A -> Prop) (l : list A) (f : A -> prog (res unit)) : Forall Pq l -> (forall x, Pq x -> NP (f x)) -> NP (foreach l f).
Proof. intros Hl Hf. induction Hl as [|x r Hx _ IH]; cbn; [exact I|]. apply NP_bindr; [apply Hf; exact Hx|intros _; exact IH]. Qed.

Section SocNP.
  Variable cfg : config.
  Variable outbox : string.
  Variable raw : json.
  Variable perm : list string -> list string.

  Lemma np_swrapped n a : NP (swrapped cfg n a).
  Proof. unfold swrapped. destruct (mem n (c_soc_wrapped cfg)); [apply np_app_unit|exact I]. Qed.
  Hint Resolve np_swrapped : np.

  Lemma attributed_notpanic : forall l, notpanic (attributed l).
  Proof.
    induction l as [|e r IH]; cbn; [exact I|].
    set (here := match e_type "object" e with Some t => _ | None => _ end).
    assert (Hh : notpanic here).
    { unfold here. destruct (e_type "object" e); [|exact I]. destruct (vhas j "attributedTo"); [|exact I].
      pose proof (ids_of_notpanic "attributedTo" j) as H. destruct (ids_of "attributedTo" j); cbn in *; tauto. }
    destruct here as [[e' ids]|x|s]; cbn in *; try tauto. destruct (attributed r) as [[]| |]; cbn in *; tauto.
  Qed.

  Lemma fold_actor_object (attr_ids : list (option (list string))) actor_ids : forall v,
    jget "object" (fold_left (fun acc ids => match ids with Some l => append_iris "actor" (perm (missing actor_ids (uniq l))) acc | None => acc end) attr_ids v) = jget "object" v.
  Proof. induction attr_ids as [|o r IH]; intros v; cbn; [reflexivity|]. rewrite IH. destruct o; [apply get_append_iris_other; discriminate|reflexivity]. Qed.

  Lemma np_soc_create a : NP (Soc.create cfg perm a).
  Proof.
    unfold Soc.create. destruct (object_required a) eqn:Eo; [exact I|].
    apply NP_bindr; [apply NP_lift; apply ids_of_notpanic|intros actor_ids].
    apply NP_bindr; [apply NP_lift; apply attributed_notpanic|intros [objs attr_ids]].
    set (objs1 := map _ (combine objs attr_ids)). set (a1 := set_elems "object" objs1 a).
    set (a2 := fold_left _ attr_ids a1).
    assert (Ha : exists m, a = JObj m).
    { unfold object_required, elems in Eo. destruct a; try (cbn in Eo; discriminate). eexists; reflexivity. }
    destruct Ha as [m Hm].
    assert (H1 : elems "object" a1 <> None).
    { unfold a1, elems, set_elems. rewrite Hm, jget_jset_same. destruct (canon_list objs1); discriminate. }
    assert (H2 : elems "object" a2 <> None).
    { unfold a2. unfold elems. rewrite fold_actor_object. exact H1. }
    destruct (normalize_ok perm a2 H2) as [Hn Hv].
    apply NP_bindr_lift; [exact Hn|intros a3 E3]. specialize (Hv a3 E3).
    apply NP_bindr.
    - apply (NP_foreach_forall (fun e => e_type "object" e = Some e)); [exact Hv|]. intros e He. rewrite He. np.
    - intros _. np.
  Qed.
  Hint Resolve np_soc_create : np.

  Lemma update_spec_notpanic t s r : notpanic (update_spec t s r).
  Proof. unfold update_spec. apply to_type_notpanic. Qed.
  Hint Resolve update_spec_notpanic : np.
  Lemma np_update_loop : forall l idx ids, NP (update_loop raw idx l ids).
  Proof. induction l as [|e r IH]; intros idx [|id ids]; cbn [update_loop]; np. Qed.
  Hint Resolve np_update_loop : np.
  Lemma np_soc_update a : NP (Soc.update cfg raw a). Proof. npu Soc.update. Qed.
  Lemma np_soc_delete a : NP (Soc.delete cfg a). Proof. npu Soc.delete. Qed.
  Lemma np_soc_follow a : NP (Soc.follow cfg a). Proof. npu Soc.follow. Qed.
  Lemma np_soc_add a : NP (Soc.add_cb cfg a). Proof. npu Soc.add_cb. Qed.
  Lemma np_soc_remove a : NP (Soc.remove_cb cfg a). Proof. npu Soc.remove_cb. Qed.
  Lemma np_soc_like a : NP (Soc.like cfg outbox a). Proof. npu Soc.like. Qed.
  Lemma np_soc_undo a : NP (Soc.undo cfg outbox a). Proof. npu Soc.undo. Qed.
  Lemma np_soc_block a : NP (Soc.block cfg a). Proof. npu Soc.block. Qed.
  Hint Resolve np_soc_update np_soc_delete np_soc_follow np_soc_add np_soc_remove np_soc_like np_soc_undo np_soc_block : np.
  Lemma np_soc_callbacks a : NP (soc_callbacks cfg outbox raw perm a). Proof. npu soc_callbacks. Qed.
  Hint Resolve np_soc_callbacks : np.
  Lemma np_post_outbox a : NP (post_outbox cfg outbox raw perm a). Proof. npu post_outbox. Qed.
End SocNP.

Lemma actor_iris_notpanic : forall l, notpanic (actor_iris l).
Proof.
  induction l as [|e r IH]; cbn; [exact I|].
  set (one := if e_is_iri e then _ else _).
  assert (Ho : notpanic one) by (unfold one; destruct (e_is_iri e); [exact I|]; destruct (e_type "actor" e); [apply get_id_notpanic|exact I]).
  destruct one; cbn in *; try tauto. destruct (actor_iris r); cbn in *; tauto.
Qed.

(* ---- the entry points ---- *)
Definition NPO (m : prog outcome) : Prop := leaves (fun o => notpanic (snd o)) m.

Lemma NPO_bind_val {A} (m : prog (res A)) (f : res A -> prog outcome) : NP m -> (forall r, notpanic r -> NPO (f r)) -> NPO (bind m f).
Proof. intros Hm Hf. unfold NP, NPO in *. apply (leaves_bind_val_ notpanic); assumption. Qed.
Lemma NPO_bind_any {A} (m : prog A) (f : A -> prog outcome) : (forall a, NPO (f a)) -> NPO (bind m f).
Proof. intros Hf. unfold NPO. apply leaves_bind. exact Hf. Qed.

Section Entry.
  Variable cfg : config.
  Variable perm : list string -> list string.

  Lemma np_deliver_outbox outbox v raw : NP (deliver_outbox cfg perm outbox v raw).
  Proof.
    unfold deliver_outbox. apply NP_bindr; [destruct (is_activity v); [exact I|apply np_wrap_in_create_for]|intros a0].
    destruct (negb _); [exact I|]. apply NP_bindr; [apply np_add_new_ids|intros a1].
    apply NP_bindr; [apply np_post_outbox|intros [a2 d]].
    destruct (_ && _); [|exact I]. apply NP_bindr; [apply np_deliver|intros a3; exact I].
  Qed.

  Theorem npo_post_outbox_http r : NPO (post_outbox_http cfg perm r).
  Proof.
    unfold post_outbox_http, done. destruct (negb _); [exact I|]. destruct (negb _); [apply NPO_bind_any; intros _; exact I|].
    apply NPO_bind_val.
    { unfold authenticate, app, call, NP. cbn. intros x. destruct x; exact I. }
    intros au Hau. destruct au as [[|]|e|s]; cbn in Hau; try tauto; try exact I.
    destruct (r_body r) as [|j]; [exact I|].
    pose proof (to_type_notpanic j) as Ht. destruct (to_type j) as [v|e|s]; cbn in Ht; try tauto.
    - apply NPO_bind_val; [apply np_app_unit|]. intros h Hh. destruct h as [u|e|s]; cbn in Hh; try tauto; try exact I.
      apply NPO_bind_val; [apply np_deliver_outbox|]. intros d Hd. destruct d as [a|e|s]; cbn in Hd; try tauto.
      + apply NPO_bind_any; intros _. apply NPO_bind_any; intros _. exact I.
      + destruct e; try exact I; apply NPO_bind_any; intros _; exact I.
    - destruct e; try exact I. apply NPO_bind_any; intros _. exact I.
  Qed.

  Theorem np_send outbox v : NP (send cfg perm outbox v).
  Proof. apply np_deliver_outbox. Qed.

  (* AuthorizePostInbox lets the request through only when the activity has an actor property *)
  Lemma authorize_guard a : leaves (fun r => notpanic r /\ (r = Ok true -> elems "actor" a <> None)) (authorize_post_inbox a).
  Proof.
    unfold authorize_post_inbox. destruct (elems "actor" a) as [l|]; [|split; [exact I|discriminate]].
    unfold bindr, lift. pose proof (actor_iris_notpanic l) as Hl. destruct (actor_iris l); cbn in Hl; try tauto; cbn [bind leaves]; try (split; [exact I|discriminate]).
    unfold app, call. cbn [bind leaves]. intros x. destruct x; cbn; try (split; [exact I|discriminate]).
    destruct b; cbn; [intros _; split; [exact I|discriminate]|split; [exact I|discriminate]].
  Qed.

  Theorem npo_post_inbox_http r : NPO (post_inbox_http cfg r).
  Proof.
    unfold post_inbox_http, done. destruct (negb _); [exact I|]. destruct (negb _); [apply NPO_bind_any; intros _; exact I|].
    apply NPO_bind_val.
    { unfold authenticate, app, call, NP. cbn. intros x. destruct x; exact I. }
    intros au Hau. destruct au as [[|]|e|s]; cbn in Hau; try tauto; try exact I.
    destruct (r_body r) as [|j]; [exact I|].
    pose proof (to_type_notpanic j) as Ht. destruct (to_type j) as [a|e|s]; cbn in Ht; try tauto.
    2: { destruct e; try exact I. apply NPO_bind_any; intros _. exact I. }
    destruct (negb (satisfies_activity a)); [exact I|].
    destruct (negb _); [apply NPO_bind_any; intros _; exact I|].
    apply NPO_bind_val; [apply np_app_unit|]. intros h Hh. destruct h as [u|e|s]; cbn in Hh; try tauto; try exact I.
    unfold NPO. apply (leaves_bind_val_ (fun r0 : res bool => notpanic r0 /\ (r0 = Ok true -> elems "actor" a <> None))); [apply authorize_guard|].
    intros az [Haz Hg]. destruct az as [[|]|e|s]; cbn in Haz; try tauto; try exact I.
    specialize (Hg eq_refl).
    apply NPO_bind_val; [apply np_post_inbox; exact Hg|]. intros p Hp. destruct p as [u2|e|s]; cbn in Hp; try tauto.
    - apply NPO_bind_val; [apply np_inbox_forwarding|]. intros f Hf. destruct f; cbn in Hf; try tauto; try exact I. apply NPO_bind_any; intros _. exact I.
    - destruct e; try exact I; apply NPO_bind_any; intros _; exact I.
  Qed.

  Theorem npo_get_inbox_http r : NPO (get_inbox_http cfg r).
  Proof.
    unfold get_inbox_http, done, serve_page. destruct (negb _); [exact I|].
    apply NPO_bind_val. { unfold authenticate, app, call, NP. cbn. intros x. destruct x; exact I. }
    intros au Hau. destruct au as [[|]|e|s]; cbn in Hau; try tauto; try exact I.
    destruct (negb _); [exact I|]. apply NPO_bind_any. intros x. destruct x; try exact I.
    pose proof (dedupe_ordered_items_notpanic j) as Hd. destruct (dedupe_ordered_items j); cbn in Hd; try tauto; try exact I.
    repeat (apply NPO_bind_any; intros ?). exact I.
  Qed.
End Entry.

Theorem npo_get_outbox_http r : NPO (get_outbox_http r).
Proof.
  unfold get_outbox_http, done, serve_page. destruct (negb _); [exact I|].
  apply NPO_bind_val. { unfold authenticate, app, call, NP. cbn. intros x. destruct x; exact I. }
  intros au Hau. destruct au as [[|]|e|s]; cbn in Hau; try tauto; try exact I.
  apply NPO_bind_any. intros x. destruct x; try exact I. repeat (apply NPO_bind_any; intros ?). exact I.
Qed.
Theorem npo_handler_http r : NPO (handler_http r).
Proof.
  unfold handler_http, done. destruct (negb _); [exact I|].
  apply NPO_bind_val; [apply np_lock_|]. intros lk Hlk. destruct lk; cbn in Hlk; try tauto; try exact I.
  apply NPO_bind_val; [apply np_db_opt_json|]. intros x Hx. apply NPO_bind_any; intros _.
  destruct x as [[t|]|e|s]; cbn in Hx; try tauto; try exact I. repeat (apply NPO_bind_any; intros ?). exact I.
Qed.
