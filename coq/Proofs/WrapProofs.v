(* C05: the two remaining clauses of the outbox normalisation -
   (1) wrapInCreate: a non-activity is wrapped in a Create that has the outbox's owner as actor, the object, and copies of the
       object's to / bto / cc / bcc / audience / published and nothing else;
   (2) the attribution step of the Social Create callback: every actor is added to each object's attributedTo and every
       attributedTo entry to the activity's actors. *)
From Coq Require Import String List Bool Arith.
From Verif Require Import Base.ListX Base.Json Base.Free Pub.Events Pub.Calls Pub.Value Pub.EffectSpec Pub.Util Pub.SideEffect Pub.Fed Pub.Soc.
From Verif Require Import Proofs.ValueProofs Proofs.HiddenProofs Proofs.ServeProofs Proofs.EffectProofs Proofs.NormalizeProofs.
Import ListNotations.
Open Scope string_scope.
Open Scope list_scope.

Local Opaque has_prop known_type admits vhas T P.

(* ================================================================================================================== *)
(* PART 1 - wrap_in_create                                                                                            *)
(* ================================================================================================================== *)

(* ---- copy_addressing, for any list of distinct property names ---- *)
Lemma copy_addressing_spec o : forall ps c m c', NoDup ps -> c = JObj m -> copy_addressing ps o c = Ok c' ->
  (exists m', c' = JObj m') /\
  (forall q, ~ In q ps -> jget q c' = jget q c) /\
  (forall p, In p ps ->
     (forall l, vhas o p = true -> elems p o = Some l -> exists ids, to_ids p l = Ok ids /\ jget p c' = Some (JArr (map JStr ids))) /\
     (vhas o p = false \/ elems p o = None -> jget p c' = jget p c)).
Proof.
  induction ps as [|p r IH]; intros c m c' Hnd Hc; cbn [copy_addressing].
  - intros H. injection H as <-. split; [exists m; exact Hc|]. split; [reflexivity|]. intros p [].
  - inversion Hnd as [|x l Hnin Hnd']; subst x l.
    assert (Skip : copy_addressing r o c = Ok c' -> (vhas o p = false \/ elems p o = None) ->
      (exists m', c' = JObj m') /\ (forall q, ~ In q (p :: r) -> jget q c' = jget q c) /\
      (forall p0, In p0 (p :: r) ->
        (forall l, vhas o p0 = true -> elems p0 o = Some l -> exists ids, to_ids p0 l = Ok ids /\ jget p0 c' = Some (JArr (map JStr ids))) /\
        (vhas o p0 = false \/ elems p0 o = None -> jget p0 c' = jget p0 c))).
    { intros H Hno. destruct (IH c m c' Hnd' Hc H) as [I1 [I2 I3]]. split; [exact I1|]. split.
      - intros q Hq. apply I2. intros Hin. apply Hq. right. exact Hin.
      - intros p0 [<-|Hin]; [|apply I3; exact Hin]. split.
        + intros l Hv He. destruct Hno as [Hno|Hno]; [rewrite Hno in Hv; discriminate Hv|rewrite Hno in He; discriminate He].
        + intros _. apply I2. exact Hnin. }
    destruct (vhas o p) eqn:Ev; [|intros H; apply Skip; [exact H|left; reflexivity]].
    destruct (elems p o) as [l|] eqn:Ee; [|intros H; apply Skip; [exact H|right; reflexivity]].
    clear Skip. destruct (to_ids p l) as [ids|x|s] eqn:Et; try discriminate.
    intros H. destruct (jset_obj p (JArr (map JStr ids)) m) as [m1 E1]. rewrite <- Hc in E1.
    destruct (IH _ m1 c' Hnd' E1 H) as [I1 [I2 I3]]. split; [exact I1|]. split.
    + intros q Hq. rewrite I2 by (intros Hin; apply Hq; right; exact Hin). apply jget_jset_other. intros ->. apply Hq. left. reflexivity.
    + intros p0 [<-|Hin].
      * split.
        -- intros l0 _ He. assert (l0 = l) by congruence. subst l0. exists ids. split; [exact Et|]. rewrite (I2 p Hnin). subst c. apply jget_jset_same.
        -- intros [Hno|Hno]; [rewrite Hno in Ev; discriminate Ev|rewrite Hno in Ee; discriminate Ee].
      * destruct (I3 p0 Hin) as [J1 J2]. split; [exact J1|]. intros Hno. rewrite (J2 Hno). apply jget_jset_other. intros ->. apply Hnin. exact Hin.
Qed.

(* it fails only where some to_ids fails *)
Lemma copy_addressing_ok o : forall ps c,
  (forall p l, In p ps -> vhas o p = true -> elems p o = Some l -> exists ids, to_ids p l = Ok ids) ->
  exists c', copy_addressing ps o c = Ok c'.
Proof.
  induction ps as [|p r IH]; intros c Hall; cbn [copy_addressing]; [eexists; reflexivity|].
  assert (Hr : forall p0 l, In p0 r -> vhas o p0 = true -> elems p0 o = Some l -> exists ids, to_ids p0 l = Ok ids)
    by (intros p0 l Hin; apply Hall; right; exact Hin).
  destruct (vhas o p) eqn:Ev; [|apply IH; exact Hr]. destruct (elems p o) as [l|] eqn:Ee; [|apply IH; exact Hr].
  destruct (Hall p l (or_introl eq_refl) Ev Ee) as [ids Et]. rewrite Et. apply IH. exact Hr.
Qed.
Lemma copy_addressing_ok_inv o : forall ps c c', copy_addressing ps o c = Ok c' ->
  forall p l, In p ps -> vhas o p = true -> elems p o = Some l -> exists ids, to_ids p l = Ok ids.
Proof.
  induction ps as [|p r IH]; intros c c'; cbn [copy_addressing]; [intros _ p l []|].
  destruct (vhas o p) eqn:Ev.
  - destruct (elems p o) as [l|] eqn:Ee.
    + destruct (to_ids p l) as [ids|x|s] eqn:Et; try discriminate. intros H p0 l0 [<-|Hin] Hv He.
      * assert (l0 = l) by congruence. subst l0. exists ids. exact Et.
      * exact (IH _ _ H p0 l0 Hin Hv He).
    + intros H p0 l0 [<-|Hin] Hv He; [rewrite Ee in He; discriminate He|exact (IH _ _ H p0 l0 Hin Hv He)].
  - intros H p0 l0 [<-|Hin] Hv He; [rewrite Ev in Hv; discriminate Hv|exact (IH _ _ H p0 l0 Hin Hv He)].
Qed.

(* ---- the last pass: a one-element array is written as a scalar ---- *)
Definition scalar_step (acc : json) (p : string) : json := match jget p acc with Some (JArr [x]) => jset p x acc | _ => acc end.
Definition scalarise (ps : list string) (c : json) : json := fold_left scalar_step ps c.
Definition scalar_of (v : option json) : option json := match v with Some (JArr [x]) => Some x | other => other end.

Lemma scalar_step_spec c m p : c = JObj m ->
  (exists m', scalar_step c p = JObj m') /\ jget p (scalar_step c p) = scalar_of (jget p c) /\
  forall q, q <> p -> jget q (scalar_step c p) = jget q c.
Proof.
  intros Hc. unfold scalar_step, scalar_of. destruct (jget p c) as [[| | | |[|x [|y l]]|]|] eqn:E;
    try (split; [exists m; exact Hc|split; [exact E|reflexivity]]).
  split; [subst c; apply jset_obj|]. split; [subst c; apply jget_jset_same|]. intros q Hq. apply jget_jset_other. exact Hq.
Qed.

Lemma scalarise_spec : forall ps c m, NoDup ps -> c = JObj m ->
  (exists m', scalarise ps c = JObj m') /\
  (forall q, ~ In q ps -> jget q (scalarise ps c) = jget q c) /\
  (forall p, In p ps -> jget p (scalarise ps c) = scalar_of (jget p c)).
Proof.
  induction ps as [|p r IH]; intros c m Hnd Hc; cbn [scalarise fold_left].
  - split; [exists m; exact Hc|]. split; [reflexivity|intros p []].
  - fold (scalarise r (scalar_step c p)). inversion Hnd as [|x l Hnin Hnd']; subst x l.
    destruct (scalar_step_spec c m p Hc) as [[m1 E1] [S2 S3]].
    destruct (IH _ m1 Hnd' E1) as [I1 [I2 I3]]. split; [exact I1|]. split.
    + intros q Hq. rewrite I2 by (intros Hin; apply Hq; right; exact Hin). apply S3. intros ->. apply Hq. left. reflexivity.
    + intros p0 [<-|Hin]; [rewrite (I2 p Hnin); exact S2|]. rewrite (I3 p0 Hin). rewrite S3; [reflexivity|]. intros ->. apply Hnin. exact Hin.
Qed.

Lemma addressing_nodup : NoDup addressing.
Proof. apply nodupb_spec. reflexivity. Qed.

(* the value a list of ids is written as *)
Definition ids_value (ids : list string) : json := match ids with [x] => JStr x | _ => JArr (map JStr ids) end.

Lemma scalar_of_ids ids : scalar_of (Some (JArr (map JStr ids))) = Some (ids_value ids).
Proof. destruct ids as [|x [|y l]]; reflexivity. Qed.

(* reading a written list of ids back *)
Lemma ids_of_ids_value p c ids : schemes ids -> jget p c = Some (ids_value ids) -> ids_of p c = Ok ids.
Proof.
  intros Hs Hg. unfold ids_of, elems. rewrite Hg. destruct ids as [|x [|y l]]; cbn [ids_value]; try (apply to_ids_strs; exact Hs).
  exact (to_ids_strs p [x] Hs).
Qed.

Lemma ids_of_absent p c : jget p c = None -> ids_of p c = Ok [].
Proof. intros Hg. unfold ids_of, elems. rewrite Hg. reflexivity. Qed.

(* the members of the Create before the addressing is copied *)
Definition create_base (o : json) (actor : string) : json :=
  let c := JObj [("type", JStr "Create"); ("object", o); ("actor", JStr actor)] in
  if vhas o "published" then match jget "published" o with Some v => jset "published" v c | None => c end else c.

Lemma wrap_in_create_unfold o actor :
  wrap_in_create o actor = match copy_addressing addressing o (create_base o actor) with
                           | Ok c' => Ok (scalarise addressing c')
                           | r => r
                           end.
Proof. reflexivity. Qed.

Lemma create_base_spec o actor :
  (exists m, create_base o actor = JObj m) /\
  jget "type" (create_base o actor) = Some (JStr "Create") /\
  jget "actor" (create_base o actor) = Some (JStr actor) /\
  jget "object" (create_base o actor) = Some o /\
  jget "published" (create_base o actor) = (if vhas o "published" then jget "published" o else None) /\
  (forall k, jget k (create_base o actor) <> None -> k = "type" \/ k = "object" \/ k = "actor" \/ k = "published").
Proof.
  unfold create_base. set (c0 := JObj [("type", JStr "Create"); ("object", o); ("actor", JStr actor)]).
  assert (K0 : forall k, jget k c0 <> None -> k = "type" \/ k = "object" \/ k = "actor").
  { intros k. unfold c0, jget. cbn [jfields assoc].
    destruct (String.eqb_spec k "type") as [->|_]; [tauto|]. destruct (String.eqb_spec k "object") as [->|_]; [tauto|].
    destruct (String.eqb_spec k "actor") as [->|_]; [tauto|]. intros H. exfalso. apply H. reflexivity. }
  destruct (vhas o "published"); [destruct (jget "published" o) as [v|] eqn:Ep|].
  - split; [apply jset_obj|]. rewrite !jget_jset_other by discriminate. unfold c0 at 4. rewrite jget_jset_same.
    repeat (split; [reflexivity|]). intros k Hk. destruct (String.eqb_spec k "published") as [->|Hne]; [tauto|].
    rewrite jget_jset_other in Hk by exact Hne. destruct (K0 k Hk) as [->|[->| ->]]; tauto.
  - split; [eexists; reflexivity|]. repeat (split; [reflexivity|]). intros k Hk. destruct (K0 k Hk) as [->|[->| ->]]; tauto.
  - split; [eexists; reflexivity|]. repeat (split; [reflexivity|]). intros k Hk. destruct (K0 k Hk) as [->|[->| ->]]; tauto.
Qed.

Lemma not_addressing k : k = "type" \/ k = "object" \/ k = "actor" \/ k = "published" -> ~ In k addressing.
Proof. unfold addressing. cbn [In]. intros [->|[->|[->| ->]]] H; repeat (destruct H as [H|H]; [discriminate H|]); exact H. Qed.

Theorem wrap_in_create_spec o actor c : wrap_in_create o actor = Ok c ->
  jget "type" c = Some (JStr "Create") /\
  jget "actor" c = Some (JStr actor) /\
  jget "object" c = Some o /\
  jget "published" c = (if vhas o "published" then jget "published" o else None) /\
  (forall p, In p addressing ->
     (forall l, vhas o p = true -> elems p o = Some l ->
        exists ids, to_ids p l = Ok ids /\ jget p c = Some (match ids with [x] => JStr x | _ => JArr (map JStr ids) end)) /\
     (vhas o p = false \/ elems p o = None -> jget p c = None)) /\
  (forall p ids, In p addressing -> vhas o p = true -> ids_of p o = Ok ids -> ids_of p c = ids_of p o) /\
  (forall k, jget k c <> None -> k = "type" \/ k = "object" \/ k = "actor" \/ k = "published" \/ In k addressing).
Proof.
  rewrite wrap_in_create_unfold. destruct (copy_addressing addressing o (create_base o actor)) as [c'|x|s] eqn:Ec; try discriminate.
  intros H. assert (Hc : c = scalarise addressing c') by (injection H as H; symmetry; exact H). subst c. clear H.
  destruct (create_base_spec o actor) as [[m0 E0] [B1 [B2 [B3 [B4 B5]]]]].
  destruct (copy_addressing_spec o addressing _ m0 c' addressing_nodup E0 Ec) as [[m1 E1] [C2 C3]].
  destruct (scalarise_spec addressing c' m1 addressing_nodup E1) as [_ [S2 S3]].
  assert (Keep : forall k, ~ In k addressing -> jget k (scalarise addressing c') = jget k (create_base o actor))
    by (intros k Hk; rewrite (S2 k Hk); apply C2; exact Hk).
  assert (Base0 : forall p, In p addressing -> jget p (create_base o actor) = None).
  { intros p Hp. destruct (jget p (create_base o actor)) eqn:E; [|reflexivity]. exfalso.
    assert (Hk : jget p (create_base o actor) <> None) by (rewrite E; discriminate). exact (not_addressing p (B5 p Hk) Hp). }
  assert (Addr : forall p, In p addressing ->
     (forall l, vhas o p = true -> elems p o = Some l ->
        exists ids, to_ids p l = Ok ids /\ jget p (scalarise addressing c') = Some (ids_value ids)) /\
     (vhas o p = false \/ elems p o = None -> jget p (scalarise addressing c') = None)).
  { intros p Hp. destruct (C3 p Hp) as [D1 D2]. split.
    - intros l Hv He. destruct (D1 l Hv He) as [ids [Et Eg]]. exists ids. split; [exact Et|]. rewrite (S3 p Hp), Eg. apply scalar_of_ids.
    - intros Hno. rewrite (S3 p Hp), (D2 Hno), (Base0 p Hp). reflexivity. }
  split; [rewrite Keep by (apply not_addressing; tauto); exact B1|].
  split; [rewrite Keep by (apply not_addressing; tauto); exact B2|].
  split; [rewrite Keep by (apply not_addressing; tauto); exact B3|].
  split; [rewrite Keep by (apply not_addressing; tauto); exact B4|].
  split; [exact Addr|]. split.
  - intros p ids Hp Hv Hi. destruct (Addr p Hp) as [A1 A2]. rewrite Hi. unfold ids_of in Hi. destruct (elems p o) as [l|] eqn:Ee.
    + destruct (A1 l Hv eq_refl) as [ids' [Et Eg]]. assert (ids' = ids) by congruence. subst ids'.
      apply ids_of_ids_value; [exact (to_ids_schemes p l ids Et)|exact Eg].
    + injection Hi as <-. exact (ids_of_absent p _ (A2 (or_intror eq_refl))).
  - intros k Hk. destruct (in_dec string_dec k addressing) as [Hin|Hnin]; [tauto|].
    rewrite (Keep k Hnin) in Hk. destruct (B5 k Hk) as [->|[->|[->| ->]]]; tauto.
Qed.

(* success and failure: the wrapping succeeds exactly when the ids of every addressing property the object's type has can be taken *)
Theorem wrap_in_create_ok_iff o actor :
  (exists c, wrap_in_create o actor = Ok c) <->
  (forall p l, In p addressing -> vhas o p = true -> elems p o = Some l -> exists ids, to_ids p l = Ok ids).
Proof.
  rewrite wrap_in_create_unfold. split.
  - intros [c H]. destruct (copy_addressing addressing o (create_base o actor)) as [c'|x|s] eqn:Ec; try discriminate.
    exact (copy_addressing_ok_inv o addressing _ c' Ec).
  - intros Hall. destruct (copy_addressing_ok o addressing (create_base o actor) Hall) as [c' Ec]. rewrite Ec. eexists. reflexivity.
Qed.

Definition ex_note : json :=
  JObj [("type", JStr "Note"); ("id", JStr "https://example.com/notes/1"); ("content", JStr "hello");
        ("to", JStr "https://remote.example/users/carol");
        ("cc", JArr [JStr "https://remote.example/users/dave"; JStr "https://www.w3.org/ns/activitystreams#Public"]);
        ("published", JStr "2019-01-01T00:00:00Z")].
Example wrap_in_create_not_vacuous :
  match wrap_in_create ex_note "https://example.com/users/alice" with
  | Ok c => jget "type" c = Some (JStr "Create") /\ jget "actor" c = Some (JStr "https://example.com/users/alice") /\
            jget "object" c = Some ex_note /\ jget "published" c = Some (JStr "2019-01-01T00:00:00Z") /\
            jget "to" c = Some (JStr "https://remote.example/users/carol") /\
            jget "cc" c = Some (JArr [JStr "https://remote.example/users/dave"; JStr "https://www.w3.org/ns/activitystreams#Public"]) /\
            jget "bto" c = None /\ jget "bcc" c = None /\ jget "audience" c = None
  | _ => False
  end.
Proof. vm_compute. repeat split; reflexivity. Qed.

(* ================================================================================================================== *)
(* PART 2 - the attribution step of the Social Create callback                                                        *)
(* ================================================================================================================== *)

(* one element of the object property, as `attributed` treats it: the element (with an empty attributedTo property created
   where it was nil) and its attributedTo ids; None = not an embedded value, or a value whose type has no attributedTo *)
Definition attr_one (e : json) : res (json * option (list string)) :=
  match e_type "object" e with
  | Some t => if vhas t "attributedTo" then
                match ids_of "attributedTo" t with
                | Ok ids => Ok (match elems "attributedTo" t with None => jset "attributedTo" (JArr []) t | Some _ => t end, Some ids)
                | Err x => Err x
                | Panic s => Panic s
                end
              else Ok (t, None)
  | None => Ok (e, None)
  end.
(* the actors an object misses, appended to its attributedTo *)
Definition attr_obj (perm : list string -> list string) (A : list string) (t : json * option (list string)) : json :=
  match t with (o, Some ids) => append_iris "attributedTo" (perm (missing ids (uniq A))) o | (o, None) => o end.
(* the attributedTo ids the activity misses, appended to its actors *)
Definition attr_act (perm : list string -> list string) (A : list string) (acc : json) (ids : option (list string)) : json :=
  match ids with Some l => append_iris "actor" (perm (missing A (uniq l))) acc | None => acc end.

(* the pure prefix of Soc.create, up to the value handed to normalize_recipients *)
Definition attribute (perm : list string -> list string) (a : json) : res json :=
  match ids_of "actor" a with
  | Ok actor_ids =>
      match attributed (elems0 "object" a) with
      | Ok (objs, attr_ids) =>
          let a1 := set_elems "object" (map (attr_obj perm actor_ids) (combine objs attr_ids)) a in
          Ok (fold_left (attr_act perm actor_ids) attr_ids a1)
      | Err x => Err x
      | Panic s => Panic s
      end
  | Err x => Err x
  | Panic s => Panic s
  end.

(* ... and it is that prefix: the model's callback is `attribute`, then normalize_recipients, then the database calls *)
Lemma create_attribute cfg perm a :
  Soc.create cfg perm a =
  if Fed.object_required a then fail EObjectRequired else
  bindr (lift (attribute perm a)) (fun a2 =>
  bindr (lift (normalize_recipients perm a2)) (fun a3 =>
  bindr (foreach (elems0 "object" a3) (fun e =>
            match e_type "object" e with
            | None => panic "social create: object is not a value"
            | Some obj => bindr (lift (get_id obj)) (fun id => with_lock_deferred id (db_unit "Create" [obj]))
            end)) (fun _ =>
  bindr (swrapped cfg "Create" a3) (fun _ => ok (a3, tt))))).
Proof.
  unfold Soc.create, attribute. destruct (Fed.object_required a); [reflexivity|].
  destruct (ids_of "actor" a) as [A|x|s]; [|reflexivity|reflexivity].
  destruct (attributed (elems0 "object" a)) as [[objs attr_ids]|x|s]; reflexivity.
Qed.

Lemma attributed_cons e r :
  attributed (e :: r) = match attr_one e with
                        | Ok (e', ids) => match attributed r with
                                          | Ok (r', idss) => Ok (e' :: r', ids :: idss)
                                          | Err x => Err x | Panic s => Panic s end
                        | Err x => Err x
                        | Panic s => Panic s
                        end.
Proof. reflexivity. Qed.

Lemma Ok_inj {X} (x y : X) : Ok x = Ok y -> x = y.
Proof. intros H. injection H as H. exact H. Qed.

Lemma attributed_spec : forall l objs idss, attributed l = Ok (objs, idss) ->
  exists C, Forall2 (fun e r => attr_one e = Ok r) l C /\ objs = map fst C /\ idss = map snd C.
Proof.
  induction l as [|e r IH]; intros objs idss.
  - cbn [attributed]. intros H. apply Ok_inj in H. injection H as <- <-. exists []. split; [constructor|split; reflexivity].
  - rewrite attributed_cons. destruct (attr_one e) as [[e' ids]|x|s] eqn:E1; try discriminate.
    destruct (attributed r) as [[r' idss']|x|s] eqn:Er; try discriminate.
    intros H. apply Ok_inj in H. injection H as <- <-. destruct (IH r' idss' eq_refl) as [C [F [-> ->]]].
    exists ((e', ids) :: C). split; [constructor; [exact E1|exact F]|split; reflexivity].
Qed.

Lemma combine_fst_snd {X Y} (C : list (X * Y)) : combine (map fst C) (map snd C) = C.
Proof. induction C as [|[x y] r IH]; [reflexivity|]. cbn [map combine fst snd]. rewrite IH. reflexivity. Qed.

(* what the statement says of an element e of the object property and the element e' at its place afterwards *)
Definition obj_attr_rel (A : list string) (e e' : json) : Prop :=
  (forall t, e_type "object" e = Some t -> vhas t "attributedTo" = true ->
     exists own n', ids_of "attributedTo" t = Ok own /\ ids_of "attributedTo" e' = Ok n' /\
       (forall x, In x n' <-> In x own \/ In x A) /\
       (forall q, q <> "attributedTo" -> jget q e' = jget q t)) /\
  (e_type "object" e = None \/ (exists t, e_type "object" e = Some t /\ vhas t "attributedTo" = false) -> e' = e).

Definition act_new (perm : list string -> list string) (A : list string) (oi : option (list string)) : list string :=
  match oi with Some l => perm (missing A (uniq l)) | None => [] end.

Section Attr.
  Variable perm : list string -> list string.
  Hypothesis perm_in : forall l x, In x (perm l) <-> In x l.
  Variable A : list string.
  Hypothesis SA : schemes A.

  Lemma attr_one_spec e r : no_arrays (elems0 "attributedTo" e) = true -> attr_one e = Ok r ->
    (forall t, e_type "object" e = Some t -> vhas t "attributedTo" = true ->
       t = e /\ exists own, ids_of "attributedTo" e = Ok own /\ snd r = Some own /\
         ids_of "attributedTo" (attr_obj perm A r) = Ok (own ++ perm (missing own (uniq A))) /\
         (exists m', attr_obj perm A r = JObj m') /\
         forall q, q <> "attributedTo" -> jget q (attr_obj perm A r) = jget q e) /\
    (e_type "object" e = None \/ (exists t, e_type "object" e = Some t /\ vhas t "attributedTo" = false) ->
       snd r = None /\ attr_obj perm A r = e).
  Proof.
    intros Hf. unfold attr_one. destruct (e_type "object" e) as [t0|] eqn:Et.
    - destruct (e_type_some _ _ _ Et) as [-> [me Hme]]. destruct (vhas e "attributedTo") eqn:Ev.
      + destruct (ids_of "attributedTo" e) as [own|x|s] eqn:Ei; try discriminate.
        intros H. apply Ok_inj in H. subst r. split.
        * intros t Ht _. assert (Hte : t = e) by (injection Ht as Ht; symmetry; exact Ht). clear Ht.
          split; [exact Hte|]. exists own. split; [reflexivity|]. cbn [snd attr_obj]. split; [reflexivity|].
          set (e1 := match elems "attributedTo" e with None => jset "attributedTo" (JArr []) e | Some _ => e end).
          assert (H1 : (exists m1, e1 = JObj m1) /\ ids_of "attributedTo" e1 = Ok own /\ no_arrays (elems0 "attributedTo" e1) = true /\
                       forall q, q <> "attributedTo" -> jget q e1 = jget q e).
          { unfold e1. destruct (elems "attributedTo" e) as [l|] eqn:Ee.
            - split; [exists me; exact Hme|]. split; [exact Ei|]. split; [exact Hf|reflexivity].
            - assert (Hown : own = []) by (unfold ids_of in Ei; rewrite Ee in Ei; apply Ok_inj in Ei; symmetry; exact Ei).
              split; [subst e; apply jset_obj|]. split; [|split].
              + subst e. unfold ids_of, elems. rewrite jget_jset_same. rewrite Hown. reflexivity.
              + subst e. unfold elems0, elems. rewrite jget_jset_same. reflexivity.
              + intros q Hq. apply jget_jset_other. exact Hq. }
          destruct H1 as [[m1 E1] [H2 [H3 H4]]].
          destruct (append_iris_ids "attributedTo" (perm (missing own (uniq A))) e1 m1 own E1 H3 H2 (new_schemes perm perm_in own A SA)) as [P1 [P2 [_ P4]]].
          split; [exact P1|]. split; [exact P2|]. intros q Hq. rewrite (P4 q Hq). apply H4. exact Hq.
        * intros [Hn|[t [Ht Hv]]]; [discriminate Hn|]. assert (Hte : t = e) by (injection Ht as Ht; symmetry; exact Ht). subst t.
          rewrite Hv in Ev. discriminate Ev.
      + intros H. apply Ok_inj in H. subst r. split.
        * intros t Ht Hv. assert (Hte : t = e) by (injection Ht as Ht; symmetry; exact Ht). rewrite Hte in Hv. rewrite Hv in Ev. discriminate Ev.
        * intros _. split; reflexivity.
    - intros H. apply Ok_inj in H. subst r. split; [intros t Ht; discriminate Ht|intros _; split; reflexivity].
  Qed.

  Lemma attr_objs_spec : forall l C, Forall2 (fun e r => attr_one e = Ok r) l C -> no_arrays l = true ->
    Forall (fun e => no_arrays (elems0 "attributedTo" e) = true) l ->
    no_arrays (map (attr_obj perm A) C) = true /\
    Forall2 (obj_attr_rel A) l (map (attr_obj perm A) C) /\
    (forall oi, In oi (map snd C) -> schemes (act_new perm A oi)) /\
    (forall x, In x (flat_map (act_new perm A) (map snd C)) <->
       ~ In x A /\ exists e t ids, In e l /\ e_type "object" e = Some t /\ vhas t "attributedTo" = true /\
                                   ids_of "attributedTo" t = Ok ids /\ In x ids).
  Proof.
    intros l C F. induction F as [|e r l C Hr _ IH]; intros Hna Hfl.
    - cbn [map flat_map]. split; [reflexivity|]. split; [constructor|]. split; [intros oi []|].
      intros x. split; [intros []|]. intros [_ [e [t [ids [[] _]]]]].
    - unfold no_arrays in Hna. cbn [forallb] in Hna. apply andb_true_iff in Hna. destruct Hna as [Hne Hna]. fold (no_arrays l) in Hna.
      inversion Hfl as [|e0 l0 Hfe Hfl']; subst e0 l0.
      destruct (IH Hna Hfl') as [I1 [I2 [I3 I4]]]. destruct (attr_one_spec e r Hfe Hr) as [S1 S2].
      cbn [map flat_map].
      destruct (e_type "object" e) as [t|] eqn:Et; [destruct (vhas t "attributedTo") eqn:Ev|].
      + (* an embedded value with the property *)
        destruct (S1 t eq_refl Ev) as [Hte [own [Ho [Hs [Hi [[m' Hm'] Hq]]]]]]. subst t.
        split; [|split; [|split]].
        * unfold no_arrays. cbn [forallb]. rewrite Hm'. exact I1.
        * constructor; [|exact I2]. split.
          -- intros t Ht Hv. rewrite Et in Ht. assert (Hte : t = e) by (injection Ht as Ht; symmetry; exact Ht). subst t.
             exists own, (own ++ perm (missing own (uniq A))). split; [exact Ho|]. split; [exact Hi|]. split; [|exact Hq].
             intros x. apply (new_in perm perm_in).
          -- intros [Hn|[t [Ht Hv]]]; [rewrite Et in Hn; discriminate Hn|]. rewrite Et in Ht.
             assert (Hte : t = e) by (injection Ht as Ht; symmetry; exact Ht). subst t. rewrite Hv in Ev. discriminate Ev.
        * intros oi [<-|Hin]; [|apply I3; exact Hin]. rewrite Hs. cbn [act_new]. apply (new_schemes perm perm_in). exact (ids_of_schemes _ _ _ Ho).
        * intros x. rewrite in_app_iff, I4, Hs. cbn [act_new]. rewrite (union_in perm perm_in). split.
          -- intros [[Hx Hn]|[Hn [e1 [t1 [ids1 [Hin Hrest]]]]]].
             ++ split; [exact Hn|]. exists e, e, own. split; [left; reflexivity|]. repeat (split; [assumption|]). exact Hx.
             ++ split; [exact Hn|]. exists e1, t1, ids1. split; [right; exact Hin|exact Hrest].
          -- intros [Hn [e1 [t1 [ids1 [[<-|Hin] [Ht1 [Hv1 [Hi1 Hx]]]]]]]].
             ++ left. rewrite Et in Ht1. assert (Hte : t1 = e) by (injection Ht1 as Ht1; symmetry; exact Ht1). subst t1.
                rewrite Ho in Hi1. apply Ok_inj in Hi1. subst ids1. split; assumption.
             ++ right. split; [exact Hn|]. exists e1, t1, ids1. repeat (split; [assumption|]). exact Hx.
      + (* an embedded value whose type has no attributedTo *)
        destruct (S2 (or_intror (ex_intro _ t (conj eq_refl Ev)))) as [Hs Ho].
        split; [|split; [|split]].
        * unfold no_arrays. cbn [forallb]. rewrite Ho, Hne. exact I1.
        * constructor; [|exact I2]. split.
          -- intros t1 Ht1 Hv1. rewrite Et in Ht1. assert (Hte : t1 = t) by (injection Ht1 as Ht1; symmetry; exact Ht1). subst t1.
             rewrite Hv1 in Ev. discriminate Ev.
          -- intros _. exact Ho.
        * intros oi [<-|Hin]; [|apply I3; exact Hin]. rewrite Hs. constructor.
        * intros x. rewrite Hs. cbn [act_new app]. rewrite I4. split.
          -- intros [Hn [e1 [t1 [ids1 [Hin Hrest]]]]]. split; [exact Hn|]. exists e1, t1, ids1. split; [right; exact Hin|exact Hrest].
          -- intros [Hn [e1 [t1 [ids1 [[<-|Hin] [Ht1 [Hv1 [Hi1 Hx]]]]]]]].
             ++ rewrite Et in Ht1. assert (Hte : t1 = t) by (injection Ht1 as Ht1; symmetry; exact Ht1). subst t1. rewrite Hv1 in Ev. discriminate Ev.
             ++ split; [exact Hn|]. exists e1, t1, ids1. repeat (split; [assumption|]). exact Hx.
      + (* not an embedded value *)
        destruct (S2 (or_introl eq_refl)) as [Hs Ho].
        split; [|split; [|split]].
        * unfold no_arrays. cbn [forallb]. rewrite Ho, Hne. exact I1.
        * constructor; [|exact I2]. split.
          -- intros t1 Ht1. rewrite Et in Ht1. discriminate Ht1.
          -- intros _. exact Ho.
        * intros oi [<-|Hin]; [|apply I3; exact Hin]. rewrite Hs. constructor.
        * intros x. rewrite Hs. cbn [act_new app]. rewrite I4. split.
          -- intros [Hn [e1 [t1 [ids1 [Hin Hrest]]]]]. split; [exact Hn|]. exists e1, t1, ids1. split; [right; exact Hin|exact Hrest].
          -- intros [Hn [e1 [t1 [ids1 [[<-|Hin] [Ht1 [Hv1 [Hi1 Hx]]]]]]]].
             ++ rewrite Et in Ht1. discriminate Ht1.
             ++ split; [exact Hn|]. exists e1, t1, ids1. repeat (split; [assumption|]). exact Hx.
  Qed.
End Attr.

Lemma apply_all_nils : forall l v, (forall t, In t l -> snd t = []) -> apply_all l v = v.
Proof.
  induction l as [|[p new] r IH]; intros v H; [reflexivity|]. cbn [apply_all fold_left fst snd]. fold (apply_all r (append_iris p new v)).
  pose proof (H (p, new) (or_introl eq_refl)) as Hn. cbn [snd] in Hn. subst new. unfold append_iris. apply IH. intros t Ht. apply H. right. exact Ht.
Qed.
Lemma flat_map_nil {X Y} (g : X -> list Y) : forall l, flat_map g l = [] -> forall x, In x l -> g x = [].
Proof.
  induction l as [|y r IH]; intros H x Hx; [destruct Hx|]. cbn [flat_map] in H. apply app_eq_nil in H. destruct H as [H1 H2].
  destruct Hx as [<-|Hin]; [exact H1|exact (IH H2 x Hin)].
Qed.

(* for EVERY Create - with or without an actor property - and EVERY order in which Go visits its maps (perm keeps the members of
   a list): the actors of the activity end as the union of its actors and the attributedTo ids of the embedded objects that have
   the property (the actor property is created when there is something to put into it); each such object ends with the union of
   its own attributedTo ids and the activity's actors (nothing else about it changes); every other element of the object property
   and every other member of the activity is unchanged; and when the objects contribute no id the activity lacks, the actor member
   itself is untouched.
   Flatness: the actor property, the object property and each object's attributedTo hold no array nested directly in an array. *)
Theorem attribution_unions perm : (forall l x, In x (perm l) <-> In x l) ->
  forall a m a2 A, a = JObj m ->
  no_arrays (elems0 "actor" a) = true ->
  no_arrays (elems0 "object" a) = true ->
  Forall (fun e => no_arrays (elems0 "attributedTo" e) = true) (elems0 "object" a) ->
  attribute perm a = Ok a2 -> ids_of "actor" a = Ok A ->
  (exists A2, ids_of "actor" a2 = Ok A2 /\
     forall x, In x A2 <-> In x A \/ exists e t ids, In e (elems0 "object" a) /\ e_type "object" e = Some t /\ vhas t "attributedTo" = true /\
                                                   ids_of "attributedTo" t = Ok ids /\ In x ids) /\
  Forall2 (obj_attr_rel A) (elems0 "object" a) (elems0 "object" a2) /\
  (forall q, q <> "actor" -> q <> "object" -> jget q a2 = jget q a) /\
  ((forall e t ids x, In e (elems0 "object" a) -> e_type "object" e = Some t -> vhas t "attributedTo" = true ->
                      ids_of "attributedTo" t = Ok ids -> In x ids -> In x A) -> jget "actor" a2 = jget "actor" a).
Proof.
  intros perm_in a m a2 A Hm Hfa Hfo Hft. unfold attribute. intros H HA. rewrite HA in H.
  destruct (attributed (elems0 "object" a)) as [[objs attr_ids]|x|s] eqn:Eat; try discriminate.
  apply Ok_inj in H. subst a2.
  destruct (attributed_spec _ _ _ Eat) as [C [F [-> ->]]]. rewrite combine_fst_snd.
  assert (SA : schemes A) by exact (ids_of_schemes _ _ _ HA).
  destruct (attr_objs_spec perm perm_in A SA _ C F Hfo Hft) as [N1 [N2 [N3 N4]]].
  set (a1 := set_elems "object" (map (attr_obj perm A) C) a).
  assert (G1 : forall q, q <> "object" -> jget q a1 = jget q a) by (intros q Hq; unfold a1, set_elems; apply jget_jset_other; exact Hq).
  assert (O1 : exists m1, a1 = JObj m1) by (unfold a1, set_elems; rewrite Hm; apply jset_obj).
  destruct O1 as [m1 E1].
  assert (EO1 : elems0 "object" a1 = map (attr_obj perm A) C) by (unfold a1; apply (elems_set_elems "object" _ a m Hm); exact N1).
  rewrite (fold_append_map (fun oi => ("actor", act_new perm A oi)) (map snd C) (attr_act perm A) a1)
    by (intros acc [l|]; reflexivity).
  set (L := map (fun oi => ("actor", act_new perm A oi)) (map snd C)).
  assert (Hin : forall p, In p (map fst L) -> p = "actor").
  { intros p Hp. unfold L in Hp. rewrite map_map in Hp. cbn [fst] in Hp. apply in_map_iff in Hp. destruct Hp as [oi [<- _]]. reflexivity. }
  assert (Hp : forall p, In p (map fst L) -> no_arrays (elems0 p a1) = true /\ exists old, ids_of p a1 = Ok old).
  { intros p Hp. rewrite (Hin p Hp). rewrite (elems0_jget "actor" a a1) by (apply G1; discriminate).
    rewrite (ids_of_jget "actor" a a1) by (apply G1; discriminate). split; [exact Hfa|exists A; exact HA]. }
  assert (Hs : forall t, In t L -> schemes (snd t)).
  { intros t Ht. unfold L in Ht. apply in_map_iff in Ht. destruct Ht as [oi [<- Hoi]]. cbn [snd]. apply N3. exact Hoi. }
  destruct (apply_all_ids L a1 m1 E1 Hp Hs) as [_ [B2 B3]].
  assert (HA1 : ids_of "actor" a1 = Ok A) by (rewrite (ids_of_jget "actor" a a1) by (apply G1; discriminate); exact HA).
  split; [|split; [|split]].
  - exists (A ++ added "actor" L). split; [exact (B2 "actor" A HA1)|].
    intros x. unfold L. rewrite added_map_same, in_app_iff, N4. split.
    + intros [Hx|[_ Hx]]; [left; exact Hx|right; exact Hx].
    + intros [Hx|Hx]; [left; exact Hx|]. destruct (in_dec string_dec x A) as [Hi|Hn]; [left; exact Hi|right; split; assumption].
  - rewrite (elems0_jget "object" a1 (apply_all L a1)); [rewrite EO1; exact N2|].
    apply B3. intros Hc. apply Hin in Hc. discriminate Hc.
  - intros q Hqa Hqo. rewrite B3 by (intros Hc; apply Hin in Hc; exact (Hqa Hc)). apply G1. exact Hqo.
  - intros Hnone.
    assert (Hnil : flat_map (act_new perm A) (map snd C) = []).
    { destruct (flat_map (act_new perm A) (map snd C)) as [|x r] eqn:Ef; [reflexivity|]. exfalso.
      destruct (proj1 (N4 x) (or_introl eq_refl)) as [Hn [e [t [ids [He [Ht [Hv [Hi Hx]]]]]]]]. exact (Hn (Hnone e t ids x He Ht Hv Hi Hx)). }
    rewrite apply_all_nils; [apply G1; discriminate|].
    intros t Ht. unfold L in Ht. apply in_map_iff in Ht. destruct Ht as [oi [<- Hoi]]. cbn [snd]. exact (flat_map_nil _ _ Hnil oi Hoi).
Qed.

(* a Create that comes WITHOUT an actor property: its actors afterwards are exactly the attributedTo ids of its objects; when
   the objects have none, it still has no actor property *)
Theorem attribution_no_actor perm : (forall l x, In x (perm l) <-> In x l) ->
  forall a m a2, a = JObj m -> elems "actor" a = None ->
  no_arrays (elems0 "object" a) = true ->
  Forall (fun e => no_arrays (elems0 "attributedTo" e) = true) (elems0 "object" a) ->
  attribute perm a = Ok a2 ->
  (exists A2, ids_of "actor" a2 = Ok A2 /\
     forall x, In x A2 <-> exists e t ids, In e (elems0 "object" a) /\ e_type "object" e = Some t /\ vhas t "attributedTo" = true /\
                                         ids_of "attributedTo" t = Ok ids /\ In x ids) /\
  Forall2 (obj_attr_rel []) (elems0 "object" a) (elems0 "object" a2) /\
  (forall q, q <> "actor" -> q <> "object" -> jget q a2 = jget q a) /\
  ((forall e t ids, In e (elems0 "object" a) -> e_type "object" e = Some t -> vhas t "attributedTo" = true ->
                    ids_of "attributedTo" t = Ok ids -> ids = []) -> jget "actor" a2 = None).
Proof.
  intros perm_in a m a2 Hm Hal Hfo Hft Ha.
  assert (HA : ids_of "actor" a = Ok []) by (unfold ids_of; rewrite Hal; reflexivity).
  assert (Hfa : no_arrays (elems0 "actor" a) = true) by (unfold elems0; rewrite Hal; reflexivity).
  assert (Hg : jget "actor" a = None) by (unfold elems in Hal; destruct (jget "actor" a) as [[| | | | |]|]; try discriminate Hal; reflexivity).
  destruct (attribution_unions perm perm_in a m a2 [] Hm Hfa Hfo Hft Ha HA) as [[A2 [E2 Hiff]] [F2 [Hq Hun]]].
  split; [|split; [exact F2|split; [exact Hq|]]].
  - exists A2. split; [exact E2|]. intros x. rewrite Hiff. split; [intros [[]|Hx]; exact Hx|intros Hx; right; exact Hx].
  - intros Hnone. rewrite <- Hg. apply Hun. intros e t ids x He Ht Hv Hi Hx. rewrite (Hnone e t ids He Ht Hv Hi) in Hx. destruct Hx.
Qed.

Definition ex_soc_create : json :=
  JObj [("type", JStr "Create"); ("id", JStr "https://example.com/activities/1");
        ("actor", JArr [JStr "https://example.com/users/alice"; JStr "https://example.com/users/bob"]);
        ("to", JStr "https://remote.example/users/carol");
        ("object", JObj [("type", JStr "Note"); ("id", JStr "https://example.com/notes/1"); ("content", JStr "hello");
                         ("attributedTo", JStr "https://example.com/users/zoe")])].
Example attribution_not_vacuous :
  match attribute (fun l => l) ex_soc_create with
  | Ok a2 => ids_of "actor" a2 = Ok ["https://example.com/users/alice"; "https://example.com/users/bob"; "https://example.com/users/zoe"] /\
             match elems0 "object" a2 with
             | [o] => ids_of "attributedTo" o = Ok ["https://example.com/users/zoe"; "https://example.com/users/alice"; "https://example.com/users/bob"] /\
                      jget "content" o = Some (JStr "hello")
             | _ => False
             end /\
             jget "to" a2 = Some (JStr "https://remote.example/users/carol")
  | _ => False
  end.
Proof. vm_compute. repeat split; reflexivity. Qed.

(* a Create that comes without an actor and with one Note attributed to zoe ends with actor zoe (fix F25) *)
Example attribution_creates_actor :
  let a := JObj [("type", JStr "Create"); ("id", JStr "https://example.com/activities/2");
                 ("object", JObj [("type", JStr "Note"); ("id", JStr "https://example.com/notes/2");
                                  ("attributedTo", JStr "https://example.com/users/zoe")])] in
  jget "actor" a = None /\
  match attribute (fun l => l) a with
  | Ok a2 => jget "actor" a2 = Some (JStr "https://example.com/users/zoe") /\ ids_of "actor" a2 = Ok ["https://example.com/users/zoe"]
  | _ => False
  end.
Proof. vm_compute. repeat split; reflexivity. Qed.
(* ... and without any attributedTo id it still has no actor property *)
Example attribution_leaves_no_actor :
  let a := JObj [("type", JStr "Create"); ("id", JStr "https://example.com/activities/3");
                 ("object", JObj [("type", JStr "Note"); ("id", JStr "https://example.com/notes/3")])] in
  match attribute (fun l => l) a with
  | Ok a2 => jget "actor" a2 = None
  | _ => False
  end.
Proof. vm_compute. reflexivity. Qed.

(* why the object property must be flat: a one-element object property whose element is a bare array is written back as that
   array, so the number of elements changes *)
Example attribution_needs_flat_object :
  let n := JObj [("type", JStr "Note"); ("id", JStr "https://example.com/notes/1")] in
  let a := JObj [("type", JStr "Create"); ("actor", JStr "https://example.com/users/alice"); ("object", JArr [JArr [n; n]])] in
  match attribute (fun l => l) a with
  | Ok a2 => length (elems0 "object" a) = 1 /\ length (elems0 "object" a2) = 2
  | _ => False
  end.
Proof. vm_compute. split; reflexivity. Qed.

Print Assumptions wrap_in_create_spec.
Print Assumptions wrap_in_create_ok_iff.
Print Assumptions create_attribute.
Print Assumptions attribution_unions.
Print Assumptions attribution_no_actor.
