(* C16 / C04: Add and Remove run against the environment of ANY world (which targets are owned, what is stored for them):
   whenever they succeed, exactly the owned targets were updated, in order, each to the documented value - also those that
   follow a target this server does not own. *)
From Coq Require Import String List Bool Arith.
From Verif Require Import Base.ListX Base.Json Base.Free Pub.Events Pub.Calls Pub.Value Pub.EffectSpec Pub.Util Pub.SideEffect.
From Verif Require Import Proofs.DeliveryProofs Proofs.ForwardIffProofs.
Import ListNotations.
Open Scope string_scope.
Open Scope list_scope.

Definition is_update (e : ev) : bool := match e with EDb op _ => String.eqb op "Update" | _ => false end.
Definition updates (tr : list ev) : list ev := filter is_update tr.
Lemma updates_app a b : updates (a ++ b) = updates a ++ updates b.
Proof. apply filter_app. Qed.

Section Targets.
  Variable owns : string -> bool.
  Variable stored : string -> json.
  Variable env : ev -> ans.
  Hypothesis env_lock : forall i, env (ELock i) = AOk.
  Hypothesis env_owns : forall i, env (EDb "Owns" [JStr i]) = ABool (owns i).
  Hypothesis env_get : forall i, env (EDb "Get" [JStr i]) = AJson (stored i).
  Hypothesis env_update : forall x, env (EDb "Update" [x]) = AOk.

  Definition U {A} (m : prog A) : list ev := updates (evs_env env m).
  Lemma U_bind {A C} (m : prog A) (f : A -> prog C) : U (bind m f) = U m ++ U (f (res_env env m)).
  Proof. unfold U. rewrite evs_env_bind, updates_app. reflexivity. Qed.
  Lemma U_bindr {A C} (m : prog (res A)) (f : A -> prog (res C)) : U (bindr m f) = U m ++ match res_env env m with Ok a => U (f a) | _ => [] end.
  Proof. unfold U. rewrite evs_env_bindr, updates_app. destruct (res_env env m); reflexivity. Qed.

  Lemma r_lock i : res_env env (lock i) = Ok tt.
  Proof. unfold lock, call, res_env. cbn [bind run_env]. rewrite env_lock. reflexivity. Qed.
  Lemma u_lock i : U (lock i) = [].
  Proof. unfold U, lock, call, evs_env. cbn [bind run_env]. rewrite env_lock. reflexivity. Qed.
  Lemma r_owns i : res_env env (db_bool "Owns" [JStr i]) = Ok (owns i).
  Proof. unfold db_bool, db, call, res_env. cbn [bind run_env map canon]. rewrite env_owns. reflexivity. Qed.
  Lemma u_owns i : U (db_bool "Owns" [JStr i]) = [].
  Proof. unfold U, db_bool, db, call, evs_env. cbn [bind run_env map canon]. rewrite env_owns. reflexivity. Qed.
  Lemma r_get i : res_env env (db_json "Get" [JStr i]) = Ok (stored i).
  Proof. unfold db_json, db, call, res_env. cbn [bind run_env map canon]. rewrite env_get. reflexivity. Qed.
  Lemma u_get i : U (db_json "Get" [JStr i]) = [].
  Proof. unfold U, db_json, db, call, evs_env. cbn [bind run_env map canon]. rewrite env_get. reflexivity. Qed.
  Lemma r_update x : res_env env (db_unit "Update" [x]) = Ok tt.
  Proof. unfold db_unit, db, call, res_env. cbn [bind run_env map]. rewrite env_update. reflexivity. Qed.
  Lemma u_update x : U (db_unit "Update" [x]) = [EDb "Update" [canon x]].
  Proof. unfold U, db_unit, db, call, evs_env. cbn [bind run_env map]. rewrite env_update. reflexivity. Qed.
  Lemma u_unlock {A} i (k : prog A) : U (unlock i ;;; k) = U k.
  Proof. rewrite U_bind. unfold U at 1, unlock, call, evs_env. cbn [bind run_env]. destruct (env (EUnlock i)); reflexivity. Qed.
  Lemma r_unlock {A} i (k : prog A) : res_env env (unlock i ;;; k) = res_env env k.
  Proof. rewrite res_env_bind. reflexivity. Qed.

  (* what one target contributes *)
  Definition add_one (ops : list string) (t : string) : res unit * list ev :=
    if owns t then match collection_prop (stored t) with
                   | Ok cp => (Ok tt, [EDb "Update" [canon (add_spec cp ops (stored t))]])
                   | Err e => (Err e, []) | Panic s => (Panic s, []) end
    else (Ok tt, []).
  Lemma run_add_loop ops t : res_env env (add_loop ops t) = fst (add_one ops t) /\ U (add_loop ops t) = snd (add_one ops t).
  Proof.
    unfold add_loop, with_lock_deferred, add_one.
    rewrite res_env_bindr, U_bindr, r_lock, u_lock, res_env_bind, U_bind. cbn [app].
    rewrite !res_env_bindr, !U_bindr, r_owns, u_owns. cbn [app].
    destruct (owns t); cbn [negb].
    - rewrite !res_env_bindr, !U_bindr, r_get, u_get, !res_env_bindr, !U_bindr, res_env_lift. cbn [app].
      change (U (lift (collection_prop (stored t)))) with (@nil ev). cbn [app].
      destruct (collection_prop (stored t)) as [cp|e|p].
      + rewrite r_update, u_update, r_unlock, u_unlock. split; reflexivity.
      + rewrite r_unlock, u_unlock. split; reflexivity.
      + rewrite r_unlock, u_unlock. split; reflexivity.
    - change (res_env env (ok tt)) with (Ok tt : res unit). change (U (ok tt)) with (@nil ev). rewrite r_unlock, u_unlock. split; reflexivity.
  Qed.

  (* the whole loop: the updates of the owned targets in order, up to the first failure *)
  Fixpoint add_all (ops : list string) (ts : list string) : res unit * list ev :=
    match ts with
    | [] => (Ok tt, [])
    | t :: r => match add_one ops t with
                | (Ok _, us) => let '(x, more) := add_all ops r in (x, us ++ more)
                | (x, us) => (x, us)
                end
    end.
  Lemma run_add_targets ops : forall ts, res_env env (foreach ts (add_loop ops)) = fst (add_all ops ts) /\ U (foreach ts (add_loop ops)) = snd (add_all ops ts).
  Proof.
    induction ts as [|t r [IH1 IH2]]; cbn [foreach add_all]; [split; reflexivity|].
    rewrite res_env_bindr, U_bindr. destruct (run_add_loop ops t) as [E1 E2]. rewrite E1, E2.
    destruct (add_one ops t) as [[[]|e|p] us]; cbn [fst snd].
    - rewrite IH1, IH2. destruct (add_all ops r) as [x more]. split; reflexivity.
    - rewrite app_nil_r. split; reflexivity.
    - rewrite app_nil_r. split; reflexivity.
  Qed.

  (* when the Add succeeds: exactly the owned targets, in order, each to add_spec of what was stored *)
  Lemma add_all_ok ops : forall ts, fst (add_all ops ts) = Ok tt ->
    snd (add_all ops ts) = flat_map (fun t => if owns t then match collection_prop (stored t) with
                                                              | Ok cp => [EDb "Update" [canon (add_spec cp ops (stored t))]]
                                                              | _ => [] end else []) ts
    /\ forall t, In t ts -> owns t = true -> exists cp, collection_prop (stored t) = Ok cp.
  Proof.
    induction ts as [|t r IH]; cbn [add_all flat_map]; [intros _; split; [reflexivity|intros t []]|].
    unfold add_one at 1 2. destruct (owns t) eqn:Eo.
    - destruct (collection_prop (stored t)) as [cp|e|p] eqn:Ec; cbn [fst snd]; try (intros H; discriminate H).
      destruct (add_all ops r) as [x more] eqn:Ea. cbn [fst snd]. intros Hx. subst x. destruct (IH eq_refl) as [IH1 IH2]. cbn [snd] in IH1.
      split; [rewrite IH1; reflexivity|]. intros t' [<-|Hin] Ho; [exists cp; exact Ec|apply IH2; assumption].
    - destruct (add_all ops r) as [x more] eqn:Ea. cbn [fst snd app]. intros Hx. subst x. destruct (IH eq_refl) as [IH1 IH2]. cbn [snd] in IH1.
      split; [exact IH1|]. intros t' [<-|Hin] Ho; [rewrite Eo in Ho; discriminate Ho|apply IH2; assumption].
  Qed.

  Theorem add_updates_owned a ops ts : ids_of "object" a = Ok ops -> ids_of "target" a = Ok ts ->
    res_env env (add a) = Ok tt ->
    U (add a) = flat_map (fun t => if owns t then match collection_prop (stored t) with
                                                   | Ok cp => [EDb "Update" [canon (add_spec cp ops (stored t))]]
                                                   | _ => [] end else []) ts
    /\ forall t, In t ts -> owns t = true -> exists cp, collection_prop (stored t) = Ok cp.
  Proof.
    intros Ho Ht. unfold add. rewrite res_env_bindr, U_bindr, res_env_lift, Ho. cbn beta iota.
    rewrite res_env_bindr, U_bindr, res_env_lift, Ht. cbn beta iota.
    change (U (lift (Ok ops))) with (@nil ev). change (U (lift (Ok ts))) with (@nil ev). cbn [app].
    destruct (run_add_targets ops ts) as [E1 E2]. rewrite E1, E2. apply add_all_ok.
  Qed.
  (* ---- Remove: the same, with remove_spec (which can refuse a stored value it cannot read) ---- *)
  Definition remove_one (ops : list string) (t : string) : res unit * list ev :=
    if owns t then match collection_prop (stored t) with
                   | Ok cp => match remove_spec cp ops (stored t) with
                              | Ok tp' => (Ok tt, [EDb "Update" [canon tp']])
                              | Err e => (Err e, []) | Panic s => (Panic s, []) end
                   | Err e => (Err e, []) | Panic s => (Panic s, []) end
    else (Ok tt, []).
  Lemma run_remove_loop ops t : res_env env (remove_loop ops t) = fst (remove_one ops t) /\ U (remove_loop ops t) = snd (remove_one ops t).
  Proof.
    unfold remove_loop, with_lock_deferred, remove_one.
    rewrite res_env_bindr, U_bindr, r_lock, u_lock, res_env_bind, U_bind. cbn [app].
    rewrite !res_env_bindr, !U_bindr, r_owns, u_owns. cbn [app].
    destruct (owns t); cbn [negb].
    - rewrite !res_env_bindr, !U_bindr, r_get, u_get, !res_env_bindr, !U_bindr, res_env_lift. cbn [app].
      change (U (lift (collection_prop (stored t)))) with (@nil ev). cbn [app].
      destruct (collection_prop (stored t)) as [cp|e|p].
      + rewrite !res_env_bindr, !U_bindr, res_env_lift. change (U (lift (remove_spec cp ops (stored t)))) with (@nil ev). cbn [app].
        destruct (remove_spec cp ops (stored t)) as [tp'|e|p].
        * rewrite r_update, u_update, r_unlock, u_unlock. split; reflexivity.
        * rewrite r_unlock, u_unlock. split; reflexivity.
        * rewrite r_unlock, u_unlock. split; reflexivity.
      + rewrite r_unlock, u_unlock. split; reflexivity.
      + rewrite r_unlock, u_unlock. split; reflexivity.
    - change (res_env env (ok tt)) with (Ok tt : res unit). change (U (ok tt)) with (@nil ev). rewrite r_unlock, u_unlock. split; reflexivity.
  Qed.
  Fixpoint remove_all (ops : list string) (ts : list string) : res unit * list ev :=
    match ts with
    | [] => (Ok tt, [])
    | t :: r => match remove_one ops t with
                | (Ok _, us) => let '(x, more) := remove_all ops r in (x, us ++ more)
                | (x, us) => (x, us)
                end
    end.
  Lemma run_remove_targets ops : forall ts, res_env env (foreach ts (remove_loop ops)) = fst (remove_all ops ts) /\ U (foreach ts (remove_loop ops)) = snd (remove_all ops ts).
  Proof.
    induction ts as [|t r [IH1 IH2]]; cbn [foreach remove_all]; [split; reflexivity|].
    rewrite res_env_bindr, U_bindr. destruct (run_remove_loop ops t) as [E1 E2]. rewrite E1, E2.
    destruct (remove_one ops t) as [[[]|e|p] us]; cbn [fst snd].
    - rewrite IH1, IH2. destruct (remove_all ops r) as [x more]. split; reflexivity.
    - rewrite app_nil_r. split; reflexivity.
    - rewrite app_nil_r. split; reflexivity.
  Qed.
  Lemma remove_all_ok ops : forall ts, fst (remove_all ops ts) = Ok tt ->
    snd (remove_all ops ts) = flat_map (fun t => if owns t then match collection_prop (stored t) with
                                                                 | Ok cp => match remove_spec cp ops (stored t) with Ok tp' => [EDb "Update" [canon tp']] | _ => [] end
                                                                 | _ => [] end else []) ts.
  Proof.
    induction ts as [|t r IH]; cbn [remove_all flat_map]; [intros _; reflexivity|].
    unfold remove_one at 1 2. destruct (owns t) eqn:Eo.
    - destruct (collection_prop (stored t)) as [cp|e|p] eqn:Ec; cbn [fst snd]; try (intros H; discriminate H).
      destruct (remove_spec cp ops (stored t)) as [tp'|e|p] eqn:Er; cbn [fst snd]; try (intros H; discriminate H).
      destruct (remove_all ops r) as [x more] eqn:Ea. cbn [fst snd]. intros Hx. subst x. pose proof (IH eq_refl) as IH'. cbn [snd] in IH'. rewrite IH'. reflexivity.
    - destruct (remove_all ops r) as [x more] eqn:Ea. cbn [fst snd app]. intros Hx. subst x. pose proof (IH eq_refl) as IH'. cbn [snd] in IH'. exact IH'.
  Qed.
  Theorem remove_updates_owned a ops ts : ids_of "object" a = Ok ops -> ids_of "target" a = Ok ts ->
    res_env env (remove a) = Ok tt ->
    U (remove a) = flat_map (fun t => if owns t then match collection_prop (stored t) with
                                                      | Ok cp => match remove_spec cp ops (stored t) with Ok tp' => [EDb "Update" [canon tp']] | _ => [] end
                                                      | _ => [] end else []) ts.
  Proof.
    intros Ho Ht. unfold remove. rewrite res_env_bindr, U_bindr, res_env_lift, Ho. cbn beta iota.
    rewrite res_env_bindr, U_bindr, res_env_lift, Ht. cbn beta iota.
    change (U (lift (Ok ops))) with (@nil ev). change (U (lift (Ok ts))) with (@nil ev). cbn [app].
    destruct (run_remove_targets ops ts) as [E1 E2]. rewrite E1, E2. apply remove_all_ok.
  Qed.
End Targets.
