(* C05: "the activity receives a fresh id, as does every embedded object of a Create" - what add_new_ids does, for EVERY
   environment: which NewID calls it makes, in which order, and where the answers end up. *)
From Coq Require Import String List Bool Arith.
From Verif Require Import Base.ListX Base.Json Base.Free Pub.Events Pub.Calls Pub.Value Pub.EffectSpec Pub.Util Pub.SideEffect Pub.Fed Pub.Soc.
From Verif Require Import Proofs.ValueProofs Proofs.HiddenProofs Proofs.EffectProofs Proofs.DeliveryProofs Proofs.ForwardIffProofs Proofs.NormalizeProofs Proofs.WrapProofs Proofs.SectionProofs.
Import ListNotations.
Open Scope string_scope.
Open Scope list_scope.

Lemma vhas_jset k v o p : k <> "type" -> vhas (jset k v o) p = vhas o p.
Proof. intros H. unfold vhas. rewrite type_name_jset by exact H. reflexivity. Qed.

Local Opaque has_prop known_type admits vhas is_or_extends T P.

Definition newid (v : json) : ev := EDb "NewID" [canon v].
Definition is_newid (e : ev) : bool := match e with EDb op _ => String.eqb op "NewID" | _ => false end.

(* what happens to one element of a Create's object property: it is an embedded value, and it gets the id answered for it *)
Definition gets_id (env : ev -> ans) (e e' : json) : Prop :=
  exists t i, e_type "object" e = Some t /\ env (newid t) = AIri i /\ e' = jset "id" (JStr i) t.

(* ---- the objects ---- *)
Lemma new_ids_objects_spec env : forall l l', res_env env (new_ids_objects l) = Ok l' ->
  Forall2 (gets_id env) l l' /\ evs_env env (new_ids_objects l) = map newid l.
Proof.
  induction l as [|e r IH]; intros l'; cbn [new_ids_objects].
  - intros H. apply Ok_inj in H. subst l'. split; [constructor|reflexivity].
  - destruct (e_type "object" e) as [t|] eqn:Et; [|intros H; discriminate H].
    destruct (e_type_some _ _ _ Et) as [Hte _].
    rewrite res_env_bindr, evs_env_bindr, res_db_iri, evs_db_iri. cbn [map]. fold (newid t).
    destruct (env (newid t)) as [| | |i| | | | | | |] eqn:E1; try (intros H; discriminate H).
    rewrite res_env_bindr, evs_env_bindr. destruct (res_env env (new_ids_objects r)) as [r'|x|s] eqn:Er; try (intros H; discriminate H).
    intros H. apply Ok_inj in H. subst l'. destruct (IH r' eq_refl) as [I1 I2]. split.
    + constructor; [|exact I1]. exists t, i. split; [exact Et|]. split; [exact E1|reflexivity].
    + rewrite I2. subst t. cbn [app]. change (evs_env env (ok (jset "id" (JStr i) e :: r'))) with (@nil ev). rewrite app_nil_r. reflexivity.
Qed.

Lemma new_ids_objects_only env : forall l, forallb is_newid (evs_env env (new_ids_objects l)) = true.
Proof.
  induction l as [|e r IH]; cbn [new_ids_objects]; [reflexivity|].
  destruct (e_type "object" e) as [t|]; [|reflexivity].
  rewrite evs_env_bindr, evs_db_iri, res_db_iri, forallb_app. cbn [map].
  destruct (env (EDb "NewID" [canon t])); try reflexivity.
  rewrite evs_env_bindr, forallb_app, IH. destruct (res_env env (new_ids_objects r)); reflexivity.
Qed.

Lemma gets_id_no_arrays env : forall l l', Forall2 (gets_id env) l l' -> no_arrays l' = true.
Proof.
  induction 1 as [|e e' l l' [t [i [Et [_ ->]]]] _ IH]; [reflexivity|].
  destruct (e_type_some _ _ _ Et) as [_ [me Hme]]. destruct (jset_obj "id" (JStr i) me) as [m' Hm']. rewrite <- Hme in Hm'.
  unfold no_arrays. cbn [forallb]. destruct (e_type_some _ _ _ Et) as [-> _]. rewrite Hm'. exact IH.
Qed.

(* ================================================================================================================== *)
(* N1 - add_new_ids                                                                                                   *)
(* ================================================================================================================== *)
Theorem add_new_ids_spec env a m a' : a = JObj m -> res_env env (add_new_ids a) = Ok a' ->
  exists id, env (newid a) = AIri id /\ jget "id" a' = Some (JStr id) /\
    if is_or_extends (type_name a) "Create"
    then vhas a "object" = true /\
         Forall2 (gets_id env) (elems0 "object" a) (elems0 "object" a') /\
         (forall q, q <> "id" -> q <> "object" -> jget q a' = jget q a) /\
         evs_env env (add_new_ids a) = newid a :: map newid (elems0 "object" a)
    else a' = jset "id" (JStr id) a /\ evs_env env (add_new_ids a) = [newid a].
Proof.
  intros Hm. unfold add_new_ids. rewrite res_env_bindr, evs_env_bindr, res_db_iri, evs_db_iri. cbn [map]. fold (newid a).
  destruct (env (newid a)) as [| | |id| | | | | | |] eqn:E1; try (intros H; discriminate H).
  cbv zeta. rewrite type_name_jset by discriminate. rewrite vhas_jset by discriminate.
  set (a1 := jset "id" (JStr id) a).
  assert (G1 : forall q, q <> "id" -> jget q a1 = jget q a) by (intros q Hq; unfold a1; apply jget_jset_other; exact Hq).
  assert (Gid : jget "id" a1 = Some (JStr id)) by (unfold a1; rewrite Hm; apply jget_jset_same).
  assert (O1 : exists m1, a1 = JObj m1) by (unfold a1; rewrite Hm; apply jset_obj). destruct O1 as [m1 E1'].
  destruct (is_or_extends (type_name a) "Create").
  - destruct (vhas a "object"); cbn [negb]; [|intros H; discriminate H].
    assert (Ee : elems "object" a1 = elems "object" a) by (unfold elems; rewrite G1 by discriminate; reflexivity).
    rewrite Ee. unfold elems0. destruct (elems "object" a) as [l|] eqn:El.
    + rewrite res_env_bindr, evs_env_bindr. destruct (res_env env (new_ids_objects l)) as [l'|x|s] eqn:Er; try (intros H; discriminate H).
      intros H. apply Ok_inj in H. subst a'. destruct (new_ids_objects_spec env l l' Er) as [F Ev].
      exists id. split; [reflexivity|]. split; [unfold set_elems; rewrite jget_jset_other by discriminate; exact Gid|].
      split; [reflexivity|]. split; [|split].
      * fold (elems0 "object" (set_elems "object" l' a1)). rewrite (elems_set_elems "object" l' a1 m1 E1' (gets_id_no_arrays env l l' F)). exact F.
      * intros q Hq Hqo. unfold set_elems. rewrite jget_jset_other by exact Hqo. apply G1. exact Hq.
      * rewrite Ev. change (evs_env env (ok (set_elems "object" l' a1))) with (@nil ev). rewrite app_nil_r. reflexivity.
    + intros H. apply Ok_inj in H. subst a'. exists id. split; [reflexivity|]. split; [exact Gid|]. split; [reflexivity|].
      rewrite Ee. split; [constructor|]. split; [intros q Hq _; apply G1; exact Hq|reflexivity].
  - intros H. apply Ok_inj in H. subst a'. exists id. split; [reflexivity|]. split; [exact Gid|]. split; reflexivity.
Qed.

(* ================================================================================================================== *)
(* N2 - whatever the environment answers, add_new_ids calls nothing but NewID                                         *)
(* ================================================================================================================== *)
Theorem add_new_ids_only_ids env a : forallb is_newid (evs_env env (add_new_ids a)) = true.
Proof.
  unfold add_new_ids. rewrite evs_env_bindr, evs_db_iri, res_db_iri, forallb_app. cbn [map].
  destruct (env (EDb "NewID" [canon a])) as [| | |id| | | | | | |]; try reflexivity. cbv zeta.
  destruct (is_or_extends _ "Create"); [|reflexivity]. destruct (negb _); [reflexivity|].
  destruct (elems "object" _) as [l|]; [|reflexivity].
  rewrite evs_env_bindr, forallb_app, new_ids_objects_only. destruct (res_env env (new_ids_objects l)); reflexivity.
Qed.

(* ================================================================================================================== *)
(* N3 - freshness relative to the environment: the ids of the result ARE the answers to the NewID calls, in order      *)
(* ================================================================================================================== *)
Definition ans_id (x : ans) : option json := match x with AIri i => Some (JStr i) | _ => None end.
(* the values that were given an id: the activity, and the objects of a Create *)
Definition identified (a a' : json) : list json :=
  a' :: (if is_or_extends (type_name a) "Create" then elems0 "object" a' else []).

Lemma gets_id_ids env : forall l l', Forall2 (gets_id env) l l' ->
  map (jget "id") l' = map ans_id (map env (map newid l)) /\ Forall (fun x => exists i, x = AIri i) (map env (map newid l)).
Proof.
  induction 1 as [|e e' l l' [t [i [Et [Ei ->]]]] _ [IH1 IH2]]; [split; [reflexivity|constructor]|].
  destruct (e_type_some _ _ _ Et) as [-> [me Hme]]. cbn [map]. rewrite Ei. cbn [ans_id]. split.
  - rewrite IH1. f_equal. rewrite Hme. apply jget_jset_same.
  - constructor; [exists i; reflexivity|exact IH2].
Qed.

Lemma nodup_ans_id : forall L, Forall (fun x => exists i, x = AIri i) L -> NoDup L -> NoDup (map ans_id L).
Proof.
  induction L as [|x r IH]; intros Hf Hn; [constructor|]. inversion Hf as [|x0 r0 [i ->] Hfr]; subst. inversion Hn as [|x0 r0 Hnin Hnr]; subst.
  cbn [map ans_id]. constructor; [|exact (IH Hfr Hnr)].
  intros Hin. apply in_map_iff in Hin. destruct Hin as [y [Hy Hyr]]. rewrite Forall_forall in Hfr. destruct (Hfr y Hyr) as [j ->].
  cbn [ans_id] in Hy. injection Hy as ->. exact (Hnin Hyr).
Qed.

Theorem add_new_ids_fresh env a m a' : a = JObj m -> res_env env (add_new_ids a) = Ok a' ->
  let calls := evs_env env (add_new_ids a) in
  (* the ids afterwards are the answers, call by call *)
  map (jget "id") (identified a a') = map ans_id (map env calls) /\
  (* pairwise different answers give pairwise different ids *)
  (NoDup (map env calls) -> NoDup (map (jget "id") (identified a a'))) /\
  (* answers that avoid a set of ids give ids outside that set *)
  (forall olds, (forall c, In c calls -> ~ In (ans_id (env c)) olds) ->
                forall v, In v (identified a a') -> ~ In (jget "id" v) olds).
Proof.
  intros Hm Hr calls. destruct (add_new_ids_spec env a m a' Hm Hr) as [id [E1 [Gid H]]]. unfold identified.
  assert (K : map (jget "id") (a' :: (if is_or_extends (type_name a) "Create" then elems0 "object" a' else [])) = map ans_id (map env calls) /\
              Forall (fun x => exists i, x = AIri i) (map env calls)).
  { unfold calls. destruct (is_or_extends (type_name a) "Create").
    - destruct H as [_ [F [_ ->]]]. destruct (gets_id_ids env _ _ F) as [K1 K2]. cbn [map]. rewrite E1, Gid, K1. cbn [ans_id].
      split; [reflexivity|constructor; [exists id; reflexivity|exact K2]].
    - destruct H as [_ ->]. cbn [map]. rewrite E1, Gid. split; [reflexivity|repeat constructor; exists id; reflexivity]. }
  destruct K as [K1 K2]. split; [exact K1|]. split.
  - intros Hn. rewrite K1. exact (nodup_ans_id _ K2 Hn).
  - intros olds Hold v Hv Hin. apply (in_map (jget "id")) in Hv. rewrite K1, map_map in Hv. apply in_map_iff in Hv.
    destruct Hv as [c [Hc Hcin]]. rewrite <- Hc in Hin. exact (Hold c Hcin Hin).
Qed.

(* ---- non-vacuity: an environment that numbers the ids by the content it is asked about ---- *)
Definition nx_env (e : ev) : ans :=
  match e with
  | EDb "NewID" [v] => match jget "content" v with
                       | Some (JStr "one") => AIri "https://x.example/new/1"
                       | Some (JStr "two") => AIri "https://x.example/new/2"
                       | _ => AIri "https://x.example/new/0"
                       end
  | _ => AOk
  end.
Definition nx_create : json :=
  JObj [("type", JStr "Create"); ("actor", JStr "https://x.example/alice"); ("to", JStr "https://y.example/bob");
        ("object", JArr [JObj [("type", JStr "Note"); ("content", JStr "one")];
                         JObj [("type", JStr "Note"); ("content", JStr "two"); ("id", JStr "https://client.example/chosen")]])].
Example add_new_ids_create :
  match res_env nx_env (add_new_ids nx_create) with
  | Ok a' => jget "id" a' = Some (JStr "https://x.example/new/0") /\
             map (jget "id") (elems0 "object" a') = [Some (JStr "https://x.example/new/1"); Some (JStr "https://x.example/new/2")] /\
             map (jget "content") (elems0 "object" a') = [Some (JStr "one"); Some (JStr "two")] /\
             jget "to" a' = Some (JStr "https://y.example/bob") /\
             length (evs_env nx_env (add_new_ids nx_create)) = 3
  | _ => False
  end.
Proof. vm_compute. repeat split; reflexivity. Qed.
Definition nx_like : json :=
  JObj [("type", JStr "Like"); ("actor", JStr "https://x.example/alice");
        ("object", JObj [("type", JStr "Note"); ("content", JStr "one"); ("id", JStr "https://y.example/notes/7")])].
(* a Like: one call, and the embedded object keeps its id *)
Example add_new_ids_like :
  res_env nx_env (add_new_ids nx_like) = Ok (jset "id" (JStr "https://x.example/new/0") nx_like) /\
  evs_env nx_env (add_new_ids nx_like) = [newid nx_like] /\
  map (jget "id") (elems0 "object" (jset "id" (JStr "https://x.example/new/0") nx_like)) = [Some (JStr "https://y.example/notes/7")].
Proof. vm_compute. repeat split; reflexivity. Qed.

(* ================================================================================================================== *)
(* N4 - the outbox post after the ids: what the Social callbacks hand on keeps the id, and that value / id is what is   *)
(*      stored (Database.Create) and put in front of the outbox page                                                  *)
(* ================================================================================================================== *)
Lemma fold_keeps {X} q (f : json -> X -> json) : forall l v,
  (forall acc t, In t l -> jget q (f acc t) = jget q acc) -> jget q (fold_left f l v) = jget q v.
Proof.
  induction l as [|t r IH]; intros v H; [reflexivity|]. cbn [fold_left]. rewrite IH by (intros acc t0 Ht0; apply H; right; exact Ht0).
  apply H. left. reflexivity.
Qed.
Lemma append_iris_other q p ids v : q <> p -> jget q (append_iris p ids v) = jget q v.
Proof. intros H. unfold append_iris. destruct ids; [reflexivity|]. unfold set_elems. apply jget_jset_other. exact H. Qed.
Lemma acquire_keeps need q : forall ps v v' idss, ~ In q ps -> acquire ps need v = Ok (v', idss) -> jget q v' = jget q v.
Proof.
  induction ps as [|p r IH]; intros v v' idss Hq; cbn [acquire]; [intros H; apply Ok_inj in H; injection H as <- _; reflexivity|].
  destruct (need && negb (vhas v p)); [intros H; discriminate H|]. destruct (ids_of p v) as [ids|x|s]; try (intros H; discriminate H).
  destruct (acquire r need _) as [[v2 rest]|x|s] eqn:Ea; try (intros H; discriminate H).
  intros H. apply Ok_inj in H. injection H as <- _. rewrite (IH _ _ _ (fun Hin => Hq (or_intror Hin)) Ea).
  destruct (elems p v); [reflexivity|]. apply jget_jset_other. intros ->. apply Hq. left. reflexivity.
Qed.

(* normalisation touches the five addressing properties and the object property only *)
Theorem normalize_keeps perm q a a' : ~ In q addressing -> q <> "object" ->
  normalize_recipients perm a = Ok a' -> jget q a' = jget q a.
Proof.
  intros Hq Hqo. unfold normalize_recipients. destruct (acquire addressing false a) as [[a1 act_ids]|x|s] eqn:Ea; try (intros H; discriminate H).
  destruct (elems "object" a1) as [objs|]; [|intros H; discriminate H].
  destruct (norm_objects perm act_ids objs) as [[objs' idss]|x|s]; try (intros H; discriminate H).
  intros H. apply Ok_inj in H. subst a'.
  rewrite fold_keeps.
  - unfold set_elems. rewrite jget_jset_other by exact Hqo. exact (acquire_keeps false q addressing a a1 act_ids Hq Ea).
  - intros acc [k [p aids]] Hin. apply fold_keeps. intros acc2 oids _. apply append_iris_other. intros ->. apply Hq.
    apply in_combine_r in Hin. apply in_combine_l in Hin. exact Hin.
Qed.
(* attribution touches the actor and the object property only *)
Theorem attribute_keeps perm q a a2 : q <> "actor" -> q <> "object" -> attribute perm a = Ok a2 -> jget q a2 = jget q a.
Proof.
  intros Hqa Hqo. unfold attribute. destruct (ids_of "actor" a) as [A|x|s]; try (intros H; discriminate H).
  destruct (attributed (elems0 "object" a)) as [[objs attr_ids]|x|s]; try (intros H; discriminate H).
  intros H. apply Ok_inj in H. subst a2. rewrite fold_keeps.
  - unfold set_elems. apply jget_jset_other. exact Hqo.
  - intros acc [l|] _; [|reflexivity]. unfold attr_act. apply append_iris_other. exact Hqa.
Qed.

Lemma not_addr_id : ~ In "id" addressing.
Proof. unfold addressing. cbn [In]. intros H. repeat (destruct H as [H|H]; [discriminate H|]). exact H. Qed.

(* what the Social callbacks hand on: the activity itself, or - for a Create handled by the default callback - the activity
   attributed and normalised; in both cases with every member outside actor / object / addressing as it was, the id included *)
Theorem soc_callbacks_value env cfg outbox raw perm a r :
  res_env env (soc_callbacks cfg outbox raw perm a) = Ok r ->
  (fst r = a \/ (type_name a = "Create" /\ exists a2, attribute perm a = Ok a2 /\ normalize_recipients perm a2 = Ok (fst r))) /\
  (forall q, q <> "actor" -> q <> "object" -> ~ In q addressing -> jget q (fst r) = jget q a).
Proof.
  intros H.
  assert (K : fst r = a \/ (type_name a = "Create" /\ exists a2, attribute perm a = Ok a2 /\ normalize_recipients perm a2 = Ok (fst r))).
  { revert H. unfold soc_callbacks. destruct (c_social cfg); [|intros H; apply Ok_inj in H; subst r; left; reflexivity].
    rewrite res_env_bindr. destruct (res_env env (app_unit "SocialCallbacks" [])); try (intros H; discriminate H). cbv zeta.
    destruct (mem (type_name a) (c_soc_other cfg));
      [rewrite res_env_bindr; destruct (res_env env _); try (intros H; discriminate H); intros H; apply Ok_inj in H; subst r; left; reflexivity|].
    destruct (String.eqb (type_name a) "Create") eqn:Ec.
    - apply String.eqb_eq in Ec. rewrite res_env_bindr. destruct (res_env env (create cfg perm a)) as [x|e|s] eqn:Er; try (intros H; discriminate H).
      intros H. apply Ok_inj in H. subst r. cbn [fst]. right. split; [exact Ec|].
      rewrite create_attribute in Er. destruct (Fed.object_required a); [discriminate Er|].
      rewrite res_env_bindr, res_env_lift in Er. destruct (attribute perm a) as [a2|e|s] eqn:E2; try discriminate Er.
      rewrite res_env_bindr, res_env_lift in Er. destruct (normalize_recipients perm a2) as [a3|e|s] eqn:E3; try discriminate Er.
      rewrite res_env_bindr in Er. destruct (res_env env (foreach _ _)); try discriminate Er.
      rewrite res_env_bindr in Er. destruct (res_env env (swrapped cfg "Create" a3)); try discriminate Er.
      apply Ok_inj in Er. subst x. exists a2. split; [reflexivity|exact E3].
    - repeat match goal with
             | |- res_env env (if ?b then _ else _) = Ok r -> _ => destruct b
             end;
        rewrite res_env_bindr; destruct (res_env env _); try (intros H; discriminate H); intros H; apply Ok_inj in H; subst r; left; reflexivity. }
  split; [exact K|]. intros q Hqa Hqo Hq. destruct K as [->|[_ [a2 [E2 E3]]]]; [reflexivity|].
  rewrite (normalize_keeps perm q a2 (fst r) Hq Hqo E3). exact (attribute_keeps perm q a a2 Hqa Hqo E2).
Qed.

(* the whole outbox post of the model (callbacks, then addToOutbox): on success the value stored by Database.Create is the value
   the callbacks handed on, the id put in front of the outbox page read under the same hold is its id, and that id is the one
   the activity came with *)
Theorem post_outbox_stores env cfg outbox raw perm a r :
  res_env env (Soc.post_outbox cfg outbox raw perm a) = Ok r ->
  let v := fst r in
  res_env env (soc_callbacks cfg outbox raw perm a) = Ok r /\
  jget "id" v = jget "id" a /\
  exists page, env (EDb "GetOutbox" [JStr outbox]) = AJson page /\
    evs_env env (Soc.post_outbox cfg outbox raw perm a) =
      evs_env env (soc_callbacks cfg outbox raw perm a) ++
      [ELock (id_str v); EDb "Create" [canon v]; EUnlock (id_str v);
       ELock outbox; EDb "GetOutbox" [JStr outbox]; EDb "SetOutbox" [canon (prepend_iri "orderedItems" (id_str v) page)]; EUnlock outbox].
Proof.
  unfold Soc.post_outbox. rewrite res_env_bindr, evs_env_bindr.
  destruct (res_env env (soc_callbacks cfg outbox raw perm a)) as [r0|x|s] eqn:Er; try (intros H; discriminate H).
  rewrite res_env_bindr, evs_env_bindr. destruct (res_env env (add_to_outbox outbox (fst r0))) as [[]|x|s] eqn:Eo; try (intros H; discriminate H).
  intros H. apply Ok_inj in H. subst r0. cbv zeta. split; [reflexivity|].
  split; [exact (proj2 (soc_callbacks_value env cfg outbox raw perm a r Er) "id" ltac:(discriminate) ltac:(discriminate) not_addr_id)|].
  destruct (proj2 (outbox_refines env outbox (fst r)) Eo) as [_ [_ [_ [page [Ep [_ Ev]]]]]].
  exists page. split; [exact Ep|]. rewrite Ev. change (evs_env env (ok r)) with (@nil ev). rewrite app_nil_r. reflexivity.
Qed.

(* ids, then the post: the id stored and listed is the one NewID answered *)
Corollary new_id_is_stored env cfg outbox raw perm a0 m a1 r :
  a0 = JObj m -> res_env env (add_new_ids a0) = Ok a1 -> res_env env (Soc.post_outbox cfg outbox raw perm a1) = Ok r ->
  exists id page, env (newid a0) = AIri id /\ jget "id" (fst r) = Some (JStr id) /\
    (has_scheme id = true -> id_str (fst r) = id) /\
    env (EDb "GetOutbox" [JStr outbox]) = AJson page /\
    In (EDb "Create" [canon (fst r)]) (evs_env env (Soc.post_outbox cfg outbox raw perm a1)) /\
    In (EDb "SetOutbox" [canon (prepend_iri "orderedItems" (id_str (fst r)) page)]) (evs_env env (Soc.post_outbox cfg outbox raw perm a1)).
Proof.
  intros Hm Hn Hp. destruct (add_new_ids_spec env a0 m a1 Hm Hn) as [id [E1 [Gid _]]].
  destruct (post_outbox_stores env cfg outbox raw perm a1 r Hp) as [_ [Hid [page [Ep Ev]]]].
  exists id, page. split; [exact E1|]. rewrite Gid in Hid. split; [exact Hid|]. split.
  - intros Hs. unfold id_str, get_id. rewrite Hid, Hs. reflexivity.
  - split; [exact Ep|]. rewrite Ev. split; apply in_or_app; right; cbn [In]; tauto.
Qed.

Print Assumptions add_new_ids_spec.
Print Assumptions add_new_ids_only_ids.
Print Assumptions add_new_ids_fresh.
Print Assumptions normalize_keeps.
Print Assumptions attribute_keeps.
Print Assumptions soc_callbacks_value.
Print Assumptions post_outbox_stores.
Print Assumptions new_id_is_stored.
