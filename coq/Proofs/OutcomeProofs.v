(* C10: every Actor method and the handler end in exactly one of three states. *)
From Coq Require Import String List Bool Arith ZArith.
From Verif Require Import Base.ListX Base.Json Base.Free Pub.Events Pub.Calls Pub.Value Pub.Util Pub.SideEffect Pub.Fed Pub.Soc Pub.BaseActor Pub.Monitors Pub.Replay.
From Verif Require Import Proofs.QuietProofs.
Import ListNotations.
Open Scope string_scope.
Open Scope prog_scope.

(* quiet events leave the response state alone (they may record the first generated id) *)
Definition wsame (w w' : wstate) : Prop :=
  w_status w' = w_status w /\ w_writes w' = w_writes w /\ w_location w' = w_location w /\ w_denied w' = w_denied w.

Lemma wsame_refl w : wsame w w. Proof. repeat split. Qed.
Lemma wsame_trans a b c : wsame a b -> wsame b c -> wsame a c.
Proof. intros [A1 [A2 [A3 A4]]] [B1 [B2 [B3 B4]]]. repeat split; congruence. Qed.

Lemma write_step_quiet w e x : quiet e = true -> exists w', write_step w e x = Some w' /\ wsame w w'.
Proof.
  intros Hq. destruct e; simpl in Hq; try discriminate; simpl; try (exists w; split; [reflexivity|apply wsame_refl]).
  - destruct (String.eqb op "NewID"); [|exists w; split; [reflexivity|apply wsame_refl]].
    destruct (w_first_newid w); [exists w; split; [reflexivity|apply wsame_refl]|].
    destruct x; try (exists w; split; [reflexivity|apply wsame_refl]).
    eexists. split; [reflexivity|]. repeat split.
  - apply negb_true_iff in Hq. destruct x; try (exists w; split; [reflexivity|apply wsame_refl]).
    destruct b; [exists w; split; [reflexivity|apply wsame_refl]|]. rewrite Hq. exists w. split; [reflexivity|apply wsame_refl].
Qed.

Lemma quiet_wp {A} (m : prog A) : quiet_prog m -> forall w (Q : wstate -> A -> Prop),
  (forall w' a, wsame w w' -> Q w' a) -> wp write_step m w Q.
Proof.
  induction m as [a|e k IH]; simpl; intros Hq w Q HQ; [apply HQ; apply wsame_refl|].
  destruct Hq as [He Hk]. intros x. destruct (write_step_quiet w e x He) as [w' [E S]]. rewrite E.
  apply IH; [apply Hk|]. intros w'' a S'. apply HQ. eapply wsame_trans; eauto.
Qed.

(* a "clean" response state: nothing written yet, authentication not denied *)
Definition clean (w : wstate) : Prop := w_status w = [] /\ w_writes w = 0 /\ w_denied w = false.
Lemma clean_same w w' : clean w -> wsame w w' -> clean w'.
Proof. intros [C1 [C2 C3]] [S1 [S2 [S3 S4]]]. repeat split; congruence. Qed.
Lemma clean_w0 : clean w0. Proof. repeat split. Qed.

Definition good (o : outcome) (w : wstate) : Prop := outcome_ok_weak (fst o) (res_code (snd o)) w = true.

Lemma good_err w e s : clean w -> good (true, Err e) w /\ good (true, @Panic unit s) w.
Proof.
  intros [C1 [C2 C3]]. unfold good, outcome_ok_weak, outcome_ok_gen. simpl. rewrite C1, C3.
  split; destruct e; reflexivity.
Qed.

Lemma good_not_handled w : clean w -> good (false, Ok tt) w.
Proof. intros [C1 [C2 C3]]. unfold good, outcome_ok_weak, outcome_ok_gen. simpl. rewrite C1, C2. reflexivity. Qed.

(* writing one of the documented statuses from a clean state, then returning (true, nil) *)
Lemma wp_status (n : nat) w : clean w -> In n [200; 400; 403; 405; 410] ->
  wp write_step (bind (write_header n) (fun _ => done true (Ok tt))) w (fun w' o => good o w').
Proof.
  intros [C1 [C2 C3]] Hn. unfold write_header, call. simpl. intros x. rewrite C1.
  unfold good, outcome_ok_weak, outcome_ok_gen. simpl. rewrite C3.
  simpl in Hn. repeat (destruct Hn as [Hn|Hn]; [subst; reflexivity|]). contradiction.
Qed.

Ltac err_goal Hc := unfold done; cbn [wp]; first [apply (proj1 (good_err _ _ "" Hc)) | apply (proj2 (good_err _ EGeneric _ Hc))].

(* ---- authentication ---- *)
Lemma wp_authenticate name w (Q : wstate -> res bool -> Prop) : prefix "Authenticate" name = true -> clean w ->
  (forall w', clean w' -> Q w' (Ok true)) ->
  (forall w', w_status w' = [] -> w_writes w' = 0 -> w_denied w' = true -> Q w' (Ok false)) ->
  (forall w' e, clean w' -> Q w' (Err e)) ->
  wp write_step (authenticate name) w Q.
Proof.
  intros Hp Hc Hok Hden Herr. unfold authenticate, app, call. simpl. intros x.
  destruct x; simpl; try (apply Herr; exact Hc).
  destruct b; simpl.
  - apply Hok. exact Hc.
  - rewrite Hp. apply Hden; simpl; try apply Hc. reflexivity.
Qed.

Lemma good_denied w : w_status w = [] -> w_writes w = 0 -> w_denied w = true -> good (true, Ok tt) w.
Proof.
  intros C1 C2 C3. unfold good, outcome_ok_weak, outcome_ok_gen. simpl. rewrite C1, C3. reflexivity.
Qed.

(* ---- AuthorizePostInbox: writes 403 itself when blocked ---- *)
Lemma wp_authorize a w (Q : wstate -> res bool -> Prop) : clean w ->
  (forall w', clean w' -> Q w' (Ok true)) ->
  (forall w', w_status w' = [403] -> w_writes w' = 0 -> w_denied w' = false -> Q w' (Ok false)) ->
  (forall w' e, clean w' -> Q w' (Err e)) ->
  (forall w' s, clean w' -> Q w' (Panic s)) ->
  wp write_step (authorize_post_inbox a) w Q.
Proof.
  intros Hc Hok Hblk Herr Hpan. unfold authorize_post_inbox.
  destruct (elems "actor" a) as [l|]; simpl; [|apply Herr; exact Hc].
  destruct (actor_iris l) as [iris|e|s]; simpl; [|apply Herr; exact Hc|apply Hpan; exact Hc].
  intros x. destruct x; simpl; try (apply Herr; exact Hc).
  destruct b; simpl.
  - intros _. destruct Hc as [C1 [C2 C3]]. rewrite C1. apply Hblk; simpl; auto.
  - apply Hok. exact Hc.
Qed.

Lemma good_403 w : w_status w = [403] -> w_denied w = false -> good (true, Ok tt) w.
Proof. intros C1 C3. unfold good, outcome_ok_weak, outcome_ok_gen. simpl. rewrite C1, C3. reflexivity. Qed.

Local Opaque post_inbox inbox_forwarding deliver_outbox authenticate authorize_post_inbox dedupe_ordered_items clear_sensitive.

(* running a quiet sub-program from a clean state keeps it clean *)
Lemma wp_quiet_clean {A} (m : prog A) w (Q : wstate -> A -> Prop) : quiet_prog m -> clean w ->
  (forall w' a, clean w' -> Q w' a) -> wp write_step m w Q.
Proof. intros Hq Hc HQ. apply quiet_wp; [exact Hq|]. intros w' a S. apply HQ. eapply clean_same; eauto. Qed.

Theorem outcome_post_inbox cfg r : wp write_step (post_inbox_http cfg r) w0 (fun w o => good o w).
Proof.
  unfold post_inbox_http.
  destruct (is_ap_post (r_method r) (r_content_type r)); cbn [negb]; [|unfold done; cbn [wp]; apply good_not_handled, clean_w0].
  destruct (c_federating cfg); cbn [negb]; [|apply (wp_status 405 w0 clean_w0); simpl; auto].
  apply wp_bind. apply wp_authenticate; [reflexivity|apply clean_w0| | |].
  2: { intros w' C1 C2 C3. apply good_denied; assumption. }
  2: { intros w' e Hc. err_goal Hc. }
  intros w1 Hc1.
  destruct (r_body r) as [|j]; [err_goal Hc1|].
  destruct (to_type j) as [a|e|s]; [|destruct e; try (err_goal Hc1); apply (wp_status 400 w1 Hc1); simpl; auto|err_goal Hc1].
  destruct (satisfies_activity a); cbn [negb]; [|err_goal Hc1].
  destruct (match jget "id" a with Some (JStr s) => has_scheme s | _ => false end); cbn [negb]; [|apply (wp_status 400 w1 Hc1); simpl; auto].
  apply wp_bind. apply wp_quiet_clean; [apply q_app_unit; reflexivity|exact Hc1|].
  intros w2 h Hc2. destruct h as [u|e|s]; [|err_goal Hc2|err_goal Hc2].
  apply wp_bind. apply wp_authorize; [exact Hc2| | | |].
  2: { intros w' C1 C2 C3. apply good_403; assumption. }
  2: { intros w' e Hc. err_goal Hc. }
  2: { intros w' s Hc. err_goal Hc. }
  intros w3 Hc3.
  apply wp_bind. apply wp_quiet_clean; [apply q_post_inbox|exact Hc3|].
  intros w4 p Hc4. destruct p as [u2|e|s]; [| |err_goal Hc4].
  - apply wp_bind. apply wp_quiet_clean; [apply q_inbox_forwarding|exact Hc4|].
    intros w5 f Hc5. destruct f as [u3|e|s]; [apply (wp_status 200 w5 Hc5); simpl; auto|err_goal Hc5|err_goal Hc5].
  - destruct e; try (err_goal Hc4); apply (wp_status 400 w4 Hc4); simpl; auto.
Qed.

Local Transparent dedupe_ordered_items clear_sensitive.
Local Opaque dedupe_ordered_items clear_sensitive.

(* headers, status, body: the serving tail of the GET endpoints *)
Lemma wp_serve (n : nat) (v : json) w : clean w -> In n [200; 410] ->
  wp write_step (add_response_headers v ;;; write_header n ;;; write_body v ;;; done true (Ok tt)) w (fun w' o => good o w').
Proof.
  intros [C1 [C2 C3]] Hn. unfold add_response_headers, now, set_header, write_header, write_body, call, done. simpl.
  intros x. repeat (first [intros _ | progress (rewrite ?C1; simpl)]).
  unfold good, outcome_ok_weak, outcome_ok_gen. simpl. rewrite C3.
  simpl in Hn. repeat (destruct Hn as [Hn|Hn]; [subst; reflexivity|]). contradiction.
Qed.

Lemma wp_created (loc : string) w : clean w ->
  wp write_step (set_header "Location" loc ;;; write_header 201 ;;; done true (Ok tt)) w (fun w' o => good o w').
Proof.
  intros [C1 [C2 C3]]. unfold set_header, write_header, call, done. simpl.
  repeat (first [intros _ | progress (rewrite ?C1; simpl)]).
  unfold good, outcome_ok_weak, outcome_ok_gen. simpl. rewrite C3. destruct (w_first_newid w); reflexivity.
Qed.

Theorem outcome_post_outbox cfg perm r : wp write_step (post_outbox_http cfg perm r) w0 (fun w o => good o w).
Proof.
  unfold post_outbox_http.
  destruct (is_ap_post (r_method r) (r_content_type r)); cbn [negb]; [|unfold done; cbn [wp]; apply good_not_handled, clean_w0].
  destruct (c_social cfg); cbn [negb]; [|apply (wp_status 405 w0 clean_w0); simpl; auto].
  apply wp_bind. apply wp_authenticate; [reflexivity|apply clean_w0| | |].
  2: { intros w' C1 C2 C3. apply good_denied; assumption. }
  2: { intros w' e Hc. err_goal Hc. }
  intros w1 Hc1.
  destruct (r_body r) as [|j]; [err_goal Hc1|].
  destruct (to_type j) as [v|e|s]; [|destruct e; try (err_goal Hc1); apply (wp_status 400 w1 Hc1); simpl; auto|err_goal Hc1].
  apply wp_bind. apply wp_quiet_clean; [apply q_app_unit; reflexivity|exact Hc1|].
  intros w2 h Hc2. destruct h as [u|e|s]; [|err_goal Hc2|err_goal Hc2].
  apply wp_bind. apply wp_quiet_clean; [apply q_deliver_outbox|exact Hc2|].
  intros w3 d Hc3. destruct d as [a|e|s]; [apply wp_created; exact Hc3| |err_goal Hc3].
  destruct e; try (err_goal Hc3); apply (wp_status 400 w3 Hc3); simpl; auto.
Qed.

Theorem outcome_get_inbox cfg r : wp write_step (get_inbox_http cfg r) w0 (fun w o => good o w).
Proof.
  unfold get_inbox_http.
  destruct (is_ap_get (r_method r) (r_accept r)); cbn [negb]; [|unfold done; cbn [wp]; apply good_not_handled, clean_w0].
  apply wp_bind. apply wp_authenticate; [reflexivity|apply clean_w0| | |].
  2: { intros w' C1 C2 C3. apply good_denied; assumption. }
  2: { intros w' e Hc. err_goal Hc. }
  intros w1 Hc1.
  destruct (c_federating cfg); cbn [negb]; [|err_goal Hc1].
  apply wp_bind. apply wp_quiet_clean; [apply q_app; reflexivity|exact Hc1|].
  intros w2 x Hc2. destruct x; try (err_goal Hc2).
  destruct (dedupe_ordered_items j) as [oc|e|s]; [|err_goal Hc2|err_goal Hc2].
  unfold serve_page. apply wp_serve; [exact Hc2|simpl; auto].
Qed.

Theorem outcome_get_outbox r : wp write_step (get_outbox_http r) w0 (fun w o => good o w).
Proof.
  unfold get_outbox_http.
  destruct (is_ap_get (r_method r) (r_accept r)); cbn [negb]; [|unfold done; cbn [wp]; apply good_not_handled, clean_w0].
  apply wp_bind. apply wp_authenticate; [reflexivity|apply clean_w0| | |].
  2: { intros w' C1 C2 C3. apply good_denied; assumption. }
  2: { intros w' e Hc. err_goal Hc. }
  intros w1 Hc1.
  apply wp_bind. apply wp_quiet_clean; [apply q_app; reflexivity|exact Hc1|].
  intros w2 x Hc2. destruct x; try (err_goal Hc2).
  unfold serve_page. apply wp_serve; [exact Hc2|simpl; auto].
Qed.

Theorem outcome_handler r : wp write_step (handler_http r) w0 (fun w o => good o w).
Proof.
  unfold handler_http.
  destruct (is_ap_get (r_method r) (r_accept r)); cbn [negb]; [|unfold done; cbn [wp]; apply good_not_handled, clean_w0].
  apply wp_bind. apply wp_quiet_clean; [apply q_lock|apply clean_w0|].
  intros w1 lk Hc1. destruct lk as [u|e|s]; [|err_goal Hc1|err_goal Hc1].
  apply wp_bind. apply wp_quiet_clean; [apply q_db_opt_json|exact Hc1|].
  intros w2 x Hc2.
  apply wp_bind. apply wp_quiet_clean; [apply q_unlock|exact Hc2|].
  intros w3 _ Hc3. destruct x as [[t|]|e|s]; [| |err_goal Hc3|err_goal Hc3].
  - apply wp_serve; [exact Hc3|]. destruct (is_or_extends _ "Tombstone"); simpl; auto.
  - err_goal Hc3.
Qed.
