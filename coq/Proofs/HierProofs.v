(* C13: the shipped tables equal the closures of the shipped ontology. *)
From Coq Require Import String List Bool Relations.
From Verif Require Import Base.ListX Vocab.Tables Vocab.Ontology Vocab.Spec Streams.Hier Proofs.SpecProofs.
From Verif Require Import Gen.TablesShipped Gen.OntologyShipped.
Import ListNotations.
Open Scope string_scope.

Definition T := types_shipped.
Definition O := ont_shipped.
Definition names := type_names T.

(* ---- finite obligations, discharged by computation over all 63 x 63 pairs ---- *)
Definition all_pairs (f : string -> string -> bool) : bool :=
  forallb (fun a => forallb (fun b => f a b) names) names.

Lemma all_pairs_spec f : all_pairs f = true -> forall a b, In a names -> In b names -> f a b = true.
Proof.
  unfold all_pairs. intros H a b Ha Hb. rewrite forallb_forall in H. specialize (H a Ha).
  rewrite forallb_forall in H. exact (H b Hb).
Qed.

Lemma shape_ok : shape_errors = [].
Proof. vm_compute. reflexivity. Qed.

Lemma names_nodup : NoDup names.
Proof. apply nodupb_spec. vm_compute. reflexivity. Qed.

Lemma names_are_classes : set_eq names (class_names O) = true.
Proof. vm_compute. reflexivity. Qed.

Lemma ont_saturated : saturated O = true.
Proof. vm_compute. reflexivity. Qed.

Lemma tbl_extends : all_pairs (fun a b => Bool.eqb (gen_extends T a b) (mem b (ancestors O a))) = true.
Proof. vm_compute. reflexivity. Qed.

Lemma tbl_extended_by : all_pairs (fun a b => Bool.eqb (gen_extended_by T a b) (mem a (ancestors O b))) = true.
Proof. vm_compute. reflexivity. Qed.

Lemma tbl_is_or_extends : all_pairs (fun a b => Bool.eqb (gen_is_or_extends T a b) (String.eqb b a || mem a (ancestors O b))) = true.
Proof. vm_compute. reflexivity. Qed.

Lemma tbl_disjoint : all_pairs (fun a b => Bool.eqb (gen_disjoint T a b) (disjoint_spec O a b)) = true.
Proof. vm_compute. reflexivity. Qed.

Lemma tbl_disjoint_irrefl : all_pairs (fun a b => negb (gen_disjoint T a b) || (negb (String.eqb a b) && negb (gen_extends T a b) && negb (gen_extends T b a))) = true.
Proof. vm_compute. reflexivity. Qed.

(* ---- lifted statements ---- *)
Definition extends_rel := clos_trans string (parent_rel O).

Lemma eqb_true_iff_l (x y : bool) : Bool.eqb x y = true -> (x = true <-> y = true).
Proof. destruct x, y; simpl; intros H; split; congruence. Qed.

Lemma extends_correct a b : In a names -> In b names -> (gen_extends T a b = true <-> extends_rel a b).
Proof.
  intros Ha Hb. pose proof (all_pairs_spec _ tbl_extends a b Ha Hb) as H.
  apply eqb_true_iff_l in H. rewrite H, mem_In. apply ancestors_correct. exact ont_saturated.
Qed.

Lemma extended_by_correct a b : In a names -> In b names -> (gen_extended_by T a b = true <-> extends_rel b a).
Proof.
  intros Ha Hb. pose proof (all_pairs_spec _ tbl_extended_by a b Ha Hb) as H.
  apply eqb_true_iff_l in H. rewrite H, mem_In. apply ancestors_correct. exact ont_saturated.
Qed.

Lemma is_or_extends_correct a b : In a names -> In b names ->
  (gen_is_or_extends T a b = true <-> b = a \/ extends_rel b a).
Proof.
  intros Ha Hb. pose proof (all_pairs_spec _ tbl_is_or_extends a b Ha Hb) as H.
  apply eqb_true_iff_l in H. rewrite H, orb_true_iff, String.eqb_eq, mem_In.
  rewrite (ancestors_correct O ont_saturated). reflexivity.
Qed.

Lemma disjoint_correct a b : In a names -> In b names ->
  (gen_disjoint T a b = true <-> DisjointSpec O a b).
Proof.
  intros Ha Hb. pose proof (all_pairs_spec _ tbl_disjoint a b Ha Hb) as H.
  apply eqb_true_iff_l in H. rewrite H. apply disjoint_spec_correct. exact ont_saturated.
Qed.

Lemma converse a b : In a names -> In b names -> (gen_extends T a b = true <-> gen_extended_by T b a = true).
Proof. intros Ha Hb. rewrite extends_correct, extended_by_correct by assumption. reflexivity. Qed.

Lemma disjoint_sym a b : In a names -> In b names -> gen_disjoint T a b = true -> gen_disjoint T b a = true.
Proof.
  intros Ha Hb. rewrite !disjoint_correct by assumption. apply DisjointSpec_sym.
Qed.

Lemma disjoint_irrefl a b : In a names -> In b names -> gen_disjoint T a b = true ->
  a <> b /\ ~ extends_rel a b /\ ~ extends_rel b a.
Proof.
  intros Ha Hb Hd. pose proof (all_pairs_spec _ tbl_disjoint_irrefl a b Ha Hb) as H.
  cbv beta in H. rewrite Hd in H. simpl in H. apply andb_true_iff in H. destruct H as [H H3].
  apply andb_true_iff in H. destruct H as [H1 H2].
  apply negb_true_iff in H1, H2, H3. split; [|split].
  - intros E. apply String.eqb_neq in H1. contradiction.
  - rewrite <- extends_correct by assumption. congruence.
  - rewrite <- extends_correct by assumption. congruence.
Qed.
