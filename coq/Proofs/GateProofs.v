(* C07: no side effect before authentication (and, for inbox POSTs, the block check). *)
From Coq Require Import String List Bool Arith.
From Verif Require Import Base.ListX Base.Json Base.Free Pub.Events Pub.Calls Pub.Value Pub.Util Pub.SideEffect Pub.Fed Pub.Soc Pub.BaseActor Pub.Monitors.
Import ListNotations.
Open Scope string_scope.

Definition gopen (nb : bool) (g : gate) : Prop := g_auth g = true /\ (nb = true -> g_block g = true).

Lemma gate_step_open nb g e x : gopen nb g -> exists g', gate_step nb g e x = Some g' /\ gopen nb g'.
Proof.
  intros [Ha Hb]. unfold gate_step. destruct (is_side_effect e).
  - rewrite Ha. assert (E : negb nb || g_block g = true) by (destruct nb; simpl; [apply Hb; reflexivity|reflexivity]).
    rewrite E. simpl. exists g. split; [reflexivity|exact (conj Ha Hb)].
  - destruct e; try (exists g; split; [reflexivity|exact (conj Ha Hb)]).
    destruct x; try (exists g; split; [reflexivity|exact (conj Ha Hb)]).
    destruct b.
    + destruct (prefix "Authenticate" name); eexists; (split; [reflexivity|unfold gopen; simpl; auto]).
    + destruct (String.eqb name "Blocked"); eexists; (split; [reflexivity|unfold gopen; simpl; auto]).
Qed.

(* once the gate is open every program whatsoever passes the monitor *)
Lemma gate_open_any {A} nb (m : prog A) : forall g, gopen nb g -> wp (gate_step nb) m g (fun _ _ => True).
Proof.
  induction m as [a|e k IH]; intros g Hg; simpl; [exact I|].
  intros x. destruct (gate_step_open nb g e x Hg) as [g' [E Hg']]. rewrite E. apply IH. exact Hg'.
Qed.

Definition g0 : gate := {| g_auth := false; g_block := false |}.
Definition g_authed : gate := {| g_auth := true; g_block := false |}.

Lemma gate_authenticate nb name (Q : gate -> res bool -> Prop) :
  prefix "Authenticate" name = true -> is_side_effect_app name = false ->
  Q g_authed (Ok true) -> (forall r, r <> Ok true -> Q g0 r) ->
  wp (gate_step nb) (authenticate name) g0 Q.
Proof.
  intros Hp Hs Hok Hno. unfold authenticate, app, call. simpl. intros x.
  unfold gate_step. cbn [is_side_effect]. rewrite Hs.
  destruct x; simpl; try (apply Hno; discriminate).
  destruct b; simpl.
  - rewrite Hp. exact Hok.
  - destruct (String.eqb name "Blocked") eqn:E; [|apply Hno; discriminate].
    apply String.eqb_eq in E. subst. simpl in Hp. discriminate.
Qed.

Lemma gate_authorize a g : g_auth g = true ->
  wp (gate_step true) (authorize_post_inbox a) g (fun g' r => g_auth g' = true /\ (r = Ok true -> g_block g' = true)).
Proof.
  intros Ha. unfold authorize_post_inbox.
  destruct (elems "actor" a) as [l|]; simpl; [|split; [exact Ha|discriminate]].
  destruct (actor_iris l) as [iris|e|s]; simpl; try (split; [exact Ha|discriminate]).
  intros x. destruct x; simpl; try (split; [exact Ha|discriminate]).
  destruct b; simpl.
  - intros _. split; [exact Ha|discriminate].
  - split; [exact Ha|reflexivity].
Qed.

Local Opaque post_inbox inbox_forwarding deliver_outbox serve_page dedupe_ordered_items clear_sensitive add_response_headers authenticate authorize_post_inbox.

Theorem gate_post_inbox cfg r : wp (gate_step true) (post_inbox_http cfg r) g0 (fun _ _ => True).
Proof.
  unfold post_inbox_http.
  destruct (is_ap_post (r_method r) (r_content_type r)); simpl; [|exact I].
  destruct (c_federating cfg); simpl; [|intros x; exact I].
  apply wp_bind. apply gate_authenticate; [reflexivity|reflexivity| |intros [[|]|e|s] Hr; simpl; try exact I; congruence].
  simpl.
  destruct (r_body r) as [|j]; simpl; [exact I|].
  destruct (to_type j) as [a|e|s]; simpl; [|destruct e; simpl; try exact I; intros; exact I|exact I].
  destruct (satisfies_activity a); simpl; [|exact I].
  destruct (match jget "id" a with Some (JStr s) => has_scheme s | _ => false end); simpl; [|intros; exact I].
  intros x; destruct x; simpl; try exact I; try (destruct b; simpl; exact I).
  apply wp_bind. eapply wp_mono; [|apply gate_authorize; reflexivity].
  intros g' az [Ha Hb]. destruct az as [[|]|e|s]; simpl; try exact I.
  apply gate_open_any. split; [exact Ha|intros _; apply Hb; reflexivity].
Qed.

Theorem gate_post_outbox cfg perm r : wp (gate_step false) (post_outbox_http cfg perm r) g0 (fun _ _ => True).
Proof.
  unfold post_outbox_http.
  destruct (is_ap_post (r_method r) (r_content_type r)); simpl; [|exact I].
  destruct (c_social cfg); simpl; [|intros x; exact I].
  apply wp_bind. apply gate_authenticate; [reflexivity|reflexivity| |intros [[|]|e|s] Hr; simpl; try exact I; congruence].
  apply gate_open_any. split; [reflexivity|discriminate].
Qed.

Theorem gate_get_inbox cfg r : wp (gate_step false) (get_inbox_http cfg r) g0 (fun _ _ => True).
Proof.
  unfold get_inbox_http.
  destruct (is_ap_get (r_method r) (r_accept r)); simpl; [|exact I].
  apply wp_bind. apply gate_authenticate; [reflexivity|reflexivity| |intros [[|]|e|s] Hr; simpl; try exact I; congruence].
  apply gate_open_any. split; [reflexivity|discriminate].
Qed.

Theorem gate_get_outbox r : wp (gate_step false) (get_outbox_http r) g0 (fun _ _ => True).
Proof.
  unfold get_outbox_http.
  destruct (is_ap_get (r_method r) (r_accept r)); simpl; [|exact I].
  apply wp_bind. apply gate_authenticate; [reflexivity|reflexivity| |intros [[|]|e|s] Hr; simpl; try exact I; congruence].
  apply gate_open_any. split; [reflexivity|discriminate].
Qed.

(* requests that are not ActivityPub requests: not handled, no event at all *)
Theorem not_ap_untouched_post_inbox cfg r : is_ap_post (r_method r) (r_content_type r) = false ->
  post_inbox_http cfg r = Ret (false, Ok tt).
Proof. intros H. unfold post_inbox_http. rewrite H. reflexivity. Qed.
Theorem not_ap_untouched_post_outbox cfg perm r : is_ap_post (r_method r) (r_content_type r) = false ->
  post_outbox_http cfg perm r = Ret (false, Ok tt).
Proof. intros H. unfold post_outbox_http. rewrite H. reflexivity. Qed.
Theorem not_ap_untouched_get_inbox cfg r : is_ap_get (r_method r) (r_accept r) = false ->
  get_inbox_http cfg r = Ret (false, Ok tt).
Proof. intros H. unfold get_inbox_http. rewrite H. reflexivity. Qed.
Theorem not_ap_untouched_get_outbox r : is_ap_get (r_method r) (r_accept r) = false ->
  get_outbox_http r = Ret (false, Ok tt).
Proof. intros H. unfold get_outbox_http. rewrite H. reflexivity. Qed.
Theorem not_ap_untouched_handler r : is_ap_get (r_method r) (r_accept r) = false ->
  handler_http r = Ret (false, Ok tt).
Proof. intros H. unfold handler_http. rewrite H. reflexivity. Qed.

(* a disabled protocol answers 405 and consults nobody *)
Theorem disabled_post_inbox cfg r : is_ap_post (r_method r) (r_content_type r) = true -> c_federating cfg = false ->
  post_inbox_http cfg r = Op (EWriteHeader 405) (fun _ => Ret (true, Ok tt)).
Proof. intros H1 H2. unfold post_inbox_http. rewrite H1, H2. reflexivity. Qed.
Theorem disabled_post_outbox cfg perm r : is_ap_post (r_method r) (r_content_type r) = true -> c_social cfg = false ->
  post_outbox_http cfg perm r = Op (EWriteHeader 405) (fun _ => Ret (true, Ok tt)).
Proof. intros H1 H2. unfold post_outbox_http. rewrite H1, H2. reflexivity. Qed.
