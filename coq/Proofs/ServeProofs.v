(* C20: what GetInbox, GetOutbox and the ActivityStreams handler write. *)
From Coq Require Import String List Bool Arith ZArith.
From Verif Require Import Base.ListX Base.Json Base.Free Base.Time Pub.Events Pub.Calls Pub.Value Pub.Util Pub.SideEffect Pub.BaseActor Pub.Monitors Proofs.ValueProofs.
Import ListNotations.
Open Scope string_scope.
Open Scope prog_scope.

Lemma ss_now entry st x : exists t, serve_step entry st ENow x = Some {| s_page := s_page st; s_now := Some t |} /\
                                      (match x with AZ z => z | _ => 0%Z end) = t.
Proof. destruct x; eexists; split; reflexivity. Qed.
Lemma ss_ct entry st x : serve_step entry st (ESetHeader "Content-Type" content_type_value) x = Some st.
Proof. reflexivity. Qed.
Lemma ss_date entry st t x : s_now st = Some t -> serve_step entry st (ESetHeader "Date" (http_date t)) x = Some st.
Proof. intros H. unfold serve_step. cbn [String.eqb Ascii.eqb Bool.eqb]. rewrite H, String.eqb_refl. reflexivity. Qed.
Lemma ss_digest entry st x : serve_step entry st (ESetHeader "Digest" digest_placeholder) x = Some st.
Proof. reflexivity. Qed.
Lemma ss_status_other entry st n x : String.eqb entry "handler" = false -> serve_step entry st (EWriteHeader n) x = Some st.
Proof. intros H. unfold serve_step. rewrite H. reflexivity. Qed.
Lemma ss_status_handler st p x : s_page st = Some p ->
  serve_step "handler" st (EWriteHeader (if is_or_extends (type_name p) "Tombstone" then 410 else 200)) x = Some st.
Proof. intros H. unfold serve_step. cbn [String.eqb Ascii.eqb Bool.eqb]. rewrite H, Nat.eqb_refl. reflexivity. Qed.
Lemma ss_write entry st p v x : s_page st = Some p -> served_value entry p = Some v ->
  serve_step entry st (EWrite (canon (streams_serialize v))) x = Some st.
Proof. intros H1 H2. unfold serve_step. rewrite H1, H2, jeqb_refl. reflexivity. Qed.

(* the serving tail, from a state that knows the value to serve *)
Lemma serve_tail entry (p v : json) (n : nat) st :
  s_page st = Some p -> served_value entry p = Some v ->
  (if String.eqb entry "handler" then n = (if is_or_extends (type_name p) "Tombstone" then 410 else 200) /\ entry = "handler" else True) ->
  wp (serve_step entry) (add_response_headers v ;;; write_header n ;;; write_body v ;;; done true (Ok tt)) st (fun _ _ => True).
Proof.
  intros Hp Hv Hn. unfold add_response_headers, now, set_header, write_header, write_body, call, done.
  cbn [wp bind ret]. intros x. destruct (ss_now entry st x) as [t [E1 E2]]. rewrite E1, E2.
  set (st' := {| s_page := s_page st; s_now := Some t |}).
  assert (Hp' : s_page st' = Some p) by exact Hp.
  intros y1. rewrite ss_ct. intros y2. rewrite (ss_date entry st' t y2 eq_refl). intros y3. rewrite ss_digest.
  intros y4.
  destruct (String.eqb entry "handler") eqn:Eh.
  - destruct Hn as [Hn He]. subst n entry. rewrite (ss_status_handler st' p y4 Hp').
    intros y5. rewrite (ss_write "handler" st' p v y5 Hp' Hv). exact I.
  - rewrite (ss_status_other entry st' n y4 Eh). intros y5. rewrite (ss_write entry st' p v y5 Hp' Hv). exact I.
Qed.

Local Opaque add_response_headers write_header write_body dedupe_ordered_items streams_serialize.

Theorem serve_get_inbox cfg r : wp (serve_step "getinbox") (get_inbox_http cfg r) s0 (fun _ _ => True).
Proof.
  unfold get_inbox_http, authenticate, app, call, done.
  destruct (is_ap_get (r_method r) (r_accept r)); cbn [negb wp bind ret]; [|exact I].
  intros x. cbn [serve_step String.eqb Ascii.eqb Bool.eqb orb].
  destruct x; cbn [wp bind ret ok fail]; try exact I.
  destruct b; cbn [wp bind ret]; [|exact I].
  destruct (c_federating cfg); cbn [negb wp bind ret]; [|exact I].
  intros y. cbn [serve_step String.eqb Ascii.eqb Bool.eqb orb].
  destruct y; cbn [wp bind ret]; try exact I.
  destruct (dedupe_ordered_items j) as [oc|e|s] eqn:Ed; cbn [wp bind ret]; try exact I.
  unfold serve_page. apply (serve_tail "getinbox" j oc 200); [reflexivity| |exact I].
  unfold served_value. cbn [String.eqb Ascii.eqb Bool.eqb]. rewrite Ed. reflexivity.
Qed.

Theorem serve_get_outbox r : wp (serve_step "getoutbox") (get_outbox_http r) s0 (fun _ _ => True).
Proof.
  unfold get_outbox_http, authenticate, app, call, done.
  destruct (is_ap_get (r_method r) (r_accept r)); cbn [negb wp bind ret]; [|exact I].
  intros x. cbn [serve_step String.eqb Ascii.eqb Bool.eqb orb].
  destruct x; cbn [wp bind ret ok fail]; try exact I.
  destruct b; cbn [wp bind ret]; [|exact I].
  intros y. cbn [serve_step String.eqb Ascii.eqb Bool.eqb orb].
  destruct y; cbn [wp bind ret]; try exact I.
  unfold serve_page. apply (serve_tail "getoutbox" j j 200); [reflexivity|reflexivity|exact I].
Qed.

Theorem serve_handler r : wp (serve_step "handler") (handler_http r) s0 (fun _ _ => True).
Proof.
  unfold handler_http, lock, unlock, db_opt_json, db, call, done.
  destruct (is_ap_get (r_method r) (r_accept r)); cbn [negb wp bind ret]; [|exact I].
  intros x. cbn [serve_step]. destruct x; cbn [wp bind ret ok fail]; try exact I.
  intros y. cbn [serve_step String.eqb Ascii.eqb Bool.eqb andb].
  destruct y; cbn [wp bind ret ok fail]; intros uz; cbn [serve_step]; try exact I.
  apply (serve_tail "handler" j (clear_sensitive (S (jdepth j)) j)); [reflexivity|reflexivity|].
  cbn [String.eqb Ascii.eqb Bool.eqb]. split; [|reflexivity].
  (* clearSensitiveFields does not change the type *)
  rewrite type_name_clear_sensitive. reflexivity.
Qed.

(* ---- dedupeOrderedItems: first occurrences kept, in order, later duplicates removed ---- *)
Definition item_id (e : json) : res string :=
  match e_type "orderedItems" e with
  | Some v => get_id v
  | None => if e_is_iri e then Ok (e_iri e) else Err EGeneric
  end.

Inductive sublist {A} : list A -> list A -> Prop :=
| sub_nil : sublist [] []
| sub_keep x l l' : sublist l l' -> sublist (x :: l) (x :: l')
| sub_drop x l l' : sublist l l' -> sublist l (x :: l').

Lemma dedupe_items_spec : forall l seen,
  (forall e, In e l -> exists i, item_id e = Ok i /\ is_nil i = false) ->
  exists l', dedupe_items seen l = Ok l' /\ sublist l' l /\
    (forall ids ids', Forall2 (fun e i => item_id e = Ok i) l ids -> Forall2 (fun e i => item_id e = Ok i) l' ids' ->
       ids' = dedupe_against seen ids).
Proof.
  induction l as [|e r IH]; intros seen Hall.
  - exists []. split; [reflexivity|split; [constructor|]]. intros ids ids' F1 F2. inversion F1; inversion F2; subst. reflexivity.
  - destruct (Hall e (or_introl eq_refl)) as [i [Hi Hn]].
    assert (Hr : forall e0, In e0 r -> exists i0, item_id e0 = Ok i0 /\ is_nil i0 = false) by (intros e0 He0; apply Hall; right; exact He0).
    cbn [dedupe_items]. fold (item_id e). rewrite Hi, Hn.
    destruct (mem i seen) eqn:Em.
    + destruct (IH seen Hr) as [l' [E [S F]]]. exists l'. split; [exact E|split; [constructor; exact S|]].
      intros ids ids' F1 F2. inversion F1 as [|? i' ? ids0 Hi' F1']; subst.
      rewrite Hi in Hi'. inversion Hi'; subst i'. simpl. rewrite Em. apply F; assumption.
    + destruct (IH (i :: seen) Hr) as [l' [E [S F]]]. rewrite E. exists (e :: l'). split; [reflexivity|split; [constructor; exact S|]].
      intros ids ids' F1 F2. inversion F1 as [|? i' ? ids0 Hi' F1']; subst. inversion F2 as [|? i'' ? ids1 Hi'' F2']; subst.
      rewrite Hi in Hi', Hi''. inversion Hi'; inversion Hi''; subst. simpl. rewrite Em. f_equal. apply F; assumption.
Qed.

Lemma dedupe_against_spec : forall l seen x, In x (dedupe_against seen l) <-> In x l /\ ~ In x seen.
Proof.
  induction l as [|y r IH]; intros seen x; simpl; [tauto|].
  destruct (mem y seen) eqn:E.
  - rewrite IH. apply mem_In in E. split; [tauto|]. intros [[H|H] Hn]; [subst; contradiction|tauto].
  - apply mem_false_In in E. simpl. rewrite IH. simpl. split.
    + intros [H|[H1 H2]]; [subst; tauto|]. split; [tauto|]. intros Hs. apply H2. right. exact Hs.
    + intros [[H|H] Hn]; [left; exact H|]. destruct (String.eqb y x) eqn:Ex; [apply String.eqb_eq in Ex; left; exact Ex|].
      apply String.eqb_neq in Ex. right. split; [exact H|]. intros [Hs|Hs]; [congruence|contradiction].
Qed.

Lemma dedupe_against_nodup : forall l seen, NoDup (dedupe_against seen l).
Proof.
  induction l as [|y r IH]; intros seen; simpl; [constructor|].
  destruct (mem y seen); [apply IH|]. constructor; [|apply IH].
  rewrite dedupe_against_spec. intros [_ Hn]. apply Hn. left. reflexivity.
Qed.

