(* C04 / C06, the federating Accept (and Undo, Reject, Block) of Pub/Fed.v: what is stored and sent, for EVERY environment.
   "A verified Accept adds its actors to following" (C04); "following is updated only for a stored Follow by this inbox's
   actor that names every accepting actor" (C06); Undo, Reject and Block change nothing.
   S env m (Proofs/StoreProofs.v) = the Create / Update / Delete / SetInbox / SetOutbox / BatchDeliver events of the run of m. *)
From Coq Require Import String List Bool Arith.
From Verif Require Import Base.ListX Base.Json Base.Free Pub.Events Pub.Calls Pub.Value Pub.EffectSpec Pub.Util Pub.SideEffect Pub.Fed.
From Verif Require Import Proofs.OnlyProofs Proofs.DeliveryProofs Proofs.ForwardIffProofs Proofs.StoreProofs Proofs.FollowProofs.
Import ListNotations.
Open Scope string_scope.
Open Scope list_scope.
Open Scope prog_scope.

Local Opaque has_prop known_type admits T P is_or_extends.

(* ---- the pieces of Fed.accept, named ---- *)
(* the verification of the stored Follow, under its lock: it is a Follow, this actor is among its actors, and every
   accepting actor is among its objects *)
Definition accept_verify (actor follow_id : string) (al : list json) : prog (res unit) :=
  with_lock_deferred follow_id (
    t <-? db_json "Get" [JStr follow_id] ;;
    if negb (is_or_extends (type_name t) "Follow") then fail EGeneric else
    mine <-? lift (match elems "actor" t with None => Ok false | Some l => names_me "actor" actor l end) ;;
    if negb mine then fail EGeneric else
    accept_ids <-? lift (to_ids "actor" al) ;;
    follow_objs <-? lift (ids_of "object" t) ;;
    if forallb (fun i => mem i follow_objs) accept_ids then ok tt else fail EGeneric).

(* the accepting actors put in front of the actor's following collection *)
Definition new_following (ids : list string) (following : json) : json :=
  set_elems "items" (map JStr (rev ids) ++ elems0 "items" following) following.

Definition accept_update (actor : string) (al : list json) : prog (res unit) :=
  _ <-? lock actor ;;
  f <- db_json "Following" [JStr actor] ;;
  match f with
  | Ok following =>
      match to_ids "actor" al with
      | Ok ids => u <- db_unit "Update" [new_following ids following] ;; unlock actor ;;; lift u
      | Err e => unlock actor ;;; fail e
      | Panic s => unlock actor ;;; Ret (Panic s)
      end
  | Err e => unlock actor ;;; fail e
  | Panic s => unlock actor ;;; Ret (Panic s)
  end.

Definition accept_found (actor : string) (a : json) (follow_id : string) : prog (res unit) :=
  match elems "actor" a with
  | None | Some [] => fail EGeneric
  | Some al => _ <-? accept_verify actor follow_id al ;; accept_update actor al
  end.

Definition accept_main (inbox : string) (a : json) : prog (res unit) :=
  _ <-? lock inbox ;;
  x <- db_iri "ActorForInbox" [JStr inbox] ;;
  unlock inbox ;;;
  actor <-? lift x ;;
  maybe <-? find_my_follow inbox actor (elems0 "object" a) ;;
  match maybe with
  | None => ok tt
  | Some follow_id => accept_found actor a follow_id
  end.

(* Fed.accept is literally these pieces *)
Lemma accept_unfold cfg inbox a : accept cfg inbox a =
  _ <-? (if object_required a then ok tt else accept_main inbox a) ;; wrapped cfg "Accept" a.
Proof. reflexivity. Qed.

(* what the verification establishes about the stored Follow t *)
Definition follow_verified (actor : string) (al : list json) (t : json) (accept_ids follow_objs : list string) : Prop :=
  is_or_extends (type_name t) "Follow" = true
  /\ (exists al', elems "actor" t = Some al' /\ names_me "actor" actor al' = Ok true)
  /\ to_ids "actor" al = Ok accept_ids
  /\ ids_of "object" t = Ok follow_objs
  /\ forallb (fun i => mem i follow_objs) accept_ids = true.

Section Any.
  Variable env : ev -> ans.

  Lemma S_find_my_follow inbox actor l : S env (find_my_follow inbox actor l) = [].
  Proof. apply S_only. apply (q_find_my_follow no_store); intros; reflexivity. Qed.

  (* ---- the verification: stores nothing; succeeds only for a stored Follow by this actor naming every accepting actor ---- *)
  Lemma accept_verify_stores actor follow_id al : S env (accept_verify actor follow_id al) = [].
  Proof.
    unfold accept_verify, with_lock_deferred. rewrite S_bindr, S_lock. cbn [app].
    destruct (res_env env (lock follow_id)) as [u|e|p]; [|reflexivity|reflexivity].
    rewrite S_bind, S_unlock_k, S_ret, app_nil_r.
    rewrite S_bindr, (S_db_json env "Get" [JStr follow_id] eq_refl). cbn [app].
    destruct (res_env env (db_json "Get" [JStr follow_id])) as [t|e|p]; [|reflexivity|reflexivity].
    destruct (negb (is_or_extends (type_name t) "Follow")); [reflexivity|].
    rewrite S_bindr, S_lift. cbn [app].
    destruct (res_env env (lift (match elems "actor" t with None => Ok false | Some l => names_me "actor" actor l end))) as [mine|e|p]; [|reflexivity|reflexivity].
    destruct (negb mine); [reflexivity|].
    rewrite S_bindr, S_lift. cbn [app]. destruct (res_env env (lift (to_ids "actor" al))) as [accept_ids|e|p]; [|reflexivity|reflexivity].
    rewrite S_bindr, S_lift. cbn [app]. destruct (res_env env (lift (ids_of "object" t))) as [follow_objs|e|p]; [|reflexivity|reflexivity].
    destruct (forallb (fun i => mem i follow_objs) accept_ids); reflexivity.
  Qed.

  Lemma accept_verify_ok actor follow_id al u : res_env env (accept_verify actor follow_id al) = Ok u ->
    exists t accept_ids follow_objs,
      env (EDb "Get" [JStr follow_id]) = AJson t /\ follow_verified actor al t accept_ids follow_objs.
  Proof.
    unfold accept_verify. intros H. apply with_lock_ok in H. destruct H as [H _]. revert H.
    rewrite res_env_bindr, res_db_json. cbn [map canon].
    destruct (env (EDb "Get" [JStr follow_id])) as [| |b|i| |t|l|n|s|z|]; cbn [json_ans]; try (intros H; discriminate H).
    destruct (is_or_extends (type_name t) "Follow") eqn:Ef; cbn [negb]; [|intros H; discriminate H].
    rewrite res_env_bindr, res_env_lift.
    destruct (elems "actor" t) as [al'|] eqn:Ea; [|intros H; discriminate H].
    destruct (names_me "actor" actor al') as [mine|e|p] eqn:Em; [|intros H; discriminate H|intros H; discriminate H].
    destruct mine; cbn [negb]; [|intros H; discriminate H].
    rewrite res_env_bindr, res_env_lift.
    destruct (to_ids "actor" al) as [accept_ids|e|p] eqn:Ei; [|intros H; discriminate H|intros H; discriminate H].
    rewrite res_env_bindr, res_env_lift.
    destruct (ids_of "object" t) as [follow_objs|e|p] eqn:Eo; [|intros H; discriminate H|intros H; discriminate H].
    destruct (forallb (fun i => mem i follow_objs) accept_ids) eqn:Eall; [|intros H; discriminate H].
    intros _. exists t, accept_ids, follow_objs. split; [reflexivity|].
    unfold follow_verified. split; [exact Ef|]. split; [exists al'; split; [exact Ea|exact Em]|].
    split; [exact Ei|]. split; [exact Eo|exact Eall].
  Qed.

  (* ---- the update of following ---- *)
  Lemma accept_update_ok actor al : res_env env (accept_update actor al) = Ok tt ->
    exists following ids, env (EDb "Following" [JStr actor]) = AJson following /\ to_ids "actor" al = Ok ids
      /\ S env (accept_update actor al) = [EDb "Update" [canon (new_following ids following)]].
  Proof.
    unfold accept_update. rewrite res_env_bindr, S_bindr, S_lock. cbn [app].
    destruct (res_env env (lock actor)) as [u0|e|p]; [|intros H; discriminate H|intros H; discriminate H].
    rewrite res_env_bind, S_bind, res_db_json, (S_db_json env "Following" [JStr actor] eq_refl). cbn [app map canon].
    destruct (env (EDb "Following" [JStr actor])) as [| |b|i| |following|l|n|s|z|]; cbn [json_ans];
      try (rewrite res_unlock_k; intros H; discriminate H).
    destruct (to_ids "actor" al) as [ids|e|p]; [|rewrite res_unlock_k; intros H; discriminate H|rewrite res_unlock_k; intros H; discriminate H].
    rewrite res_env_bind, S_bind, res_unlock_k, S_unlock_k, res_env_lift, S_lift, app_nil_r.
    intros _. exists following, ids. split; [reflexivity|]. split; [reflexivity|].
    apply (S_db_unit env "Update" [new_following ids following]). reflexivity.
  Qed.

  (* ---- the first part of Accept ---- *)
  (* either nothing is stored and no Follow of this actor was found, or one was found and Accept continues with it *)
  Lemma accept_split cfg inbox a :
    (S env (accept cfg inbox a) = []
     /\ (object_required a = true
         \/ (forall u, res_env env (accept cfg inbox a) <> Ok u)
         \/ exists actor, env (EDb "ActorForInbox" [JStr inbox]) = AIri actor
                          /\ res_env env (find_my_follow inbox actor (elems0 "object" a)) = Ok None))
    \/ exists actor follow_id,
         object_required a = false
         /\ env (EDb "ActorForInbox" [JStr inbox]) = AIri actor
         /\ res_env env (find_my_follow inbox actor (elems0 "object" a)) = Ok (Some follow_id)
         /\ S env (accept cfg inbox a) = S env (accept_found actor a follow_id)
         /\ res_env env (accept cfg inbox a) =
              match res_env env (accept_found actor a follow_id) with
              | Ok _ => res_env env (wrapped cfg "Accept" a) | Err e => Err e | Panic s => Panic s end.
  Proof.
    rewrite accept_unfold. rewrite res_env_bindr, S_bindr.
    destruct (object_required a) eqn:Eo.
    { left. change (S env (ok tt)) with (@nil ev). rewrite res_env_ok, S_wrapped. split; [reflexivity|left; reflexivity]. }
    unfold accept_main.
    match goal with |- context [bind (db_iri "ActorForInbox" [JStr inbox]) ?k] =>
      destruct (locked_iri env inbox "ActorForInbox" inbox k eq_refl) as [E1 E2] end.
    rewrite E1, E2. clear E1 E2. cbn beta.
    destruct (res_env env (lock inbox)) as [u0|e|p];
      [|left; split; [reflexivity|right; left; intros u H; discriminate H]|left; split; [reflexivity|right; left; intros u H; discriminate H]].
    destruct (env (EDb "ActorForInbox" [JStr inbox])) as [| |b|actor| |j|l|n|s|z|] eqn:Ea; cbn [iri_ans];
      rewrite res_unlock_k, S_unlock_k;
      try (left; split; [reflexivity|right; left; intros u H; discriminate H]).
    rewrite res_env_bindr, S_bindr, res_env_lift, S_lift. cbn [app]. cbn beta iota.
    rewrite res_env_bindr, S_bindr, S_find_my_follow. cbn [app].
    destruct (res_env env (find_my_follow inbox actor (elems0 "object" a))) as [[follow_id|]|e|p] eqn:Ef.
    - right. exists actor, follow_id. split; [reflexivity|]. split; [reflexivity|]. split; [exact Ef|].
      destruct (res_env env (accept_found actor a follow_id)) as [u1|e|p].
      + rewrite S_wrapped, app_nil_r. split; reflexivity.
      + rewrite app_nil_r. split; reflexivity.
      + rewrite app_nil_r. split; reflexivity.
    - left. change (S env (ok tt)) with (@nil ev). rewrite res_env_ok, S_wrapped. split; [reflexivity|]. right. right. exists actor. split; [reflexivity|exact Ef].
    - left. split; [reflexivity|right; left; intros u H; discriminate H].
    - left. split; [reflexivity|right; left; intros u H; discriminate H].
  Qed.

  (* ---- (A1) no object, or no Follow of this inbox's actor among the objects: nothing stored, nothing sent -
     whether or not the callback succeeds ---- *)
  Theorem accept_no_follow_nothing cfg inbox a :
    (object_required a = true
     \/ exists actor, env (EDb "ActorForInbox" [JStr inbox]) = AIri actor
                      /\ res_env env (find_my_follow inbox actor (elems0 "object" a)) = Ok None) ->
    S env (accept cfg inbox a) = [].
  Proof.
    intros H. destruct (accept_split cfg inbox a) as [[Hs _]|[actor [follow_id [Ho [Ha [Hf _]]]]]]; [exact Hs|].
    destruct H as [H|[actor' [Ha' Hf']]].
    - rewrite Ho in H. discriminate H.
    - rewrite Ha in Ha'. injection Ha' as <-. rewrite Hf in Hf'. discriminate Hf'.
  Qed.

  (* ---- (A2) a successful Accept of a found Follow: verified, and exactly one store - following rewritten ---- *)
  Theorem accept_verified_effects cfg inbox a actor follow_id :
    env (EDb "ActorForInbox" [JStr inbox]) = AIri actor ->
    res_env env (find_my_follow inbox actor (elems0 "object" a)) = Ok (Some follow_id) ->
    res_env env (accept cfg inbox a) = Ok tt ->
    exists al t accept_ids follow_objs following,
      elems "actor" a = Some al
      /\ env (EDb "Get" [JStr follow_id]) = AJson t
      /\ follow_verified actor al t accept_ids follow_objs
      /\ env (EDb "Following" [JStr actor]) = AJson following
      /\ S env (accept cfg inbox a) =
           [EDb "Update" [canon (set_elems "items" (map JStr (rev accept_ids) ++ elems0 "items" following) following)]].
  Proof.
    intros Ha Hf Hr.
    destruct (accept_split cfg inbox a) as [[_ [Ho|[Hno|[actor' [Ha' Hf']]]]]|[actor' [follow_id' [Ho [Ha' [Hf' [Hs Hres]]]]]]].
    - (* no object: then find_my_follow ran on no elements and found nothing *)
      exfalso. unfold object_required in Ho. unfold elems0 in Hf.
      destruct (elems "object" a) as [[|e r]|]; try discriminate Ho; cbn [find_my_follow] in Hf; discriminate Hf.
    - destruct (Hno tt Hr).
    - rewrite Ha in Ha'. injection Ha' as <-. rewrite Hf in Hf'. discriminate Hf'.
    - rewrite Ha in Ha'. injection Ha' as <-. rewrite Hf in Hf'. injection Hf' as <-.
      rewrite Hs. rewrite Hr in Hres. clear Hs Hr.
      unfold accept_found in *. destruct (elems "actor" a) as [[|e0 r0]|]; try discriminate Hres.
      set (al := e0 :: r0) in *.
      rewrite res_env_bindr in Hres. rewrite S_bindr, accept_verify_stores. cbn [app].
      destruct (res_env env (accept_verify actor follow_id al)) as [u|e|p] eqn:Ev; try discriminate Hres.
      destruct (accept_verify_ok actor follow_id al u Ev) as [t [accept_ids [follow_objs [Hg Hv]]]].
      destruct (res_env env (accept_update actor al)) as [u1|e|p] eqn:Eu; try discriminate Hres. destruct u1.
      destruct (accept_update_ok actor al Eu) as [following [ids [Hfo [Hids Hs]]]].
      exists al, t, accept_ids, follow_objs, following.
      split; [reflexivity|]. split; [exact Hg|]. split; [exact Hv|]. split; [exact Hfo|].
      destruct Hv as [_ [_ [Hi _]]]. rewrite Hi in Hids. injection Hids as <-. exact Hs.
  Qed.

  (* ---- (A3) a Follow was found, but the stored value does not verify: an error, nothing stored, nothing sent ---- *)
  Theorem accept_unverified_nothing cfg inbox a actor follow_id :
    env (EDb "ActorForInbox" [JStr inbox]) = AIri actor ->
    res_env env (find_my_follow inbox actor (elems0 "object" a)) = Ok (Some follow_id) ->
    ~ (exists al t accept_ids follow_objs,
         elems "actor" a = Some al /\ env (EDb "Get" [JStr follow_id]) = AJson t /\ follow_verified actor al t accept_ids follow_objs) ->
    (forall u, res_env env (accept cfg inbox a) <> Ok u) /\ S env (accept cfg inbox a) = [].
  Proof.
    intros Ha Hf Hnv.
    destruct (accept_split cfg inbox a) as [[Hs [Ho|[Hno|[actor' [Ha' Hf']]]]]|[actor' [follow_id' [Ho [Ha' [Hf' [Hs Hres]]]]]]].
    - exfalso. unfold object_required in Ho. unfold elems0 in Hf.
      destruct (elems "object" a) as [[|e r]|]; try discriminate Ho; cbn [find_my_follow] in Hf; discriminate Hf.
    - split; [exact Hno|exact Hs].
    - rewrite Ha in Ha'. injection Ha' as <-. rewrite Hf in Hf'. discriminate Hf'.
    - rewrite Ha in Ha'. injection Ha' as <-. rewrite Hf in Hf'. injection Hf' as <-.
      rewrite Hs, Hres. clear Hs Hres.
      unfold accept_found. destruct (elems "actor" a) as [[|e0 r0]|] eqn:Eal;
        [split; [intros u H; discriminate H|reflexivity]| |split; [intros u H; discriminate H|reflexivity]].
      set (al := e0 :: r0) in *.
      rewrite res_env_bindr, S_bindr, accept_verify_stores. cbn [app].
      destruct (res_env env (accept_verify actor follow_id al)) as [u|e|p] eqn:Ev;
        [|split; [intros u H; discriminate H|reflexivity]|split; [intros u H; discriminate H|reflexivity]].
      exfalso. apply Hnv. destruct (accept_verify_ok actor follow_id al u Ev) as [t [accept_ids [follow_objs [Hg Hv]]]].
      exists al, t, accept_ids, follow_objs. split; [reflexivity|]. split; [exact Hg|exact Hv].
  Qed.

  (* ---- (A4) Undo, Reject, Block: nothing stored, nothing sent, for every environment ---- *)
  Theorem undo_stores_nothing cfg inbox a : S env (undo cfg inbox a) = [].
  Proof.
    unfold undo. destruct (object_required a); [reflexivity|].
    rewrite S_bindr. rewrite (S_only env (must_actors_match inbox a)) by (apply (q_must_actors_match no_store); intros; reflexivity).
    cbn [app]. destruct (res_env env (must_actors_match inbox a)); [apply S_wrapped|reflexivity|reflexivity].
  Qed.
  Theorem reject_stores_nothing cfg a : S env (reject cfg a) = [].
  Proof. unfold reject. apply S_wrapped. Qed.
  Theorem fed_block_stores_nothing cfg a : S env (Fed.block cfg a) = [].
  Proof. unfold Fed.block. destruct (object_required a); [reflexivity|apply S_wrapped]. Qed.
End Any.

(* ================= the hypotheses are satisfiable: carol accepts alice's Follow ================= *)
Definition ax_alice := "https://h.example/alice".
Definition ax_carol := "https://c.example/carol".
Definition ax_zed := "https://z.example/zed".
Definition ax_inbox := "https://h.example/alice/inbox".
Definition ax_follow_id := "https://h.example/alice/follows/1".
Definition ax_follow : json :=
  JObj [("@context", JStr "https://www.w3.org/ns/activitystreams"); ("type", JStr "Follow"); ("id", JStr ax_follow_id);
        ("actor", JStr ax_alice); ("object", JStr ax_carol)].
Definition ax_following : json :=
  JObj [("type", JStr "Collection"); ("id", JStr "https://h.example/alice/following"); ("items", JStr "https://b.example/bob")].
(* the world: alice's inbox, her Follow of carol stored, her following collection holding bob; Dereference answers the Follow too *)
Definition ax_env (e : ev) : ans :=
  match e with
  | EDb op _ =>
      if String.eqb op "ActorForInbox" then AIri ax_alice
      else if String.eqb op "Get" then AJson ax_follow
      else if String.eqb op "Following" then AJson ax_following
      else AOk
  | EDeref _ => AJson ax_follow
  | _ => AOk
  end.
Definition ax_cfg : config :=
  {| c_social := true; c_federating := true; c_on_follow := 0; c_fed_wrapped := ["Accept"]; c_fed_other := [];
     c_soc_wrapped := []; c_soc_other := [] |}.
Definition ax_accept (by_ : string) (object : json) : json :=
  JObj [("id", JStr "https://c.example/accepts/1"); ("type", JStr "Accept"); ("actor", JStr by_); ("object", object)].

(* carol accepts, the Follow embedded *)
Example ax_accept_hyps :
  ax_env (EDb "ActorForInbox" [JStr ax_inbox]) = AIri ax_alice
  /\ res_env ax_env (find_my_follow ax_inbox ax_alice (elems0 "object" (ax_accept ax_carol ax_follow))) = Ok (Some ax_follow_id)
  /\ res_env ax_env (accept ax_cfg ax_inbox (ax_accept ax_carol ax_follow)) = Ok tt.
Proof. vm_compute. repeat split. Qed.
Example ax_accept_stores :
  S ax_env (accept ax_cfg ax_inbox (ax_accept ax_carol ax_follow)) =
    [EDb "Update" [canon (JObj [("type", JStr "Collection"); ("id", JStr "https://h.example/alice/following");
                                ("items", JArr [JStr ax_carol; JStr "https://b.example/bob"])])]].
Proof. vm_compute. reflexivity. Qed.
(* the same with the Follow named by its IRI (it is dereferenced, then the stored one is verified) *)
Example ax_accept_by_iri :
  res_env ax_env (accept ax_cfg ax_inbox (ax_accept ax_carol (JStr ax_follow_id))) = Ok tt
  /\ S ax_env (accept ax_cfg ax_inbox (ax_accept ax_carol (JStr ax_follow_id))) =
       [EDb "Update" [canon (JObj [("type", JStr "Collection"); ("id", JStr "https://h.example/alice/following");
                                   ("items", JArr [JStr ax_carol; JStr "https://b.example/bob"])])]].
Proof. vm_compute. split; reflexivity. Qed.

(* zed, whom alice never followed, sends an Accept of that Follow: found, not verified - an error and nothing stored *)
Example ax_accept_zed :
  res_env ax_env (find_my_follow ax_inbox ax_alice (elems0 "object" (ax_accept ax_zed ax_follow))) = Ok (Some ax_follow_id)
  /\ res_env ax_env (accept ax_cfg ax_inbox (ax_accept ax_zed ax_follow)) = Err EGeneric
  /\ S ax_env (accept ax_cfg ax_inbox (ax_accept ax_zed ax_follow)) = [].
Proof. vm_compute. repeat split. Qed.
(* and the hypothesis of accept_unverified_nothing holds there: no reading of the stored Follow verifies for zed *)
Example ax_zed_not_verified :
  ~ (exists al t accept_ids follow_objs,
       elems "actor" (ax_accept ax_zed ax_follow) = Some al /\ ax_env (EDb "Get" [JStr ax_follow_id]) = AJson t
       /\ follow_verified ax_alice al t accept_ids follow_objs).
Proof.
  intros [al [t [accept_ids [follow_objs [Hal [Hg [_ [_ [Hi [Ho Hall]]]]]]]]]].
  vm_compute in Hal. injection Hal as <-. vm_compute in Hg. injection Hg as <-.
  vm_compute in Hi. injection Hi as <-. vm_compute in Ho. injection Ho as <-. vm_compute in Hall. discriminate Hall.
Qed.

(* an Accept of something that is not a Follow of alice's: nothing *)
Example ax_accept_other :
  res_env ax_env (find_my_follow ax_inbox ax_alice (elems0 "object" (ax_accept ax_carol
      (JObj [("type", JStr "Follow"); ("id", JStr "https://z.example/f9"); ("actor", JStr ax_zed); ("object", JStr ax_carol)])))) = Ok None.
Proof. vm_compute. reflexivity. Qed.

Print Assumptions accept_no_follow_nothing.
Print Assumptions accept_verified_effects.
Print Assumptions accept_unverified_nothing.
Print Assumptions undo_stores_nothing.
Print Assumptions reject_stores_nothing.
Print Assumptions fed_block_stores_nothing.
