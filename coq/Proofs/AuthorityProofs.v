(* C06: a federated peer cannot act beyond its authority. *)
From Coq Require Import String List Bool Arith.
From Verif Require Import Base.ListX Base.Json Base.Free Pub.Events Pub.Calls Pub.Value Pub.EffectSpec Pub.Util Pub.SideEffect Pub.Fed Pub.Monitors.
From Verif Require Import Proofs.ValueProofs Proofs.HiddenProofs Proofs.OnlyProofs Proofs.OrderProofs Proofs.EffectProofs Proofs.FedProofs.
Import ListNotations.
Open Scope string_scope.
Open Scope list_scope.

Local Opaque has_prop known_type admits T P.

(* ---- Update / Delete: every object id has the host of the activity id ---- *)
Lemma origin_loop_ok host : forall l, origin_loop host l = Ok tt ->
  Forall (fun e => exists i, to_id "object" e = Ok i /\ is_nil i = false /\ host_of i = host) l.
Proof.
  induction l as [|e r IH]; intros H; [constructor|]. simpl in H.
  destruct (to_id "object" e) as [i|x|s] eqn:Ei; try discriminate.
  destruct (is_nil i) eqn:En; [discriminate|]. destruct (String.eqb host (host_of i)) eqn:Eh; [|discriminate].
  apply String.eqb_eq in Eh. constructor; [exists i; split; [exact Ei|split; [exact En|symmetry; exact Eh]]|apply IH; exact H].
Qed.
Lemma origin_loop_complete host : forall l,
  Forall (fun e => exists i, to_id "object" e = Ok i /\ is_nil i = false /\ host_of i = host) l -> origin_loop host l = Ok tt.
Proof.
  induction 1 as [|e r [i [Ei [En Eh]]] _ IH]; [reflexivity|]. simpl. rewrite Ei, En, Eh, String.eqb_refl. exact IH.
Qed.

Theorem origin_match_char a : must_origin_match a = Ok tt <->
  exists origin, get_id a = Ok origin /\ is_nil origin = false /\
    Forall (fun e => exists i, to_id "object" e = Ok i /\ is_nil i = false /\ host_of i = host_of origin) (elems0 "object" a).
Proof.
  unfold must_origin_match, elems0. split.
  - intros H. destruct (get_id a) as [origin|x|s]; try discriminate. destruct (is_nil origin) eqn:En; [discriminate|].
    exists origin. split; [reflexivity|]. split; [exact En|].
    destruct (elems "object" a) as [[|e l]|]; [constructor| |constructor]. apply origin_loop_ok. exact H.
  - intros [origin [Hg [En Hf]]]. rewrite Hg, En. destruct (elems "object" a) as [[|e l]|]; [reflexivity| |reflexivity].
    apply origin_loop_complete. exact Hf.
Qed.

Section Origin.
  Variable cfg : config.
  Ltac side := try reflexivity; intros; try reflexivity; try assumption.

  (* for EVERY environment: when the origins do not match, nothing is created, updated, deleted or sent and the callback fails *)
  Theorem update_needs_origin a : must_origin_match a <> Ok tt ->
    only nomod (update cfg a) /\ leaves (fun r => match r with Ok _ => False | _ => True end) (update cfg a).
  Proof.
    intros H. unfold update. destruct (object_required a); [split; exact I|].
    destruct (must_origin_match a) as [[]|e|s]; [congruence|split; exact I|split; exact I].
  Qed.
  Theorem delete_needs_origin a : must_origin_match a <> Ok tt ->
    only nomod (delete cfg a) /\ leaves (fun r => match r with Ok _ => False | _ => True end) (delete cfg a).
  Proof.
    intros H. unfold delete. destruct (object_required a); [split; exact I|].
    destruct (must_origin_match a) as [[]|e|s]; [congruence|split; exact I|split; exact I].
  Qed.
End Origin.

(* ---- the block check is asked about the id of every actor, IRI or embedded ---- *)
Lemma actor_iris_char : forall l ids, actor_iris l = Ok ids ->
  Forall2 (fun e i => (e_is_iri e = true /\ i = e_iri e) \/ (e_is_iri e = false /\ exists t, e_type "actor" e = Some t /\ get_id t = Ok i)) l ids.
Proof.
  induction l as [|e r IH]; intros ids H; simpl in H; [inversion H; constructor|].
  destruct (e_is_iri e) eqn:Ei.
  - destruct (actor_iris r) as [is|x|s]; try discriminate. inversion H; subst ids. constructor; [left; split; [exact Ei|reflexivity]|apply IH; reflexivity].
  - destruct (e_type "actor" e) as [t|] eqn:Et; [|discriminate]. destruct (get_id t) as [i|x|s] eqn:Eg; try discriminate.
    destruct (actor_iris r) as [is|x|s]; try discriminate. inversion H; subst ids.
    constructor; [right; split; [exact Ei|exists t; split; [exact Et|exact Eg]]|apply IH; reflexivity].
Qed.

Theorem blocked_asked_about_all a tr r : runs (authorize_post_inbox a) tr r ->
  forall n args x, In (EApp n args, x) tr -> n = "Blocked" /\
    exists l ids, elems "actor" a = Some l /\ actor_iris l = Ok ids /\ args = [JArr (map JStr ids)].
Proof.
  unfold authorize_post_inbox. destruct (elems "actor" a) as [l|]; [|intros [-> _] n args x []].
  unfold bindr, lift. destruct (actor_iris l) as [ids|e|s] eqn:Ea; cbn [bind]; try (intros [-> _] n args x []).
  unfold app, call. cbn [bind map canon]. intros H n args x Hin.
  destruct tr as [|[e0 x0] tr]; [destruct H|]. destruct H as [-> H].
  assert (Htail : forall p, In p tr -> match fst p with EApp _ _ => False | _ => True end).
  { destruct x0; simpl in H; try (destruct H as [-> _]; intros p []).
    destruct b; simpl in H.
    - unfold write_header, call in H. simpl in H. destruct tr as [|[e1 x1] tr]; [destruct H|]. destruct H as [-> [-> _]].
      intros p [<-|[]]. exact I.
    - destruct H as [-> _]. intros p []. }
  destruct Hin as [Hin|Hin].
  - inversion Hin; subst. split; [reflexivity|]. exists l, ids. split; [reflexivity|]. split; [exact Ea|].
    f_equal. f_equal. clear. induction ids as [|i r IH]; [reflexivity|]. simpl. rewrite IH. reflexivity.
  - specialize (Htail _ Hin). destruct Htail.
Qed.

(* ---- Accept: for EVERY environment, following is updated only when the Follow stored locally under the referenced id
        was made by this inbox's actor and names every accepting actor among its objects ---- *)
Section AcceptWp.
  Variable cfg : config.
  Variable inbox : string.
  Variable al : list json.
  Notation step := (acc_step al).

  Lemma awp_bindr {A B} (m : prog (res A)) (f : A -> prog (res B)) s (Q : astate -> res B -> Prop) :
    wp step m s (fun s' r => match r with Ok a => wp step (f a) s' Q | Err e => Q s' (Err e) | Panic p => Q s' (Panic p) end) ->
    wp step (bindr m f) s Q.
  Proof. intros H. unfold bindr. apply wp_bind. eapply wp_mono; [|exact H]. intros s' [a|e|p] H'; exact H'. Qed.
  Lemma awp_lock i s (Q : astate -> res unit -> Prop) : (forall r, Q s r) -> wp step (lock i) s Q.
  Proof. intros H. unfold lock, call. cbn [bind wp acc_step]. intros x. destruct x; apply H. Qed.
  Lemma awp_unlock i s (Q : astate -> unit -> Prop) : Q s tt -> wp step (unlock i) s Q.
  Proof. intros H. unfold unlock, call. cbn [bind wp acc_step]. intros x. exact H. Qed.

  Definition acc_quiet (e : ev) : bool := match e with EDb _ _ | EBatchDeliver _ _ => false | _ => true end.
  Lemma acc_frame {A} (m : prog A) s (Q : astate -> A -> Prop) : only acc_quiet m -> (forall a, Q s a) -> wp step m s Q.
  Proof.
    intros Hm HQ. apply (only_wp acc_quiet step (fun s' => s' = s)); auto.
    - intros s0 e x -> He. exists s. destruct e; simpl in *; try discriminate; split; reflexivity.
    - intros s' a ->. apply HQ.
  Qed.

  Lemma q_find_my_follow_quiet actor : forall l, only acc_quiet (find_my_follow inbox actor l).
  Proof. intros l. apply q_find_my_follow; reflexivity. Qed.

  Theorem acc_accept a : elems "actor" a = Some al -> wp step (accept cfg inbox a) a0 (fun _ _ => True).
  Proof.
    intros Hal. unfold accept. apply awp_bindr.
    destruct (object_required a).
    { cbn [wp ok]. apply acc_frame; [apply q_wrapped; reflexivity|intros; exact I]. }
    assert (Hw : forall s, wp step (wrapped cfg "Accept" a) s (fun _ _ => True)) by (intros s; apply acc_frame; [apply q_wrapped; reflexivity|intros; exact I]).
    apply awp_bindr. apply awp_lock. intros [_|e|p]; try exact I.
    apply wp_bind. unfold db_iri, db, call. cbn [bind wp map]. intros x.
    change (acc_step al a0 (EDb "ActorForInbox" [canon (JStr inbox)]) x) with (Some {| a_me := match x with AIri i => Some i | _ => None end; a_got := None |}).
    cbn iota. assert (Hx : forall s, wp step (match x with AIri i => ok i | _ => fail EGeneric end) s
               (fun s' r => s' = s)) by (intros s; destruct x; reflexivity).
    destruct x; cbn [wp ok fail]; try (apply wp_bind; apply awp_unlock; cbn [wp lift]; exact I).
    apply wp_bind. apply awp_unlock. apply awp_bindr. cbn [lift wp].
    apply awp_bindr. apply acc_frame; [apply q_find_my_follow_quiet|]. intros [[follow_id|]|e|p]; try exact I; [|apply Hw].
    rewrite Hal. destruct al as [|a1 al'] eqn:Eal; [exact I|]. rewrite <- Eal in *.
    apply awp_bindr. unfold with_lock_deferred.
    apply awp_bindr. apply awp_lock. intros [_|e|p]; try exact I.
    apply wp_bind. apply awp_bindr. unfold db_json, db, call. cbn [bind wp map]. intros y.
    change (acc_step al ?s (EDb "Get" [canon (JStr follow_id)]) y) with (Some {| a_me := a_me s; a_got := match y with AJson j => Some j | _ => None end |}).
    cbn iota. cbn [a_me].
    destruct y; cbn [wp ok fail]; try (apply wp_bind; apply awp_unlock; exact I).
    destruct (negb (is_or_extends (type_name j) "Follow")) eqn:Ef; [cbn [wp fail]; apply wp_bind; apply awp_unlock; exact I|].
    apply awp_bindr. cbn [lift wp].
    destruct (match elems "actor" j with None => Ok false | Some l => names_me "actor" i l end) as [mine|e|p] eqn:Em; try (apply wp_bind; apply awp_unlock; exact I).
    destruct mine; cbn [negb]; [|cbn [wp fail]; apply wp_bind; apply awp_unlock; exact I].
    apply awp_bindr. cbn [lift wp].
    destruct (to_ids "actor" al) as [ids|e|p] eqn:Ei; try (apply wp_bind; apply awp_unlock; exact I).
    apply awp_bindr. cbn [lift wp].
    destruct (ids_of "object" j) as [objs|e|p] eqn:Eo; try (apply wp_bind; apply awp_unlock; exact I).
    destruct (forallb (fun i0 => mem i0 objs) ids) eqn:Eall; cbn [wp ok fail]; [|apply wp_bind; apply awp_unlock; exact I].
    apply wp_bind. apply awp_unlock. cbn [wp].
    (* verified: now following is read and updated *)
    apply awp_bindr. apply awp_lock. intros [_|e|p]; try exact I.
    intros z.
    change (acc_step al ?s (EDb "Following" ?args) z) with (Some s). cbn iota.
    assert (Hv : follow_verified i j al = true).
    { unfold follow_verified. apply negb_false_iff in Ef. rewrite Ef, Em, Ei, Eo, Eall. reflexivity. }
    destruct z; cbn [bind ok fail]; try (apply wp_bind; apply awp_unlock; cbn [wp fail]; exact I).
    apply wp_bind. unfold db_unit, db, call. cbn [bind wp map]. intros u.
    change (acc_step al ?s (EDb "Update" ?args) u) with
      (match a_me s, a_got s with Some me, Some t => if follow_verified me t al then Some s else None | _, _ => None end).
    cbn [a_me a_got]. rewrite Hv.
    destruct u; cbn [wp ok fail]; apply wp_bind; apply awp_unlock; cbn [wp lift]; try exact I; apply Hw.
  Qed.
End AcceptWp.

(* ---- Undo: for EVERY environment, when the check succeeds every undone activity was dereferenced and every one of its
        actors is an actor of the Undo ---- *)
Section UndoWp.
  Variable box : string.
  Variable aa : list string.
  Definition actors_within (t : json) : Prop :=
    exists l ids, elems "actor" t = Some l /\ to_ids "actor" l = Ok ids /\ all_in ids aa = true.

  Lemma swp_bindr {A B} (m : prog (res A)) (f : A -> prog (res B)) s (Q : list json -> res B -> Prop) :
    wp seen_step m s (fun s' r => match r with Ok a => wp seen_step (f a) s' Q | Err e => Q s' (Err e) | Panic p => Q s' (Panic p) end) ->
    wp seen_step (bindr m f) s Q.
  Proof. intros H. unfold bindr. apply wp_bind. eapply wp_mono; [|exact H]. intros s' [a|e|p] H'; exact H'. Qed.

  Ltac dead := cbn [wp fail ok lift ret]; cbv beta iota; let Hx := fresh in intros Hx; discriminate Hx.
  Lemma undo_one e s : Forall actors_within s ->
    wp seen_step (actors_match_one box aa e) s (fun s' r => r = Ok tt -> length s' = S (length s) /\ Forall actors_within s').
  Proof.
    intros Hs. unfold actors_match_one. apply swp_bindr. cbn [lift wp].
    destruct (to_id "object" e) as [iri|x|p]; try dead.
    apply swp_bindr. unfold fetch. apply swp_bindr. unfold new_transport, call. cbn [bind wp seen_step]. intros x.
    destruct x; try dead. cbn [wp ok]. cbv beta iota.
    unfold dereference, call. cbn [bind wp]. intros y.
    destruct y; cbn [seen_step bind ret]; try dead.
    destruct (to_type j) as [t|x|p] eqn:Et; try dead. cbn [wp ret lift]. cbv beta iota.
    destruct (negb (vhas t "actor")); [dead|].
    destruct (elems "actor" t) as [l|] eqn:El; [|dead].
    apply swp_bindr. cbn [lift wp]. destruct (to_ids "actor" l) as [ids|x|p] eqn:Ei; try dead.
    destruct (all_in ids aa) eqn:Ea; [|dead]. cbn [wp ok].
    intros _. split; [reflexivity|]. constructor; [exists l, ids; repeat split; assumption|exact Hs].
  Qed.

  Lemma undo_all : forall l s, Forall actors_within s ->
    wp seen_step (foreach l (actors_match_one box aa)) s (fun s' r => r = Ok tt -> length s' = length l + length s /\ Forall actors_within s').
  Proof.
    induction l as [|e r IH]; intros s Hs; [intros _; split; [reflexivity|exact Hs]|]. cbn [foreach].
    apply swp_bindr. eapply wp_mono; [|apply undo_one; exact Hs].
    intros s1 [u|x|p] H1; try (intros Hx; discriminate Hx). destruct u. destruct (H1 eq_refl) as [L1 F1].
    eapply wp_mono; [|apply IH; exact F1]. intros s2 r2 H2 Hr. destruct (H2 Hr) as [L2 F2]. split; [simpl; rewrite L2, L1; apply Nat.add_succ_r|exact F2].
  Qed.
End UndoWp.

Theorem undo_examines box a al aa : elems "actor" a = Some al -> to_ids "actor" al = Ok aa ->
  wp seen_step (must_actors_match box a) [] (fun s r => r = Ok tt -> length s = length (elems0 "object" a) /\ Forall (actors_within aa) s).
Proof.
  intros Ha Hi. unfold must_actors_match. rewrite Ha. apply swp_bindr. rewrite Hi. cbn [lift wp].
  eapply wp_mono; [|apply undo_all; constructor]. intros s r H Hr. destruct (H Hr) as [L F]. split; [rewrite L; apply Nat.add_0_r|exact F].
Qed.
