(* The literal codecs of streams/values as serialise (deserialise x), and the shipped instance of the document codec. *)
From Coq Require Import String Ascii List Bool Arith ZArith.
From Verif Require Import Base.ListX Base.Json Base.Time Vocab.Tables Gen.TablesShipped Streams.Literals Streams.Codec.
Import ListNotations.
Open Scope string_scope.

(* net/url accepts far more than this; the generator of the correspondence stays inside: a scheme, then no space / control character *)
Fixpoint scheme_chars (l : list ascii) : bool :=
  match l with
  | c :: r => let n := nat_of_ascii c in
              if Nat.eqb n 58 then true
              else if ((97 <=? n) && (n <=? 122) || (65 <=? n) && (n <=? 90) || (48 <=? n) && (n <=? 57) || Nat.eqb n 43 || Nat.eqb n 45 || Nat.eqb n 46)%nat then scheme_chars r else false
  | [] => false
  end.
Definition url_ok (s : string) : bool :=
  match list_ascii_of_string s with
  | c :: r => let n := nat_of_ascii c in
              ((97 <=? n) && (n <=? 122) || (65 <=? n) && (n <=? 90))%nat && scheme_chars r &&
              forallb (fun c => let n := nat_of_ascii c in (33 <=? n) && (n <=? 126) && negb (Nat.eqb n 34) && negb (Nat.eqb n 60) && negb (Nat.eqb n 62) && negb (Nat.eqb n 92) && negb (Nat.eqb n 94) && negb (Nat.eqb n 96) && negb (Nat.eqb n 123) && negb (Nat.eqb n 124) && negb (Nat.eqb n 125))%nat (c :: r)
  | [] => false
  end.
Definition norm_iri (s : string) : string := s.

Open Scope Z_scope.
Definition rfc3339_off (unix off : Z) : string :=
  if off =? 0 then rfc3339_utc unix else
  let local := rfc3339_utc (unix + off) in
  (* replace the trailing Z by the offset *)
  let body := substring 0 (String.length local - 1) local in
  let a := Z.abs off in
  let sign : string := if off <? 0 then "-" else "+" in
  let hh := pad2 (a / 3600) in let mm := pad2 ((a mod 3600) / 60) in
  (body ++ sign ++ hh ++ ":" ++ mm)%string.

(* SerializeDuration on a whole number of seconds (float arithmetic on hours is exact in this range) *)
Fixpoint z_digits (fuel : nat) (n : Z) (acc : string) : string :=
  match fuel with
  | O => acc
  | S f => let acc' := String (digit_char (n mod 10)) acc in if n <? 10 then acc' else z_digits f (n / 10) acc'
  end.
Definition z_str (n : Z) : string := z_digits 20 n "".
Definition print_duration (ns : Z) : string :=
  let neg := ns <? 0 in
  let secs := Z.abs ns / 1000000000 in
  let y := secs / 31536000 in let r1 := secs - y * 31536000 in
  let mo := r1 / 2592000 in let r2 := r1 - mo * 2592000 in
  let d := r2 / 86400 in let r3 := r2 - d * 86400 in
  let h := r3 / 3600 in let r4 := r3 - h * 3600 in
  let mi := r4 / 60 in let sc := r4 - mi * 60 in
  let part (n : Z) (u : string) : string := if 1 <=? n then String.append (z_str n) u else "" in
  let head : string := if neg then "-P" else "P" in
  let tpart : string := if 0 <? r3 then String.append "T" (String.append (part h "H") (String.append (part mi "M") (part sc "S"))) else "" in
  String.append head (String.append (part y "Y") (String.append (part mo "M") (String.append (part d "D") tpart))).

Definition norm (kind : string) (e : json) : option json :=
  if String.eqb kind "@string" || String.eqb kind "@bcp47" || String.eqb kind "@rfc2045" || String.eqb kind "@rfc5988" then
    match e with JStr _ => Some e | _ => None end
  else if String.eqb kind "@anyuri" then match e with JStr s => if url_ok s then Some (JStr (norm_iri s)) else None | _ => None end
  else if String.eqb kind "@boolean" then
    match e with JBool _ => Some e | JNum 0 => Some (JBool false) | JNum 1 => Some (JBool true) | _ => None end
  else if String.eqb kind "@float" then match e with JNum _ => Some e | _ => None end
  else if String.eqb kind "@nonnegativeinteger" then match e with JNum z => if 0 <=? z then Some e else None | _ => None end
  else if String.eqb kind "@langstring" then if is_langstring e then Some e else None
  else if String.eqb kind "@datetime" then
    match e with JStr s => match parse_datetime s with Some (u, off) => Some (JStr (rfc3339_off u off)) | None => None end | _ => None end
  else if String.eqb kind "@duration" then
    match e with JStr s => match parse_duration s with DOk ns => Some (JStr (print_duration ns)) | _ => None end | _ => None end
  else None.

Definition rt_shipped (doc : json) : option json := rt_doc types_shipped props_shipped url_ok norm_iri norm 8 doc.
Definition cx_shipped (doc : json) : option (list string) := cx_doc types_shipped props_shipped url_ok norm_iri norm 8 doc.
