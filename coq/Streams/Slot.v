(* Model of a generated functional property / of one iterator element: a set
   of representation slots (one per value kind, plus iri and unknown), a
   clear() that resets the slots listed in the table, and setters that clear
   first and then fill their own slot. *)
From Coq Require Import String List Bool.
From Verif Require Import Base.ListX.
Import ListNotations.
Open Scope string_scope.

Section Slot.
  Variable V : Type.
  Definition st := list (string * option V).

  Definition clear (cl : list string) (s : st) : st :=
    map (fun fv => if mem (fst fv) cl then (fst fv, None) else fv) s.
  Definition assign (f : string) (v : V) (s : st) : st :=
    map (fun fv => if String.eqb (fst fv) f then (fst fv, Some v) else fv) s.
  Definition set_slot (cl : list string) (f : string) (v : V) (s : st) : st := assign f v (clear cl s).
  Definition get (f : string) (s : st) : option V := match assoc f s with Some o => o | None => None end.
  Definition present (f : string) (s : st) : bool := match get f s with Some _ => true | None => false end.

  Inductive sop := SSet (f : string) (v : V) | SClear.
  Definition sstep (cl : list string) (s : st) (o : sop) : st :=
    match o with SSet f v => set_slot cl f v s | SClear => clear cl s end.

  (* what a single slot should report after a history: the last operation decides *)
  Definition last_set (ops : list sop) : option (string * V) :=
    match rev ops with SSet f v :: _ => Some (f, v) | _ => None end.
End Slot.
