(* Model of a generated non-functional property: a slice of iterator cells,
   each carrying its own index (myIdx) next to its value, with the mutators
   written as the generator's template has them (astool/gen/nonfuncprop.go):
   Append numbers the new cell Len(); Prepend, Insert and Remove re-number from
   the affected position to the end; Set re-creates the cell in place; Swap
   exchanges the two slice slots (whether it re-numbers them is read from the
   template text: see swap_renumbers).  Iteration follows the cell's own index:
   Next() = parent.At(myIdx+1), Prev() = parent.At(myIdx-1). *)
From Coq Require Import List Arith Lia Bool.
Import ListNotations.

Section Container.
  Variable A : Type.
  Record cell := mk { idx : nat; val : A }.

  Definition vals (l : list cell) : list A := map val l.

  Fixpoint renum (i : nat) (l : list cell) : list cell :=
    match l with [] => [] | c :: r => mk i (val c) :: renum (S i) r end.

  Definition append (v : A) (l : list cell) : list cell := l ++ [mk (length l) v].
  Definition prepend (v : A) (l : list cell) : list cell := mk 0 v :: renum 1 l.
  Definition insert (k : nat) (v : A) (l : list cell) : list cell := firstn k l ++ renum k (mk k v :: skipn k l).
  Definition set (k : nat) (v : A) (l : list cell) : list cell := firstn k l ++ mk k v :: skipn (S k) l.
  Definition remove (k : nat) (l : list cell) : list cell := firstn k l ++ renum k (skipn (S k) l).

  (* exchange slots i and j; [fix_idx] says whether the cells' own indices are exchanged back *)
  Definition put (k : nat) (c : cell) (l : list cell) : list cell := firstn k l ++ c :: skipn (S k) l.
  Definition swap (fix_idx : bool) (i j : nat) (l : list cell) : list cell :=
    match nth_error l i, nth_error l j with
    | Some ci, Some cj =>
        let ci' := if fix_idx then mk j (val ci) else ci in
        let cj' := if fix_idx then mk i (val cj) else cj in
        put j ci' (put i cj' l)
    | _, _ => l   (* Go panics: index out of range; excluded by the theorems' hypotheses *)
    end.

  (* iteration as the generated iterators do it *)
  Fixpoint walk_fwd (fuel : nat) (l : list cell) (cur : option cell) : list A :=
    match fuel, cur with
    | S f, Some c => val c :: walk_fwd f l (if S (idx c) <? length l then nth_error l (S (idx c)) else None)
    | _, _ => []
    end.
  Definition forward (l : list cell) : list A := walk_fwd (length l) l (nth_error l 0).

  Fixpoint walk_bwd (fuel : nat) (l : list cell) (cur : option cell) : list A :=
    match fuel, cur with
    | S f, Some c => val c :: walk_bwd f l (match idx c with 0 => None | S p => nth_error l p end)
    | _, _ => []
    end.
  Definition backward (l : list cell) : list A := walk_bwd (length l) l (nth_error l (length l - 1)).

  (* invariant: every cell's own index is its position *)
  Fixpoint wf_from (i : nat) (l : list cell) : Prop :=
    match l with [] => True | c :: r => idx c = i /\ wf_from (S i) r end.
  Definition Inv (l : list cell) : Prop := wf_from 0 l.

  (* ---- the plain-list specification ---- *)
  Inductive op := OAppend (v : A) | OPrepend (v : A) | OInsert (k : nat) (v : A) | OSet (k : nat) (v : A) | ORemove (k : nat) | OSwap (i j : nat).

  Definition put_l {B} (k : nat) (x : B) (l : list B) : list B := firstn k l ++ x :: skipn (S k) l.
  Definition step_list (l : list A) (o : op) : list A :=
    match o with
    | OAppend v => l ++ [v]
    | OPrepend v => v :: l
    | OInsert k v => firstn k l ++ v :: skipn k l
    | OSet k v => put_l k v l
    | ORemove k => firstn k l ++ skipn (S k) l
    | OSwap i j => match nth_error l i, nth_error l j with Some a, Some b => put_l j a (put_l i b l) | _, _ => l end
    end.
  Definition step (fix_idx : bool) (l : list cell) (o : op) : list cell :=
    match o with
    | OAppend v => append v l | OPrepend v => prepend v l | OInsert k v => insert k v l
    | OSet k v => set k v l | ORemove k => remove k l | OSwap i j => swap fix_idx i j l
    end.
  (* indices the Go code would accept without panicking *)
  Definition in_range (n : nat) (o : op) : bool :=
    match o with
    | OAppend _ | OPrepend _ => true
    | OInsert k _ => k <=? n
    | OSet k _ | ORemove k => k <? n
    | OSwap i j => (i <? n) && (j <? n)
    end.
  Fixpoint ops_in_range (n : nat) (ops : list op) : bool :=
    match ops with
    | [] => true
    | o :: r => in_range n o && ops_in_range (match o with OAppend _ | OPrepend _ | OInsert _ _ => S n | ORemove _ => pred n | _ => n end) r
    end.
  Definition is_swap (o : op) : bool := match o with OSwap _ _ => true | _ => false end.
End Container.

Arguments mk {A}. Arguments idx {A}. Arguments val {A}.
