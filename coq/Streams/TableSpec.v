(* What C12 demands of the generated tables, as decidable checks against the
   ontology-derived specification (Vocab/Spec.v). *)
From Coq Require Import String List Bool Arith.
From Verif Require Import Base.ListX Vocab.Tables Vocab.Ontology Vocab.Spec.
Import ListNotations.
Open Scope string_scope.

Section S.
  Variable ont : ontology.
  Variable types : list type_row.
  Variable props : list prop_row.

  Definition oprop (n : string) : option oprop_row := find_row o_name n (oprops ont).
  Definition prow (n : string) : option prop_row := find_row p_name n props.

  Definition natural (n : string) : bool :=
    match oprop n with Some o => o_natural o | None => false end.

  (* the struct's properties are exactly the ontology's *)
  Definition type_props_ok (t : type_row) : bool :=
    set_eq (t_fields t) (props_of_type ont (t_name t)) && nodupb (t_fields t) &&
    list_eqb (t_deser t) (t_fields t) && list_eqb (t_ser t) (t_fields t) &&
    Bool.eqb (t_typeless t) (is_typeless ont (t_name t)).

  (* a member is "known" (never kept as unknown) iff it is a property of the type or its Map spelling *)
  Definition known_spec (t : type_row) : list string :=
    flat_map (fun f => if natural f then [f; f ++ "Map"] else [f]) (t_fields t).
  Definition known_keys_ok (t : type_row) : bool :=
    set_eq (t_known t) (known_spec t) && nodupb (t_known t).

  Definition member_kinds (p : prop_row) : list string := map (fun m => snd (fst (fst m))) (p_members p).

  (* kinds demanded by the ontology; id and type are JSON-LD's own *)
  Definition kinds_spec (n : string) : option (list string * bool * bool) :=   (* kinds, functional, natural *)
    if String.eqb n "id" then Some (["@anyuri"], true, false)
    else if String.eqb n "type" then Some (["@anyuri"; "@string"], false, false)
    else match oprop n with
         | Some o => Some (kinds_of_range ont (o_range o), o_functional o, o_natural o)
         | None => None
         end.

  Definition chain_ok (p : prop_row) : bool :=
    (* IRI first (an @anyuri member IS the IRI slot), every member kind tried, unknown last *)
    let ks := member_kinds p in
    let body := removelast (tl (p_deser p)) in
    (if mem "@anyuri" ks then set_eq (removelast (p_deser p)) ks
     else String.eqb (hd "" (p_deser p)) "IRI" && set_eq body ks) &&
    String.eqb (last (p_deser p) "") "UNK" &&
    nodupb (p_deser p) &&
    (* serialisation tests every member kind and the IRI slot *)
    set_eq (p_ser p) (if mem "@anyuri" ks then ks else ks ++ ["IRI"]) && nodupb (p_ser p).

  Definition prop_ok (p : prop_row) : bool :=
    match kinds_spec (p_name p) with
    | Some (ks, fn, nat) =>
        set_eq (member_kinds p) ks && nodupb (member_kinds p) &&
        Bool.eqb (p_functional p) fn && Bool.eqb (p_has_map p) nat && Bool.eqb (p_map_name p) nat &&
        chain_ok p
    | None => false
    end.

  (* C18's table obligation: clear() resets every representation (directly or through its flag) and every setter clears first *)
  Definition clear_ok (p : prop_row) : bool :=
    forallb (fun m : member_row => match m with (field, _, flag, needs) =>
               if (needs : bool) then negb (String.eqb flag "") && mem flag (p_clear p) else mem field (p_clear p) end) (p_members p) &&
    mem "unknown" (p_clear p) && (mem "iri" (p_clear p) || mem "@anyuri" (member_kinds p)) && p_setters_ok p.

  Definition tables_ok : bool :=
    forallb type_props_ok types && forallb known_keys_ok types && forallb prop_ok props &&
    nodupb (map p_name props) && nodupb (map t_name types) &&
    (* every ontology property has a generated package *)
    forallb (fun o => match prow (o_name o) with Some _ => true | None => false end) (oprops ont).
End S.
