(* C01: decode followed by encode of an ActivityStreams document, as one pass over the document (rt), driven by the
   translator's tables: which properties a type knows (t_known), which kinds an element deserialiser tries and in which
   order (p_deser), which properties consult the <name>Map spelling (p_has_map).  The member order of the output follows
   the input (the real encoder writes a Go map: order is not observable).  Literal codecs enter through `norm`
   (= serialise (deserialise x) of streams/values/<kind>), aliases are not modelled (plain @context). *)
From Coq Require Import String List Bool Arith ZArith.
From Verif Require Import Base.ListX Base.Json Vocab.Tables.
Import ListNotations.
Open Scope string_scope.
Open Scope list_scope.

Section Codec.
  Variable T : list type_row.
  Variable P : list prop_row.
  Variable url_ok : string -> bool.                       (* net/url.Parse succeeds and the scheme is not empty *)
  Variable norm_iri : string -> string.                   (* u.String() *)
  Variable norm : string -> json -> option json.          (* literal kind -> serialise (deserialise x); None = rejected *)

  Definition trow (name : string) : option type_row := find_row t_name name T.
  Definition prow (name : string) : option prop_row := find_row p_name name P.
  Definition is_literal_kind (k : string) : bool := prefix "@" k.

  (* the "type" member names this type: the string itself, or an array containing it *)
  Definition type_matches (name : string) (tv : json) : bool :=
    match tv with
    | JStr s => String.eqb s name
    | JArr l => existsb (fun e => match e with JStr s => String.eqb s name | _ => false end) l
    | _ => false
    end.

  (* which known property a member key belongs to: (property, key is the Map spelling) *)
  Definition prop_of_key (row : type_row) (k : string) : option (prop_row * bool) :=
    match find (fun pn => String.eqb pn k) (t_fields row) with
    | Some pn => match prow pn with Some p => Some (p, false) | None => None end
    | None =>
        match find (fun pn => String.eqb (String.append pn "Map") k && match prow pn with Some p => p_has_map p | None => false end) (t_fields row) with
        | Some pn => match prow pn with Some p => Some (p, true) | None => None end
        | None => None
        end
    end.

  Definition is_langstring (e : json) : bool :=
    match e with JObj m => forallb (fun kv => match snd kv with JStr _ => true | _ => false end) m | _ => false end.

  (* ---- one level, with the decoder of embedded values as a parameter ---- *)
  Section Step.
    Variable rec : type_row -> list (string * json) -> option (list (string * json)).

    (* the kinds of the chain in order: a literal kind that accepts the value, a type whose name the value's "type" carries *)
    Fixpoint try_chain (e : json) (chain : list string) : json :=
      match chain with
      | [] => e
      | k :: rest =>
          if is_literal_kind k then match norm k e with Some v => v | None => try_chain e rest end
          else match e, trow k with
               | JObj em, Some r =>
                   let tm := match assoc "type" em with Some tv => type_matches k tv | None => false end in
                   if tm || t_typeless r then
                     match rec r em with Some em' => JObj em' | None => try_chain e rest end
                   else try_chain e rest
               | _, _ => try_chain e rest
               end
      end.
    (* one element: IRI first, then the chain, else the raw value *)
    Definition rt_elem (p : prop_row) (e : json) : json :=
      match e with
      | JStr s => if mem "IRI" (p_deser p) && url_ok s then JStr (norm_iri s) else try_chain e (p_deser p)
      | _ => try_chain e (p_deser p)
      end.
    Definition rt_prop (p : prop_row) (v : json) : json :=
      if p_functional p then rt_elem p v
      else match v with
           | JArr l => match map (rt_elem p) l with [x] => x | l' => JArr l' end
           | x => rt_elem p x
           end.
    Definition out_name (p : prop_row) (v' : json) : string :=
      if p_has_map p && is_langstring v' then String.append (p_name p) "Map" else p_name p.
    Definition rt_member (row : type_row) (m : list (string * json)) (kv : string * json) : list (string * json) :=
      match prop_of_key row (fst kv) with
      | Some (p, is_map) =>
          if is_map && match assoc (p_name p) m with Some _ => true | None => false end then []   (* both spellings: the Map one is not read *)
          else let v' := rt_prop p (snd kv) in
               match v' with JNull => [] | _ => [(out_name p v', v')] end
      | None => [kv]
      end.
    Definition rt_members (row : type_row) (m : list (string * json)) : option (list (string * json)) :=
      let typed := t_typeless row || match assoc "type" m with Some tv => type_matches (t_name row) tv | None => false end in
      if negb typed then None else Some (flat_map (rt_member row m) m).
  End Step.

  Fixpoint rt_type (fuel : nat) (row : type_row) (m : list (string * json)) : option (list (string * json)) :=
    match fuel with
    | O => None
    | S f => rt_members (rt_type f) row m
    end.

  (* ---- the vocabularies a value uses: what streams.Serialize names in the rebuilt @context.  A type's JSONLDContext is its
     own vocabulary together with, for every property that holds something, the property's vocabulary and the contexts of the
     values embedded in it (decided exactly as rt_type decides what is decoded as a typed value). ---- *)
  Section Ctx.
    Variable rec : type_row -> list (string * json) -> option (list (string * json)).
    Variable crec : type_row -> list (string * json) -> list string.
    Fixpoint cx_chain (e : json) (chain : list string) : list string :=
      match chain with
      | [] => []
      | k :: rest =>
          if is_literal_kind k then match norm k e with Some _ => [] | None => cx_chain e rest end
          else match e, trow k with
               | JObj em, Some r =>
                   let tm := match assoc "type" em with Some tv => type_matches k tv | None => false end in
                   if tm || t_typeless r then
                     match rec r em with Some _ => crec r em | None => cx_chain e rest end
                   else cx_chain e rest
               | _, _ => cx_chain e rest
               end
      end.
    Definition cx_elem (p : prop_row) (e : json) : list string :=
      match e with
      | JStr s => if mem "IRI" (p_deser p) && url_ok s then [] else cx_chain e (p_deser p)
      | _ => cx_chain e (p_deser p)
      end.
    Definition cx_prop (p : prop_row) (v : json) : list string :=
      if p_functional p then cx_elem p v
      else match v with JArr l => flat_map (cx_elem p) l | x => cx_elem p x end.
    Definition cx_member (row : type_row) (m : list (string * json)) (kv : string * json) : list string :=
      match prop_of_key row (fst kv) with
      | Some (p, is_map) =>
          if is_map && match assoc (p_name p) m with Some _ => true | None => false end then []
          else match rt_prop rec p (snd kv) with JNull => [] | _ => p_vocab_uri p :: cx_prop p (snd kv) end
      | None => []
      end.
    Definition cx_members (row : type_row) (m : list (string * json)) : list string :=
      t_vocab_uri row :: flat_map (cx_member row m) m.
  End Ctx.
  Fixpoint cx_type (fuel : nat) (row : type_row) (m : list (string * json)) : list string :=
    match fuel with
    | O => []
    | S f => cx_members (rt_type f) (cx_type f) row m
    end.

  (* the top level: streams.ToType picks the type by the "type" member; streams.Serialize rebuilds @context *)
  Definition type_of_doc (m : list (string * json)) : option type_row :=
    match assoc "type" m with
    | Some (JStr s) => trow s
    | Some (JArr l) =>   (* the first entry naming a known type (documents with two known names are outside the model) *)
        match find (fun e => match e with JStr s => match trow s with Some _ => true | None => false end | _ => false end) l with
        | Some (JStr s) => trow s
        | _ => None
        end
    | _ => None
    end.
  (* streams.Serialize: @context is deleted from every map reached through maps (arrays are not entered) *)
  Fixpoint clean_maps (fuel : nat) (m : list (string * json)) : list (string * json) :=
    match fuel with
    | O => m
    | S f => map (fun kv => match snd kv with
                            | JObj n => (fst kv, JObj (clean_maps f (remove_key "@context" n)))
                            | _ => kv
                            end) m
    end.
  Definition rt_doc (fuel : nat) (doc : json) : option json :=
    match doc with
    | JObj m => match type_of_doc m with
                | Some row => match rt_type fuel row (remove_key "@context" m) with Some m' => Some (JObj (clean_maps 16 m')) | None => None end
                | None => None
                end
    | _ => None
    end.
  Definition cx_doc (fuel : nat) (doc : json) : option (list string) :=
    match doc with
    | JObj m => match type_of_doc m with
                | Some row => Some (filter (fun u => negb (String.eqb u "")) (cx_type fuel row (remove_key "@context" m)))
                | None => None
                end
    | _ => None
    end.
End Codec.
