(* Model of the generated hierarchy predicates: each is a membership test of
   the other value's type NAME in a literal list (tables read by the
   translator), exactly as <T>Extends / <T>IsExtendedBy / IsOrExtends<T> /
   <T>IsDisjointWith do. *)
From Coq Require Import String List Bool.
From Verif Require Import Base.ListX Vocab.Tables.
Import ListNotations.
Open Scope string_scope.

Section WithTables.
  Variable types : list type_row.

  Definition type_names : list string := map t_name types.
  Definition row (a : string) : option type_row := find_row t_name a types.

  (* <Vocab><A>Extends(other = b) *)
  Definition gen_extends (a b : string) : bool :=
    match row a with Some r => mem b (t_extends r) | None => false end.
  (* <A>IsExtendedBy(other = b) *)
  Definition gen_extended_by (a b : string) : bool :=
    match row a with Some r => mem b (t_extended_by r) | None => false end.
  (* IsOrExtends<A>(other = b) *)
  Definition gen_is_or_extends (a b : string) : bool :=
    match row a with Some r => String.eqb b (t_name r) || mem b (t_extended_by r) | None => false end.
  (* <A>IsDisjointWith(other = b) *)
  Definition gen_disjoint (a b : string) : bool :=
    match row a with Some r => mem b (t_disjoint r) | None => false end.
End WithTables.
