(* The container template the model in Streams/Container.v was written from:
   the bodies of the mutators / accessors of a generated non-functional property
   with the property- and kind-specific identifiers abstracted ($P = property
   struct prefix; the member assignment "<kind>Member: v," removed).  The
   translator recomputes this from all 44 non-functional properties on every
   run (and requires them to be identical); C18_template compares. *)
From Coq Require Import String List.
Import ListNotations.
Open Scope string_scope.

Definition swap_body_unfixed : string := "{ this.properties[i], this.properties[j] = this.properties[j], this.properties[i] }".
Definition swap_body_fixed : string := "{ this.properties[i], this.properties[j] = this.properties[j], this.properties[i] this.properties[i].myIdx = i this.properties[j].myIdx = j }".

Definition expected_template (swap_body : string) : list (string * string) := [
  ("Append", "{ this.properties = append(this.properties, &$PPropertyIterator{ alias: this.alias, myIdx: this.Len(), parent: this, }) }");
  ("Prepend", "{ this.properties = append([]*$PPropertyIterator{{ alias: this.alias, myIdx: 0, parent: this, }}, this.properties...) for i := 1; i < this.Len(); i++ { (this.properties)[i].myIdx = i } }");
  ("Insert", "{ this.properties = append(this.properties, nil) copy(this.properties[idx+1:], this.properties[idx:]) this.properties[idx] = &$PPropertyIterator{ alias: this.alias, myIdx: idx, parent: this, } for i := idx; i < this.Len(); i++ { (this.properties)[i].myIdx = i } }");
  ("Set", "{ (this.properties)[idx].parent = nil (this.properties)[idx] = &$PPropertyIterator{ alias: this.alias, myIdx: idx, parent: this, } }");
  ("Remove", "{ (this.properties)[idx].parent = nil copy((this.properties)[idx:], (this.properties)[idx+1:]) (this.properties)[len(this.properties)-1] = &$PPropertyIterator{} this.properties = (this.properties)[:len(this.properties)-1] for i := idx; i < this.Len(); i++ { (this.properties)[i].myIdx = i } }");
  ("Swap", swap_body);
  ("At", "{ return this.properties[index] }");
  ("Begin", "{ if this.Empty() { return nil } else { return this.properties[0] } }");
  ("End", "{ return nil }");
  ("Len", "{ return len(this.properties) }");
  ("Empty", "{ return this.Len() == 0 }");
  ("Serialize", "{ s := make([]interface{}, 0, len(this.properties)) for _, iterator := range this.properties { if b, err := iterator.serialize(); err != nil { return s, err } else { s = append(s, b) } } if len(s) == 1 { return s[0], nil } return s, nil }");
  ("IterNext", "{ if this.myIdx+1 >= this.parent.Len() { return nil } else { return this.parent.At(this.myIdx + 1) } }");
  ("IterPrev", "{ if this.myIdx-1 < 0 { return nil } else { return this.parent.At(this.myIdx - 1) } }")
].
