(* Lexical codecs of streams/values/*: which JSON scalars each kind accepts and
   the value the lexical form denotes.  url_ok (net/url Parse + non-empty
   scheme) is a parameter of the acceptance function; dateTime and duration are
   defined here so that the denoted instant / duration is a Coq value. *)
From Coq Require Import String Ascii List Bool ZArith Lia.
From Verif Require Import Base.ListX.
Import ListNotations.
Open Scope string_scope.
Open Scope Z_scope.

(* JSON scalar as Go's encoding/json hands it to the codec *)
Inductive lit :=
| LStr (s : string)
| LNum (trunc : Z) (integral : bool)     (* float64: value truncated toward zero, and whether it was integral *)
| LBool (b : bool)
| LObj (type_name : option string) (all_strings : bool)
     (* object: its "type" member if that is a string, and whether every member value is a string *)
| LArr
| LNull.

(* ---------- characters ---------- *)
Definition is_digit (c : ascii) : bool := let n := nat_of_ascii c in (48 <=? n)%nat && (n <=? 57)%nat.
Definition digit_val (c : ascii) : Z := Z.of_nat (nat_of_ascii c) - 48.

Fixpoint take_digits (l : list ascii) : list ascii * list ascii :=
  match l with
  | c :: r => if is_digit c then let (d, rest) := take_digits r in (c :: d, rest) else ([], l)
  | [] => ([], [])
  end.
Definition digits_val (d : list ascii) : Z := fold_left (fun acc c => acc * 10 + digit_val c) d 0.

Definition chars (s : string) : list ascii := list_ascii_of_string s.

(* ---------- int64 wrap-around (time.Duration arithmetic) ---------- *)
Definition two63 : Z := 9223372036854775808.
Definition wrap64 (z : Z) : Z := ((z + two63) mod (2 * two63)) - two63.
Definition int64_ok (z : Z) : bool := (- two63 <=? z) && (z <? two63).

(* ---------- xsd:duration ---------- *)
Inductive dres := DOk (nanos : Z) | DErr | DPanic.

(* one optional group "\d*<letter>" of the regexp, greedy, at the head of l *)
Definition group (letter : ascii) (l : list ascii) : option (list ascii) * list ascii :=
  let (d, rest) := take_digits l in
  match rest with
  | c :: rest' => if Ascii.eqb c letter then (Some d, rest') else (None, l)
  | [] => (None, l)
  end.

Definition hour_ns : Z := 3600000000000.
(* add one parsed group: ParseInt fails on no digits or overflow; the running sum must fit an int64 *)
Definition add_group (g : option (list ascii)) (unit_ns : Z) (acc : option Z) : option Z :=
  match acc, g with
  | None, _ => None
  | Some a, None => Some a
  | Some a, Some d =>
      match d with
      | [] => None
      | _ => let v := digits_val d in
             (* fix F23: a sum beyond the range of time.Duration is rejected (it used to wrap around: wrap64 (a + v * unit_ns)) *)
             if int64_ok v then (if a + v * unit_ns <? two63 then Some (a + v * unit_ns) else None) else None
      end
  end.

Definition parse_duration (s : string) : dres :=
  match chars s with
  | [] => DErr                                     (* fix F8: no 'P' prefix (was: s[0] on the empty string panicked) *)
  | c0 :: r0 =>
      let neg := Ascii.eqb c0 "-"%char in
      let body := if neg then r0 else c0 :: r0 in
      match body with
      | [] => DErr                                 (* "-": s[1:] is empty (was a panic before fix F8) *)
      | p :: r =>
          if negb (Ascii.eqb p "P"%char) then DErr else
          let (gy, r1) := group "Y"%char r in
          let (gm, r2) := group "M"%char r1 in
          let (gd, r3) := group "D"%char r2 in
          let '(gh, gmi, gs) :=
            match r3 with
            | t :: r4 => if Ascii.eqb t "T"%char then
                           let (gh, r5) := group "H"%char r4 in
                           let (gmi, r6) := group "M"%char r5 in
                           let (gs, _) := group "S"%char r6 in (gh, gmi, gs)
                         else (None, None, None)
            | [] => (None, None, None)
            end in
          let acc := add_group gy (8760 * hour_ns) (Some 0) in
          let acc := add_group gm (720 * hour_ns) acc in
          let acc := add_group gd (24 * hour_ns) acc in
          let acc := add_group gh hour_ns acc in
          let acc := add_group gmi 60000000000 acc in
          let acc := add_group gs 1000000000 acc in
          match acc with
          | None => DErr
          | Some a => DOk (if neg then wrap64 (a * -1) else a)
          end
      end
  end.

(* ---------- xsd:dateTime (RFC 3339, and the layout without seconds) ---------- *)
Definition is_leap (y : Z) : bool := ((y mod 4 =? 0) && negb (y mod 100 =? 0)) || (y mod 400 =? 0).
Definition days_in_month (y m : Z) : Z :=
  if (m =? 2) then (if is_leap y then 29 else 28)
  else if (m =? 4) || (m =? 6) || (m =? 9) || (m =? 11) then 30 else 31.

(* days since 1970-01-01 of the proleptic Gregorian date (Howard Hinnant's algorithm) *)
Definition days_from_civil (y m d : Z) : Z :=
  let y' := if m <=? 2 then y - 1 else y in
  let era := (if y' >=? 0 then y' else y' - 399) / 400 in
  let yoe := y' - era * 400 in
  let mp := (m + 9) mod 12 in
  let doy := (153 * mp + 2) / 5 + d - 1 in
  let doe := yoe * 365 + yoe / 4 - yoe / 100 + doy in
  era * 146097 + doe - 719468.

Definition fixed_digits (n : nat) (l : list ascii) : option (Z * list ascii) :=
  let d := firstn n l in
  if (Nat.eqb (length d) n) && forallb is_digit d then Some (digits_val d, skipn n l) else None.

Definition expect (c : ascii) (l : list ascii) : option (list ascii) :=
  match l with x :: r => if Ascii.eqb x c then Some r else None | [] => None end.

(* zone: "Z" or (+|-)hh:mm ; returns offset seconds east of UTC *)
Definition parse_zone (l : list ascii) : option Z :=
  match l with
  | [z] => if Ascii.eqb z "Z"%char then Some 0 else None
  | sgn :: r =>
      if Ascii.eqb sgn "+"%char || Ascii.eqb sgn "-"%char then
        match fixed_digits 2 r with
        | Some (hh, r1) => match expect ":"%char r1 with
            | Some r2 => match fixed_digits 2 r2 with
                | Some (mm, []) => if (hh <=? 23) && (mm <=? 59)
                                   then Some ((if Ascii.eqb sgn "-"%char then -1 else 1) * (hh * 3600 + mm * 60)) else None
                | _ => None end
            | None => None end
        | None => None end
      else None
  | [] => None
  end.

Definition parse_datetime (s : string) : option (Z * Z) :=   (* (unix seconds, zone offset) *)
  let l := chars s in
  match fixed_digits 4 l with Some (y, l1) =>
  match expect "-"%char l1 with Some l2 =>
  match fixed_digits 2 l2 with Some (mo, l3) =>
  match expect "-"%char l3 with Some l4 =>
  match fixed_digits 2 l4 with Some (d, l5) =>
  match expect "T"%char l5 with Some l6 =>
  match fixed_digits 2 l6 with Some (h, l7) =>
  match expect ":"%char l7 with Some l8 =>
  match fixed_digits 2 l8 with Some (mi, l9) =>
    let '(sec, lz) := match expect ":"%char l9 with
                      | Some l10 => match fixed_digits 2 l10 with Some (sc, l11) => (Some sc, l11) | None => (None, l9) end
                      | None => (Some 0, l9) end in
    match sec, parse_zone lz with
    | Some sc, Some off =>
        if (1 <=? mo) && (mo <=? 12) && (1 <=? d) && (d <=? days_in_month y mo) && (h <=? 23) && (mi <=? 59) && (sc <=? 59)
        then Some (days_from_civil y mo d * 86400 + h * 3600 + mi * 60 + sc - off, off) else None
    | _, _ => None
    end
  | None => None end | None => None end | None => None end | None => None end | None => None end
  | None => None end | None => None end | None => None end | None => None end.

(* ---------- acceptance of a JSON scalar by a kind ---------- *)
Section Accept.
  Variable url_ok : string -> bool.
  Variable is_or_extends : string -> string -> bool.   (* is_or_extends k name: a value named [name] deserialises as kind k only if name = k *)
  Variable typeless : string -> bool.

  Definition accepts (kind : string) (v : lit) : bool :=
    if String.eqb kind "IRI" || String.eqb kind "@anyuri" then match v with LStr s => url_ok s | _ => false end
    else if String.eqb kind "@string" || String.eqb kind "@bcp47" || String.eqb kind "@rfc2045" || String.eqb kind "@rfc5988"
      then match v with LStr _ => true | _ => false end
    else if String.eqb kind "@boolean" then match v with LBool _ => true | LNum z true => (z =? 0) || (z =? 1) | _ => false end
    else if String.eqb kind "@float" then match v with LNum _ _ => true | _ => false end
    else if String.eqb kind "@nonnegativeinteger" then match v with LNum z _ => 0 <=? z | _ => false end
    else if String.eqb kind "@langstring" then match v with LObj _ all_str => all_str | _ => false end
    else if String.eqb kind "@datetime" then match v with LStr s => match parse_datetime s with Some _ => true | None => false end | _ => false end
    else if String.eqb kind "@duration" then match v with LStr s => match parse_duration s with DOk _ => true | _ => false end | _ => false end
    else if String.eqb kind "UNK" then true
    else (* a type kind: only objects; the type's own name (or any object, if typeless) *)
      match v with
      | LObj (Some n) _ => String.eqb n kind || typeless kind
      | LObj None _ => typeless kind
      | _ => false
      end.

  (* the element deserialiser: first kind of the chain that accepts the value *)
  Definition decode_elem (chain : list string) (v : lit) : string :=
    match find (fun k => accepts k v) chain with Some k => k | None => "UNK" end.

  Definition panics (chain : list string) (v : lit) : bool :=
    (* the duration codec indexes s[0] before anything else *)
    match v with
    | LStr s => existsb (fun k => String.eqb k "@duration" &&
                  match parse_duration s with DPanic => true | _ => false end) chain
    | _ => false
    end.
End Accept.
