(* Model of the three generated resolvers over the branch tables the
   translator reads from gen_json_resolver.go, gen_type_resolver.go and
   gen_type_predicated_resolver.go.  A callback is represented by the name of
   the vocab interface in its signature (e.g. "ActivityStreamsNote"); a value by
   (vocabulary URI, type name). *)
From Coq Require Import String List Bool Arith.
From Verif Require Import Base.ListX Vocab.Tables.
Import ListNotations.
Open Scope string_scope.

Inductive outcome :=
| Invoked (i : nat)          (* the i-th registered callback was called (and nothing else) *)
| NoCallbackMatch
| UnhandledType
| PredicateUnmatched
| DeserFailed
| PredRejected               (* predicate called, answered false: nothing else called *)
| PredPassed (o : outcome).  (* predicate called, answered true, delegate's outcome *)

Definition is_unmatched (o : outcome) : bool :=
  match o with NoCallbackMatch | UnhandledType | PredicateUnmatched => true | _ => false end.

Section WithBranches.
  Variable branches : list branch_row.

  Definition find_branch (uri name : string) : option branch_row :=
    find (fun br => String.eqb (b_guard_vocab br) uri && String.eqb (b_guard_name br) name) branches.

  (* first callback (by position) whose signature names [iface] *)
  Fixpoint first_cb (iface : string) (cbs : list string) (i : nat) : option nat :=
    match cbs with
    | [] => None
    | c :: r => if String.eqb c iface then Some i else first_cb iface r (S i)
    end.

  (* TypeResolver.Resolve: the loop is over callbacks, the if-chain inside *)
  Fixpoint type_loop (uri name : string) (cbs : list string) (i : nat) : outcome :=
    match cbs with
    | [] => NoCallbackMatch
    | c :: r =>
        match find_branch uri name with
        | None => UnhandledType
        | Some br => if String.eqb (b_cb br) c then Invoked i else type_loop uri name r (S i)
        end
    end.
  Definition type_resolve (uri name : string) (cbs : list string) : outcome := type_loop uri name cbs 0.

  (* TypePredicatedResolver.Apply *)
  Definition pred_apply (uri name : string) (pred : string) (pass : bool) (delegate : outcome) : outcome :=
    match find_branch uri name with
    | None => UnhandledType
    | Some br => if String.eqb (b_cb br) pred then (if pass then PredPassed delegate else PredRejected)
                 else PredicateUnmatched
    end.

  (* JSONResolver.Resolve's handleFn on one type string; [alias uri] is the
     prefix ("" or "x:") the @context gives the vocabulary; [deser_ok] says
     whether the type's deserialiser accepts the document *)
  Variable alias : string -> string.
  Definition find_json_branch (ts : string) : option branch_row :=
    find (fun br => String.eqb ts (alias (b_guard_vocab br) ++ b_guard_name br)) branches.
  Definition json_handle (ts : string) (deser_ok : bool) (cbs : list string) : outcome :=
    match find_json_branch ts with
    | None => UnhandledType
    | Some br => if deser_ok then
                   match first_cb (b_cb br) cbs 0 with Some i => Invoked i | None => NoCallbackMatch end
                 else DeserFailed
    end.
  (* "type" array: first string that is handled decides; UnhandledType -> try next *)
  Fixpoint json_resolve_list (tss : list string) (deser_ok : bool) (cbs : list string) : outcome :=
    match tss with
    | [] => UnhandledType
    | ts :: r => match json_handle ts deser_ok cbs with
                 | UnhandledType => json_resolve_list r deser_ok cbs
                 | o => o
                 end
    end.
End WithBranches.

(* constructors: the type switch accepts exactly the listed signatures *)
Definition new_resolver_ok (cases : list string) (cbs : list (option string)) : bool :=
  forallb (fun c => match c with Some s => mem s cases | None => false end) cbs.

(* ---- table well-formedness, decidable ---- *)
Definition struct_of (structs : list (string * string)) (name : string) : option string :=
  option_map fst (find (fun p => String.eqb (snd p) name) structs).

Definition branches_wf (types : list type_row) (structs : list (string * string)) (with_val : bool) (branches : list branch_row) : bool :=
  (* every type has a branch keyed on its own vocabulary and name, asserting its own interface *)
  forallb (fun t => match find_branch branches (t_vocab_uri t) (t_name t), struct_of structs (t_name t) with
                    | Some br, Some s => String.eqb (b_cb br) s && (negb with_val || String.eqb (b_val br) s)
                    | _, _ => false end) types &&
  (* every branch is keyed on some type *)
  forallb (fun br => existsb (fun t => String.eqb (t_vocab_uri t) (b_guard_vocab br) && String.eqb (t_name t) (b_guard_name br)) types) branches &&
  Nat.eqb (length branches) (length types).
