(* C15 (determinism): an emission order computed by sorting does not depend on the order in which a Go map was iterated.
   This is the only part of astool's determinism argument that is logic; that every emission of astool goes through such
   a sort is not modelled (see DESIGN.md): it is exercised by running astool in fresh processes. *)
From Coq Require Import String List Bool Arith Permutation Sorted Orders Sorting.
Import ListNotations.

Fixpoint insert (x : string) (l : list string) : list string :=
  match l with
  | [] => [x]
  | y :: r => if String.leb x y then x :: l else y :: insert x r
  end.
Definition sort_strings (l : list string) : list string := fold_right insert [] l.

Lemma ascii_cmp_refl a : Ascii.compare a a = Eq.
Proof. unfold Ascii.compare. apply BinNat.N.compare_refl. Qed.
Lemma leb_total a b : String.leb a b = true \/ String.leb b a = true.
Proof. unfold String.leb. rewrite (String.compare_antisym b a). destruct (String.compare a b); simpl; auto. Qed.
Lemma leb_trans a b c : String.leb a b = true -> String.leb b c = true -> String.leb a c = true.
Proof.
  unfold String.leb. intros H1 H2.
  destruct (String.compare a b) eqn:E1; try discriminate; destruct (String.compare b c) eqn:E2; try discriminate.
  - apply String.compare_eq_iff in E1. subst. rewrite E2. reflexivity.
  - apply String.compare_eq_iff in E1. subst. rewrite E2. reflexivity.
  - apply String.compare_eq_iff in E2. subst. rewrite E1. reflexivity.
  - assert (E : String.compare a c = Lt).
    { revert b c E1 E2. induction a as [|x a IH]; intros [|y b] [|z c] E1 E2; simpl in *; try discriminate; try reflexivity.
      destruct (Ascii.compare x y) eqn:C1; try discriminate; destruct (Ascii.compare y z) eqn:C2; try discriminate.
      - apply Ascii.compare_eq_iff in C1. apply Ascii.compare_eq_iff in C2. subst. rewrite ascii_cmp_refl. eapply IH; eassumption.
      - apply Ascii.compare_eq_iff in C1. subst. rewrite C2. reflexivity.
      - apply Ascii.compare_eq_iff in C2. subst. rewrite C1. reflexivity.
      - unfold Ascii.compare in *. rewrite BinNat.N.compare_lt_iff in *. assert (H : BinNat.N.lt (Ascii.N_of_ascii x) (Ascii.N_of_ascii z)) by (eapply BinNat.N.lt_trans; eassumption).
        apply BinNat.N.compare_lt_iff in H. rewrite H. reflexivity. }
    rewrite E. reflexivity.
Qed.
Lemma leb_antisym a b : String.leb a b = true -> String.leb b a = true -> a = b.
Proof. apply String.leb_antisym. Qed.

Definition sortedb := Sorted (fun a b => String.leb a b = true).
Lemma insert_perm x l : Permutation (insert x l) (x :: l).
Proof. induction l as [|y r IH]; simpl; [apply Permutation_refl|]. destruct (String.leb x y); [apply Permutation_refl|]. eapply Permutation_trans; [apply perm_skip; exact IH|apply perm_swap]. Qed.
Lemma sort_perm l : Permutation (sort_strings l) l.
Proof. induction l as [|x r IH]; simpl; [constructor|]. eapply Permutation_trans; [apply insert_perm|apply perm_skip; exact IH]. Qed.
Lemma insert_sorted x l : sortedb l -> sortedb (insert x l).
Proof.
  induction l as [|y r IH]; intros Hs; simpl; [repeat constructor|].
  destruct (String.leb x y) eqn:E; [constructor; [exact Hs|constructor; exact E]|].
  inversion Hs as [|a b Hr Hh]; subst. constructor; [apply IH; exact Hr|].
  assert (Hyx : String.leb y x = true) by (destruct (leb_total x y); congruence).
  destruct r as [|z r']; simpl; [constructor; exact Hyx|]. destruct (String.leb x z); constructor; [exact Hyx|]. inversion Hh; assumption.
Qed.
Lemma sort_sorted l : sortedb (sort_strings l).
Proof. induction l as [|x r IH]; simpl; [constructor|apply insert_sorted; exact IH]. Qed.

(* two sorted lists with the same elements (as multisets) are equal *)
Lemma sorted_perm_eq : forall l1 l2, sortedb l1 -> sortedb l2 -> Permutation l1 l2 -> l1 = l2.
Proof.
  induction l1 as [|x r1 IH]; intros l2 S1 S2 Hp.
  - apply Permutation_nil in Hp. subst. reflexivity.
  - destruct l2 as [|y r2]; [apply Permutation_sym in Hp; apply Permutation_nil in Hp; discriminate|].
    apply Sorted_StronglySorted in S1; [|intros a b c; apply leb_trans]. apply Sorted_StronglySorted in S2; [|intros a b c; apply leb_trans].
    inversion S1 as [|a l Hs1 Hf1]; subst. inversion S2 as [|a l Hs2 Hf2]; subst.
    assert (Hxy : x = y).
    { assert (Hx : In x (y :: r2)) by (eapply Permutation_in; [exact Hp|left; reflexivity]).
      assert (Hy : In y (x :: r1)) by (eapply Permutation_in; [apply Permutation_sym; exact Hp|left; reflexivity]).
      destruct Hx as [->|Hx]; [reflexivity|]. destruct Hy as [->|Hy]; [reflexivity|].
      rewrite Forall_forall in Hf1, Hf2. apply leb_antisym; [apply Hf1; exact Hy|apply Hf2; exact Hx]. }
    subst y. f_equal. apply IH; [apply StronglySorted_Sorted; exact Hs1|apply StronglySorted_Sorted; exact Hs2|eapply Permutation_cons_inv; exact Hp].
Qed.

(* whatever order the map handed its keys out in, the sorted emission order is the same *)
Theorem sort_independent_of_iteration_order l l' : Permutation l l' -> sort_strings l = sort_strings l'.
Proof.
  intros Hp. apply sorted_perm_eq; [apply sort_sorted|apply sort_sorted|].
  eapply Permutation_trans; [apply sort_perm|]. eapply Permutation_trans; [exact Hp|apply Permutation_sym; apply sort_perm].
Qed.
