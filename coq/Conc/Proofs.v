(* C08: every interleaving of the micro-steps is serialisable in commit order, loses no update, and cannot deadlock. *)
From Coq Require Import String List Bool Arith Lia Permutation.
From Verif Require Import Base.ListX Conc.Model.
Import ListNotations.
Open Scope string_scope.
Open Scope list_scope.

Lemma nth_set_nth {A} : forall (l : list A) i j x, nth_error (set_nth i x l) j =
  if Nat.eqb i j then (match nth_error l j with Some _ => Some x | None => None end) else nth_error l j.
Proof.
  induction l as [|y r IH]; intros i j x.
  - destruct i, j; simpl; try reflexivity; destruct (Nat.eqb _ _); reflexivity.
  - destruct i, j; simpl; try reflexivity. apply IH.
Qed.

Lemma replay_app c log sec l :
  replay c (log ++ [sec]) l = (if String.eqb (s_col sec) c then write sec (replay c log l) else replay c log l).
Proof. revert l. induction log as [|s r IH]; intros l; simpl; [reflexivity|]. apply IH. Qed.

Section Inv.
  Variable init : store.

  Definition mutex (g : gstate) : Prop :=
    forall i j ti tj c, i <> j -> nth_error (g_threads g) i = Some ti -> nth_error (g_threads g) j = Some tj -> holds ti c -> ~ holds tj c.
  Definition snapshot (g : gstate) : Prop :=
    forall i th sec rest l, nth_error (g_threads g) i = Some th -> t_phase th = Got l -> t_todo th = sec :: rest -> l = g_store g (s_col sec).
  Definition serial (g : gstate) : Prop := forall c, g_store g c = replay c (g_log g) (init c).
  Definition inv (g : gstate) : Prop := mutex g /\ snapshot g /\ serial g.

  Lemma inv_initial progs : inv (initial init progs).
  Proof.
    unfold inv, initial, mutex, snapshot, serial; simpl. repeat split.
    - intros i j ti tj c _ Hi _ Hh. apply nth_error_In in Hi. apply in_map_iff in Hi. destruct Hi as [p [<- _]]. destruct Hh.
    - intros i th sec rest l Hi Hp. apply nth_error_In in Hi. apply in_map_iff in Hi. destruct Hi as [p [<- _]]. discriminate.
  Qed.

  Lemma holds_set i g th' j tj :
    nth_error (set_nth i th' (g_threads g)) j = Some tj -> (i = j /\ tj = th') \/ (i <> j /\ nth_error (g_threads g) j = Some tj).
  Proof.
    rewrite nth_set_nth. destruct (Nat.eqb i j) eqn:E.
    - apply Nat.eqb_eq in E. destruct (nth_error (g_threads g) j); [|discriminate]. intros H. inversion H. left. split; [exact E|reflexivity].
    - apply Nat.eqb_neq in E. intros H. right. split; assumption.
  Qed.

  Lemma inv_step g g' : inv g -> step g g' -> inv g'.
  Proof.
    intros [Hm [Hs Hser]] Hstep.
    destruct Hstep as [g i th sec rest Hi Hp Ht Hfree|g i th sec rest Hi Hp Ht|g i th sec rest l Hi Hp Ht|g i th sec rest Hi Hp Ht];
      unfold inv, mutex, snapshot, serial; cbn [g_store g_threads g_log].
    - (* acquire *)
      repeat split.
      + intros a b ta tb c Hab Ha Hb Hha.
        destruct (holds_set i g _ a ta Ha) as [[Ea ->]|[Na Ha']]; destruct (holds_set i g _ b tb Hb) as [[Eb ->]|[Nb Hb']].
        * congruence.
        * unfold holds in Hha. cbn in Hha. rewrite Ht in Hha. subst c. apply (Hfree b tb Hb').
        * intros Hhb. unfold holds in Hhb. cbn in Hhb. rewrite Ht in Hhb. subst c. apply (Hfree a ta Ha'). exact Hha.
        * apply (Hm a b ta tb c Hab Ha' Hb' Hha).
      + intros a ta s2 r2 l Ha Hpa Hta. destruct (holds_set i g _ a ta Ha) as [[_ ->]|[_ Ha']]; [discriminate|]. apply (Hs a ta s2 r2 l Ha' Hpa Hta).
      + exact Hser.
    - (* read *)
      repeat split.
      + intros a b ta tb c Hab Ha Hb Hha.
        assert (Hth : forall c', holds {| t_todo := t_todo th; t_phase := Got (g_store g (s_col sec)) |} c' -> holds th c').
        { intros c'. unfold holds. cbn. rewrite Hp. tauto. }
        destruct (holds_set i g _ a ta Ha) as [[Ea ->]|[Na Ha']]; destruct (holds_set i g _ b tb Hb) as [[Eb ->]|[Nb Hb']].
        * congruence.
        * subst a. apply (Hm i b th tb c Hab Hi Hb'). apply Hth. exact Hha.
        * subst b. intros Hhb. apply (Hm a i ta th c Hab Ha' Hi Hha). apply Hth. exact Hhb.
        * apply (Hm a b ta tb c Hab Ha' Hb' Hha).
      + intros a ta s2 r2 l Ha Hpa Hta. destruct (holds_set i g _ a ta Ha) as [[_ ->]|[_ Ha']].
        * cbn in Hpa, Hta. inversion Hpa. rewrite Ht in Hta. inversion Hta. reflexivity.
        * apply (Hs a ta s2 r2 l Ha' Hpa Hta).
      + exact Hser.
    - (* write *)
      assert (Hl : l = g_store g (s_col sec)) by (apply (Hs i th sec rest l Hi Hp Ht)).
      assert (Hhi : holds th (s_col sec)) by (unfold holds; rewrite Hp, Ht; reflexivity).
      repeat split.
      + intros a b ta tb c Hab Ha Hb Hha.
        assert (Hth : forall c', holds {| t_todo := (if stops sec l then [sec] else sec :: rest); t_phase := Wrote |} c' -> holds th c').
        { intros c'. unfold holds. cbn. rewrite Hp, Ht. destruct (stops sec l); tauto. }
        destruct (holds_set i g _ a ta Ha) as [[Ea ->]|[Na Ha']]; destruct (holds_set i g _ b tb Hb) as [[Eb ->]|[Nb Hb']].
        * congruence.
        * subst a. apply (Hm i b th tb c Hab Hi Hb'). apply Hth. exact Hha.
        * subst b. intros Hhb. apply (Hm a i ta th c Hab Ha' Hi Hha). apply Hth. exact Hhb.
        * apply (Hm a b ta tb c Hab Ha' Hb' Hha).
      + intros a ta s2 r2 l2 Ha Hpa Hta. destruct (holds_set i g _ a ta Ha) as [[_ ->]|[Na Ha']]; [discriminate|].
        unfold set_store. destruct (String.eqb (s_col s2) (s_col sec)) eqn:E.
        * exfalso. apply String.eqb_eq in E. apply (Hm i a th ta (s_col sec) Na Hi Ha' Hhi). unfold holds. rewrite Hpa, Hta. exact E.
        * apply (Hs a ta s2 r2 l2 Ha' Hpa Hta).
      + intros c. rewrite replay_app. unfold set_store. rewrite String.eqb_sym. destruct (String.eqb (s_col sec) c) eqn:E.
        * apply String.eqb_eq in E. subst c. rewrite <- Hser, <- Hl. reflexivity.
        * apply Hser.
    - (* release *)
      repeat split.
      + intros a b ta tb c Hab Ha Hb Hha.
        destruct (holds_set i g _ a ta Ha) as [[Ea ->]|[Na Ha']]; [destruct Hha|].
        destruct (holds_set i g _ b tb Hb) as [[Eb ->]|[Nb Hb']]; [intros []|].
        apply (Hm a b ta tb c Hab Ha' Hb' Hha).
      + intros a ta s2 r2 l Ha Hpa Hta. destruct (holds_set i g _ a ta Ha) as [[_ ->]|[_ Ha']]; [discriminate|]. apply (Hs a ta s2 r2 l Ha' Hpa Hta).
      + exact Hser.
  Qed.

  Theorem inv_reach progs g : reach (initial init progs) g -> inv g.
  Proof. induction 1 as [|g g' _ IH Hst]; [apply inv_initial|eapply inv_step; eassumption]. Qed.

  (* serialisability: at every reachable state each collection holds what the committed sections, applied one after
     another in commit order, make of its initial content *)
  Theorem serialisable progs g c : reach (initial init progs) g -> g_store g c = replay c (g_log g) (init c).
  Proof. intros H. destruct (inv_reach progs g H) as [_ [_ Hser]]. apply Hser. Qed.
End Inv.

(* ---- no lost update: the content is determined by WHICH sections committed, not by their order ---- *)
Definition on (c : string) (log : list section) : list section := filter (fun s => String.eqb (s_col s) c) log.

Lemma replay_on c log l : replay c log l = fold_left (fun acc s => write s acc) (on c log) l.
Proof. revert l. induction log as [|s r IH]; intros l; simpl; [reflexivity|]. destruct (String.eqb (s_col s) c); simpl; apply IH. Qed.

Lemma replay_unconditional c log l : forallb (fun s => negb (s_cond s)) (on c log) = true ->
  Permutation (replay c log l) (map s_id (on c log) ++ l).
Proof.
  rewrite replay_on. generalize (on c log). clear log. intros secs. revert l.
  induction secs as [|s r IH]; intros l H; simpl in *; [apply Permutation_refl|].
  apply andb_true_iff in H. destruct H as [Hs Hr]. unfold write at 2. destruct (s_cond s); [discriminate|]. cbn [andb].
  eapply Permutation_trans; [apply IH; exact Hr|]. apply Permutation_sym. apply Permutation_middle.
Qed.

Theorem order_irrelevant c log log' l : forallb (fun s => negb (s_cond s)) (on c log) = true -> Permutation log log' ->
  Permutation (replay c log l) (replay c log' l).
Proof.
  intros H Hp. assert (Hon : Permutation (on c log) (on c log')).
  { unfold on. clear H. induction Hp as [|x l1 l2 Hp IH|x y l1|l1 l2 l3 Hp1 IH1 Hp2 IH2]; simpl.
    - constructor.
    - destruct (String.eqb (s_col x) c); [constructor; exact IH|exact IH].
    - destruct (String.eqb (s_col x) c), (String.eqb (s_col y) c); try apply Permutation_refl. apply perm_swap.
    - eapply Permutation_trans; eassumption. }
  assert (H' : forallb (fun s => negb (s_cond s)) (on c log') = true).
  { rewrite forallb_forall in *. intros x Hx. apply H. eapply Permutation_in; [apply Permutation_sym; exact Hon|exact Hx]. }
  eapply Permutation_trans; [apply replay_unconditional; exact H|].
  eapply Permutation_trans; [|apply Permutation_sym; apply replay_unconditional; exact H'].
  apply Permutation_app_tail. apply Permutation_map. exact Hon.
Qed.

(* duplicates: with conditional insertion an id never appears twice, however many sections ask for it *)
Theorem conditional_once c log l : NoDup l -> forallb s_cond (on c log) = true -> NoDup (replay c log l).
Proof.
  rewrite replay_on. generalize (on c log). clear log. intros secs. revert l.
  induction secs as [|s r IH]; intros l Hn H; simpl in *; [exact Hn|].
  apply andb_true_iff in H. destruct H as [Hs Hr]. apply IH; [|exact Hr].
  unfold write. rewrite Hs. cbn [andb]. destruct (mem (s_id s) l) eqn:E; [exact Hn|].
  constructor; [apply mem_false_In; exact E|exact Hn].
Qed.
Theorem conditional_present c log l : forall s, In s (on c log) -> In (s_id s) (replay c log l).
Proof.
  rewrite replay_on. generalize (on c log). clear log. intros secs. revert l.
  assert (Hkeep : forall ss l0 x, In x l0 -> In x (fold_left (fun acc s => write s acc) ss l0)).
  { induction ss as [|s r IH]; intros l0 x Hx; simpl; [exact Hx|]. apply IH. unfold write. destruct (_ && _); [exact Hx|right; exact Hx]. }
  induction secs as [|s r IH]; intros l s0 Hin; [destruct Hin|]. simpl. destruct Hin as [<-|Hin]; [|apply IH; exact Hin].
  apply Hkeep. unfold write. destruct (s_cond s && mem (s_id s) l) eqn:E; [|left; reflexivity].
  apply andb_true_iff in E. destruct E as [_ E]. apply mem_In. exact E.
Qed.

(* ---- no deadlock: a thread holds at most one lock, so whoever holds one can always move ---- *)
Definition holdsb (th : thread) (c : string) : bool :=
  match t_phase th, t_todo th with
  | Idle, _ => false
  | _, sec :: _ => String.eqb (s_col sec) c
  | _, [] => false
  end.
Lemma holdsb_holds th c : holdsb th c = true <-> holds th c.
Proof. unfold holdsb, holds. destruct (t_phase th), (t_todo th); try (split; [discriminate|intros []]); apply String.eqb_eq. Qed.

Definition unfinishedb (th : thread) : bool := match t_todo th, t_phase th with [], Idle => false | _, _ => true end.

Lemma can_move_holder g j tj : nth_error (g_threads g) j = Some tj -> t_phase tj <> Idle -> t_todo tj <> [] -> exists g', step g g'.
Proof.
  intros Hj Hp Ht. destruct (t_todo tj) as [|sec rest] eqn:Et; [congruence|].
  destruct (t_phase tj) as [| |l|] eqn:Ep; [congruence| | |]; eexists.
  - eapply S_read; eassumption.
  - eapply S_write; eassumption.
  - eapply S_release; eassumption.
Qed.

Theorem no_deadlock g : (forall i th, nth_error (g_threads g) i = Some th -> t_phase th <> Idle -> t_todo th <> []) ->
  existsb unfinishedb (g_threads g) = true -> exists g', step g g'.
Proof.
  intros Hshape H. apply existsb_exists in H. destruct H as [th [Hin Hu]]. apply In_nth_error in Hin. destruct Hin as [i Hi].
  destruct (t_phase th) eqn:Ep.
  - (* idle with work to do: the lock is free, or its holder can move *)
    destruct (t_todo th) as [|sec rest] eqn:Et; [unfold unfinishedb in Hu; rewrite Et, Ep in Hu; discriminate|].
    destruct (existsb (fun tj => holdsb tj (s_col sec)) (g_threads g)) eqn:Eh.
    + apply existsb_exists in Eh. destruct Eh as [tj [Hjin Hh]]. apply In_nth_error in Hjin. destruct Hjin as [j Hj].
      apply (can_move_holder g j tj Hj).
      * unfold holdsb in Hh. destruct (t_phase tj); [discriminate|discriminate|discriminate|discriminate].
      * unfold holdsb in Hh. destruct (t_phase tj), (t_todo tj); discriminate.
    + eexists. eapply S_acquire; try eassumption. intros j tj Hj Hh. apply holdsb_holds in Hh.
      assert (Hx : existsb (fun tj => holdsb tj (s_col sec)) (g_threads g) = true).
      { apply existsb_exists. exists tj. split; [eapply nth_error_In; exact Hj|exact Hh]. }
      congruence.
  - apply (can_move_holder g i th Hi); [congruence|apply (Hshape i th Hi); congruence].
  - apply (can_move_holder g i th Hi); [congruence|apply (Hshape i th Hi); congruence].
  - apply (can_move_holder g i th Hi); [congruence|apply (Hshape i th Hi); congruence].
Qed.

Definition shape (g : gstate) : Prop := forall i th, nth_error (g_threads g) i = Some th -> t_phase th <> Idle -> t_todo th <> [].
Lemma shape_reach init progs g : reach (initial init progs) g -> shape g.
Proof.
  induction 1 as [|g g' _ IH Hst].
  - intros i th Hi Hp. unfold initial in Hi. cbn in Hi. apply nth_error_In in Hi. apply in_map_iff in Hi. destruct Hi as [p [<- _]]. cbn in Hp. congruence.
  - destruct Hst as [g i th sec rest Hi Hp Ht Hfree|g i th sec rest Hi Hp Ht|g i th sec rest l Hi Hp Ht|g i th sec rest Hi Hp Ht];
      intros a ta Ha Hpa; cbn [g_threads] in Ha; destruct (holds_set i g _ a ta Ha) as [[_ ->]|[_ Ha']]; try (apply (IH a ta Ha' Hpa)); cbn in *.
    + rewrite Ht. discriminate.
    + rewrite Ht. discriminate.
    + destruct (stops sec l); discriminate.
    + congruence.
Qed.

(* progress at every reachable state that is not finished *)
Theorem progress init progs g : reach (initial init progs) g -> existsb unfinishedb (g_threads g) = true -> exists g', step g g'.
Proof. intros H. apply no_deadlock. apply (shape_reach init progs g H). Qed.
