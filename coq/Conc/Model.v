(* C08: threads of critical sections over a shared store, at the granularity lock / read / write / unlock.
   A section is what every collection update of package pub is (C09: bracketed by Lock/Unlock of the id; C05/C04/C16:
   the value written is a function of the value read under that lock): an id put at the front of one collection,
   unconditionally, or only when absent (the inbox membership test / the seen-before test) in which case a thread that
   finds it present stops. *)
From Coq Require Import String List Bool Arith Lia Permutation.
From Verif Require Import Base.ListX.
Import ListNotations.
Open Scope string_scope.
Open Scope list_scope.

Record section := { s_col : string; s_id : string; s_cond : bool }.
Definition store := string -> list string.
Inductive phase := Idle | Acquired | Got (l : list string) | Wrote.
Record thread := { t_todo : list section; t_phase : phase }.
Record gstate := { g_store : store; g_threads : list thread; g_log : list section }.

Definition write (sec : section) (l : list string) : list string :=
  if s_cond sec && mem (s_id sec) l then l else s_id sec :: l.
Definition stops (sec : section) (l : list string) : bool := s_cond sec && mem (s_id sec) l.

Definition set_store (st : store) (c : string) (l : list string) : store := fun c' => if String.eqb c' c then l else st c'.

Definition holds (th : thread) (c : string) : Prop :=
  match t_phase th, t_todo th with
  | Idle, _ => False
  | _, sec :: _ => s_col sec = c
  | _, [] => False
  end.

Fixpoint set_nth {A} (n : nat) (x : A) (l : list A) : list A :=
  match l, n with
  | [], _ => []
  | _ :: r, O => x :: r
  | y :: r, S n' => y :: set_nth n' x r
  end.

Inductive step : gstate -> gstate -> Prop :=
| S_acquire g i th sec rest :
    nth_error (g_threads g) i = Some th -> t_phase th = Idle -> t_todo th = sec :: rest ->
    (forall j tj, nth_error (g_threads g) j = Some tj -> ~ holds tj (s_col sec)) ->
    step g {| g_store := g_store g; g_threads := set_nth i {| t_todo := t_todo th; t_phase := Acquired |} (g_threads g); g_log := g_log g |}
| S_read g i th sec rest :
    nth_error (g_threads g) i = Some th -> t_phase th = Acquired -> t_todo th = sec :: rest ->
    step g {| g_store := g_store g; g_threads := set_nth i {| t_todo := t_todo th; t_phase := Got (g_store g (s_col sec)) |} (g_threads g); g_log := g_log g |}
| S_write g i th sec rest l :
    nth_error (g_threads g) i = Some th -> t_phase th = Got l -> t_todo th = sec :: rest ->
    step g {| g_store := set_store (g_store g) (s_col sec) (write sec l);
              g_threads := set_nth i {| t_todo := (if stops sec l then [sec] else sec :: rest); t_phase := Wrote |} (g_threads g);
              g_log := g_log g ++ [sec] |}
| S_release g i th sec rest :
    nth_error (g_threads g) i = Some th -> t_phase th = Wrote -> t_todo th = sec :: rest ->
    step g {| g_store := g_store g; g_threads := set_nth i {| t_todo := rest; t_phase := Idle |} (g_threads g); g_log := g_log g |}.

Inductive reach (g0 : gstate) : gstate -> Prop :=
| R_refl : reach g0 g0
| R_step g g' : reach g0 g -> step g g' -> reach g0 g'.

Definition initial (st : store) (progs : list (list section)) : gstate :=
  {| g_store := st; g_threads := map (fun p => {| t_todo := p; t_phase := Idle |}) progs; g_log := [] |}.
Definition finished (g : gstate) : Prop := forall i th, nth_error (g_threads g) i = Some th -> t_todo th = [] /\ t_phase th = Idle.

(* the sections committed on collection c, applied one after another *)
Fixpoint replay (c : string) (log : list section) (l : list string) : list string :=
  match log with
  | [] => l
  | sec :: r => replay c r (if String.eqb (s_col sec) c then write sec l else l)
  end.
