(* C09 - every lock taken is released exactly once; none is retaken or leaked.
   For EVERY environment (any answer, in particular an error, at every Database,
   Transport, NewTransport and callback invocation - every fault sequence, not
   one or two faults): every trace of the model programs passes the lock monitor
   from the empty held-set and ends with the empty held-set.
   strict monitor (Pub.Monitors.lock_step): Lock of an id already held is a
   violation; Unlock needs the lock held; every Database access other than NewID
   needs some lock held.  counting monitor: the same except that re-taking an
   id pushes it a second time (finding F2b: InboxForwarding keeps the forwarding
   collections locked while it locks again). *)
From Coq Require Import String List Bool ZArith.
From Verif Require Import Base.ListX Base.Json Base.Free Pub.Events Pub.Calls Pub.Value Pub.SideEffect Pub.Fed Pub.BaseActor Pub.Monitors Pub.Replay Proofs.LockProofs.
Import ListNotations.
Open Scope string_scope.

Definition disciplined (strict : bool) (tr : list (ev * ans)) : Prop := run_monitor (lock_step_gen strict) [] tr = Some [].

Lemma from_K {A} s (m : prog A) : K s m [] [] -> forall tr o, runs m tr o -> disciplined s tr.
Proof.
  intros H tr o R. destruct (wp_sound ev ans held (lock_step_gen s) m [] _ H tr o R) as [h [E1 E2]].
  unfold disciplined. rewrite E1, E2. reflexivity.
Qed.

Theorem C09_post_outbox : forall cfg perm r tr o, runs (post_outbox_http cfg perm r) tr o -> disciplined true tr.
Proof. intros cfg perm r. apply from_K. apply locks_post_outbox. Qed.
Theorem C09_send : forall cfg perm outbox v tr o, runs (send cfg perm outbox v) tr o -> disciplined true tr.
Proof. intros cfg perm outbox v. apply from_K. apply locks_send. Qed.
Theorem C09_get_inbox : forall cfg r tr o, runs (get_inbox_http cfg r) tr o -> disciplined true tr.
Proof. intros cfg r. apply from_K. apply locks_get_inbox. Qed.
Theorem C09_get_outbox : forall r tr o, runs (get_outbox_http r) tr o -> disciplined true tr.
Proof. intros r. apply from_K. apply locks_get_outbox. Qed.
Theorem C09_handler : forall r tr o, runs (handler_http r) tr o -> disciplined true tr.
Proof. intros r. apply from_K. apply locks_handler. Qed.
(* the inbox side effects (sideEffectActor.PostInbox: inbox update, every wrapped callback, auto-Accept delivery) *)
Theorem C09_inbox_side_effects : forall cfg inbox a tr o, runs (post_inbox cfg inbox a) tr o -> disciplined true tr.
Proof. intros cfg inbox a. apply from_K. apply lt_post_inbox. intros _. reflexivity. Qed.
(* the whole inbox POST including InboxForwarding: everything except "never retaken" *)
Theorem C09_post_inbox_partial : forall cfg r tr o, runs (post_inbox_http cfg r) tr o -> disciplined false tr.
Proof. intros cfg r. apply from_K. apply locks_post_inbox_counting. Qed.

(* "never retaken" is false of InboxForwarding: an owned collection that is addressed AND is the activity's inReplyTo /
   object / target / tag is locked again by the value search while its deferred lock is still held (finding F2b; the
   deferred unlocks are pinned by TestInboxForwarding).  Naming one collection twice, or two collections in opposite
   orders by two requests, is repaired (fix F18: each owned IRI once, in lexical order). *)
Definition f2b_activity : json :=
  JObj [("@context", JStr "https://www.w3.org/ns/activitystreams"); ("type", JStr "Note"); ("id", JStr "https://r.example/n");
        ("to", JStr "https://l.example/c"); ("inReplyTo", JStr "https://l.example/c")].
Definition f2b_col : json := JObj [("type", JStr "Collection"); ("id", JStr "https://l.example/c")].
Definition f2b_trace : list (ev * ans) :=
  [(ELock "https://r.example/n", AOk); (EDb "Exists" [JStr "https://r.example/n"], ABool false);
   (EDb "Create" [canon f2b_activity], AOk); (EUnlock "https://r.example/n", AOk);
   (ELock "https://l.example/c", AOk); (EDb "Owns" [JStr "https://l.example/c"], ABool true); (EUnlock "https://l.example/c", AOk);
   (ELock "https://l.example/c", AOk); (EDb "Get" [JStr "https://l.example/c"], AJson f2b_col);
   (EApp "MaxInboxForwardingRecursionDepth" [], ANat 1);
   (ELock "https://l.example/c", AErr);
   (EUnlock "https://l.example/c", AOk)].

Theorem C09_retake_refuted :
  exists a tr o, runs (inbox_forwarding "https://l.example/inbox" a) tr o /\ run_monitor lock_step [] tr = None.
Proof.
  exists f2b_activity, f2b_trace, (Err EGeneric). split.
  - apply (replay_runs ev ans ev_eqb ev_eqb_eq _ _ 0). vm_compute. reflexivity.
  - vm_compute. reflexivity.
Qed.

Print Assumptions C09_post_outbox.
Print Assumptions C09_send.
Print Assumptions C09_get_inbox.
Print Assumptions C09_get_outbox.
Print Assumptions C09_handler.
Print Assumptions C09_inbox_side_effects.
Print Assumptions C09_post_inbox_partial.
Print Assumptions C09_retake_refuted.
