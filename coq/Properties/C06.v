(* C06 - a federated peer cannot act beyond its authority. *)
From Coq Require Import String List Bool Arith.
From Verif Require Import Base.ListX Base.Json Base.Free Pub.Events Pub.Calls Pub.Value Pub.EffectSpec Pub.Util Pub.SideEffect Pub.Fed Pub.Monitors.
From Verif Require Import Proofs.OnlyProofs Proofs.OrderProofs Proofs.EffectProofs Proofs.FedProofs Proofs.AuthorityProofs.
From Verif Require Import Proofs.ForwardIffProofs Proofs.StoreProofs Proofs.AuthorityStoreProofs.
Import ListNotations.
Open Scope string_scope.
Open Scope list_scope.

(* Update / Delete: the origin check passes exactly when the activity has an id and every object id has its host
   (host_of: the authority without userinfo, compared as written - port, case and sub-domain all matter) *)
Theorem C06_origin : forall a, must_origin_match a = Ok tt <->
  exists origin, get_id a = Ok origin /\ is_nil origin = false /\
    Forall (fun e => exists i, to_id "object" e = Ok i /\ is_nil i = false /\ host_of i = host_of origin) (elems0 "object" a).
Proof. exact origin_match_char. Qed.

(* ... and for EVERY environment, when it does not pass nothing is created, updated, deleted, listed or sent and the callback fails *)
Theorem C06_update_needs_origin : forall cfg a, must_origin_match a <> Ok tt ->
  only nomod (update cfg a) /\ leaves (fun r => match r with Ok _ => False | _ => True end) (update cfg a).
Proof. exact update_needs_origin. Qed.
Theorem C06_delete_needs_origin : forall cfg a, must_origin_match a <> Ok tt ->
  only nomod (delete cfg a) /\ leaves (fun r => match r with Ok _ => False | _ => True end) (delete cfg a).
Proof. exact delete_needs_origin. Qed.

(* Accept: for EVERY environment following is updated only when the value stored locally under the referenced id is a
   Follow made by this inbox's actor that names every accepting actor among its objects (follow_verified) *)
Theorem C06_accept : forall cfg inbox a al tr r, elems "actor" a = Some al -> runs (accept cfg inbox a) tr r ->
  exists s, run_monitor (acc_step al) a0 tr = Some s.
Proof. intros cfg inbox a al tr r Ha H. destruct (wp_sound ev ans astate _ _ _ _ (acc_accept cfg inbox al a Ha) tr r H) as [s [E _]]. exists s. exact E. Qed.

(* Undo: for EVERY environment, when the check succeeds every undone activity was dereferenced and decoded, and every one of
   its actors is an actor of the Undo *)
Theorem C06_undo : forall box a al aa tr r, elems "actor" a = Some al -> to_ids "actor" al = Ok aa ->
  runs (must_actors_match box a) tr r ->
  exists s, run_monitor seen_step [] tr = Some s /\
            (r = Ok tt -> length s = length (elems0 "object" a) /\ Forall (actors_within aa) s).
Proof. intros box a al aa tr r Ha Hi H. exact (wp_sound ev ans (list json) _ _ _ _ (undo_examines box a al aa Ha Hi) tr r H). Qed.

(* the block check: for EVERY environment the only application callback of AuthorizePostInbox is Blocked, asked about the id
   of every actor - the IRI itself, or the id of the embedded actor value *)
Theorem C06_blocked : forall a tr r, runs (authorize_post_inbox a) tr r ->
  forall n args x, In (EApp n args, x) tr -> n = "Blocked" /\
    exists l ids, elems "actor" a = Some l /\ actor_iris l = Ok ids /\ args = [JArr (map JStr ids)].
Proof. exact blocked_asked_about_all. Qed.
Theorem C06_blocked_ids : forall l ids, actor_iris l = Ok ids ->
  Forall2 (fun e i => (e_is_iri e = true /\ i = e_iri e) \/ (e_is_iri e = false /\ exists t, e_type "actor" e = Some t /\ get_id t = Ok i)) l ids.
Proof. exact actor_iris_char. Qed.

Example C06_example :
  host_of "https://a.example/x" = "a.example" /\ host_of "https://a.example:8443/x" = "a.example:8443" /\
  host_of "https://A.example/x" = "A.example" /\ host_of "https://u:p@sub.a.example/x?q#f" = "sub.a.example" /\
  must_origin_match (JObj [("type", JStr "Update"); ("id", JStr "https://a.example/act/1");
                           ("object", JObj [("type", JStr "Note"); ("id", JStr "https://a.example:8443/n")])]) = Err EGeneric.
Proof. vm_compute. repeat split. Qed.

(* ---- the same against EVERY environment (any function from events to answers), with S env m = the storing / sending
   events of the run: an Update / Delete whose objects are not of the activity's origin does not succeed and stores nothing;
   whenever one succeeds every object id has the host of the activity's id; an Undo by someone who is not an actor of what is
   undone does not succeed and the application's Undo callback does not run (and it does run when the check passes) ---- *)
Theorem C06_update_foreign_origin_nothing : forall env cfg a, (forall u, must_origin_match a <> Ok u) ->
  (forall u, res_env env (Fed.update cfg a) <> Ok u) /\ S env (Fed.update cfg a) = [].
Proof. exact update_foreign_origin_nothing. Qed.
Theorem C06_delete_foreign_origin_nothing : forall env cfg a, (forall u, must_origin_match a <> Ok u) ->
  (forall u, res_env env (Fed.delete cfg a) <> Ok u) /\ S env (Fed.delete cfg a) = [].
Proof. exact delete_foreign_origin_nothing. Qed.
Theorem C06_update_ok_hosts : forall env cfg a u, res_env env (Fed.update cfg a) = Ok u ->
  exists origin, get_id a = Ok origin /\ is_nil origin = false /\
    Forall (fun e => exists i, to_id "object" e = Ok i /\ is_nil i = false /\ host_of i = host_of origin) (elems0 "object" a).
Proof. exact update_ok_hosts. Qed.
Theorem C06_delete_ok_hosts : forall env cfg a u, res_env env (Fed.delete cfg a) = Ok u ->
  exists origin, get_id a = Ok origin /\ is_nil origin = false /\
    Forall (fun e => exists i, to_id "object" e = Ok i /\ is_nil i = false /\ host_of i = host_of origin) (elems0 "object" a).
Proof. exact delete_ok_hosts. Qed.
Theorem C06_undo_foreign_actor_no_callback : forall env cfg inbox a,
  (forall u, res_env env (must_actors_match inbox a) <> Ok u) ->
  (forall u, res_env env (undo cfg inbox a) <> Ok u) /\
  forallb (not_wrapped_call "Undo") (evs_env env (undo cfg inbox a)) = true /\
  forall args, ~ In (EApp "Wrapped:Undo" args) (evs_env env (undo cfg inbox a)).
Proof. exact undo_foreign_actor_no_callback. Qed.
Theorem C06_undo_ok_callback : forall env cfg inbox a u, mem "Undo" (c_fed_wrapped cfg) = true ->
  res_env env (undo cfg inbox a) = Ok u -> In (EApp "Wrapped:Undo" [canon a]) (evs_env env (undo cfg inbox a)).
Proof. exact undo_ok_callback. Qed.

Print Assumptions C06_origin.
Print Assumptions C06_update_needs_origin.
Print Assumptions C06_delete_needs_origin.
Print Assumptions C06_accept.
Print Assumptions C06_undo.
Print Assumptions C06_blocked.
Print Assumptions C06_blocked_ids.
Print Assumptions C06_update_foreign_origin_nothing.
Print Assumptions C06_delete_foreign_origin_nothing.
Print Assumptions C06_update_ok_hosts.
Print Assumptions C06_delete_ok_hosts.
Print Assumptions C06_undo_foreign_actor_no_callback.
Print Assumptions C06_undo_ok_callback.
