(* C19 - the bundled transport signs every request, finishes every batch.
   Transport/Model.v models pub/transport.go over three kinds of events: the clock, the signer (with everything it is
   given) and the HTTP client (with the request it receives).  The theorems hold for every clock, signer and client. *)
From Coq Require Import String List Bool Arith ZArith Permutation.
From Verif Require Import Base.ListX Base.Free Base.Time Pub.Value Gen.PubShipped Transport.Model Transport.Proofs.
Import ListNotations.
Open Scope string_scope.
Open Scope list_scope.

(* Deliver succeeds only for 200, 201, 202 (the codes isSuccess lists in the source, read by the translator) *)
Theorem C19_status : forall n, is_success n = true <-> n = 200 \/ n = 201 \/ n = 202.
Proof. exact success_codes_exact. Qed.

(* every run of Deliver: the clock, then the POST signer with the actor's key, key id, exactly the body bytes and the
   request carrying Date, Host, User-Agent = application agent + library agent and Content-Type; then - only if signing
   succeeded - the client, with exactly that request plus what the signer added; success iff 200 / 201 / 202 *)
Theorem C19_deliver : forall cfg b url tr r, runs (deliver cfg b url) tr r ->
  exists tz req s rest, tr = (TNow, tz) :: (TSign true (c_key cfg) (c_keyid cfg) req (Some b), s) :: rest /\
    signed_request_ok cfg true url (match tz with TTime z => z | _ => 0%Z end) (Some b) req /\
    match s with
    | TSigned added =>
        exists x, rest = [(TDo {| q_method := "POST"; q_url := url; q_headers := q_headers req ++ added; q_body := Some b |}, x)] /\
          (r = None <-> exists code txt body, x = TResp code txt body /\ (code = 200 \/ code = 201 \/ code = 202))
    | _ => rest = [] /\ r <> None
    end.
Proof. exact deliver_run. Qed.

(* every run of Dereference: likewise with the GET signer, no body, the Accept header; the body only for status 200 *)
Theorem C19_dereference : forall cfg url tr r, runs (dereference cfg url) tr r ->
  exists tz req s rest, tr = (TNow, tz) :: (TSign false (c_key cfg) (c_keyid cfg) req None, s) :: rest /\
    signed_request_ok cfg false url (match tz with TTime z => z | _ => 0%Z end) None req /\
    match s with
    | TSigned added =>
        exists x, rest = [(TDo {| q_method := "GET"; q_url := url; q_headers := q_headers req ++ added; q_body := None |}, x)] /\
          (forall body, r = inl body <-> exists txt, x = TResp 200 txt body)
    | _ => rest = [] /\ forall body, r <> inl body
    end.
Proof. exact dereference_run. Qed.

(* a batch attempts every recipient exactly once whatever the other attempts did (any number of recipients) *)
Theorem C19_batch_attempts : forall cfg b rcpts tr outs, runs (deliver_all cfg b rcpts) tr outs ->
  sign_urls tr = rcpts /\ length outs = length rcpts /\ do_count tr <= length rcpts.
Proof. exact batch_attempts_each_once. Qed.
(* ... returns an error iff at least one attempt failed, and names each failure *)
Theorem C19_batch_error_iff : forall outs, batch_result outs = None <-> Forall (fun o => o = None) outs.
Proof. exact batch_error_iff. Qed.
Theorem C19_batch_names_each : forall outs fs, batch_result outs = Some fs -> forall f, In (Some f) outs <-> In f fs.
Proof. exact batch_names_each. Qed.
(* ... in whatever order its goroutines finish *)
Theorem C19_batch_order : forall outs outs', Permutation outs outs' ->
  Permutation (failures outs) (failures outs') /\ (batch_result outs = None <-> batch_result outs' = None).
Proof. exact batch_order_irrelevant. Qed.

Example C19_example : user_agent {| c_app_agent := "myapp/1.0"; c_key := "k"; c_keyid := "id" |} = "myapp/1.0 (go-fed/activity v1.0.0)".
Proof. vm_compute. reflexivity. Qed.

Print Assumptions C19_status.
Print Assumptions C19_deliver.
Print Assumptions C19_dereference.
Print Assumptions C19_batch_attempts.
Print Assumptions C19_batch_error_iff.
Print Assumptions C19_batch_names_each.
Print Assumptions C19_batch_order.
