(* C14 - resolvers call exactly the callback written for the value's own type.
   Callbacks are named by the vocab interface of their parameter; values by
   (vocabulary URI, type name).  Domain: the shipped branch tables, re-read from
   /repo/streams/gen_*_resolver.go on this run; callback lists are arbitrary. *)
From Coq Require Import String List Bool Arith.
From Verif Require Import Base.ListX Vocab.Tables Streams.Resolver Proofs.ResolverProofs.
From Verif Require Import Gen.TablesShipped.
Import ListNotations.
Open Scope string_scope.

Theorem C14_shape : shape_errors = nil.
Proof. vm_compute. reflexivity. Qed.

(* TypeResolver: for every shipped type and EVERY callback list, either the first
   callback written for exactly this type's interface is invoked (and no other),
   or none is registered and the result is ErrNoCallbackMatch *)
Theorem C14_type_dispatch : forall t s cbs, In t types_shipped -> struct_of type_structs (t_name t) = Some s ->
  match type_resolve type_branches (t_vocab_uri t) (t_name t) cbs with
  | Invoked k => nth_error cbs k = Some s /\ (forall j, j < k -> nth_error cbs j <> Some s)
  | NoCallbackMatch => ~ In s cbs
  | _ => False
  end.
Proof. exact (type_dispatch types_shipped type_structs type_branches type_branches_wf). Qed.

Theorem C14_type_unknown : forall uri name cbs,
  (forall t, In t types_shipped -> ~ (t_vocab_uri t = uri /\ t_name t = name)) ->
  is_unmatched (type_resolve type_branches uri name cbs) = true.
Proof. exact (type_unknown types_shipped type_structs type_branches type_branches_wf). Qed.

Theorem C14_pred_dispatch : forall t s pred pass d, In t types_shipped -> struct_of type_structs (t_name t) = Some s ->
  pred_apply pred_branches (t_vocab_uri t) (t_name t) pred pass d =
    if String.eqb s pred then (if pass then PredPassed d else PredRejected) else PredicateUnmatched.
Proof. exact (pred_dispatch types_shipped type_structs pred_branches pred_branches_wf). Qed.

Theorem C14_pred_unknown : forall uri name pred pass d,
  (forall t, In t types_shipped -> ~ (t_vocab_uri t = uri /\ t_name t = name)) ->
  pred_apply pred_branches uri name pred pass d = UnhandledType.
Proof. exact (pred_unknown types_shipped type_structs pred_branches pred_branches_wf). Qed.

(* JSONResolver (and hence ToType), un-aliased @context: the type string selects
   exactly its own branch; the branch deserialises with that type's deserialiser
   (json_wf) and invokes the first callback of that type's interface *)
Theorem C14_json_tables : json_wf = true.
Proof. exact json_branches_wf. Qed.

Theorem C14_json_dispatch : forall br cbs, In br json_branches ->
  match json_handle json_branches (fun _ => "") (b_guard_name br) true cbs with
  | Invoked k => nth_error cbs k = Some (b_cb br) /\ (forall j, j < k -> nth_error cbs j <> Some (b_cb br))
  | NoCallbackMatch => ~ In (b_cb br) cbs
  | _ => False
  end.
Proof. exact (json_dispatch json_branches (fun _ => "") json_noalias_inj). Qed.

(* any alias assignment that keeps alias++name injective on the table *)
Theorem C14_json_dispatch_aliased : forall alias,
  (forall b1 b2, In b1 json_branches -> In b2 json_branches -> key alias b1 = key alias b2 -> b1 = b2) ->
  forall br cbs, In br json_branches ->
  match json_handle json_branches alias (key alias br) true cbs with
  | Invoked k => nth_error cbs k = Some (b_cb br) /\ (forall j, j < k -> nth_error cbs j <> Some (b_cb br))
  | NoCallbackMatch => ~ In (b_cb br) cbs
  | _ => False
  end.
Proof. intros alias H. exact (json_dispatch json_branches alias H). Qed.

Theorem C14_json_unknown : forall alias ts ok cbs, (forall br, In br json_branches -> key alias br <> ts) ->
  json_handle json_branches alias ts ok cbs = UnhandledType.
Proof. intros alias. exact (json_unknown json_branches alias). Qed.

(* constructors accept exactly the 63 interfaces *)
Theorem C14_constructors : set_eq json_cases all_structs = true /\ set_eq type_cases all_structs = true /\
                           set_eq pred_cases all_structs = true /\ nodupb all_structs = true.
Proof. exact constructor_cases. Qed.

Theorem C14_unmatched_errors : unmatched_errs = ["ErrPredicateUnmatched"; "ErrUnhandledType"; "ErrNoCallbackMatch"].
Proof. exact unmatched_errs_ok. Qed.

Example C14_example :
  type_resolve type_branches "https://www.w3.org/ns/activitystreams" "Note"
     ["ActivityStreamsObject"; "ActivityStreamsNote"; "ActivityStreamsNote"] = Invoked 1 /\
  type_resolve type_branches "https://www.w3.org/ns/activitystreams" "Note" ["ActivityStreamsObject"] = NoCallbackMatch /\
  type_resolve type_branches "https://www.w3.org/ns/activitystreams" "Nope" ["ActivityStreamsObject"] = UnhandledType.
Proof. vm_compute. repeat split. Qed.

Print Assumptions C14_shape.
Print Assumptions C14_type_dispatch.
Print Assumptions C14_type_unknown.
Print Assumptions C14_pred_dispatch.
Print Assumptions C14_pred_unknown.
Print Assumptions C14_json_tables.
Print Assumptions C14_json_dispatch.
Print Assumptions C14_json_dispatch_aliased.
Print Assumptions C14_json_unknown.
Print Assumptions C14_constructors.
Print Assumptions C14_unmatched_errors.
