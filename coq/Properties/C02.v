(* C02 - federated delivery reaches exactly the addressed inboxes.
   graph: which actors have an application-stored inbox, what each IRI dereferences to,
   the recursion limit, the sender's own inbox.  spec_targets g a is what the transport must be given. *)
From Coq Require Import String List Bool Arith.
From Verif Require Import Base.ListX Base.Json Base.Free Pub.Events Pub.Calls Pub.Value Pub.Util Pub.SideEffect Pub.DeliverySpec.
From Verif Require Import Proofs.DeliveryProofs.
Import ListNotations.
Open Scope string_scope.
Open Scope list_scope.

(* the specification, read declaratively: for every graph and activity, the targets are without duplicates,
   never contain the sender's own inbox, and are exactly the inboxes of the addressed non-Public actors -
   the stored inbox when the application has one, otherwise an inbox reached by dereferencing, collections
   expanded while depth remains (Reaches is indexed by the remaining depth) *)
Theorem C02_targets : forall g a addressed t,
  collect_recipients a = Ok addressed -> spec_targets g a = Ok t ->
  NoDup t /\ ~ In (g_self g) t /\
  forall i, In i t <-> i <> g_self g /\ exists u, In u addressed /\ is_public u = false /\
                (g_stored_inbox g u = Some i \/ (g_stored_inbox g u = None /\ Reaches g (g_depth g) u (Ok i))).
Proof. exact spec_targets_char. Qed.

(* unfetchable / unparsable / unknown-type recipients contribute nothing (contribute = CNothing has no Reaches rule);
   the only failure is a dereferenced actor document without a usable inbox *)
Theorem C02_failure : forall g a addressed e,
  collect_recipients a = Ok addressed -> spec_targets g a = Err e ->
  exists u, In u addressed /\ is_public u = false /\ g_stored_inbox g u = None /\ Reaches g (g_depth g) u (Err e).
Proof. exact spec_targets_err. Qed.

(* what is dereferenced: addressed non-Public ids without a stored inbox, and members of the collections reached
   from them; every visit is justified by a chain of collections shorter than the configured depth *)
Theorem C02_dereferenced : forall g addressed v,
  In v (derefs_spec g addressed) <->
  exists u, In u addressed /\ is_public u = false /\ g_stored_inbox g u = None /\ Visits g (g_depth g) u v.
Proof. exact derefs_char. Qed.
(* Public is never dereferenced - not when addressed, not when a fetched collection lists it *)
Theorem C02_public_never : forall g addressed v, In v (derefs_spec g addressed) -> is_public v = false.
Proof. intros g addressed v. unfold derefs_spec. apply derefs_not_public. Qed.
Theorem C02_depth : forall g n u v, Visits g n u v -> exists path, chain g n u v path /\ length path < n.
Proof. exact visits_chain. Qed.
Theorem C02_origin : forall g n u v, Visits g n u v -> v = u \/ exists w ms, classify (g_deref g w) = RMore ms /\ In v ms.
Proof. exact visits_origin. Qed.

(* the model of Deliver meets the specification: in the environment a graph presents (every Database and
   Transport call succeeds), Deliver returns the stripped activity, hands the payload over exactly once with
   exactly the specified inboxes, and dereferences exactly the specified sequence *)
Theorem C02_deliver : forall g env outbox sender sender_doc,
  (forall u, env (EDeref u) = deref_answer (g_deref g u)) ->
  (forall i, env (ELock i) = AOk) ->
  (forall a, env (EDb "InboxForActor" [JStr a]) = match g_stored_inbox g a with Some i => AIri i | None => ANone end) ->
  (forall b, env (ENewTransport b) = AOk) ->
  env (EApp "MaxDeliveryRecursionDepth" []) = ANat (g_depth g) -> g_depth g <> 0 ->
  env (EDb "ActorForOutbox" [JStr outbox]) = AIri sender ->
  env (EDb "Get" [JStr sender]) = AJson sender_doc -> get_inbox sender_doc = Ok (g_self g) ->
  (forall p r, env (EBatchDeliver p r) = AOk) ->
  forall a targets, spec_targets g a = Ok targets ->
  let '(r, tr) := run_env env (deliver outbox a) in
  r = Ok (strip_hidden a) /\ batch_recipients tr = [targets] /\
  flat_map (fun e => match e with EDeref u => [u] | _ => [] end) tr =
    derefs g (g_depth g) (filter (fun x => negb (has_stored g x)) (filter_public (match collect_recipients a with Ok l => l | _ => [] end))).
Proof. exact deliver_meets_spec. Qed.

(* run_env produces runs of the program: the statement above is about an execution of the model *)
Theorem C02_run_env_sound : forall A env (m : prog A), runs m (map (fun e => (e, env e)) (snd (run_env env m))) (fst (run_env env m)).
Proof. exact @run_env_runs. Qed.

(* for EVERY environment (any call may fail): at most one hand-over, exactly one when Deliver succeeds *)
Theorem C02_once : forall outbox a tr r, runs (deliver outbox a) tr r ->
  length (batches tr) <= 1 /\ (is_ok r = true -> length (batches tr) = 1).
Proof. exact deliver_once. Qed.

(* non-vacuity: a graph with a stored inbox, a collection containing an actor, a nested collection beyond the
   depth, a garbled document, Public, the sender, and a duplicate *)
Definition ex_actor (id inbox : string) : json := JObj [("@context", JStr "https://www.w3.org/ns/activitystreams"); ("type", JStr "Person"); ("id", JStr id); ("inbox", JStr inbox)].
Definition ex_graph : graph :=
  {| g_stored_inbox := fun a => if String.eqb a "https://a.example/stored" then Some "https://a.example/stored/inbox" else None;
     g_deref := fun u =>
       if String.eqb u "https://b.example/bob" then DDoc (ex_actor "https://b.example/bob" "https://b.example/bob/inbox")
       else if String.eqb u "https://c.example/col" then DDoc (JObj [("@context", JStr "https://www.w3.org/ns/activitystreams"); ("type", JStr "Collection"); ("items", JArr [JStr "https://b.example/bob"; JStr "https://c.example/carol"; JStr "as:Public"; JStr "https://c.example/deep"])])
       else if String.eqb u "https://c.example/carol" then DDoc (ex_actor "https://c.example/carol" "https://c.example/carol/inbox")
       else if String.eqb u "https://c.example/deep" then DDoc (JObj [("@context", JStr "https://www.w3.org/ns/activitystreams"); ("type", JStr "OrderedCollection"); ("orderedItems", JArr [JStr "https://d.example/dave"])])
       else if String.eqb u "https://d.example/dave" then DDoc (ex_actor "https://d.example/dave" "https://d.example/dave/inbox")
       else if String.eqb u "https://me.example/me" then DDoc (ex_actor "https://me.example/me" "https://me.example/me/inbox")
       else if String.eqb u "https://x.example/garbled" then DNotJson else DFailed;
     g_depth := 2; g_self := "https://me.example/me/inbox" |}.
Definition ex_activity : json :=
  JObj [("type", JStr "Create");
        ("to", JArr [JStr "https://a.example/stored"; JStr "https://b.example/bob"; JStr "https://www.w3.org/ns/activitystreams#Public"]);
        ("cc", JArr [JStr "https://c.example/col"; JStr "https://x.example/garbled"; JStr "https://x.example/gone"]);
        ("bcc", JArr [JStr "https://me.example/me"; JStr "https://b.example/bob"])].
Example C02_example :
  spec_targets ex_graph ex_activity = Ok ["https://a.example/stored/inbox"; "https://b.example/bob/inbox"; "https://c.example/carol/inbox"] /\
  In "https://c.example/deep" (match collect_recipients ex_activity with Ok l => derefs_spec ex_graph l | _ => [] end) /\
  ~ In "https://d.example/dave" (match collect_recipients ex_activity with Ok l => derefs_spec ex_graph l | _ => [] end).
Proof. vm_compute. split; [reflexivity|split; [tauto|intuition discriminate]]. Qed.

Print Assumptions C02_targets.
Print Assumptions C02_failure.
Print Assumptions C02_dereferenced.
Print Assumptions C02_public_never.
Print Assumptions C02_depth.
Print Assumptions C02_origin.
Print Assumptions C02_deliver.
Print Assumptions C02_run_env_sound.
Print Assumptions C02_once.
