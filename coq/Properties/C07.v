(* C07 - nothing happens before authentication, authorization and protocol checks.
   For EVERY environment (every sequence of answers of the application's
   Database, Transport and callbacks): in every trace of an Actor method, every
   side-effect event (any Database call incl. Lock/Unlock, NewTransport,
   Dereference, BatchDeliver, activity / default / other callbacks,
   FederatingCallbacks / SocialCallbacks, FilterForwarding, the delegate's
   GetInbox / GetOutbox) is preceded by a successful Authenticate* answer and,
   for inbox POSTs, by Blocked = false (monitor Pub.Monitors.gate_step). *)
From Coq Require Import String List Bool.
From Verif Require Import Base.Json Base.Free Pub.Events Pub.SideEffect Pub.BaseActor Pub.Monitors Pub.Util Proofs.GateProofs.
Import ListNotations.
Open Scope string_scope.

Definition accepted (nb : bool) (tr : list (ev * ans)) : Prop := exists g, run_monitor (gate_step nb) g0 tr = Some g.

Theorem C07_gate_post_inbox : forall cfg r tr o, runs (post_inbox_http cfg r) tr o -> accepted true tr.
Proof.
  intros cfg r tr o H. destruct (wp_sound ev ans gate (gate_step _) _ _ _ (gate_post_inbox cfg r) tr o H) as [g [Hg _]]. exists g. exact Hg.
Qed.

Theorem C07_gate_post_outbox : forall cfg perm r tr o, runs (post_outbox_http cfg perm r) tr o -> accepted false tr.
Proof.
  intros cfg perm r tr o H. destruct (wp_sound ev ans gate (gate_step _) _ _ _ (gate_post_outbox cfg perm r) tr o H) as [g [Hg _]]. exists g. exact Hg.
Qed.

Theorem C07_gate_get_inbox : forall cfg r tr o, runs (get_inbox_http cfg r) tr o -> accepted false tr.
Proof.
  intros cfg r tr o H. destruct (wp_sound ev ans gate (gate_step _) _ _ _ (gate_get_inbox cfg r) tr o H) as [g [Hg _]]. exists g. exact Hg.
Qed.

Theorem C07_gate_get_outbox : forall r tr o, runs (get_outbox_http r) tr o -> accepted false tr.
Proof.
  intros r tr o H. destruct (wp_sound ev ans gate (gate_step _) _ _ _ (gate_get_outbox r) tr o H) as [g [Hg _]]. exists g. exact Hg.
Qed.

(* a request that is not an ActivityPub request: not handled, no event at all (nothing written, nobody consulted) *)
Theorem C07_not_ap :
  (forall cfg r, is_ap_post (r_method r) (r_content_type r) = false -> post_inbox_http cfg r = Ret (false, Ok tt)) /\
  (forall cfg perm r, is_ap_post (r_method r) (r_content_type r) = false -> post_outbox_http cfg perm r = Ret (false, Ok tt)) /\
  (forall cfg r, is_ap_get (r_method r) (r_accept r) = false -> get_inbox_http cfg r = Ret (false, Ok tt)) /\
  (forall r, is_ap_get (r_method r) (r_accept r) = false -> get_outbox_http r = Ret (false, Ok tt)) /\
  (forall r, is_ap_get (r_method r) (r_accept r) = false -> handler_http r = Ret (false, Ok tt)).
Proof.
  repeat split; intros.
  - apply not_ap_untouched_post_inbox; assumption.
  - apply not_ap_untouched_post_outbox; assumption.
  - apply not_ap_untouched_get_inbox; assumption.
  - apply not_ap_untouched_get_outbox; assumption.
  - apply not_ap_untouched_handler; assumption.
Qed.

(* a disabled protocol: exactly one event, WriteHeader 405, and the application is not consulted *)
Theorem C07_disabled :
  (forall cfg r, is_ap_post (r_method r) (r_content_type r) = true -> c_federating cfg = false ->
     post_inbox_http cfg r = Op (EWriteHeader 405) (fun _ => Ret (true, Ok tt))) /\
  (forall cfg perm r, is_ap_post (r_method r) (r_content_type r) = true -> c_social cfg = false ->
     post_outbox_http cfg perm r = Op (EWriteHeader 405) (fun _ => Ret (true, Ok tt))).
Proof. split; intros; [apply disabled_post_inbox|apply disabled_post_outbox]; assumption. Qed.

(* the media-type list the classification uses is rebuilt from the literals read from pub/util.go on this run *)
Example C07_media_types : media_types =
  ["application/activity+json";
   "application/ld+json;profile=https://www.w3.org/ns/activitystreams";
   "application/ld+json;profile=""https://www.w3.org/ns/activitystreams""";
   "application/ld+json ;profile=https://www.w3.org/ns/activitystreams";
   "application/ld+json ;profile=""https://www.w3.org/ns/activitystreams""";
   "application/ld+json ; profile=https://www.w3.org/ns/activitystreams";
   "application/ld+json ; profile=""https://www.w3.org/ns/activitystreams""";
   "application/ld+json; profile=https://www.w3.org/ns/activitystreams";
   "application/ld+json; profile=""https://www.w3.org/ns/activitystreams"""].
Proof. vm_compute. reflexivity. Qed.

Print Assumptions C07_gate_post_inbox.
Print Assumptions C07_gate_post_outbox.
Print Assumptions C07_gate_get_inbox.
Print Assumptions C07_gate_get_outbox.
Print Assumptions C07_not_ap.
Print Assumptions C07_disabled.
