(* C17 - inbox forwarding happens only under its three conditions, once, unchanged.
   fwd_step a (Pub/Monitors.v) is the specification as a monitor: Exists is asked once; the activity is recorded (Create,
   with exactly the received value) only when Exists answered false, and at most once; the owned collections are the
   collection values Get returned; the value search starts only when there is one; FilterForwarding is consulted only after
   Owns answered true during the search, with exactly the loaded collection ids and the received activity; the transport is
   given the received activity unchanged and exactly the members of the collections the filter returned, once. *)
From Coq Require Import String List Bool Arith.
From Verif Require Import Base.ListX Base.Json Base.Free Pub.Events Pub.Calls Pub.Value Pub.Util Pub.SideEffect Pub.Monitors.
From Verif Require Import Pub.ForwardSpec Proofs.OrderProofs Proofs.ForwardProofs Proofs.DeliveryProofs Proofs.ForwardIffProofs.
Import ListNotations.
Open Scope string_scope.
Open Scope list_scope.

(* for EVERY environment every run of InboxForwarding is accepted by the monitor *)
Theorem C17_inbox_forwarding : forall inbox a tr r, runs (inbox_forwarding inbox a) tr r ->
  exists s, run_monitor (fwd_step a) f0 tr = Some s.
Proof.
  intros inbox a tr r H. destruct (wp_sound ev ans fstate _ _ _ _ (fwd_inbox_forwarding a inbox) tr r H) as [s [E _]]. exists s. exact E.
Qed.

(* forwarded only if: not seen before and recorded now, an owned collection was addressed, an owned value was found *)
Theorem C17_only_if : forall a tr s, run_monitor (fwd_step a) f0 tr = Some s -> f_sent s = true ->
  f_exists s = Some false /\ f_created s = 1 /\ f_cols s <> [] /\ f_owned_value s = true.
Proof. exact fwd_only_if. Qed.

(* once: at most one hand-over; recorded as seen at most once (and never when Exists answered true: the monitor refuses the Create) *)
Theorem C17_once : forall a tr s, run_monitor (fwd_step a) f0 tr = Some s ->
  length (filter is_fwd_batch tr) <= 1 /\ length (filter is_create tr) <= 1.
Proof. intros a tr s H. destruct (fwd_once a tr f0 s H) as [H1 H2]. simpl in H1, H2. rewrite Nat.add_0_r in H1, H2. split; assumption. Qed.

(* the recursion of the value search consumes the depth: with no depth left nothing is owned *)
Theorem C17_depth : forall box v, has_forwarding_values 0 box v = ok false.
Proof. reflexivity. Qed.

(* ---- "if and only if": as a function of the world (Pub/ForwardSpec.v: what the server owns, what each IRI dereferences to,
   what is stored, whether the activity was seen, the depth limit) ----
   Reach w depth a: some value at most depth-1 levels below a (through inReplyTo / object / target / tag, embedded or
   dereferenced) names something this server owns.  The value search of the model, run against ANY environment that answers
   as the world does, answers true exactly then (whenever it answers at all: an undecodable document or an embedded value
   without id fails the request). *)
Theorem C17_search : forall w env,
  (forall i, env (ELock i) = AOk) -> (forall i, env (EDb "Owns" [JStr i]) = ABool (fw_owns w i)) ->
  (forall b, env (ENewTransport b) = AOk) -> (forall u, env (EDeref u) = deref_answer (fw_deref w u)) ->
  forall depth box v b, fst (run_env env (has_forwarding_values depth box v)) = Ok b -> (b = true <-> Reach w depth v).
Proof.
  intros w env H1 H2 H3 H4 depth box v b H. rewrite (res_has_values w env H1 H2 H3 H4 depth box v b H). apply reach_b_spec.
Qed.

(* must_forward w a: not seen, an owned Collection / OrderedCollection among to / cc / audience, an owned value within the depth *)
Theorem C17_must_forward_meaning : forall w a, must_forward w a = true <->
  fw_seen w = false /\
  exists l, addressed a = Ok l /\
            (exists c, In c l /\ fw_owns w c = true /\ is_collection_value (fw_get w c) = true) /\
            Reach w (effective_depth w) a.
Proof. exact must_forward_spec. Qed.

(* InboxForwarding, for every world and every environment answering as that world does: whenever it succeeds, the received
   activity was handed to the transport exactly once if must_forward, and not at all otherwise *)
Theorem C17_iff : forall w env,
  (forall i, env (ELock i) = AOk) -> (forall i, env (EDb "Owns" [JStr i]) = ABool (fw_owns w i)) ->
  (forall b, env (ENewTransport b) = AOk) -> (forall u, env (EDeref u) = deref_answer (fw_deref w u)) ->
  (forall i, env (EDb "Exists" [JStr i]) = ABool (fw_seen w)) -> (forall x, env (EDb "Create" [x]) = AOk) ->
  (forall i, env (EDb "Get" [JStr i]) = AJson (fw_get w i)) ->
  env (EApp "MaxInboxForwardingRecursionDepth" []) = ANat (fw_depth w) ->
  (forall args, env (EApp "FilterForwarding" args) = AIris (fw_filter w args)) ->
  (forall p r, env (EBatchDeliver p r) = AOk) ->
  forall inbox a, fst (run_env env (inbox_forwarding inbox a)) = Ok tt ->
  if must_forward w a
  then exists rcpts, batches (snd (run_env env (inbox_forwarding inbox a))) = [EBatchDeliver (canon (streams_serialize a)) rcpts]
  else batches (snd (run_env env (inbox_forwarding inbox a))) = [].
Proof. intros w env H1 H2 H3 H4 H5 H6 H7 H8 H9 H10. exact (forwarding_iff w env H1 H2 H3 H4 H5 H6 H7 H8 H9 H10). Qed.

Theorem C17_iff_world : forall w inbox a, fst (run_env (env_of w) (inbox_forwarding inbox a)) = Ok tt ->
  if must_forward w a
  then exists rcpts, batches (snd (run_env (env_of w) (inbox_forwarding inbox a))) = [EBatchDeliver (canon (streams_serialize a)) rcpts]
  else batches (snd (run_env (env_of w) (inbox_forwarding inbox a))) = [].
Proof. exact forwarding_iff_world. Qed.

(* REFUTED part of the statement ("forwarded to the inboxes of the members"): the transport is handed the member ids
   themselves.  Witness: an owned collection whose one member is an actor with its own inbox; the model (which replays the
   implementation) hands over the member id.  Known finding F15. *)
Definition rf_col : string := "https://example.com/cols/1".
Definition rf_member : string := "https://remote.example/users/m".
Definition rf_note : string := "https://example.com/notes/1".
Definition rf_activity : json :=
  JObj [("type", JStr "Create"); ("id", JStr "https://remote.example/act/1"); ("actor", JStr "https://remote.example/users/x");
        ("to", JStr rf_col); ("inReplyTo", JStr rf_note); ("object", JObj [("type", JStr "Note"); ("id", JStr "https://remote.example/n/1")])].
Definition rf_env (e : ev) : ans :=
  match e with
  | ELock _ | EUnlock _ | ENewTransport _ | EBatchDeliver _ _ => AOk
  | EDb op args =>
      if String.eqb op "Exists" then ABool false else if String.eqb op "Create" then AOk
      else if String.eqb op "Owns" then ABool (match args with [JStr i] => String.eqb i rf_col || String.eqb i rf_note | _ => false end)
      else if String.eqb op "Get" then AJson (JObj [("type", JStr "Collection"); ("id", JStr rf_col); ("items", JStr rf_member)])
      else AErr
  | EApp n _ => if String.eqb n "FilterForwarding" then AIris [rf_col] else ANat 2
  | _ => AErr
  end.
Theorem C17_inboxes_refuted :
  batch_recipients (snd (run_env rf_env (inbox_forwarding "https://example.com/users/alice/inbox" rf_activity))) = [[rf_member]] /\
  fst (run_env rf_env (inbox_forwarding "https://example.com/users/alice/inbox" rf_activity)) = Ok tt.
Proof. vm_compute. split; reflexivity. Qed.

(* the hypotheses of C17_iff are met, with and without forwarding *)
Definition ex_world (seen : bool) (depth : nat) : fworld :=
  {| fw_owns := fun i => String.eqb i rf_col || String.eqb i rf_note;
     fw_deref := fun _ => DFailed;
     fw_get := fun _ => JObj [("type", JStr "Collection"); ("id", JStr rf_col); ("items", JStr rf_member)];
     fw_seen := seen; fw_depth := depth; fw_filter := fun _ => [rf_col] |}.
Example C17_iff_not_vacuous :
  must_forward (ex_world false 2) rf_activity = true /\ must_forward (ex_world true 2) rf_activity = false /\
  fst (run_env (env_of (ex_world false 2)) (inbox_forwarding "https://example.com/users/alice/inbox" rf_activity)) = Ok tt /\
  batch_recipients (snd (run_env (env_of (ex_world false 2)) (inbox_forwarding "https://example.com/users/alice/inbox" rf_activity))) = [[rf_member]].
Proof. vm_compute. repeat split; reflexivity. Qed.

Print Assumptions C17_search.
Print Assumptions C17_must_forward_meaning.
Print Assumptions C17_iff.
Print Assumptions C17_iff_world.
Print Assumptions C17_inbox_forwarding.
Print Assumptions C17_inboxes_refuted.
Print Assumptions C17_only_if.
Print Assumptions C17_once.
Print Assumptions C17_depth.
