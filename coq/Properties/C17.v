(* C17 - inbox forwarding happens only under its three conditions, once, unchanged.
   fwd_step a (Pub/Monitors.v) is the specification as a monitor: Exists is asked once; the activity is recorded (Create,
   with exactly the received value) only when Exists answered false, and at most once; the owned collections are the
   collection values Get returned; the value search starts only when there is one; FilterForwarding is consulted only after
   Owns answered true during the search, with exactly the loaded collection ids and the received activity; the transport is
   given the received activity unchanged and exactly the members of the collections the filter returned, once. *)
From Coq Require Import String List Bool Arith.
From Verif Require Import Base.ListX Base.Json Base.Free Pub.Events Pub.Calls Pub.Value Pub.Util Pub.SideEffect Pub.Monitors.
From Verif Require Import Proofs.OrderProofs Proofs.ForwardProofs Proofs.DeliveryProofs.
Import ListNotations.
Open Scope string_scope.
Open Scope list_scope.

(* for EVERY environment every run of InboxForwarding is accepted by the monitor *)
Theorem C17_inbox_forwarding : forall inbox a tr r, runs (inbox_forwarding inbox a) tr r ->
  exists s, run_monitor (fwd_step a) f0 tr = Some s.
Proof.
  intros inbox a tr r H. destruct (wp_sound ev ans fstate _ _ _ _ (fwd_inbox_forwarding a inbox) tr r H) as [s [E _]]. exists s. exact E.
Qed.

(* forwarded only if: not seen before and recorded now, an owned collection was addressed, an owned value was found *)
Theorem C17_only_if : forall a tr s, run_monitor (fwd_step a) f0 tr = Some s -> f_sent s = true ->
  f_exists s = Some false /\ f_created s = 1 /\ f_cols s <> [] /\ f_owned_value s = true.
Proof. exact fwd_only_if. Qed.

(* once: at most one hand-over; recorded as seen at most once (and never when Exists answered true: the monitor refuses the Create) *)
Theorem C17_once : forall a tr s, run_monitor (fwd_step a) f0 tr = Some s ->
  length (filter is_fwd_batch tr) <= 1 /\ length (filter is_create tr) <= 1.
Proof. intros a tr s H. destruct (fwd_once a tr f0 s H) as [H1 H2]. simpl in H1, H2. rewrite Nat.add_0_r in H1, H2. split; assumption. Qed.

(* the recursion of the value search consumes the depth: with no depth left nothing is owned *)
Theorem C17_depth : forall box v, has_forwarding_values 0 box v = ok false.
Proof. reflexivity. Qed.

(* REFUTED part of the statement ("forwarded to the inboxes of the members"): the transport is handed the member ids
   themselves.  Witness: an owned collection whose one member is an actor with its own inbox; the model (which replays the
   implementation) hands over the member id.  Known finding F15. *)
Definition rf_col : string := "https://example.com/cols/1".
Definition rf_member : string := "https://remote.example/users/m".
Definition rf_note : string := "https://example.com/notes/1".
Definition rf_activity : json :=
  JObj [("type", JStr "Create"); ("id", JStr "https://remote.example/act/1"); ("actor", JStr "https://remote.example/users/x");
        ("to", JStr rf_col); ("inReplyTo", JStr rf_note); ("object", JObj [("type", JStr "Note"); ("id", JStr "https://remote.example/n/1")])].
Definition rf_env (e : ev) : ans :=
  match e with
  | ELock _ | EUnlock _ | ENewTransport _ | EBatchDeliver _ _ => AOk
  | EDb op args =>
      if String.eqb op "Exists" then ABool false else if String.eqb op "Create" then AOk
      else if String.eqb op "Owns" then ABool (match args with [JStr i] => String.eqb i rf_col || String.eqb i rf_note | _ => false end)
      else if String.eqb op "Get" then AJson (JObj [("type", JStr "Collection"); ("id", JStr rf_col); ("items", JStr rf_member)])
      else AErr
  | EApp n _ => if String.eqb n "FilterForwarding" then AIris [rf_col] else ANat 2
  | _ => AErr
  end.
Theorem C17_inboxes_refuted :
  batch_recipients (snd (run_env rf_env (inbox_forwarding "https://example.com/users/alice/inbox" rf_activity))) = [[rf_member]] /\
  fst (run_env rf_env (inbox_forwarding "https://example.com/users/alice/inbox" rf_activity)) = Ok tt.
Proof. vm_compute. split; reflexivity. Qed.

Print Assumptions C17_inbox_forwarding.
Print Assumptions C17_inboxes_refuted.
Print Assumptions C17_only_if.
Print Assumptions C17_once.
Print Assumptions C17_depth.
