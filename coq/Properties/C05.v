(* C05 - outbox posts are identified, normalised, stored, then delivered.
   ord_step (Pub/Monitors.v) is the ordering specification as a monitor over Database / Transport / response events:
   SetOutbox is accepted only once, only directly for the activity the last successful Create stored, and only when
   the page written is the page read with that activity's id at the front; BatchDeliver, the Location header and
   status 201 are accepted only after that write succeeded, and Location must be that id. *)
From Coq Require Import String List Bool Arith.
From Verif Require Import Base.ListX Base.Json Base.Free Pub.Events Pub.Calls Pub.Value Pub.Util Pub.SideEffect Pub.Soc Pub.BaseActor Pub.Monitors.
From Verif Require Import Pub.Fed Pub.EffectSpec Proofs.EffectProofs Proofs.OrderProofs Proofs.NormalizeProofs Proofs.WrapProofs Proofs.ForwardIffProofs Proofs.SectionProofs Proofs.NewIdProofs.
Import ListNotations.
Open Scope string_scope.
Open Scope list_scope.

(* for EVERY environment (any call may fail, any answers): every run of PostOutbox is accepted by the monitor *)
Theorem C05_post_outbox : forall cfg perm r tr out, runs (post_outbox_http cfg perm r) tr out ->
  exists s, run_monitor ord_step o0 tr = Some s.
Proof.
  intros cfg perm r tr out H.
  destruct (wp_sound ev ans ostate ord_step _ _ _ (ord_post_outbox_http cfg perm r) tr out H) as [s [E _]]. exists s. exact E.
Qed.

(* ... and every run of Send; when Send succeeds the outbox was written and the returned activity carries the stored id *)
Theorem C05_send : forall cfg perm outbox v tr res, runs (send cfg perm outbox v) tr res ->
  exists s, run_monitor ord_step o0 tr = Some s /\
            match res with Ok a => o_set s = 1 /\ o_created s = Some (id_str a) | _ => True end.
Proof.
  intros cfg perm outbox v tr res H.
  exact (wp_sound ev ans ostate ord_step _ _ _ (ord_send cfg perm outbox v) tr res H).
Qed.

(* what acceptance means for a trace: the outbox is written at most once ... *)
Theorem C05_once : forall tr s, run_monitor ord_step o0 tr = Some s -> length (filter is_set_outbox tr) <= 1.
Proof. intros tr s H. pose proof (ord_once tr o0 s H) as H1. simpl in H1. rewrite Nat.add_0_r in H1. exact H1. Qed.

(* ... and every hand-over to the transport comes after a successful write of the outbox *)
Theorem C05_deliver_after_store : forall tr s, run_monitor ord_step o0 tr = Some s ->
  forall pre p post, tr = pre ++ p :: post -> OrderProofs.is_batch p = true ->
  exists w, In w pre /\ is_set_outbox w = true /\ snd w = AOk.
Proof. intros tr s H. apply (ord_deliver_after_write tr o0 s H). reflexivity. Qed.

(* the write puts the id at the front of what was read ... *)
Theorem C05_front : forall i cur m, cur = JObj m ->
  listing (canon (prepend_iri "orderedItems" i cur)) = JStr i :: map canon (listing cur).
Proof. exact listing_prepend. Qed.

(* ... so after any history of accepted posts against a store that returns what was last written, the outbox
   lists exactly the returned ids, newest first, in front of what it held before *)
Theorem C05_history : forall ids page m, page = JObj m -> all_iris (listing page) ->
  listing (after_posts page ids) = map JStr (rev ids) ++ listing page.
Proof. exact listing_after_posts. Qed.

Example C05_example :
  let page := JObj [("id", JStr "https://x.example/outbox"); ("type", JStr "OrderedCollectionPage"); ("orderedItems", JStr "https://x.example/old")] in
  listing (after_posts page ["https://x.example/1"; "https://x.example/2"]) =
    [JStr "https://x.example/2"; JStr "https://x.example/1"; JStr "https://x.example/old"].
Proof. vm_compute. reflexivity. Qed.

(* ---- normalisation of a client's Create (normalizeRecipients): for EVERY order in which Go visits its maps (perm: any
   function that keeps the members of a list), every activity and every number of embedded objects - each of the five
   addressing properties of the activity ends as the union over activity and objects, and each object keeps its own
   recipients and gains the activity's.  flat_addr: the addressing values are not arrays nested in arrays. ---- *)
Theorem C05_normalisation : forall perm, (forall l x, In x (perm l) <-> In x l) ->
  forall a m a', a = JObj m -> flat_addr a -> Forall flat_addr (elems0 "object" a) ->
  normalize_recipients perm a = Ok a' ->
  forall p, In p addressing ->
  exists A n, ids_of p a = Ok A /\ ids_of p a' = Ok n /\
    (forall x, In x n <-> In x A \/ exists e o, In e (elems0 "object" a) /\ ids_of p e = Ok o /\ In x o) /\
    Forall2 (fun e e' => exists o n', ids_of p e = Ok o /\ ids_of p e' = Ok n' /\ forall x, In x n' <-> In x o \/ In x A)
            (elems0 "object" a) (elems0 "object" a').
Proof. exact normalisation_unions. Qed.

Definition ex_create : json :=
  JObj [("type", JStr "Create"); ("actor", JStr "https://example.com/users/alice"); ("to", JStr "https://remote.example/users/carol");
        ("object", JArr [JObj [("type", JStr "Note"); ("content", JStr "one"); ("bcc", JStr "https://remote.example/users/dave"); ("to", JArr []); ("bto", JArr []); ("cc", JArr []); ("audience", JArr [])];
                         JObj [("type", JStr "Note"); ("content", JStr "two"); ("to", JStr "https://remote.example/users/erin"); ("bto", JArr []); ("cc", JArr []); ("bcc", JArr []); ("audience", JArr [])]])].
Example C05_normalisation_not_vacuous :
  match normalize_recipients (fun l => l) ex_create with
  | Ok a' => ids_of "to" a' = Ok ["https://remote.example/users/carol"; "https://remote.example/users/erin"] /\
             ids_of "bcc" a' = Ok ["https://remote.example/users/dave"]
  | _ => False
  end.
Proof. vm_compute. split; reflexivity. Qed.

(* ---- wrapping: a non-activity becomes a Create whose actor is the outbox's owner, whose object is the value itself, which
   copies published and - as id lists - each of to / bto / cc / bcc / audience the value has, and has no other member;
   wrapping fails exactly when an addressing entry of the value has no id ---- *)
Theorem C05_wrap : forall o actor c, wrap_in_create o actor = Ok c ->
  jget "type" c = Some (JStr "Create") /\
  jget "actor" c = Some (JStr actor) /\
  jget "object" c = Some o /\
  jget "published" c = (if vhas o "published" then jget "published" o else None) /\
  (forall p, In p addressing ->
     (forall l, vhas o p = true -> elems p o = Some l ->
        exists ids, to_ids p l = Ok ids /\ jget p c = Some (match ids with [x] => JStr x | _ => JArr (map JStr ids) end)) /\
     (vhas o p = false \/ elems p o = None -> jget p c = None)) /\
  (forall p ids, In p addressing -> vhas o p = true -> ids_of p o = Ok ids -> ids_of p c = ids_of p o) /\
  (forall k, jget k c <> None -> k = "type" \/ k = "object" \/ k = "actor" \/ k = "published" \/ In k addressing).
Proof. exact wrap_in_create_spec. Qed.
Theorem C05_wrap_fails_iff : forall o actor,
  (exists c, wrap_in_create o actor = Ok c) <->
  (forall p l, In p addressing -> vhas o p = true -> elems p o = Some l -> exists ids, to_ids p l = Ok ids).
Proof. exact wrap_in_create_ok_iff. Qed.

(* ---- attribution in the Social Create: the model's create IS attribute, then normalize_recipients (C05_normalisation),
   then the storing of every object; attribute leaves the actor property as the union of the actors and every object's
   attributedTo, gives every object that has the attributedTo property its own entries plus every actor, and changes nothing
   else - for every order in which Go visits its maps.  flat: no array nested directly in an array. ---- *)
Theorem C05_create_decomposition : forall cfg perm a,
  Soc.create cfg perm a =
  if Fed.object_required a then fail EObjectRequired else
  bindr (lift (attribute perm a)) (fun a2 =>
  bindr (lift (normalize_recipients perm a2)) (fun a3 =>
  bindr (foreach (elems0 "object" a3) (fun e =>
            match e_type "object" e with
            | None => panic "social create: object is not a value"
            | Some obj => bindr (lift (get_id obj)) (fun id => with_lock_deferred id (db_unit "Create" [obj]))
            end)) (fun _ =>
  bindr (swrapped cfg "Create" a3) (fun _ => ok (a3, tt))))).
Proof. exact create_attribute. Qed.
(* for EVERY Create, with or without an actor property (absent: A = [], and the property is created when there is something to
   put into it - fix F25); last clause: when the objects contribute no id the activity lacks, the actor member is untouched *)
Theorem C05_attribution : forall perm, (forall l x, In x (perm l) <-> In x l) ->
  forall a m a2 A, a = JObj m ->
  no_arrays (elems0 "actor" a) = true ->
  no_arrays (elems0 "object" a) = true ->
  Forall (fun e => no_arrays (elems0 "attributedTo" e) = true) (elems0 "object" a) ->
  attribute perm a = Ok a2 -> ids_of "actor" a = Ok A ->
  (exists A2, ids_of "actor" a2 = Ok A2 /\
     forall x, In x A2 <-> In x A \/ exists e t ids, In e (elems0 "object" a) /\ e_type "object" e = Some t /\ vhas t "attributedTo" = true /\
                                                   ids_of "attributedTo" t = Ok ids /\ In x ids) /\
  Forall2 (obj_attr_rel A) (elems0 "object" a) (elems0 "object" a2) /\
  (forall q, q <> "actor" -> q <> "object" -> jget q a2 = jget q a) /\
  ((forall e t ids x, In e (elems0 "object" a) -> e_type "object" e = Some t -> vhas t "attributedTo" = true ->
                      ids_of "attributedTo" t = Ok ids -> In x ids -> In x A) -> jget "actor" a2 = jget "actor" a).
Proof. exact attribution_unions. Qed.
(* a Create WITHOUT an actor property: its actors afterwards are exactly the attributedTo ids of its objects; when the objects
   have none, it still has no actor property *)
Theorem C05_attribution_no_actor : forall perm, (forall l x, In x (perm l) <-> In x l) ->
  forall a m a2, a = JObj m -> elems "actor" a = None ->
  no_arrays (elems0 "object" a) = true ->
  Forall (fun e => no_arrays (elems0 "attributedTo" e) = true) (elems0 "object" a) ->
  attribute perm a = Ok a2 ->
  (exists A2, ids_of "actor" a2 = Ok A2 /\
     forall x, In x A2 <-> exists e t ids, In e (elems0 "object" a) /\ e_type "object" e = Some t /\ vhas t "attributedTo" = true /\
                                         ids_of "attributedTo" t = Ok ids /\ In x ids) /\
  Forall2 (obj_attr_rel []) (elems0 "object" a) (elems0 "object" a2) /\
  (forall q, q <> "actor" -> q <> "object" -> jget q a2 = jget q a) /\
  ((forall e t ids, In e (elems0 "object" a) -> e_type "object" e = Some t -> vhas t "attributedTo" = true ->
                    ids_of "attributedTo" t = Ok ids -> ids = []) -> jget "actor" a2 = None).
Proof. exact attribution_no_actor. Qed.

(* ---- fresh ids, for EVERY environment: the activity gets the id NewID answered for it; of a Create every embedded object
   gets the id NewID answered for it (a client-chosen one is overwritten), in order, one call each, nothing else changes;
   another activity only gets its own id.  The ids afterwards are the answers call by call: pairwise different answers that
   avoid a set of old ids give pairwise different ids outside that set. ---- *)
Theorem C05_fresh_ids : forall env a m a', a = JObj m -> res_env env (add_new_ids a) = Ok a' ->
  exists id, env (newid a) = AIri id /\ jget "id" a' = Some (JStr id) /\
    if is_or_extends (type_name a) "Create"
    then vhas a "object" = true /\
         Forall2 (gets_id env) (elems0 "object" a) (elems0 "object" a') /\
         (forall q, q <> "id" -> q <> "object" -> jget q a' = jget q a) /\
         evs_env env (add_new_ids a) = newid a :: map newid (elems0 "object" a)
    else a' = jset "id" (JStr id) a /\ evs_env env (add_new_ids a) = [newid a].
Proof. exact add_new_ids_spec. Qed.
Theorem C05_ids_are_the_answers : forall env a m a', a = JObj m -> res_env env (add_new_ids a) = Ok a' ->
  let calls := evs_env env (add_new_ids a) in
  map (jget "id") (identified a a') = map ans_id (map env calls) /\
  (NoDup (map env calls) -> NoDup (map (jget "id") (identified a a'))) /\
  (forall olds, (forall c, In c calls -> ~ In (ans_id (env c)) olds) ->
                forall v, In v (identified a a') -> ~ In (jget "id" v) olds).
Proof. exact add_new_ids_fresh. Qed.
(* the Social side of an outbox post, for every environment: what is stored by Create and whose id is put in front of the
   outbox page is the value the callbacks returned, under the id it was given *)
Theorem C05_post_outbox_stores : forall env cfg outbox raw perm a r,
  res_env env (Soc.post_outbox cfg outbox raw perm a) = Ok r ->
  let v := fst r in
  res_env env (soc_callbacks cfg outbox raw perm a) = Ok r /\
  jget "id" v = jget "id" a /\
  exists page, env (EDb "GetOutbox" [JStr outbox]) = AJson page /\
    evs_env env (Soc.post_outbox cfg outbox raw perm a) =
      evs_env env (soc_callbacks cfg outbox raw perm a) ++
      [ELock (id_str v); EDb "Create" [canon v]; EUnlock (id_str v);
       ELock outbox; EDb "GetOutbox" [JStr outbox]; EDb "SetOutbox" [canon (prepend_iri "orderedItems" (id_str v) page)]; EUnlock outbox].
Proof. exact post_outbox_stores. Qed.

Print Assumptions C05_post_outbox.
Print Assumptions C05_send.
Print Assumptions C05_once.
Print Assumptions C05_deliver_after_store.
Print Assumptions C05_front.
Print Assumptions C05_history.
Print Assumptions C05_normalisation.
Print Assumptions C05_wrap.
Print Assumptions C05_wrap_fails_iff.
Print Assumptions C05_create_decomposition.
Print Assumptions C05_attribution.
Print Assumptions C05_attribution_no_actor.
Print Assumptions C05_fresh_ids.
Print Assumptions C05_ids_are_the_answers.
Print Assumptions C05_post_outbox_stores.
