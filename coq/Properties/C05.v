(* C05 - outbox posts are identified, normalised, stored, then delivered.
   ord_step (Pub/Monitors.v) is the ordering specification as a monitor over Database / Transport / response events:
   SetOutbox is accepted only once, only directly for the activity the last successful Create stored, and only when
   the page written is the page read with that activity's id at the front; BatchDeliver, the Location header and
   status 201 are accepted only after that write succeeded, and Location must be that id. *)
From Coq Require Import String List Bool Arith.
From Verif Require Import Base.ListX Base.Json Base.Free Pub.Events Pub.Calls Pub.Value Pub.Util Pub.SideEffect Pub.Soc Pub.BaseActor Pub.Monitors.
From Verif Require Import Proofs.OrderProofs Proofs.NormalizeProofs.
Import ListNotations.
Open Scope string_scope.
Open Scope list_scope.

(* for EVERY environment (any call may fail, any answers): every run of PostOutbox is accepted by the monitor *)
Theorem C05_post_outbox : forall cfg perm r tr out, runs (post_outbox_http cfg perm r) tr out ->
  exists s, run_monitor ord_step o0 tr = Some s.
Proof.
  intros cfg perm r tr out H.
  destruct (wp_sound ev ans ostate ord_step _ _ _ (ord_post_outbox_http cfg perm r) tr out H) as [s [E _]]. exists s. exact E.
Qed.

(* ... and every run of Send; when Send succeeds the outbox was written and the returned activity carries the stored id *)
Theorem C05_send : forall cfg perm outbox v tr res, runs (send cfg perm outbox v) tr res ->
  exists s, run_monitor ord_step o0 tr = Some s /\
            match res with Ok a => o_set s = 1 /\ o_created s = Some (id_str a) | _ => True end.
Proof.
  intros cfg perm outbox v tr res H.
  exact (wp_sound ev ans ostate ord_step _ _ _ (ord_send cfg perm outbox v) tr res H).
Qed.

(* what acceptance means for a trace: the outbox is written at most once ... *)
Theorem C05_once : forall tr s, run_monitor ord_step o0 tr = Some s -> length (filter is_set_outbox tr) <= 1.
Proof. intros tr s H. pose proof (ord_once tr o0 s H) as H1. simpl in H1. rewrite Nat.add_0_r in H1. exact H1. Qed.

(* ... and every hand-over to the transport comes after a successful write of the outbox *)
Theorem C05_deliver_after_store : forall tr s, run_monitor ord_step o0 tr = Some s ->
  forall pre p post, tr = pre ++ p :: post -> is_batch p = true ->
  exists w, In w pre /\ is_set_outbox w = true /\ snd w = AOk.
Proof. intros tr s H. apply (ord_deliver_after_write tr o0 s H). reflexivity. Qed.

(* the write puts the id at the front of what was read ... *)
Theorem C05_front : forall i cur m, cur = JObj m ->
  listing (canon (prepend_iri "orderedItems" i cur)) = JStr i :: map canon (listing cur).
Proof. exact listing_prepend. Qed.

(* ... so after any history of accepted posts against a store that returns what was last written, the outbox
   lists exactly the returned ids, newest first, in front of what it held before *)
Theorem C05_history : forall ids page m, page = JObj m -> all_iris (listing page) ->
  listing (after_posts page ids) = map JStr (rev ids) ++ listing page.
Proof. exact listing_after_posts. Qed.

Example C05_example :
  let page := JObj [("id", JStr "https://x.example/outbox"); ("type", JStr "OrderedCollectionPage"); ("orderedItems", JStr "https://x.example/old")] in
  listing (after_posts page ["https://x.example/1"; "https://x.example/2"]) =
    [JStr "https://x.example/2"; JStr "https://x.example/1"; JStr "https://x.example/old"].
Proof. vm_compute. reflexivity. Qed.

(* ---- normalisation of a client's Create (normalizeRecipients): for EVERY order in which Go visits its maps (perm: any
   function that keeps the members of a list), every activity and every number of embedded objects - each of the five
   addressing properties of the activity ends as the union over activity and objects, and each object keeps its own
   recipients and gains the activity's.  flat_addr: the addressing values are not arrays nested in arrays. ---- *)
Theorem C05_normalisation : forall perm, (forall l x, In x (perm l) <-> In x l) ->
  forall a m a', a = JObj m -> flat_addr a -> Forall flat_addr (elems0 "object" a) ->
  normalize_recipients perm a = Ok a' ->
  forall p, In p addressing ->
  exists A n, ids_of p a = Ok A /\ ids_of p a' = Ok n /\
    (forall x, In x n <-> In x A \/ exists e o, In e (elems0 "object" a) /\ ids_of p e = Ok o /\ In x o) /\
    Forall2 (fun e e' => exists o n', ids_of p e = Ok o /\ ids_of p e' = Ok n' /\ forall x, In x n' <-> In x o \/ In x A)
            (elems0 "object" a) (elems0 "object" a').
Proof. exact normalisation_unions. Qed.

Definition ex_create : json :=
  JObj [("type", JStr "Create"); ("actor", JStr "https://example.com/users/alice"); ("to", JStr "https://remote.example/users/carol");
        ("object", JArr [JObj [("type", JStr "Note"); ("content", JStr "one"); ("bcc", JStr "https://remote.example/users/dave"); ("to", JArr []); ("bto", JArr []); ("cc", JArr []); ("audience", JArr [])];
                         JObj [("type", JStr "Note"); ("content", JStr "two"); ("to", JStr "https://remote.example/users/erin"); ("bto", JArr []); ("cc", JArr []); ("bcc", JArr []); ("audience", JArr [])]])].
Example C05_normalisation_not_vacuous :
  match normalize_recipients (fun l => l) ex_create with
  | Ok a' => ids_of "to" a' = Ok ["https://remote.example/users/carol"; "https://remote.example/users/erin"] /\
             ids_of "bcc" a' = Ok ["https://remote.example/users/dave"]
  | _ => False
  end.
Proof. vm_compute. split; reflexivity. Qed.

Print Assumptions C05_post_outbox.
Print Assumptions C05_send.
Print Assumptions C05_once.
Print Assumptions C05_deliver_after_store.
Print Assumptions C05_front.
Print Assumptions C05_history.
Print Assumptions C05_normalisation.
