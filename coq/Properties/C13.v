(* C13 - type-hierarchy predicates equal the ontology's closure.
   Only statements; proofs live in Proofs/.  Domain: the 63 shipped types
   (names = GetTypeName literals read from /repo on this run). *)
From Coq Require Import String List Relations.
From Verif Require Import Base.ListX Vocab.Ontology Vocab.Spec Streams.Hier Proofs.SpecProofs Proofs.HierProofs.
From Verif Require Import Gen.TablesShipped Gen.OntologyShipped.

(* every generated function has the shape the tables assume *)
Theorem C13_shape : shape_errors = nil.
Proof. exact shape_ok. Qed.

Theorem C13_names : NoDup (type_names types_shipped) /\ set_eq (type_names types_shipped) (class_names ont_shipped) = true.
Proof. exact (conj names_nodup names_are_classes). Qed.

(* the fuelled closure is the transitive closure, for every saturated ontology *)
Theorem C13_closure_general : forall ont, saturated ont = true ->
  forall a b, In b (ancestors ont a) <-> clos_trans string (parent_rel ont) a b.
Proof. exact ancestors_correct. Qed.

Theorem C13_extends : forall a b, In a names -> In b names ->
  (gen_extends types_shipped a b = true <-> clos_trans string (parent_rel ont_shipped) a b).
Proof. exact extends_correct. Qed.

Theorem C13_extended_by : forall a b, In a names -> In b names ->
  (gen_extended_by types_shipped a b = true <-> clos_trans string (parent_rel ont_shipped) b a).
Proof. exact extended_by_correct. Qed.

Theorem C13_is_or_extends : forall a b, In a names -> In b names ->
  (gen_is_or_extends types_shipped a b = true <-> b = a \/ clos_trans string (parent_rel ont_shipped) b a).
Proof. exact is_or_extends_correct. Qed.

Theorem C13_disjoint : forall a b, In a names -> In b names ->
  (gen_disjoint types_shipped a b = true <-> DisjointSpec ont_shipped a b).
Proof. exact disjoint_correct. Qed.

Theorem C13_converse : forall a b, In a names -> In b names ->
  (gen_extends types_shipped a b = true <-> gen_extended_by types_shipped b a = true).
Proof. exact converse. Qed.

Theorem C13_disjoint_symmetric : forall a b, In a names -> In b names ->
  gen_disjoint types_shipped a b = true -> gen_disjoint types_shipped b a = true.
Proof. exact disjoint_sym. Qed.

Theorem C13_disjoint_general_symmetric : forall ont a b, DisjointSpec ont a b -> DisjointSpec ont b a.
Proof. exact DisjointSpec_sym. Qed.

Theorem C13_disjoint_irreflexive : forall a b, In a names -> In b names ->
  gen_disjoint types_shipped a b = true ->
  a <> b /\ ~ clos_trans string (parent_rel ont_shipped) a b /\ ~ clos_trans string (parent_rel ont_shipped) b a.
Proof. exact disjoint_irrefl. Qed.

(* non-vacuity: a pair related by a path of length 2, and an inherited disjointness *)
Example C13_example_path : gen_extends types_shipped "OrderedCollectionPage" "Object" = true /\
                           gen_disjoint types_shipped "Note" "Mention" = true /\
                           gen_extends types_shipped "Note" "Activity" = false.
Proof. vm_compute. repeat split. Qed.

Print Assumptions C13_shape.
Print Assumptions C13_names.
Print Assumptions C13_closure_general.
Print Assumptions C13_extends.
Print Assumptions C13_extended_by.
Print Assumptions C13_is_or_extends.
Print Assumptions C13_disjoint.
Print Assumptions C13_converse.
Print Assumptions C13_disjoint_symmetric.
Print Assumptions C13_disjoint_general_symmetric.
Print Assumptions C13_disjoint_irreflexive.
