(* C10 - handlers report each outcome exactly once, with the documented status.
   For EVERY environment: every trace of an Actor method / of the handler is
   accepted by the response monitor (no second status, no body before the
   status, no header after it) and ends in one of the three legal states:
   not handled and nothing written; handled with an error and nothing written by
   the library; handled with nil and exactly one status among 200, 201 (with a
   Location), 400, 403, 405, 410 - or, when the application's own Authenticate*
   callback answered "not authenticated", nothing written by the library.
   (That the Location equals the new activity's id is judged on the recorded
   traces with the strict monitor and carried by the replay correspondence.) *)
From Coq Require Import String List Bool.
From Verif Require Import Base.Json Base.Free Pub.Events Pub.SideEffect Pub.BaseActor Pub.Monitors Pub.Replay Proofs.OutcomeProofs.
Import ListNotations.

Definition legal (tr : list (ev * ans)) (o : outcome) : Prop :=
  exists w, run_monitor write_step w0 tr = Some w /\ outcome_ok_weak (fst o) (res_code (snd o)) w = true.

Theorem C10_post_inbox : forall cfg r tr o, runs (post_inbox_http cfg r) tr o -> legal tr o.
Proof. intros cfg r tr o H. exact (wp_sound ev ans wstate write_step _ _ _ (outcome_post_inbox cfg r) tr o H). Qed.

Theorem C10_post_outbox : forall cfg perm r tr o, runs (post_outbox_http cfg perm r) tr o -> legal tr o.
Proof. intros cfg perm r tr o H. exact (wp_sound ev ans wstate write_step _ _ _ (outcome_post_outbox cfg perm r) tr o H). Qed.

Theorem C10_get_inbox : forall cfg r tr o, runs (get_inbox_http cfg r) tr o -> legal tr o.
Proof. intros cfg r tr o H. exact (wp_sound ev ans wstate write_step _ _ _ (outcome_get_inbox cfg r) tr o H). Qed.

Theorem C10_get_outbox : forall r tr o, runs (get_outbox_http r) tr o -> legal tr o.
Proof. intros r tr o H. exact (wp_sound ev ans wstate write_step _ _ _ (outcome_get_outbox r) tr o H). Qed.

Theorem C10_handler : forall r tr o, runs (handler_http r) tr o -> legal tr o.
Proof. intros r tr o H. exact (wp_sound ev ans wstate write_step _ _ _ (outcome_handler r) tr o H). Qed.

Print Assumptions C10_post_inbox.
Print Assumptions C10_post_outbox.
Print Assumptions C10_get_inbox.
Print Assumptions C10_get_outbox.
Print Assumptions C10_handler.
