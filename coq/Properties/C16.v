(* C16 - client Update / Delete / Add / Remove / Like / Block have exactly their documented effect.
   The model programs call the effect functions of Pub/EffectSpec.v; these theorems say what the functions do,
   and - for every environment - that Add/Remove write only owned targets and only those values, that Block is
   never delivered, and that an activity lacking its object / target changes nothing. *)
From Coq Require Import String List Bool Arith.
From Verif Require Import Base.ListX Base.Json Base.Free Pub.Events Pub.Calls Pub.Value Pub.EffectSpec Pub.Util Pub.SideEffect Pub.Fed Pub.Soc Pub.BaseActor Pub.Monitors.
From Verif Require Import Proofs.OnlyProofs Proofs.OrderProofs Proofs.DeliveryProofs Proofs.ForwardIffProofs Proofs.TargetProofs Proofs.EffectProofs Proofs.StoreProofs Proofs.SocStoreProofs.
Import ListNotations.
Open Scope string_scope.
Open Scope list_scope.

(* Update: exactly the supplied top-level members are replaced, those given as JSON null are removed, others stay *)
Theorem C16_update : forall stored supplied raw t s k,
  stored = JObj t -> supplied = JObj s -> NoDup (map fst s) ->
  jget k (update_merge stored supplied raw) =
    if mem k (null_keys raw) then None else match jget k supplied with Some v => Some v | None => jget k stored end.
Proof. exact update_members. Qed.

(* Delete: a Tombstone with the same id, the former type, the original published / updated, the given time as deleted *)
Theorem C16_delete : forall obj id now_,
  let t := to_tombstone obj id now_ in
  jget "type" t = Some (JStr "Tombstone") /\ jget "id" t = Some (JStr id) /\
  jget "formerType" t = Some (JStr (type_name obj)) /\ jget "deleted" t = Some (JStr now_) /\
  jget "published" t = (if vhas obj "published" then jget "published" obj else None) /\
  jget "updated" t = (if vhas obj "updated" then jget "updated" obj else None).
Proof. exact tombstone_members. Qed.

(* Add / Remove / Like on the collection value *)
Theorem C16_add : forall cp ids tp m, tp = JObj m -> ids <> [] -> no_arrays (elems0 cp tp) = true ->
  elems0 cp (add_spec cp ids tp) = elems0 cp tp ++ map JStr ids /\ forall k, k <> cp -> jget k (add_spec cp ids tp) = jget k tp.
Proof. exact add_entries. Qed.
Theorem C16_remove : forall cp ids tp m tp', tp = JObj m -> remove_spec cp ids tp = Ok tp' -> no_arrays (elems0 cp tp) = true ->
  elems0 cp tp' = filter (fun e => match to_id cp e with Ok i => negb (mem i ids) | _ => true end) (elems0 cp tp) /\
  forall k, k <> cp -> jget k tp' = jget k tp.
Proof. exact remove_entries. Qed.
Theorem C16_like : forall ids liked m, liked = JObj m -> no_arrays (elems0 "items" liked) = true ->
  elems0 "items" (like_spec ids liked) = map JStr (rev ids) ++ elems0 "items" liked /\
  forall k, k <> "items" -> jget k (like_spec ids liked) = jget k liked.
Proof. exact like_entries. Qed.

(* for EVERY environment: the shared add / remove update a target only after Owns answered true for it, only with the
   value add_spec / remove_spec give for what Get returned, and create / delete / list nothing *)
Theorem C16_add_owned_only : forall a ids tr r, ids_of "object" a = Ok ids -> runs (add a) tr r ->
  exists s, run_monitor (eff_step (KAdd ids)) e0 tr = Some s.
Proof. intros a ids tr r Hi H. destruct (wp_sound ev ans estate _ _ _ _ (eff_add a ids Hi) tr r H) as [s [E _]]. exists s. exact E. Qed.
Theorem C16_remove_owned_only : forall a ids tr r, ids_of "object" a = Ok ids -> runs (remove a) tr r ->
  exists s, run_monitor (eff_step (KRemove ids)) e0 tr = Some s.
Proof. intros a ids tr r Hi H. destruct (wp_sound ev ans estate _ _ _ _ (eff_remove a ids Hi) tr r H) as [s [E _]]. exists s. exact E. Qed.

(* Add against ANY world (which targets are owned, what is stored for them; every environment answering accordingly): whenever
   it succeeds, the Updates issued are exactly those of the owned targets, in the order named, each writing add_spec of what
   was stored - a target this server does not own changes nothing for the targets after it - and every owned target was a
   collection.  (The federated default for Add is the same function: C04.) *)
Theorem C16_add_every_owned_target : forall owns stored env,
  (forall i, env (ELock i) = AOk) -> (forall i, env (EDb "Owns" [JStr i]) = ABool (owns i)) ->
  (forall i, env (EDb "Get" [JStr i]) = AJson (stored i)) -> (forall x, env (EDb "Update" [x]) = AOk) ->
  forall a ops ts, ids_of "object" a = Ok ops -> ids_of "target" a = Ok ts ->
  fst (run_env env (add a)) = Ok tt ->
  updates (snd (run_env env (add a))) =
    flat_map (fun t => if owns t then match collection_prop (stored t) with
                                      | Ok cp => [EDb "Update" [canon (add_spec cp ops (stored t))]]
                                      | _ => [] end else []) ts
  /\ forall t, In t ts -> owns t = true -> exists cp, collection_prop (stored t) = Ok cp.
Proof. intros owns stored env H1 H2 H3 H4 a ops ts. exact (add_updates_owned owns stored env H1 H2 H3 H4 a ops ts). Qed.

(* Remove, likewise: the Updates issued are exactly those of the owned targets, in order, each writing remove_spec of what was stored *)
Theorem C16_remove_every_owned_target : forall owns stored env,
  (forall i, env (ELock i) = AOk) -> (forall i, env (EDb "Owns" [JStr i]) = ABool (owns i)) ->
  (forall i, env (EDb "Get" [JStr i]) = AJson (stored i)) -> (forall x, env (EDb "Update" [x]) = AOk) ->
  forall a ops ts, ids_of "object" a = Ok ops -> ids_of "target" a = Ok ts ->
  fst (run_env env (remove a)) = Ok tt ->
  updates (snd (run_env env (remove a))) =
    flat_map (fun t => if owns t then match collection_prop (stored t) with
                                      | Ok cp => match remove_spec cp ops (stored t) with Ok tp' => [EDb "Update" [canon tp']] | _ => [] end
                                      | _ => [] end else []) ts.
Proof. intros owns stored env H1 H2 H3 H4 a ops ts. exact (remove_updates_owned owns stored env H1 H2 H3 H4 a ops ts). Qed.

(* the hypotheses are met: a target this server does not own, then one it owns *)
Definition ex_owned : string := "https://example.com/cols/1".
Definition ex_env (e : ev) : ans :=
  match e with
  | EDb op args =>
      if String.eqb op "Owns" then match args with [JStr i] => ABool (String.eqb i ex_owned) | _ => AErr end
      else if String.eqb op "Get" then AJson (JObj [("type", JStr "Collection"); ("id", JStr ex_owned); ("items", JStr "https://remote.example/users/erin")])
      else AOk
  | _ => AOk
  end.
Definition ex_add : json :=
  JObj [("type", JStr "Add"); ("id", JStr "https://remote.example/activities/1"); ("actor", JStr "https://remote.example/users/carol");
        ("object", JStr "https://remote.example/things/1"); ("target", JArr [JStr "https://remote.example/cols/9"; JStr ex_owned])].
Example C16_add_every_owned_target_not_vacuous :
  fst (run_env ex_env (add ex_add)) = Ok tt /\ length (updates (snd (run_env ex_env (add ex_add)))) = 1.
Proof. vm_compute. split; reflexivity. Qed.

(* for EVERY environment: a Block handled by the default callback is never handed to the transport *)
Theorem C16_block_never_delivered : forall cfg perm outbox v raw, c_social cfg = true -> mem "Block" (c_soc_other cfg) = false ->
  is_activity v = true -> type_name v = "Block" -> only nobatch (deliver_outbox cfg perm outbox v raw).
Proof. intros cfg perm outbox v raw Hs Hn Ha Ht. exact (block_not_delivered cfg perm Hs Hn outbox v raw Ha Ht). Qed.

(* for EVERY environment: lacking the required object (or target) nothing is created, updated, deleted, listed or delivered,
   and the result is never success (PostOutbox answers 400 for the two "required" errors) *)
Theorem C16_missing_changes_nothing : forall cfg perm outbox v raw ty, c_social cfg = true ->
  In ty c16_types -> is_activity v = true -> type_name v = ty -> is_or_extends ty "Create" = false -> mem ty (c_soc_other cfg) = false ->
  (object_required v = true \/ ((ty = "Add" \/ ty = "Remove") /\ target_required v = true)) ->
  only nomod (deliver_outbox cfg perm outbox v raw) /\
  leaves (fun r => match r with Ok _ => False | _ => True end) (deliver_outbox cfg perm outbox v raw).
Proof. intros cfg perm outbox v raw ty Hs. exact (missing_changes_nothing cfg perm Hs outbox v raw ty). Qed.

Example C16_example :
  let stored := JObj [("type", JStr "Note"); ("id", JStr "https://x.example/n"); ("content", JStr "old"); ("summary", JStr "s"); ("name", JStr "n")] in
  let supplied := JObj [("type", JStr "Note"); ("id", JStr "https://x.example/n"); ("content", JStr "new")] in
  let raw := JObj [("type", JStr "Note"); ("id", JStr "https://x.example/n"); ("content", JStr "new"); ("summary", JNull)] in
  update_merge stored supplied raw = JObj [("type", JStr "Note"); ("id", JStr "https://x.example/n"); ("content", JStr "new"); ("name", JStr "n")].
Proof. vm_compute. reflexivity. Qed.

(* ---- what the client-side callbacks store, against ANY world (stored : what Get answers for every id; env answers Get as
   the world does and is otherwise arbitrary - every fault elsewhere included).  S env m = the Create / Update / Delete /
   SetInbox / SetOutbox / BatchDeliver events of the run of m, in order. ---- *)
(* Update: whenever it succeeds, exactly one Update per object, in order, of update_spec applied to what is stored under the
   object's id, the object as posted, and the raw object at the same index (whose JSON nulls remove members); nothing else *)
Theorem C16_update_stores_exactly : forall stored env, (forall i, env (EDb "Get" [JStr i]) = AJson (stored i)) ->
  forall cfg raw a, res_env env (Soc.update cfg raw a) = Ok tt ->
  exists ids news,
    ids_of "object" a = Ok ids /\ length ids = length (elems0 "object" a)
    /\ Forall2 (update_written stored raw) (combine (seq 0 (length (elems0 "object" a))) (combine (elems0 "object" a) ids)) news
    /\ S env (Soc.update cfg raw a) = map (fun t => EDb "Update" [canon t]) news.
Proof. exact update_stores_world. Qed.
(* Delete: exactly one Update per named object, in order, of the Tombstone of what is stored, deleted at the clock's reading;
   the Tombstone keeps nothing of the deleted value but type / id / formerType / published / updated / deleted *)
Theorem C16_delete_tombstones_exactly : forall stored env, (forall i, env (EDb "Get" [JStr i]) = AJson (stored i)) ->
  forall cfg a z, env ENow = AZ z -> res_env env (Soc.delete cfg a) = Ok tt ->
  exists ids, ids_of "object" a = Ok ids
    /\ S env (Soc.delete cfg a) = map (fun id => EDb "Update" [canon (to_tombstone (stored id) id (Base.Time.rfc3339_utc z))]) ids.
Proof. exact delete_stores_world. Qed.
Theorem C16_tombstone_keeps_nothing_else : forall obj id now_ k,
  ~ In k ["type"; "id"; "formerType"; "published"; "updated"; "deleted"] -> jget k (to_tombstone obj id now_) = None.
Proof. exact tombstone_no_other_member. Qed.
(* Like, for EVERY environment: the actor's liked collection is read and rewritten once - like_spec puts the object ids in
   front (C16_like) - under the actor's lock, after the outbox's lock was held to find the actor; nothing else is stored *)
Theorem C16_like_stores_exactly : forall env cfg outbox a, res_env env (Soc.like cfg outbox a) = Ok tt ->
  exists actor liked ids,
    env (EDb "ActorForOutbox" [JStr outbox]) = AIri actor
    /\ env (EDb "Liked" [JStr actor]) = AJson liked
    /\ to_ids "object" (elems0 "object" a) = Ok ids
    /\ S env (Soc.like cfg outbox a) = [EDb "Update" [canon (like_spec ids liked)]]
    /\ filter is_lock (evs_env env (Soc.like cfg outbox a)) = [ELock outbox; ELock actor].
Proof. exact like_stores_any. Qed.
(* Block, for EVERY environment: nothing is stored or sent by the callback, and the activity is marked not to be delivered *)
Theorem C16_block_stores_nothing : forall env cfg a, S env (Soc.block cfg a) = [].
Proof. exact block_stores_nothing. Qed.
Theorem C16_block_not_deliverable : forall env cfg outbox raw perm a r,
  c_social cfg = true -> mem "Block" (c_soc_other cfg) = false -> type_name a = "Block" ->
  res_env env (soc_callbacks cfg outbox raw perm a) = Ok r ->
  r = (a, false) /\ S env (soc_callbacks cfg outbox raw perm a) = [].
Proof. exact block_not_deliverable. Qed.

Print Assumptions C16_update.
Print Assumptions C16_delete.
Print Assumptions C16_add.
Print Assumptions C16_remove.
Print Assumptions C16_like.
Print Assumptions C16_add_owned_only.
Print Assumptions C16_remove_owned_only.
Print Assumptions C16_block_never_delivered.
Print Assumptions C16_missing_changes_nothing.
Print Assumptions C16_add_every_owned_target.
Print Assumptions C16_remove_every_owned_target.
Print Assumptions C16_update_stores_exactly.
Print Assumptions C16_delete_tombstones_exactly.
Print Assumptions C16_tombstone_keeps_nothing_else.
Print Assumptions C16_like_stores_exactly.
Print Assumptions C16_block_stores_nothing.
Print Assumptions C16_block_not_deliverable.
