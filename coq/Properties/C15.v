(* C15 - astool is deterministic, reproduces the shipped code, and compiles extensions.
   What is decided by proof here:
   (1) for every extension vocabulary the check generates, the code astool emits is read back by the translator and the
       theorems of C13 (hierarchy predicates = closure of subClassOf), C14 (resolver dispatch), C12 (exactly the ontology's
       properties with the declared ranges, Map spelling for natural-language properties, element deserialisers trying
       every kind) and C18's table obligations are RE-CHECKED by coqc against the tables of that extension (the same
       Proofs/*.v and Properties/C1{2,3,4,8}.v files, compiled with the extension's Gen/*.v); C01's theorems are stated
       for arbitrary tables and so cover the extension's.
   (2) the one piece of astool's determinism argument that is logic: an emission order obtained by sorting does not depend
       on the order in which a Go map handed out its keys.
   Not decided by proof (no Gallina model of astool's RDF parser and code generator exists): that every emission goes
   through such a sort, byte-identical output over repeated runs, and equality with the shipped tree. These are established
   by running astool in fresh processes and comparing syntax trees - execution, not proof. *)
From Coq Require Import String List Permutation.
From Verif Require Import Astool.Order.

Theorem C15_sorted_emission_is_order_independent : forall keys keys', Permutation keys keys' -> sort_strings keys = sort_strings keys'.
Proof. exact sort_independent_of_iteration_order. Qed.
Theorem C15_sorted_emission_is_a_sort : forall keys, Permutation (sort_strings keys) keys /\ sortedb (sort_strings keys).
Proof. intros keys. split; [apply sort_perm|apply sort_sorted]. Qed.

Print Assumptions C15_sorted_emission_is_order_independent.
Print Assumptions C15_sorted_emission_is_a_sort.
