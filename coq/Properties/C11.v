(* C11 - hostile input cannot crash the handlers.
   In the model of package pub a result `Panic site` marks a place where the Go code would dereference a nil value.
   For every request (any JSON body, decoded or not), every configuration and every environment (whatever the
   Database, the Transport and the application callbacks answer - stored values and dereferenced documents included)
   no entry point ends in a panic; and every model program is a total function whose recursions consume the
   configured depth (C02_depth, C17_depth), so every run is finite. *)
From Coq Require Import String List Bool Arith.
From Verif Require Import Base.ListX Base.Json Base.Free Pub.Events Pub.Calls Pub.Value Pub.EffectSpec Pub.Util Pub.SideEffect Pub.Fed Pub.Soc Pub.BaseActor.
From Verif Require Import Proofs.OrderProofs Proofs.TotalProofs.
Import ListNotations.
Open Scope string_scope.
Open Scope list_scope.

Theorem C11_post_inbox : forall cfg r tr h res, runs (post_inbox_http cfg r) tr (h, res) -> notpanic res.
Proof. intros cfg r tr h res H. exact (leaves_runs _ _ (npo_post_inbox_http cfg r) tr (h, res) H). Qed.
Theorem C11_post_outbox : forall cfg perm r tr h res, runs (post_outbox_http cfg perm r) tr (h, res) -> notpanic res.
Proof. intros cfg perm r tr h res H. exact (leaves_runs _ _ (npo_post_outbox_http cfg perm r) tr (h, res) H). Qed.
Theorem C11_send : forall cfg perm outbox v tr res, runs (send cfg perm outbox v) tr res -> notpanic res.
Proof. intros cfg perm outbox v tr res H. exact (leaves_runs _ _ (np_send cfg perm outbox v) tr res H). Qed.
Theorem C11_get_inbox : forall cfg r tr h res, runs (get_inbox_http cfg r) tr (h, res) -> notpanic res.
Proof. intros cfg r tr h res H. exact (leaves_runs _ _ (npo_get_inbox_http cfg r) tr (h, res) H). Qed.
Theorem C11_get_outbox : forall r tr h res, runs (get_outbox_http r) tr (h, res) -> notpanic res.
Proof. intros r tr h res H. exact (leaves_runs _ _ (npo_get_outbox_http r) tr (h, res) H). Qed.
Theorem C11_handler : forall r tr h res, runs (handler_http r) tr (h, res) -> notpanic res.
Proof. intros r tr h res H. exact (leaves_runs _ _ (npo_handler_http r) tr (h, res) H). Qed.

(* the ids the code dereferences are never nil (fix F19), which is what makes the nil checks of the pure helpers dead *)
Theorem C11_ids_never_nil : forall p e i, to_id p e = Ok i -> is_nil i = false.
Proof. exact to_id_not_nil. Qed.
Theorem C11_pure_checks : forall cp ops tp a oc,
  notpanic (remove_spec cp ops tp) /\ notpanic (must_origin_match a) /\ notpanic (dedupe_ordered_items oc).
Proof. intros. split; [apply remove_spec_notpanic|split; [apply origin_match_notpanic|apply dedupe_ordered_items_notpanic]]. Qed.

(* the Social Create relies on two facts about the value it built itself: it has an object property, and every object is a value *)
Theorem C11_normalize : forall perm a, elems "object" a <> None ->
  notpanic (normalize_recipients perm a) /\
  forall a3, normalize_recipients perm a = Ok a3 -> Forall (fun e' => e_type "object" e' = Some e') (elems0 "object" a3).
Proof. exact normalize_ok. Qed.

Print Assumptions C11_post_inbox.
Print Assumptions C11_post_outbox.
Print Assumptions C11_send.
Print Assumptions C11_get_inbox.
Print Assumptions C11_get_outbox.
Print Assumptions C11_handler.
Print Assumptions C11_ids_never_nil.
Print Assumptions C11_pure_checks.
Print Assumptions C11_normalize.
