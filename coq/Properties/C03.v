(* C03 - hidden recipients (bto/bcc) never leave the server.
   no_hidden a: neither the activity nor any value embedded in its object
   property carries bto/bcc (for values whose type has these properties);
   deep_no_hidden: the same at every depth of object nesting. *)
From Coq Require Import String List Bool.
From Verif Require Import Base.ListX Base.Json Base.Free Pub.Events Pub.Calls Pub.Value Pub.Util Pub.SideEffect Pub.BaseActor.
From Verif Require Import Pub.DeliverySpec Proofs.HiddenProofs Proofs.DeliveryProofs Proofs.EffectProofs Proofs.NormalizeProofs Proofs.WrapProofs Proofs.ReceiveProofs.
Import ListNotations.
Open Scope string_scope.

(* stripping: for every activity (a JSON object) whose object elements are not bare nested arrays *)
Theorem C03_strip : forall a m, a = JObj m -> flat a = true -> no_hidden (strip_hidden a) = true.
Proof. exact strip_hidden_ok. Qed.

(* serialisation for the wire (streams.Serialize + canonical member order) neither adds nor hides anything *)
Theorem C03_payload : forall v m, v = JObj m -> no_hidden (canon (streams_serialize v)) = no_hidden v.
Proof. exact no_hidden_payload. Qed.

(* Deliver: for EVERY environment, every BatchDeliver event of Deliver(outbox, a) carries exactly the
   serialisation of the stripped activity (recipients are collected from the unstripped one: C02) *)
Theorem C03_deliver : forall outbox a tr r, runs (deliver outbox a) tr r ->
  exists u, run_monitor (pay_step (canon (streams_serialize (strip_hidden a)))) tt tr = Some u.
Proof.
  intros outbox a tr r H.
  destruct (wp_sound ev ans unit (pay_step _) _ _ _ (deliver_payload outbox a) tr r H) as [u [E _]]. exists u. exact E.
Qed.

Corollary C03_transport : forall a m, a = JObj m -> flat a = true ->
  no_hidden (canon (streams_serialize (strip_hidden a))) = true.
Proof.
  intros a m Ha Hf. assert (Hs : exists m', strip_hidden a = JObj m').
  { subst a. unfold strip_hidden. simpl. destruct (elems "object" _); [apply set_elems_obj|eexists; reflexivity]. }
  destruct Hs as [m' Hm']. rewrite (no_hidden_payload _ m' Hm'). apply (strip_hidden_ok a m Ha Hf).
Qed.

(* the GET handler: at every depth of object nesting *)
Theorem C03_handler : forall fuel v m, v = JObj m -> deep_flat fuel v = true ->
  deep_no_hidden fuel (clear_sensitive fuel v) = true.
Proof. exact clear_sensitive_ok. Qed.

(* "the hidden recipients still receive the delivery": bto and bcc are among the ids Deliver resolves (the recipients are
   collected from the UNSTRIPPED activity), so by C02_targets a hidden recipient's inbox is among the inboxes handed over *)
Theorem C03_hidden_addressed : forall a l h, collect_recipients a = Ok l ->
  (exists b, ids_of "bto" a = Ok b /\ In h b) \/ (exists b, ids_of "bcc" a = Ok b /\ In h b) -> In h l.
Proof.
  intros a l h Hc Hh. unfold collect_recipients in Hc.
  destruct (ids_of "to" a) as [t|e|p]; try discriminate Hc.
  destruct (ids_of "bto" a) as [bt|e|p]; try discriminate Hc.
  destruct (ids_of "cc" a) as [c|e|p]; try discriminate Hc.
  destruct (ids_of "bcc" a) as [bc|e|p]; try discriminate Hc.
  destruct (ids_of "audience" a) as [au|e|p]; try discriminate Hc.
  assert (E : l = (t ++ bt ++ c ++ bc ++ au)%list) by congruence. subst l.
  destruct Hh as [[b [Eb Hb]]|[b [Eb Hb]]].
  - assert (b = bt) by congruence. subst b. apply in_or_app. right. apply in_or_app. left. exact Hb.
  - assert (b = bc) by congruence. subst b. apply in_or_app. right. apply in_or_app. right. apply in_or_app. right. apply in_or_app. left. exact Hb.
Qed.
Theorem C03_hidden_receive : forall g a l t h ib, collect_recipients a = Ok l -> spec_targets g a = Ok t ->
  (exists b, ids_of "bto" a = Ok b /\ In h b) \/ (exists b, ids_of "bcc" a = Ok b /\ In h b) ->
  is_public h = false -> g_stored_inbox g h = Some ib -> ib <> g_self g -> In ib t.
Proof.
  intros g a l t h ib Hc Hs Hh Hp Hi Hn.
  destruct (spec_targets_char g a l t Hc Hs) as [_ [_ Hiff]]. apply Hiff. split; [exact Hn|].
  exists h. split; [exact (C03_hidden_addressed a l h Hc Hh)|]. split; [exact Hp|]. left. exact Hi.
Qed.

Example C03_example :
  let note := JObj [("type", JStr "Note"); ("bto", JStr "https://x.example/a"); ("content", JStr "c")] in
  let act := JObj [("type", JStr "Create"); ("bcc", JStr "https://x.example/b"); ("to", JStr "https://x.example/c"); ("object", note)] in
  no_hidden act = false /\ no_hidden (strip_hidden act) = true /\ jget "to" (strip_hidden act) = Some (JStr "https://x.example/c").
Proof. vm_compute. repeat split. Qed.

(* ---- "... and the hidden recipients still receive the delivery", as ONE statement about ONE run: Deliver run against the
   environment any federation graph g presents (the hypotheses of C02_deliver) hands the activity over exactly once; the
   hand-over lists the inbox of every hidden recipient h (bto / bcc of the activity, not Public, its inbox stored or reached
   within the depth and not the sender's own) and its payload is the serialisation of the stripped activity, which carries no
   bto / bcc.  Wrapping and normalisation keep the hidden recipients (those of a bare object, those of the embedded objects
   of a Create), so the same holds for what they produce. ---- *)
Theorem C03_hidden_recipient_receives : forall g env outbox sender sender_doc,
  (forall u, env (EDeref u) = deref_answer (g_deref g u)) -> (forall i, env (ELock i) = AOk) ->
  (forall a, env (EDb "InboxForActor" [JStr a]) = match g_stored_inbox g a with Some i => AIri i | None => ANone end) ->
  (forall b, env (ENewTransport b) = AOk) -> env (EApp "MaxDeliveryRecursionDepth" []) = ANat (g_depth g) -> g_depth g <> 0 ->
  env (EDb "ActorForOutbox" [JStr outbox]) = AIri sender -> env (EDb "Get" [JStr sender]) = AJson sender_doc ->
  get_inbox sender_doc = Ok (g_self g) -> (forall p r, env (EBatchDeliver p r) = AOk) ->
  forall a targets h ib,
  spec_targets g a = Ok targets ->
  hidden_in a h -> is_public h = false -> inbox_of g h ib -> ib <> g_self g ->
  let r := fst (run_env env (deliver outbox a)) in
  let tr := snd (run_env env (deliver outbox a)) in
  runs (deliver outbox a) (map (fun e => (e, env e)) tr) r /\
  r = Ok (strip_hidden a) /\
  exists p rs, In (EBatchDeliver p rs) tr /\ In ib rs /\ rs = targets /\
    p = canon (streams_serialize (strip_hidden a)) /\
    (flat a = true -> no_hidden p = true) /\
    forall p' rs', In (EBatchDeliver p' rs') tr -> p' = p /\ rs' = rs.
Proof. exact hidden_recipient_receives. Qed.
Theorem C03_hidden_survive_wrap : forall o actor c, wrap_in_create o actor = Ok c ->
  (forall ids, vhas o "bto" = true -> ids_of "bto" o = Ok ids -> ids_of "bto" c = Ok ids) /\
  (forall ids, vhas o "bcc" = true -> ids_of "bcc" o = Ok ids -> ids_of "bcc" c = Ok ids) /\
  (forall h, (vhas o "bto" = true /\ exists b, ids_of "bto" o = Ok b /\ In h b) \/
             (vhas o "bcc" = true /\ exists b, ids_of "bcc" o = Ok b /\ In h b) -> hidden_in c h).
Proof. exact hidden_survive_wrap. Qed.
Theorem C03_hidden_survive_normalise : forall perm, (forall l x, In x (perm l) <-> In x l) ->
  forall a m a', a = JObj m -> flat_addr a -> Forall flat_addr (elems0 "object" a) ->
  normalize_recipients perm a = Ok a' ->
  forall h, hidden_in a h \/ (exists e, In e (elems0 "object" a) /\ hidden_in e h) -> hidden_in a' h.
Proof. exact hidden_survive_normalise. Qed.

Print Assumptions C03_strip.
Print Assumptions C03_payload.
Print Assumptions C03_deliver.
Print Assumptions C03_transport.
Print Assumptions C03_handler.
Print Assumptions C03_hidden_addressed.
Print Assumptions C03_hidden_receive.
Print Assumptions C03_hidden_recipient_receives.
Print Assumptions C03_hidden_survive_wrap.
Print Assumptions C03_hidden_survive_normalise.
