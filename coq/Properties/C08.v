(* C08 - concurrent requests lose no update and process a duplicate once.
   Conc/Model.v: threads of critical sections (put an id at the front of one collection, unconditionally or only when
   absent - in which case a thread finding it present stops) interleaved at the granularity lock / read / write / unlock,
   with the application's mutual exclusion per id.  That every collection update of package pub IS such a section is what
   C09 (every Database access inside the lock of its id), C05 / C04 / C16 / C17 (the value written is the value read with
   the id at the front; membership / seen-before test and write under one hold) establish for the model programs. *)
From Coq Require Import String List Bool Arith Permutation.
From Verif Require Import Base.ListX Conc.Model Conc.Proofs.
Import ListNotations.
Open Scope string_scope.
Open Scope list_scope.

(* every interleaving is serialisable: whatever the schedule, each collection holds what the committed sections, applied
   one after another in commit order, make of its initial content *)
Theorem C08_serialisable : forall init progs g c, reach (initial init progs) g -> g_store g c = replay c (g_log g) (init c).
Proof. exact serialisable. Qed.

(* no lost update: for front-insertions the content does not depend on the order in which the sections committed -
   so it is what the same requests executed one after another put there *)
Theorem C08_no_lost_update : forall c log log' l, forallb (fun s => negb (s_cond s)) (on c log) = true -> Permutation log log' ->
  Permutation (replay c log l) (replay c log' l).
Proof. exact order_irrelevant. Qed.
Theorem C08_contents : forall c log l, forallb (fun s => negb (s_cond s)) (on c log) = true ->
  Permutation (replay c log l) (map s_id (on c log) ++ l).
Proof. exact replay_unconditional. Qed.

(* a duplicate is processed once: conditional insertion never lists an id twice, and lists every id asked for *)
Theorem C08_duplicate_once : forall c log l, NoDup l -> forallb s_cond (on c log) = true -> NoDup (replay c log l).
Proof. exact conditional_once. Qed.
Theorem C08_duplicate_present : forall c log l s, In s (on c log) -> In (s_id s) (replay c log l).
Proof. exact conditional_present. Qed.

(* no deadlock: at every reachable state with an unfinished thread some step is possible (a thread holds one lock at a time) *)
Theorem C08_no_deadlock : forall init progs g, reach (initial init progs) g -> existsb unfinishedb (g_threads g) = true -> exists g', step g g'.
Proof. exact progress. Qed.

Print Assumptions C08_serialisable.
Print Assumptions C08_no_lost_update.
Print Assumptions C08_contents.
Print Assumptions C08_duplicate_once.
Print Assumptions C08_duplicate_present.
Print Assumptions C08_no_deadlock.
